import Slock.Proofs.ValueOps
import Slock.Proofs.ValuePanic
import Slock.Proofs.ValuePipeline
/-!
C15 (value part): while a key is held, its value behaves as a single register updated by each value operation.

Model: `Slock.Value.processFrame` (= `ProcessParseLockData` + `LockManager.ProcessLockData`, repaired tree).
Spec: `Slock.Value.specApply` on `Val = none | bytes | array` (a number is its 8-byte little-endian image, `Val.num`).
`encode f` is the canonical frame `[len32 | op | flag | (proplen16 props)? | payload]` of `f : Frm`; `f.WF` says the op code is
< 64 (stage CURRENT), the property flag matches the presence of a header and the header is < 64 KiB. `CellWF` = no cell, the UNSET
marker, or a canonical image with a correct length prefix (array-flagged images hold an exact list of elements, each
shorter than 2^32 bytes — zero-length elements are ordinary elements since e6b8126).
`gate cx (mkCmd f) = true` = the stage / first-or-last gate lets the frame through.

For every op, every WF cell, every WF frame:  `processFrame cx cur (encode f) = .ok cur'` (it always returns:
`processFrame_returns`)  →  `CellWF cur' ∧ absCell cur' = specApply (absCell cur) (opOf f)`.
Remaining hypotheses are typing conditions of the register (INCR/APPEND/SHIFT act on scalars, SET-array payloads are element
lists) and the recorded finding: PIPELINE with more than one sub-frame (`pipeline_not_sequential_counterexample`).
-/
namespace Slock.C15V
open Slock.Value

/-- SET: any payload, any flags / property header (array-flagged payloads must be exact element lists). -/
theorem set_refines (cx : Ctx) (cur : Option Cell) (f : Frm) (hcur : CellWF cur) (hf : f.WF) (hop : f.op = SET)
    (ha : f.ArrOK) (hg : gate cx (mkCmd f) = true) (cur' : Option Cell) (h : processFrame cx cur (encode f) = .ok cur') :
    CellWF cur' ∧ absCell cur' = specApply (absCell cur) (.set (hasFlag f.flag fARRAY) f.payload) :=
  Slock.Value.set_refines cx cur f hcur hf hop ha hg cur' h

theorem unset_refines (cx : Ctx) (cur : Option Cell) (f : Frm) (hcur : CellWF cur) (hf : f.WF) (hop : f.op = UNSET)
    (hg : gate cx (mkCmd f) = true) (cur' : Option Cell) (h : processFrame cx cur (encode f) = .ok cur') :
    CellWF cur' ∧ absCell cur' = specApply (absCell cur) .unset :=
  Slock.Value.unset_refines cx cur f hcur hf hop hg cur' h

/-- INCR: operand of any length (first ≤ 8 bytes, zero-extended), wrap-around modulo 2^64, with or without property header on
    the operand and on the cell, on a key with or without value.  (Array cells / array-flagged operands are type errors.) -/
theorem incr_refines (cx : Ctx) (cur : Option Cell) (f : Frm) (hcur : CellWF cur) (hf : f.WF) (hop : f.op = INCR)
    (hfa : hasFlag f.flag fARRAY = false) (hna : (absCell cur).isArr = false)
    (hg : gate cx (mkCmd f) = true) (cur' : Option Cell) (h : processFrame cx cur (encode f) = .ok cur') :
    CellWF cur' ∧ absCell cur' = specApply (absCell cur) (.incr f.payload) :=
  Slock.Value.incr_refines cx cur f hcur hf hop hfa hna hg cur' h

theorem append_refines (cx : Ctx) (cur : Option Cell) (f : Frm) (hcur : CellWF cur) (hf : f.WF) (hop : f.op = APPEND)
    (hfa : hasFlag f.flag fARRAY = false) (hna : (absCell cur).isArr = false)
    (hg : gate cx (mkCmd f) = true) (cur' : Option Cell) (h : processFrame cx cur (encode f) = .ok cur') :
    CellWF cur' ∧ absCell cur' = specApply (absCell cur) (.append f.payload) :=
  Slock.Value.append_refines cx cur f hcur hf hop hfa hna hg cur' h

/-- SHIFT by any count (`f.count` = first ≤ 4 payload bytes), beyond the value length included: the value is `drop n`. -/
theorem shift_refines (cx : Ctx) (cur : Option Cell) (f : Frm) (hcur : CellWF cur) (hf : f.WF) (hop : f.op = SHIFT)
    (hna : (absCell cur).isArr = false)
    (hg : gate cx (mkCmd f) = true) (cur' : Option Cell) (h : processFrame cx cur (encode f) = .ok cur') :
    CellWF cur' ∧ absCell cur' = specApply (absCell cur) (.shift f.count) :=
  Slock.Value.shift_refines cx cur f hcur hf hop hna hg cur' h

/-- PUSH of any element — the zero-length one included (repaired, e6b8126) — onto anything (a non-array value is replaced
    by a one-element array). The bound is the 32-bit element length field. -/
theorem push_refines (cx : Ctx) (cur : Option Cell) (f : Frm) (hcur : CellWF cur) (hf : f.WF) (hop : f.op = PUSH)
    (hb : f.payload.length < 2 ^ 32)
    (hg : gate cx (mkCmd f) = true) (cur' : Option Cell) (h : processFrame cx cur (encode f) = .ok cur') :
    CellWF cur' ∧ absCell cur' = specApply (absCell cur) (.push f.payload) :=
  Slock.Value.push_refines cx cur f hcur hf hop hb hg cur' h

/-- POP of any count, beyond the array length included. -/
theorem pop_refines (cx : Ctx) (cur : Option Cell) (f : Frm) (hcur : CellWF cur) (hf : f.WF) (hop : f.op = POP)
    (hg : gate cx (mkCmd f) = true) (cur' : Option Cell) (h : processFrame cx cur (encode f) = .ok cur') :
    CellWF cur' ∧ absCell cur' = specApply (absCell cur) (.pop f.count) :=
  Slock.Value.pop_refines cx cur f hcur hf hop hg cur' h

/-- The `.ok` hypothesis above is always met: on a well-formed cell EVERY byte string returns (no panic). -/
theorem processFrame_returns (cx : Ctx) (cur : Option Cell) (frame : Bytes) (hcur : CellWF cur) :
    ∃ cur', processFrame cx cur frame = .ok cur' := by
  obtain ⟨c, h, _⟩ := processFrame_good cx cur frame (cellWF_sane cur hcur)
  exact ⟨c, h⟩

/-- A frame the stage / first-or-last gate refuses leaves the cell unchanged — every op code, PIPELINE included. -/
theorem refused_unchanged (cx : Ctx) (cur : Option Cell) (f : Frm) (hf : f.WF) (hg : gate cx (mkCmd f) = false) :
    processFrame cx cur (encode f) = .ok cur :=
  Slock.Value.processFrame_refused cx cur f hf hg

/-- A frame the PARSER refuses (any bytes) leaves the cell unchanged. -/
theorem parser_refused_unchanged (cx : Ctx) (cur : Option Cell) (frame : Bytes) (h : parseFrame frame [] = none) :
    processFrame cx cur frame = .ok cur := by
  simp [processFrame, h, pure, Except.pure]

/-- The reply value (`GetLockData`) of a well-formed cell is a frame whose length prefix is its length − 4. -/
theorem wf_cell_len_prefix (c : Cell) (h : CellWF (some c)) : lenPrefixOK c = true :=
  Slock.Value.cellWF_lenPrefixOK c h

/-
PIPELINE. Wanted: `absCell cur' = specRun (absCell cur) (ops of the sub-frames)`.  FALSE for the code
(`pipeline_not_sequential_counterexample`, recorded finding): before every non-EXECUTE sub-frame the cell is reset to the
pre-pipeline cell.  Proved instead (`pipeline_partial`): a PIPELINE holding ONE non-PIPELINE sub-frame `s` returns exactly
what `s` alone returns, up to `pipeFinish` (which only sets the persisted flag) — so value and well-formedness are those of
the seven `…_refines` theorems; and the empty PIPELINE changes nothing (`pipeline_empty`).  Missing: nested pipelines as
the single sub-frame; two or more sub-frames are false.
-/
theorem pipeline_partial (cx : Ctx) (cur : Option Cell) (fl : UInt8) (s : Frm) (hs : s.WF) (hsp : s.op ≠ PIPELINE)
    (hfl : hasFlag fl fFIRSTLAST = false) (hp : hasFlag fl fPROP = false)
    (hlen : 2 + s.hdrLen + s.payload.length < 2 ^ 32) (r : Option Cell) (h : processFrame cx cur (encode s) = .ok r) :
    processFrame cx cur (encode (pipe1 fl s)) = .ok (pipeFinish cur r)
    ∧ absCell (pipeFinish cur r) = absCell r ∧ (CellWF r → CellWF (pipeFinish cur r)) := by
  refine ⟨?_, absCell_pipeFinish cur r, cellWF_pipeFinish cur r⟩
  rw [pipeline_single cx cur fl s hs hsp hfl hp hlen, h]; rfl

theorem pipeline_empty (cx : Ctx) (cur : Option Cell) (fl : UInt8) (hfl : hasFlag fl fFIRSTLAST = false)
    (hp : hasFlag fl fPROP = false) :
    okVal (processFrame cx cur (encode ⟨PIPELINE, fl, none, []⟩)) = some (specRun (absCell cur) []) := by
  have hf : (⟨PIPELINE, fl, none, []⟩ : Frm).WF := ⟨by show PIPELINE < 64; decide, by simpa using hp, by intro p h; cases h⟩
  have hg := gate_mkCmd cx ⟨PIPELINE, fl, none, []⟩ hfl
  have hoff : cmdOff (mkCmd ⟨PIPELINE, fl, none, []⟩) = .ok 6 := by
    have := cmdOff_mkCmd _ hf; simpa [Frm.hdrLen, propHdr] using this
  have hlen : (mkCmd ⟨PIPELINE, fl, none, []⟩).data.length = 6 := by simp [mkCmd, encode_length, Frm.hdrLen, propHdr]
  have hdrop : (mkCmd ⟨PIPELINE, fl, none, []⟩).data.drop 6 = [] := by
    apply List.drop_eq_nil_of_le; omega
  have hP : processFrame cx cur (encode ⟨PIPELINE, fl, none, []⟩)
      = proc ((encode ⟨PIPELINE, fl, none, []⟩).length + 1) cx cur (mkCmd ⟨PIPELINE, fl, none, []⟩) := by
    simp only [processFrame, parseFrame_encode _ hf]
  rw [hP, proc_pipeline _ cx cur _ hg rfl 6 hoff (by omega), hdrop, pipeLoop_nil]
  simp only [bind, Except.bind, pure, Except.pure, okVal, specRun, List.foldl_nil, absCell_pipeFinish]

/-! ### recorded findings: counterexamples on the code (executable model, `decide`; replayed on the real code by the
harness monitor `value-mismatch:PIPELINE`) -/

/-- On value "x", PIPELINE[SET "a", APPEND "b"] leaves "xb"; the sequential interpreter says "ab". -/
theorem pipeline_not_sequential_counterexample :
    okVal (runAll cx0 none [[3,0,0,0, 0,0, 0x78], [16,0,0,0, 6,0, 3,0,0,0,0,0,0x61, 3,0,0,0,3,0,0x62]]) = some (.bytes [0x78, 0x62])
    ∧ specRun .none [.set false [0x78], .set false [0x61], .append [0x62]] = .bytes [0x61, 0x62] := by
  decide

/-! ### the inputs of the repaired defects now agree with the interpreter (regression witnesses, `decide`) -/

/-- SET "abc"; SHIFT 4 leaves "" (was: panic) — commit f7f91cc. -/
theorem shift_beyond_length_repaired :
    okVal (runAll cx0 none [[5,0,0,0, 0,0, 0x61,0x62,0x63], [6,0,0,0, 4,1, 4,0,0,0]]) = some (.bytes [])
    ∧ specRun .none [.set false [0x61,0x62,0x63], .shift 4] = .bytes [] := by
  decide

/-- PUSH "", PUSH "a", POP 1 leaves ["a"], and PUSH "a", PUSH "" keeps the trailing empty element (was: [] — POP skipped and
    dropped zero-length elements and never read a trailing one) — commit e6b8126. -/
theorem pop_zero_length_element_repaired :
    okVal (runAll cx0 none [[2,0,0,0, 7,0], [3,0,0,0, 7,0, 0x61], [6,0,0,0, 8,1, 1,0,0,0]]) = some (.array [[0x61]])
    ∧ specRun .none [.push [], .push [0x61], .pop 1] = .array [[0x61]]
    ∧ okVal (runAll cx0 none [[3,0,0,0, 7,0, 0x61], [2,0,0,0, 7,0]]) = some (.array [[0x61], []])
    ∧ okVal (runAll cx0 none [[3,0,0,0, 7,0, 0x61], [2,0,0,0, 7,0], [6,0,0,0, 8,1, 1,0,0,0]]) = some (.array [[]]) := by
  decide

/-- INCR with a 1-byte operand on a cell with a property header: value 5+3 and a correct length prefix (was: prefix 0)
    — commit 0995d27. -/
theorem incr_short_operand_props_repaired :
    okCellAll (fun c => lenPrefixOK c && c.data.take 4 == [15,0,0,0] && c.data.length == 19)
      (runAll cx0 none [[8,0,0,0, 0,0x10, 3,0, 1,0,0, 5], [3,0,0,0, 2,1, 3]]) = true
    ∧ okVal (runAll cx0 none [[8,0,0,0, 0,0x10, 3,0, 1,0,0, 5], [3,0,0,0, 2,1, 3]]) = some (Val.num 8) := by
  decide

/-- INCR with a 4-byte operand on a key without value starts the counter at the operand (was: nil dereference)
    — commit 076286b. -/
theorem incr_short_operand_no_cell_repaired :
    okVal (processFrame cx0 none [6,0,0,0, 2,1, 1,0,0,0]) = some (Val.num 1) := by
  decide

/-! hypotheses are satisfiable by non-trivial states -/
example : CellWF (some ⟨encode (img 0x12 (some [1,0,0]) (encElems [[7],[8,9]])), [], PUSH, false⟩) :=
  CellWF.data _ _ _ _ rfl (img_WF _ _ _ (by decide) (by intro p h; cases h; decide))
    (fun _ => ⟨[[7],[8,9]], rfl, by intro x hx; simp at hx; rcases hx with h | h <;> subst h <;> decide⟩) (by decide)

example : (⟨INCR, 0x11, some [1,0,0], le64 5⟩ : Frm).WF := ⟨by decide, by decide, by intro p h; cases h; decide⟩

end Slock.C15V
