import Slock.Properties.EngineSim
import Slock.Properties.EngineSimTick
import Slock.Proofs.EngineSimCongr
import Slock.Proofs.EngineSimWU
import Slock.Proofs.EngineQuiet
import Slock.Proofs.EngineSimTickSQTick
import Slock.Properties.C04
/-!
# EngineSimRun — the closing statement of the stage-2 → stage-1 simulation

For every sequence of LOCK / UNLOCK / role-flip operations AND CLOCK TICKS of the record-level model in which no command carries a value
frame, no key record ever has a value cell, every tick happens on the leader (`Properties/EngineSimTick.lean`: off-leader the record-level
expiry sweep defers, stage 1 has no such rule) and RequestIds are connection-unique (the premise of C03 / C05), there is a sequence of
stage-1 operations of the same length whose stage-1 run ends in a state `Equiv` to `abs` of the record-level state (`sim_run`). Stage-1
theorems about reachable states then hold of `abs` of such record-level states: `C01_mutex_transfers`.

The UNLOCK commands of the stage-1 sequence carry the `mgr` flag "does the key record exist" (stage 1 has no key records; the flag
selects between its STATE_ERROR and UNLOCK_ERROR replies off-leader).
-/
namespace Slock.SimP
open Slock Slock.Sim
open Slock.Engine (has)

/-- the premises on one operation, in the state it is applied to -/
def StepOK (s : Engine2.DB) : Engine2.Op → Prop
  | .lock c none => (s.getKey c.key).cell = none
  | .unlock _ none => True
  | .setLeader _ => True
  | .tick => s.leader = true
  | _ => False

/-- … on a whole sequence -/
def RunOK : Engine2.DB → List Engine2.Op → Prop
  | _, [] => True
  | s, o :: ops => StepOK s o ∧ RunOK (Engine2.step s o).1 ops

/-- the stage-1 operation a record-level operation is, in the state it is applied to -/
def img (s : Engine2.DB) : Engine2.Op → C01.Op
  | .lock c _ => .lock c
  | .unlock c _ => .unlock { c with mgr := s.hasKey c.key }
  | .tick => .tick
  | .setLeader b => .setLeader b

theorem abs_init (now aofTime : Nat) : Equiv (Engine2.abs (Engine2.DB.init now aofTime)) (Engine.DB.init now) :=
  ⟨rfl, rfl, rfl, rfl, rfl, rfl, fun _ => rfl⟩

theorem reachable2_step {s : Engine2.DB} (h : Reachable2 s) (o : Engine2.Op) : Reachable2 (Engine2.step s o).1 := by
  obtain ⟨now, a, ops, e⟩ := h
  refine ⟨now, a, ops ++ [o], ?_⟩
  rw [e]
  unfold Engine2.run
  rw [List.foldl_append]
  rfl

/-- **one step**: the record-level operation on `s` and its stage-1 image on any `a` that is `Equiv` to `abs s` -/
theorem sim_step {s : Engine2.DB} (hr : Reachable2 s) {a : Engine.DB} (he : Equiv (Engine2.abs s) a) (hi : Inv1 a) (o : Engine2.Op) (ho : StepOK s o)
    (hf : match img s o with | .lock c => Engine.Fresh a c | _ => True) :
    Equiv (Engine2.abs (Engine2.step s o).1) (C01.step a (img s o)) ∧ Inv1 (C01.step a (img s o)) := by
  have hkabs : ∀ n, Engine2.Key.abs (s.getKey n) = a.getKey n := fun n => (abs_is_key_local hr n).symm.trans (he.keys n)
  have ki : ∀ n, Engine.KeyInv (Engine2.Key.abs (s.getKey n)) := fun n => by rw [hkabs]; exact Engine.getKey_inv hi.inv n
  have fl : ∀ n, (Engine2.Key.abs (s.getKey n)).waited = true → (Engine2.Key.abs (s.getKey n)).waiters ≠ [] := fun n => by
    rw [hkabs]; exact (Engine.getKey_quiet hi.quiet n).flag.mp
  cases o with
  | lock c d =>
    cases d with
    | some _ => exact absurd ho (by simp [StepOK])
    | none =>
      have hcell : (s.getKey c.key).cell = none := ho
      obtain ⟨e1, _⟩ := sim_lock hr c hcell (ki c.key) (fl c.key)
      obtain ⟨e2, _⟩ := opLock_congr he c
      have hf' : Engine.Fresh a c := hf
      have hfa : Engine.FreshK a c := fun w hw => hf' w (Engine.mem_getKey_waiters hw)
      exact ⟨e1.trans e2, Engine.opLock_inv a c hi.inv, Engine.opLock_quiet a c hi.quiet, Engine.opLock_wu a c hfa hi.wu,
        Engine.opLock_cinv_kn a c hi.kn, SimTick.opLock_sq a c hi.kn hi.sq, Engine.opLock_KW a c hi.kw, Engine.opLock_HN a c hi.kw hi.hn,
        Engine.opLock_qinv a c hf' hi.qinv⟩
  | unlock c d =>
    cases d with
    | some _ => exact absurd ho (by simp [StepOK])
    | none =>
      have wu : ((Engine2.Key.abs (s.getKey c.key)).waiters.map rcOf).Nodup := by
        rw [hkabs]; exact Engine.getKey_wu hi.wu c.key
      obtain ⟨e1, _⟩ := sim_unlock hr c (ki c.key) (fl c.key) wu
      obtain ⟨e2, _⟩ := opUnlock_congr he { c with mgr := s.hasKey c.key }
      exact ⟨e1.trans e2, Engine.opUnlock_inv a _ hi.inv, Engine.opUnlock_quiet a _ hi.quiet, Engine.opUnlock_wu a _ hi.wu,
        Engine.opUnlock_kn a _ hi.kn, SimTick.opUnlock_sq a _ hi.kn hi.sq, Engine.opUnlock_KW a _ hi.kw, Engine.opUnlock_HN a _ hi.kw hi.hn,
        Engine.opUnlock_qinv a _ hi.qinv⟩
  | tick =>
    have hld : s.leader = true := ho
    obtain ⟨e1, _, i1⟩ := sim_tick hr hld he hi
    exact ⟨e1, i1⟩
  | setLeader b =>
    exact ⟨setLeader_congr he b, hi.inv.of_keys_eq rfl, hi.quiet.of_keys_eq rfl, hi.wu.of_keys_eq rfl, hi.kn.of_keys_eq rfl,
      hi.sq.of_keys_eq rfl (Nat.le_refl _), hi.kw.of_sub (fun _ _ hx => hx.of_keys_eq rfl),
      ⟨hi.hn.ec, hi.hn.hu.of_keys_seq rfl (Nat.le_refl _), fun n x hx => hi.hn.ok n x (hx.of_keys_eq rfl), fun n x hx => hi.hn.lb n x (hx.of_keys_eq rfl)⟩,
      ⟨hi.qinv.1.of_sub (fun _ hx => hx), hi.qinv.2.of_keys_eq rfl⟩⟩

/-- the stage-1 sequence of a record-level run -/
def imgs : Engine2.DB → List Engine2.Op → List C01.Op
  | _, [] => []
  | s, o :: ops => img s o :: imgs (Engine2.step s o).1 ops

theorem imgs_length (s : Engine2.DB) (ops : List Engine2.Op) : (imgs s ops).length = ops.length := by
  induction ops generalizing s with
  | nil => rfl
  | cons o os ih => simp only [imgs, List.length_cons]; rw [ih]

theorem sim_run_from (ops : List Engine2.Op) : ∀ (s : Engine2.DB) (a : Engine.DB), Reachable2 s → Equiv (Engine2.abs s) a → Inv1 a → RunOK s ops →
    C04.FreshRun a (imgs s ops) →
    Equiv (Engine2.abs (Engine2.run s ops)) (C01.run a (imgs s ops)) ∧ Inv1 (C01.run a (imgs s ops)) := by
  induction ops with
  | nil => intro s a _ he hi _ _; exact ⟨he, hi⟩
  | cons o os ih =>
    intro s a hr he hi hok hfr
    obtain ⟨e1, i1⟩ := sim_step hr he hi o hok.1 hfr.1
    have := ih (Engine2.step s o).1 (C01.step a (img s o)) (reachable2_step hr o) e1 i1 hok.2 hfr.2
    exact this

/-- the (connection, RequestId) pairs a sequence issues -/
def issued2 : List Engine2.Op → List (Nat × Nat)
  | [] => []
  | .lock c _ :: ops => (c.conn, c.req) :: issued2 ops
  | .unlock c _ :: ops => (c.conn, c.req) :: issued2 ops
  | _ :: ops => issued2 ops

theorem issued_imgs (ops : List Engine2.Op) : ∀ s, C03.issued (imgs s ops) = issued2 ops := by
  induction ops with
  | nil => intro _; rfl
  | cons o os ih =>
    intro s
    cases o with
    | lock c d => simp only [imgs, img, C03.issued, issued2]; rw [ih]
    | unlock c d => simp only [imgs, img, C03.issued, issued2]; rw [ih]
    | tick => simp only [imgs, img, C03.issued, issued2]; rw [ih]
    | setLeader b => simp only [imgs, img, C03.issued, issued2]; rw [ih]

/-- **The closing statement** (runs WITH clock ticks): operations without value frames on key records without value cells, ticks on the leader
(`RunOK`), connection-unique RequestIds (`hu`, the premise of C03 / C05). -/
theorem sim_run (now aofTime : Nat) (ops : List Engine2.Op) (hok : RunOK (Engine2.DB.init now aofTime) ops)
    (hu : ∀ x, (issued2 ops).count x ≤ 1) :
    ∃ ops1 : List C01.Op, ops1.length = ops.length ∧
      Equiv (Engine2.abs (Engine2.run (Engine2.DB.init now aofTime) ops)) (C01.run (Engine.DB.init now) ops1) :=
  ⟨imgs _ ops, imgs_length _ ops,
    (sim_run_from ops (Engine2.DB.init now aofTime) (Engine.DB.init now) ⟨now, aofTime, [], rfl⟩ (abs_init now aofTime) (Inv1.init now) hok
      (C04.freshRun_of_unique now _ (by rw [issued_imgs]; exact hu))).1⟩

theorem mem_imgs (ops : List Engine2.Op) : ∀ (s : Engine2.DB) (cmd : Engine.Cmd), C01.Op.lock cmd ∈ imgs s ops → ∃ d, Engine2.Op.lock cmd d ∈ ops := by
  induction ops with
  | nil => intro s cmd h; simp [imgs] at h
  | cons o os ih =>
    intro s cmd h
    simp only [imgs, List.mem_cons] at h
    rcases h with h | h
    · cases o with
      | lock c d =>
        simp only [img] at h
        injection h with h
        exact ⟨d, by rw [h]; simp⟩
      | unlock c d => simp [img] at h
      | tick => simp [img] at h
      | setLeader b => simp [img] at h
    · obtain ⟨d, hd⟩ := ih _ cmd h
      exact ⟨d, List.mem_cons_of_mem _ hd⟩

/-- **A stage-1 theorem about reachable states, transferred to the record-level model** (C01, mutual exclusion): in a run of LOCK /
UNLOCK / role flips / clock ticks on the leader (premises `RunOK`) in which every LOCK for key `k` carries `Count = 0`, the key record of `k` never has two live
holder records — `currentLock` plus the live entries of the holder queue are at most one. -/
theorem C01_mutex_transfers (now aofTime : Nat) (ops : List Engine2.Op) (hok : RunOK (Engine2.DB.init now aofTime) ops)
    (hid : ∀ x, (issued2 ops).count x ≤ 1) (k : Nat)
    (hu : ∀ c d, Engine2.Op.lock c d ∈ ops → c.key = k → c.count = 0) :
    ((Engine2.run (Engine2.DB.init now aofTime) ops).getKey k).holders.length ≤ 1 := by
  have hr : Reachable2 (Engine2.run (Engine2.DB.init now aofTime) ops) := ⟨now, aofTime, ops, rfl⟩
  obtain ⟨he, _⟩ := sim_run_from ops (Engine2.DB.init now aofTime) (Engine.DB.init now) ⟨now, aofTime, [], rfl⟩ (abs_init now aofTime) (Inv1.init now) hok
    (C04.freshRun_of_unique now _ (by rw [issued_imgs]; exact hid))
  have h1 := C01.C01_mutex now (imgs (Engine2.DB.init now aofTime) ops) k (fun cmd hm hk => by
    obtain ⟨d, hd⟩ := mem_imgs ops _ cmd hm
    exact hu cmd d hd hk)
  have e : (C01.run (Engine.DB.init now) (imgs (Engine2.DB.init now aofTime) ops)).getKey k =
      Engine2.Key.abs ((Engine2.run (Engine2.DB.init now aofTime) ops).getKey k) := by
    have := he.keys k
    rw [abs_is_key_local hr k] at this
    exact this.symm
  rw [e] at h1
  have : (Engine2.Key.abs ((Engine2.run (Engine2.DB.init now aofTime) ops).getKey k)).holders.length =
      ((Engine2.run (Engine2.DB.init now aofTime) ops).getKey k).holders.length := by
    unfold Engine2.Key.abs; simp
  rw [this] at h1
  exact h1

/-! ### the premises are satisfiable: a direct grant, a request that has to wait, the release that wakes it -/

def cH : Engine.Cmd := { req := 1, conn := 1, flag := 0, lockId := 1, key := 7, tflag := 0, timeout := 0, eflag := 0, expried := 50, count := 0, rcount := 0 }
def cW : Engine.Cmd := { cH with req := 2, lockId := 2, timeout := 5 }
def cU : Engine.Cmd := { cH with req := 3 }
def demo : List Engine2.Op := [.lock cH none, .lock cW none, .unlock cU none]

example : RunOK (Engine2.DB.init 100 0) demo := by
  refine ⟨?_, ?_, trivial, trivial⟩
  · show ((Engine2.DB.init 100 0).getKey cH.key).cell = none
    decide
  · show ((Engine2.step (Engine2.DB.init 100 0) (.lock cH none)).1.getKey cW.key).cell = none
    decide

example : ∀ x ∈ issued2 demo, (issued2 demo).count x ≤ 1 := by decide

/-- after the release the queued request holds the lock -/
example : ((Engine2.run (Engine2.DB.init 100 0) demo).getKey 7).holders.length = 1 := by decide

/-! ### … and with clock ticks: a request that times out, a hold that expires (both sweeps fire; every tick on the leader) -/

def demoT : List Engine2.Op := [.lock tH none, .lock tW none, .tick, .tick, .tick]

example : RunOK (Engine2.DB.init 100 0) demoT := by
  refine ⟨?_, ?_, ?_, ?_, ?_, trivial⟩
  · show ((Engine2.DB.init 100 0).getKey tH.key).cell = none
    decide
  · show ((Engine2.run (Engine2.DB.init 100 0) [.lock tH none]).getKey tW.key).cell = none
    decide
  · show (Engine2.run (Engine2.DB.init 100 0) [.lock tH none, .lock tW none]).leader = true
    decide
  · show (Engine2.run (Engine2.DB.init 100 0) [.lock tH none, .lock tW none, .tick]).leader = true
    decide
  · show (Engine2.run (Engine2.DB.init 100 0) [.lock tH none, .lock tW none, .tick, .tick]).leader = true
    decide

example : ∀ x ∈ issued2 demoT, (issued2 demoT).count x ≤ 1 := by decide

/-- the hypotheses of `sim_tick` are jointly satisfiable at a state whose next tick fires a timeout: reachable, on the leader, with a
stage-1 database `Equiv` to `abs` that satisfies `Inv1` (obtained from the simulation of the run so far) -/
example : ∃ a : Engine.DB, Reachable2 (Engine2.run (Engine2.DB.init 100 0) [.lock tH none, .lock tW none, .tick]) ∧
    (Engine2.run (Engine2.DB.init 100 0) [.lock tH none, .lock tW none, .tick]).leader = true ∧
    Equiv (Engine2.abs (Engine2.run (Engine2.DB.init 100 0) [.lock tH none, .lock tW none, .tick])) a ∧ Inv1 a := by
  have hok : RunOK (Engine2.DB.init 100 0) [.lock tH none, .lock tW none, .tick] := by
    refine ⟨?_, ?_, ?_, trivial⟩
    · show ((Engine2.DB.init 100 0).getKey tH.key).cell = none
      decide
    · show ((Engine2.run (Engine2.DB.init 100 0) [.lock tH none]).getKey tW.key).cell = none
      decide
    · show (Engine2.run (Engine2.DB.init 100 0) [.lock tH none, .lock tW none]).leader = true
      decide
  have hfr := C04.freshRun_of_unique 100 (imgs (Engine2.DB.init 100 0) [.lock tH none, .lock tW none, .tick]) (by rw [issued_imgs]; exact List.nodup_iff_count.mp (by decide))
  obtain ⟨e, i⟩ := sim_run_from [.lock tH none, .lock tW none, .tick] (Engine2.DB.init 100 0) (Engine.DB.init 100) ⟨100, 0, [], rfl⟩ (abs_init 100 0)
    (Inv1.init 100) hok hfr
  exact ⟨_, ⟨100, 0, _, rfl⟩, by decide, e, i⟩

/-- the second tick answers the queued request with TIMEOUT (8), the third ends the hold with EXPRIED (9); afterwards nothing is held -/
example : (Engine2.step (Engine2.run (Engine2.DB.init 100 0) [.lock tH none, .lock tW none, .tick]) .tick).2.map (·.r.result) = [8] := by decide
example : (Engine2.step (Engine2.run (Engine2.DB.init 100 0) [.lock tH none, .lock tW none, .tick, .tick]) .tick).2.map (·.r.result) = [9] := by decide
example : ((Engine2.run (Engine2.DB.init 100 0) demoT).getKey 7).holders.length = 0 := by decide

end Slock.SimP
