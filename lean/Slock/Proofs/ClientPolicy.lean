import Slock.Proofs.EngineExpiry
/-!
Per-key *policies* over M-ENGINE (used by C19): a discipline `D` on the LOCK commands addressed to one key `K`, and a
property `HP` of that key's holder list which the engine then maintains through EVERY operation (lock, unlock, the two
sweeps of a tick), for every other traffic on every other key. One generic walk; the client primitives instantiate it
(`Slock/Proofs/ClientPolicies.lean`).
-/
namespace Slock.Engine

structure Policy where
  K : Nat
  /-- discipline of the LOCK commands whose key is `K` -/
  D : Cmd → Prop
  /-- what the key's holder list satisfies -/
  HP : List Hold → Prop
  D_conn : ∀ (c : Cmd) (n : Nat), D c → D { c with conn := n }
  hp_nil : HP []
  hp_remove : ∀ (hs : List Hold) (h : Hold), HP hs → HP (removeHolder hs h)
  hp_same : ∀ (hs : List Hold) (h h' : Hold), HP hs → h ∈ hs → h'.cmd = h.cmd → HP (replaceHolder hs h h')
  hp_grant : ∀ (k : Key) (c : Cmd) (h : Hold), KeyInv k → HP k.holders → D c → doLock k c = true → h.cmd = c → h.depth = 1 →
    HP (k.holders ++ [h])
  hp_update : ∀ (k : Key) (c : Cmd) (h h' : Hold), KeyInv k → HP k.holders → h ∈ k.holders → D c → has c.flag F_UPDATE = true →
    h'.cmd = { c with lockId := h.cmd.lockId } → HP (replaceHolder k.holders h h')
  hp_relock : ∀ (k : Key) (c : Cmd) (h h' : Hold), KeyInv k → HP k.holders → h ∈ k.holders → D c → h.cmd.lockId = c.lockId →
    h.depth ≤ c.rcount → h'.cmd = c → HP (replaceHolder k.holders h h')

/-- queued requests sit under their own key; on key `K` they obey the discipline and the holders satisfy `HP` -/
def KeyPol (P : Policy) (k : Key) : Prop :=
  (∀ w ∈ k.waiters, w.cmd.key = k.key) ∧ (k.key = P.K → (∀ w ∈ k.waiters, P.D w.cmd) ∧ P.HP k.holders)

def DBPol (P : Policy) (db : DB) : Prop := ∀ k ∈ db.keys, KeyPol P k

/-- both invariants, as carried through the operations -/
def PolInv (P : Policy) (db : DB) : Prop := DBInv db ∧ DBPol P db

variable {P : Policy}

theorem KeyPol.empty (n : Nat) : KeyPol P (emptyKey n) :=
  ⟨by intro w hw; simp [emptyKey] at hw, fun _ => ⟨by intro w hw; simp [emptyKey] at hw, P.hp_nil⟩⟩

theorem DBPol.init (n : Nat) : DBPol P (DB.init n) := by intro k hk; simp [DB.init] at hk

theorem getKey_pol {db : DB} (h : DBPol P db) (n : Nat) : KeyPol P (db.getKey n) := by
  unfold DB.getKey
  cases hf : db.keys.find? (·.key == n) with
  | none => exact KeyPol.empty n
  | some k => exact h k (List.mem_of_find?_eq_some hf)

theorem setKey_pol {db : DB} (h : DBPol P db) {k : Key} (hk : KeyPol P k) : DBPol P (db.setKey k) := by
  unfold DB.setKey
  intro x hx
  simp only [] at hx
  split at hx
  · exact h x (List.mem_filter.mp hx).1
  · rcases List.mem_append.mp hx with h1 | h1
    · exact h x (List.mem_filter.mp h1).1
    · simp at h1; rw [h1]; exact hk

theorem DBPol.of_keys_eq {db db' : DB} (h : DBPol P db) (e : db'.keys = db.keys) : DBPol P db' := by
  intro k hk; rw [e] at hk; exact h k hk

/-- every queued request of the whole database obeys the discipline if it is addressed to `K` -/
theorem DBPol.allW {db : DB} (h : DBPol P db) {w : Waiter} (hw : w ∈ allW db) : w.cmd.key = P.K → P.D w.cmd := by
  obtain ⟨k, hk, hwk⟩ := mem_allW.mp hw
  intro e
  have hp := h k hk
  exact (hp.2 (by rw [← hp.1 w hwk]; exact e)).1 w hwk

/-! ### key-level steps -/

/-- changing only the queue, to a sub-collection of it -/
theorem KeyPol.waiters_sub {k : Key} (hk : KeyPol P k) (ws : List Waiter) (b : Bool) (hs : ∀ w ∈ ws, w ∈ k.waiters) :
    KeyPol P { k with waiters := ws, waited := b } :=
  ⟨fun w hw => hk.1 w (hs w hw), fun e => ⟨fun w hw => (hk.2 e).1 w (hs w hw), (hk.2 e).2⟩⟩

/-- changing only the holders -/
theorem KeyPol.holders {k : Key} (hk : KeyPol P k) (hs : List Hold) (l : Nat) (hh : k.key = P.K → P.HP hs) :
    KeyPol P { k with holders := hs, locked := l } :=
  ⟨hk.1, fun e => ⟨(hk.2 e).1, hh e⟩⟩

theorem doLock_congr (k : Key) (ws : List Waiter) (b : Bool) (c : Cmd) (n : Nat) :
    doLock { k with waiters := ws, waited := b } { c with conn := n } = doLock k c := rfl

theorem grantHold_pol (db : DB) (k : Key) (c : Cmd) (hi : KeyInv k) (hk : KeyPol P k) (hd : doLock k c = true)
    (hc : k.key = P.K → P.D c) : KeyPol P (grantHold db k c).2 := by
  obtain ⟨h, hh, hdep, hcmd, _, hw, _, hkey⟩ := grantHold_holders db k c
  refine ⟨?_, ?_⟩
  · intro w hm; rw [hw] at hm; rw [hkey]; exact hk.1 w hm
  · intro e
    rw [hkey] at e
    refine ⟨?_, ?_⟩
    · intro w hm; rw [hw] at hm; exact (hk.2 e).1 w hm
    · rw [hh]; exact P.hp_grant k c h hi (hk.2 e).2 (hc e) hd hcmd hdep

theorem wakeIter_pol {db : DB} {k : Key} (hi : KeyInv k) (hk : KeyPol P k) {db' : DB} {k' : Key} {r : Reply}
    (h : wakeIter db k = some (db', k', r)) : KeyPol P k' := by
  unfold wakeIter at h
  cases hw : k.waiters with
  | nil => simp [hw] at h
  | cons w rest =>
    simp only [hw] at h
    have hsub : ∀ x ∈ rest, x ∈ k.waiters := by intro x hx; rw [hw]; exact List.mem_cons_of_mem _ hx
    have hk1 : KeyPol P { k with waiters := rest } := hk.waiters_sub rest k.waited hsub
    by_cases hd : doLock k w.cmd = true
    · simp only [hd, Bool.not_true, Bool.false_eq_true, if_false] at h
      by_cases he : w.cmd.expried > 0
      · simp only [he, if_true] at h
        injection h with h; injection h with h1 h2; injection h2 with h2 h3
        rw [← h2]
        refine grantHold_pol _ _ _ (waiters_inv hi rest k.waited) hk1 ?_ ?_
        · rw [doLock_congr]; exact hd
        · intro e
          exact P.D_conn _ _ ((hk.2 e).1 w (by rw [hw]; simp))
      · simp only [he, if_false] at h
        injection h with h; injection h with h1 h2; injection h2 with h2 h3
        rw [← h2]
        exact hk1
    · simp [hd] at h

theorem wakePass_pol (fuel : Nat) (db : DB) (k : Key) (out : List Reply) (hi : KeyInv k) (hk : KeyPol P k) :
    KeyPol P (wakePass fuel db k out).2.1 := by
  induction fuel generalizing db k out with
  | zero => unfold wakePass; split <;> exact hk
  | succ n ih =>
    unfold wakePass
    split
    · exact hk
    · cases hw : wakeIter db k with
      | none =>
        simp only []
        split
        · exact hk.waiters_sub k.waiters false (fun w hw => hw)
        · exact hk
      | some t =>
        obtain ⟨db', k', r⟩ := t
        simp only []
        exact ih db' k' _ (wakeIter_inv hi hw) (wakeIter_pol hi hk hw)

theorem wake_pol (db : DB) (k : Key) (out : List Reply) (hi : KeyInv k) (hk : KeyPol P k) : KeyPol P (wake db k out).2.1 :=
  wakePass_pol _ db k out hi hk

theorem wake_setKey_pol {db0 db : DB} {k : Key} (out : List Reply) (h0 : DBPol P db0) (e : db.keys = db0.keys)
    (hi : KeyInv k) (hk : KeyPol P k) : DBPol P ((wake db k out).1.setKey (wake db k out).2.1) :=
  setKey_pol (h0.of_keys_eq (by rw [wake_keys, e])) (wake_pol db k out hi hk)

/-! ### facts read off the classification -/

theorem updateHold_cmd (db : DB) (h : Hold) (c : Cmd) : (updateHold db h c).2.cmd = c := by
  unfold updateHold
  split
  · rfl
  · simp only []
    split
    · split <;> rfl
    · rfl

theorem findHolder_lockId {k : Key} {id : Nat} {h : Hold} (hf : findHolder k id = some h) : h.cmd.lockId = id := by
  unfold findHolder at hf
  have := List.find?_some hf
  simpa using this

theorem classifyLock_update_flag (db : DB) (c : Cmd) (h : Hold) (hb : classifyLock db c = .update h) :
    has c.flag F_UPDATE = true := by
  unfold classifyLock at hb
  simp only [] at hb
  repeat' split at hb
  all_goals (try (simp at hb))
  all_goals (first | (simp_all; done) | skip)

theorem classifyLock_relock_facts (db : DB) (c : Cmd) (h : Hold) (hb : classifyLock db c = .relock h) :
    findHolder (db.getKey c.key) c.lockId = some h ∧ h.depth ≤ c.rcount := by
  unfold classifyLock at hb
  simp only [] at hb
  repeat' split at hb
  all_goals (try (simp at hb))
  all_goals (first | (subst hb; simp_all; done) | (obtain rfl := hb; simp_all; done) | skip)

theorem classifyLock_queue_key (db : DB) (c : Cmd) : (db.getKey c.key).key = c.key := getKey_key db c.key

theorem removeWaiter_sub {ws : List Waiter} {w : Waiter} : ∀ x ∈ removeWaiter ws w, x ∈ ws :=
  fun _ hx => mem_removeWaiter hx

/-! ### LOCK / UNLOCK -/

theorem opLock_pol (db : DB) (c : Cmd) (hc : c.key = P.K → P.D c) (h : PolInv P db) : PolInv P (opLock db c).1 := by
  refine ⟨opLock_inv db c h.1, ?_⟩
  obtain ⟨hinv, hp⟩ := h
  unfold opLock
  have hi := getKey_inv hinv c.key
  have hk : KeyPol P (db.getKey c.key) := getKey_pol hp c.key
  have hkey := getKey_key db c.key
  have hc' : (db.getKey c.key).key = P.K → P.D c := fun e => hc (by rw [← hkey]; exact e)
  cases hb : classifyLock db c with
  | p0a | p0b | stateError | unlockedWaitRefused | timeout => exact hp
  | «show» cur | updateEqual h' | relockNoHold h' | relockRefused h' => exact hp
  | update h' =>
    have hm := classifyLock_mem db c h' (by rw [hb]; rfl)
    have hf := classifyLock_update_flag db c h' hb
    simp only [applyLock]
    refine wake_setKey_pol _ hp (updateHold_db_keys _ _ _) (replace_inv hi hm (updateHold_depth _ _ _)) ?_
    exact ⟨hk.1, fun e => ⟨(hk.2 e).1, P.hp_update _ c h' _ hi (hk.2 e).2 hm (hc' e) hf (updateHold_cmd _ _ _)⟩⟩
  | relock h' =>
    have hm := classifyLock_mem db c h' (by rw [hb]; rfl)
    obtain ⟨hfind, hdep⟩ := classifyLock_relock_facts db c h' hb
    simp only [applyLock]
    refine wake_setKey_pol _ hp (by simp [updateHold_db_keys]) (relock_inv hi hm (by rw [updateHold_depth])) ?_
    exact ⟨hk.1, fun e => ⟨(hk.2 e).1,
        P.hp_relock _ c h' _ hi (hk.2 e).2 hm (hc' e) (findHolder_lockId hfind) hdep (updateHold_cmd _ _ _)⟩⟩
  | grant =>
    simp only [applyLock]
    have hd := classifyLock_grant_doLock db c hb
    have hg : KeyPol P (grantHold db (db.getKey c.key) c).2 := grantHold_pol db _ c hi hk hd hc'
    have hgi := grantHold_inv db (db.getKey c.key) c hi
    split
    · exact wake_setKey_pol _ hp (grantHold_db_keys _ _ _) hgi hg
    · exact setKey_pol (hp.of_keys_eq (grantHold_db_keys db (db.getKey c.key) c)) hg
  | grantNoHold =>
    simp only [applyLock]
    split
    · exact wake_setKey_pol _ hp rfl hi hk
    · exact setKey_pol (hp.of_keys_eq rfl) hk
  | queue =>
    simp only [applyLock]
    refine setKey_pol (hp.of_keys_eq rfl) ⟨?_, ?_⟩
    · intro w hw
      rcases mem_insertWaiter hw with h1 | h1
      · rw [h1]; exact hkey.symm
      · exact hk.1 w h1
    · intro e
      refine ⟨?_, (hk.2 e).2⟩
      intro w hw
      rcases mem_insertWaiter hw with h1 | h1
      · rw [h1]; exact hc' e
      · exact (hk.2 e).1 w h1

theorem opUnlock_pol (db : DB) (c : Cmd) (h : PolInv P db) : PolInv P (opUnlock db c).1 := by
  refine ⟨opUnlock_inv db c h.1, ?_⟩
  obtain ⟨hinv, hp⟩ := h
  unfold opUnlock
  have hi := getKey_inv hinv c.key
  have hk : KeyPol P (db.getKey c.key) := getKey_pol hp c.key
  cases hb : classifyUnlock db c with
  | stateError | notLocked | unown | cancelNone => exact hp.of_keys_eq rfl
  | cancel w =>
    simp only [applyUnlock]
    exact wake_setKey_pol _ hp rfl (waiters_inv hi _ _) (hk.waiters_sub _ _ removeWaiter_sub)
  | dec h' c' =>
    have hm := classifyUnlock_mem db c h' (by rw [hb]; rfl)
    have hd := classifyUnlock_dec db c c' h' hb
    simp only [applyUnlock]
    refine wake_setKey_pol _ hp rfl (dec_inv hi hm hd) ?_
    exact hk.holders _ _ (fun e => P.hp_same _ h' _ (hk.2 e).2 hm rfl)
  | release h' c' =>
    have hm := classifyUnlock_mem db c h' (by rw [hb]; rfl)
    simp only [applyUnlock]
    refine wake_setKey_pol _ hp rfl (release_inv hi hm) ?_
    exact hk.holders _ _ (fun e => P.hp_remove _ h' (hk.2 e).2)

/-! ### the sweeps of a tick -/

theorem fireTimeout_pol (db : DB) (key : Nat) (w : Waiter) (h : PolInv P db) : PolInv P (fireTimeout db key w).1 := by
  refine ⟨fireTimeout_inv db key w h.1, ?_⟩
  unfold fireTimeout
  exact wake_setKey_pol _ h.2 rfl (waiters_inv (getKey_inv h.1 key) _ _) ((getKey_pol h.2 key).waiters_sub _ _ removeWaiter_sub)

theorem fireExpire_pol (db : DB) (key : Nat) (hd : Hold) (hm : hd ∈ (db.getKey key).holders) (h : PolInv P db) :
    PolInv P (fireExpire db key hd).1 := by
  refine ⟨fireExpire_inv db key hd hm h.1, ?_⟩
  unfold fireExpire
  have hk := getKey_pol h.2 key
  refine wake_setKey_pol _ h.2 rfl (release_inv (getKey_inv h.1 key) hm) ?_
  exact hk.holders _ _ (fun e => P.hp_remove _ hd (hk.2 e).2)

/-- re-arming a visited request `w` (any request that obeys the discipline when addressed to `K`) -/
theorem rearmWaiter_pol (db : DB) (w : Waiter) (hw : w.cmd.key = P.K → P.D w.cmd) (h : PolInv P db) :
    PolInv P (rearmWaiter db w) := by
  refine ⟨rearmWaiter_inv db w h.1, ?_⟩
  unfold rearmWaiter updateWaiter
  have hp : DBPol P { db with seq := db.seq + 1 } := h.2.of_keys_eq rfl
  have hk := getKey_pol hp w.cmd.key
  have hkey := getKey_key { db with seq := db.seq + 1 } w.cmd.key
  refine setKey_pol hp ⟨?_, ?_⟩
  · intro x hx
    simp only [List.mem_map] at hx
    obtain ⟨y, hy, e⟩ := hx
    split at e
    · rw [← e]; exact hkey.symm
    · rw [← e]; exact hk.1 y hy
  · intro e
    refine ⟨?_, (hk.2 e).2⟩
    intro x hx
    simp only [List.mem_map] at hx
    obtain ⟨y, hy, e'⟩ := hx
    split at e'
    · rw [← e']; exact hw (by rw [← hkey]; exact e)
    · rw [← e']; exact (hk.2 e).1 y hy

theorem rearmHold_pol (db : DB) (hd : Hold) (h : PolInv P db) : PolInv P (rearmHold db hd) := by
  refine ⟨rearmHold_inv db hd h.1, ?_⟩
  unfold rearmHold updateHoldIn
  have hp : DBPol P { db with seq := db.seq + 1 } := h.2.of_keys_eq rfl
  have hk := getKey_pol hp hd.cmd.key
  refine setKey_pol hp ⟨hk.1, fun e => ⟨(hk.2 e).1, ?_⟩⟩
  by_cases hm : hd ∈ ({ db with seq := db.seq + 1 }.getKey hd.cmd.key).holders
  · exact P.hp_same _ hd _ (hk.2 e).2 hm rfl
  · rw [replaceHolder_not_mem hm]; exact (hk.2 e).2

/-- fold with a side condition on the elements folded over -/
theorem foldl_P_mem {α β} (Q : DB → Prop) (f : DB × β → α → DB × β) (l : List α)
    (hf : ∀ acc a, a ∈ l → Q acc.1 → Q (f acc a).1) (acc : DB × β) (h : Q acc.1) : Q (l.foldl f acc).1 := by
  induction l generalizing acc with
  | nil => exact h
  | cons a as ih =>
    simp only [List.foldl_cons]
    exact ih (fun acc b hb => hf acc b (List.mem_cons_of_mem _ hb)) _ (hf acc a (by simp) h)

theorem mem_slotWaiters {db : DB} {c : Nat} {w : Waiter} (h : w ∈ slotWaiters db c) : w ∈ allW db := by
  unfold slotWaiters at h
  have := mem_sortBySeq _ _ _ h
  exact (List.mem_filter.mp this).1

theorem sweepTimeout_pol (db : DB) (c : Nat) (h : PolInv P db) : PolInv P (sweepTimeout db c).1 := by
  unfold sweepTimeout timeoutPass1
  refine foldl_P (PolInv P) _ (fun acc a ha => by
    unfold fireTimeoutStep; split
    · exact fireTimeout_pol _ _ _ ha
    · exact ha) _ _ ?_
  refine foldl_P_mem (PolInv P) _ _ (fun acc a hm ha => ?_) _ h
  unfold timeoutStep
  split
  · exact rearmWaiter_pol _ _ (h.2.allW (mem_slotWaiters hm)) ha
  · exact ha

theorem sweepExpire_pol (db : DB) (c : Nat) (h : PolInv P db) : PolInv P (sweepExpire db c).1 := by
  unfold sweepExpire expirePass1
  refine foldl_P (PolInv P) _ (fun acc a ha => by
    unfold fireExpireStep; split
    · rename_i h' hf; exact fireExpire_pol _ _ _ (List.mem_of_find?_eq_some hf) ha
    · exact ha) _ _ ?_
  exact foldl_P (PolInv P) _ (fun acc a ha => by
    unfold expireStep; split
    · exact rearmHold_pol _ _ ha
    · exact ha) _ _ h

theorem PolInv.of_keys_eq {db db' : DB} (h : PolInv P db) (e : db'.keys = db.keys) : PolInv P db' :=
  ⟨h.1.of_keys_eq e, h.2.of_keys_eq e⟩

theorem opTick_pol (db : DB) (h : PolInv P db) : PolInv P (opTick db).1 := by
  unfold opTick
  simp only []
  apply sweepExpire_pol
  apply PolInv.of_keys_eq (db := (sweepTimeout { db with now := db.now + 1, tCheck := db.now + 1 + 1 } (db.now + 1)).1) _ rfl
  exact sweepTimeout_pol _ _ (h.of_keys_eq rfl)

theorem PolInv.init (n : Nat) : PolInv P (DB.init n) := ⟨DBInv.init n, DBPol.init n⟩

/-- what the invariant says about the key itself -/
theorem PolInv.holders {db : DB} (h : PolInv P db) : P.HP (db.getKey P.K).holders :=
  ((getKey_pol h.2 P.K).2 (getKey_key db P.K)).2

theorem PolInv.waiters {db : DB} (h : PolInv P db) : ∀ w ∈ (db.getKey P.K).waiters, P.D w.cmd :=
  ((getKey_pol h.2 P.K).2 (getKey_key db P.K)).1

end Slock.Engine
