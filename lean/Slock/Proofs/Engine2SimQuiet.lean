import Slock.Proofs.Engine2SimClassify
/-! Simulation stage 2 → stage 1: the refusals. Every LOCK / UNLOCK branch in which stage 1 changes nothing (but an error counter) is a
stuttering step of the record-level model under `abs` — whatever it does to records, queues and the key table is bookkeeping — and the
replies are the same. -/
namespace Slock.Sim
open Slock
open Slock.Engine (has)

theorem Equiv.setKey_self (a : Engine.DB) (n : Nat) : Equiv (a.setKey (a.getKey n)) a := by
  refine ⟨rfl, rfl, rfl, rfl, rfl, rfl, fun m => ?_⟩
  by_cases e : m = n
  · subst e
    have := getKey_setKey_same a (a.getKey m)
    rw [getKey_key1] at this
    exact this
  · exact getKey_setKey_other _ _ _ (by rw [getKey_key1]; exact e)

/-- what stage 1 reads of a lock record -/
def πA (r : Engine2.Rec) : Engine.Hold × Engine.Waiter × Bool := (r.toHold, r.toWaiter, r.timeouted)

theorem ins_πA : Engine2.Ins πA := ⟨fun _ _ => rfl, fun _ _ => rfl, fun _ _ => rfl, fun _ _ => rfl⟩

/-- same key fields, same queues, same stage-1 view of every record the queues refer to ⇒ same `Key.abs` -/
theorem abs_eq_of {k' k : Engine2.Key} (h1 : k'.key = k.key) (h2 : k'.locked = k.locked) (h3 : k'.waited = k.waited)
    (q : k'.queues = k.queues) (p : Engine2.PKeep πA k' k)
    (hd : ∀ x, x ∈ k'.current.toList ++ k'.locks ++ k'.wait.map (·.rid) → k'.hasRec x) :
    Engine2.Key.abs k' = Engine2.Key.abs k := by
  obtain ⟨q1, q2, q3⟩ := Engine2.queues_eq q
  have hv : ∀ x, x ∈ k'.current.toList ++ k'.locks ++ k'.wait.map (·.rid) → πA (k'.getR x) = πA (k.getR x) := fun x hx => p.val x (hd x hx)
  have hh : (Engine2.Key.abs k').holders = (Engine2.Key.abs k).holders := by
    rw [abs_holders, abs_holders, ← q1, ← q2]
    have hf : (k'.current.toList ++ k'.locks).filter (fun x => k'.liveHolder x) = (k'.current.toList ++ k'.locks).filter (fun x => k.liveHolder x) := by
      apply List.filter_congr
      intro x hx
      have := hv x (List.mem_append_left _ hx)
      unfold Engine2.Key.liveHolder
      have e : (k'.getR x).depth = (k.getR x).depth := congrArg (fun t => t.1.depth) this
      rw [e]
    rw [hf]
    apply List.map_congr_left
    intro x hx
    have := hv x (List.mem_append_left _ (List.mem_filter.mp hx).1)
    exact congrArg (fun t => t.1) this
  have hw : (Engine2.Key.abs k').waiters = (Engine2.Key.abs k).waiters := by
    rw [abs_waiters, abs_waiters, ← q3]
    have hf : (k'.wait.map (·.rid)).filter (fun x => !k'.deadWaiter x) = (k'.wait.map (·.rid)).filter (fun x => !k.deadWaiter x) := by
      apply List.filter_congr
      intro x hx
      have := hv x (List.mem_append_right _ hx)
      unfold Engine2.Key.deadWaiter
      have e : (k'.getR x).timeouted = (k.getR x).timeouted := congrArg (fun t => t.2.2) this
      rw [e]
    rw [hf]
    apply List.map_congr_left
    intro x hx
    have := hv x (List.mem_append_right _ (List.mem_filter.mp hx).1)
    exact congrArg (fun t => t.2.1) this
  unfold Engine2.Key.abs at hh hw ⊢
  simp only [] at hh hw
  simp only [h1, h2, h3, hh, hw]

/-- a key record without lock records shows nothing to stage 1 — and in a reachable state there is no such key record -/
theorem abs_empty_of_gone (s : Engine2.DB) (hq : Engine2.DBQ s) (key : Nat) (h : (s.getKey key).recs = []) :
    (Engine2.Key.abs (s.getKey key)).isEmpty = true := by
  cases hh : s.hasKey key with
  | true => exact absurd h (hq.dbt.tight _ (Engine2.getKey_mem s key hh)).2.1
  | false => rw [Engine2.getKey_of_not_hasKey s key hh]; exact abs_isEmpty_newKey key

/-- **a stuttering step**: the operation left the stage-1 view of its key record alone (or unlinked a key record that showed
nothing), and changed no scalar field but the counters -/
theorem sim_quiet (s : Engine2.DB) (hq : Engine2.DBQ s) (key : Nat) (w0 w : Engine2.W) (f : Engine2.Fr w0 w)
    (h0k : w0.k.key = key) (h0 : ∀ n, n ≠ key → w0.db.getKey n = s.getKey n)
    (hs : Engine2.DBside w) (hn' : (w.commit.keys.map (·.key)).Nodup)
    (a1 : Engine.DB) (ha : a1 = { Engine2.abs s with ctr := w.db.ctr })
    (hnow : w.db.now = s.now) (hld : w.db.leader = s.leader)
    (htc : w.db.tCheck = s.tCheck) (hec : w.db.eCheck = s.eCheck) (hseq : w.db.seq = s.seq)
    (hloc : (w.gone = false → Engine2.Key.abs w.k = Engine2.Key.abs (s.getKey key)) ∧
      (w.gone = true → (Engine2.Key.abs (s.getKey key)).isEmpty = true)) :
    Equiv (Engine2.abs w.commit) a1 := by
  have hkn := hq.dbt.dbi.kn
  have hk1 : ∀ n, a1.getKey n = (Engine2.abs s).getKey n := by intro n; rw [ha]; rfl
  have e1 := sim_commit s key w0 w f h0k h0 hs hkn hn' a1 (a1.getKey key) (getKey_key1 _ _) hk1
    (by rw [ha]; exact hnow.symm) (by rw [ha]; exact htc.symm) (by rw [ha]; exact hec.symm) (by rw [ha]; exact hseq.symm)
    (by rw [ha]; exact hld.symm) (by rw [ha])
    ⟨fun hg => by rw [hk1, abs_getKey s hkn]; exact hloc.1 hg, fun hg => by rw [hk1, abs_getKey s hkn]; exact hloc.2 hg⟩
  exact e1.trans (Equiv.setKey_self a1 key)

/-! ### LOCK -/

def quietL : Engine2.LockBranch → Bool
  | .p0a | .p0b | .stateError | .show _ | .updateEqual _ | .relockNoHold _ | .relockRefused _ | .unlockedWaitRefused | .timeout => true
  | _ => false

theorem enter_fields (s : Engine2.DB) (n : Nat) :
    (s.enter n).db.now = s.now ∧ (s.enter n).db.leader = s.leader ∧ (s.enter n).db.tCheck = s.tCheck ∧ (s.enter n).db.eCheck = s.eCheck ∧
    (s.enter n).db.seq = s.seq ∧ (s.enter n).db.ctr = s.ctr := by
  rw [Engine2.enter_db]
  obtain ⟨a, _, b, c, _, d, e, f, _⟩ := Engine2.create_fields s n
  exact ⟨b, a, e, f, d, c⟩

theorem removeIfZero_fields (w : Engine2.W) :
    w.removeIfZero.db.now = w.db.now ∧ w.removeIfZero.db.leader = w.db.leader ∧ w.removeIfZero.db.tCheck = w.db.tCheck ∧
    w.removeIfZero.db.eCheck = w.db.eCheck ∧ w.removeIfZero.db.seq = w.db.seq ∧ w.removeIfZero.db.ctr = w.db.ctr := by
  unfold Engine2.W.removeIfZero
  split
  · obtain ⟨a, _, b, c, _, d, e, f, _⟩ := Engine2.dropKey_fields w.db w.k.key
    exact ⟨b, a, e, f, d, c⟩
  · exact ⟨rfl, rfl, rfl, rfl, rfl, rfl⟩

theorem lockBase_other (s : Engine2.DB) (c : Engine.Cmd) (b : Engine2.LockBranch) :
    ∀ n, n ≠ c.key → (Engine2.lockBase s c b).db.getKey n = s.getKey n := by
  intro n _
  cases b <;> first | rfl | (show (s.enter c.key).db.getKey n = _; rw [Engine2.enter_db, Engine2.getKey_create])

theorem enter_reply_out (s : Engine2.DB) (n : Nat) (c : Engine.Cmd) (res lr : Nat) (d : Option Engine2.Bytes) :
    ((s.enter n).reply c res lr d).out.map (·.r) = [Engine.mkReply c res (s.getKey n).locked lr] := by
  unfold Engine2.W.reply
  simp only [Engine2.enter_out, List.nil_append, List.map_cons, List.map_nil, Engine2.enter_k]

theorem abs_ctr_self (s : Engine2.DB) : ({ Engine2.abs s with ctr := s.ctr } : Engine.DB) = Engine2.abs s := rfl

/-- the stage-1 view of a key record to which a record was added and freed again -/
theorem abs_newLock_free (w : Engine2.W) (l : Engine2.Lv w Engine2.zero) (c : Engine.Cmd) (d : Option Engine2.Bytes) :
    Engine2.Key.abs ((w.newLock c d).1.modK (·.free w.db.nextRid)).k = Engine2.Key.abs w.k := by
  have hfresh : ¬ w.k.hasRec w.db.nextRid := by
    rintro ⟨r, hr, e⟩
    have := l.side.fresh r hr
    omega
  have hq : ((w.newLock c d).1.modK (·.free w.db.nextRid)).k.queues = w.k.queues := by
    obtain ⟨a, b, c', _⟩ := Engine2.free_queues (w.newLock c d).1.k w.db.nextRid
    exact Engine2.queues_mk c' a b
  have p : Engine2.PKeep πA ((w.newLock c d).1.modK (·.free w.db.nextRid)).k w.k := by
    refine ⟨fun y hy => ?_, fun y hy => ?_⟩
    · obtain ⟨h1, h2⟩ := Engine2.hasRec_free_sub _ _ _ hy
      obtain ⟨r, hr, e⟩ := h1
      have hr' : r ∈ w.k.recs ++ [Engine2.newRec w.db.nextRid w.db.now c d] := hr
      rcases List.mem_append.mp hr' with h3 | h3
      · exact ⟨r, h3, e⟩
      · exfalso
        simp at h3
        have hn : (w.newLock c d).1.k.hasRec w.db.nextRid := ⟨Engine2.newRec w.db.nextRid w.db.now c d, List.mem_append_right _ (by simp), rfl⟩
        apply h2 hn
        rw [← e, h3]; rfl
    · obtain ⟨h1, h2⟩ := Engine2.hasRec_free_sub _ _ _ hy
      have hn : (w.newLock c d).1.k.hasRec w.db.nextRid := ⟨Engine2.newRec w.db.nextRid w.db.now c d, List.mem_append_right _ (by simp), rfl⟩
      have hne := h2 hn
      have hyk : w.k.hasRec y := by
        obtain ⟨r, hr, e⟩ := h1
        have hr' : r ∈ w.k.recs ++ [Engine2.newRec w.db.nextRid w.db.now c d] := hr
        rcases List.mem_append.mp hr' with h3 | h3
        · exact ⟨r, h3, e⟩
        · exfalso; simp at h3; apply hne; rw [← e, h3]; rfl
      show πA (((w.newLock c d).1.k.free w.db.nextRid).getR y) = _
      rw [Engine2.getR_free_other _ _ _ hne]
      show πA ((w.k.addRec _).getR y) = _
      rw [Engine2.getR_addRec _ _ _ hyk]
  refine abs_eq_of ?_ ?_ ?_ hq p ?_
  · show ((w.newLock c d).1.k.free w.db.nextRid).key = w.k.key
    unfold Engine2.Key.free; split <;> rfl
  · show ((w.newLock c d).1.k.free w.db.nextRid).locked = w.k.locked
    unfold Engine2.Key.free; split <;> rfl
  · obtain ⟨_, _, _, h4, _⟩ := Engine2.free_queues (w.newLock c d).1.k w.db.nextRid
    exact h4
  · intro x hx
    obtain ⟨q1, q2, q3⟩ := Engine2.queues_eq hq
    rw [q1, q2, q3] at hx
    -- referenced by a queue of `w.k`, hence a record of `w.k` other than the new one
    have hpos : 0 < w.k.qRefs x := by
      unfold Engine2.Key.qRefs
      rcases List.mem_append.mp hx with h1 | h1
      · rcases List.mem_append.mp h1 with h2 | h2
        · have : w.k.current = some x := by
            cases hc : w.k.current with
            | none => rw [hc] at h2; simp at h2
            | some y => rw [hc] at h2; simp at h2; rw [h2]
          simp [this]; omega
        · have := List.count_pos_iff.mpr h2; omega
      · have := List.count_pos_iff.mpr h1; omega
    have hxk : w.k.hasRec x := l.rc.dang x (by simp only [Engine2.zero]; omega)
    have hne : x ≠ w.db.nextRid := fun e => hfresh (e ▸ hxk)
    obtain ⟨r, hr, e⟩ := hxk
    show ((w.newLock c d).1.k.free w.db.nextRid).hasRec x
    unfold Engine2.Key.free
    split
    · exact ⟨r, List.mem_filter.mpr ⟨List.mem_append_left _ hr, by simpa [e] using hne⟩, e⟩
    · exact ⟨r, List.mem_append_left _ hr, e⟩

theorem lockBase_key (s : Engine2.DB) (c : Engine.Cmd) (b : Engine2.LockBranch) : (Engine2.lockBase s c b).k.key = c.key := by
  rw [(Engine2.lockBase_db s c b).2.2.2.1]; exact Engine2.getKey_key _ _

/-- **LOCK refusals are stuttering steps with the same reply** -/
theorem sim_lock_quiet (s : Engine2.DB) (hq : Engine2.DBQ s) (c : Engine.Cmd)
    (hcell : (s.getKey c.key).cell = none)
    (hp : has c.tflag Engine.TF_PRIORITY = true →
      Engine.checkWaitPriority (Engine2.Key.abs (s.getKey c.key)) c = Engine2.checkWaitPriority (s.getKey c.key) c)
    (hb : quietL (Engine2.classifyLock s c none) = true) :
    Equiv (Engine2.abs (Engine2.opLock s c none).1) (Engine.opLock (Engine2.abs s) c).1 ∧
    (Engine2.opLock s c none).2.map (·.r) = (Engine.opLock (Engine2.abs s) c).2 := by
  have hdbi := hq.dbt.dbi
  have hkn' := (Engine2.opLock_dbi s hdbi c none).kn
  have hcl := classify_lock_refines s hq c hcell hp
  have hkabs := abs_getKey s hdbi.kn c.key
  unfold Engine.opLock
  rw [hcl]
  unfold Engine2.opLock at hkn' ⊢
  simp only [] at hkn' ⊢
  have f := Engine2.applyLock_fr s c none (Engine2.classifyLock s c none)
  have hs := (Engine2.DBside.lockBase hdbi c (Engine2.classifyLock s c none)).of_fr f
  have hle := Engine2.Lv.enter hdbi c.key
  obtain ⟨e1, e2, e3, e4, e5, e6⟩ := enter_fields s c.key
  generalize Engine2.classifyLock s c none = b at hb hkn' f hs ⊢
  have core : ∀ (hctr : (Engine2.applyLock s c none b).db.ctr = s.ctr)
      (hnow : (Engine2.applyLock s c none b).db.now = s.now) (hld : (Engine2.applyLock s c none b).db.leader = s.leader)
      (htc : (Engine2.applyLock s c none b).db.tCheck = s.tCheck) (hec : (Engine2.applyLock s c none b).db.eCheck = s.eCheck)
      (hseq : (Engine2.applyLock s c none b).db.seq = s.seq)
      (hloc : ((Engine2.applyLock s c none b).gone = false → Engine2.Key.abs (Engine2.applyLock s c none b).k = Engine2.Key.abs (s.getKey c.key)) ∧
        ((Engine2.applyLock s c none b).gone = true → (Engine2.Key.abs (s.getKey c.key)).isEmpty = true)),
      Equiv (Engine2.abs (Engine2.applyLock s c none b).commit) (Engine2.abs s) := by
    intro hctr hnow hld htc hec hseq hloc
    have := sim_quiet s hq c.key _ _ f (lockBase_key s c b) (lockBase_other s c b) hs hkn' _ rfl hnow hld htc hec hseq hloc
    rw [hctr] at this
    exact this
  have hgoneOpen : (s.openKey c.key).gone = true → (Engine2.Key.abs (s.getKey c.key)).isEmpty = true := by
    intro hg
    have hh : s.hasKey c.key = false := by simpa [Engine2.DB.openKey] using hg
    rw [Engine2.getKey_of_not_hasKey s c.key hh]; exact abs_isEmpty_newKey _
  have hent : ((s.enter c.key).gone = false → Engine2.Key.abs (s.enter c.key).k = Engine2.Key.abs (s.getKey c.key)) ∧
      ((s.enter c.key).gone = true → (Engine2.Key.abs (s.getKey c.key)).isEmpty = true) :=
    ⟨fun _ => by rw [Engine2.enter_k], fun hg => by rw [Engine2.enter_gone] at hg; exact absurd hg (by simp)⟩
  cases b with
  | p0a =>
    refine ⟨core rfl rfl rfl rfl rfl rfl ⟨fun _ => rfl, hgoneOpen⟩, ?_⟩
    simp only [Engine2.applyLock, Engine.applyLock, absLB, Engine2.W.reply, Engine2.DB.openKey, List.nil_append, List.map_cons, List.map_nil, hkabs, abs_locked]
  | p0b =>
    refine ⟨core rfl rfl rfl rfl rfl rfl ⟨fun _ => rfl, hgoneOpen⟩, ?_⟩
    simp only [Engine2.applyLock, Engine.applyLock, absLB, List.map_cons, List.map_nil]
  | stateError =>
    obtain ⟨r1, r2, r3, r4, r5, r6⟩ := removeIfZero_fields (s.enter c.key)
    refine ⟨core (r6.trans e6) (r1.trans e1) (r2.trans e2) (r3.trans e3) (r4.trans e4) (r5.trans e5) ⟨?_, ?_⟩, ?_⟩
    · intro hg
      rcases Engine2.removeIfZero_cases (s.enter c.key) with e | ⟨hg', _⟩
      · show Engine2.Key.abs (s.enter c.key).removeIfZero.k = _
        rw [e, Engine2.enter_k]
      · have : (s.enter c.key).removeIfZero.gone = false := hg
        rw [hg'] at this; exact absurd this (by simp)
    · intro hg
      rcases Engine2.removeIfZero_cases (s.enter c.key) with e | ⟨_, _, _, hz, _⟩
      · have : (s.enter c.key).removeIfZero.gone = true := hg
        rw [e, Engine2.enter_gone] at this; exact absurd this (by simp)
      · apply abs_empty_of_gone s hq
        have := hle.rc.mgr
        rw [hz] at this
        rw [← Engine2.enter_k]
        exact List.eq_nil_of_length_eq_zero this.symm
    · simp only [Engine2.applyLock, Engine.applyLock, absLB, Engine2.W.reply, List.map_append, List.map_cons, List.map_nil, hkabs, abs_locked]
      have h1 : (s.enter c.key).removeIfZero.out = [] := by
        unfold Engine2.W.removeIfZero; split <;> exact Engine2.enter_out s c.key
      have h2 : (s.enter c.key).removeIfZero.k.locked = (s.getKey c.key).locked := by
        unfold Engine2.W.removeIfZero; split <;> (show _ = _; rw [← Engine2.enter_k])
      rw [h1, h2]; rfl
  | «show» cur =>
    refine ⟨core e6 e1 e2 e3 e4 e5 hent, ?_⟩
    simp only [Engine2.applyLock, Engine.applyLock, absLB, hkabs, abs_locked]
    rw [enter_reply_out, Engine2.enter_k]; rfl
  | updateEqual h =>
    refine ⟨core e6 e1 e2 e3 e4 e5 hent, ?_⟩
    simp only [Engine2.applyLock, Engine.applyLock, absLB, hkabs, abs_locked]
    rw [enter_reply_out, Engine2.enter_k]; rfl
  | relockNoHold h =>
    refine ⟨core e6 e1 e2 e3 e4 e5 hent, ?_⟩
    simp only [Engine2.applyLock, Engine.applyLock, absLB, hkabs, abs_locked]
    rw [enter_reply_out, Engine2.enter_k]; rfl
  | relockRefused h =>
    refine ⟨core e6 e1 e2 e3 e4 e5 hent, ?_⟩
    simp only [Engine2.applyLock, Engine.applyLock, absLB, hkabs, abs_locked]
    rw [enter_reply_out, Engine2.enter_k]; rfl
  | unlockedWaitRefused =>
    refine ⟨core e6 e1 e2 e3 e4 e5 hent, ?_⟩
    simp only [Engine2.applyLock, Engine.applyLock, absLB, hkabs, abs_locked]
    rw [enter_reply_out]
  | timeout =>
    obtain ⟨ln, hn, _, hq0, _, hg⟩ := hle.newLock Engine2.zero_nonneg c none
    have hz : ((((s.enter c.key).newLock c none).1).k.qRefs (s.enter c.key).db.nextRid : Int) + Engine2.zero (s.enter c.key).db.nextRid ≤ 0 := by
      rw [hq0]; simp [Engine2.zero]
    have l2 : Engine2.Lv ((((s.enter c.key).newLock c none).1).modK (·.free (s.enter c.key).db.nextRid)) Engine2.zero :=
      ln.modK _ (ln.rc.free _ hz) (Engine2.RecsLe.free _ _)
    obtain ⟨r1, r2, r3, r4, r5, r6⟩ := removeIfZero_fields ((((s.enter c.key).newLock c none).1).modK (·.free (s.enter c.key).db.nextRid))
    have habs := abs_newLock_free (s.enter c.key) hle c none
    have hlk : ((((s.enter c.key).newLock c none).1).modK (·.free (s.enter c.key).db.nextRid)).k.locked = (s.getKey c.key).locked := by
      have := congrArg Engine.Key.locked habs
      rw [Engine2.enter_k] at this
      exact this
    refine ⟨core (r6.trans e6) (r1.trans e1) (r2.trans e2) (r3.trans e3) (r4.trans e4) (r5.trans e5) ⟨?_, ?_⟩, ?_⟩
    · intro hg
      rcases Engine2.removeIfZero_cases ((((s.enter c.key).newLock c none).1).modK (·.free (s.enter c.key).db.nextRid)) with e | ⟨hg', _⟩
      · show Engine2.Key.abs ((((s.enter c.key).newLock c none).1).modK (·.free (s.enter c.key).db.nextRid)).removeIfZero.k = _
        rw [e, habs, Engine2.enter_k]
      · have : ((((s.enter c.key).newLock c none).1).modK (·.free (s.enter c.key).db.nextRid)).removeIfZero.gone = false := hg
        rw [hg'] at this; exact absurd this (by simp)
    · intro hg
      rcases Engine2.removeIfZero_cases ((((s.enter c.key).newLock c none).1).modK (·.free (s.enter c.key).db.nextRid)) with e | ⟨_, _, _, hz0, _⟩
      · have : ((((s.enter c.key).newLock c none).1).modK (·.free (s.enter c.key).db.nextRid)).removeIfZero.gone = true := hg
        rw [e] at this
        have h0 : ((((s.enter c.key).newLock c none).1).modK (·.free (s.enter c.key).db.nextRid)).gone = (s.enter c.key).gone := rfl
        rw [h0, Engine2.enter_gone] at this; exact absurd this (by simp)
      · apply abs_empty_of_gone s hq
        have hm := l2.rc.mgr
        rw [hz0] at hm
        have hnil : ((((s.enter c.key).newLock c none).1).modK (·.free (s.enter c.key).db.nextRid)).k.recs = [] :=
          List.eq_nil_of_length_eq_zero hm.symm
        rw [← Engine2.enter_k]
        cases hr : (s.enter c.key).k.recs with
        | nil => rfl
        | cons r rs =>
          exfalso
          have hmem : r ∈ (s.enter c.key).k.recs := by rw [hr]; simp
          have hfr := hle.side.fresh r hmem
          have : r ∈ ((((s.enter c.key).newLock c none).1).modK (·.free (s.enter c.key).db.nextRid)).k.recs := by
            show r ∈ ((((s.enter c.key).newLock c none).1).k.free (s.enter c.key).db.nextRid).recs
            unfold Engine2.Key.free
            split
            · exact List.mem_filter.mpr ⟨List.mem_append_left _ hmem, by simp; omega⟩
            · exact List.mem_append_left _ hmem
          rw [hnil] at this; simp at this
    · simp only [Engine2.applyLock, Engine.applyLock, absLB, hkabs, abs_locked]
      have h1 : (((s.enter c.key).newLock c none).1.freeCheck ((s.enter c.key).newLock c none).2).out = [] := by
        unfold Engine2.W.freeCheck Engine2.W.removeIfZero; split <;> exact Engine2.enter_out s c.key
      have h2 : (((s.enter c.key).newLock c none).1.freeCheck ((s.enter c.key).newLock c none).2).k.locked = (s.getKey c.key).locked := by
        unfold Engine2.W.freeCheck Engine2.W.removeIfZero; split <;> exact hlk
      unfold Engine2.W.reply
      simp only [h1, h2, List.nil_append, List.map_cons, List.map_nil]
  | _ => simp [quietL] at hb

/-! ### UNLOCK -/

def quietU : Engine2.UnlockBranch → Bool
  | .noManager | .stateError | .notLocked | .unown | .cancelNone => true
  | _ => false

theorem classifyUnlock_notLocked (s : Engine2.DB) (c : Engine.Cmd) (h : Engine2.classifyUnlock s c = .notLocked) : (s.getKey c.key).locked = 0 := by
  unfold Engine2.classifyUnlock at h
  simp only [] at h
  repeat' split at h
  all_goals (try (simp at h))
  all_goals simp_all

/-- **UNLOCK refusals are stuttering steps (the error counter moves in both models) with the same reply** -/
theorem sim_unlock_quiet (s : Engine2.DB) (hq : Engine2.DBQ s) (c : Engine.Cmd)
    (hb : quietU (Engine2.classifyUnlock s c) = true) :
    Equiv (Engine2.abs (Engine2.opUnlock s c none).1) (Engine.opUnlock (Engine2.abs s) { c with mgr := s.hasKey c.key }).1 ∧
    (Engine2.opUnlock s c none).2.map (·.r) = (Engine.opUnlock (Engine2.abs s) { c with mgr := s.hasKey c.key }).2 := by
  have hdbi := hq.dbt.dbi
  have hkn' := (Engine2.opUnlock_dbi s hdbi c none).kn
  have hcl := classify_unlock_refines s hq c
  have hkabs := abs_getKey s hdbi.kn c.key
  have hnl := classifyUnlock_notLocked s c
  have hnm := Engine2.classifyUnlock_noManager s c
  unfold Engine.opUnlock
  rw [hcl]
  unfold Engine2.opUnlock at hkn' ⊢
  simp only [] at hkn' ⊢
  have f := Engine2.applyUnlock_fr s c none (Engine2.classifyUnlock s c)
  have hs := (hdbi.openKey c.key).of_fr f
  generalize Engine2.classifyUnlock s c = b at hb hkn' f hs hnl hnm ⊢
  have hgoneOpen : (s.openKey c.key).gone = true → (Engine2.Key.abs (s.getKey c.key)).isEmpty = true := by
    intro hg
    have hh : s.hasKey c.key = false := by simpa [Engine2.DB.openKey] using hg
    rw [Engine2.getKey_of_not_hasKey s c.key hh]; exact abs_isEmpty_newKey _
  have core : ∀ (hctr : (Engine2.applyUnlock s c none b).db.ctr = { s.ctr with unlockErrorCount := s.ctr.unlockErrorCount + 1 })
      (hdb : (Engine2.applyUnlock s c none b).db.now = s.now ∧ (Engine2.applyUnlock s c none b).db.leader = s.leader ∧
        (Engine2.applyUnlock s c none b).db.tCheck = s.tCheck ∧ (Engine2.applyUnlock s c none b).db.eCheck = s.eCheck ∧
        (Engine2.applyUnlock s c none b).db.seq = s.seq)
      (hloc : ((Engine2.applyUnlock s c none b).gone = false → Engine2.Key.abs (Engine2.applyUnlock s c none b).k = Engine2.Key.abs (s.getKey c.key)) ∧
        ((Engine2.applyUnlock s c none b).gone = true → (Engine2.Key.abs (s.getKey c.key)).isEmpty = true)),
      Equiv (Engine2.abs (Engine2.applyUnlock s c none b).commit) (Engine.bumpErr (Engine2.abs s)) := by
    intro hctr hdb hloc
    have := sim_quiet s hq c.key _ _ f (Engine2.getKey_key _ _) (fun _ _ => rfl) hs hkn' _ rfl hdb.1 hdb.2.1 hdb.2.2.1 hdb.2.2.2.1 hdb.2.2.2.2 hloc
    rw [hctr] at this
    exact this
  cases b with
  | noManager =>
    have hE := core rfl ⟨rfl, rfl, rfl, rfl, rfl⟩ ⟨fun _ => rfl, hgoneOpen⟩
    have hh := hnm rfl
    have hk : s.getKey c.key = Engine2.newKey c.key := Engine2.getKey_of_not_hasKey s c.key hh
    by_cases hC : has c.flag Engine.UF_CANCEL = true
    · simp only [absUB, hC, if_true]
      refine ⟨hE, ?_⟩
      simp only [Engine2.applyUnlock, Engine.applyUnlock, hkabs, hk, abs_newKey, List.map_cons, List.map_nil]; rfl
    · simp only [absUB, hC, if_false]
      refine ⟨hE, ?_⟩
      simp only [Engine2.applyUnlock, Engine.applyUnlock, List.map_cons, List.map_nil]; rfl
  | stateError =>
    refine ⟨core rfl ⟨rfl, rfl, rfl, rfl, rfl⟩ ⟨fun _ => rfl, hgoneOpen⟩, ?_⟩
    simp only [Engine2.applyUnlock, Engine.applyUnlock, absUB, hkabs, abs_locked]
    rfl
  | notLocked =>
    refine ⟨core rfl ⟨rfl, rfl, rfl, rfl, rfl⟩ ⟨fun _ => rfl, hgoneOpen⟩, ?_⟩
    have h0 := hnl rfl
    simp only [Engine2.applyUnlock, Engine.applyUnlock, absUB]
    show [Engine.mkReply c Engine.RESULT_UNLOCK_ERROR (s.getKey c.key).locked 0] = _
    rw [h0]; rfl
  | unown =>
    refine ⟨core rfl ⟨rfl, rfl, rfl, rfl, rfl⟩ ⟨fun _ => rfl, hgoneOpen⟩, ?_⟩
    simp only [Engine2.applyUnlock, Engine.applyUnlock, absUB, hkabs, abs_locked]
    rfl
  | cancelNone =>
    refine ⟨core rfl ⟨rfl, rfl, rfl, rfl, rfl⟩ ⟨fun _ => rfl, hgoneOpen⟩, ?_⟩
    simp only [Engine2.applyUnlock, Engine.applyUnlock, absUB, hkabs, abs_locked]
    rfl
  | _ => simp [quietU] at hb

end Slock.Sim
