import Slock.Proofs.Engine2Tight
/-! Stage-2 engine: every LOCK / UNLOCK branch and every sweep step keeps "nothing leaks". -/
namespace Slock.Engine2
open Slock.Engine (has)

/-- the update of a hold, up to the reply / wake pass -/
theorem update_tight_pre (db : DB) (hdb : DBI db) (ht : ∀ k ∈ db.keys, KeyTight k) (c : Cmd) (data : Option Bytes) (h : Nat)
    (hh : (db.enter c.key).k.hasRec h) (hd0 : 0 < ((db.getKey c.key).getR h).depth) :
    Tight ((((db.enter c.key).procData .lock (lockCmdOf (db.enter c.key).k c (.update h)) (frameOf (lockCmdOf (db.enter c.key).k c (.update h)) data) h).updateLocked h
      (lockCmdOf (db.enter c.key).k c (.update h))).when (!has (lockCmdOf (db.enter c.key).k c (.update h)).flag Slock.Engine.F_FROM_AOF)
      (·.journalLock h AOF_UPDATED)) := by
  have ge := Good.enter hdb ht c.key
  have le := ge.lv
  have ce := cur_enter ht c.key
  have g1 := ge.of_up (le.procData .lock (lockCmdOf (db.enter c.key).k c (.update h)) (frameOf (lockCmdOf (db.enter c.key).k c (.update h)) data) h)
    (up_procData _ _ _ _ _)
  have hh1 := (keep_procData (db.enter c.key) .lock (lockCmdOf (db.enter c.key).k c (.update h))
    (frameOf (lockCmdOf (db.enter c.key).k c (.update h)) data) h h).1.mpr hh
  have l2 := g1.lv.updateLocked zero_nonneg h (lockCmdOf (db.enter c.key).k c (.update h)) hh1
  have hd1 : 0 < (((db.enter c.key).procData .lock (lockCmdOf (db.enter c.key).k c (.update h))
      (frameOf (lockCmdOf (db.enter c.key).k c (.update h)) data) h).k.getR h).depth := by
    rw [(keep_procData (db.enter c.key) .lock (lockCmdOf (db.enter c.key).k c (.update h))
      (frameOf (lockCmdOf (db.enter c.key).k c (.update h)) data) h h).2.2.2.2.2.2.1, enter_k]
    exact hd0
  have n2 := Nz.updateLocked g1.lv g1.nz h (lockCmdOf (db.enter c.key).k c (.update h)) hh1 hd1
  have g2 : Good _ := ⟨l2, n2⟩
  have g3 := g2.of_up (l2.when (!has (lockCmdOf (db.enter c.key).k c (.update h)).flag Slock.Engine.F_FROM_AOF) (·.journalLock h AOF_UPDATED) (l2.journalLock _ _))
    (up_when _ _ (·.journalLock h AOF_UPDATED) (up_journalLock _ _ _))
  have c1 := ce.of_dk (dk_procData _ _ _ _ _) g1.lv
  have c2 := c1.of_dk (dk_updateLocked _ h (lockCmdOf (db.enter c.key).k c (.update h))) l2
  have c3 := c2.of_dk (dk_when _ (!has (lockCmdOf (db.enter c.key).k c (.update h)).flag Slock.Engine.F_FROM_AOF) (·.journalLock h AOF_UPDATED) (dk_journalLock _ _ _)) g3.lv
  refine Tight.of_good g3 ?_ c3
  -- the hold's record is still there
  have : (((db.enter c.key).procData .lock (lockCmdOf (db.enter c.key).k c (.update h)) (frameOf (lockCmdOf (db.enter c.key).k c (.update h)) data) h).updateLocked h
      (lockCmdOf (db.enter c.key).k c (.update h))).k.ids = _ := ids_updateLocked _ h _
  have hh2 := (hasRec_of_ids this h).mpr hh1
  have hh3 : ((((db.enter c.key).procData .lock (lockCmdOf (db.enter c.key).k c (.update h)) (frameOf (lockCmdOf (db.enter c.key).k c (.update h)) data) h).updateLocked h
      (lockCmdOf (db.enter c.key).k c (.update h))).when (!has (lockCmdOf (db.enter c.key).k c (.update h)).flag Slock.Engine.F_FROM_AOF)
      (·.journalLock h AOF_UPDATED)).k.hasRec h := by
    rw [hasRec_of_ids (ids_when _ _ _ (fun w => ids_journalLock w h AOF_UPDATED))]; exact hh2
  exact recs_ne_of_hasRec hh3


/-- the re-lock of a hold, up to the counters / reply / wake pass -/
theorem relock_tight_pre (db : DB) (hdb : DBI db) (ht : ∀ k ∈ db.keys, KeyTight k) (c : Cmd) (data : Option Bytes) (h : Nat)
    (hh : (db.enter c.key).k.hasRec h) (hd0 : 0 < ((db.getKey c.key).getR h).depth) :
    Tight ((((((db.enter c.key).modR h (fun r => { r with depth := r.depth + 1 })).modK incLocked).procData .lock c (frameOf c data) h).updateLocked h c).journalLock h
      AOF_UPDATED) := by
  have ge := Good.enter hdb ht c.key
  have le := ge.lv
  have ce := cur_enter ht c.key
  have hd : 0 < ((db.enter c.key).k.getR h).depth := by rw [enter_k]; exact hd0
  have l1 : Lv ((db.enter c.key).modR h (fun r => { r with depth := r.depth + 1 })) zero :=
    le.modR_plain h _ (fun _ => rfl) (fun _ => rfl) (fun _ => rfl) (fun _ => rfl) (fun _ => rfl)
  have n1 : Nz ((db.enter c.key).modR h (fun r => { r with depth := r.depth + 1 })) none :=
    ge.nz.modR_at h _ (fun _ => rfl) (fun _ hf => ⟨hf.pos, fun _ => hf.hold hd, fun hx => by
      have := hf.ended hx; omega, fun hz => by simp only [] at hz; omega⟩)
  have hh1 : ((db.enter c.key).modR h (fun r => { r with depth := r.depth + 1 })).k.hasRec h := (hasRec_modR _ h h _ (by intro _; rfl)).mpr hh
  have g2 : Good (((db.enter c.key).modR h (fun r => { r with depth := r.depth + 1 })).modK incLocked) :=
    ⟨l1.modK incLocked (l1.rc.transfer rfl rfl (fun _ => rfl)) (RecsLe.of_eq rfl), n1.modK_eq _ rfl⟩
  have g3 := g2.of_up (g2.lv.procData .lock c (frameOf c data) h) (up_procData _ _ _ _ _)
  have hh3 := (keep_procData (((db.enter c.key).modR h (fun r => { r with depth := r.depth + 1 })).modK incLocked) .lock c (frameOf c data) h h).1.mpr hh1
  have hd3 : 0 < (((((db.enter c.key).modR h (fun r => { r with depth := r.depth + 1 })).modK incLocked).procData .lock c (frameOf c data) h).k.getR h).depth := by
    rw [(keep_procData (((db.enter c.key).modR h (fun r => { r with depth := r.depth + 1 })).modK incLocked) .lock c (frameOf c data) h h).2.2.2.2.2.2.1]
    show 0 < (((db.enter c.key).k.modRec h (fun r => { r with depth := r.depth + 1 })).getR h).depth
    rw [getR_modRec_same _ _ _ (by intro _; rfl) hh]
    exact Nat.succ_pos _
  have g4 : Good _ := ⟨g3.lv.updateLocked zero_nonneg h c hh3, Nz.updateLocked g3.lv g3.nz h c hh3 hd3⟩
  have hh4 := (hasRec_of_ids (ids_updateLocked _ h c) h).mpr hh3
  have g5 := g4.of_up (g4.lv.journalLock h AOF_UPDATED) (up_journalLock _ _ _)
  have hh5 := (hasRec_of_ids (ids_journalLock _ h AOF_UPDATED) h).mpr hh4
  have c1 : CurLive ((db.enter c.key).modR h (fun r => { r with depth := r.depth + 1 })).k :=
    ce.modDepth h _ (fun _ => rfl) hh (Nat.succ_pos _)
  have c2 : CurLive (((db.enter c.key).modR h (fun r => { r with depth := r.depth + 1 })).modK incLocked).k := c1
  have c3 := c2.of_dk (dk_procData _ .lock c (frameOf c data) h) g3.lv
  have c4 := c3.of_dk (dk_updateLocked _ h c) g4.lv
  have c5 := c4.of_dk (dk_journalLock _ h AOF_UPDATED) g5.lv
  exact Tight.of_good g5 (recs_ne_of_hasRec hh5) c5


theorem applyLock_tight (db : DB) (hdb : DBI db) (ht : ∀ k ∈ db.keys, KeyTight k) (c : Cmd) (data : Option Bytes) (b : LockBranch)
    (hb : ∀ h, b.holderOf = some h → h ∈ (db.getKey c.key).current.toList ++ (db.getKey c.key).locks)
    (hrel : ∀ h, b = .relock h → 0 < ((db.getKey c.key).getR h).depth)
    (huwr : b = .unlockedWaitRefused → (db.getKey c.key).waited = true)
    (hupd : ∀ h, b = .update h → 0 < ((db.getKey c.key).getR h).depth) :
    Tight (applyLock db c data b) := by
  have ge := Good.enter hdb ht c.key
  have le := ge.lv
  have ce := cur_enter ht c.key
  have hold : ∀ h, b.holderOf = some h → (db.enter c.key).k.hasRec h := by
    intro h hh
    apply hasRec_of_holder le
    rw [enter_k]; exact hb h hh
  have sh : ∀ h, (db.enter c.key).k.hasRec h → Tight (db.enter c.key) := fun h hh => Tight.of_good ge (recs_ne_of_hasRec hh) ce
  cases b with
  | p0a => exact (tight_openKey hdb ht c.key).reply _ _ _ _
  | p0b => exact ⟨GoodG.of_good ((Good.openKey hdb ht c.key).of_up ((Lv.openKey hdb c.key).db rfl (Nat.le_refl _)) (RecsUp.of_eq rfl)),
      settled_openKey ht c.key, fun _ => cur_openKey ht c.key⟩
  | stateError =>
    simp only [applyLock]
    exact (Tight.removeIfZero (GoodG.of_good ge) (fun _ => ce)).reply _ _ _ _
  | «show» cur => exact (sh cur (hold cur rfl)).reply _ _ _ _
  | updateEqual h => exact (sh h (hold h rfl)).reply _ _ _ _
  | relockNoHold h => exact (sh h (hold h rfl)).reply _ _ _ _
  | relockRefused h => exact (sh h (hold h rfl)).reply _ _ _ _
  | unlockedWaitRefused =>
    exact (⟨GoodG.of_good ge, settled_enter_of_hasKey ht c.key (hasKey_of_waited c.key (huwr rfl)), fun _ => ce⟩ : Tight _).reply _ _ _ _
  | updateEqualData h =>
    simp only [applyLock]
    have hh := hold h rfl
    have g1 := ge.of_up (le.procData .lock (lockCmdOf (db.enter c.key).k c (.updateEqualData h))
      (frameOf (lockCmdOf (db.enter c.key).k c (.updateEqualData h)) data) h) (up_procData _ _ _ _ _)
    have hh1 := (keep_procData (db.enter c.key) .lock (lockCmdOf (db.enter c.key).k c (.updateEqualData h))
      (frameOf (lockCmdOf (db.enter c.key).k c (.updateEqualData h)) data) h h).1.mpr hh
    exact (Tight.of_good g1 (recs_ne_of_hasRec hh1) (ce.of_dk (dk_procData _ _ _ _ _) g1.lv)).reply _ _ _ _
  | update h =>
    simp only [applyLock]
    exact good_wake ((update_tight_pre db hdb ht c data h (hold h rfl) (hupd h rfl)).reply _ _ _ _)
  | relock h =>
    simp only [applyLock]
    exact good_wake (((relock_tight_pre db hdb ht c data h (hold h rfl) (hrel h rfl)).ctr _).reply _ _ _ _)
  | grant =>
    simp only [applyLock]
    obtain ⟨ln, hn, _, _, _, hg⟩ := le.newLock zero_nonneg c data
    have g := newRec_grantable (db.enter c.key) c data hn hg
    have n0 : Nz ((db.enter c.key).newLock c data).1 (some (db.enter c.key).db.nextRid) := ⟨⟨ln.rc.nodup⟩, nz_addRec ge.nz.nz _⟩
    obtain ⟨l1, hh1⟩ := ln.grant zero_nonneg _ g
    have g1 : Good (((db.enter c.key).newLock c data).1.grant (db.enter c.key).db.nextRid) := ⟨l1, n0.grant _ hn⟩
    have cn : CurLive ((db.enter c.key).newLock c data).1.k := ce.addRec _ (hasRec_current le)
    have t1 := Tight.of_good g1 (recs_ne_of_hasRec hh1) (cur_grant cn ln _ g)
    unfold W.when
    split
    · exact good_wake t1
    · exact t1
  | grantNoHold =>
    simp only [applyLock]
    obtain ⟨ln, hn, _, hq, _, hg⟩ := le.newLock zero_nonneg c data
    have n0 : Nz ((db.enter c.key).newLock c data).1 (some (db.enter c.key).db.nextRid) := ⟨⟨ln.rc.nodup⟩, nz_addRec ge.nz.nz _⟩
    have l1 := ln.grantNoHold (db.enter c.key).db.nextRid
    have n1 := n0.of_up (up_grantNoHold ((db.enter c.key).newLock c data).1 (db.enter c.key).db.nextRid)
    have cn : CurLive ((db.enter c.key).newLock c data).1.k := ce.addRec _ (hasRec_current le)
    have t2 := good_freeCheck_clear l1 n1 (by rw [qRefs_of_queues (queues_grantNoHold _ _), hq]; simp [zero]) (cn.of_dk (dk_grantNoHold _ _) l1)
    have t3 := (t2.ctr (fun x => { x with lockCount := x.lockCount + 1 })).reply c Slock.Engine.RESULT_SUCCED 0 (db.enter c.key).lockData
    unfold W.when
    split
    · exact good_wake t3
    · exact t3
  | queue =>
    simp only [applyLock]
    obtain ⟨ln, hn, _, hq, _, hg⟩ := le.newLock zero_nonneg c data
    have n0 : Nz ((db.enter c.key).newLock c data).1 (some (db.enter c.key).db.nextRid) := ⟨⟨ln.rc.nodup⟩, nz_addRec ge.nz.nz _⟩
    have hcnt : (((db.enter c.key).newLock c data).1.k.wait.map (·.rid)).count (db.enter c.key).db.nextRid = 0 := by
      unfold Key.qRefs at hq; omega
    have l1 : Lv (((db.enter c.key).newLock c data).1.modK (·.addWaitLock (db.enter c.key).db.nextRid)) zero :=
      ln.modK _ (addWaitLock_rc zero_nonneg _ ln.rc hn hcnt) (RecsLe.addWaitLock _ _)
    have n1 : Nz (((db.enter c.key).newLock c data).1.modK (·.addWaitLock (db.enter c.key).db.nextRid)) (some (db.enter c.key).db.nextRid) := by
      have := nz_addWaitLock n0.nd (db.enter c.key).db.nextRid n0.nz
      exact ⟨this.1, this.2⟩
    obtain ⟨k1, k2, k3⟩ := keep_addWaitLock ((db.enter c.key).newLock c data).1.k (db.enter c.key).db.nextRid hn hcnt
    have kd := proj_addWaitLock (·.depth) (fun _ _ => rfl) ((db.enter c.key).newLock c data).1.k (db.enter c.key).db.nextRid hn hcnt
    rw [hg] at k2 k3 kd
    have l2 := l1.addTimeOut (db.enter c.key).db.nextRid k1 1 (by rw [modK_k, k2]; rfl) (by rw [modK_k, k3]; rfl)
    have n2 := n1.of_up (up_addTimeOut (((db.enter c.key).newLock c data).1.modK (·.addWaitLock (db.enter c.key).db.nextRid)) (db.enter c.key).db.nextRid)
    have hh2 := (hasRec_of_ids (ids_addTimeOut (((db.enter c.key).newLock c data).1.modK (·.addWaitLock (db.enter c.key).db.nextRid))
      (db.enter c.key).db.nextRid) (db.enter c.key).db.nextRid).mpr k1
    have l3 := (l2.ref _ hh2).congr (ex' := zero) (fun y => by simp [zero]; omega)
    have n3 := n2.of_up (up_ref _ (db.enter c.key).db.nextRid)
    have hh3 : ((((db.enter c.key).newLock c data).1.modK (·.addWaitLock (db.enter c.key).db.nextRid)).addTimeOut (db.enter c.key).db.nextRid).ref
        (db.enter c.key).db.nextRid |>.k.hasRec (db.enter c.key).db.nextRid := by
      unfold W.ref; rw [hasRec_modR _ _ _ _ (by intro _; rfl)]; exact hh2
    -- the new record: counted (queue entry + wheel entry), not a hold
    have kx := proj_addWaitLock (·.expried) (fun _ _ => rfl) ((db.enter c.key).newLock c data).1.k (db.enter c.key).db.nextRid hn hcnt
    rw [hg] at kx
    have hx3 : (((((db.enter c.key).newLock c data).1.modK (·.addWaitLock (db.enter c.key).db.nextRid)).addTimeOut (db.enter c.key).db.nextRid).ref
        (db.enter c.key).db.nextRid |>.k.getR (db.enter c.key).db.nextRid).expried = true := by
      unfold W.ref W.addTimeOut
      simp only [modR_k, modK_k]
      rw [getR_modRec_expried _ _ _ _ (by intro _; rfl) (by intro _; rfl), getR_modRec_expried _ _ _ _ (by intro _; rfl) (by intro _; rfl)]
      exact kx
    have hd3 : (((((db.enter c.key).newLock c data).1.modK (·.addWaitLock (db.enter c.key).db.nextRid)).addTimeOut (db.enter c.key).db.nextRid).ref
        (db.enter c.key).db.nextRid |>.k.getR (db.enter c.key).db.nextRid).depth = 0 := by
      unfold W.ref W.addTimeOut
      simp only [modR_k, modK_k]
      rw [getR_modRec_depth _ _ _ _ (by intro _; rfl) (by intro _; rfl), getR_modRec_depth _ _ _ _ (by intro _; rfl) (by intro _; rfl)]
      exact kd
    have n4 : Nz _ none := n3.clear (db.enter c.key).db.nextRid (fun _ => by
      have hrc := l3.rc.refCount_of hh3
      have hw : 1 ≤ ((((((db.enter c.key).newLock c data).1.modK (·.addWaitLock (db.enter c.key).db.nextRid)).addTimeOut (db.enter c.key).db.nextRid).ref
          (db.enter c.key).db.nextRid).k.getR (db.enter c.key).db.nextRid).wheelRefs := by
        apply wheel_of_t
        unfold W.ref W.addTimeOut
        simp only [modR_k, modK_k]
        rw [getR_modRec_tSome _ _ _ _ (by intro _; rfl) (by intro _; rfl), getR_modRec_same _ _ _ (by intro _; rfl) k1]
        rfl
      exact ⟨by simp only [zero] at hrc; omega, fun hp => by rw [hd3] at hp; omega, fun _ => hd3, fun _ _ => hx3⟩)
    have g4 : Good _ := ⟨l3, n4⟩
    have cn : CurLive ((db.enter c.key).newLock c data).1.k := ce.addRec _ (hasRec_current le)
    have c4 := cn.of_dk (DK.trans (dk_ref _ _) (DK.trans (dk_addTimeOut _ _) (dk_modK _ _ (DepthKeep.addWaitLock _ _)))) l3
    exact (Tight.of_good g4 (recs_ne_of_hasRec hh3) c4).ctr _
  | timeout =>
    simp only [applyLock]
    obtain ⟨ln, hn, _, hq, _, hg⟩ := le.newLock zero_nonneg c data
    have n0 : Nz ((db.enter c.key).newLock c data).1 (some (db.enter c.key).db.nextRid) := ⟨⟨ln.rc.nodup⟩, nz_addRec ge.nz.nz _⟩
    have cn : CurLive ((db.enter c.key).newLock c data).1.k := ce.addRec _ (hasRec_current le)
    exact (good_freeCheck_clear ln n0 (by rw [hq]; simp [zero]) cn).reply _ _ _ _

end Slock.Engine2
