import Slock.Proofs.Engine2Value
/-! Stage-2 engine: the reference-count invariant, key-record level.

`RCx k ex`: every un-freed lock record's `refCount` equals the number of structures that reference it — `currentLock`, entries of
the holder queue and of the wait queue (tombstoned ones included), its timeout-wheel entry, its expiry-wheel entry — plus a
per-record surplus `ex` (references an operation in progress holds "in hand" or has not yet accounted for; `ex = 0` between
operations); the manager's `refCount` is the number of un-freed records; every referenced record exists; record ids are distinct. -/
namespace Slock.Engine2

def Rec.wheelRefs (r : Rec) : Nat := (if r.tSched.isSome then 1 else 0) + (if r.eSched.isSome then 1 else 0)

def Key.qRefs (k : Key) (x : Nat) : Nat :=
  (if k.current = some x then 1 else 0) + k.locks.count x + (k.wait.map (·.rid)).count x

def delta (x : Nat) : Nat → Int := fun y => if y = x then 1 else 0

structure RCx (k : Key) (ex : Nat → Int) : Prop where
  nodup : (k.recs.map (·.rid)).Nodup
  rc : ∀ r ∈ k.recs, (r.refCount : Int) = k.qRefs r.rid + r.wheelRefs + ex r.rid
  mgr : k.refCount = k.recs.length
  dang : ∀ x, 0 < (k.qRefs x : Int) + ex x → k.hasRec x

theorem RCx.ofNewKey (n : Nat) : RCx (Slock.Engine2.newKey n) (fun _ => 0) :=
  ⟨by simp [Slock.Engine2.newKey], by simp [Slock.Engine2.newKey], by simp [Slock.Engine2.newKey],
   by intro x h; simp [Slock.Engine2.newKey, Key.qRefs] at h⟩

/-- changing only the surplus function pointwise -/
theorem RCx.congr {k : Key} {ex ex' : Nat → Int} (h : RCx k ex) (e : ∀ x, ex' x = ex x) : RCx k ex' :=
  ⟨h.nodup, fun r hr => by rw [e]; exact h.rc r hr, h.mgr, fun x hx => h.dang x (by rw [← e]; exact hx)⟩

/-- queues edited, records untouched: the books balance if the surplus moves the other way -/
theorem RCx.transfer {k k' : Key} {ex ex' : Nat → Int} (h : RCx k ex) (hr : k'.recs = k.recs) (hm : k'.refCount = k.refCount)
    (hq : ∀ x, (k'.qRefs x : Int) + ex' x = k.qRefs x + ex x) : RCx k' ex' := by
  refine ⟨by rw [hr]; exact h.nodup, ?_, by rw [hm, hr]; exact h.mgr, ?_⟩
  · intro r hrm
    rw [hr] at hrm
    have := h.rc r hrm
    have hq' := hq r.rid
    omega
  · intro x hx
    have : k'.hasRec x ↔ k.hasRec x := by unfold Key.hasRec; rw [hr]
    rw [this]; apply h.dang; rw [← hq x]; exact hx

/-! ### looking a record up -/

theorem getR_mem {k : Key} {x : Nat} (h : k.hasRec x) : k.getR x ∈ k.recs := by
  obtain ⟨r, hr⟩ := hasRec_find k x h
  unfold Key.getR; rw [hr]; exact List.mem_of_find?_eq_some hr

theorem find_of_mem_nodup (l : List Rec) (hn : (l.map (·.rid)).Nodup) {r : Rec} (hr : r ∈ l) : l.find? (·.rid == r.rid) = some r := by
  induction l with
  | nil => simp at hr
  | cons a as ih =>
    simp only [List.map_cons, List.nodup_cons] at hn
    rcases List.mem_cons.mp hr with e | hm
    · subst e; simp [List.find?]
    · have hne : (a.rid == r.rid) = false := by
        have : a.rid ≠ r.rid := fun e => hn.1 (by rw [e]; exact List.mem_map.mpr ⟨r, hm, rfl⟩)
        simpa using this
      simp only [List.find?, hne]
      exact ih hn.2 hm

theorem mem_eq_getR {k : Key} (hn : (k.recs.map (·.rid)).Nodup) {r : Rec} (hr : r ∈ k.recs) : k.getR r.rid = r := by
  unfold Key.getR
  rw [find_of_mem_nodup k.recs hn hr]; rfl

theorem RCx.refCount_of {k : Key} {ex : Nat → Int} (h : RCx k ex) {x : Nat} (hx : k.hasRec x) :
    ((k.getR x).refCount : Int) = k.qRefs x + (k.getR x).wheelRefs + ex x := by
  have := h.rc _ (getR_mem hx)
  rw [getR_rid] at this; exact this

/-! ### editing one record -/

theorem map_rid_modRec (k : Key) (rid : Nat) (f : Rec → Rec) (hf : ∀ r, (f r).rid = r.rid) :
    (k.modRec rid f).recs.map (·.rid) = k.recs.map (·.rid) := by
  unfold Key.modRec
  simp only [List.map_map]
  apply List.map_congr_left
  intro r _
  simp only [Function.comp]
  split
  · exact hf r
  · rfl

@[simp] theorem qRefs_modRec (k : Key) (rid : Nat) (f : Rec → Rec) (x : Nat) : (k.modRec rid f).qRefs x = k.qRefs x := rfl

/-- the general record edit: if the edited record's own balance is right afterwards, everything is -/
theorem RCx.modRec {k : Key} {ex ex' : Nat → Int} (h : RCx k ex) (rid : Nat) (f : Rec → Rec) (hf : ∀ r, (f r).rid = r.rid)
    (hx : ∀ y, y ≠ rid → ex' y = ex y)
    (hb : k.hasRec rid → ((f (k.getR rid)).refCount : Int) + (k.getR rid).wheelRefs + ex rid =
      (k.getR rid).refCount + (f (k.getR rid)).wheelRefs + ex' rid)
    (hd : ¬ k.hasRec rid → ex' rid = ex rid) : RCx (k.modRec rid f) ex' := by
  refine ⟨by rw [map_rid_modRec _ _ _ hf]; exact h.nodup, ?_, ?_, ?_⟩
  · intro r hr
    unfold Key.modRec at hr
    simp only [List.mem_map] at hr
    obtain ⟨r0, hr0, e⟩ := hr
    by_cases hc : (r0.rid == rid) = true
    · have er : r0.rid = rid := by simpa using hc
      rw [if_pos hc] at e
      have hhas : k.hasRec rid := ⟨r0, hr0, er⟩
      have hg : k.getR rid = r0 := by rw [← er]; exact mem_eq_getR h.nodup hr0
      have h0 := h.rc r0 hr0
      have hb' := hb hhas
      rw [hg] at hb'
      rw [← e, hf, er, qRefs_modRec]
      rw [er] at h0
      omega
    · rw [if_neg hc] at e
      have : r0.rid ≠ rid := by simpa using hc
      rw [← e, hx _ this, qRefs_modRec]
      exact h.rc r0 hr0
  · show k.refCount = (k.recs.map _).length
    rw [List.length_map]; exact h.mgr
  · intro x hxp
    rw [hasRec_modRec _ _ _ _ hf]
    by_cases e : x = rid
    · subst e
      by_cases hh : k.hasRec x
      · exact hh
      · rw [hd hh, qRefs_modRec] at hxp; exact h.dang x hxp
    · rw [hx x e, qRefs_modRec] at hxp; exact h.dang x hxp

/-- an edit that touches neither the reference count nor the wheel memberships -/
theorem RCx.modRec_plain {k : Key} {ex : Nat → Int} (h : RCx k ex) (rid : Nat) (f : Rec → Rec) (hf : ∀ r, (f r).rid = r.rid)
    (h1 : ∀ r, (f r).refCount = r.refCount) (h2 : ∀ r, (f r).wheelRefs = r.wheelRefs) : RCx (k.modRec rid f) ex :=
  h.modRec rid f hf (fun _ _ => rfl) (fun _ => by rw [h1, h2]) (fun _ => rfl)

/-- `refCount++` -/
theorem RCx.incr {k : Key} {ex : Nat → Int} (h : RCx k ex) (rid : Nat) (hh : k.hasRec rid) :
    RCx (k.modRec rid (fun r => { r with refCount := r.refCount + 1 })) (fun y => ex y + delta rid y) :=
  h.modRec rid _ (fun _ => rfl) (fun y hy => by simp [delta, hy]) (fun _ => by simp [delta, Rec.wheelRefs]; omega) (fun hn => absurd hh hn)

/-- `refCount--` on a record that is owed one -/
theorem RCx.unrefOnly {k : Key} {ex : Nat → Int} (h : RCx k ex) (rid : Nat) (hh : k.hasRec rid)
    (hpos : 0 < (k.qRefs rid : Int) + (k.getR rid).wheelRefs + ex rid) :
    RCx (k.unrefOnly rid) (fun y => ex y - delta rid y) := by
  have hrc := h.refCount_of hh
  unfold Key.unrefOnly
  refine h.modRec rid _ (fun _ => rfl) (fun y hy => by simp [delta, hy]) (fun _ => ?_) (fun hn => absurd hh hn)
  have : (k.getR rid).refCount ≠ 0 := by omega
  simp only [decU8, this, if_false, delta, if_true, Rec.wheelRefs]
  omega

/-! ### freeing -/

theorem hasRec_free (k : Key) (rid x : Nat) (hx : x ≠ rid) : (k.free rid).hasRec x ↔ k.hasRec x := by
  unfold Key.free Key.hasRec
  split
  · simp only [List.mem_filter]
    constructor
    · rintro ⟨r, ⟨hr, _⟩, e⟩; exact ⟨r, hr, e⟩
    · rintro ⟨r, hr, e⟩; exact ⟨r, ⟨hr, by simpa [e] using hx⟩, e⟩
  · rfl

theorem any_iff_hasRec (k : Key) (rid : Nat) : k.recs.any (·.rid == rid) = true ↔ k.hasRec rid := by
  unfold Key.hasRec
  simp [List.any_eq_true]

theorem length_filter_ne {l : List Rec} {rid : Nat} (hn : (l.map (·.rid)).Nodup) (hm : ∃ r ∈ l, r.rid = rid) :
    (l.filter (·.rid != rid)).length + 1 = l.length := by
  induction l with
  | nil => obtain ⟨r, hr, _⟩ := hm; simp at hr
  | cons a as ih =>
    simp only [List.map_cons, List.nodup_cons] at hn
    by_cases e : a.rid = rid
    · have h1 : (a.rid != rid) = false := by simp [e]
      have hall : as.filter (·.rid != rid) = as := by
        apply List.filter_eq_self.mpr
        intro y hy
        have : y.rid ≠ rid := fun e' => hn.1 (by rw [e, ← e']; exact List.mem_map.mpr ⟨y, hy, rfl⟩)
        simpa using this
      simp [List.filter, h1, hall]
    · have h1 : (a.rid != rid) = true := by simpa using e
      obtain ⟨r, hr, er⟩ := hm
      have hr' : r ∈ as := by
        rcases List.mem_cons.mp hr with e' | h'
        · exact absurd (e' ▸ er) e
        · exact h'
      simp only [List.filter, h1, List.length_cons]
      have := ih hn.2 ⟨r, hr', er⟩
      omega

/-- `FreeLock` of a record nothing refers to any more -/
theorem RCx.free {k : Key} {ex : Nat → Int} (h : RCx k ex) (rid : Nat) (hz : (k.qRefs rid : Int) + ex rid ≤ 0) :
    RCx (k.free rid) ex := by
  by_cases hh : k.hasRec rid
  · have ha : k.recs.any (·.rid == rid) = true := (any_iff_hasRec k rid).mpr hh
    have hfree : k.free rid = { k with recs := k.recs.filter (·.rid != rid), refCount := decU32 k.refCount } := by
      unfold Key.free; simp [ha]
    refine ⟨?_, ?_, ?_, ?_⟩
    · rw [hfree]
      have : (k.recs.filter (·.rid != rid)).map (·.rid) = (k.recs.map (·.rid)).filter (· != rid) := by
        rw [List.filter_map]; rfl
      rw [this]; exact List.Nodup.sublist List.filter_sublist h.nodup
    · intro r hr
      rw [hfree] at hr ⊢
      exact h.rc r (List.mem_filter.mp hr).1
    · rw [hfree]
      have hl := length_filter_ne h.nodup hh
      have hm := h.mgr
      simp only [decU32]
      have : k.refCount ≠ 0 := by omega
      simp only [this, if_false]; omega
    · intro x hx
      have hq : (k.free rid).qRefs x = k.qRefs x := by rw [hfree]; rfl
      rw [hq] at hx
      have hne : x ≠ rid := by intro e; subst e; omega
      rw [hasRec_free _ _ _ hne]; exact h.dang x hx
  · have : k.free rid = k := by
      unfold Key.free
      have : k.recs.any (·.rid == rid) = false := by
        cases hb : k.recs.any (·.rid == rid) with
        | false => rfl
        | true => exact absurd ((any_iff_hasRec k rid).mp hb) hh
      simp [this]
    rw [this]; exact h

/-- `refCount--; if refCount == 0 { FreeLock }` on a record that is owed one -/
theorem RCx.unref {k : Key} {ex : Nat → Int} (h : RCx k ex) (rid : Nat) (hpos : 0 < (k.qRefs rid : Int) + ex rid) :
    RCx (k.unref rid) (fun y => ex y - delta rid y) := by
  have hh := h.dang rid hpos
  have h1 := h.unrefOnly rid hh (by omega)
  unfold Key.unref
  simp only []
  split
  · rename_i hz
    apply h1.free
    have hh1 : (k.unrefOnly rid).hasRec rid := by unfold Key.unrefOnly; rw [hasRec_modRec _ _ _ _ (by intro _; rfl)]; exact hh
    have := h1.refCount_of hh1
    have hz' : ((k.unrefOnly rid).getR rid).refCount = 0 := by simpa using hz
    rw [hz'] at this
    simp only [delta, if_true] at this ⊢
    omega
  · exact h1

end Slock.Engine2
