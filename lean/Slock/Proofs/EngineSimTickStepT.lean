import Slock.Proofs.EngineSimTickPend
/-! Clock-tick simulation (`sim_tick`): ONE step of each phase of the timeout sweep (`timeoutStep true`, `timeoutStep false`,
`fireTimeoutStep`) on the record level against stage 1's step, with everything the folds carry. -/
namespace Slock.SimTick
open Slock Slock.Sim Slock.Engine2
open Slock.Engine (has)

theorem timeoutStep_sy (slot : Bool) (s : DB) (C : List Ent) (e : Ent) (h : Sy s) : Sy (timeoutStep slot (s, C) e).1 :=
  ⟨timeoutStep_dbq slot (s, C) e h.dbq, timeoutStep_dbk slot (s, C) e h.dbq h.dbk, timeoutStep_dbkt slot (s, C) e h.dbq h.dbk h.dbkt⟩

theorem fireTimeoutStep_sy (s : DB) (o : List Reply) (e : Ent) (h : Sy s) : Sy (fireTimeoutStep (s, o) e).1 :=
  ⟨fireTimeoutStep_dbq (s, o) e h.dbq, fireTimeoutStep_dbk (s, o) e h.dbq h.dbk, fireTimeoutStep_dbkt (s, o) e h.dbq h.dbk h.dbkt⟩

/-- the (RequestId, connection) pairs stage 1 sees under every key are the same -/
def RC (s' s : DB) : Prop := ∀ n, (Key.abs (s'.getKey n)).waiters.map rcOf = (Key.abs (s.getKey n)).waiters.map rcOf

theorem rc_of_eql {s' s : DB} {S : List WId} {x : Engine.DB} (hn' : (s'.keys.map (·.key)).Nodup) (hn : (s.keys.map (·.key)).Nodup)
    (he : EqL S (Engine2.abs s') x) (hx : ∀ n, (x.getKey n).waiters.map rcOf = ((Engine2.abs s).getKey n).waiters.map rcOf) : RC s' s := by
  intro n
  rw [← abs_getKey s' hn' n, ← abs_getKey s hn n, he.keys n, ← hx n, clrK_waiters, List.map_map]
  apply List.map_congr_left
  intro v _
  show rcOf (clr S _ v) = rcOf v
  unfold rcOf; rw [clr_cmd, clr_conn]

theorem rearmWaiter_rc (a : Engine.DB) (v : Engine.Waiter) (n : Nat) :
    ((Engine.rearmWaiter a v).getKey n).waiters.map rcOf = (a.getKey n).waiters.map rcOf := by
  rw [rearmWaiter_eq]
  by_cases e : n = v.cmd.key
  · subst e
    have hk : (mapW (a.getKey v.cmd.key) v (rearmW a.tCheck a.seq v)).key = v.cmd.key := Engine.getKey_key a v.cmd.key
    have := getKey_setKey_same (seqUp a) (mapW (a.getKey v.cmd.key) v (rearmW a.tCheck a.seq v))
    rw [hk] at this
    rw [this]
    show ((a.getKey v.cmd.key).waiters.map _).map rcOf = _
    rw [List.map_map]
    apply List.map_congr_left
    intro x _
    show rcOf (if x.cmd.req == v.cmd.req && x.conn == v.conn then rearmW a.tCheck a.seq v else x) = rcOf x
    split
    · rename_i h
      simp only [Bool.and_eq_true, beq_iff_eq] at h
      unfold rcOf rearmW
      simp only [h.1, h.2]
    · rfl
  · have hk : (mapW (a.getKey v.cmd.key) v (rearmW a.tCheck a.seq v)).key = v.cmd.key := Engine.getKey_key a v.cmd.key
    rw [getKey_setKey_other _ _ _ (by rw [hk]; exact e)]
    rfl

/-- **one step of pass 1 (slot entries), entry not a live request**: stuttering -/
theorem pass1T_dead (s : DB) (a : Engine.DB) (C2 : List Ent) (e0 : Ent) (sy : Sy s) (i1 : I1 a) (he : Equiv (Engine2.abs s) a)
    (hd : liveT s e0 = false) (slot : Bool) :
    Equiv (Engine2.abs (timeoutStep slot (s, C2) e0).1) a ∧ (timeoutStep slot (s, C2) e0).2 = C2 ∧ RC (timeoutStep slot (s, C2) e0).1 s := by
  have k1 := k1_of_equiv sy he i1 e0.key
  obtain ⟨w', hv, e1⟩ := sim_visitT_stutter s sy.dbq sy.dbk e0.key e0.rid slot k1 (Or.inr ((liveT_false_iff s e0).mp hd))
  have hs' := timeoutStep_sy slot s C2 e0 sy
  unfold timeoutStep at hs' ⊢
  simp only [hv] at hs' ⊢
  refine ⟨e1.trans he, by trivial, ?_⟩
  exact rc_of_eql hs'.dbq.dbt.dbi.kn sy.dbq.dbt.dbi.kn (EqL.of_equiv e1) (fun _ => rfl)

/-- **one step of pass 1 (slot entries), live request**: re-armed in both models, or collected in both -/
theorem pass1T_live (s : DB) (a : Engine.DB) (C2 : List Ent) (C1 : List Engine.Waiter) (e0 : Ent) (sy : Sy s) (i1 : I1 a)
    (he : Equiv (Engine2.abs s) a) (hl : liveT s e0 = true) :
    Equiv (Engine2.abs (timeoutStep true (s, C2) e0).1) (Engine.timeoutStep (a, C1) (viewT s e0)).1 ∧ RC (timeoutStep true (s, C2) e0).1 s ∧
    (((timeoutStep true (s, C2) e0).2 = C2 ∧ (Engine.timeoutStep (a, C1) (viewT s e0)).2 = C1) ∨
     ((timeoutStep true (s, C2) e0).1 = s ∧ (timeoutStep true (s, C2) e0).2 = C2 ++ [e0] ∧ (Engine.timeoutStep (a, C1) (viewT s e0)).2 = C1 ++ [viewT s e0])) := by
  have k1 := k1_of_equiv sy he i1 e0.key
  have hT := hasT_of_liveT sy.dbkt hl
  have hl' := (liveT_iff s e0).mp hl
  have hs' := timeoutStep_sy true s C2 e0 sy
  by_cases hdue : ((s.getKey e0.key).getR e0.rid).timeoutT > s.now
  · obtain ⟨hv, e1⟩ := sim_rearmT s sy.dbq sy.dbk sy.dbkt e0.key e0.rid k1 hT hl' hdue
    have h1 : Engine.timeoutStep (a, C1) (viewT s e0) = (Engine.rearmWaiter a (viewT s e0), C1) := by
      unfold Engine.timeoutStep
      have : (viewT s e0).timeoutT > a.now := by rw [← he.now]; exact hdue
      simp only [this, if_true]
    unfold timeoutStep at hs' ⊢
    simp only [hv] at hs' ⊢
    rw [h1]
    refine ⟨e1.trans (rearmWaiter_congr he _), ?_, Or.inl ⟨by trivial, by trivial⟩⟩
    exact rc_of_eql hs'.dbq.dbt.dbi.kn sy.dbq.dbt.dbi.kn (EqL.of_equiv e1) (fun n => rearmWaiter_rc _ _ n)
  · have hv : (s.openKey e0.key).visitTimeout true e0.rid = none := by
      rw [visitT_live_cases _ true e0.rid hT hl']
      have : ¬ (((s.openKey e0.key).k.getR e0.rid).timeoutT > (s.openKey e0.key).db.now) := hdue
      simp [this]
    have h1 : Engine.timeoutStep (a, C1) (viewT s e0) = (a, C1 ++ [viewT s e0]) := by
      unfold Engine.timeoutStep
      have : ¬ ((viewT s e0).timeoutT > a.now) := by rw [← he.now]; exact hdue
      simp only [this, if_false]
    unfold timeoutStep
    simp only [hv, if_true]
    rw [h1]
    exact ⟨he, fun _ => rfl, Or.inr ⟨by trivial, by trivial, by trivial⟩⟩

theorem EqL.comp {i : WId} {S : List WId} {x y z : Engine.DB} (h1 : EqL [i] x y) (h2 : EqL S y z) : EqL (i :: S) x z :=
  ⟨h1.se.trans h2.se, fun n => by rw [h1.keys n, h2.keys n, clrK_cons]⟩

/-- **one step of the long-table pass, live request**: taken in hand (`collectT`); stage 1 does nothing -/
theorem passLT_live (s : DB) (a : Engine.DB) (S : List WId) (C2 : List Ent) (e0 : Ent) (sy : Sy s) (i1 : I1 a)
    (he : EqL S (Engine2.abs s) a) (hl : liveT s e0 = true) :
    EqL (rcId e0.key (viewT s e0) :: S) (Engine2.abs (timeoutStep false (s, C2) e0).1) a ∧ (timeoutStep false (s, C2) e0).2 = C2 ++ [e0] ∧
    RC (timeoutStep false (s, C2) e0).1 s := by
  have k1 := k1_of_eql sy he i1 e0.key
  have hT := hasT_of_liveT sy.dbkt hl
  have hl' := (liveT_iff s e0).mp hl
  have hs' := timeoutStep_sy false s C2 e0 sy
  have hv : (s.openKey e0.key).visitTimeout false e0.rid = none := by
    rw [visitT_live_cases _ false e0.rid hT hl']
    simp
  have e1 := sim_collectT s sy.dbq sy.dbk sy.dbkt e0.key e0.rid k1 hT hl'
  unfold timeoutStep at hs' ⊢
  simp only [hv, Bool.false_eq_true, if_false] at hs' ⊢
  refine ⟨EqL.comp e1 he, by trivial, ?_⟩
  exact rc_of_eql hs'.dbq.dbt.dbi.kn sy.dbq.dbt.dbi.kn e1 (fun _ => rfl)

theorem passLT_dead (s : DB) (a : Engine.DB) (S : List WId) (C2 : List Ent) (e0 : Ent) (sy : Sy s) (i1 : I1 a)
    (he : EqL S (Engine2.abs s) a) (hd : liveT s e0 = false) :
    EqL S (Engine2.abs (timeoutStep false (s, C2) e0).1) a ∧ (timeoutStep false (s, C2) e0).2 = C2 ∧ RC (timeoutStep false (s, C2) e0).1 s := by
  have k1 := k1_of_eql sy he i1 e0.key
  obtain ⟨w', hv, e1⟩ := sim_visitT_stutter s sy.dbq sy.dbk e0.key e0.rid false k1 (Or.inr ((liveT_false_iff s e0).mp hd))
  have hs' := timeoutStep_sy false s C2 e0 sy
  unfold timeoutStep at hs' ⊢
  simp only [hv] at hs' ⊢
  refine ⟨EqL.left e1 he, by trivial, ?_⟩
  exact rc_of_eql hs'.dbq.dbt.dbi.kn sy.dbq.dbt.dbi.kn (EqL.of_equiv e1) (fun _ => rfl)

/-! ### firing -/

theorem find_rc_unique (ws : List Engine.Waiter) (v w : Engine.Waiter) (hv : v ∈ ws) (hn : (ws.map rcOf).Nodup) (e : rcOf v = rcOf w) :
    ws.find? (fun x => x.cmd.req == w.cmd.req && x.conn == w.conn) = some v := by
  induction ws with
  | nil => simp at hv
  | cons a as ih =>
    simp only [List.map_cons, List.nodup_cons] at hn
    unfold rcOf at e
    simp only [Prod.mk.injEq] at e
    rcases List.mem_cons.mp hv with h1 | h1
    · subst h1
      simp [List.find?, e.1, e.2]
    · have hne : ¬ (a.cmd.req = w.cmd.req ∧ a.conn = w.conn) := by
        intro ⟨e1, e2⟩
        apply hn.1
        have : rcOf a = rcOf v := by unfold rcOf; rw [e1, e2, e.1, e.2]
        rw [this]; exact List.mem_map.mpr ⟨v, h1, rfl⟩
      have hc : (a.cmd.req == w.cmd.req && a.conn == w.conn) = false := by
        cases h : (a.cmd.req == w.cmd.req && a.conn == w.conn) with
        | false => rfl
        | true => simp only [Bool.and_eq_true, beq_iff_eq] at h; exact absurd h hne
      simp only [List.find?, hc]
      exact ih h1 hn.2

/-- **one firing step against stage 1's step on `abs`**, exactly -/
theorem fireT_step_abs (s : DB) (o2 : List Reply) (e0 : Ent) (w0 : Engine.Waiter) (sy : Sy s) (k1 : K1 (s.getKey e0.key)) (pt : PT s e0 w0) :
    Equiv (Engine2.abs (fireTimeoutStep (s, o2) e0).1) (Engine.fireTimeoutStep (Engine2.abs s, o2.map (·.r)) w0).1 ∧
    (fireTimeoutStep (s, o2) e0).2.map (·.r) = (Engine.fireTimeoutStep (Engine2.abs s, o2.map (·.r)) w0).2 := by
  unfold fireTimeoutStep Engine.fireTimeoutStep
  simp only []
  rw [pt.key, abs_getKey s sy.dbq.dbt.dbi.kn e0.key]
  cases hl : liveT s e0 with
  | true =>
    have hT := hasT_of_liveT sy.dbkt hl
    have hl' := (liveT_iff s e0).mp hl
    have hmem := live_mem_abs (sy.dbkt.getKey e0.key) e0.rid (hasRec_of_liveT hl) hl'
    rw [find_rc_unique _ _ w0 hmem k1.wu (pt.live hl)]
    obtain ⟨e1, e2⟩ := sim_fireT_live s sy.dbq sy.dbk sy.dbkt e0.key e0.rid k1 hT hl'
    simp only []
    exact ⟨e1, by rw [List.map_append, e2]⟩
  | false =>
    have hnone : (Key.abs (s.getKey e0.key)).waiters.find? (fun x => x.cmd.req == w0.cmd.req && x.conn == w0.conn) = none := by
      apply List.find?_eq_none.mpr
      intro v hv hc
      simp only [Bool.and_eq_true, beq_iff_eq] at hc
      apply pt.dead hl v hv
      unfold rcOf; rw [hc.1, hc.2]
    rw [hnone]
    obtain ⟨e1, e2⟩ := sim_fireT_stutter s sy.dbq sy.dbk e0.key e0.rid k1 (Or.inr ((liveT_false_iff s e0).mp hl))
    simp only []
    exact ⟨e1, by rw [e2]; simp⟩

end Slock.SimTick
