import Slock.Proofs.TransTag
/-! M-TRANS: a link that is left alone stays up (and a blocked text handler stays blocked on the same RequestId) over
any number of other events — the persistence half of "same outcome from any node". -/
namespace Slock.Trans
open Slock.Gen

/-- events that do not take the link of connection `c` down -/
def QuietB (c : Nat) : Event → Prop
  | .linkDown d => d ≠ c
  | .leader _ => False
  | .close d => d ≠ c
  | .closeCut d _ => d ≠ c
  | _ => True

/-- … and do not answer RequestId `rid` on it either -/
def QuietT (c rid : Nat) : Event → Prop
  | .linkDown d => d ≠ c
  | .leader _ => False
  | .close d => d ≠ c
  | .closeCut d _ => d ≠ c
  | .leaderMsg d (.lockRes r) _ => d ≠ c ∨ r.rid ≠ rid
  | _ => True

def KeepB (x : Conn) : Prop := x.kind = .binary ∧ x.closed = false ∧ x.link.isSome = true

def KeepT (rid : Nat) (md : TextMode) (x : Conn) : Prop :=
  x.kind = .text ∧ x.closed = false ∧ x.link.isSome = true ∧ x.awaiting = some (rid, md) ∧ x.half = false

theorem idx_lt {s : Node} {c : Nat} {x : Conn} (hx : s.conns[c]? = some x) : c < s.conns.length := by
  rcases Nat.lt_or_ge c s.conns.length with h | h
  · exact h
  · rw [List.getElem?_eq_none h] at hx; cases hx

/-- a step aimed at another connection (or at the node's role) leaves connection `c` as it is -/
theorem step_frame {s : Node} {c : Nat} {x : Conn} (hx : s.conns[c]? = some x) (e : Event)
    (h : match e with
      | .accept _ => True
      | .request d _ _ => d ≠ c
      | .leaderMsg d _ _ => d ≠ c
      | .linkDown d => d ≠ c
      | .role _ => True
      | .unattached _ => True
      | .leader _ => False
      | .close d => d ≠ c
      | .closeCut d _ => d ≠ c) :
    (step s e).1.conns[c]? = some x := by
  have hlt := idx_lt hx
  cases e with
  | accept k => simp only [step]; rw [List.getElem?_append_left hlt]; exact hx
  | role r => simpa [step] using hx
  | unattached d => simpa [step] using hx
  | leader a => exact absurd h id
  | request d short q =>
    simp only [step]
    rcases will_or_not q with ⟨wct, wcmd, rfl⟩ | hq
    · rw [stepRequest_will]
      split
      · exact hx
      · simp only; rw [List.getElem?_set_ne h]; exact hx
    · rw [stepRequest_eq hq]
      split
      · exact hx
      · simp only; rw [List.getElem?_set_ne h]; exact hx
  | leaderMsg d msg early =>
    simp only [step, stepLeaderMsg]
    repeat' split
    all_goals first | exact hx | (simp only; rw [List.getElem?_set_ne h]; exact hx)
  | linkDown d =>
    simp only [step, stepLinkDown]
    repeat' split
    all_goals first | exact hx | (simp only; rw [List.getElem?_set_ne h]; exact hx)
  | close d =>
    simp only [step, stepClose]
    repeat' split
    all_goals first | exact hx | (simp only; rw [List.getElem?_set_ne h]; exact hx)
  | closeCut d k =>
    simp only [step, stepClose]
    repeat' split
    all_goals first | exact hx | (simp only; rw [List.getElem?_set_ne h]; exact hx)

@[simp] theorem addGot_kind (x : Conn) (m : ToClient) : (addGot x m).kind = x.kind := by unfold addGot; split <;> rfl
@[simp] theorem addGot_closed (x : Conn) (m : ToClient) : (addGot x m).closed = x.closed := by unfold addGot; split <;> rfl
@[simp] theorem addGot_link (x : Conn) (m : ToClient) : (addGot x m).link = x.link := by unfold addGot; split <;> rfl
@[simp] theorem addGot_awaiting (x : Conn) (m : ToClient) : (addGot x m).awaiting = x.awaiting := by unfold addGot; split <;> rfl
@[simp] theorem addGot_half (x : Conn) (m : ToClient) : (addGot x m).half = x.half := by unfold addGot; split <;> rfl
@[simp] theorem addGot_plainLoop (x : Conn) (m : ToClient) : (addGot x m).plainLoop = x.plainLoop := by unfold addGot; split <;> rfl
@[simp] theorem addGot_initCmd (x : Conn) (m : ToClient) : (addGot x m).initCmd = x.initCmd := by unfold addGot; split <;> rfl
@[simp] theorem addGot_asked (x : Conn) (m : ToClient) : (addGot x m).asked = x.asked := by unfold addGot; split <;> rfl

theorem applyConn_keepB {s : Node} {c : Nat} {x : Conn} {rid : Option Nat} (b : Branch) (h : KeepB x) :
    KeepB (applyConn s c x rid b).1 := by
  obtain ⟨h1, h2, h3⟩ := h
  cases b <;> simp [applyConn, dispatched, KeepB, h1, h2, h3]

theorem relay_keepB {s : Node} {c : Nat} {x : Conn} {l : Link} (msg : LeaderMsg) (early : Bool) (h : KeepB x) :
    KeepB (relay s c x l msg early).1 := by
  obtain ⟨h1, h2, h3⟩ := h
  cases msg with
  | lockRes r => simp [relay, KeepB, h1, h2]
  | callRes rid res ct => simp [relay, KeepB, h1, h2]
  | initRes rid res it =>
    simp only [relay, h1]
    repeat' split
    all_goals simp [KeepB, h2]
  | other => simp [relay, KeepB, h1, h2, h3]

theorem keepB_step {s : Node} {c : Nat} {x : Conn} (hx : s.conns[c]? = some x) (hk : KeepB x) (e : Event) (hq : QuietB c e) :
    ∃ x', (step s e).1.conns[c]? = some x' ∧ KeepB x' := by
  have hlt := idx_lt hx
  cases e with
  | accept k => exact ⟨x, step_frame hx _ trivial, hk⟩
  | role r => exact ⟨x, step_frame hx _ trivial, hk⟩
  | unattached d => exact ⟨x, step_frame hx _ trivial, hk⟩
  | leader a => exact absurd hq id
  | linkDown d => exact ⟨x, step_frame hx (.linkDown d) hq, hk⟩
  | close d => exact ⟨x, step_frame hx (.close d) hq, hk⟩
  | closeCut d k => exact ⟨x, step_frame hx (.closeCut d k) hq, hk⟩
  | request d short q =>
    by_cases hd : d = c
    · subst hd
      rcases will_or_not q with ⟨wct, wcmd, rfl⟩ | hq
      · simp only [step, stepRequest_will, hx, List.getElem?_set_self hlt]
        refine ⟨_, rfl, ?_⟩
        obtain ⟨h1, h2, h3⟩ := hk
        unfold willConn
        repeat' split
        all_goals simp [KeepB, dispatched, h1, h2, h3]
      · simp only [step, stepRequest_eq hq, hx, List.getElem?_set_self hlt]
        exact ⟨_, rfl, applyConn_keepB _ hk⟩
    · exact ⟨x, step_frame hx (.request d short q) hd, hk⟩
  | leaderMsg d msg early =>
    by_cases hd : d = c
    · subst hd
      obtain ⟨l, hl⟩ := Option.isSome_iff_exists.mp hk.2.2
      simp only [step, stepLeaderMsg, hx, hl, List.getElem?_set_self hlt]
      exact ⟨_, rfl, relay_keepB _ _ hk⟩
    · exact ⟨x, step_frame hx (.leaderMsg d msg early) hd, hk⟩

theorem keepB_run {c : Nat} (evs : List Event) : ∀ {s : Node} {x : Conn}, s.conns[c]? = some x → KeepB x →
    (∀ e ∈ evs, QuietB c e) → ∃ x', (runFrom s evs).conns[c]? = some x' ∧ KeepB x' := by
  induction evs with
  | nil => intro s x hx hk _; exact ⟨x, hx, hk⟩
  | cons e es ih =>
    intro s x hx hk hq
    obtain ⟨x', hx', hk'⟩ := keepB_step hx hk e (hq e (by simp))
    have := ih hx' hk' (fun e' he' => hq e' (by simp [he']))
    simpa [runFrom] using this

/-! ### text -/

theorem keepT_step {s : Node} {c rid : Nat} {md : TextMode} {x : Conn} (hx : s.conns[c]? = some x) (hk : KeepT rid md x)
    (e : Event) (hq : QuietT c rid e) :
    ∃ x', (step s e).1.conns[c]? = some x' ∧ KeepT rid md x' := by
  have hlt := idx_lt hx
  obtain ⟨k1, k2, k3, k4, k5⟩ := hk
  cases e with
  | accept k => exact ⟨x, step_frame hx _ trivial, k1, k2, k3, k4, k5⟩
  | role r => exact ⟨x, step_frame hx _ trivial, k1, k2, k3, k4, k5⟩
  | unattached d => exact ⟨x, step_frame hx _ trivial, k1, k2, k3, k4, k5⟩
  | leader a => exact absurd hq id
  | linkDown d => exact ⟨x, step_frame hx (.linkDown d) hq, k1, k2, k3, k4, k5⟩
  | close d => exact ⟨x, step_frame hx (.close d) hq, k1, k2, k3, k4, k5⟩
  | closeCut d k => exact ⟨x, step_frame hx (.closeCut d k) hq, k1, k2, k3, k4, k5⟩
  | request d short q =>
    by_cases hd : d = c
    · subst hd
      rcases will_or_not q with ⟨wct, wcmd, rfl⟩ | hq
      · simp only [step, stepRequest_will, hx, List.getElem?_set_self hlt]
        refine ⟨_, rfl, ?_⟩
        unfold willConn
        simp only [k2, k4]
        exact ⟨k1, k2, k3, k4, k5⟩
      · have hb : classify s x short q = .busy := by unfold classify; simp [k2, k4]
        simp only [step, stepRequest_eq hq, hx, hb, applyConn, List.getElem?_set_self hlt]
        exact ⟨x, rfl, k1, k2, k3, k4, k5⟩
    · exact ⟨x, step_frame hx (.request d short q) hd, k1, k2, k3, k4, k5⟩
  | leaderMsg d msg early =>
    by_cases hd : d = c
    · subst hd
      obtain ⟨l, hl⟩ := Option.isSome_iff_exists.mp k3
      simp only [step, stepLeaderMsg, hx, hl, List.getElem?_set_self hlt]
      refine ⟨_, rfl, ?_⟩
      unfold relay
      simp only [k1]
      cases msg with
      | lockRes r =>
        have hne : r.rid ≠ rid := by
          rcases hq with h | h
          · exact absurd rfl h
          · exact h
        simp only [k4]
        rw [if_neg (fun h => hne h.symm)]
        exact ⟨rfl, k2, rfl, rfl, k5⟩
      | callRes rid' res ct => exact ⟨k1, k2, k3, k4, k5⟩
      | initRes rid' res it => exact ⟨k1, k2, k3, k4, k5⟩
      | other => exact ⟨k1, k2, k3, k4, k5⟩
    · exact ⟨x, step_frame hx (.leaderMsg d msg early) hd, k1, k2, k3, k4, k5⟩

theorem keepT_run {c rid : Nat} {md : TextMode} (evs : List Event) : ∀ {s : Node} {x : Conn}, s.conns[c]? = some x →
    KeepT rid md x → (∀ e ∈ evs, QuietT c rid e) → ∃ x', (runFrom s evs).conns[c]? = some x' ∧ KeepT rid md x' := by
  induction evs with
  | nil => intro s x hx hk _; exact ⟨x, hx, hk⟩
  | cons e es ih =>
    intro s x hx hk hq
    obtain ⟨x', hx', hk'⟩ := keepT_step hx hk e (hq e (by simp))
    have := ih hx' hk' (fun e' he' => hq e' (by simp [he']))
    simpa [runFrom] using this

end Slock.Trans
