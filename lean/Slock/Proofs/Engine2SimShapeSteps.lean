import Slock.Proofs.Engine2SimShape
/-! Simulation stage 2 → stage 1: `QS` through the steps that touch what it reads. -/
namespace Slock.Sim
open Slock Slock.Engine2
open Slock.Engine (has)

/-! ### `waitPrio` is kept by everything but `rePush` and the reclaim -/

theorem foldl_unref_wp (d : List Nat) (k : Key) : (d.foldl (fun k x => k.unref x) k).waitPrio = k.waitPrio := by
  induction d generalizing k with
  | nil => rfl
  | cons a as ih => simp only [List.foldl_cons]; exact (ih _).trans (unref_queues k a).2.2.2.2.1

theorem locksPush_wp (k : Key) (rid : Nat) : (k.locksPush rid).waitPrio = k.waitPrio := by
  unfold Key.locksPush
  simp only []
  split
  · rfl
  · split
    · rfl
    · rw [foldl_unref_wp]; split <;> rfl

theorem addLock_wp (k : Key) (rid : Nat) (f : Rec → Rec) : (k.addLock rid f).waitPrio = k.waitPrio := by
  unfold Key.addLock
  split
  · rfl
  · exact locksPush_wp _ rid

theorem locksSkip_wp (take : Bool) (l : List Nat) (k : Key) : (locksSkip take l k).1.waitPrio = k.waitPrio := by
  induction l generalizing k with
  | nil => rfl
  | cons x rest ih =>
    unfold locksSkip
    split
    · cases take <;> rfl
    · exact (ih _).trans (unref_queues _ x).2.2.2.2.1

theorem removeLock_wp (k : Key) (rid : Nat) : (k.removeLock rid).waitPrio = k.waitPrio := by
  unfold Key.removeLock
  simp only []
  split
  · exact locksSkip_wp true _ _
  · exact locksSkip_wp false _ _

theorem waitSkip_wp (l : List WEnt) (k : Key) : (waitSkip l k).1.waitPrio = k.waitPrio := by
  induction l generalizing k with
  | nil => rfl
  | cons e rest ih =>
    unfold waitSkip
    split
    · exact (ih _).trans (unref_queues _ e.rid).2.2.2.2.1
    · rfl

theorem addExpried_wd (w : W) (rid : Nat) : (w.addExpried rid).k.waited = w.k.waited ∧ (w.addExpried rid).k.waitPrio = w.k.waitPrio := by
  unfold W.addExpried
  simp only []
  have h1 : IK (w.schedExpried rid) ((w.schedExpried rid).when (!(w.k.getR rid).isAof && (w.k.getR rid).aofTime != 0xff &&
      decide (w.db.now - (w.k.getR rid).startT ≥ (w.k.getR rid).aofTime)) (W.pushLockAofN (w.k.getR rid).depth · rid)) :=
    IK.when _ _ _ (IK.pushLockAofN _ _ _)
  exact ⟨h1.wd, h1.wp⟩

theorem grant_wd (w : W) (rid : Nat) : (w.grant rid).k.waited = w.k.waited ∧ (w.grant rid).k.waitPrio = w.k.waitPrio := by
  rw [grant_eq]
  have sx := grantTail_sx ((w.addLock rid).modK incLocked) rid
  refine ⟨sx.waited.trans (addLock_kw w.k rid _).1, ?_⟩
  unfold grantTail grantMid
  show ((((((w.addLock rid).modK incLocked).procData .lock _ _ rid).modR rid _).addExpried rid)).k.waitPrio = _
  rw [(addExpried_wd _ rid).2]
  show (((w.addLock rid).modK incLocked).procData .lock _ _ rid).k.waitPrio = _
  rw [procData_waitPrio]
  exact addLock_wp w.k rid _

theorem updateLocked_wd (w : W) (rid : Nat) (c : Engine.Cmd) : (w.updateLocked rid c).k.waited = w.k.waited ∧ (w.updateLocked rid c).k.waitPrio = w.k.waitPrio := by
  unfold W.updateLocked
  simp only []
  show (((w.modR rid _).when _ _)).k.waited = _ ∧ (((w.modR rid _).when _ _)).k.waitPrio = _
  unfold W.when
  split
  · show ((((w.modR rid _).removeLongE rid).addExpried rid)).k.waited = _ ∧ ((((w.modR rid _).removeLongE rid).addExpried rid)).k.waitPrio = _
    obtain ⟨a, b⟩ := addExpried_wd ((w.modR rid _).removeLongE rid) rid
    exact ⟨a, b⟩
  · exact ⟨rfl, rfl⟩

/-! ### the steps -/

theorem QS.removeIfZero {w : W} (h : QS w.k) : QS w.removeIfZero.k := by
  unfold W.removeIfZero
  split
  · exact ⟨fun _ => rfl, fun _ => by simp, fun _ e he => by simp at he, fun e he => by simp at he, fun e he => by simp at he⟩
  · exact h

theorem QS.ik {w w' : W} (h : QS w.k) (d : IK w w') : QS w'.k := h.of_qr (QR.of_ik d h.emp)

/-- pops of tombstoned heads -/
theorem QR.getWaitLock (k : Key) (he : k.waited = false → k.wait = []) : QR k k.getWaitLock.1 := by
  obtain ⟨pre, hp⟩ := waitSkip_suffix k.wait k rfl
  obtain ⟨c1, c2⟩ := waitSkip_cl k.wait k
  have hsub : k.getWaitLock.1.wait.Sublist k.wait := by
    have : k.wait = pre ++ k.getWaitLock.1.wait := hp
    rw [this]; exact List.sublist_append_right _ _
  have hwd : k.getWaitLock.1.waited = k.waited := (waitSkip_live k.wait k rfl).2.2.2
  have p := PKeep.getWaitLock ins_π2 k
  refine ⟨hsub, fun h => ?_, waitSkip_wp _ _, fun e _ hh => ⟨p.sub e.rid hh, by unfold prOf; exact congrArg Engine.cmdPriority (p.val e.rid hh)⟩,
    fun y hy => Or.inl ?_⟩
  · have := he (hwd ▸ h)
    rw [this] at hsub
    exact List.eq_nil_of_sublist_nil hsub
  · have e1 : k.getWaitLock.1.current = k.current := c1
    have e2 : k.getWaitLock.1.locks = k.locks := c2
    rw [← e1, ← e2]; exact hy

theorem QS.getWaitLock {k : Key} (h : QS k) : QS k.getWaitLock.1 := h.of_qr (QR.getWaitLock k h.emp)

theorem QS.clearWaited {k : Key} (h : QS k) (hw : k.wait = []) : QS (Engine2.clearWaited k) := by
  have hw' : (Engine2.clearWaited k).wait = [] := hw
  exact ⟨fun _ => hw, fun _ => by rw [hw']; simp, fun _ e he => by rw [hw'] at he; simp at he, fun e he => by rw [hw'] at he; simp at he,
    fun e he => by rw [hw'] at he; simp at he⟩

theorem QS.settleWait {k : Key} (h : QS k) : QS k.settleWait := by
  unfold Key.settleWait
  cases hr : k.getWaitLock.2 with
  | none =>
    simp only [Option.isNone_none, if_true]
    exact h.getWaitLock.clearWaited (waitSkip_none k.wait k rfl hr)
  | some rid =>
    simp only [Option.isNone_some, Bool.false_eq_true, if_false]
    exact h.getWaitLock

/-- same queues, `waited`, mode; every record keeps its command -/
theorem QS.pk2 {k k' : Key} (h : QS k) (q : k'.queues = k.queues) (hwd : k'.waited = k.waited) (hwp : k'.waitPrio = k.waitPrio) (p : PKeep π2 k' k) : QS k' :=
  h.of_qr (QR.of_pk2 q hwd hwp h.emp p)

/-- one record `rid` changes (every other record keeps its stage-1 view); `rid` keeps its command, or is not in the wait queue -/
theorem QS.step_sx {w w' : W} (h : QS w.k) (rid : Nat) (sx : SX (· = rid) w w') (hwp : w'.k.waitPrio = w.k.waitPrio)
    (hx : rid ∈ w.k.wait.map (·.rid) → w'.k.hasRec rid → w.k.hasRec rid ∧ (w'.k.getR rid).cmd = (w.k.getR rid).cmd) : QS w'.k := by
  obtain ⟨q1, q2, q3⟩ := queues_eq sx.q
  refine h.of_qr ⟨by rw [q3]; exact List.Sublist.refl _, fun hf => by rw [q3]; exact h.emp (sx.waited ▸ hf), hwp, fun e he hh => ?_,
    fun y hy => Or.inl (by rw [← q1, ← q2]; exact hy)⟩
  by_cases hX : e.rid = rid
  · rw [hX] at hh ⊢
    obtain ⟨a, b⟩ := hx (by rw [← hX]; exact List.mem_map.mpr ⟨e, q3 ▸ he, rfl⟩) hh
    exact ⟨a, by unfold prOf; rw [b]⟩
  · have hv := sx.p.val e.rid hX hh
    exact ⟨sx.p.sub e.rid hX hh, by unfold prOf; rw [cmd_of_πA hv]⟩

theorem QS.modR1 {w : W} (h : QS w.k) (rid : Nat) (f : Rec → Rec) (hf : ∀ r, (f r).rid = r.rid) (hc : ∀ r, (f r).cmd = r.cmd) : QS (w.modR rid f).k :=
  h.pk2 rfl rfl rfl (PKeep.modRec w.k rid f hf hc)

theorem QS.newLock {w : W} (h : QS w.k) (l : Lv w zero) (c : Engine.Cmd) (d : Option Bytes) : QS (w.newLock c d).1.k := by
  have hfresh : ¬ w.k.hasRec w.db.nextRid := by
    rintro ⟨r, hr, e⟩
    have := l.side.fresh r hr
    omega
  have sx : SX (· = w.db.nextRid) w (w.newLock c d).1 := ⟨rfl, rfl, rfl, PKeepX.addRec w.k _ rfl⟩
  refine h.step_sx w.db.nextRid sx rfl ?_
  intro hm _
  exfalso
  have := qRefs_pos_of_wait_mem w.k _ hm
  exact hfresh (l.rc.dang _ (by simp only [zero]; omega))

theorem QS.grant {w : W} (h : QS w.k) (rid : Nat) (g : Grantable w.k rid) (hnt : rid ∉ w.k.wait.tail.map (·.rid)) : QS (w.grant rid).k := by
  obtain ⟨w1, _, _⟩ := grant_wait_t w rid
  obtain ⟨a, b⟩ := grant_wd w rid
  obtain ⟨_, _, _, r4, _⟩ := grant_recI w rid g.has
  have px := grant_others w rid
  refine h.of_qr ⟨by rw [w1]; exact List.Sublist.refl _, fun hf => by rw [w1]; exact h.emp (a ▸ hf), b, fun e he hh => ?_, fun y hy => ?_⟩
  · by_cases hX : e.rid = rid
    · rw [hX]
      exact ⟨g.has, by unfold prOf; rw [r4]⟩
    · have hv := px.val e.rid hX hh
      exact ⟨px.sub e.rid hX hh, by unfold prOf; rw [cmd_of_πA hv]⟩
  · rcases grant_sub w rid y hy with h1 | h1
    · exact Or.inl h1
    · right; rw [h1, w1]; exact hnt

theorem QS.updateLocked {w : W} (h : QS w.k) (rid : Nat) (c : Engine.Cmd) (hnw : rid ∉ w.k.wait.map (·.rid)) : QS (w.updateLocked rid c).k := by
  obtain ⟨_, b⟩ := updateLocked_wd w rid c
  exact h.step_sx rid ((SX.refl (X := (· = rid)) w).updateLocked rid c rfl) b (fun hm _ => absurd hm hnw)

theorem QS.removeLock {k : Key} (h : QS k) (rid : Nat) : QS (k.removeLock rid) := by
  have p := PKeep.removeLock ins_π2 (fun _ _ => rfl) k rid
  refine h.of_qr ⟨by rw [removeLock_wait]; exact List.Sublist.refl _, fun hf => by rw [removeLock_wait]; exact h.emp ((removeLock_waited k rid) ▸ hf),
    removeLock_wp k rid, fun e _ hh => ⟨p.sub e.rid hh, by unfold prOf; exact congrArg Engine.cmdPriority (p.val e.rid hh)⟩,
    fun y hy => Or.inl (removeLock_sub k rid y hy)⟩

theorem QS.rearmE {w : W} (h : QS w.k) (rid : Nat) (f : Rec → Rec) (hf : ∀ r, (f r).rid = r.rid) (hp : ∀ r, (f r).cmd = r.cmd) :
    QS ((w.modR rid f).addExpried rid).k := by
  obtain ⟨a, b⟩ := addExpried_wd (w.modR rid f) rid
  exact h.pk2 ((qk_addExpried (w.modR rid f) rid).q.trans rfl) a b
    ((pk_addExpried ins_π2 _ rid (fun _ _ => rfl)).trans (pk_modR w rid f hf hp))

theorem QS.addTimeOut {w : W} (h : QS w.k) (rid : Nat) : QS (w.addTimeOut rid).k :=
  h.pk2 rfl rfl rfl (PKeep.modRec w.k rid _ (fun _ => rfl) (fun _ => rfl))

theorem QS.dropLongE {w : W} (h : QS w.k) (rid : Nat) : QS (w.dropLongE rid).k :=
  h.pk2 (qk_dropLongE w rid).q (by unfold W.dropLongE W.when; split <;> rfl) (by unfold W.dropLongE W.when; split <;> rfl)
    (pk_dropLongE ins_π2 w rid (fun _ _ => rfl))

theorem QS.freeCheck {w : W} (h : QS w.k) (rid : Nat) : QS (w.freeCheck rid).k := by
  unfold W.freeCheck
  exact (QS.ik (w := w) h (IK.free w rid)).removeIfZero

theorem QS.unrefCheck {w : W} (h : QS w.k) (rid : Nat) : QS (w.unrefCheck rid).k := by
  unfold W.unrefCheck
  simp only []
  unfold W.when
  split
  · exact (QS.ik (w := w) h (IK.unrefOnly w rid)).freeCheck rid
  · exact QS.ik (w := w) h (IK.unrefOnly w rid)

theorem QS.dropT {w : W} (h : QS w.k) (rid : Nat) : QS (w.dropT rid).k := by
  unfold W.dropT
  exact (QS.ik (w := w) h (IK.modR w rid (fun r => { r with tSched := none }) (fun _ => rfl) (fun _ => rfl))).unrefCheck rid

theorem QS.dropE {w : W} (h : QS w.k) (rid : Nat) : QS (w.dropE rid).k := by
  unfold W.dropE
  exact (h.modR1 rid (fun r => { r with eSched := none }) (fun _ => rfl) (fun _ => rfl)).unrefCheck rid

end Slock.Sim
