import Slock.Model.MsWheel
import Slock.Gen.Kernels
/-! G3 tie of M-MSWHEEL's re-term decision: the "same terms" shortcut and the deadline written by `UpdateLockedLock` are the kernels
REGENERATED from `LockManager.CheckLockedEqual` / `LockManager.UpdateLockedLock` on every run, for the flag words the harness sends
(seconds: 0, milliseconds: 0x0400). An edit of `CheckLockedEqual` in /repo regenerates a different `K.checkLockedEqual` and these
proofs stop checking. -/
namespace Slock.Ms
open Slock.Gen

/-- the shortcut of the update branch is `CheckLockedEqual`, whatever the clock, the hold's deadline, the unit and the value -/
theorem sameTerms_generated (now expT : Nat) (ms : Bool) (val : Nat) (countsEq : Bool) :
    sameTerms now expT ms val countsEq = K.checkLockedEqual (now : Int) (expT : Int) (eflagOf ms) val countsEq := by
  unfold sameTerms K.checkLockedEqual eflagOf
  cases ms
  · simp only [Bool.false_eq_true, if_false]
    have h1 : ((0 : Nat) &&& 16384 != 0) = false := by decide
    have h2 : ((0 : Nat) &&& 1024 == 0) = true := by decide
    have h3 : ((0 : Nat) &&& 64 != 0) = false := by decide
    simp only [h1, h2, h3, Bool.false_eq_true, if_false, if_true]
    by_cases hg : now + val + 1 > expT
    · have hg' : ((now : Int) + (val : Int) + 1 > (expT : Int)) := by omega
      simp only [hg, hg', if_true, decide_true]
      congr 1
      by_cases hd : now + val + 1 - expT ≤ 1
      · have : ((now : Int) + val + 1 - expT ≤ 1) := by omega
        simp [hd, this]
      · have : ¬ ((now : Int) + val + 1 - expT ≤ 1) := by omega
        simp [hd, this]
    · have hg' : ¬ ((now : Int) + (val : Int) + 1 > (expT : Int)) := by omega
      simp only [hg, hg', if_false, decide_false]
      congr 1
      by_cases hd : expT - (now + val + 1) ≤ 1
      · have : ((expT : Int) - (now + val + 1) ≤ 1) := by omega
        simp [hd, this]
      · have : ¬ ((expT : Int) - (now + val + 1) ≤ 1) := by omega
        simp [hd, this]
  · simp

/-- the deadline the record carries afterwards is the one `UpdateLockedLock` writes -/
theorem newDeadline_generated (now : Nat) (ms : Bool) (val : Nat) :
    K.expUpdate (now : Int) (eflagOf ms) val = (newDeadline now ms val : Int) := by
  unfold K.expUpdate newDeadline eflagOf
  cases ms
  · have h1 : ((0 : Nat) &&& 16384 != 0) = false := by decide
    have h2 : ((0 : Nat) &&& 1024 == 0) = true := by decide
    have h3 : ((0 : Nat) &&& 64 != 0) = false := by decide
    simp only [h1, h2, h3, Bool.false_eq_true, if_false, if_true]
    omega
  · have h1 : ((1024 : Nat) &&& 16384 != 0) = false := by decide
    have h2 : ((1024 : Nat) &&& 1024 == 0) = false := by decide
    simp only [h1, h2, Bool.false_eq_true, if_false, if_true]
    have : Int.tdiv (val : Int) 1000 = ((val / 1000 : Nat) : Int) := by
      rw [Int.tdiv_eq_ediv_of_nonneg (by omega)]; rfl
    rw [this]; omega

/-- the update / re-lock is answered without any change exactly when it is an update and the REGENERATED `CheckLockedEqual` says "same terms" -/
theorem reterm_ignored_iff_generated (place : Place) (isUpdate countsEq : Bool) (now expT : Nat) (ms : Bool) (val : Nat) :
    reterm place isUpdate countsEq now expT ms val = .ignored ↔
      (isUpdate = true ∧ K.checkLockedEqual (now : Int) (expT : Int) (eflagOf ms) val countsEq = true) := by
  rw [← sameTerms_generated]
  unfold reterm
  by_cases h : (isUpdate && sameTerms now expT ms val countsEq) = true
  · simp only [h, if_true, true_iff]
    simpa using h
  · simp only [h]
    have h' : ¬ (isUpdate = true ∧ sameTerms now expT ms val countsEq = true) := by simpa using h
    constructor
    · intro hc; cases place <;> simp at hc <;> (try split at hc) <;> (try split at hc) <;> simp at hc
    · intro hc; exact absurd hc h'

/-- what the park goroutine does with a stale entry is `afterPark` (tied by `afterPark_generated`) on the NEW value -/
theorem staleAfterPark_generated (now val : Nat) :
    staleAfterPark now val = (if K.msToSecondWheelExpried val then .second (K.msSecondDeadlineExpried now val).toNat else .fire) := by
  unfold staleAfterPark afterPark K.msToSecondWheelExpried K.msSecondDeadlineExpried QLEN
  by_cases hT : val ≥ 3000 <;> simp [hT] <;> omega

end Slock.Ms
