import Slock.Proofs.Engine
/-! DB-level invariant and its preservation by every sequential operation of M-ENGINE. -/
namespace Slock.Engine

def DBInv (db : DB) : Prop := ∀ k ∈ db.keys, KeyInv k

theorem DBInv.init (n : Nat) : DBInv (DB.init n) := by intro k hk; simp [DB.init] at hk

theorem getKey_inv {db : DB} (h : DBInv db) (n : Nat) : KeyInv (db.getKey n) := by
  unfold DB.getKey
  cases hf : db.keys.find? (·.key == n) with
  | none => exact KeyInv.empty n
  | some k => exact h k (List.mem_of_find?_eq_some hf)

theorem setKey_inv {db : DB} (h : DBInv db) {k : Key} (hk : KeyInv k) : DBInv (db.setKey k) := by
  unfold DB.setKey
  intro x hx
  simp only [] at hx
  split at hx
  · exact h x (List.mem_filter.mp hx).1
  · rcases List.mem_append.mp hx with h1 | h1
    · exact h x (List.mem_filter.mp h1).1
    · simp at h1; rw [h1]; exact hk

/-- changing anything but `keys` keeps the invariant -/
theorem DBInv.of_keys_eq {db db' : DB} (h : DBInv db) (e : db'.keys = db.keys) : DBInv db' := by
  intro k hk; rw [e] at hk; exact h k hk

theorem grantHold_db_keys (db : DB) (k : Key) (c : Cmd) : (grantHold db k c).1.keys = db.keys := by
  unfold grantHold; rfl

theorem updateHold_db_keys (db : DB) (h : Hold) (c : Cmd) : (updateHold db h c).1.keys = db.keys := by
  unfold updateHold
  split
  · rfl
  · simp only []
    split
    · split <;> rfl
    · rfl

theorem wakeIter_keys {db : DB} {k : Key} {db' : DB} {k' : Key} {r : Reply}
    (h : wakeIter db k = some (db', k', r)) : db'.keys = db.keys := by
  unfold wakeIter at h
  cases hw : k.waiters with
  | nil => simp [hw] at h
  | cons w rest =>
    simp only [hw] at h
    by_cases hd : doLock k w.cmd = true
    · simp only [hd, Bool.not_true, Bool.false_eq_true, if_false] at h
      by_cases he : w.cmd.expried > 0
      · simp only [he, if_true] at h
        injection h with h; injection h with h1 h2
        rw [← h1]; exact grantHold_db_keys _ _ _
      · simp only [he, if_false] at h
        injection h with h; injection h with h1 h2
        rw [← h1]
    · simp [hd] at h

theorem wakePass_keys (fuel : Nat) (db : DB) (k : Key) (out : List Reply) :
    (wakePass fuel db k out).1.keys = db.keys := by
  induction fuel generalizing db k out with
  | zero => unfold wakePass; split <;> rfl
  | succ n ih =>
    unfold wakePass
    split
    · rfl
    · cases hw : wakeIter db k with
      | none => simp only []; split <;> rfl
      | some t =>
        obtain ⟨db', k', r⟩ := t
        simp only []
        rw [ih db' k' _, wakeIter_keys hw]

theorem wake_keys (db : DB) (k : Key) (out : List Reply) : (wake db k out).1.keys = db.keys :=
  wakePass_keys _ db k out

/-- a wake pass from a state with the invariant, stored back, keeps the invariant -/
theorem wake_setKey_inv {db0 db : DB} {k : Key} (out : List Reply) (h0 : DBInv db0) (e : db.keys = db0.keys) (hk : KeyInv k) :
    DBInv ((wake db k out).1.setKey (wake db k out).2.1) :=
  setKey_inv (h0.of_keys_eq (by rw [wake_keys, e])) (wake_inv db k out hk)

/-! ### classification soundness -/

def LockBranch.holdOf : LockBranch → Option Hold
  | .show h | .updateEqual h | .update h | .relockNoHold h | .relock h | .relockRefused h => some h
  | _ => none

theorem ite_none_eq_some {α} {b : Bool} {x : Option α} {a : α} (h : (if b = true then x else none) = some a) : x = some a := by
  cases b <;> simp at h ⊢; exact h

theorem classifyLock_mem (db : DB) (c : Cmd) (h : Hold) (hb : (classifyLock db c).holdOf = some h) :
    h ∈ (db.getKey c.key).holders := by
  unfold classifyLock at hb
  simp only [] at hb
  repeat' split at hb
  all_goals (try (simp [LockBranch.holdOf] at hb))
  all_goals (first
    | (subst hb; apply head?_mem; assumption)
    | (subst hb; apply head?_mem; apply ite_none_eq_some; assumption)
    | (subst hb; apply findHolder_mem; assumption)
    | skip)

def UnlockBranch.holdOf : UnlockBranch → Option Hold
  | .dec h _ | .release h _ => some h
  | _ => none

theorem classifyUnlock_mem (db : DB) (c : Cmd) (h : Hold) (hb : (classifyUnlock db c).holdOf = some h) :
    h ∈ (db.getKey c.key).holders := by
  unfold classifyUnlock at hb
  simp only [] at hb
  repeat' split at hb
  all_goals (try (simp [UnlockBranch.holdOf] at hb))
  all_goals (first
    | (subst hb; apply findHolder_mem; assumption)
    | (subst hb; apply head?_mem; assumption)
    | skip)

theorem classifyUnlock_dec (db : DB) (c c' : Cmd) (h : Hold) (hb : classifyUnlock db c = .dec h c') : 1 < h.depth := by
  unfold classifyUnlock at hb
  simp only [] at hb
  repeat' split at hb
  all_goals (try (simp at hb))
  all_goals (first
    | (obtain ⟨h1, _⟩ := hb; subst h1; simp_all; done)
    | skip)

theorem classifyLock_grant_doLock (db : DB) (c : Cmd) (hb : classifyLock db c = .grant) :
    doLock (db.getKey c.key) c = true := by
  unfold classifyLock at hb
  simp only [] at hb
  repeat' split at hb
  all_goals (try (simp at hb))
  all_goals (simp_all)

/-! ### operations -/

theorem opLock_inv (db : DB) (c : Cmd) (h : DBInv db) : DBInv (opLock db c).1 := by
  unfold opLock
  have hk := getKey_inv h c.key
  cases hb : classifyLock db c with
  | p0a | p0b | stateError | unlockedWaitRefused | timeout => exact h
  | «show» cur | updateEqual h' | relockNoHold h' | relockRefused h' => exact h
  | update h' =>
    have hm := classifyLock_mem db c h' (by rw [hb]; rfl)
    simp only [applyLock]
    exact wake_setKey_inv _ h (updateHold_db_keys _ _ _) (replace_inv hk hm (updateHold_depth _ _ _))
  | relock h' =>
    have hm := classifyLock_mem db c h' (by rw [hb]; rfl)
    simp only [applyLock]
    exact wake_setKey_inv _ h (by simp [updateHold_db_keys]) (relock_inv hk hm (by rw [updateHold_depth]))
  | grant =>
    simp only [applyLock]
    have hg := grantHold_inv db (db.getKey c.key) c hk
    split
    · exact wake_setKey_inv _ h (grantHold_db_keys _ _ _) hg
    · exact setKey_inv (h.of_keys_eq (grantHold_db_keys db (db.getKey c.key) c)) hg
  | grantNoHold =>
    simp only [applyLock]
    split
    · exact wake_setKey_inv _ h rfl hk
    · exact setKey_inv (h.of_keys_eq rfl) hk
  | queue =>
    simp only [applyLock]
    exact setKey_inv (h.of_keys_eq rfl) (waiters_inv hk _ _)

theorem opUnlock_inv (db : DB) (c : Cmd) (h : DBInv db) : DBInv (opUnlock db c).1 := by
  unfold opUnlock
  have hk := getKey_inv h c.key
  cases hb : classifyUnlock db c with
  | stateError | notLocked | unown | cancelNone => exact h.of_keys_eq rfl
  | cancel w =>
    simp only [applyUnlock]
    exact wake_setKey_inv _ h rfl (waiters_inv hk _ _)
  | dec h' c' =>
    have hm := classifyUnlock_mem db c h' (by rw [hb]; rfl)
    have hd := classifyUnlock_dec db c c' h' hb
    simp only [applyUnlock]
    exact wake_setKey_inv _ h rfl (dec_inv hk hm hd)
  | release h' c' =>
    have hm := classifyUnlock_mem db c h' (by rw [hb]; rfl)
    simp only [applyUnlock]
    exact wake_setKey_inv _ h rfl (release_inv hk hm)

theorem fireTimeout_inv (db : DB) (key : Nat) (w : Waiter) (h : DBInv db) : DBInv (fireTimeout db key w).1 := by
  unfold fireTimeout
  exact wake_setKey_inv _ h rfl (waiters_inv (getKey_inv h _) _ _)

theorem fireExpire_inv (db : DB) (key : Nat) (hd : Hold) (hm : hd ∈ (db.getKey key).holders) (h : DBInv db) :
    DBInv (fireExpire db key hd).1 := by
  unfold fireExpire
  exact wake_setKey_inv _ h rfl (release_inv (getKey_inv h _) hm)

theorem replaceHolder_not_mem {hs : List Hold} {h h' : Hold} (hn : h ∉ hs) : replaceHolder hs h h' = hs := by
  induction hs with
  | nil => rfl
  | cons x rest ih =>
    unfold replaceHolder
    have hx : x ≠ h := by intro e; apply hn; simp [e]
    simp only [hx, if_false]
    rw [ih (by intro hm; apply hn; exact List.mem_cons_of_mem _ hm)]

theorem updateHoldIn_inv (db : DB) (hd hd' : Hold) (e : hd'.depth = hd.depth) (h : DBInv db) :
    DBInv (updateHoldIn db hd hd') := by
  unfold updateHoldIn
  apply setKey_inv h
  have hk := getKey_inv h hd.cmd.key
  by_cases hm : hd ∈ (db.getKey hd.cmd.key).holders
  · exact replace_inv hk hm e
  · rw [replaceHolder_not_mem hm]; exact ⟨hk.sum, hk.pos⟩

theorem updateWaiter_inv (db : DB) (w w' : Waiter) (h : DBInv db) : DBInv (updateWaiter db w w') := by
  unfold updateWaiter
  exact setKey_inv h (waiters_inv (getKey_inv h _) _ _)

theorem rearmWaiter_inv (db : DB) (w : Waiter) (h : DBInv db) : DBInv (rearmWaiter db w) := by
  unfold rearmWaiter; exact updateWaiter_inv _ _ _ (h.of_keys_eq rfl)

theorem rearmHold_inv (db : DB) (hd : Hold) (h : DBInv db) : DBInv (rearmHold db hd) := by
  unfold rearmHold; exact updateHoldIn_inv _ _ _ rfl (h.of_keys_eq rfl)

theorem foldl_inv {α β} (f : DB × β → α → DB × β) (hf : ∀ acc a, DBInv acc.1 → DBInv (f acc a).1)
    (l : List α) (acc : DB × β) (h : DBInv acc.1) : DBInv (l.foldl f acc).1 := by
  induction l generalizing acc with
  | nil => exact h
  | cons a as ih => simp only [List.foldl_cons]; exact ih _ (hf acc a h)

theorem timeoutStep_inv (acc : DB × List Waiter) (w : Waiter) (h : DBInv acc.1) : DBInv (timeoutStep acc w).1 := by
  unfold timeoutStep; split
  · exact rearmWaiter_inv _ _ h
  · exact h

theorem expireStep_inv (acc : DB × List Hold) (hd : Hold) (h : DBInv acc.1) : DBInv (expireStep acc hd).1 := by
  unfold expireStep; split
  · exact rearmHold_inv _ _ h
  · exact h

theorem fireTimeoutStep_inv (acc : DB × List Reply) (w : Waiter) (h : DBInv acc.1) : DBInv (fireTimeoutStep acc w).1 := by
  unfold fireTimeoutStep; split
  · exact fireTimeout_inv _ _ _ h
  · exact h

theorem fireExpireStep_inv (acc : DB × List Reply) (hd : Hold) (h : DBInv acc.1) : DBInv (fireExpireStep acc hd).1 := by
  unfold fireExpireStep
  split
  · rename_i h' hf; exact fireExpire_inv _ _ _ (List.mem_of_find?_eq_some hf) h
  · exact h

theorem sweepTimeout_inv (db : DB) (c : Nat) (h : DBInv db) : DBInv (sweepTimeout db c).1 := by
  unfold sweepTimeout timeoutPass1
  exact foldl_inv _ fireTimeoutStep_inv _ _ (foldl_inv _ timeoutStep_inv _ _ h)

theorem sweepExpire_inv (db : DB) (c : Nat) (h : DBInv db) : DBInv (sweepExpire db c).1 := by
  unfold sweepExpire expirePass1
  exact foldl_inv _ fireExpireStep_inv _ _ (foldl_inv _ expireStep_inv _ _ h)

theorem opTick_inv (db : DB) (h : DBInv db) : DBInv (opTick db).1 := by
  unfold opTick
  simp only []
  apply sweepExpire_inv
  apply DBInv.of_keys_eq (db := (sweepTimeout { db with now := db.now + 1, tCheck := db.now + 1 + 1 } (db.now + 1)).1) _ rfl
  exact sweepTimeout_inv _ _ (h.of_keys_eq rfl)

end Slock.Engine
