import Slock.Model.Repl
/-!
Invariants of the replication buffer queue model (C09): list lemmas, `LiveOk`, preservation by every operation.
Core Lean only.
-/
namespace Slock.Repl

/-- what a record is, as far as the queue is concerned -/
def content (it : Item) : Nat × Nat × Nat := (it.id, it.ord, it.dlen)

/-- the linked items are exactly the records `hist[k], hist[k+1], …, hist[last]`, in order, with `seq` = position -/
def LiveOk : Nat → List Item → List (Nat × Nat × Nat) → Prop
  | k, [], hist => k = hist.length
  | k, it :: l, hist => it.seq = k ∧ hist[k]? = some (content it) ∧ LiveOk (k + 1) l hist

theorem LiveOk.len {k l hist} (h : LiveOk k l hist) : k + l.length = hist.length := by
  induction l generalizing k with
  | nil => simpa [LiveOk] using h
  | cons it l ih =>
    obtain ⟨_, _, h3⟩ := h
    have := ih h3
    simp only [List.length_cons]; omega

theorem LiveOk.mem {k l hist it} (h : LiveOk k l hist) (hm : it ∈ l) :
    k ≤ it.seq ∧ it.seq < hist.length ∧ hist[it.seq]? = some (content it) := by
  induction l generalizing k with
  | nil => cases hm
  | cons a l ih =>
    obtain ⟨h1, h2, h3⟩ := h
    have hl := LiveOk.len h3
    rcases List.mem_cons.mp hm with rfl | hm
    · refine ⟨by omega, by omega, ?_⟩; rw [h1]; exact h2
    · obtain ⟨a1, a2, a3⟩ := ih h3 hm
      exact ⟨by omega, a2, a3⟩

theorem LiveOk.append {k l hist} (new : Item) (h : LiveOk k l hist) (hs : new.seq = hist.length) :
    LiveOk k (l ++ [new]) (hist ++ [content new]) := by
  induction l generalizing k with
  | nil =>
    simp only [LiveOk] at h
    subst h
    simp [LiveOk, hs]
  | cons a l ih =>
    obtain ⟨h1, h2, h3⟩ := h
    have hl := LiveOk.len h3
    refine ⟨h1, ?_, ih h3⟩
    rw [List.getElem?_append_left (by omega)]; exact h2

theorem LiveOk.suffix {k pre l hist} (h : LiveOk k (pre ++ l) hist) : LiveOk (k + pre.length) l hist := by
  induction pre generalizing k with
  | nil => simpa using h
  | cons a pre ih =>
    obtain ⟨_, _, h3⟩ := h
    have := ih h3
    simp only [List.length_cons]
    rw [show k + (pre.length + 1) = k + 1 + pre.length by omega]; exact this

theorem LiveOk.split {k pre it post hist} (h : LiveOk k (pre ++ it :: post) hist) :
    it.seq = k + pre.length ∧ hist[it.seq]? = some (content it) ∧ LiveOk (it.seq + 1) post hist := by
  have := LiveOk.suffix h
  obtain ⟨h1, h2, h3⟩ := this
  refine ⟨h1, ?_, ?_⟩
  · rw [h1]; exact h2
  · rw [h1]; exact h3

theorem LiveOk.head_seq {k it l hist} (h : LiveOk k (it :: l) hist) : it.seq = k := h.1

theorem LiveOk.map {k l hist} (f : Item → Item) (hf : ∀ it, (f it).seq = it.seq ∧ content (f it) = content it)
    (h : LiveOk k l hist) : LiveOk k (l.map f) hist := by
  induction l generalizing k with
  | nil => simpa [LiveOk] using h
  | cons a l ih =>
    obtain ⟨h1, h2, h3⟩ := h
    exact ⟨by rw [(hf a).1]; exact h1, by rw [(hf a).2]; exact h2, ih h3⟩

/-- two linked items with the same seq are the same item -/
theorem LiveOk.seq_inj {k l hist a b} (h : LiveOk k l hist) (ha : a ∈ l) (hb : b ∈ l) (hs : a.seq = b.seq) : a = b := by
  induction l generalizing k with
  | nil => cases ha
  | cons x l ih =>
    obtain ⟨h1, _, h3⟩ := h
    rcases List.mem_cons.mp ha with ha' | ha' <;> rcases List.mem_cons.mp hb with hb' | hb'
    · rw [ha', hb']
    · have := (LiveOk.mem h3 hb').1; rw [ha'] at hs; omega
    · have := (LiveOk.mem h3 ha').1; rw [hb'] at hs; omega
    · exact ih h3 ha' hb'

/-! ### `after`, `bumpFrom`, `bumpOne` -/

theorem after_some {l : List Item} {sid it nxt} (h : after l sid = some (it, nxt)) :
    ∃ pre, l = pre ++ it :: nxt ∧ it.sid = sid := by
  induction l with
  | nil => simp [after] at h
  | cons a l ih =>
    unfold after at h
    by_cases ha : a.sid = sid
    · simp only [ha, if_true, Option.some.injEq, Prod.mk.injEq] at h
      obtain ⟨rfl, rfl⟩ := h
      exact ⟨[], rfl, ha⟩
    · simp only [ha, if_false] at h
      obtain ⟨pre, rfl, hs⟩ := ih h
      exact ⟨a :: pre, rfl, hs⟩

theorem after_none {l : List Item} {sid} (h : after l sid = none) : ∀ it ∈ l, it.sid ≠ sid := by
  induction l with
  | nil => intro it hm; cases hm
  | cons a l ih =>
    unfold after at h
    by_cases ha : a.sid = sid
    · simp [ha] at h
    · simp only [ha, if_false] at h
      intro it hm
      rcases List.mem_cons.mp hm with rfl | hm
      · exact ha
      · exact ih h it hm

theorem after_isSome_of_mem {l : List Item} {sid} (h : ∃ it ∈ l, it.sid = sid) : (after l sid).isSome := by
  cases hh : after l sid with
  | some _ => rfl
  | none => obtain ⟨it, hm, hs⟩ := h; exact absurd hs (after_none hh it hm)

/-- `bumpFrom` / `bumpOne` change no item's sid, seq, content-relevant fields other than through `f`; the result is a
pointwise image of the list -/
def Pointwise (R : Item → Item → Prop) : List Item → List Item → Prop
  | [], [] => True
  | a :: l, b :: m => R a b ∧ Pointwise R l m
  | _, _ => False

theorem Pointwise.refl {R : Item → Item → Prop} (hR : ∀ a, R a a) : ∀ l, Pointwise R l l
  | [] => trivial
  | a :: l => ⟨hR a, Pointwise.refl hR l⟩

theorem Pointwise.map {R : Item → Item → Prop} (f : Item → Item) (hR : ∀ a, R a (f a)) : ∀ l, Pointwise R l (l.map f)
  | [] => trivial
  | a :: l => ⟨hR a, Pointwise.map f hR l⟩

theorem bumpFrom_pointwise {R : Item → Item → Prop} (f : Item → Item) (hr : ∀ a, R a a) (hf : ∀ a, R a (f a))
    {l : List Item} {sid l'} (h : bumpFrom f l sid = some l') : Pointwise R l l' := by
  induction l generalizing l' with
  | nil => simp [bumpFrom] at h
  | cons a l ih =>
    unfold bumpFrom at h
    by_cases ha : a.sid = sid
    · simp only [ha, if_true, Option.some.injEq] at h
      subst h
      exact Pointwise.map f hf (a :: l)
    · simp only [ha, if_false] at h
      cases hb : bumpFrom f l sid with
      | none => simp [hb] at h
      | some m =>
        simp only [hb, Option.map_some, Option.some.injEq] at h
        subst h
        exact ⟨hr a, ih hb⟩

theorem bumpOne_pointwise {R : Item → Item → Prop} (f : Item → Item) (hr : ∀ a, R a a) (hf : ∀ a, R a (f a))
    {l : List Item} {sid l'} (h : bumpOne f l sid = some l') : Pointwise R l l' := by
  induction l generalizing l' with
  | nil => simp [bumpOne] at h
  | cons a l ih =>
    unfold bumpOne at h
    by_cases ha : a.sid = sid
    · simp only [ha, if_true, Option.some.injEq] at h
      subst h
      exact ⟨hf a, Pointwise.refl hr l⟩
    · simp only [ha, if_false] at h
      cases hb : bumpOne f l sid with
      | none => simp [hb] at h
      | some m =>
        simp only [hb, Option.map_some, Option.some.injEq] at h
        subst h
        exact ⟨hr a, ih hb⟩

theorem bumpFrom_none {f : Item → Item} {l : List Item} {sid} (h : ∀ it ∈ l, it.sid ≠ sid) : bumpFrom f l sid = none := by
  induction l with
  | nil => rfl
  | cons a l ih =>
    unfold bumpFrom
    have ha : a.sid ≠ sid := h a (List.mem_cons_self ..)
    simp only [ha, if_false]
    rw [ih (fun it hm => h it (List.mem_cons_of_mem _ hm))]; rfl

theorem Pointwise.length {R : Item → Item → Prop} : ∀ {l m}, Pointwise R l m → l.length = m.length
  | [], [], _ => rfl
  | _ :: l, _ :: m, h => by simp [Pointwise.length h.2]
  | [], _ :: _, h => h.elim
  | _ :: _, [], h => h.elim

theorem Pointwise.mem_right {R : Item → Item → Prop} : ∀ {l m}, Pointwise R l m → ∀ b ∈ m, ∃ a ∈ l, R a b
  | [], [], _, b, hb => by cases hb
  | a :: l, c :: m, h, b, hb => by
    rcases List.mem_cons.mp hb with rfl | hb
    · exact ⟨a, List.mem_cons_self .., h.1⟩
    · obtain ⟨x, hx, hr⟩ := Pointwise.mem_right h.2 b hb
      exact ⟨x, List.mem_cons_of_mem _ hx, hr⟩
  | [], _ :: _, h, _, _ => h.elim
  | _ :: _, [], h, _, _ => h.elim

theorem Pointwise.mem_left {R : Item → Item → Prop} : ∀ {l m}, Pointwise R l m → ∀ a ∈ l, ∃ b ∈ m, R a b
  | [], [], _, b, hb => by cases hb
  | a :: l, c :: m, h, b, hb => by
    rcases List.mem_cons.mp hb with rfl | hb
    · exact ⟨c, List.mem_cons_self .., h.1⟩
    · obtain ⟨x, hx, hr⟩ := Pointwise.mem_left h.2 b hb
      exact ⟨x, List.mem_cons_of_mem _ hx, hr⟩
  | [], _ :: _, h, _, _ => h.elim
  | _ :: _, [], h, _, _ => h.elim

/-- the relation "same identity, seq and record" -/
def Same (a b : Item) : Prop := b.sid = a.sid ∧ b.seq = a.seq ∧ content b = content a

theorem LiveOk.pointwise {k l m hist} (hp : Pointwise Same l m) (h : LiveOk k l hist) : LiveOk k m hist := by
  induction l generalizing k m with
  | nil => cases m with
    | nil => exact h
    | cons _ _ => exact hp.elim
  | cons a l ih => cases m with
    | nil => exact hp.elim
    | cons b m =>
      obtain ⟨h1, h2, h3⟩ := h
      obtain ⟨⟨_, s2, s3⟩, hp2⟩ := hp
      exact ⟨by rw [s2]; exact h1, by rw [s3]; exact h2, ih hp2 h3⟩

end Slock.Repl
