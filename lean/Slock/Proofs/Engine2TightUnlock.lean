import Slock.Proofs.Engine2TightOps
import Slock.Proofs.Engine2PK
/-! Stage-2 engine: every UNLOCK branch keeps "nothing leaks". -/
namespace Slock.Engine2
open Slock.Engine (has)

theorem getR_of_not_hasRec (k : Key) (x : Nat) (h : ¬ k.hasRec x) : k.getR x = deadRec x := by
  unfold Key.getR
  cases hf : k.recs.find? (·.rid == x) with
  | none => rfl
  | some r =>
    exfalso; apply h
    exact ⟨r, List.mem_of_find?_eq_some hf, by have := List.find?_some hf; simpa using this⟩

theorem hasRec_of_refCount (k : Key) (x : Nat) (h : (k.getR x).refCount ≠ 0) : k.hasRec x := by
  apply Classical.byContradiction
  intro hn
  rw [getR_of_not_hasRec k x hn] at h
  exact h rfl

/-- the hold a release ends is a hold -/
theorem classifyUnlock_release_depth (db : DB) (c c' : Cmd) (h : Nat) (hb : classifyUnlock db c = .release h c')
    (hc : CurLive (db.getKey c.key)) : 0 < ((db.getKey c.key).getR h).depth := by
  have key : ∀ y, findHolder (db.getKey c.key) c.lockId = some y → 0 < ((db.getKey c.key).getR y).depth := by
    intro y hy
    have := findHolder_live _ _ _ hy
    simpa [Key.liveHolder] using this
  unfold classifyUnlock at hb
  simp only [] at hb
  repeat' split at hb
  all_goals (try (simp at hb))
  all_goals (first
    | (obtain ⟨h1, _⟩ := hb; subst h1; apply key; assumption)
    | (obtain ⟨h1, _⟩ := hb; subst h1; apply hc; assumption)
    | skip)

/-- `RemoveLock(rid)` leaves `rid`'s record (if it is still there) at depth 0 -/
theorem removeLock_depth (k : Key) (rid : Nat) (hh : (k.removeLock rid).hasRec rid) : ((k.removeLock rid).getR rid).depth = 0 := by
  have base : ∀ k1 : Key, k1.hasRec rid → k1.recs = (k.modRec rid (fun r => { r with depth := 0 })).recs → (k1.getR rid).depth = 0 := by
    intro k1 h1 e
    have hg : k1.getR rid = (k.modRec rid (fun r => { r with depth := 0 })).getR rid := by unfold Key.getR; rw [e]
    have hk : k.hasRec rid := by
      have : (k.modRec rid (fun r => { r with depth := 0 })).hasRec rid := by
        obtain ⟨r, hr, er⟩ := h1; exact ⟨r, by rw [← e]; exact hr, er⟩
      exact (hasRec_modRec _ _ _ _ (by intro _; rfl)).mp this
    rw [hg, getR_modRec_same _ _ _ (by intro _; rfl) hk]
  unfold Key.removeLock at hh ⊢
  simp only [] at hh ⊢
  split
  · rename_i hcur
    simp only [hcur, if_true] at hh
    have dk := DepthKeep.locksSkip true ({ (k.modRec rid fun r => { r with depth := 0 }).unrefOnly rid with current := none } : Key).locks
      { (k.modRec rid fun r => { r with depth := 0 }).unrefOnly rid with current := none }
    have h1 : (locksSkip true ({ (k.modRec rid fun r => { r with depth := 0 }).unrefOnly rid with current := none } : Key).locks
      { (k.modRec rid fun r => { r with depth := 0 }).unrefOnly rid with current := none }).1.hasRec rid := hh
    show ((locksSkip true ({ (k.modRec rid fun r => { r with depth := 0 }).unrefOnly rid with current := none } : Key).locks
      { (k.modRec rid fun r => { r with depth := 0 }).unrefOnly rid with current := none }).1.getR rid).depth = 0
    rw [dk.depth rid h1]
    have h2 := dk.sub rid h1
    have h3 : ((k.modRec rid fun r => { r with depth := 0 }).unrefOnly rid).hasRec rid := h2
    show (((k.modRec rid fun r => { r with depth := 0 }).unrefOnly rid).getR rid).depth = 0
    unfold Key.unrefOnly at h3 ⊢
    rw [getR_modRec_depth _ _ _ _ (by intro _; rfl) (by intro _; rfl)]
    exact base _ ((hasRec_modRec _ _ _ _ (by intro _; rfl)).mp h3) rfl
  · rename_i hcur
    simp only [hcur, Bool.false_eq_true, if_false] at hh
    have dk := DepthKeep.locksSkip false (k.modRec rid fun r => { r with depth := 0 }).locks (k.modRec rid fun r => { r with depth := 0 })
    rw [dk.depth rid hh]
    exact base _ (dk.sub rid hh) rfl


theorem journalUnlock_eSched (w : W) (rid : Nat) (fa ia : Bool) (flag : Nat) (y : Nat) :
    ((w.journalUnlock rid fa ia flag).k.getR y).eSched = (w.k.getR y).eSched := by
  unfold W.journalUnlock W.when
  split
  · exact pushUnLockAof_eSched _ _ _ _ _ _ _
  · rfl

theorem dropLongE_of_not_long (w : W) (rid : Nat) (h : (w.k.getR rid).eLong = false) : w.dropLongE rid = w := by
  unfold W.dropLongE W.when; simp [h]

/-- the release of a hold: `expried := true`, value operation, long-table removal, journal, `RemoveLock`, and the free of a record
nothing references any more -/
theorem release_tight {w : W} (g : Good w) (cl : CurLive w.k) (h : Nat) (hh : w.k.hasRec h) (hd : 0 < (w.k.getR h).depth)
    (c' : Cmd) (fr : Option Bytes) (n : Nat) (fa : Bool)
    (w2 : W) (e2 : w2 = ((w.modR h (fun r => { r with expried := true })).modK (fun k => { k with locked := k.locked - n })).procData .unlock c' fr h)
    (w5 : W) (e5 : w5 = ((w2.dropLongE h).journalUnlock h fa false 0).modK (·.removeLock h)) :
    Tight (w5.when ((w2.k.getR h).eLong && (w5.k.getR h).refCount == 0) (·.freeCheck h)) := by
  have le := g.lv
  have hfine : RecFine (w.k.getR h) := g.nz.nz _ (getR_mem hh) (by simp)
  have he0 : (w.k.getR h).eSched.isSome = true := hfine.hold hd
  have l1 : Lv (w.modR h (fun r => { r with expried := true })) zero :=
    le.modR_plain h _ (fun _ => rfl) (fun _ => rfl) (fun _ => rfl) (fun _ => rfl) (fun _ => rfl)
  have n1 : Nz (w.modR h (fun r => { r with expried := true })) (some h) := (g.nz.weaken (some h)).modR_ex h _ (by intro _; rfl)
  have hh1 : (w.modR h (fun r => { r with expried := true })).k.hasRec h := (hasRec_modR _ h h _ (by intro _; rfl)).mpr hh
  have c1 := cl.of_dk (dk_modR w h (fun r => { r with expried := true }) (by intro _; rfl) (by intro _; rfl)) l1
  have e1 : ((w.modR h (fun r => { r with expried := true })).k.getR h).eSched = (w.k.getR h).eSched :=
    getR_modRec_proj (·.eSched) w.k h h _ (by intro _; rfl) (by intro _; rfl)
  have l2 : Lv ((w.modR h (fun r => { r with expried := true })).modK (fun k => { k with locked := k.locked - n })) zero :=
    l1.modK _ (l1.rc.transfer rfl rfl (fun _ => rfl)) (RecsLe.of_eq rfl)
  have n2 : Nz ((w.modR h (fun r => { r with expried := true })).modK (fun k => { k with locked := k.locked - n })) (some h) := n1.modK_eq _ rfl
  have c2 : CurLive ((w.modR h (fun r => { r with expried := true })).modK (fun k => { k with locked := k.locked - n })).k := c1
  have l3 : Lv w2 zero := by rw [e2]; exact l2.procData .unlock c' fr h
  have n3 : Nz w2 (some h) := by rw [e2]; exact n2.of_up (up_procData _ _ _ _ _)
  have c3 : CurLive w2.k := by rw [e2]; exact c2.of_dk (dk_procData _ _ _ _ _) (by rw [← e2]; exact l3)
  have kp := keep_procData ((w.modR h (fun r => { r with expried := true })).modK (fun k => { k with locked := k.locked - n })) .unlock c' fr h h
  have hh3 : w2.k.hasRec h := by rw [e2]; exact kp.1.mpr hh1
  have e3 : (w2.k.getR h).eSched = (w.k.getR h).eSched := by rw [e2, kp.2.1]; exact e1
  have l4a := l3.dropLongE zero_nonneg h hh3
  have n4a := n3.dropLongE_ex h
  have c4a := c3.of_dk (dk_dropLongE _ h) l4a
  have l4 := l4a.journalUnlock h fa false 0
  have n4 := n4a.of_up (up_journalUnlock (w2.dropLongE h) h fa false 0)
  have c4 := c4a.of_dk (dk_journalUnlock _ h fa false 0) l4
  have hh4 : ((w2.dropLongE h).journalUnlock h fa false 0).k.hasRec h := by
    rw [hasRec_of_ids (ids_journalUnlock _ h fa false 0)]
    unfold W.dropLongE W.when
    split
    · exact (getR_removeLongE _ h hh3).1
    · exact hh3
  have l5 : Lv w5 zero := by rw [e5]; exact l4.modK (·.removeLock h) (removeLock_rc zero_nonneg l4.rc h) (RecsLe.removeLock _ _)
  have n5 : Nz w5 (some h) := by
    rw [e5]
    have := nz_removeLock n4.nd h n4.nz
    exact ⟨this.1, this.2⟩
  have c5 : CurLive w5.k := by
    have := hasRec_current l5
    rw [e5] at this ⊢
    exact CurLive.removeLock c4 h this
  unfold W.when
  split
  · rename_i hcnd
    refine good_freeCheck_clear l5 n5 ?_ c5
    simp only [zero, Int.add_zero]
    by_cases hx : w5.k.hasRec h
    · have := l5.rc.refCount_of hx
      have hz : (w5.k.getR h).refCount = 0 := by
        simp only [Bool.and_eq_true, beq_iff_eq] at hcnd; exact hcnd.2
      rw [hz] at this; simp only [zero] at this; omega
    · apply Classical.byContradiction
      intro hn
      exact hx (l5.rc.dang h (by simp only [zero]; omega))
  · rename_i hcnd
    have hpos : w5.k.hasRec h ∧ 1 ≤ (w5.k.getR h).refCount := by
      cases hl : (w2.k.getR h).eLong with
      | true =>
        have hne : (w5.k.getR h).refCount ≠ 0 := by
          intro hz; apply hcnd; simp [hl, hz]
        exact ⟨hasRec_of_refCount _ _ hne, Nat.pos_of_ne_zero hne⟩
      | false =>
        have e4 : (((w2.dropLongE h).journalUnlock h fa false 0).k.getR h).eSched.isSome = true := by
          rw [journalUnlock_eSched, dropLongE_of_not_long w2 h hl, e3]; exact he0
        obtain ⟨k1, k2, _⟩ := removeLock_keep zero_nonneg l4.rc h h hh4 (wheel_of_e e4)
        have k1' : w5.k.hasRec h := by rw [e5]; exact k1
        refine ⟨k1', ?_⟩
        have hrc := l5.rc.refCount_of k1'
        have hw : 1 ≤ (w5.k.getR h).wheelRefs := by
          apply wheel_of_e
          rw [e5]
          show ((((w2.dropLongE h).journalUnlock h fa false 0).k.removeLock h).getR h).eSched.isSome = true
          rw [k2]; exact e4
        simp only [zero] at hrc; omega
    have hexp5 : w5.k.hasRec h → (w5.k.getR h).expried = true := by
      intro hx
      have p2 : PK (·.expried) w2 (w.modR h (fun r => { r with expried := true })) := by
        rw [e2]
        exact (pk_procData ins_expried _ _ _ _ _).trans (PKeep.of_eq rfl)
      have p4 : PK (·.expried) ((w2.dropLongE h).journalUnlock h fa false 0) (w.modR h (fun r => { r with expried := true })) :=
        (pk_journalUnlock ins_expried _ _ _ _ _).trans ((pk_dropLongE ins_expried _ _ (fun _ _ => rfl)).trans p2)
      have p5 : PKeep (·.expried) w5.k (w.modR h (fun r => { r with expried := true })).k := by
        rw [e5]
        exact (PKeep.removeLock ins_expried (fun _ _ => rfl) _ h).trans p4
      have := p5.val h hx
      rw [this]
      show ((w.k.modRec h _).getR h).expried = true
      rw [getR_modRec_same _ _ _ (by intro _; rfl) hh]
    have n6 : Nz w5 none := n5.clear h (fun hx => ⟨hpos.2, fun hp => by
      have hz : (w5.k.getR h).depth = 0 := by
        have hx' := hx
        rw [e5] at hx' ⊢
        exact removeLock_depth _ h hx'
      omega, fun _ => by
      have hx' := hx
      rw [e5] at hx' ⊢
      exact removeLock_depth _ h hx', fun _ _ => hexp5 hx⟩)
    exact Tight.of_good ⟨l5, n6⟩ (recs_ne_of_hasRec hpos.1) c5

theorem qRefs_pos_of_wait_mem (k : Key) (x : Nat) (h : x ∈ k.wait.map (·.rid)) : 0 < k.qRefs x := by
  have : 0 < (k.wait.map (·.rid)).count x := List.count_pos_iff.mpr h
  unfold Key.qRefs; omega

theorem ids_modR (w : W) (rid : Nat) (f : Rec → Rec) (hf : ∀ r, (f r).rid = r.rid) : (w.modR rid f).k.ids = w.k.ids := ids_modRec _ rid f hf

/-- the cancel of a queued request, up to the counter / two replies / wake pass -/
theorem cancel_tight_pre (db : DB) (hdb : DBI db) (ht : ∀ k ∈ db.keys, KeyTight k) (c : Cmd) (x : Nat)
    (hm : x ∈ (db.getKey c.key).wait.map (·.rid)) (hd : (db.getKey c.key).deadWaiter x = false) :
    Tight ((((((db.openKey c.key).modR x (fun r => { r with timeouted := true })).dropLongT x).modK (·.settleWait)).ctr
        (fun y => { y with waitCount := y.waitCount - 1 })).removeIfZero) := by
  have ge := Good.openKey hdb ht c.key
  have le := ge.lv
  have ce := cur_openKey ht c.key
  have hq : 0 < (db.openKey c.key).k.qRefs x := qRefs_pos_of_wait_mem _ x hm
  have hh : (db.openKey c.key).k.hasRec x := le.rc.dang x (by simp only [zero]; omega)
  have l1 : Lv ((db.openKey c.key).modR x (fun r => { r with timeouted := true })) zero :=
    le.modR x _ (fun _ => rfl) (le.rc.modRec_plain x _ (fun _ => rfl) (fun _ => rfl) (fun _ => rfl)) (by
      intro r _ _ hf; simp at hf)
  have n1 : Nz ((db.openKey c.key).modR x (fun r => { r with timeouted := true })) none :=
    ge.nz.of_up (RecsUp.modRec _ x _ (fun _ => rfl) (fun _ h => ⟨h.pos, h.hold, h.ended, h.fin⟩))
  have hh1 : ((db.openKey c.key).modR x (fun r => { r with timeouted := true })).k.hasRec x :=
    (hasRec_modR _ x x _ (by intro _; rfl)).mpr hh
  have l2 := l1.dropLongT zero_nonneg x hh1
  have n2 : Nz (((db.openKey c.key).modR x (fun r => { r with timeouted := true })).dropLongT x) none := by
    unfold W.dropLongT W.when
    split
    · rename_i hl
      exact n1.removeLongT zero_nonneg l1 x hq (tLong_isSome _ hl)
    · exact n1
  have l3 : Lv ((((db.openKey c.key).modR x (fun r => { r with timeouted := true })).dropLongT x).modK (·.settleWait)) zero :=
    l2.modK _ (settleWait_rc zero_nonneg l2.rc) (RecsLe.settleWait _)
  have n3 : Nz ((((db.openKey c.key).modR x (fun r => { r with timeouted := true })).dropLongT x).modK (·.settleWait)) none := by
    have := nz_settleWait n2.nd n2.nz
    exact ⟨this.1, this.2⟩
  have c1 := ce.of_dk (dk_modR _ x (fun r => { r with timeouted := true }) (by intro _; rfl) (by intro _; rfl)) l1
  have c2 := c1.of_dk (dk_dropLongT _ x) l2
  have c3 := c2.of_dk (dk_modK _ (·.settleWait) (DepthKeep.settleWait _)) l3
  have g4 : Good (((((db.openKey c.key).modR x (fun r => { r with timeouted := true })).dropLongT x).modK (·.settleWait)).ctr
      (fun y => { y with waitCount := y.waitCount - 1 })) := (⟨l3, n3⟩ : Good _).ctr _
  have t5 := Tight.removeIfZero (GoodG.of_good g4) (fun _ => c3)
  exact t5


theorem applyUnlock_tight (db : DB) (hdb : DBI db) (ht : ∀ k ∈ db.keys, KeyTight k) (c : Cmd) (data : Option Bytes) (b : UnlockBranch)
    (hb : ∀ h, b.holderOf = some h → h ∈ (db.getKey c.key).current.toList ++ (db.getKey c.key).locks)
    (hc : ∀ x, b = .cancel x → x ∈ (db.getKey c.key).wait.map (·.rid) ∧ (db.getKey c.key).deadWaiter x = false)
    (hdec : ∀ h c', b = .dec h c' → 1 < ((db.getKey c.key).getR h).depth)
    (hrel : ∀ h c', b = .release h c' → 0 < ((db.getKey c.key).getR h).depth) :
    Tight (applyUnlock db c data b) := by
  have to := tight_openKey hdb ht c.key
  have ge := Good.openKey hdb ht c.key
  have le := ge.lv
  have ce := cur_openKey ht c.key
  cases b with
  | noManager =>
    exact ⟨fun _ => ge.of_up (le.db rfl (Nat.le_refl _)) (RecsUp.of_eq rfl), settled_openKey ht c.key, fun _ => ce⟩
  | stateError | notLocked | unown | cancelNone => exact (to.ctr _).reply _ _ _ _
  | cancel x =>
    simp only [applyUnlock]
    obtain ⟨hm, hd⟩ := hc x rfl
    exact good_wake ((((cancel_tight_pre db hdb ht c x hm hd).ctr (fun y => { y with unLockCount := y.unLockCount + 1 })).reply _ _ _ _).reply _ _ _ _)
  | dec h c' =>
    simp only [applyUnlock]
    have hh := hasRec_of_holder le h (hb h rfl)
    have hd : 1 < ((db.openKey c.key).k.getR h).depth := hdec h c' rfl
    have l1 : Lv ((db.openKey c.key).modR h (fun r => { r with depth := r.depth - 1 })) zero :=
      le.modR_plain h _ (fun _ => rfl) (fun _ => rfl) (fun _ => rfl) (fun _ => rfl) (fun _ => rfl)
    have n1 : Nz ((db.openKey c.key).modR h (fun r => { r with depth := r.depth - 1 })) none :=
      ge.nz.modR_at h _ (fun _ => rfl) (fun _ hf => ⟨hf.pos, fun _ => hf.hold (by omega), fun hx => by
        have := hf.ended hx; simp only []; omega, fun hz => by simp only [] at hz; omega⟩)
    have c1 : CurLive ((db.openKey c.key).modR h (fun r => { r with depth := r.depth - 1 })).k :=
      ce.modDepth h _ (fun _ => rfl) hh (by simp only []; omega)
    have hh1 : ((db.openKey c.key).modR h (fun r => { r with depth := r.depth - 1 })).k.hasRec h := (hasRec_modR _ h h _ (by intro _; rfl)).mpr hh
    have g2 : Good (((db.openKey c.key).modR h (fun r => { r with depth := r.depth - 1 })).modK (fun k => { k with locked := k.locked - 1 })) :=
      ⟨l1.modK _ (l1.rc.transfer rfl rfl (fun _ => rfl)) (RecsLe.of_eq rfl), n1.modK_eq _ rfl⟩
    have c2 : CurLive (((db.openKey c.key).modR h (fun r => { r with depth := r.depth - 1 })).modK (fun k => { k with locked := k.locked - 1 })).k := c1
    have g3 := g2.of_up (g2.lv.procData .unlock c' (frameOf c' data) h) (up_procData _ _ _ _ _)
    have c3 := c2.of_dk (dk_procData _ .unlock c' (frameOf c' data) h) g3.lv
    have hh3 := (keep_procData (((db.openKey c.key).modR h (fun r => { r with depth := r.depth - 1 })).modK (fun k => { k with locked := k.locked - 1 }))
      .unlock c' (frameOf c' data) h h).1.mpr hh1
    have g4 := g3.of_up (g3.lv.journalUnlock h (has c'.flag Slock.Engine.F_FROM_AOF) true AOF_UPDATED) (up_journalUnlock _ _ _ _ _)
    have c4 := c3.of_dk (dk_journalUnlock _ h (has c'.flag Slock.Engine.F_FROM_AOF) true AOF_UPDATED) g4.lv
    have hh4 := (hasRec_of_ids (ids_journalUnlock _ h (has c'.flag Slock.Engine.F_FROM_AOF) true AOF_UPDATED) h).mpr hh3
    exact good_finish (Tight.of_good g4 (recs_ne_of_hasRec hh4) c4) _ _ _ _ _
  | release h c' =>
    simp only [applyUnlock]
    have hh := hasRec_of_holder le h (hb h rfl)
    have hd : 0 < ((db.openKey c.key).k.getR h).depth := hrel h c' rfl
    exact good_finish (release_tight ge ce h hh hd c' (frameOf c' data) ((db.openKey c.key).k.getR h).depth (has c'.flag Slock.Engine.F_FROM_AOF)
      _ rfl _ rfl) _ _ _ _ _

end Slock.Engine2
