import Slock.Proofs.Engine2SimUnlock
/-! Simulation stage 2 → stage 1: `RemoveLock` (depth := 0, pop tombstoned heads of the holder queue, promote the next live entry to
`currentLock`) is stage 1's `removeHolder`; the release branch of UNLOCK. -/
namespace Slock.Sim
open Slock Slock.Engine2
open Slock.Engine (has)

theorem liveHolder_unref (k : Key) (x y : Nat) (hx : k.liveHolder x = false) : (k.unref x).liveHolder y = k.liveHolder y := by
  by_cases e : y = x
  · subst e
    rw [hx]
    unfold Key.unref Key.liveHolder
    simp only []
    split
    · rw [getR_free_self]; rfl
    · unfold Key.unrefOnly
      rw [getR_modRec_proj (·.depth) k y y _ (by intro _; rfl) (by intro _; rfl)]
      exact hx
  · unfold Key.liveHolder; rw [getR_unref_other _ _ _ e]

/-- the live entries of the holder queue, in order, as stage 1 sees them: unchanged by popping tombstoned heads (the popped live head,
if `take`, put back in front) -/
theorem locksSkip_live (take : Bool) (l : List Nat) (k : Key) (hl : k.locks = l) :
    (((if take then (locksSkip take l k).2.toList else []) ++ (locksSkip take l k).1.locks).filter (fun x => (locksSkip take l k).1.liveHolder x)).map
        (holdOf (locksSkip take l k).1) = (l.filter (fun x => k.liveHolder x)).map (holdOf k) ∧
    (locksSkip take l k).1.current = k.current := by
  induction l generalizing k with
  | nil =>
    unfold locksSkip
    rw [hl]
    cases take <;> exact ⟨rfl, rfl⟩
  | cons x rest ih =>
    unfold locksSkip
    split
    · rename_i hlive
      cases take with
      | false =>
        simp only [Bool.false_eq_true, if_false, List.nil_append]
        rw [hl]; exact ⟨rfl, trivial⟩
      | true =>
        simp only [if_true, Option.toList_some, List.singleton_append]
        refine ⟨?_, trivial⟩
        show ((x :: rest).filter (fun y => k.liveHolder y)).map (holdOf k) = _
        rfl
    · rename_i hdead
      have hdead' : k.liveHolder x = false := by simpa using hdead
      obtain ⟨q1, _, q3, _⟩ := unref_queues { k with locks := rest, locksPopped := k.locksPopped + 1 } x
      obtain ⟨i1, i2⟩ := ih ({ k with locks := rest, locksPopped := k.locksPopped + 1 }.unref x) q1
      refine ⟨?_, i2.trans q3⟩
      rw [i1]
      have hdk : ({ k with locks := rest, locksPopped := k.locksPopped + 1 } : Key).liveHolder x = false := hdead'
      have hlv : ∀ y, ({ k with locks := rest, locksPopped := k.locksPopped + 1 }.unref x).liveHolder y = k.liveHolder y :=
        fun y => liveHolder_unref _ x y hdk
      simp only [List.filter, hdead']
      have hf : rest.filter (fun y => ({ k with locks := rest, locksPopped := k.locksPopped + 1 }.unref x).liveHolder y) =
          rest.filter (fun y => k.liveHolder y) := by
        apply List.filter_congr; intro y _; rw [hlv]
      rw [hf]
      apply List.map_congr_left
      intro y hy
      have hly : k.liveHolder y = true := (List.mem_filter.mp hy).2
      have hne : y ≠ x := by intro e'; rw [e'] at hly; rw [hly] at hdead'; exact absurd hdead' (by simp)
      unfold holdOf
      rw [getR_unref_other _ _ _ hne]
      rfl

/-- a live record is not touched by the pop -/
theorem locksSkip_getR_live (take : Bool) (l : List Nat) (k : Key) (y : Nat) (hy : k.liveHolder y = true) :
    (locksSkip take l k).1.getR y = k.getR y := by
  induction l generalizing k with
  | nil => rfl
  | cons x rest ih =>
    unfold locksSkip
    split
    · cases take <;> rfl
    · rename_i hdead
      have hdead' : k.liveHolder x = false := by simpa using hdead
      have hne : y ≠ x := by intro e'; rw [e'] at hy; rw [hy] at hdead'; exact absurd hdead' (by simp)
      have hdk : ({ k with locks := rest, locksPopped := k.locksPopped + 1 } : Key).liveHolder x = false := hdead'
      have hy' : ({ k with locks := rest, locksPopped := k.locksPopped + 1 }.unref x).liveHolder y = true := by
        rw [liveHolder_unref _ x y hdk]; exact hy
      rw [ih _ hy', getR_unref_other _ _ _ hne]
      rfl

/-- **`RemoveLock` is stage 1's `removeHolder`** (given that the live holds are pairwise distinct) -/
theorem holders_removeLock (k : Key) (h : Nat) (hm : h ∈ k.current.toList ++ k.locks) (hl : k.liveHolder h = true) (hh : k.hasRec h)
    (cl : CurLive k) (hnd : (Key.abs k).holders.Nodup) :
    (Key.abs (k.removeLock h)).holders = Engine.removeHolder (Key.abs k).holders (holdOf k h) := by
  have hf : ∀ r : Rec, ({ r with depth := 0 } : Rec).rid = r.rid := fun _ => rfl
  -- the record edit
  have hlive1 : ∀ y, (k.modRec h (fun r => { r with depth := 0 })).liveHolder y = (k.liveHolder y && (y != h)) := by
    intro y
    by_cases e : y = h
    · subst e
      unfold Key.liveHolder
      rw [getR_modRec_same _ _ _ hf hh]
      simp
    · unfold Key.liveHolder
      rw [getR_modRec_other _ _ _ _ hf e]
      simp [e]
  have hhold1 : ∀ y, y ≠ h → holdOf (k.modRec h (fun r => { r with depth := 0 })) y = holdOf k y := by
    intro y e
    unfold holdOf
    rw [getR_modRec_other _ _ _ _ hf e]
  -- stage 1
  rw [abs_holders] at hnd
  have hrhs : Engine.removeHolder (Key.abs k).holders (holdOf k h) =
      ((k.current.toList ++ k.locks).filter (fun y => (k.modRec h (fun r => { r with depth := 0 })).liveHolder y)).map
        (holdOf (k.modRec h (fun r => { r with depth := 0 }))) := by
    rw [abs_holders, removeHolder_map _ (holdOf k) h (List.mem_filter.mpr ⟨hm, hl⟩) hnd, List.filter_filter]
    have : (k.current.toList ++ k.locks).filter (fun a => (a != h) && k.liveHolder a) =
        (k.current.toList ++ k.locks).filter (fun y => (k.modRec h (fun r => { r with depth := 0 })).liveHolder y) := by
      apply List.filter_congr; intro y _; rw [hlive1, Bool.and_comm]
    rw [this]
    apply List.map_congr_left
    intro y hy
    have := (List.mem_filter.mp hy).2
    rw [hlive1] at this
    simp only [Bool.and_eq_true, bne_iff_ne, ne_eq] at this
    exact (hhold1 y this.2).symm
  rw [hrhs, abs_holders]
  generalize hk1 : k.modRec h (fun r => { r with depth := 0 }) = k1 at hlive1 hhold1
  have hk1c : k1.current = k.current := by rw [← hk1]; rfl
  have hk1l : k1.locks = k.locks := by rw [← hk1]; rfl
  unfold Key.removeLock
  simp only []
  rw [hk1, ← hk1c, ← hk1l]
  split
  · rename_i hcur
    have hcur' : k1.current = some h := by simpa using hcur
    have hlv2 : ∀ y, ({ k1.unrefOnly h with current := none } : Key).liveHolder y = k1.liveHolder y := by
      intro y
      unfold Key.liveHolder Key.unrefOnly
      show decide (((k1.modRec h _).getR y).depth > 0) = _
      rw [getR_modRec_proj (·.depth) k1 h y _ (by intro _; rfl) (by intro _; rfl)]
    have hho2 : ∀ y, holdOf ({ k1.unrefOnly h with current := none } : Key) y = holdOf k1 y := by
      intro y
      unfold holdOf Key.unrefOnly
      show ((k1.modRec h _).getR y).toHold = _
      exact getR_modRec_proj (·.toHold) k1 h y _ (by intro _; rfl) (by intro _; rfl)
    have hlocks2 : ({ k1.unrefOnly h with current := none } : Key).locks = k1.locks := rfl
    generalize ({ k1.unrefOnly h with current := none } : Key) = k2 at hlv2 hho2 hlocks2
    obtain ⟨i1, _⟩ := locksSkip_live true k2.locks k2 rfl
    simp only [if_true] at i1
    have e0 : (k1.unrefOnly h).locks = k2.locks := hlocks2.symm
    rw [e0]
    show ((((locksSkip true k2.locks k2).2).toList ++ (locksSkip true k2.locks k2).1.locks).filter
      (fun x => (locksSkip true k2.locks k2).1.liveHolder x)).map (holdOf (locksSkip true k2.locks k2).1) = _
    rw [i1, hcur', hlocks2]
    have hdeadh : k1.liveHolder h = false := by rw [hlive1]; simp
    have e1 : (((some h).toList ++ k1.locks).filter (fun y => k1.liveHolder y)) = k1.locks.filter (fun y => k1.liveHolder y) := by
      simp only [Option.toList_some, List.singleton_append, List.filter, hdeadh]
    rw [e1]
    have : k1.locks.filter (fun y => k2.liveHolder y) = k1.locks.filter (fun y => k1.liveHolder y) := by
      apply List.filter_congr; intro y _; rw [hlv2]
    rw [this]
    apply List.map_congr_left
    intro y _
    exact hho2 y
  · rename_i hcur
    obtain ⟨i1, i2⟩ := locksSkip_live false k1.locks k1 rfl
    simp only [Bool.false_eq_true, if_false, List.nil_append] at i1
    rw [i2, List.filter_append, List.map_append, i1, List.filter_append, List.map_append]
    congr 1
    -- `currentLock` (not `h`) is live and untouched
    cases hc : k1.current with
    | none => rfl
    | some c =>
      have hne : c ≠ h := by
        intro e
        apply hcur
        rw [hc, e]; simp
      have hlc : k1.liveHolder c = true := by
        rw [hlive1]
        have := cl c (hk1c ▸ hc)
        unfold Key.liveHolder
        simp [hne, this]
      have hg := locksSkip_getR_live false k1.locks k1 c hlc
      have hlc' : (locksSkip false k1.locks k1).1.liveHolder c = true := by unfold Key.liveHolder at hlc ⊢; rw [hg]; exact hlc
      have e1 : (some c).toList.filter (fun y => (locksSkip false k1.locks k1).1.liveHolder y) = [c] := by
        simp only [Option.toList_some, List.filter, hlc']
      have e2 : (some c).toList.filter (fun y => k1.liveHolder y) = [c] := by
        simp only [Option.toList_some, List.filter, hlc]
      rw [e1, e2]
      show [((locksSkip false k1.locks k1).1.getR c).toHold] = [(k1.getR c).toHold]
      rw [hg]

/-- `RemoveLock(rid)` changes the stage-1 view of no other record -/
theorem removeLock_others (k : Key) (rid : Nat) : PKeepX πA (· = rid) (k.removeLock rid) k := by
  unfold Key.removeLock
  simp only []
  have h1 : PKeepX πA (· = rid) (k.modRec rid fun r => { r with depth := 0 }) k := PKeepX.modRec k rid _ (fun _ => rfl) rfl
  split
  · have h2 : PKeepX πA (· = rid) ({ (k.modRec rid fun r => { r with depth := 0 }).unrefOnly rid with current := none } : Key) k :=
      PKeepX.trans (b := (k.modRec rid fun r => { r with depth := 0 }).unrefOnly rid) (PKeepX.of_eq rfl)
        ((PKeepX.of_pk (PKeep.unrefOnly ins_πA _ rid)).trans h1)
    exact PKeepX.trans (b := (Slock.Engine2.locksSkip true
      ({ (k.modRec rid fun r => { r with depth := 0 }).unrefOnly rid with current := none } : Key).locks
      { (k.modRec rid fun r => { r with depth := 0 }).unrefOnly rid with current := none }).1) (PKeepX.of_eq rfl)
      ((PKeepX.of_pk (PKeep.locksSkip ins_πA true _ _)).trans h2)
  · exact (PKeepX.of_pk (PKeep.locksSkip ins_πA false _ _)).trans h1

def keyRel (k : Engine.Key) (h : Engine.Hold) : Engine.Key := { k with holders := Engine.removeHolder k.holders h, locked := k.locked - h.depth }

/-- **the stage-1 view of the key record after `RemoveLock`** -/
theorem abs_removeLock (k : Key) (h : Nat) (hm : h ∈ k.current.toList ++ k.locks) (hl : k.liveHolder h = true) (hh : k.hasRec h)
    (cl : CurLive k) (hnd : (Key.abs k).holders.Nodup)
    (sep : ∀ e ∈ k.wait, k.deadWaiter e.rid = false → e.rid ∉ k.current.toList ++ k.locks)
    (hrec : ∀ y ∈ k.wait.map (·.rid), (k.removeLock h).hasRec y) :
    Key.abs (k.removeLock h) = { Key.abs k with holders := Engine.removeHolder (Key.abs k).holders (holdOf k h) } := by
  have px := removeLock_others k h
  have pt : PKeep (·.timeouted) (k.removeLock h) k := PKeep.removeLock ins_timeouted (fun _ _ => rfl) k h
  refine abs_ext ?_ ?_ (holders_removeLock k h hm hl hh cl hnd) ?_ (removeLock_waited k h)
  · show (k.removeLock h).key = k.key
    unfold Key.removeLock; simp only []
    split
    · exact locksSkip_key _ _ _
    · exact locksSkip_key _ _ _
  · show (k.removeLock h).locked = k.locked
    exact removeLock_locked k h
  · show (Key.abs (k.removeLock h)).waiters = (Key.abs k).waiters
    rw [abs_waiters, abs_waiters, removeLock_wait]
    apply filter_map_congr_on
    intro y hy
    have hyr := hrec y hy
    have ht : (k.removeLock h).deadWaiter y = k.deadWaiter y := pt.val y hyr
    refine ⟨by rw [ht], fun hlive => ?_⟩
    have hne : y ≠ h := by
      intro e
      obtain ⟨x, hx, hxe⟩ := List.mem_map.mp hy
      have hd : k.deadWaiter x.rid = false := by
        rw [hxe]
        cases hdd : k.deadWaiter y with
        | false => rfl
        | true => rw [hdd] at hlive; simp at hlive
      exact sep x hx hd (by rw [hxe, e]; exact hm)
    exact congrArg (fun t => t.2.1) (px.val y hne hyr)

theorem locksSkip_sub (take : Bool) (l : List Nat) (k : Key) (hl : k.locks = l) (y : Nat)
    (hy : y ∈ (locksSkip take l k).2.toList ++ (locksSkip take l k).1.locks) : y ∈ l := by
  induction l generalizing k with
  | nil =>
    unfold locksSkip at hy
    rw [hl] at hy; simpa using hy
  | cons x rest ih =>
    unfold locksSkip at hy
    split at hy
    · cases take with
      | false =>
        simp only [Bool.false_eq_true, if_false, Option.toList_some, List.singleton_append, List.mem_cons] at hy
        rcases hy with h1 | h1
        · rw [h1]; simp
        · rw [hl] at h1; exact h1
      | true =>
        simp only [if_true, Option.toList_some, List.singleton_append, List.mem_cons] at hy
        exact List.mem_cons.mpr hy
    · obtain ⟨q1, _⟩ := unref_queues { k with locks := rest, locksPopped := k.locksPopped + 1 } x
      exact List.mem_cons_of_mem _ (ih _ q1 hy)

theorem removeLock_sub (k : Key) (h y : Nat) (hy : y ∈ (k.removeLock h).current.toList ++ (k.removeLock h).locks) :
    y ∈ k.current.toList ++ k.locks := by
  unfold Key.removeLock at hy
  simp only [] at hy
  split at hy
  · have hy' : y ∈ (locksSkip true ({ (k.modRec h fun r => { r with depth := 0 }).unrefOnly h with current := none } : Key).locks
        ({ (k.modRec h fun r => { r with depth := 0 }).unrefOnly h with current := none } : Key)).2.toList ++
        (locksSkip true ({ (k.modRec h fun r => { r with depth := 0 }).unrefOnly h with current := none } : Key).locks
        ({ (k.modRec h fun r => { r with depth := 0 }).unrefOnly h with current := none } : Key)).1.locks := hy
    have := locksSkip_sub true _ _ rfl y hy'
    exact List.mem_append_right _ this
  · obtain ⟨_, i2⟩ := locksSkip_queues false (k.modRec h fun r => { r with depth := 0 }).locks (k.modRec h fun r => { r with depth := 0 })
    rw [i2] at hy
    rcases List.mem_append.mp hy with h1 | h1
    · exact List.mem_append_left _ h1
    · have := locksSkip_sub false _ (k.modRec h fun r => { r with depth := 0 }) rfl y (List.mem_append_right _ h1)
      exact List.mem_append_right _ this

theorem removeHolder_congr (L : List Nat) (f g : Nat → Engine.Hold) (x : Nat) (hx : x ∈ L) (hf : (L.map f).Nodup) (hg : (L.map g).Nodup)
    (he : ∀ y ∈ L, y ≠ x → f y = g y) : Engine.removeHolder (L.map f) (f x) = Engine.removeHolder (L.map g) (g x) := by
  rw [removeHolder_map L f x hx hf, removeHolder_map L g x hx hg]
  apply List.map_congr_left
  intro y hy
  have := List.mem_filter.mp hy
  exact he y this.1 (by simpa using this.2)

/-- identity, depth and tombstone flag of a record -/
def πH (r : Rec) : Nat × Nat × Bool := (r.hid, r.depth, r.timeouted)
theorem ins_πH : Ins πH := ⟨fun _ _ => rfl, fun _ _ => rfl, fun _ _ => rfl, fun _ _ => rfl⟩

theorem nodup_of_hid {l : List Engine.Hold} (h : (l.map (·.hid)).Nodup) : l.Nodup :=
  List.Pairwise.of_map (·.hid) (fun a b hne e => hne (by rw [e])) h

/-- the facts `release_tight` (Engine2TightUnlock) establishes on the way, up to `RemoveLock` -/
theorem release_chain {w : W} (g : Good w) (cl : CurLive w.k) (h : Nat) (hh : w.k.hasRec h) (hd : 0 < (w.k.getR h).depth)
    (c' : Engine.Cmd) (fr : Option Bytes) (n : Nat) (fa : Bool)
    (w2 : W) (e2 : w2 = ((w.modR h (fun r => { r with expried := true })).modK (fun k => { k with locked := k.locked - n })).procData .unlock c' fr h)
    (w5 : W) (e5 : w5 = ((w2.dropLongE h).journalUnlock h fa false 0).modK (·.removeLock h)) :
    Lv ((w2.dropLongE h).journalUnlock h fa false 0) zero ∧ CurLive ((w2.dropLongE h).journalUnlock h fa false 0).k ∧
    ((w2.dropLongE h).journalUnlock h fa false 0).k.hasRec h ∧ Lv w5 zero ∧ Nz w5 (some h) ∧ CurLive w5.k := by
  have le := g.lv
  have hfine : RecFine (w.k.getR h) := g.nz.nz _ (getR_mem hh) (by simp)
  have he0 : (w.k.getR h).eSched.isSome = true := hfine.hold hd
  have l1 : Lv (w.modR h (fun r => { r with expried := true })) zero :=
    le.modR_plain h _ (fun _ => rfl) (fun _ => rfl) (fun _ => rfl) (fun _ => rfl) (fun _ => rfl)
  have n1 : Nz (w.modR h (fun r => { r with expried := true })) (some h) := (g.nz.weaken (some h)).modR_ex h _ (by intro _; rfl)
  have hh1 : (w.modR h (fun r => { r with expried := true })).k.hasRec h := (hasRec_modR _ h h _ (by intro _; rfl)).mpr hh
  have c1 := cl.of_dk (dk_modR w h (fun r => { r with expried := true }) (by intro _; rfl) (by intro _; rfl)) l1
  have e1 : ((w.modR h (fun r => { r with expried := true })).k.getR h).eSched = (w.k.getR h).eSched :=
    getR_modRec_proj (·.eSched) w.k h h _ (by intro _; rfl) (by intro _; rfl)
  have l2 : Lv ((w.modR h (fun r => { r with expried := true })).modK (fun k => { k with locked := k.locked - n })) zero :=
    l1.modK _ (l1.rc.transfer rfl rfl (fun _ => rfl)) (RecsLe.of_eq rfl)
  have n2 : Nz ((w.modR h (fun r => { r with expried := true })).modK (fun k => { k with locked := k.locked - n })) (some h) := n1.modK_eq _ rfl
  have c2 : CurLive ((w.modR h (fun r => { r with expried := true })).modK (fun k => { k with locked := k.locked - n })).k := c1
  have l3 : Lv w2 zero := by rw [e2]; exact l2.procData .unlock c' fr h
  have n3 : Nz w2 (some h) := by rw [e2]; exact n2.of_up (up_procData _ _ _ _ _)
  have c3 : CurLive w2.k := by rw [e2]; exact c2.of_dk (dk_procData _ _ _ _ _) (by rw [← e2]; exact l3)
  have kp := keep_procData ((w.modR h (fun r => { r with expried := true })).modK (fun k => { k with locked := k.locked - n })) .unlock c' fr h h
  have hh3 : w2.k.hasRec h := by rw [e2]; exact kp.1.mpr hh1
  have e3 : (w2.k.getR h).eSched = (w.k.getR h).eSched := by rw [e2, kp.2.1]; exact e1
  have l4a := l3.dropLongE zero_nonneg h hh3
  have n4a := n3.dropLongE_ex h
  have c4a := c3.of_dk (dk_dropLongE _ h) l4a
  have l4 := l4a.journalUnlock h fa false 0
  have n4 := n4a.of_up (up_journalUnlock (w2.dropLongE h) h fa false 0)
  have c4 := c4a.of_dk (dk_journalUnlock _ h fa false 0) l4
  have hh4 : ((w2.dropLongE h).journalUnlock h fa false 0).k.hasRec h := by
    rw [hasRec_of_ids (ids_journalUnlock _ h fa false 0)]
    unfold W.dropLongE W.when
    split
    · exact (getR_removeLongE _ h hh3).1
    · exact hh3
  have l5 : Lv w5 zero := by rw [e5]; exact l4.modK (·.removeLock h) (removeLock_rc zero_nonneg l4.rc h) (RecsLe.removeLock _ _)
  have n5 : Nz w5 (some h) := by
    rw [e5]
    have := nz_removeLock n4.nd h n4.nz
    exact ⟨this.1, this.2⟩
  have c5 : CurLive w5.k := by
    have := hasRec_current l5
    rw [e5] at this ⊢
    exact CurLive.removeLock c4 h this
  exact ⟨l4, c4, hh4, l5, n5, c5⟩

def ctrRel (n : Nat) (x : Engine.Counters) : Engine.Counters := { x with unLockCount := x.unLockCount + n, lockedCount := x.lockedCount - n }

/-- the key record just before `RemoveLock` in the release, against the state before the release: only the hold's own record differs -/
theorem release_pre (s : DB) (hq : DBQ s) (c : Engine.Cmd) (data : Option Bytes) (h : Nat) (c' : Engine.Cmd)
    (hm : h ∈ (s.openKey c.key).k.current.toList ++ (s.openKey c.key).k.locks) (hd : 0 < ((s.openKey c.key).k.getR h).depth) (hh : (s.openKey c.key).k.hasRec h)
    (l4 : Lv ((((((s.openKey c.key).modR h (fun r => { r with expried := true })).modK (fun k => { k with locked := k.locked - ((s.openKey c.key).k.getR h).depth })).procData .unlock c' (frameOf c' data) h).dropLongE h).journalUnlock h (has c'.flag Slock.Engine.F_FROM_AOF) false 0) zero) (hh4 : ((((((s.openKey c.key).modR h (fun r => { r with expried := true })).modK (fun k => { k with locked := k.locked - ((s.openKey c.key).k.getR h).depth })).procData .unlock c' (frameOf c' data) h).dropLongE h).journalUnlock h (has c'.flag Slock.Engine.F_FROM_AOF) false 0).k.hasRec h)
    (hwq : WQ (s.getKey c.key)) (hnd : ((Key.abs (s.getKey c.key)).holders.map (·.hid)).Nodup) :
    SX (· = h) (s.openKey c.key) ((((((s.openKey c.key).modR h (fun r => { r with expried := true })).modK (fun k => { k with locked := k.locked - ((s.openKey c.key).k.getR h).depth })).procData .unlock c' (frameOf c' data) h).dropLongE h).journalUnlock h (has c'.flag Slock.Engine.F_FROM_AOF) false 0) ∧ PK πH ((((((s.openKey c.key).modR h (fun r => { r with expried := true })).modK (fun k => { k with locked := k.locked - ((s.openKey c.key).k.getR h).depth })).procData .unlock c' (frameOf c' data) h).dropLongE h).journalUnlock h (has c'.flag Slock.Engine.F_FROM_AOF) false 0) (s.openKey c.key) ∧ ((((((s.openKey c.key).modR h (fun r => { r with expried := true })).modK (fun k => { k with locked := k.locked - ((s.openKey c.key).k.getR h).depth })).procData .unlock c' (frameOf c' data) h).dropLongE h).journalUnlock h (has c'.flag Slock.Engine.F_FROM_AOF) false 0).k.liveHolder h = true ∧ (Key.abs ((((((s.openKey c.key).modR h (fun r => { r with expried := true })).modK (fun k => { k with locked := k.locked - ((s.openKey c.key).k.getR h).depth })).procData .unlock c' (frameOf c' data) h).dropLongE h).journalUnlock h (has c'.flag Slock.Engine.F_FROM_AOF) false 0).k).holders.Nodup ∧
    (Key.abs ((((((s.openKey c.key).modR h (fun r => { r with expried := true })).modK (fun k => { k with locked := k.locked - ((s.openKey c.key).k.getR h).depth })).procData .unlock c' (frameOf c' data) h).dropLongE h).journalUnlock h (has c'.flag Slock.Engine.F_FROM_AOF) false 0).k).waiters = (Key.abs (s.getKey c.key)).waiters ∧ ((((((s.openKey c.key).modR h (fun r => { r with expried := true })).modK (fun k => { k with locked := k.locked - ((s.openKey c.key).k.getR h).depth })).procData .unlock c' (frameOf c' data) h).dropLongE h).journalUnlock h (has c'.flag Slock.Engine.F_FROM_AOF) false 0).k.locked = (s.getKey c.key).locked - ((s.openKey c.key).k.getR h).depth ∧
    Engine.removeHolder (Key.abs ((((((s.openKey c.key).modR h (fun r => { r with expried := true })).modK (fun k => { k with locked := k.locked - ((s.openKey c.key).k.getR h).depth })).procData .unlock c' (frameOf c' data) h).dropLongE h).journalUnlock h (has c'.flag Slock.Engine.F_FROM_AOF) false 0).k).holders (holdOf ((((((s.openKey c.key).modR h (fun r => { r with expried := true })).modK (fun k => { k with locked := k.locked - ((s.openKey c.key).k.getR h).depth })).procData .unlock c' (frameOf c' data) h).dropLongE h).journalUnlock h (has c'.flag Slock.Engine.F_FROM_AOF) false 0).k h) =
      Engine.removeHolder (Key.abs (s.getKey c.key)).holders (holdOf (s.getKey c.key) h) ∧
    (∀ y ∈ (s.openKey c.key).k.current.toList ++ (s.openKey c.key).k.locks ++ (s.openKey c.key).k.wait.map (·.rid), ((((((s.openKey c.key).modR h (fun r => { r with expried := true })).modK (fun k => { k with locked := k.locked - ((s.openKey c.key).k.getR h).depth })).procData .unlock c' (frameOf c' data) h).dropLongE h).journalUnlock h (has c'.flag Slock.Engine.F_FROM_AOF) false 0).k.hasRec y) := by
  have sx : SX (· = h) (s.openKey c.key) ((((((s.openKey c.key).modR h (fun r => { r with expried := true })).modK (fun k => { k with locked := k.locked - ((s.openKey c.key).k.getR h).depth })).procData .unlock c' (frameOf c' data) h).dropLongE h).journalUnlock h (has c'.flag Slock.Engine.F_FROM_AOF) false 0) :=
    (((((SX.refl (X := (· = h)) (s.openKey c.key)).modR_in h (fun r => { r with expried := true }) (by intro _; rfl) rfl).modK_same
      (fun k => { k with locked := k.locked - ((s.openKey c.key).k.getR h).depth }) rfl rfl rfl rfl).procData .unlock c' (frameOf c' data) h).dropLongE h rfl).journalUnlock
        h _ false 0
  have ph : PK πH ((((((s.openKey c.key).modR h (fun r => { r with expried := true })).modK (fun k => { k with locked := k.locked - ((s.openKey c.key).k.getR h).depth })).procData .unlock c' (frameOf c' data) h).dropLongE h).journalUnlock h (has c'.flag Slock.Engine.F_FROM_AOF) false 0) (s.openKey c.key) :=
    (pk_journalUnlock ins_πH _ h _ false 0).trans ((pk_dropLongE ins_πH _ h (fun _ _ => rfl)).trans
      ((pk_procData ins_πH _ .unlock c' (frameOf c' data) h).trans
      ((pk_modK ((s.openKey c.key).modR h (fun r => { r with expried := true })) (fun k => { k with locked := k.locked - ((s.openKey c.key).k.getR h).depth }) (PKeep.of_eq rfl)).trans
        (pk_modR (π := πH) (s.openKey c.key) h _ (by intro _; rfl) (by intro _; rfl)))))
  have hrec4 : ∀ y ∈ (s.openKey c.key).k.current.toList ++ (s.openKey c.key).k.locks ++ (s.openKey c.key).k.wait.map (·.rid), ((((((s.openKey c.key).modR h (fun r => { r with expried := true })).modK (fun k => { k with locked := k.locked - ((s.openKey c.key).k.getR h).depth })).procData .unlock c' (frameOf c' data) h).dropLongE h).journalUnlock h (has c'.flag Slock.Engine.F_FROM_AOF) false 0).k.hasRec y := by
    intro y hy
    apply l4.rc.dang
    have := qRefs_pos_of_any _ y hy
    have h0 := qRefs_of_queues sx.q y
    show 0 < (((((((s.openKey c.key).modR h (fun r => { r with expried := true })).modK (fun k => { k with locked := k.locked - ((s.openKey c.key).k.getR h).depth })).procData .unlock c' (frameOf c' data) h).dropLongE h).journalUnlock h (has c'.flag Slock.Engine.F_FROM_AOF) false 0).k.qRefs y : Int) + 0
    omega
  have hl0 : (s.openKey c.key).k.liveHolder h = true := by unfold Key.liveHolder; simp only [decide_eq_true_eq]; exact hd
  have hl4 : ((((((s.openKey c.key).modR h (fun r => { r with expried := true })).modK (fun k => { k with locked := k.locked - ((s.openKey c.key).k.getR h).depth })).procData .unlock c' (frameOf c' data) h).dropLongE h).journalUnlock h (has c'.flag Slock.Engine.F_FROM_AOF) false 0).k.liveHolder h = true := by
    have : (((((((s.openKey c.key).modR h (fun r => { r with expried := true })).modK (fun k => { k with locked := k.locked - ((s.openKey c.key).k.getR h).depth })).procData .unlock c' (frameOf c' data) h).dropLongE h).journalUnlock h (has c'.flag Slock.Engine.F_FROM_AOF) false 0).k.getR h).depth = ((s.openKey c.key).k.getR h).depth := congrArg (fun t => t.2.1) (ph.val h hh4)
    unfold Key.liveHolder; rw [this]; exact hl0
  have pt : PKeep (·.timeouted) ((((((s.openKey c.key).modR h (fun r => { r with expried := true })).modK (fun k => { k with locked := k.locked - ((s.openKey c.key).k.getR h).depth })).procData .unlock c' (frameOf c' data) h).dropLongE h).journalUnlock h (has c'.flag Slock.Engine.F_FROM_AOF) false 0).k (s.openKey c.key).k := ⟨ph.sub, fun y hy => congrArg (fun t => t.2.2) (ph.val y hy)⟩
  have hnd0 := nodup_of_hid hnd
  have habs4 := abs_edit_holder h sx.key sx.waited sx.q sx.p pt hrec4 hm hl0 hl4 hwq.sep hnd0
  obtain ⟨q1, q2, q3⟩ := queues_eq sx.q
  have hlive : ∀ y ∈ (s.openKey c.key).k.current.toList ++ (s.openKey c.key).k.locks, ((((((s.openKey c.key).modR h (fun r => { r with expried := true })).modK (fun k => { k with locked := k.locked - ((s.openKey c.key).k.getR h).depth })).procData .unlock c' (frameOf c' data) h).dropLongE h).journalUnlock h (has c'.flag Slock.Engine.F_FROM_AOF) false 0).k.liveHolder y = (s.openKey c.key).k.liveHolder y := by
    intro y hy
    unfold Key.liveHolder
    have : (((((((s.openKey c.key).modR h (fun r => { r with expried := true })).modK (fun k => { k with locked := k.locked - ((s.openKey c.key).k.getR h).depth })).procData .unlock c' (frameOf c' data) h).dropLongE h).journalUnlock h (has c'.flag Slock.Engine.F_FROM_AOF) false 0).k.getR y).depth = ((s.openKey c.key).k.getR y).depth := congrArg (fun t => t.2.1) (ph.val y (hrec4 y (List.mem_append_left _ hy)))
    rw [this]
  have hfl : (((((((s.openKey c.key).modR h (fun r => { r with expried := true })).modK (fun k => { k with locked := k.locked - ((s.openKey c.key).k.getR h).depth })).procData .unlock c' (frameOf c' data) h).dropLongE h).journalUnlock h (has c'.flag Slock.Engine.F_FROM_AOF) false 0).k.current.toList ++ ((((((s.openKey c.key).modR h (fun r => { r with expried := true })).modK (fun k => { k with locked := k.locked - ((s.openKey c.key).k.getR h).depth })).procData .unlock c' (frameOf c' data) h).dropLongE h).journalUnlock h (has c'.flag Slock.Engine.F_FROM_AOF) false 0).k.locks).filter (fun x => ((((((s.openKey c.key).modR h (fun r => { r with expried := true })).modK (fun k => { k with locked := k.locked - ((s.openKey c.key).k.getR h).depth })).procData .unlock c' (frameOf c' data) h).dropLongE h).journalUnlock h (has c'.flag Slock.Engine.F_FROM_AOF) false 0).k.liveHolder x) =
      ((s.openKey c.key).k.current.toList ++ (s.openKey c.key).k.locks).filter (fun x => (s.openKey c.key).k.liveHolder x) := by
    rw [q1, q2]
    apply List.filter_congr
    intro y hy
    exact hlive y hy
  have hnd4h : ((Key.abs ((((((s.openKey c.key).modR h (fun r => { r with expried := true })).modK (fun k => { k with locked := k.locked - ((s.openKey c.key).k.getR h).depth })).procData .unlock c' (frameOf c' data) h).dropLongE h).journalUnlock h (has c'.flag Slock.Engine.F_FROM_AOF) false 0).k).holders.map (·.hid)).Nodup := by
    rw [abs_holders, hfl, List.map_map]
    rw [abs_holders, List.map_map] at hnd
    have : List.map ((fun x => x.hid) ∘ holdOf ((((((s.openKey c.key).modR h (fun r => { r with expried := true })).modK (fun k => { k with locked := k.locked - ((s.openKey c.key).k.getR h).depth })).procData .unlock c' (frameOf c' data) h).dropLongE h).journalUnlock h (has c'.flag Slock.Engine.F_FROM_AOF) false 0).k) (((s.openKey c.key).k.current.toList ++ (s.openKey c.key).k.locks).filter (fun x => (s.openKey c.key).k.liveHolder x)) =
        List.map ((fun x => x.hid) ∘ holdOf (s.getKey c.key)) (((s.openKey c.key).k.current.toList ++ (s.openKey c.key).k.locks).filter (fun x => (s.openKey c.key).k.liveHolder x)) := by
      apply List.map_congr_left
      intro y hy
      exact congrArg (fun t => t.1) (ph.val y (hrec4 y (List.mem_append_left _ (List.mem_filter.mp hy).1)))
    rw [this]; exact hnd
  refine ⟨sx, ph, hl4, nodup_of_hid hnd4h, (congrArg Engine.Key.waiters habs4).trans rfl, ?_, ?_, hrec4⟩
  · rw [(FQ.journalUnlock _ _ _ _ _).qt.locked, (FQ.dropLongE _ _).qt.locked, procData_locked]; rfl
  · have hnd4 := nodup_of_hid hnd4h
    have e4 : (Key.abs ((((((s.openKey c.key).modR h (fun r => { r with expried := true })).modK (fun k => { k with locked := k.locked - ((s.openKey c.key).k.getR h).depth })).procData .unlock c' (frameOf c' data) h).dropLongE h).journalUnlock h (has c'.flag Slock.Engine.F_FROM_AOF) false 0).k).holders =
        (((s.openKey c.key).k.current.toList ++ (s.openKey c.key).k.locks).filter (fun x => (s.openKey c.key).k.liveHolder x)).map (holdOf ((((((s.openKey c.key).modR h (fun r => { r with expried := true })).modK (fun k => { k with locked := k.locked - ((s.openKey c.key).k.getR h).depth })).procData .unlock c' (frameOf c' data) h).dropLongE h).journalUnlock h (has c'.flag Slock.Engine.F_FROM_AOF) false 0).k) := by rw [abs_holders, hfl]
    have e0 : (Key.abs (s.getKey c.key)).holders =
        (((s.openKey c.key).k.current.toList ++ (s.openKey c.key).k.locks).filter (fun x => (s.openKey c.key).k.liveHolder x)).map (holdOf (s.getKey c.key)) := abs_holders _
    rw [e4] at hnd4
    rw [e0] at hnd0
    rw [e4, e0]
    refine removeHolder_congr _ (holdOf ((((((s.openKey c.key).modR h (fun r => { r with expried := true })).modK (fun k => { k with locked := k.locked - ((s.openKey c.key).k.getR h).depth })).procData .unlock c' (frameOf c' data) h).dropLongE h).journalUnlock h (has c'.flag Slock.Engine.F_FROM_AOF) false 0).k) (holdOf (s.getKey c.key)) h (List.mem_filter.mpr ⟨hm, hl0⟩) hnd4 hnd0 ?_
    intro y hy hne
    exact congrArg (fun t => t.1) (sx.p.val y hne (hrec4 y (List.mem_append_left _ (List.mem_filter.mp hy).1)))

/-- **UNLOCK releasing a hold** (`RemoveLock`, the record freed if nothing refers to it any more, the key record reclaimed if that
was its last record), then the wake pass -/
theorem sim_unlock_release (s : DB) (hq : DBQ s) (c : Engine.Cmd) (data : Option Bytes) (h : Nat) (c' : Engine.Cmd)
    (hcls : classifyUnlock s c = .release h c')
    (hwq : WQ (s.getKey c.key)) (hki : Engine.KeyInv (Key.abs (s.getKey c.key))) (hnd : ((Key.abs (s.getKey c.key)).holders.map (·.hid)).Nodup)
    (hfl : (Key.abs (s.getKey c.key)).waited = true → (Key.abs (s.getKey c.key)).waiters ≠ [])
    (m m' : Bool) :
    Equiv (Engine2.abs (applyUnlock s c data (.release h c')).commit)
      (Engine.applyUnlock (Engine2.abs s) { c with mgr := m } (.release (holdOf (s.getKey c.key) h) { c' with mgr := m' })).1 ∧
    (applyUnlock s c data (.release h c')).out.map (·.r) =
      (Engine.applyUnlock (Engine2.abs s) { c with mgr := m } (.release (holdOf (s.getKey c.key) h) { c' with mgr := m' })).2 := by
  have hdbi := hq.dbt.dbi
  have ht := hq.dbt.tight
  have hkabs := abs_getKey s hdbi.kn c.key
  have ge := Good.openKey hdbi ht c.key
  have le := ge.lv
  have ce := cur_openKey ht c.key
  have hm : h ∈ (s.openKey c.key).k.current.toList ++ (s.openKey c.key).k.locks := classifyUnlock_holder s c h (by rw [hcls]; rfl)
  have hd : 0 < ((s.openKey c.key).k.getR h).depth := classifyUnlock_release_depth s c c' h hcls (cur_getKey ht c.key)
  have hh := hasRec_of_holder le h hm
  have hgone0 : (s.openKey c.key).gone = false := by
    cases hg : (s.openKey c.key).gone with
    | false => rfl
    | true =>
      have hk : s.hasKey c.key = false := by simpa [DB.openKey] using hg
      have : (s.openKey c.key).k.recs = [] := by
        show (s.getKey c.key).recs = []
        rw [getKey_of_not_hasKey s c.key hk]; rfl
      exact absurd this (recs_ne_of_hasRec hh)
  obtain ⟨l4, c4, hh4, l5, n5, c5⟩ := release_chain ge ce h hh hd c' (frameOf c' data) ((s.openKey c.key).k.getR h).depth (has c'.flag Slock.Engine.F_FROM_AOF) _ rfl _ rfl
  have tx := release_tight ge ce h hh hd c' (frameOf c' data) ((s.openKey c.key).k.getR h).depth (has c'.flag Slock.Engine.F_FROM_AOF) _ rfl _ rfl
  obtain ⟨sx, ph, hl4, hnd4, hw4, hlk4, hrm, hrec4⟩ := release_pre s hq c data h c' hm hd hh l4 hh4 hwq hnd
  obtain ⟨q1, q2, q3⟩ := queues_eq sx.q
  have pt4 : PKeep (·.timeouted) ((((((s.openKey c.key).modR h (fun r => { r with expried := true })).modK (fun k => { k with locked := k.locked - ((s.openKey c.key).k.getR h).depth })).procData .unlock c' (frameOf c' data) h).dropLongE h).journalUnlock h (has c'.flag Slock.Engine.F_FROM_AOF) false 0).k (s.openKey c.key).k := ⟨ph.sub, fun y hy => congrArg (fun t => t.2.2) (ph.val y hy)⟩
  have hm4 : h ∈ ((((((s.openKey c.key).modR h (fun r => { r with expried := true })).modK (fun k => { k with locked := k.locked - ((s.openKey c.key).k.getR h).depth })).procData .unlock c' (frameOf c' data) h).dropLongE h).journalUnlock h (has c'.flag Slock.Engine.F_FROM_AOF) false 0).k.current.toList ++ ((((((s.openKey c.key).modR h (fun r => { r with expried := true })).modK (fun k => { k with locked := k.locked - ((s.openKey c.key).k.getR h).depth })).procData .unlock c' (frameOf c' data) h).dropLongE h).journalUnlock h (has c'.flag Slock.Engine.F_FROM_AOF) false 0).k.locks := by rw [q1, q2]; exact hm
  have sep4 : ∀ e ∈ ((((((s.openKey c.key).modR h (fun r => { r with expried := true })).modK (fun k => { k with locked := k.locked - ((s.openKey c.key).k.getR h).depth })).procData .unlock c' (frameOf c' data) h).dropLongE h).journalUnlock h (has c'.flag Slock.Engine.F_FROM_AOF) false 0).k.wait, ((((((s.openKey c.key).modR h (fun r => { r with expried := true })).modK (fun k => { k with locked := k.locked - ((s.openKey c.key).k.getR h).depth })).procData .unlock c' (frameOf c' data) h).dropLongE h).journalUnlock h (has c'.flag Slock.Engine.F_FROM_AOF) false 0).k.deadWaiter e.rid = false → e.rid ∉ ((((((s.openKey c.key).modR h (fun r => { r with expried := true })).modK (fun k => { k with locked := k.locked - ((s.openKey c.key).k.getR h).depth })).procData .unlock c' (frameOf c' data) h).dropLongE h).journalUnlock h (has c'.flag Slock.Engine.F_FROM_AOF) false 0).k.current.toList ++ ((((((s.openKey c.key).modR h (fun r => { r with expried := true })).modK (fun k => { k with locked := k.locked - ((s.openKey c.key).k.getR h).depth })).procData .unlock c' (frameOf c' data) h).dropLongE h).journalUnlock h (has c'.flag Slock.Engine.F_FROM_AOF) false 0).k.locks := by
    intro e he hde
    rw [q1, q2]
    rw [q3] at he
    have : ((((((s.openKey c.key).modR h (fun r => { r with expried := true })).modK (fun k => { k with locked := k.locked - ((s.openKey c.key).k.getR h).depth })).procData .unlock c' (frameOf c' data) h).dropLongE h).journalUnlock h (has c'.flag Slock.Engine.F_FROM_AOF) false 0).k.deadWaiter e.rid = (s.openKey c.key).k.deadWaiter e.rid :=
      pt4.val e.rid (hrec4 e.rid (List.mem_append_right _ (List.mem_map.mpr ⟨e, he, rfl⟩)))
    exact hwq.sep e he (this.symm.trans hde)
  have hrec5 : ∀ y ∈ ((((((s.openKey c.key).modR h (fun r => { r with expried := true })).modK (fun k => { k with locked := k.locked - ((s.openKey c.key).k.getR h).depth })).procData .unlock c' (frameOf c' data) h).dropLongE h).journalUnlock h (has c'.flag Slock.Engine.F_FROM_AOF) false 0).k.wait.map (·.rid), (((((((s.openKey c.key).modR h (fun r => { r with expried := true })).modK (fun k => { k with locked := k.locked - ((s.openKey c.key).k.getR h).depth })).procData .unlock c' (frameOf c' data) h).dropLongE h).journalUnlock h (has c'.flag Slock.Engine.F_FROM_AOF) false 0).k.removeLock h).hasRec y := by
    intro y hy
    obtain ⟨e, he, hey⟩ := List.mem_map.mp hy
    have := wait_hasRec l5 e (by show e ∈ (((((((s.openKey c.key).modR h (fun r => { r with expried := true })).modK (fun k => { k with locked := k.locked - ((s.openKey c.key).k.getR h).depth })).procData .unlock c' (frameOf c' data) h).dropLongE h).journalUnlock h (has c'.flag Slock.Engine.F_FROM_AOF) false 0).k.removeLock h).wait; rw [removeLock_wait]; exact he)
    rw [← hey]; exact this
  have habs5 : Key.abs (((((((s.openKey c.key).modR h (fun r => { r with expried := true })).modK (fun k => { k with locked := k.locked - ((s.openKey c.key).k.getR h).depth })).procData .unlock c' (frameOf c' data) h).dropLongE h).journalUnlock h (has c'.flag Slock.Engine.F_FROM_AOF) false 0).modK (·.removeLock h)).k = keyRel (Key.abs (s.getKey c.key)) (holdOf (s.getKey c.key) h) := by
    show Key.abs (((((((s.openKey c.key).modR h (fun r => { r with expried := true })).modK (fun k => { k with locked := k.locked - ((s.openKey c.key).k.getR h).depth })).procData .unlock c' (frameOf c' data) h).dropLongE h).journalUnlock h (has c'.flag Slock.Engine.F_FROM_AOF) false 0).k.removeLock h) = _
    rw [abs_removeLock ((((((s.openKey c.key).modR h (fun r => { r with expried := true })).modK (fun k => { k with locked := k.locked - ((s.openKey c.key).k.getR h).depth })).procData .unlock c' (frameOf c' data) h).dropLongE h).journalUnlock h (has c'.flag Slock.Engine.F_FROM_AOF) false 0).k h hm4 hl4 hh4 c4 hnd4 sep4 hrec5, hrm]
    refine abs_ext sx.key ?_ rfl hw4 sx.waited
    show ((((((s.openKey c.key).modR h (fun r => { r with expried := true })).modK (fun k => { k with locked := k.locked - ((s.openKey c.key).k.getR h).depth })).procData .unlock c' (frameOf c' data) h).dropLongE h).journalUnlock h (has c'.flag Slock.Engine.F_FROM_AOF) false 0).k.locked = _
    rw [hlk4]; rfl
  have hmem1 := mem_abs_holders hm (by unfold Key.liveHolder; simp only [decide_eq_true_eq]; exact hd : (s.openKey c.key).k.liveHolder h = true)
  have hki1 : Engine.KeyInv (keyRel (Key.abs (s.getKey c.key)) (holdOf (s.getKey c.key) h)) := Engine.release_inv hki hmem1
  have hfl1 : (keyRel (Key.abs (s.getKey c.key)) (holdOf (s.getKey c.key) h)).waited = true → (keyRel (Key.abs (s.getKey c.key)) (holdOf (s.getKey c.key) h)).waiters ≠ [] := hfl
  -- queues and the other records after `RemoveLock`
  have hwait5 : (((((((s.openKey c.key).modR h (fun r => { r with expried := true })).modK (fun k => { k with locked := k.locked - ((s.openKey c.key).k.getR h).depth })).procData .unlock c' (frameOf c' data) h).dropLongE h).journalUnlock h (has c'.flag Slock.Engine.F_FROM_AOF) false 0).modK (·.removeLock h)).k.wait = (s.openKey c.key).k.wait := (removeLock_wait _ h).trans q3
  have px5 : PKeepX πA (· = h) (((((((s.openKey c.key).modR h (fun r => { r with expried := true })).modK (fun k => { k with locked := k.locked - ((s.openKey c.key).k.getR h).depth })).procData .unlock c' (frameOf c' data) h).dropLongE h).journalUnlock h (has c'.flag Slock.Engine.F_FROM_AOF) false 0).modK (·.removeLock h)).k (s.openKey c.key).k := (removeLock_others _ h).trans sx.p
  have pt5 : PKeep (·.timeouted) (((((((s.openKey c.key).modR h (fun r => { r with expried := true })).modK (fun k => { k with locked := k.locked - ((s.openKey c.key).k.getR h).depth })).procData .unlock c' (frameOf c' data) h).dropLongE h).journalUnlock h (has c'.flag Slock.Engine.F_FROM_AOF) false 0).modK (·.removeLock h)).k (s.openKey c.key).k := (PKeep.removeLock ins_timeouted (fun _ _ => rfl) _ h).trans pt4
  have hsub5 : ∀ y, y ∈ (((((((s.openKey c.key).modR h (fun r => { r with expried := true })).modK (fun k => { k with locked := k.locked - ((s.openKey c.key).k.getR h).depth })).procData .unlock c' (frameOf c' data) h).dropLongE h).journalUnlock h (has c'.flag Slock.Engine.F_FROM_AOF) false 0).modK (·.removeLock h)).k.current.toList ++ (((((((s.openKey c.key).modR h (fun r => { r with expried := true })).modK (fun k => { k with locked := k.locked - ((s.openKey c.key).k.getR h).depth })).procData .unlock c' (frameOf c' data) h).dropLongE h).journalUnlock h (has c'.flag Slock.Engine.F_FROM_AOF) false 0).modK (·.removeLock h)).k.locks → y ∈ (s.openKey c.key).k.current.toList ++ (s.openKey c.key).k.locks := by
    intro y hy
    have := removeLock_sub _ h y hy
    rw [q1, q2] at this; exact this
  have cn5 : CurNone (((((((s.openKey c.key).modR h (fun r => { r with expried := true })).modK (fun k => { k with locked := k.locked - ((s.openKey c.key).k.getR h).depth })).procData .unlock c' (frameOf c' data) h).dropLongE h).journalUnlock h (has c'.flag Slock.Engine.F_FROM_AOF) false 0).modK (·.removeLock h)).k := ((qi_getKey hq.qi c.key).cn.of_cl q1 q2).removeLock h
  have hdeadh : ∀ x ∈ (s.openKey c.key).k.wait, x.rid = h → (s.openKey c.key).k.deadWaiter h = true := by
    intro x hx hxe
    cases hdd : (s.openKey c.key).k.deadWaiter h with
    | true => rfl
    | false => exact absurd hm (hxe ▸ hwq.sep x hx (by rw [hxe]; exact hdd))
  have sc5 : SC (s.openKey c.key) (((((((s.openKey c.key).modR h (fun r => { r with expried := true })).modK (fun k => { k with locked := k.locked - ((s.openKey c.key).k.getR h).depth })).procData .unlock c' (frameOf c' data) h).dropLongE h).journalUnlock h (has c'.flag Slock.Engine.F_FROM_AOF) false 0).modK (·.removeLock h)) :=
    ((((((SC.modR _ _ _).trans (SC.modK _ _)).trans (SC.procData _ _ _ _ _)).trans (SC.dropLongE _ _)).trans (SC.journalUnlock _ _ _ _ _))).trans
      (SC.modK _ _)
  have hgone5 : (((((((s.openKey c.key).modR h (fun r => { r with expried := true })).modK (fun k => { k with locked := k.locked - ((s.openKey c.key).k.getR h).depth })).procData .unlock c' (frameOf c' data) h).dropLongE h).journalUnlock h (has c'.flag Slock.Engine.F_FROM_AOF) false 0).modK (·.removeLock h)).gone = false := sc5.gone.trans hgone0
  have hwqOf : ∀ (k' : Key), k'.wait = (s.openKey c.key).k.wait → PKeepX πA (· = h) k' (s.openKey c.key).k → PKeep (·.timeouted) k' (s.openKey c.key).k →
      (∀ x ∈ k'.wait, k'.hasRec x.rid) → (∀ y, y ∈ k'.current.toList ++ k'.locks → y ∈ (s.openKey c.key).k.current.toList ++ (s.openKey c.key).k.locks) → WQ k' := by
    intro k' e1 e2 e3 e4 e5
    refine WQ.step (k := (s.openKey c.key).k) hwq h e1 e2 e4 ?_ (fun y hy => Or.inl (e5 y hy))
    intro x hx hxe
    have := e3.val h (hxe ▸ e4 x hx)
    exact this.trans (hdeadh x (e1 ▸ hx) hxe)
  have relX : Rel ((((((((s.openKey c.key).modR h (fun r => { r with expried := true })).modK (fun k => { k with locked := k.locked - ((s.openKey c.key).k.getR h).depth })).procData .unlock c' (frameOf c' data) h).dropLongE h).journalUnlock h (has c'.flag Slock.Engine.F_FROM_AOF) false 0).modK (·.removeLock h)).when ((((((s.openKey c.key).modR h (fun r => { r with expried := true })).modK (fun k => { k with locked := k.locked - ((s.openKey c.key).k.getR h).depth })).procData .unlock c' (frameOf c' data) h).k.getR h).eLong && ((((((((s.openKey c.key).modR h (fun r => { r with expried := true })).modK (fun k => { k with locked := k.locked - ((s.openKey c.key).k.getR h).depth })).procData .unlock c' (frameOf c' data) h).dropLongE h).journalUnlock h (has c'.flag Slock.Engine.F_FROM_AOF) false 0).modK (·.removeLock h)).k.getR h).refCount == 0) (·.freeCheck h)) (Engine2.abs s) (keyRel (Key.abs (s.getKey c.key)) (holdOf (s.getKey c.key) h)) [] := by
    cases hc : ((((((s.openKey c.key).modR h (fun r => { r with expried := true })).modK (fun k => { k with locked := k.locked - ((s.openKey c.key).k.getR h).depth })).procData .unlock c' (frameOf c' data) h).k.getR h).eLong && ((((((((s.openKey c.key).modR h (fun r => { r with expried := true })).modK (fun k => { k with locked := k.locked - ((s.openKey c.key).k.getR h).depth })).procData .unlock c' (frameOf c' data) h).dropLongE h).journalUnlock h (has c'.flag Slock.Engine.F_FROM_AOF) false 0).modK (·.removeLock h)).k.getR h).refCount == 0) with
    | false =>
      rw [hc] at tx
      have g5 := (show Tight (((((((s.openKey c.key).modR h (fun r => { r with expried := true })).modK (fun k => { k with locked := k.locked - ((s.openKey c.key).k.getR h).depth })).procData .unlock c' (frameOf c' data) h).dropLongE h).journalUnlock h (has c'.flag Slock.Engine.F_FROM_AOF) false 0).modK (·.removeLock h)) from tx).good hgone5
      show Rel (((((((s.openKey c.key).modR h (fun r => { r with expried := true })).modK (fun k => { k with locked := k.locked - ((s.openKey c.key).k.getR h).depth })).procData .unlock c' (frameOf c' data) h).dropLongE h).journalUnlock h (has c'.flag Slock.Engine.F_FROM_AOF) false 0).modK (·.removeLock h)) _ _ _
      exact Rel.of_live hgone5 (sc5.scal (scal_openKey s c.key)) (by rw [sc5.out]; rfl) hki1
        ⟨g5, c5, cn5, hwqOf _ hwait5 px5 pt5 (wait_hasRec l5) hsub5, habs5⟩
    | true =>
      show Rel ((((((((s.openKey c.key).modR h (fun r => { r with expried := true })).modK (fun k => { k with locked := k.locked - ((s.openKey c.key).k.getR h).depth })).procData .unlock c' (frameOf c' data) h).dropLongE h).journalUnlock h (has c'.flag Slock.Engine.F_FROM_AOF) false 0).modK (·.removeLock h)).modK (·.free h)).removeIfZero _ _ _
      have hz : (((((((((s.openKey c.key).modR h (fun r => { r with expried := true })).modK (fun k => { k with locked := k.locked - ((s.openKey c.key).k.getR h).depth })).procData .unlock c' (frameOf c' data) h).dropLongE h).journalUnlock h (has c'.flag Slock.Engine.F_FROM_AOF) false 0).modK (·.removeLock h)).k.qRefs h : Int)) + zero h ≤ 0 := by
        simp only [zero, Int.add_zero]
        by_cases hx : (((((((s.openKey c.key).modR h (fun r => { r with expried := true })).modK (fun k => { k with locked := k.locked - ((s.openKey c.key).k.getR h).depth })).procData .unlock c' (frameOf c' data) h).dropLongE h).journalUnlock h (has c'.flag Slock.Engine.F_FROM_AOF) false 0).modK (·.removeLock h)).k.hasRec h
        · have := l5.rc.refCount_of hx
          have hz : ((((((((s.openKey c.key).modR h (fun r => { r with expried := true })).modK (fun k => { k with locked := k.locked - ((s.openKey c.key).k.getR h).depth })).procData .unlock c' (frameOf c' data) h).dropLongE h).journalUnlock h (has c'.flag Slock.Engine.F_FROM_AOF) false 0).modK (·.removeLock h)).k.getR h).refCount = 0 := by
            simp only [Bool.and_eq_true, beq_iff_eq] at hc; exact hc.2
          rw [hz] at this; simp only [zero] at this; omega
        · apply Classical.byContradiction
          intro hn
          exact hx (l5.rc.dang h (by simp only [zero]; omega))
      have l6 : Lv ((((((((s.openKey c.key).modR h (fun r => { r with expried := true })).modK (fun k => { k with locked := k.locked - ((s.openKey c.key).k.getR h).depth })).procData .unlock c' (frameOf c' data) h).dropLongE h).journalUnlock h (has c'.flag Slock.Engine.F_FROM_AOF) false 0).modK (·.removeLock h)).modK (·.free h)) zero := l5.modK _ (l5.rc.free h hz) (RecsLe.free _ _)
      have n6 : Nz ((((((((s.openKey c.key).modR h (fun r => { r with expried := true })).modK (fun k => { k with locked := k.locked - ((s.openKey c.key).k.getR h).depth })).procData .unlock c' (frameOf c' data) h).dropLongE h).journalUnlock h (has c'.flag Slock.Engine.F_FROM_AOF) false 0).modK (·.removeLock h)).modK (·.free h)) none := ⟨n5.nd.free h, NZx.free_clear h n5.nz⟩
      have c6 : CurLive ((((((((s.openKey c.key).modR h (fun r => { r with expried := true })).modK (fun k => { k with locked := k.locked - ((s.openKey c.key).k.getR h).depth })).procData .unlock c' (frameOf c' data) h).dropLongE h).journalUnlock h (has c'.flag Slock.Engine.F_FROM_AOF) false 0).modK (·.removeLock h)).modK (·.free h)).k := c5.of_dk (dk_modK _ _ (DepthKeep.free _ _)) l6
      obtain ⟨f1, f2, f3, f4, _⟩ := free_queues (((((((s.openKey c.key).modR h (fun r => { r with expried := true })).modK (fun k => { k with locked := k.locked - ((s.openKey c.key).k.getR h).depth })).procData .unlock c' (frameOf c' data) h).dropLongE h).journalUnlock h (has c'.flag Slock.Engine.F_FROM_AOF) false 0).modK (·.removeLock h)).k h
      have hq6 : ((((((((s.openKey c.key).modR h (fun r => { r with expried := true })).modK (fun k => { k with locked := k.locked - ((s.openKey c.key).k.getR h).depth })).procData .unlock c' (frameOf c' data) h).dropLongE h).journalUnlock h (has c'.flag Slock.Engine.F_FROM_AOF) false 0).modK (·.removeLock h)).modK (·.free h)).k.queues = (((((((s.openKey c.key).modR h (fun r => { r with expried := true })).modK (fun k => { k with locked := k.locked - ((s.openKey c.key).k.getR h).depth })).procData .unlock c' (frameOf c' data) h).dropLongE h).journalUnlock h (has c'.flag Slock.Engine.F_FROM_AOF) false 0).modK (·.removeLock h)).k.queues := queues_mk f3 f1 f2
      have habs6 : Key.abs ((((((((s.openKey c.key).modR h (fun r => { r with expried := true })).modK (fun k => { k with locked := k.locked - ((s.openKey c.key).k.getR h).depth })).procData .unlock c' (frameOf c' data) h).dropLongE h).journalUnlock h (has c'.flag Slock.Engine.F_FROM_AOF) false 0).modK (·.removeLock h)).modK (·.free h)).k = Key.abs (((((((s.openKey c.key).modR h (fun r => { r with expried := true })).modK (fun k => { k with locked := k.locked - ((s.openKey c.key).k.getR h).depth })).procData .unlock c' (frameOf c' data) h).dropLongE h).journalUnlock h (has c'.flag Slock.Engine.F_FROM_AOF) false 0).modK (·.removeLock h)).k := by
        refine abs_eq_x (X := (· = h)) ?_ (free_locked _ _) f4 hq6 (PKeepX.of_pk (PKeep.free _ _)) ?_ ?_
        · show ((((((((s.openKey c.key).modR h (fun r => { r with expried := true })).modK (fun k => { k with locked := k.locked - ((s.openKey c.key).k.getR h).depth })).procData .unlock c' (frameOf c' data) h).dropLongE h).journalUnlock h (has c'.flag Slock.Engine.F_FROM_AOF) false 0).modK (·.removeLock h)).k.free h).key = (((((((s.openKey c.key).modR h (fun r => { r with expried := true })).modK (fun k => { k with locked := k.locked - ((s.openKey c.key).k.getR h).depth })).procData .unlock c' (frameOf c' data) h).dropLongE h).journalUnlock h (has c'.flag Slock.Engine.F_FROM_AOF) false 0).modK (·.removeLock h)).k.key
          unfold Key.free; split <;> rfl
        · intro y hy e
          have := qRefs_pos_of_any _ y hy
          rw [e] at this
          simp only [zero, Int.add_zero] at hz
          omega
        · intro y hy
          apply l6.rc.dang
          have := qRefs_pos_of_any _ y hy
          have h0 := qRefs_of_queues hq6 y
          show 0 < (((((((((s.openKey c.key).modR h (fun r => { r with expried := true })).modK (fun k => { k with locked := k.locked - ((s.openKey c.key).k.getR h).depth })).procData .unlock c' (frameOf c' data) h).dropLongE h).journalUnlock h (has c'.flag Slock.Engine.F_FROM_AOF) false 0).modK (·.removeLock h)).modK (·.free h)).k.qRefs y : Int) + 0
          omega
      have hsub6 : ∀ y, y ∈ ((((((((s.openKey c.key).modR h (fun r => { r with expried := true })).modK (fun k => { k with locked := k.locked - ((s.openKey c.key).k.getR h).depth })).procData .unlock c' (frameOf c' data) h).dropLongE h).journalUnlock h (has c'.flag Slock.Engine.F_FROM_AOF) false 0).modK (·.removeLock h)).modK (·.free h)).k.current.toList ++ ((((((((s.openKey c.key).modR h (fun r => { r with expried := true })).modK (fun k => { k with locked := k.locked - ((s.openKey c.key).k.getR h).depth })).procData .unlock c' (frameOf c' data) h).dropLongE h).journalUnlock h (has c'.flag Slock.Engine.F_FROM_AOF) false 0).modK (·.removeLock h)).modK (·.free h)).k.locks → y ∈ (s.openKey c.key).k.current.toList ++ (s.openKey c.key).k.locks := by
        intro y hy
        apply hsub5
        show y ∈ (((((((s.openKey c.key).modR h (fun r => { r with expried := true })).modK (fun k => { k with locked := k.locked - ((s.openKey c.key).k.getR h).depth })).procData .unlock c' (frameOf c' data) h).dropLongE h).journalUnlock h (has c'.flag Slock.Engine.F_FROM_AOF) false 0).modK (·.removeLock h)).k.current.toList ++ (((((((s.openKey c.key).modR h (fun r => { r with expried := true })).modK (fun k => { k with locked := k.locked - ((s.openKey c.key).k.getR h).depth })).procData .unlock c' (frameOf c' data) h).dropLongE h).journalUnlock h (has c'.flag Slock.Engine.F_FROM_AOF) false 0).modK (·.removeLock h)).k.locks
        rw [← f3, ← f1]; exact hy
      have rel6 : Rel ((((((((s.openKey c.key).modR h (fun r => { r with expried := true })).modK (fun k => { k with locked := k.locked - ((s.openKey c.key).k.getR h).depth })).procData .unlock c' (frameOf c' data) h).dropLongE h).journalUnlock h (has c'.flag Slock.Engine.F_FROM_AOF) false 0).modK (·.removeLock h)).modK (·.free h)) (Engine2.abs s) (keyRel (Key.abs (s.getKey c.key)) (holdOf (s.getKey c.key) h)) [] :=
        Rel.of_live hgone5 (sc5.scal (scal_openKey s c.key)) (by show (((((((s.openKey c.key).modR h (fun r => { r with expried := true })).modK (fun k => { k with locked := k.locked - ((s.openKey c.key).k.getR h).depth })).procData .unlock c' (frameOf c' data) h).dropLongE h).journalUnlock h (has c'.flag Slock.Engine.F_FROM_AOF) false 0).modK (·.removeLock h)).out.map (·.r) = []; rw [sc5.out]; rfl) hki1
          ⟨⟨l6, n6⟩, c6, cn5.of_cl f3 f1, hwqOf _ (f2.trans hwait5) ((PKeepX.of_pk (PKeep.free _ _)).trans px5)
            ((PKeep.free _ _).trans pt5) (wait_hasRec l6) hsub6, habs6.trans habs5⟩
      exact rel6.removeIfZero hfl1
  have rel7 := (relX.ctr (ctrRel ((s.openKey c.key).k.getR h).depth)).reply c' Engine.RESULT_SUCCED 0 (s.openKey c.key).lockData
  obtain ⟨r1, r2, r3⟩ := rel7.wake
  have hfin := sim_unlock_finish s hq c data (.release h c') _ _ (by rw [Engine.wake_keys]) (by rw [Engine.wake_key]; exact getKey_key _ _) r1 r2 hcls
  unfold Engine.applyUnlock
  simp only []
  rw [hkabs]
  exact ⟨hfin, r3⟩

end Slock.Sim
