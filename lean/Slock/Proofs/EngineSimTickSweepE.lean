import Slock.Proofs.EngineSimTickStepE
import Slock.Proofs.EngineSimTickSweepT
/-! Clock-tick simulation (`sim_tick`): **the expiry sweep** `checkTimeExpried(c, now)` of the record-level model ON THE LEADER (no
follower-side deferral) is stage 1's `sweepExpire`. -/
namespace Slock.SimTick
open Slock Slock.Sim Slock.Engine2
open Slock.Engine (has sortBySeq)

structure StabE (ids : List (Nat × Nat)) (s' s : DB) : Prop where
  pe : ∀ e x, PE s e x → PE s' e x
  lv : ∀ e, eid e ∉ ids → liveE s' e = liveE s e ∧ (liveE s e = true → viewE s' e = viewE s e)

theorem StabE.refl (ids : List (Nat × Nat)) (s : DB) : StabE ids s s := ⟨fun _ _ h => h, fun _ _ => ⟨rfl, fun _ => rfl⟩⟩

theorem StabE.trans {i1 i2 : List (Nat × Nat)} {s s' s'' : DB} (h2 : StabE i2 s'' s') (h1 : StabE i1 s' s) : StabE (i1 ++ i2) s'' s := by
  refine ⟨fun e w h => h2.pe e w (h1.pe e w h), fun e he => ?_⟩
  have a1 := h1.lv e (fun hm => he (List.mem_append_left _ hm))
  have a2 := h2.lv e (fun hm => he (List.mem_append_right _ hm))
  refine ⟨a2.1.trans a1.1, fun hl => ?_⟩
  rw [a2.2 (a1.1.trans hl), a1.2 hl]

theorem stabE_step {s s' : DB} {e0 : Ent} (F : WFD e0.key e0.rid s' s) (hseq : s.seq ≤ s'.seq) (sy : Sy s) (sy' : Sy s') (hc : HC s' s) :
    StabE [eid e0] s' s := by
  refine ⟨fun e x h => pe_step F hseq sy sy' h, fun e he => ?_⟩
  have hne : eid e ≠ eid e0 := fun h => he (by rw [h]; simp)
  exact liveE_step hne F sy sy' hc

theorem pendE_congr {ids : List (Nat × Nat)} {s s' : DB} (st : StabE ids s' s) (L : List Ent) (hL : ∀ e ∈ L, eid e ∉ ids) :
    (L.filter (liveE s')).map (viewE s') = (L.filter (liveE s)).map (viewE s) := by
  apply filter_map_congr_on
  intro e he
  obtain ⟨a1, a2⟩ := st.lv e (hL e he)
  exact ⟨a1, a2⟩

/-- **pass 1 of the expiry sweep** -/
theorem pass1E (L2 : List Ent) : ∀ (x2 : DB × List Ent) (x1 : Engine.DB × List Engine.Hold),
    Sy x2.1 → I1 x1.1 → Equiv (Engine2.abs x2.1) x1.1 → (L2.map eid).Nodup →
    ∃ PP : List (Ent × Engine.Hold),
      (L2.foldl (expireStep true) x2).2 = x2.2 ++ PP.map (·.1) ∧
      (((L2.filter (liveE x2.1)).map (viewE x2.1)).foldl Engine.expireStep x1).2 = x1.2 ++ PP.map (·.2) ∧
      Sy (L2.foldl (expireStep true) x2).1 ∧
      I1 (((L2.filter (liveE x2.1)).map (viewE x2.1)).foldl Engine.expireStep x1).1 ∧
      Equiv (Engine2.abs (L2.foldl (expireStep true) x2).1) (((L2.filter (liveE x2.1)).map (viewE x2.1)).foldl Engine.expireStep x1).1 ∧
      (∀ p ∈ PP, PE (L2.foldl (expireStep true) x2).1 p.1 p.2) ∧
      StabE (L2.map eid) (L2.foldl (expireStep true) x2).1 x2.1 ∧
      (L2.foldl (expireStep true) x2).1.leader = x2.1.leader := by
  induction L2 with
  | nil =>
    intro x2 x1 sy i1 he _
    exact ⟨[], by simp, by simp, sy, i1, he, by simp, StabE.refl _ _, rfl⟩
  | cons e0 rest ih =>
    intro x2 x1 sy i1 he hnd
    obtain ⟨s, C2⟩ := x2
    obtain ⟨a, C1⟩ := x1
    simp only [List.map_cons, List.nodup_cons] at hnd
    have sy' := expireStep_sy true s C2 e0 sy
    have F := expireStep_wfd true s C2 e0 sy.dbq
    have hsq := expireStep_seq true s C2 e0
    have hldr := expireStep_leader true s C2 e0
    have hrest : ∀ e ∈ rest, eid e ∉ [eid e0] := by
      intro e hem h
      simp only [List.mem_singleton] at h
      exact hnd.1 (h ▸ List.mem_map.mpr ⟨e, hem, rfl⟩)
    simp only [List.foldl_cons]
    cases hl : liveE s e0 with
    | false =>
      obtain ⟨e1, ec, hc⟩ := passE_dead s a C2 e0 sy i1 he hl true
      have st1 := stabE_step F hsq sy sy' hc
      have hlist : ((e0 :: rest).filter (liveE s)).map (viewE s) = (rest.filter (liveE (expireStep true (s, C2) e0).1)).map (viewE (expireStep true (s, C2) e0).1) := by
        rw [pendE_congr st1 rest hrest]
        simp [List.filter, hl]
      obtain ⟨PP, h1, h2, h3, h4, h5, h6, h7, h8⟩ := ih (expireStep true (s, C2) e0) (a, C1) sy' i1 e1 hnd.2
      rw [hlist]
      exact ⟨PP, by rw [h1, ec], h2, h3, h4, h5, h6, h7.trans st1, h8.trans hldr⟩
    | true =>
      obtain ⟨e1, hc, hcs⟩ := pass1E_live s a C2 C1 e0 sy i1 he hl
      have st1 := stabE_step F hsq sy sy' hc
      have i1' := expireStep_i1 (a, C1) (viewE s e0) i1
      have hlist : ((e0 :: rest).filter (liveE s)).map (viewE s) =
          viewE s e0 :: (rest.filter (liveE (expireStep true (s, C2) e0).1)).map (viewE (expireStep true (s, C2) e0).1) := by
        rw [pendE_congr st1 rest hrest]
        simp [List.filter, hl]
      obtain ⟨PP, h1, h2, h3, h4, h5, h6, h7, h8⟩ := ih (expireStep true (s, C2) e0) (Engine.expireStep (a, C1) (viewE s e0)) sy' i1' e1 hnd.2
      rw [hlist]
      simp only [List.foldl_cons]
      rcases hcs with ⟨c1, c2⟩ | ⟨c0, c1, c2⟩
      · exact ⟨PP, by rw [h1, c1], by rw [h2, c2], h3, h4, h5, h6, h7.trans st1, h8.trans hldr⟩
      · refine ⟨(e0, viewE s e0) :: PP, by rw [h1, c1]; simp, by rw [h2, c2]; simp, h3, h4, h5, ?_, h7.trans st1, h8.trans hldr⟩
        intro p hp
        rcases List.mem_cons.mp hp with hp | hp
        · rw [hp]
          exact h7.pe _ _ (st1.pe _ _ (PE.of_live sy (k1_of_equiv sy he i1 e0.key) hl))
        · exact h6 p hp

/-- **the long-table pass of the expiry sweep**: live holds are collected (no change), ended ones dropped (stuttering) -/
theorem passLE (L2 : List Ent) : ∀ (x2 : DB × List Ent) (a : Engine.DB),
    Sy x2.1 → I1 a → Equiv (Engine2.abs x2.1) a → (L2.map eid).Nodup →
    ∃ PP : List (Ent × Engine.Hold),
      (L2.foldl (expireStep false) x2).2 = x2.2 ++ PP.map (·.1) ∧
      (L2.filter (liveE x2.1)).map (viewE x2.1) = PP.map (·.2) ∧
      Sy (L2.foldl (expireStep false) x2).1 ∧
      Equiv (Engine2.abs (L2.foldl (expireStep false) x2).1) a ∧
      (∀ p ∈ PP, PE (L2.foldl (expireStep false) x2).1 p.1 p.2) ∧
      StabE (L2.map eid) (L2.foldl (expireStep false) x2).1 x2.1 ∧
      (L2.foldl (expireStep false) x2).1.leader = x2.1.leader := by
  induction L2 with
  | nil =>
    intro x2 a sy _ he _
    exact ⟨[], by simp, by simp, sy, he, by simp, StabE.refl _ _, rfl⟩
  | cons e0 rest ih =>
    intro x2 a sy i1 he hnd
    obtain ⟨s, C2⟩ := x2
    simp only [List.map_cons, List.nodup_cons] at hnd
    have hrest : ∀ e ∈ rest, eid e ∉ [eid e0] := by
      intro e hem h
      simp only [List.mem_singleton] at h
      exact hnd.1 (h ▸ List.mem_map.mpr ⟨e, hem, rfl⟩)
    simp only [List.foldl_cons]
    cases hl : liveE s e0 with
    | false =>
      have sy' := expireStep_sy false s C2 e0 sy
      have F := expireStep_wfd false s C2 e0 sy.dbq
      have hsq := expireStep_seq false s C2 e0
      have hldr := expireStep_leader false s C2 e0
      obtain ⟨e1, ec, hc⟩ := passE_dead s a C2 e0 sy i1 he hl false
      have st1 := stabE_step F hsq sy sy' hc
      have hlist : ((e0 :: rest).filter (liveE s)).map (viewE s) = (rest.filter (liveE (expireStep false (s, C2) e0).1)).map (viewE (expireStep false (s, C2) e0).1) := by
        rw [pendE_congr st1 rest hrest]
        simp [List.filter, hl]
      obtain ⟨PP, h1, h2, h3, h4, h5, h6, h7⟩ := ih (expireStep false (s, C2) e0) a sy' i1 e1 hnd.2
      rw [hlist]
      exact ⟨PP, by rw [h1, ec], h2, h3, h4, h5, h6.trans st1, h7.trans hldr⟩
    | true =>
      rw [passLE_live s C2 e0 hl]
      obtain ⟨PP, h1, h2, h3, h4, h5, h6, h7⟩ := ih (s, C2 ++ [e0]) a sy i1 he hnd.2
      have hlist : ((e0 :: rest).filter (liveE s)).map (viewE s) = viewE s e0 :: (rest.filter (liveE s)).map (viewE s) := by
        simp [List.filter, hl]
      rw [hlist]
      refine ⟨(e0, viewE s e0) :: PP, by rw [h1]; simp, by rw [h2]; simp, h3, h4, ?_, ?_, h7⟩
      · intro p hp
        rcases List.mem_cons.mp hp with hp | hp
        · rw [hp]
          exact h6.pe _ _ (PE.of_live sy (k1_of_equiv sy he i1 e0.key) hl)
        · exact h5 p hp
      · exact ⟨h6.pe, fun e hem => h6.lv e (fun hm => hem (List.mem_cons_of_mem _ hm))⟩

/-- **the firing phase of the expiry sweep** (on the leader) -/
theorem fireE_fold (PP : List (Ent × Engine.Hold)) : ∀ (x2 : DB × List Reply) (x1 : Engine.DB × List Engine.Reply),
    Sy x2.1 → I1 x1.1 → Equiv (Engine2.abs x2.1) x1.1 → x2.2.map (·.r) = x1.2 → (∀ p ∈ PP, PE x2.1 p.1 p.2) → x2.1.leader = true →
    Sy ((PP.map (·.1)).foldl fireExpireStep x2).1 ∧ I1 ((PP.map (·.2)).foldl Engine.fireExpireStep x1).1 ∧
    Equiv (Engine2.abs ((PP.map (·.1)).foldl fireExpireStep x2).1) ((PP.map (·.2)).foldl Engine.fireExpireStep x1).1 ∧
    ((PP.map (·.1)).foldl fireExpireStep x2).2.map (·.r) = ((PP.map (·.2)).foldl Engine.fireExpireStep x1).2 := by
  induction PP with
  | nil =>
    intro x2 x1 sy i1 he ho _ _
    exact ⟨sy, i1, he, ho⟩
  | cons p rest ih =>
    intro x2 x1 sy i1 he ho hpe hld
    obtain ⟨s, o2⟩ := x2
    obtain ⟨a, o1⟩ := x1
    obtain ⟨e0, w0⟩ := p
    simp only [List.map_cons, List.foldl_cons]
    have hk1 : ∀ n, K1 (s.getKey n) := fun n => k1_of_equiv sy he i1 n
    have pe0 : PE s e0 w0 := hpe (e0, w0) (by simp)
    obtain ⟨a1, a2⟩ := fireE_step_abs s o2 e0 w0 sy (hk1 e0.key) pe0 hld
    have ho' : o2.map (·.r) = o1 := ho
    rw [ho'] at a1 a2
    have b := fireExpireStep_congr (x := (Engine2.abs s, o1)) (y := (a, o1)) ⟨he, rfl⟩ w0
    have sy' := fireExpireStep_sy s o2 e0 sy
    have i1' := fireExpireStep_i1 (a, o1) w0 i1
    have F := fireExpireStep_wfd s o2 e0 sy.dbq sy.dbk sy.dbkt (hk1 e0.key) hld
    refine ih (fireExpireStep (s, o2) e0) (Engine.fireExpireStep (a, o1) w0) sy' i1' (a1.trans b.1) (a2.trans b.2) ?_ ((fireExpireStep_leader s o2 e0).trans hld)
    intro q hq
    exact pe_step F (fireExpireStep_seq s o2 e0) sy sy' (hpe q (List.mem_cons_of_mem _ hq))

theorem slotHolds_eq (a : Engine.DB) (c : Nat) :
    Engine.slotHolds a c = sortBySeq (·.sched.seq) ((Engine.allHolds a).filter (fun x => slotP c x.sched)) := rfl
theorem longHolds_eq (a : Engine.DB) (c : Nat) :
    Engine.longHolds a c = sortBySeq (·.sched.seq) ((Engine.allHolds a).filter (fun x => longP c x.sched)) := rfl

theorem sweepExpire2_eq (s : DB) (c : Nat) :
    sweepExpire s c = (((eEntries s (longP c)).foldl (expireStep false) ((eEntries s (slotP c)).foldl (expireStep true) (s, []))).2.foldl fireExpireStep
      (((eEntries s (longP c)).foldl (expireStep false) ((eEntries s (slotP c)).foldl (expireStep true) (s, []))).1, [])) := rfl

theorem sweepExpire1_eq (a : Engine.DB) (c : Nat) :
    Engine.sweepExpire a c = ((((Engine.slotHolds a c).foldl Engine.expireStep (a, [])).2 ++ Engine.longHolds a c).foldl Engine.fireExpireStep
      (((Engine.slotHolds a c).foldl Engine.expireStep (a, [])).1, [])) := rfl

theorem sim_sweepE (s : DB) (a : Engine.DB) (c : Nat) (sy : Sy s) (i1 : I1 a) (he : Equiv (Engine2.abs s) a) (hld : s.leader = true) :
    Sy (sweepExpire s c).1 ∧ I1 (Engine.sweepExpire a c).1 ∧ Equiv (Engine2.abs (sweepExpire s c).1) (Engine.sweepExpire a c).1 ∧
    (sweepExpire s c).2.map (·.r) = (Engine.sweepExpire a c).2 := by
  have hd := sy.dbq.dbt.dbi
  have hS : Engine.slotHolds a c = ((eEntries s (slotP c)).filter (liveE s)).map (viewE s) := by
    rw [slotHolds_eq]; exact corrE s sy a he i1 (slotP c)
  have hL : Engine.longHolds a c = ((eEntries s (longP c)).filter (liveE s)).map (viewE s) := by
    rw [longHolds_eq]; exact corrE s sy a he i1 (longP c)
  have nd1 : ((eEntries s (slotP c)).map eid).Nodup := by rw [eEntries_eq]; exact entries_nodup hd _
  have nd2 : ((eEntries s (longP c)).map eid).Nodup := by rw [eEntries_eq]; exact entries_nodup hd _
  have hdis : ∀ e ∈ eEntries s (longP c), eid e ∉ (eEntries s (slotP c)).map eid := by
    intro e hem hm
    obtain ⟨e', he', heq⟩ := List.mem_map.mp hm
    rw [eEntries_eq] at hem he'
    refine entries_disjoint hd (slotP c) (longP c) ?_ he' hem heq
    intro sc h1 h2
    unfold slotP at h1; unfold longP at h2
    simp only [Bool.and_eq_true, Bool.not_eq_true'] at h1 h2
    rw [h1.2] at h2; exact absurd h2.2 (by simp)
  obtain ⟨PP1, a1, a2, a3, a4, a5, a6, a7, a8⟩ := pass1E (eEntries s (slotP c)) (s, []) (a, []) sy i1 he nd1
  rw [← hS] at a2 a4 a5
  simp only [List.nil_append] at a1 a2
  have hlong : ((eEntries s (longP c)).filter (liveE ((eEntries s (slotP c)).foldl (expireStep true) (s, [])).1)).map
      (viewE ((eEntries s (slotP c)).foldl (expireStep true) (s, [])).1) = Engine.longHolds a c := by
    rw [hL]; exact pendE_congr a7 _ hdis
  obtain ⟨PP2, b1, b2, b3, b4, b5, b6, b7⟩ := passLE (eEntries s (longP c)) ((eEntries s (slotP c)).foldl (expireStep true) (s, []))
    ((Engine.slotHolds a c).foldl Engine.expireStep (a, [])).1 a3 a4 a5 nd2
  rw [hlong] at b2
  rw [sweepExpire2_eq, sweepExpire1_eq, b1, a1, a2, b2, ← List.map_append, ← List.map_append]
  refine fireE_fold (PP1 ++ PP2) _ _ b3 a4 b4 rfl ?_ (b7.trans (a8.trans hld))
  intro p hp
  rcases List.mem_append.mp hp with h | h
  · exact b6.pe _ _ (a6 p h)
  · exact b5 p h

end Slock.SimTick
