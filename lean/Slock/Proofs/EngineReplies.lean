import Slock.Proofs.EngineCount
/-! Conservation of request ids (C03): every issued request id is either still queued or has been answered exactly once. -/
namespace Slock.Engine

abbrev Rid := Nat × Nat   -- (connection, request id)

def Reply.rid (r : Reply) : Rid := (r.conn, r.req)
def Waiter.rid (w : Waiter) : Rid := (w.conn, w.cmd.req)

/-- terminal = anything but the asynchronous EXPRIED notice -/
def terminal (r : Reply) : Bool := r.result != RESULT_EXPRIED

/-- how many terminal replies in `out` carry the id `x` -/
def answered (x : Rid) (out : List Reply) : Int := ((out.filter terminal).map Reply.rid).count x

/-- how many queued requests of key `k` carry the id `x` -/
def queuedIn (x : Rid) (k : Key) : Int := (k.waiters.map Waiter.rid).count x

def queued (x : Rid) (ks : List Key) : Int := (ks.map (queuedIn x)).sum

@[simp] theorem answered_nil (x : Rid) : answered x [] = 0 := rfl
theorem answered_append (x : Rid) (a b : List Reply) : answered x (a ++ b) = answered x a + answered x b := by
  unfold answered; simp [List.filter_append, List.count_append]

theorem answered_single (x : Rid) (r : Reply) :
    answered x [r] = if terminal r = true ∧ r.rid = x then 1 else 0 := by
  unfold answered
  by_cases ht : terminal r = true
  · by_cases hx : r.rid = x
    · simp [List.filter, ht, hx]
    · simp [List.filter, ht, hx, List.count_cons]
  · have : terminal r = false := by simpa using ht
    simp [List.filter, this]

/-- generic census split (any key-indexed quantity that vanishes on empty keys) -/
theorem totF_setKey (f : Key → Int) (hf0 : ∀ n, f (emptyKey n) = 0) (hfe : ∀ k : Key, k.isEmpty = true → f k = 0)
    {db : DB} (h : KN db) (k : Key) :
    ((db.setKey k).keys.map f).sum = (db.keys.map f).sum - f (db.getKey k.key) + f k := by
  have hs := tot_split f db.keys k.key h
  unfold DB.setKey DB.getKey
  simp only []
  cases hfind : db.keys.find? (·.key == k.key) with
  | none =>
    rw [hfind] at hs; simp only [] at hs
    split
    · rename_i he; simp [hf0, hfe k he]; omega
    · simp [hf0]; omega
  | some k0 =>
    rw [hfind] at hs; simp only [] at hs
    split
    · rename_i he; simp [hfe k he]; omega
    · simp; omega

theorem queuedIn_empty (x : Rid) (n : Nat) : queuedIn x (emptyKey n) = 0 := rfl
theorem queuedIn_isEmpty (x : Rid) (k : Key) (h : k.isEmpty = true) : queuedIn x k = 0 := by
  have : k.waiters = [] := by unfold Key.isEmpty at h; simp at h; exact h.1.1.2
  unfold queuedIn; simp [this]

theorem queued_setKey (x : Rid) {db : DB} (h : KN db) (k : Key) :
    queued x (db.setKey k).keys = queued x db.keys - queuedIn x (db.getKey k.key) + queuedIn x k :=
  totF_setKey (queuedIn x) (queuedIn_empty x) (queuedIn_isEmpty x) h k

/-! ### wake pass: ids move from the queue to the reply list -/

theorem wakeIter_cons (x : Rid) {db : DB} {k : Key} {db' : DB} {k' : Key} {r : Reply}
    (h : wakeIter db k = some (db', k', r)) :
    answered x [r] + queuedIn x k' = queuedIn x k := by
  obtain ⟨w, rest, e1, e2, e3, e4, e5⟩ := wakeIter_head h
  rw [answered_single]
  have ht : terminal r = true := by unfold terminal; rw [e5]; decide
  have hr : r.rid = w.rid := by unfold Reply.rid Waiter.rid; rw [e3, e4]
  unfold queuedIn
  rw [e1, e2, ht, hr]
  by_cases hx : w.rid = x
  · simp [hx]; omega
  · simp [hx, List.count_cons]

theorem wakePass_cons (x : Rid) (fuel : Nat) (db : DB) (k : Key) (out : List Reply) :
    answered x (wakePass fuel db k out).2.2 + queuedIn x (wakePass fuel db k out).2.1 = answered x out + queuedIn x k := by
  induction fuel generalizing db k out with
  | zero => unfold wakePass; split <;> rfl
  | succ n ih =>
    unfold wakePass
    split
    · rfl
    · cases hw : wakeIter db k with
      | none => simp only []; split <;> rfl
      | some t =>
        obtain ⟨db', k', r⟩ := t
        simp only []
        rw [ih db' k' (out ++ [r]), answered_append]
        have := wakeIter_cons x hw
        omega

theorem wake_cons (x : Rid) (db : DB) (k : Key) (out : List Reply) :
    answered x (wake db k out).2.2 + queuedIn x (wake db k out).2.1 = answered x out + queuedIn x k :=
  wakePass_cons x _ db k out

/-- storing the result of a wake pass: total (answered + queued) changes exactly by the in-flight difference -/
theorem wake_store_cons (x : Rid) {db0 db : DB} (hk : KN db0) (e : db.keys = db0.keys) (k : Key) (n : Nat) (hn : k.key = n)
    (out : List Reply) :
    answered x (wake db k out).2.2 + queued x ((wake db k out).1.setKey (wake db k out).2.1).keys =
      answered x out + queued x db0.keys - queuedIn x (db0.getKey n) + queuedIn x k := by
  have hkn : KN (wake db k out).1 := hk.of_keys_eq (by rw [wake_keys, e])
  rw [queued_setKey x hkn, wake_key, hn]
  have hg : (wake db k out).1.getKey n = db0.getKey n := getKey_of_keys_eq (by rw [wake_keys, e]) n
  have hq : queued x (wake db k out).1.keys = queued x db0.keys := by unfold queued; rw [wake_keys, e]
  rw [hg, hq]
  have := wake_cons x db k out
  omega

end Slock.Engine

namespace Slock.Engine

def hit (x y : Rid) : Int := if y = x then 1 else 0

/-- queued ids of a waiter list -/
def qW (x : Rid) (ws : List Waiter) : Int := (ws.map Waiter.rid).count x

theorem queuedIn_eq (x : Rid) (k : Key) : queuedIn x k = qW x k.waiters := rfl

theorem answered_mk (x : Rid) (c : Cmd) (res l lr : Nat) (h : res ≠ RESULT_EXPRIED) :
    answered x [mkReply c res l lr] = hit x (c.conn, c.req) := by
  rw [answered_single]
  have ht : terminal (mkReply c res l lr) = true := by
    unfold terminal mkReply; simp only []; simpa using h
  have hr : (mkReply c res l lr).rid = (c.conn, c.req) := rfl
  unfold hit; simp [ht, hr]

theorem answered_mk_expried (x : Rid) (c : Cmd) (l lr : Nat) : answered x [mkReply c RESULT_EXPRIED l lr] = 0 := by
  rw [answered_single]
  have : terminal (mkReply c RESULT_EXPRIED l lr) = false := by unfold terminal mkReply; simp
  simp [this]

theorem qW_insert (x : Rid) (ws : List Waiter) (w : Waiter) : qW x (insertWaiter ws w) = qW x ws + hit x w.rid := by
  obtain ⟨l1, l2, e1, e2, _, _⟩ := insertWaiter_split ws w
  unfold qW hit
  rw [e2, e1]
  by_cases hx : w.rid = x
  · simp [hx, List.count_append]; omega
  · simp [hx, List.count_append, List.count_cons]

theorem qW_remove (x : Rid) {ws : List Waiter} {w : Waiter} (hm : w ∈ ws) :
    qW x (removeWaiter ws w) + hit x w.rid = qW x ws := by
  unfold qW
  induction ws with
  | nil => simp at hm
  | cons y ys ih =>
    unfold removeWaiter
    split
    · rename_i hmatch
      have hy : y.rid = w.rid := by
        unfold Waiter.rid
        simp only [Bool.and_eq_true, beq_iff_eq] at hmatch
        rw [hmatch.1, hmatch.2]
      unfold hit
      by_cases hx : w.rid = x
      · simp [hx, hy, List.count_cons]
      · simp [hx, hy, List.count_cons]
    · rename_i hne
      have : w ∈ ys := by
        rcases List.mem_cons.mp hm with h1 | h1
        · exfalso; apply hne; rw [h1]; simp
        · exact h1
      have := ih this
      simp only [List.map_cons, List.count_cons]
      omega

/-- storing a key into a DB whose keys are those of `db0` -/
theorem store_cons (x : Rid) (db0 : DB) {db : DB} {k : Key} (n : Nat) (hk : KN db0) (e : db.keys = db0.keys) (hn : k.key = n) :
    queued x (db.setKey k).keys = queued x db0.keys - qW x (db0.getKey n).waiters + qW x k.waiters := by
  rw [queued_setKey x (hk.of_keys_eq e), hn, getKey_of_keys_eq e]
  have : queued x db.keys = queued x db0.keys := by unfold queued; rw [e]
  rw [this]; rfl

/-- storing the result of a wake pass -/
theorem wake_store (x : Rid) (db0 : DB) {db : DB} {k : Key} (n : Nat) (out : List Reply) (hk : KN db0) (e : db.keys = db0.keys) (hn : k.key = n) :
    answered x (wake db k out).2.2 + queued x ((wake db k out).1.setKey (wake db k out).2.1).keys =
      answered x out + queued x db0.keys - qW x (db0.getKey n).waiters + qW x k.waiters := by
  rw [store_cons x db0 n hk (by rw [wake_keys, e]) (by rw [wake_key, hn])]
  have := wake_cons x db k out
  rw [queuedIn_eq, queuedIn_eq] at this
  omega

/-- LOCK: the request's own id is answered once or queued once; nobody else's count changes. -/
theorem opLock_cons (x : Rid) (db : DB) (c : Cmd) (hk : KN db) :
    answered x (opLock db c).2 + queued x (opLock db c).1.keys = hit x (c.conn, c.req) + queued x db.keys := by
  unfold opLock
  cases hb : classifyLock db c with
  | p0a | p0b | stateError | unlockedWaitRefused | timeout | relockNoHold h' | relockRefused h' =>
    simp only [applyLock]; rw [answered_mk x c _ _ _ (by decide)]
  | «show» cur => simp only [applyLock]; rw [answered_mk x _ _ _ _ (by decide)]
  | updateEqual h' => simp only [applyLock]; rw [answered_mk x _ _ _ _ (by decide)]
  | update h' =>
    simp only [applyLock]
    rw [wake_store x db c.key _ hk, answered_mk x _ _ _ _ (by decide)]
    · simp only []; omega
    · exact updateHold_db_keys _ _ _
    · exact getKey_key _ _
  | relock h' =>
    simp only [applyLock]
    rw [wake_store x db c.key _ hk, answered_mk x _ _ _ _ (by decide)]
    · simp only []; omega
    · simp [updateHold_db_keys]
    · exact getKey_key _ _
  | grant =>
    simp only [applyLock]
    obtain ⟨_, _, _, _, _, hws, _, hkey⟩ := grantHold_holders db (db.getKey c.key) c
    split
    · rw [wake_store x db c.key _ hk, answered_mk x c _ _ _ (by decide), hws]
      · omega
      · exact grantHold_db_keys _ _ _
      · rw [hkey, getKey_key]
    · rw [answered_mk x c _ _ _ (by decide), store_cons x db c.key hk, hws]
      · omega
      · exact grantHold_db_keys db (db.getKey c.key) c
      · rw [hkey, getKey_key]
  | grantNoHold =>
    simp only [applyLock]
    split
    · rw [wake_store x db c.key _ hk, answered_mk x c _ _ _ (by decide)]
      · omega
      · rfl
      · exact getKey_key _ _
    · rw [answered_mk x c _ _ _ (by decide), store_cons x db c.key hk]
      · simp only []; omega
      · rfl
      · exact getKey_key _ _
  | queue =>
    simp only [applyLock]
    rw [store_cons x db c.key hk]
    · simp only [qW_insert, answered_nil]
      have h : ∀ w : Waiter, w.cmd = c → w.conn = c.conn → hit x w.rid = hit x (c.conn, c.req) := by
        intro w h1 h2; unfold Waiter.rid; rw [h1, h2]
      rw [h _ rfl rfl]; omega
    · rfl
    · exact getKey_key _ _

/-- UNLOCK: its own id is answered once; a cancelled waiter's id moves from the queue to the replies. -/
theorem opUnlock_cons (x : Rid) (db : DB) (c : Cmd) (hk : KN db) :
    answered x (opUnlock db c).2 + queued x (opUnlock db c).1.keys = hit x (c.conn, c.req) + queued x db.keys := by
  unfold opUnlock
  cases hb : classifyUnlock db c with
  | stateError | notLocked | unown | cancelNone =>
    simp only [applyUnlock, bumpErr]; rw [answered_mk x c _ _ _ (by decide)]
  | cancel w =>
    have hm := classifyUnlock_cancel_mem db c w hb
    simp only [applyUnlock]
    rw [wake_store x db c.key _ hk]
    · have h1 : answered x [mkReply c RESULT_LOCKED_ERROR (db.getKey c.key).locked 0,
          mkReply { w.cmd with conn := w.conn } RESULT_UNLOCK_ERROR (db.getKey c.key).locked 0]
          = hit x (c.conn, c.req) + hit x w.rid := by
        rw [show [mkReply c RESULT_LOCKED_ERROR (db.getKey c.key).locked 0,
              mkReply { w.cmd with conn := w.conn } RESULT_UNLOCK_ERROR (db.getKey c.key).locked 0]
            = [mkReply c RESULT_LOCKED_ERROR (db.getKey c.key).locked 0] ++
              [mkReply { w.cmd with conn := w.conn } RESULT_UNLOCK_ERROR (db.getKey c.key).locked 0] from rfl,
          answered_append, answered_mk x c _ _ _ (by decide), answered_mk x _ _ _ _ (by decide)]
        rfl
      rw [h1]
      have := qW_remove x hm
      simp only []; omega
    · rfl
    · exact getKey_key _ _
  | dec h' c' =>
    simp only [applyUnlock]
    have hc : (c'.conn, c'.req) = (c.conn, c.req) := by
      unfold classifyUnlock at hb
      simp only [] at hb
      repeat' split at hb
      all_goals (try (simp at hb))
      all_goals (first | (obtain ⟨_, h2⟩ := hb; subst h2; rfl) | skip)
    rw [wake_store x db c.key _ hk, answered_mk x c' _ _ _ (by decide), hc]
    · simp only []; omega
    · rfl
    · exact getKey_key _ _
  | release h' c' =>
    simp only [applyUnlock]
    have hc : (c'.conn, c'.req) = (c.conn, c.req) := by
      unfold classifyUnlock at hb
      simp only [] at hb
      repeat' split at hb
      all_goals (try (simp at hb))
      all_goals (first | (obtain ⟨_, h2⟩ := hb; subst h2; rfl) | skip)
    rw [wake_store x db c.key _ hk, answered_mk x c' _ _ _ (by decide), hc]
    · simp only []; omega
    · rfl
    · exact getKey_key _ _

theorem fireTimeout_cons (x : Rid) (db : DB) (key : Nat) (w : Waiter) (hm : w ∈ (db.getKey key).waiters) (hk : KN db) :
    answered x (fireTimeout db key w).2 + queued x (fireTimeout db key w).1.keys = queued x db.keys := by
  unfold fireTimeout
  simp only []
  rw [wake_store x db key _ hk, answered_mk x _ _ _ _ (by decide)]
  · have := qW_remove x hm
    simp only []
    have hr : hit x ((({ w.cmd with conn := w.conn } : Cmd).conn), ({ w.cmd with conn := w.conn } : Cmd).req) = hit x w.rid := rfl
    rw [hr]; omega
  · rfl
  · exact getKey_key _ _

theorem fireExpire_cons (x : Rid) (db : DB) (key : Nat) (h : Hold) (hk : KN db) :
    answered x (fireExpire db key h).2 + queued x (fireExpire db key h).1.keys = queued x db.keys := by
  unfold fireExpire
  simp only []
  rw [wake_store x db key _ hk, answered_mk_expried]
  · simp only []; omega
  · rfl
  · exact getKey_key _ _

theorem qW_map_same (x : Rid) (ws : List Waiter) (f : Waiter → Waiter) (hf : ∀ w ∈ ws, (f w).rid = w.rid) :
    qW x (ws.map f) = qW x ws := by
  unfold qW
  induction ws with
  | nil => rfl
  | cons y ys ih =>
    have h1 := hf y (by simp)
    have h2 := ih (fun w hw => hf w (List.mem_cons_of_mem _ hw))
    simp only [List.map_cons, List.count_cons, h1]
    simp only [List.map_map] at h2 ⊢
    omega

theorem updateWaiter_cons (x : Rid) (db : DB) (w w' : Waiter) (hr : w'.rid = w.rid) (hk : KN db) :
    queued x (updateWaiter db w w').keys = queued x db.keys := by
  unfold updateWaiter
  simp only []
  rw [store_cons x db w.cmd.key hk]
  · simp only []
    rw [qW_map_same]
    · omega
    · intro y _
      split
      · rename_i hmatch
        simp only [Bool.and_eq_true, beq_iff_eq] at hmatch
        rw [hr]; unfold Waiter.rid; rw [hmatch.1, hmatch.2]
      · rfl
  · rfl
  · exact getKey_key _ _

theorem updateHoldIn_cons (x : Rid) (db : DB) (h h' : Hold) (hk : KN db) :
    queued x (updateHoldIn db h h').keys = queued x db.keys := by
  unfold updateHoldIn
  simp only []
  rw [store_cons x db h.cmd.key hk]
  · simp only []; omega
  · rfl
  · exact getKey_key _ _

/-- invariant carried through the sweeps: distinct key ids + conservation relative to a fixed total -/
def ConsAt (x : Rid) (total : Int) (acc : DB × List Reply) : Prop :=
  KN acc.1 ∧ answered x acc.2 + queued x acc.1.keys = total

theorem KN_fireTimeout (db : DB) (key : Nat) (w : Waiter) (h : KN db) : KN (fireTimeout db key w).1 := by
  unfold fireTimeout; exact KN_setKey (h.of_keys_eq (by rw [wake_keys])) _

theorem KN_fireExpire (db : DB) (key : Nat) (hd : Hold) (h : KN db) : KN (fireExpire db key hd).1 := by
  unfold fireExpire; exact KN_setKey (h.of_keys_eq (by rw [wake_keys])) _

theorem fireTimeoutStep_consAt (x : Rid) (total : Int) (acc : DB × List Reply) (w : Waiter) (h : ConsAt x total acc) :
    ConsAt x total (fireTimeoutStep acc w) := by
  unfold fireTimeoutStep
  split
  · rename_i w' hf
    refine ⟨KN_fireTimeout _ _ _ h.1, ?_⟩
    have := fireTimeout_cons x acc.1 w.cmd.key w' (List.mem_of_find?_eq_some hf) h.1
    simp only [answered_append]
    have h2 := h.2
    omega
  · exact h

theorem fireExpireStep_consAt (x : Rid) (total : Int) (acc : DB × List Reply) (hd : Hold) (h : ConsAt x total acc) :
    ConsAt x total (fireExpireStep acc hd) := by
  unfold fireExpireStep
  split
  · rename_i h' hf
    refine ⟨KN_fireExpire _ _ _ h.1, ?_⟩
    have := fireExpire_cons x acc.1 hd.cmd.key h' h.1
    simp only [answered_append]
    have h2 := h.2
    omega
  · exact h

/-- pass 1 keeps the queued ids (re-arming replaces a request by a copy with the same id) -/
def QAt (x : Rid) (q : Int) (db : DB) : Prop := KN db ∧ queued x db.keys = q

theorem rearmWaiter_eq (db : DB) (w : Waiter) :
    rearmWaiter db w = updateWaiter { db with seq := db.seq + 1 } w (rearmed db w) := rfl

def rearmedH (db : DB) (h : Hold) : Hold :=
  { h with expT := (wheelAdd db.eCheck db.seq h.expT (h.sched.checked + 1)).1,
           sched := (wheelAdd db.eCheck db.seq h.expT (h.sched.checked + 1)).2 }

theorem rearmHold_eq (db : DB) (h : Hold) :
    rearmHold db h = updateHoldIn { db with seq := db.seq + 1 } h (rearmedH db h) := rfl

theorem KN_updateWaiter (db : DB) (w w' : Waiter) (h : KN db) : KN (updateWaiter db w w') := by
  unfold updateWaiter; exact KN_setKey h _

theorem KN_updateHoldIn (db : DB) (hd hd' : Hold) (h : KN db) : KN (updateHoldIn db hd hd') := by
  unfold updateHoldIn; exact KN_setKey h _

theorem rearmWaiter_qAt (x : Rid) (q : Int) (db : DB) (w : Waiter) (h : QAt x q db) : QAt x q (rearmWaiter db w) := by
  rw [rearmWaiter_eq]
  have hk' : KN { db with seq := db.seq + 1 } := h.1.of_keys_eq rfl
  refine ⟨KN_updateWaiter _ _ _ hk', ?_⟩
  have e := updateWaiter_cons x { db with seq := db.seq + 1 } w (rearmed db w) rfl hk'
  rw [e]; exact h.2

theorem rearmHold_qAt (x : Rid) (q : Int) (db : DB) (hd : Hold) (h : QAt x q db) : QAt x q (rearmHold db hd) := by
  rw [rearmHold_eq]
  have hk' : KN { db with seq := db.seq + 1 } := h.1.of_keys_eq rfl
  refine ⟨KN_updateHoldIn _ _ _ hk', ?_⟩
  have e := updateHoldIn_cons x { db with seq := db.seq + 1 } hd (rearmedH db hd) hk'
  rw [e]; exact h.2

theorem timeoutStep_qAt (x : Rid) (q : Int) (acc : DB × List Waiter) (w : Waiter) (h : QAt x q acc.1) : QAt x q (timeoutStep acc w).1 := by
  unfold timeoutStep
  split
  · exact rearmWaiter_qAt x q _ _ h
  · exact h

theorem expireStep_qAt (x : Rid) (q : Int) (acc : DB × List Hold) (hd : Hold) (h : QAt x q acc.1) : QAt x q (expireStep acc hd).1 := by
  unfold expireStep
  split
  · exact rearmHold_qAt x q _ _ h
  · exact h

theorem foldl_acc {α β} (P : DB × β → Prop) (f : DB × β → α → DB × β) (hf : ∀ acc a, P acc → P (f acc a))
    (l : List α) (acc : DB × β) (h : P acc) : P (l.foldl f acc) := by
  induction l generalizing acc with
  | nil => exact h
  | cons a as ih => simp only [List.foldl_cons]; exact ih _ (hf acc a h)

theorem sweepTimeout_cons (x : Rid) (db : DB) (c : Nat) (hk : KN db) :
    KN (sweepTimeout db c).1 ∧ answered x (sweepTimeout db c).2 + queued x (sweepTimeout db c).1.keys = queued x db.keys := by
  unfold sweepTimeout timeoutPass1
  simp only []
  have q1 := foldl_P (QAt x (queued x db.keys)) timeoutStep (timeoutStep_qAt x _) (slotWaiters db c) (db, []) ⟨hk, rfl⟩
  have c1 := foldl_acc (ConsAt x (queued x db.keys)) fireTimeoutStep (fireTimeoutStep_consAt x _)
    (((slotWaiters db c).foldl timeoutStep (db, [])).2 ++ longWaiters db c)
    (((slotWaiters db c).foldl timeoutStep (db, [])).1, [])
    ⟨q1.1, by have := q1.2; simp only [answered_nil]; omega⟩
  exact c1

theorem sweepExpire_cons (x : Rid) (db : DB) (c : Nat) (hk : KN db) :
    KN (sweepExpire db c).1 ∧ answered x (sweepExpire db c).2 + queued x (sweepExpire db c).1.keys = queued x db.keys := by
  unfold sweepExpire expirePass1
  simp only []
  have q1 := foldl_P (QAt x (queued x db.keys)) expireStep (expireStep_qAt x _) (slotHolds db c) (db, []) ⟨hk, rfl⟩
  have c1 := foldl_acc (ConsAt x (queued x db.keys)) fireExpireStep (fireExpireStep_consAt x _)
    (((slotHolds db c).foldl expireStep (db, [])).2 ++ longHolds db c)
    (((slotHolds db c).foldl expireStep (db, [])).1, [])
    ⟨q1.1, by have := q1.2; simp only [answered_nil]; omega⟩
  exact c1

theorem cons_compose (x : Rid) (q0 : Int) (db1 db1' db2 : DB) (o1 o2 : List Reply)
    (h1 : answered x o1 + queued x db1.keys = q0) (e : db1'.keys = db1.keys)
    (h2 : answered x o2 + queued x db2.keys = queued x db1'.keys) :
    answered x (o1 ++ o2) + queued x db2.keys = q0 := by
  rw [answered_append]
  have : queued x db1'.keys = queued x db1.keys := by rw [e]
  omega

/-- one second of server time: every request answered by a sweep (TIMEOUT, or SUCCED from a wake pass after an expiry)
leaves the queue exactly once -/
theorem opTick_cons (x : Rid) (db : DB) (hk : KN db) :
    KN (opTick db).1 ∧ answered x (opTick db).2 + queued x (opTick db).1.keys = queued x db.keys := by
  unfold opTick
  simp only []
  have h1 := sweepTimeout_cons x { db with now := db.now + 1, tCheck := db.now + 1 + 1 } (db.now + 1) (hk.of_keys_eq rfl)
  have h2 := sweepExpire_cons x
    { (sweepTimeout { db with now := db.now + 1, tCheck := db.now + 1 + 1 } (db.now + 1)).1 with eCheck := db.now + 1 + 1 }
    (db.now + 1) (h1.1.of_keys_eq rfl)
  exact ⟨h2.1, cons_compose x _ _ _ _ _ _ h1.2 rfl h2.2⟩

theorem KN_wake_store {db0 db : DB} (k : Key) (out : List Reply) (h : KN db0) (e : db.keys = db0.keys) :
    KN ((wake db k out).1.setKey (wake db k out).2.1) :=
  KN_setKey (h.of_keys_eq (by rw [wake_keys, e])) _

theorem opLock_cinv_kn (db : DB) (c : Cmd) (h : KN db) : KN (opLock db c).1 := by
  unfold opLock
  cases hb : classifyLock db c <;> simp only [applyLock] <;> (try exact h)
  · exact KN_wake_store _ _ h (updateHold_db_keys _ _ _)
  · exact KN_wake_store _ _ h (by simp [updateHold_db_keys])
  · split
    · exact KN_wake_store _ _ h (grantHold_db_keys _ _ _)
    · exact KN_setKey (h.of_keys_eq (grantHold_db_keys db (db.getKey c.key) c)) _
  · split
    · exact KN_wake_store _ _ h rfl
    · exact KN_setKey (h.of_keys_eq rfl) _
  · exact KN_setKey (h.of_keys_eq rfl) _

theorem opUnlock_kn (db : DB) (c : Cmd) (h : KN db) : KN (opUnlock db c).1 := by
  unfold opUnlock
  cases hb : classifyUnlock db c <;> simp only [applyUnlock, bumpErr] <;> (try exact h.of_keys_eq rfl)
  · exact KN_wake_store _ _ h rfl
  · exact KN_wake_store _ _ h rfl
  · exact KN_wake_store _ _ h rfl

end Slock.Engine
