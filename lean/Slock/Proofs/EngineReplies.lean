import Slock.Proofs.EngineCount
/-! Conservation of request ids (C03): every issued request id is either still queued or has been answered exactly once. -/
namespace Slock.Engine

abbrev Rid := Nat × Nat   -- (connection, request id)

def Reply.rid (r : Reply) : Rid := (r.conn, r.req)
def Waiter.rid (w : Waiter) : Rid := (w.conn, w.cmd.req)

/-- terminal = anything but the asynchronous EXPRIED notice -/
def terminal (r : Reply) : Bool := r.result != RESULT_EXPRIED

/-- how many terminal replies in `out` carry the id `x` -/
def answered (x : Rid) (out : List Reply) : Int := ((out.filter terminal).map Reply.rid).count x

/-- how many queued requests of key `k` carry the id `x` -/
def queuedIn (x : Rid) (k : Key) : Int := (k.waiters.map Waiter.rid).count x

def queued (x : Rid) (ks : List Key) : Int := (ks.map (queuedIn x)).sum

@[simp] theorem answered_nil (x : Rid) : answered x [] = 0 := rfl
theorem answered_append (x : Rid) (a b : List Reply) : answered x (a ++ b) = answered x a + answered x b := by
  unfold answered; simp [List.filter_append, List.count_append]

theorem answered_single (x : Rid) (r : Reply) :
    answered x [r] = if terminal r = true ∧ r.rid = x then 1 else 0 := by
  unfold answered
  by_cases ht : terminal r = true
  · by_cases hx : r.rid = x
    · simp [List.filter, ht, hx]
    · simp [List.filter, ht, hx, List.count_cons]
  · have : terminal r = false := by simpa using ht
    simp [List.filter, this]

/-- generic census split (any key-indexed quantity that vanishes on empty keys) -/
theorem totF_setKey (f : Key → Int) (hf0 : ∀ n, f (emptyKey n) = 0) (hfe : ∀ k : Key, k.isEmpty = true → f k = 0)
    {db : DB} (h : KN db) (k : Key) :
    ((db.setKey k).keys.map f).sum = (db.keys.map f).sum - f (db.getKey k.key) + f k := by
  have hs := tot_split f db.keys k.key h
  unfold DB.setKey DB.getKey
  simp only []
  cases hfind : db.keys.find? (·.key == k.key) with
  | none =>
    rw [hfind] at hs; simp only [] at hs
    split
    · rename_i he; simp [hf0, hfe k he]; omega
    · simp [hf0]; omega
  | some k0 =>
    rw [hfind] at hs; simp only [] at hs
    split
    · rename_i he; simp [hfe k he]; omega
    · simp; omega

theorem queuedIn_empty (x : Rid) (n : Nat) : queuedIn x (emptyKey n) = 0 := rfl
theorem queuedIn_isEmpty (x : Rid) (k : Key) (h : k.isEmpty = true) : queuedIn x k = 0 := by
  have : k.waiters = [] := by unfold Key.isEmpty at h; simp at h; exact h.1.1.2
  unfold queuedIn; simp [this]

theorem queued_setKey (x : Rid) {db : DB} (h : KN db) (k : Key) :
    queued x (db.setKey k).keys = queued x db.keys - queuedIn x (db.getKey k.key) + queuedIn x k :=
  totF_setKey (queuedIn x) (queuedIn_empty x) (queuedIn_isEmpty x) h k

/-! ### wake pass: ids move from the queue to the reply list -/

theorem wakeIter_cons (x : Rid) {db : DB} {k : Key} {db' : DB} {k' : Key} {r : Reply}
    (h : wakeIter db k = some (db', k', r)) :
    answered x [r] + queuedIn x k' = queuedIn x k := by
  obtain ⟨w, rest, e1, e2, e3, e4, e5⟩ := wakeIter_head h
  rw [answered_single]
  have ht : terminal r = true := by unfold terminal; rw [e5]; decide
  have hr : r.rid = w.rid := by unfold Reply.rid Waiter.rid; rw [e3, e4]
  unfold queuedIn
  rw [e1, e2, ht, hr]
  by_cases hx : w.rid = x
  · simp [hx]; omega
  · simp [hx, List.count_cons]

theorem wakePass_cons (x : Rid) (fuel : Nat) (db : DB) (k : Key) (out : List Reply) :
    answered x (wakePass fuel db k out).2.2 + queuedIn x (wakePass fuel db k out).2.1 = answered x out + queuedIn x k := by
  induction fuel generalizing db k out with
  | zero => unfold wakePass; split <;> rfl
  | succ n ih =>
    unfold wakePass
    split
    · rfl
    · cases hw : wakeIter db k with
      | none => simp only []; split <;> rfl
      | some t =>
        obtain ⟨db', k', r⟩ := t
        simp only []
        rw [ih db' k' (out ++ [r]), answered_append]
        have := wakeIter_cons x hw
        omega

theorem wake_cons (x : Rid) (db : DB) (k : Key) (out : List Reply) :
    answered x (wake db k out).2.2 + queuedIn x (wake db k out).2.1 = answered x out + queuedIn x k :=
  wakePass_cons x _ db k out

/-- storing the result of a wake pass: total (answered + queued) changes exactly by the in-flight difference -/
theorem wake_store_cons (x : Rid) {db0 db : DB} (hk : KN db0) (e : db.keys = db0.keys) (k : Key) (n : Nat) (hn : k.key = n)
    (out : List Reply) :
    answered x (wake db k out).2.2 + queued x ((wake db k out).1.setKey (wake db k out).2.1).keys =
      answered x out + queued x db0.keys - queuedIn x (db0.getKey n) + queuedIn x k := by
  have hkn : KN (wake db k out).1 := hk.of_keys_eq (by rw [wake_keys, e])
  rw [queued_setKey x hkn, wake_key, hn]
  have hg : (wake db k out).1.getKey n = db0.getKey n := getKey_of_keys_eq (by rw [wake_keys, e]) n
  have hq : queued x (wake db k out).1.keys = queued x db0.keys := by unfold queued; rw [wake_keys, e]
  rw [hg, hq]
  have := wake_cons x db k out
  omega

end Slock.Engine

namespace Slock.Engine

def hit (x y : Rid) : Int := if y = x then 1 else 0

/-- queued ids of a waiter list -/
def qW (x : Rid) (ws : List Waiter) : Int := (ws.map Waiter.rid).count x

theorem queuedIn_eq (x : Rid) (k : Key) : queuedIn x k = qW x k.waiters := rfl

theorem answered_mk (x : Rid) (c : Cmd) (res l lr : Nat) (h : res ≠ RESULT_EXPRIED) :
    answered x [mkReply c res l lr] = hit x (c.conn, c.req) := by
  rw [answered_single]
  have ht : terminal (mkReply c res l lr) = true := by
    unfold terminal mkReply; simp only []; simpa using h
  have hr : (mkReply c res l lr).rid = (c.conn, c.req) := rfl
  unfold hit; simp [ht, hr]

theorem answered_mk_expried (x : Rid) (c : Cmd) (l lr : Nat) : answered x [mkReply c RESULT_EXPRIED l lr] = 0 := by
  rw [answered_single]
  have : terminal (mkReply c RESULT_EXPRIED l lr) = false := by unfold terminal mkReply; simp
  simp [this]

theorem qW_insert (x : Rid) (ws : List Waiter) (w : Waiter) : qW x (insertWaiter ws w) = qW x ws + hit x w.rid := by
  obtain ⟨l1, l2, e1, e2, _, _⟩ := insertWaiter_split ws w
  unfold qW hit
  rw [e2, e1]
  by_cases hx : w.rid = x
  · simp [hx, List.count_append]; omega
  · simp [hx, List.count_append, List.count_cons]

theorem qW_remove (x : Rid) {ws : List Waiter} {w : Waiter} (hm : w ∈ ws) :
    qW x (removeWaiter ws w) + hit x w.rid = qW x ws := by
  unfold qW
  induction ws with
  | nil => simp at hm
  | cons y ys ih =>
    unfold removeWaiter
    split
    · rename_i hmatch
      have hy : y.rid = w.rid := by
        unfold Waiter.rid
        simp only [Bool.and_eq_true, beq_iff_eq] at hmatch
        rw [hmatch.1, hmatch.2]
      unfold hit
      by_cases hx : w.rid = x
      · simp [hx, hy, List.count_cons]
      · simp [hx, hy, List.count_cons]
    · rename_i hne
      have : w ∈ ys := by
        rcases List.mem_cons.mp hm with h1 | h1
        · exfalso; apply hne; rw [h1]; simp
        · exact h1
      have := ih this
      simp only [List.map_cons, List.count_cons]
      omega

/-- storing a key into a DB whose keys are those of `db0` -/
theorem store_cons (x : Rid) (db0 : DB) {db : DB} {k : Key} (n : Nat) (hk : KN db0) (e : db.keys = db0.keys) (hn : k.key = n) :
    queued x (db.setKey k).keys = queued x db0.keys - qW x (db0.getKey n).waiters + qW x k.waiters := by
  rw [queued_setKey x (hk.of_keys_eq e), hn, getKey_of_keys_eq e]
  have : queued x db.keys = queued x db0.keys := by unfold queued; rw [e]
  rw [this]; rfl

/-- storing the result of a wake pass -/
theorem wake_store (x : Rid) (db0 : DB) {db : DB} {k : Key} (n : Nat) (out : List Reply) (hk : KN db0) (e : db.keys = db0.keys) (hn : k.key = n) :
    answered x (wake db k out).2.2 + queued x ((wake db k out).1.setKey (wake db k out).2.1).keys =
      answered x out + queued x db0.keys - qW x (db0.getKey n).waiters + qW x k.waiters := by
  rw [store_cons x db0 n hk (by rw [wake_keys, e]) (by rw [wake_key, hn])]
  have := wake_cons x db k out
  rw [queuedIn_eq, queuedIn_eq] at this
  omega

/-- LOCK: the request's own id is answered once or queued once; nobody else's count changes. -/
theorem opLock_cons (x : Rid) (db : DB) (c : Cmd) (hk : KN db) :
    answered x (opLock db c).2 + queued x (opLock db c).1.keys = hit x (c.conn, c.req) + queued x db.keys := by
  unfold opLock
  cases hb : classifyLock db c with
  | p0a | p0b | stateError | unlockedWaitRefused | timeout | relockNoHold h' | relockRefused h' =>
    simp only [applyLock]; rw [answered_mk x c _ _ _ (by decide)]
  | «show» cur => simp only [applyLock]; rw [answered_mk x _ _ _ _ (by decide)]
  | updateEqual h' => simp only [applyLock]; rw [answered_mk x _ _ _ _ (by decide)]
  | update h' =>
    simp only [applyLock]
    rw [answered_mk x _ _ _ _ (by decide), store_cons x db c.key hk (updateHold_db_keys _ _ _) (getKey_key _ _)]
    simp only []; omega
  | relock h' =>
    simp only [applyLock]
    rw [answered_mk x _ _ _ _ (by decide), store_cons x db c.key hk (by simp [updateHold_db_keys]) (getKey_key _ _)]
    simp only []; omega
  | grant =>
    simp only [applyLock]
    obtain ⟨_, _, _, _, _, hws, _, hkey⟩ := grantHold_holders db (db.getKey c.key) c
    split
    · rw [wake_store x db c.key _ hk (grantHold_db_keys _ _ _) (by rw [hkey, getKey_key]), answered_mk x c _ _ _ (by decide), hws]
      omega
    · rw [answered_mk x c _ _ _ (by decide), store_cons x db c.key hk (grantHold_db_keys db (db.getKey c.key) c) (by rw [hkey, getKey_key]), hws]
      omega
  | grantNoHold =>
    simp only [applyLock]
    split
    · rw [wake_store x db c.key _ hk rfl (getKey_key _ _), answered_mk x c _ _ _ (by decide)]
      omega
    · rw [answered_mk x c _ _ _ (by decide), store_cons x db c.key hk rfl (getKey_key _ _)]
      omega
  | queue =>
    simp only [applyLock]
    rw [store_cons x db c.key hk rfl (getKey_key _ _)]
    simp only [qW_insert, answered_nil]
    have : (Waiter.rid { cmd := c, conn := c.conn, timeoutT := (wheelAdd db.tCheck db.seq (timeoutDeadline db.now c) 1).1,
        sched := (wheelAdd db.tCheck db.seq (timeoutDeadline db.now c) 1).2 }) = (c.conn, c.req) := rfl
    rw [this]; omega

end Slock.Engine
