import Slock.Proofs.AckInvStep
/-! M-ACK: the counting invariant `InvK` — a fresh ack-pending hold (`fp`) is referenced by at most one LOCK journal record or table entry,
and its counter plus the positive reports noted in that entry is the required number. Tracker `AtK` for chains of updates of one record. -/
namespace Slock.Ack

/-- a live hold still in its first ack phase: granted, not yet in the expiry wheel, counter ≠ 0xff -/
def Rec.fp (r : Rec) : Bool := decide (r.depth > 0) && r.expried && r.pending
/-- positive reports noted for an entry -/
def cnt (e : Ent) : Nat := e.oks.length
def jcL (js : List JRec) (h : Nat) : Nat := (js.filter (fun j => j.isLock && j.hid == some h)).length
def tcL (t : List Ent) (h : Nat) : Nat := (t.filter (fun e => e.hid == h)).length
def jc (db : DB) (h : Nat) : Nat := jcL db.journal h
def tc (db : DB) (h : Nat) : Nat := tcL db.tab h

/-- what is asked of one record -/
def KR (r : Rec) : Prop := r.ack ≤ NOACK ∧ (r.depth > 0 → r.expried = true → r.pending = true)

structure InvK (db : DB) : Prop where
  cfg : reqAcks db.cfg < NOACK
  recs : ∀ r ∈ db.recs, KR r
  k2 : ∀ h, (db.getR h).fp = true → jc db h + tc db h ≤ 1
  k1 : ∀ e ∈ db.tab, (db.getR e.hid).fp = true → (db.getR e.hid).ack + cnt e = reqAcks db.cfg
  /-- a record whose LOCK journal record is still under way is dead or still waiting for it (never a settled hold) -/
  kj : ∀ h, jc db h > 0 → (db.getR h).depth = 0 ∨ (db.getR h).pending = true

theorem jc_of_journal {db db' : DB} (e : db'.journal = db.journal) (h : Nat) : jc db' h = jc db h := by unfold jc; rw [e]

/-- a settled hold has no LOCK journal record under way -/
theorem InvK.jz {db : DB} (hk : InvK db) {h : Nat} (hd : (db.getR h).depth > 0) (hp : (db.getR h).pending = false) : jc db h = 0 := by
  cases e : jc db h with
  | zero => rfl
  | succ n =>
    rcases hk.kj h (by omega) with h1 | h1
    · omega
    · rw [hp] at h1; exact absurd h1 (by decide)

theorem fp_dead (h : Nat) : (deadRec h).fp = false := rfl
theorem KR_dead (h : Nat) : KR (deadRec h) := by unfold KR deadRec NOACK; simp

theorem jcL_append (a b : List JRec) (h : Nat) : jcL (a ++ b) h = jcL a h + jcL b h := by unfold jcL; simp [List.filter_append]
theorem tcL_append (a b : List Ent) (h : Nat) : tcL (a ++ b) h = tcL a h + tcL b h := by unfold tcL; simp [List.filter_append]
theorem jcL_sublist {a b : List JRec} (s : a.Sublist b) (h : Nat) : jcL a h ≤ jcL b h := by
  unfold jcL; exact (List.Sublist.filter _ s).length_le
theorem tcL_sublist {a b : List Ent} (s : a.Sublist b) (h : Nat) : tcL a h ≤ tcL b h := by
  unfold tcL; exact (List.Sublist.filter _ s).length_le

theorem jcL_zero_iff (js : List JRec) (h : Nat) : jcL js h = 0 ↔ ∀ j ∈ js, j.isLock = true → j.hid ≠ some h := by
  unfold jcL
  rw [List.length_eq_zero_iff, List.filter_eq_nil_iff]
  constructor
  · intro hh j hj hl he; have := hh j hj; simp [hl, he] at this
  · intro hh j hj; have := hh j hj; simp; intro hl; simpa using this hl

theorem tcL_zero_iff (t : List Ent) (h : Nat) : tcL t h = 0 ↔ ∀ e ∈ t, e.hid ≠ h := by
  unfold tcL
  rw [List.length_eq_zero_iff, List.filter_eq_nil_iff]
  constructor
  · intro hh e he; have := hh e he; simpa using this
  · intro hh e he; have := hh e he; simpa using this

/-- taking the first record of key `k` out of the journal: the count of `h` drops by one if that record was a LOCK record for `h` -/
theorem jcL_eraseP (js : List JRec) (k h : Nat) :
    jcL (js.eraseP (·.key == k)) h + (match js.find? (·.key == k) with | some j => if (j.isLock && j.hid == some h) = true then 1 else 0 | none => 0) = jcL js h := by
  induction js with
  | nil => simp [jcL]
  | cons x xs ih =>
    by_cases e : (x.key == k) = true
    · simp only [List.eraseP_cons, e, List.find?, cond_true]
      unfold jcL
      by_cases e2 : (x.isLock && x.hid == some h) = true
      · simp [List.filter, e2]
      · have : (x.isLock && x.hid == some h) = false := by simpa using e2
        simp [List.filter, this]
    · have e' : (x.key == k) = false := by simpa using e
      simp only [List.eraseP_cons, e', List.find?, cond_false]
      unfold jcL at ih ⊢
      by_cases e2 : (x.isLock && x.hid == some h) = true
      · simp only [List.filter, e2, List.length_cons]; omega
      · have : (x.isLock && x.hid == some h) = false := by simpa using e2
        simp only [List.filter, this]; exact ih

/-- a queued or not-yet-existing record is referenced nowhere -/
theorem InvA.unref {db : DB} (ha : InvA db) {h : Nat} (hq : (db.getR h).queued = true ∨ h ≥ db.nextHid) : jc db h = 0 ∧ tc db h = 0 := by
  constructor
  · unfold jc; rw [jcL_zero_iff]
    intro j hj hl he
    have := ha.jrn j hj hl h he
    rcases hq with hq | hq
    · rw [hq] at this; exact absurd this.2 (by decide)
    · omega
  · unfold tc; rw [tcL_zero_iff]
    intro e he e1
    have := ha.tabOk e he
    rcases hq with hq | hq
    · rw [e1, hq] at this; exact absurd this.2.1 (by decide)
    · omega

/-! ### following one record -/

structure AtK (db : DB) (hid : Nat) (r : Rec) : Prop where
  cfg : reqAcks db.cfg < NOACK
  nd : (db.recs.map (·.hid)).Nodup
  fnd : findR db.recs hid = some r
  orec : ∀ r' ∈ db.recs, r'.hid ≠ hid → KR r'
  ok2 : ∀ h, h ≠ hid → (db.getR h).fp = true → jc db h + tc db h ≤ 1
  ok1 : ∀ e ∈ db.tab, e.hid ≠ hid → (db.getR e.hid).fp = true → (db.getR e.hid).ack + cnt e = reqAcks db.cfg
  oj : ∀ h, h ≠ hid → jc db h > 0 → (db.getR h).depth = 0 ∨ (db.getR h).pending = true

theorem AtK.start {db : DB} (ha : InvA db) (hk : InvK db) {hid : Nat} {r : Rec} (e : findR db.recs hid = some r) : AtK db hid r :=
  ⟨hk.cfg, ha.nodup, e, fun r' hr' _ => hk.recs r' hr', fun h _ => hk.k2 h, fun e he _ => hk.k1 e he, fun h _ => hk.kj h⟩

theorem AtK.getR {db : DB} {hid : Nat} {r : Rec} (h : AtK db hid r) : db.getR hid = r := by rw [getR_eq, h.fnd]; rfl

theorem AtK.finish {db : DB} {hid : Nat} {r : Rec} (h : AtK db hid r) (hr : KR r) (h2 : r.fp = true → jc db hid + tc db hid ≤ 1)
    (h1 : ∀ e ∈ db.tab, e.hid = hid → r.fp = true → r.ack + cnt e = reqAcks db.cfg)
    (hj : jc db hid > 0 → r.depth = 0 ∨ r.pending = true) : InvK db := by
  refine ⟨h.cfg, ?_, ?_, ?_, ?_⟩
  · intro r' hr'
    by_cases e : r'.hid = hid
    · have h1' := findR_of_mem h.nd hr'
      rw [e, h.fnd] at h1'
      have : r = r' := by simpa using h1'
      rw [← this]; exact hr
    · exact h.orec r' hr' e
  · intro a ha
    by_cases e : a = hid
    · subst e; rw [h.getR] at ha; exact h2 ha
    · exact h.ok2 a e ha
  · intro e he hf
    by_cases e1 : e.hid = hid
    · rw [e1, h.getR] at hf ⊢; exact h1 e he e1 hf
    · exact h.ok1 e he e1 hf
  · intro a ha
    by_cases e : a = hid
    · subst e; rw [h.getR]; exact hj ha
    · exact h.oj a e ha

theorem AtK.modR {db : DB} {hid : Nat} {r : Rec} (h : AtK db hid r) (f : Rec → Rec) (hf : ∀ r, (f r).hid = r.hid) :
    AtK (db.modR hid f) hid (f r) := by
  have hg : ∀ a, a ≠ hid → (db.modR hid f).getR a = db.getR a := fun a ha => getR_modR_ne db hid f hf a ha
  refine ⟨h.cfg, ?_, ?_, ?_, ?_, ?_, ?_⟩
  · rw [modR_recs, map_hid_modRecs hid f hf]; exact h.nd
  · rw [modR_recs, findR_modRecs hid f hf]; simp [h.fnd]
  · intro r' hr' hne
    rcases mem_modRecs hr' with hm | ⟨r0, hr0, e⟩
    · exact h.orec r' hm hne
    · rw [e, hf] at hne; exact absurd (findR_some_mem hr0).2 hne
  · intro a ha hfp; rw [hg a ha] at hfp; exact h.ok2 a ha hfp
  · intro e he hne hfp; rw [hg _ hne] at hfp ⊢; exact h.ok1 e he hne hfp
  · intro a ha hj; rw [hg a ha]; exact h.oj a ha hj

/-- nothing but `recs` (as a set of the same records), `tab`, `journal`, `cfg` matters -/
theorem AtK.frame {db db' : DB} {hid : Nat} {r : Rec} (h : AtK db hid r) (e1 : db'.recs = db.recs) (e2 : db'.tab = db.tab)
    (e3 : db'.journal = db.journal) (e4 : db'.cfg = db.cfg) : AtK db' hid r := by
  have hg : ∀ a, db'.getR a = db.getR a := fun a => getR_frame e1 a
  refine ⟨by rw [e4]; exact h.cfg, by rw [e1]; exact h.nd, by rw [e1]; exact h.fnd, by rw [e1]; exact h.orec, ?_, ?_, ?_⟩
  · intro a ha hfp; rw [hg] at hfp; unfold jc tc; rw [e2, e3]; exact h.ok2 a ha hfp
  · rw [e2, e4]; intro e he hne hfp; rw [hg] at hfp ⊢; exact h.ok1 e he hne hfp
  · intro a ha hj; rw [hg]; rw [jc_of_journal e3] at hj; exact h.oj a ha hj

theorem AtK.modR' {db db' : DB} {hid : Nat} {r : Rec} (h : AtK db hid r) (f : Rec → Rec) (e1 : db'.recs = modRecs hid f db.recs)
    (hf : ∀ r, (f r).hid = r.hid) (e2 : db'.tab = db.tab) (e3 : db'.journal = db.journal) (e4 : db'.cfg = db.cfg) : AtK db' hid (f r) :=
  (h.modR f hf).frame e1 e2 e3 e4

theorem AtK.modKey {db : DB} {hid : Nat} {r : Rec} (h : AtK db hid r) (k : Nat) (f : Key → Key) : AtK (db.modKey k f) hid r :=
  h.frame (by simp) (by simp) (by simp) (by simp)
theorem AtK.ctrMod {db : DB} {hid : Nat} {r : Rec} (h : AtK db hid r) (f : Counters → Counters) : AtK (db.ctrMod f) hid r :=
  h.frame rfl rfl rfl rfl

theorem AtK.toEnd {db : DB} {hid : Nat} {r : Rec} (h : AtK db hid r) (a : Nat) : AtK (db.toEnd a) hid r := by
  refine ⟨h.cfg, nodup_toEnd h.nd a, ?_, ?_, ?_, ?_, ?_⟩
  · unfold DB.toEnd; simp only []; rw [findR_toEnd]; exact h.fnd
  · intro r' hr'; exact h.orec r' (mem_toEnd.mp hr')
  · intro b hb hfp; rw [getR_toEnd] at hfp; exact h.ok2 b hb hfp
  · intro e he hne hfp; rw [getR_toEnd] at hfp ⊢; exact h.ok1 e he hne hfp
  · intro b hb hj; rw [getR_toEnd]; exact h.oj b hb hj

/-- a journal record OF THIS RECORD (or one without lock pointer) is appended -/
theorem AtK.pushJ {db : DB} {hid : Nat} {r : Rec} (h : AtK db hid r) (r0 : Rec) (hr0 : r0.hid = hid) (b : Bool) : AtK (db.pushJ r0 b).1 hid r := by
  have hg : ∀ a, (db.pushJ r0 b).1.getR a = db.getR a := fun a => getR_frame (pushJ_recs db r0 b) a
  have e2 : ∀ a, a ≠ hid → jc (db.pushJ r0 b).1 a = jc db a := by
    intro a ha
    unfold DB.pushJ jc
    split
    · rfl
    · split
      · rfl
      · simp only []; rw [jcL_append]
        have : jcL [{ key := r0.cmd.key, isLock := b, hid := if r0.cmd.ack = true then some r0.hid else none }] a = 0 := by
          rw [jcL_zero_iff]; intro j hj _ he; simp at hj; subst hj; simp at he; omega
        omega
  refine ⟨by rw [pushJ_cfg]; exact h.cfg, by rw [pushJ_recs]; exact h.nd, by rw [pushJ_recs]; exact h.fnd, by rw [pushJ_recs]; exact h.orec, ?_, ?_, ?_⟩
  · intro a ha hfp
    rw [hg] at hfp
    have := h.ok2 a ha hfp
    have e1 : tc (db.pushJ r0 b).1 a = tc db a := by unfold tc; rw [pushJ_tab]
    have := e2 a ha
    omega
  · rw [pushJ_tab, pushJ_cfg]; intro e he hne hfp; rw [hg] at hfp ⊢; exact h.ok1 e he hne hfp
  · intro a ha hj; rw [hg]; rw [e2 a ha] at hj; exact h.oj a ha hj

end Slock.Ack
