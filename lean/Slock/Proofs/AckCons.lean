import Slock.Proofs.AckInvStep
/-! M-ACK: request accounting. `answered x out` = terminal replies in `out` for request id `x` = (connection, RequestId);
`openN x db` = lock records still owing that request an answer (queued, or ack-pending). Record-local invariant `QR`. -/
namespace Slock.Ack

abbrev Rid := Nat × Nat
def Cmd.rid (c : Cmd) : Rid := (c.conn, c.req)
def Reply.rid (r : Reply) : Rid := (r.conn, r.req)
/-- terminal = anything but the asynchronous EXPRIED notice -/
def terminal (r : Reply) : Bool := r.result != R_EXPRIED
def answered (x : Rid) (out : List Reply) : Int := ((out.filter terminal).map Reply.rid).count x
def b2i (b : Bool) : Int := if b then 1 else 0
def openR (x : Rid) (r : Rec) : Int := if r.cmd.rid = x then b2i r.queued + b2i r.pending else 0
def openN (x : Rid) (db : DB) : Int := (db.recs.map (openR x)).sum
def hit (x y : Rid) : Int := if y = x then 1 else 0

@[simp] theorem answered_nil (x : Rid) : answered x [] = 0 := rfl
theorem answered_append (x : Rid) (a b : List Reply) : answered x (a ++ b) = answered x a + answered x b := by
  unfold answered; simp [List.filter_append, List.count_append]

theorem answered_mk (x : Rid) (c : Cmd) (res l lr : Nat) (d : Option Bytes) (h : res ≠ R_EXPRIED) :
    answered x [mkReply c res l lr d] = hit x c.rid := by
  unfold answered terminal mkReply hit Reply.rid Cmd.rid
  have : (res != R_EXPRIED) = true := by simpa using h
  simp only [List.filter, this, List.map_cons, List.map_nil, List.count_cons, List.count_nil]
  by_cases e : (c.conn, c.req) = x <;> simp [e]

theorem answered_mk_expried (x : Rid) (c : Cmd) (l lr : Nat) (d : Option Bytes) : answered x [mkReply c R_EXPRIED l lr d] = 0 := by
  unfold answered terminal mkReply; simp [List.filter]

theorem openR_dead (x : Rid) (h : Nat) : openR x (deadRec h) = 0 := by
  unfold openR b2i deadRec Rec.pending NOACK; simp

/-! ### `openN` through the primitive updates -/

theorem openN_frame {db db' : DB} (x : Rid) (e : db'.recs = db.recs) : openN x db' = openN x db := by unfold openN; rw [e]

theorem sum_modRecs (g : Rec → Int) (hid : Nat) (f : Rec → Rec) (rs : List Rec) :
    ((modRecs hid f rs).map g).sum + (match findR rs hid with | some r => g r | none => 0) =
      (rs.map g).sum + (match findR rs hid with | some r => g (f r) | none => 0) := by
  induction rs with
  | nil => simp [modRecs, findR]
  | cons r rs ih =>
    unfold modRecs findR
    by_cases e : (r.hid == hid) = true
    · simp only [e, if_true, List.map_cons, List.sum_cons, List.find?]; omega
    · have e' : (r.hid == hid) = false := by simpa using e
      simp only [e', Bool.false_eq_true, if_false, List.map_cons, List.sum_cons, List.find?]
      unfold findR at ih
      omega

theorem openN_modR (x : Rid) (db : DB) (hid : Nat) (f : Rec → Rec) :
    openN x (db.modR hid f) + (match findR db.recs hid with | some r => openR x r | none => 0) =
      openN x db + (match findR db.recs hid with | some r => openR x (f r) | none => 0) := by
  unfold openN; rw [modR_recs]; exact sum_modRecs _ _ _ _

/-- the update does not change what the record owes -/
theorem openN_modR_same (x : Rid) (db : DB) (hid : Nat) (f : Rec → Rec) (hf : ∀ r, openR x (f r) = openR x r) :
    openN x (db.modR hid f) = openN x db := by
  have := openN_modR x db hid f
  split at this <;> simp [hf] at this <;> omega

theorem openN_modR_at (x : Rid) (db : DB) (hid : Nat) (f : Rec → Rec) {r : Rec} (e : findR db.recs hid = some r) :
    openN x (db.modR hid f) = openN x db + openR x (f r) - openR x r := by
  have := openN_modR x db hid f
  rw [e] at this; simp only [] at this; omega

theorem sum_filter_split (g : Rec → Int) (p : Rec → Bool) (rs : List Rec) :
    ((rs.filter (fun r => !p r) ++ rs.filter p).map g).sum = (rs.map g).sum := by
  induction rs with
  | nil => rfl
  | cons r rs ih =>
    simp only [List.map_append, List.sum_append] at ih ⊢
    by_cases e : p r = true
    · simp [List.filter, e]; omega
    · have e' : p r = false := by simpa using e
      simp [List.filter, e']; omega

theorem openN_toEnd (x : Rid) (db : DB) (hid : Nat) : openN x (db.toEnd hid) = openN x db := by
  unfold openN DB.toEnd
  simp only []
  have := sum_filter_split (openR x) (fun r => r.hid == hid) db.recs
  simpa [bne] using this

@[simp] theorem openN_modKey (x : Rid) (db : DB) (k : Nat) (f : Key → Key) : openN x (db.modKey k f) = openN x db := openN_frame x (by simp)
@[simp] theorem openN_ctrMod (x : Rid) (db : DB) (f : Counters → Counters) : openN x (db.ctrMod f) = openN x db := openN_frame x rfl

theorem openN_newRec (x : Rid) (db : DB) (c : Cmd) : openN x (db.newRec c).1 = openN x db := by
  obtain ⟨r0, e0, _, _, e3, e4, _⟩ := newRec_recs db c
  unfold openN; rw [e0]; simp [openR, b2i, e3, Rec.pending, e4]

/-- a looked-up record that is pending / queued / armed / held really is in the list -/
theorem present_of {db : DB} {h : Nat} (hp : (db.getR h).pending = true ∨ (db.getR h).queued = true ∨ (db.getR h).timeouted = false ∨
    (db.getR h).expried = false ∨ (db.getR h).depth > 0) : findR db.recs h = some (db.getR h) := by
  rw [getR_eq] at hp ⊢
  cases e : findR db.recs h with
  | some r => rfl
  | none => rw [e] at hp; simp [deadRec, Rec.pending, NOACK] at hp

/-! ### the record-local invariant -/

def QR (r : Rec) : Prop :=
  (r.timeouted = false → (r.depth > 0 → r.pending = true) ∧ (r.depth = 0 → r.queued = true)) ∧
  (r.expried = false → r.timeouted = true ∧ r.pending = false ∧ r.queued = false) ∧
  (r.queued = true → r.pending = false ∧ r.expried = true) ∧ r.ack ≤ NOACK

structure InvQ (db : DB) : Prop where
  recs : ∀ r ∈ db.recs, QR r
  cfg : reqAcks db.cfg < NOACK

theorem InvQ.frame {db db' : DB} (h : InvQ db) (e1 : db'.recs = db.recs) (e2 : db'.cfg = db.cfg) : InvQ db' :=
  ⟨by rw [e1]; exact h.recs, by rw [e2]; exact h.cfg⟩

theorem InvQ.modR {db : DB} (h : InvQ db) (hid : Nat) (f : Rec → Rec) (hf : ∀ r ∈ db.recs, r.hid = hid → QR r → QR (f r)) :
    InvQ (db.modR hid f) :=
  ⟨forall_modR db hid f h.recs hf, h.cfg⟩

theorem InvQ.modKey {db : DB} (h : InvQ db) (k : Nat) (f : Key → Key) : InvQ (db.modKey k f) := h.frame (by simp) (by simp)
theorem InvQ.ctrMod {db : DB} (h : InvQ db) (f : Counters → Counters) : InvQ (db.ctrMod f) := h.frame rfl rfl
theorem InvQ.toEnd {db : DB} (h : InvQ db) (hid : Nat) : InvQ (db.toEnd hid) :=
  ⟨fun r hr => h.recs r (mem_toEnd.mp hr), h.cfg⟩

theorem QR_dead (h : Nat) : QR (deadRec h) := by unfold QR deadRec Rec.pending NOACK; simp

theorem InvQ.getR {db : DB} (h : InvQ db) (a : Nat) : QR (db.getR a) := by
  rcases getR_mem_or_dead db a with hm | hd
  · exact h.recs _ hm
  · rw [hd]; exact QR_dead a

theorem InvQ.newRec {db : DB} (h : InvQ db) (c : Cmd) : InvQ (db.newRec c).1 := by
  obtain ⟨r0, e0, _, e2, e3, e4, _, e6, e7⟩ := newRec_recs db c
  refine ⟨?_, h.cfg⟩
  intro r hr
  rw [e0] at hr
  rcases List.mem_append.mp hr with hr | hr
  · exact h.recs r hr
  · simp at hr; subst hr
    unfold QR Rec.pending; simp [e3, e4, e6, e7, NOACK]

end Slock.Ack
