import Slock.Proofs.ConnBasic
/-! Invariants of M-CONN and their preservation by every event.

`Good` (holds while the server process is alive): shape of closed / open records, every proxy reference and every
`clients` entry points to an OPEN connection that announced the id in question, will bookkeeping.
`Safe` (holds unconditionally): no will of an open connection has reached the engine. -/
namespace Slock.Conn

structure Good (s : Server) : Prop where
  closedShape : ∀ (c : Nat) (x : Conn), s.conns[c]? = some x → x.closed = true →
    x.inited = false ∧ x.target ≠ .self ∧ x.wills = []
  openShape : ∀ (c : Nat) (x : Conn), s.conns[c]? = some x → x.closed = false → x.target = .self
  adopted : ∀ (c : Nat) (x : Conn) (d : Nat), s.conns[c]? = some x → x.target = .conn d →
    x.cid ≠ 0 ∧ ∃ y : Conn, s.conns[d]? = some y ∧ y.closed = false ∧ x.cid ∈ y.announced
  clientsOk : ∀ (k d : Nat), aget s.clients k = some d →
    ∃ y : Conn, s.conns[d]? = some y ∧ y.closed = false ∧ y.inited = true ∧ y.cid = k ∧ k ∈ y.announced ∧ y.kind = .binary
  willsOpen : ∀ (c : Nat) (x : Conn), s.conns[c]? = some x → x.closed = false → x.reg = x.wills.map (·.tok)
  willsClosed : ∀ (c : Nat) (x : Conn), s.conns[c]? = some x → x.closed = true → execOf s c = x.reg
  announcedOwn : ∀ (c : Nat) (x : Conn), s.conns[c]? = some x → (x.cid ≠ 0 ∨ x.inited = true) → x.cid ∈ x.announced

structure Safe (s : Server) : Prop where
  engRange : ∀ e ∈ s.willLog, e.1 < s.conns.length
  execOpen : ∀ (c : Nat) (x : Conn), s.conns[c]? = some x → x.closed = false → execOf s c = []

theorem lt_of_get {l : List Conn} {c : Nat} {x : Conn} (h : l[c]? = some x) : c < l.length :=
  (List.getElem?_eq_some_iff.mp h).1

theorem get_set_self {l : List Conn} {c : Nat} {x : Conn} (h : l[c]? = some x) (x' : Conn) : (l.set c x')[c]? = some x' :=
  List.getElem?_set_self (lt_of_get h)

theorem get_set_ne {l : List Conn} {c j : Nat} (h : j ≠ c) (x' : Conn) : (l.set c x')[j]? = l[j]? :=
  List.getElem?_set_ne (fun e => h e.symm)

theorem get_set_cases {l : List Conn} {c : Nat} {x : Conn} (hx : l[c]? = some x) (x' : Conn) (j : Nat) (y : Conn)
    (h : (l.set c x')[j]? = some y) : (j = c ∧ y = x') ∨ (j ≠ c ∧ l[j]? = some y) := by
  by_cases e : j = c
  · subst e; rw [get_set_self hx] at h; exact .inl ⟨rfl, (Option.some.inj h).symm⟩
  · rw [get_set_ne e] at h; exact .inr ⟨e, h⟩

/-! ### master lemma: one record (and the maps) updated, engine untouched -/
theorem good_update {s : Server} (hg : Good s) {c : Nat} {x : Conn} (hx : s.conns[c]? = some x) (x' : Conn)
    (cl' ow' : List (Nat × Nat))
    (hA1 : x'.closed = true → x'.inited = false ∧ x'.target ≠ .self ∧ x'.wills = [])
    (hA2 : x'.closed = false → x'.target = .self ∧ x'.reg = x'.wills.map (·.tok))
    (hB : ∀ d, x'.target = .conn d → d ≠ c ∧ x'.cid ≠ 0 ∧ ∃ y : Conn, s.conns[d]? = some y ∧ y.closed = false ∧ x'.cid ∈ y.announced)
    (hC1 : x'.closed = x.closed) (hC2 : ∀ k ∈ x.announced, k ∈ x'.announced)
    (hD : ∀ k d, aget cl' k = some d →
      (d = c ∧ x'.closed = false ∧ x'.inited = true ∧ x'.cid = k ∧ k ∈ x'.announced ∧ x'.kind = .binary) ∨
      (d ≠ c ∧ aget s.clients k = some d))
    (hE : x'.closed = true → execOf s c = x'.reg)
    (hF : (x'.cid ≠ 0 ∨ x'.inited = true) → x'.cid ∈ x'.announced) :
    Good { s with conns := s.conns.set c x', clients := cl', owner := ow' } := by
  have lkc := get_set_self hx x'
  constructor
  · intro j y hj hcl
    rcases get_set_cases hx x' j y hj with ⟨_, rfl⟩ | ⟨_, h⟩
    · exact hA1 hcl
    · exact hg.closedShape j y h hcl
  · intro j y hj hop
    rcases get_set_cases hx x' j y hj with ⟨_, rfl⟩ | ⟨_, h⟩
    · exact (hA2 hop).1
    · exact hg.openShape j y h hop
  · intro j y d hj ht
    rcases get_set_cases hx x' j y hj with ⟨_, rfl⟩ | ⟨_, h⟩
    · obtain ⟨hd, hnz, z, hz, hzo, hza⟩ := hB d ht
      exact ⟨hnz, z, by show (s.conns.set c y)[d]? = some z; rw [get_set_ne hd]; exact hz, hzo, hza⟩
    · obtain ⟨hnz, z, hz, hzo, hza⟩ := hg.adopted j y d h ht
      by_cases hd : d = c
      · subst hd
        rw [hx] at hz; cases hz
        exact ⟨hnz, x', lkc, by rw [hC1]; exact hzo, hC2 _ hza⟩
      · exact ⟨hnz, z, by show (s.conns.set c x')[d]? = some z; rw [get_set_ne hd]; exact hz, hzo, hza⟩
  · intro k d hk
    rcases hD k d hk with ⟨rfl, h⟩ | ⟨hd, h⟩
    · exact ⟨x', lkc, h⟩
    · obtain ⟨z, hz, hrest⟩ := hg.clientsOk k d h
      exact ⟨z, by show (s.conns.set c x')[d]? = some z; rw [get_set_ne hd]; exact hz, hrest⟩
  · intro j y hj hop
    rcases get_set_cases hx x' j y hj with ⟨_, rfl⟩ | ⟨_, h⟩
    · exact (hA2 hop).2
    · exact hg.willsOpen j y h hop
  · intro j y hj hcl
    rcases get_set_cases hx x' j y hj with ⟨rfl, rfl⟩ | ⟨_, h⟩
    · exact hE hcl
    · exact hg.willsClosed j y h hcl
  · intro j y hj hh
    rcases get_set_cases hx x' j y hj with ⟨_, rfl⟩ | ⟨_, h⟩
    · exact hF hh
    · exact hg.announcedOwn j y h hh

/-- a record changed in fields no invariant reads (`awaiting`, `halfClosed`), or an open record's wills extended -/
theorem good_update_minor {s : Server} (hg : Good s) {c : Nat} {x : Conn} (hx : s.conns[c]? = some x) (x' : Conn)
    (ow' : List (Nat × Nat))
    (h1 : x'.closed = x.closed) (h2 : x'.inited = x.inited) (h3 : x'.cid = x.cid) (h4 : x'.target = x.target)
    (h5 : x'.kind = x.kind) (h6 : x'.announced = x.announced)
    (h7 : x.closed = true → x'.wills = x.wills ∧ x'.reg = x.reg)
    (h8 : x.closed = false → x'.reg = x'.wills.map (·.tok)) :
    Good { s with conns := s.conns.set c x', owner := ow' } := by
  refine good_update hg hx x' s.clients ow' ?_ ?_ ?_ h1 ?_ ?_ ?_ ?_
  · intro hcl
    rw [h1] at hcl
    obtain ⟨a, b, d⟩ := hg.closedShape c x hx hcl
    exact ⟨by rw [h2]; exact a, by rw [h4]; exact b, by rw [(h7 hcl).1]; exact d⟩
  · intro hop
    rw [h1] at hop
    exact ⟨by rw [h4]; exact hg.openShape c x hx hop, h8 hop⟩
  · intro d ht
    rw [h4] at ht
    obtain ⟨hnz, y, hy, hyo, hya⟩ := hg.adopted c x d hx ht
    refine ⟨?_, by rw [h3]; exact hnz, y, hy, hyo, by rw [h3]; exact hya⟩
    intro e; subst e
    rw [hx] at hy; cases hy
    have := hg.openShape d x hx hyo
    rw [this] at ht; cases ht
  · intro k hk; rw [h6]; exact hk
  · intro k d hk
    by_cases hd : d = c
    · subst hd
      obtain ⟨y, hy, a, b, e, f, g⟩ := hg.clientsOk k d hk
      rw [hx] at hy; cases hy
      exact .inl ⟨rfl, by rw [h1]; exact a, by rw [h2]; exact b, by rw [h3]; exact e, by rw [h6]; exact f, by rw [h5]; exact g⟩
    · exact .inr ⟨hd, hk⟩
  · intro hcl
    rw [h1] at hcl
    rw [(h7 hcl).2]
    exact hg.willsClosed c x hx hcl
  · intro hh
    rw [h3, h6]
    rw [h3, h2] at hh
    exact hg.announcedOwn c x hx hh

theorem good_owner {s : Server} (hg : Good s) (ow' : List (Nat × Nat)) : Good { s with owner := ow' } :=
  ⟨hg.closedShape, hg.openShape, hg.adopted, hg.clientsOk, hg.willsOpen, hg.willsClosed, hg.announcedOwn⟩

/-! ### open -/
theorem get_append_cases (l : List Conn) (n : Conn) (j : Nat) (y : Conn) (h : (l ++ [n])[j]? = some y) :
    l[j]? = some y ∨ (j = l.length ∧ y = n) := by
  rw [List.getElem?_append] at h
  split at h
  · exact .inl h
  · rename_i hlt
    have : j - l.length = 0 ∨ j - l.length ≥ 1 := by omega
    rcases this with e | e
    · rw [e] at h; simp at h
      exact .inr ⟨by omega, h.symm⟩
    · have : [n][j - l.length]? = none := List.getElem?_eq_none (by simpa using e)
      rw [this] at h; cases h

theorem get_append_old (l : List Conn) (n : Conn) (j : Nat) (y : Conn) (h : l[j]? = some y) : (l ++ [n])[j]? = some y := by
  rw [List.getElem?_append_left (lt_of_get h)]; exact h

theorem good_open {s : Server} (hg : Good s) (hs : Safe s) (k : Kind) (o : Option Nat) :
    Good { s with conns := s.conns ++ [{ kind := k, outer := o }] } := by
  constructor
  · intro j y hj hcl
    rcases get_append_cases _ _ j y hj with h | ⟨_, rfl⟩
    · exact hg.closedShape j y h hcl
    · cases hcl
  · intro j y hj hop
    rcases get_append_cases _ _ j y hj with h | ⟨_, rfl⟩
    · exact hg.openShape j y h hop
    · rfl
  · intro j y d hj ht
    rcases get_append_cases _ _ j y hj with h | ⟨_, rfl⟩
    · obtain ⟨hnz, z, hz, r⟩ := hg.adopted j y d h ht
      exact ⟨hnz, z, get_append_old _ _ d z hz, r⟩
    · cases ht
  · intro kk d hk
    obtain ⟨z, hz, r⟩ := hg.clientsOk kk d hk
    exact ⟨z, get_append_old _ _ d z hz, r⟩
  · intro j y hj hop
    rcases get_append_cases _ _ j y hj with h | ⟨_, rfl⟩
    · exact hg.willsOpen j y h hop
    · rfl
  · intro j y hj hcl
    rcases get_append_cases _ _ j y hj with h | ⟨_, rfl⟩
    · exact hg.willsClosed j y h hcl
    · cases hcl
  · intro j y hj hh
    rcases get_append_cases _ _ j y hj with h | ⟨_, rfl⟩
    · exact hg.announcedOwn j y h hh
    · rcases hh with hh | hh
      · exact absurd rfl hh
      · cases hh

theorem safe_open {s : Server} (hs : Safe s) (k : Kind) (o : Option Nat) :
    Safe { s with conns := s.conns ++ [{ kind := k, outer := o }] } := by
  have fresh : execOf s s.conns.length = [] :=
    execL_none _ _ (fun e he => Nat.ne_of_lt (hs.engRange e he))
  constructor
  · intro e he
    have := hs.engRange e he
    simp only [List.length_append, List.length_cons, List.length_nil]; omega
  · intro j y hj hop
    rcases get_append_cases _ _ j y hj with h | ⟨rfl, _⟩
    · exact hs.execOpen j y h hop
    · exact fresh

/-- engine untouched, records keep kind and do not re-open -/
theorem safe_same_engine {s s' : Server} (hs : Safe s) (he : s'.willLog = s.willLog) (hl : s'.conns.length = s.conns.length)
    (hr : ∀ (j : Nat) (y' : Conn), s'.conns[j]? = some y' → ∃ y : Conn, s.conns[j]? = some y ∧ (y'.closed = false → y.closed = false) ∧ y'.kind = y.kind) :
    Safe s' := by
  constructor
  · intro e h; rw [he] at h; rw [hl]; exact hs.engRange e h
  · intro j y' hj hop
    obtain ⟨y, hy, h1, _⟩ := hr j y' hj
    show execL s'.willLog j = []
    rw [he]; exact hs.execOpen j y hy (h1 hop)

theorem safe_set {s : Server} (hs : Safe s) {c : Nat} {x : Conn} (hx : s.conns[c]? = some x) (x' : Conn)
    (cl' ow' : List (Nat × Nat)) (h1 : x'.closed = false → x.closed = false) (h2 : x'.kind = x.kind) :
    Safe { s with conns := s.conns.set c x', clients := cl', owner := ow' } := by
  refine safe_same_engine hs rfl (by simp) ?_
  intro j y' hj
  rcases get_set_cases hx x' j y' hj with ⟨rfl, rfl⟩ | ⟨_, h⟩
  · exact ⟨x, hx, h1, h2⟩
  · exact ⟨y', h, id, rfl⟩

end Slock.Conn
