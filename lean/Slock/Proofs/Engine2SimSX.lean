import Slock.Proofs.Engine2SimX
/-! Simulation stage 2 → stage 1: `SX X w0 w` — `w` is `w0` after helper steps that leave the key's `key` / `waited` / three queues alone
and change the stage-1 view of no lock record outside `X`. -/
namespace Slock.Sim
open Slock Slock.Engine2
open Slock.Engine (has)

structure SX (X : Nat → Prop) (w0 w : W) : Prop where
  key : w.k.key = w0.k.key
  waited : w.k.waited = w0.k.waited
  q : w.k.queues = w0.k.queues
  p : PKeepX πA X w.k w0.k

namespace SX
variable {X : Nat → Prop} {w0 w : W}

theorem refl (w : W) : SX X w w := ⟨rfl, rfl, rfl, PKeepX.refl _⟩

theorem step {w' : W} (h : SX X w0 w) (h1 : w'.k.key = w.k.key) (h2 : w'.k.waited = w.k.waited) (h3 : w'.k.queues = w.k.queues)
    (h4 : PKeepX πA X w'.k w.k) : SX X w0 w' := ⟨h1.trans h.key, h2.trans h.waited, h3.trans h.q, h4.trans h.p⟩

theorem of_k {w' : W} (h : SX X w0 w) (e : w'.k = w.k) : SX X w0 w' := h.step (by rw [e]) (by rw [e]) (by rw [e]) (by rw [e]; exact PKeepX.refl _)
theorem reply (h : SX X w0 w) (c : Cmd) (a b : Nat) (d : Option Bytes) : SX X w0 (w.reply c a b d) := h.of_k rfl
theorem ctr (h : SX X w0 w) (f : Counters → Counters) : SX X w0 (w.ctr f) := h.of_k rfl
/-- any edit of a record in `X` -/
theorem modR_in (h : SX X w0 w) (rid : Nat) (f : Rec → Rec) (hf : ∀ r, (f r).rid = r.rid) (hx : X rid) : SX X w0 (w.modR rid f) :=
  h.step rfl rfl rfl (PKeepX.modRec w.k rid f hf hx)
/-- an edit stage 1 does not see -/
theorem modR_eq (h : SX X w0 w) (rid : Nat) (f : Rec → Rec) (hf : ∀ r, (f r).rid = r.rid) (hp : ∀ r, πA (f r) = πA r) : SX X w0 (w.modR rid f) :=
  h.step rfl rfl rfl (PKeepX.of_pk (PKeep.modRec w.k rid f hf hp))
theorem modK_same (h : SX X w0 w) (f : Key → Key) (h1 : (f w.k).key = w.k.key) (h2 : (f w.k).waited = w.k.waited) (h3 : (f w.k).queues = w.k.queues)
    (h4 : (f w.k).recs = w.k.recs) : SX X w0 (w.modK f) := h.step h1 h2 h3 (PKeepX.of_eq h4)
theorem when (h : SX X w0 w) (b : Bool) (f : W → W) (hf : SX X w0 w → SX X w0 (f w)) : SX X w0 (w.when b f) := by
  cases b
  · exact h
  · exact hf h

theorem procData (h : SX X w0 w) (t : Slock.Value.CmdType) (c : Cmd) (f : Option Bytes) (rid : Nat) : SX X w0 (w.procData t c f rid) := by
  refine h.step ?_ (procData_waited w t c f rid) (queues_procData w t c f rid) (PKeepX.of_pk (pk_procData ins_πA w t c f rid))
  unfold W.procData; split
  · rfl
  · simp only []; split
    · rfl
    · split <;> rfl

theorem pushLockAof (h : SX X w0 w) (rid flag : Nat) : SX X w0 (w.pushLockAof rid flag) := by
  refine h.step ?_ (pushLockAof_waited w rid flag) (queues_pushLockAof w rid flag) (PKeepX.of_pk (pk_pushLockAof ins_πA w rid flag))
  unfold W.pushLockAof; split
  · rfl
  · simp only []; split
    · rfl
    · show (aofLockData w.k true rid).1.key = w.k.key
      unfold aofLockData; split
      · rfl
      · split
        · split <;> rfl
        · rfl

theorem pushLockAofN (n : Nat) (h : SX X w0 w) (rid : Nat) : SX X w0 (W.pushLockAofN n w rid) := by
  induction n generalizing w with
  | zero => exact h
  | succ n ih => unfold W.pushLockAofN; exact ih (h.pushLockAof rid 0)

theorem pushUnLockAof (h : SX X w0 w) (rid : Nat) (lc : Cmd) (fa ia : Bool) (flag : Nat) : SX X w0 (w.pushUnLockAof rid lc fa ia flag) := by
  refine h.step ?_ (pushUnLockAof_waited w rid lc fa ia flag) (qk_pushUnLockAof w rid lc fa ia flag).q
    (PKeepX.of_pk (pk_pushUnLockAof ins_πA w rid lc fa ia flag))
  unfold W.pushUnLockAof; split
  · rfl
  · split
    · rfl
    · show (aofLockData w.k false rid).1.key = w.k.key
      unfold aofLockData; split
      · rfl
      · split
        · split <;> rfl
        · rfl

theorem journalLock (h : SX X w0 w) (rid flag : Nat) : SX X w0 (w.journalLock rid flag) := h.when _ _ (fun h => h.pushLockAof rid flag)
theorem journalUnlock (h : SX X w0 w) (rid : Nat) (fa ia : Bool) (flag : Nat) : SX X w0 (w.journalUnlock rid fa ia flag) :=
  h.when _ _ (fun h => h.pushUnLockAof rid _ fa ia flag)
theorem ref (h : SX X w0 w) (rid : Nat) : SX X w0 (w.ref rid) := h.modR_eq rid _ (fun _ => rfl) (fun _ => rfl)

theorem addTimeOut (h : SX X w0 w) (rid : Nat) (hx : X rid) : SX X w0 (w.addTimeOut rid) :=
  h.step rfl rfl rfl (PKeepX.modRec w.k rid _ (fun _ => rfl) hx)
theorem schedExpried (h : SX X w0 w) (rid : Nat) (hx : X rid) : SX X w0 (w.schedExpried rid) :=
  h.step rfl rfl rfl (PKeepX.modRec w.k rid _ (fun _ => rfl) hx)
theorem addExpried (h : SX X w0 w) (rid : Nat) (hx : X rid) : SX X w0 (w.addExpried rid) := by
  unfold W.addExpried
  simp only []
  exact (h.schedExpried rid hx).when _ _ (fun h' => pushLockAofN _ h' rid)
theorem removeLongT (h : SX X w0 w) (rid : Nat) (hx : X rid) : SX X w0 (w.removeLongT rid) := by
  unfold W.removeLongT Key.unrefOnly
  exact h.step rfl rfl rfl ((PKeepX.modRec _ rid _ (by intro _; rfl) hx).trans (PKeepX.modRec w.k rid _ (by intro _; rfl) hx))
theorem removeLongE (h : SX X w0 w) (rid : Nat) (hx : X rid) : SX X w0 (w.removeLongE rid) := by
  unfold W.removeLongE Key.unrefOnly
  exact h.step rfl rfl rfl ((PKeepX.modRec _ rid _ (by intro _; rfl) hx).trans (PKeepX.modRec w.k rid _ (by intro _; rfl) hx))
theorem dropLongT (h : SX X w0 w) (rid : Nat) (hx : X rid) : SX X w0 (w.dropLongT rid) := h.when _ _ (fun h => h.removeLongT rid hx)
theorem dropLongE (h : SX X w0 w) (rid : Nat) (hx : X rid) : SX X w0 (w.dropLongE rid) := h.when _ _ (fun h => h.removeLongE rid hx)

theorem updateLocked (h : SX X w0 w) (rid : Nat) (c : Cmd) (hx : X rid) : SX X w0 (w.updateLocked rid c) := by
  unfold W.updateLocked
  simp only []
  have hf := updF_fields w.db (!(w.k.getR rid).isAof && w.k.current == some rid && w.k.locks.isEmpty) c
  refine SX.modR_in ?_ rid (fun r => { r with conn := c.conn }) (by intro _; rfl) hx
  refine SX.when (h.modR_in rid _ (fun r => (hf r).1) hx) _ _ ?_
  intro h'
  exact ((h'.removeLongE rid hx).addExpried rid hx).ref rid

theorem grantNoHold (h : SX X w0 w) (rid : Nat) : SX X w0 (w.grantNoHold rid) := by
  unfold W.grantNoHold
  simp only []
  refine SX.modR_eq ?_ rid (fun r => { r with data := none }) (by intro _; rfl) (by intro _; rfl)
  exact SX.when (h.procData _ _ _ _) _ (·.pushLockAof rid 0) (fun h' => h'.pushLockAof rid 0)

theorem free (h : SX X w0 w) (rid : Nat) : SX X w0 (w.modK (·.free rid)) := by
  obtain ⟨a, b, c, d, _⟩ := free_queues w.k rid
  refine h.step ?_ d (queues_mk c a b) (PKeepX.of_pk (PKeep.free _ _))
  show (w.k.free rid).key = w.k.key
  unfold Key.free; split <;> rfl

theorem newLock (h : SX X w0 w) (c : Cmd) (d : Option Bytes) (hx : X w.db.nextRid) : SX X w0 (w.newLock c d).1 :=
  h.step rfl rfl rfl (PKeepX.addRec w.k _ hx)

end SX

end Slock.Sim
