import Slock.Model.Aof
/-!
Algebra of the reference replay `recover`: what one record does to the hold it names, that it leaves every other hold
alone, and that a LOCK followed by a full UNLOCK of a fresh id is the identity.
-/
namespace Slock.Aof

theorem find_map_replace (l : List JHold) (p : JHold → Bool) (new : JHold) (hp : p new = true) (x : JHold)
    (h : l.find? p = some x) : (l.map (fun y => if p y then new else y)).find? p = some new := by
  induction l with
  | nil => simp at h
  | cons a t ih =>
    by_cases ha : p a = true
    · simp [List.find?, ha, hp]
    · have : p a = false := by simpa using ha
      simp only [List.find?, this] at h
      simp [List.map, List.find?, this, ih h]

theorem find_map_other (l : List JHold) (p q : JHold → Bool) (f : JHold → JHold)
    (hq : ∀ y, q (if p y then f y else y) = q y) (hdis : ∀ y, p y = true → q y = true → False) :
    (l.map (fun y => if p y then f y else y)).find? q = l.find? q := by
  induction l with
  | nil => rfl
  | cons a t ih =>
    simp only [List.map, List.find?]
    rw [hq a]
    cases hqa : q a with
    | true =>
      have : p a = false := by
        cases hpa : p a with
        | true => exact (hdis a hpa hqa).elim
        | false => rfl
      simp [this]
    | false => simpa using ih

theorem find_filter_not (l : List JHold) (p : JHold → Bool) : (l.filter (fun y => !p y)).find? p = none := by
  induction l with
  | nil => rfl
  | cons a t ih =>
    cases ha : p a with
    | true => simp [List.filter, ha, ih]
    | false => simp [List.filter, List.find?, ha, ih]

theorem find_filter_other (l : List JHold) (p q : JHold → Bool) (hdis : ∀ y, p y = true → q y = true → False) :
    (l.filter (fun y => !p y)).find? q = l.find? q := by
  induction l with
  | nil => rfl
  | cons a t ih =>
    cases hqa : q a with
    | true =>
      have : p a = false := by
        cases hpa : p a with
        | true => exact (hdis a hpa hqa).elim
        | false => rfl
      simp [List.filter, List.find?, this, hqa]
    | false =>
      cases hpa : p a with
      | true => simp [List.filter, List.find?, hpa, hqa, ih]
      | false => simp [List.filter, List.find?, hpa, hqa, ih]

theorem is_terms (r : JRec) (d : Nat) : (r.terms d).is r.db r.key r.id = true := by
  simp [JRec.terms, JHold.is]

theorem is_disjoint (db key id db' key' id' : Nat) (hne : (db, key, id) ≠ (db', key', id')) (y : JHold)
    (h1 : y.is db key id = true) (h2 : y.is db' key' id' = true) : False := by
  simp only [JHold.is, Bool.and_eq_true, beq_iff_eq] at h1 h2
  apply hne
  rw [← h1.1.1, ← h1.1.2, ← h1.2, h2.1.1, h2.1.2, h2.2]

theorem setValue_get (st : JState) (db key : Nat) (v : Bytes) (a b c : Nat) : (st.setValue db key v).get a b c = st.get a b c := rfl

/-- A LOCK record for an id that is not held creates the hold with depth 1 and the record's terms. -/
theorem lock_new (st : JState) (r : JRec) (hl : r.isLock = true) (hn : st.get r.db r.key r.id = none) :
    (recoverStep st r).get r.db r.key r.id = some (r.terms 1) := by
  unfold recoverStep
  simp only [hl, if_true, hn]
  have : ({ st with holds := st.holds ++ [r.terms 1] } : JState).get r.db r.key r.id = some (r.terms 1) := by
    unfold JState.get at hn ⊢
    simp [List.find?_append, hn, is_terms]
  cases r.data <;> simp [setValue_get, this]

/-- A LOCK record without the update flag for a held id adds one level (and installs the record's terms). -/
theorem relock_depth (st : JState) (r : JRec) (h : JHold) (hl : r.isLock = true) (hf : r.flag &&& 0x02 = 0)
    (hh : st.get r.db r.key r.id = some h) :
    (recoverStep st r).get r.db r.key r.id = some (r.terms (h.depth + 1)) := by
  unfold recoverStep
  simp only [hl, if_true, hh, hf, ne_eq, not_true_eq_false, if_false]
  have : ({ st with holds := st.holds.map (fun x => if x.is r.db r.key r.id then r.terms (h.depth + 1) else x) } : JState).get r.db r.key r.id
      = some (r.terms (h.depth + 1)) := find_map_replace st.holds _ _ (is_terms r _) h hh
  cases r.data <;> simp [setValue_get, this]

/-- A LOCK record WITH the update flag for a held id replaces the terms and keeps the depth. -/
theorem update_depth (st : JState) (r : JRec) (h : JHold) (hl : r.isLock = true) (hf : r.flag &&& 0x02 ≠ 0)
    (hh : st.get r.db r.key r.id = some h) :
    (recoverStep st r).get r.db r.key r.id = some (r.terms h.depth) := by
  unfold recoverStep
  simp only [hl, if_true, hh, hf, ne_eq, not_false_eq_true]
  have : ({ st with holds := st.holds.map (fun x => if x.is r.db r.key r.id then r.terms h.depth else x) } : JState).get r.db r.key r.id
      = some (r.terms h.depth) := find_map_replace st.holds _ _ (is_terms r _) h hh
  cases r.data <;> simp [setValue_get, this]

/-- An UNLOCK record with Rcount = 0 removes the hold, whatever its depth. -/
theorem unlock_full (st : JState) (r : JRec) (hl : r.isLock = false) (hr : r.rcount = 0) :
    (recoverStep st r).get r.db r.key r.id = none := by
  unfold recoverStep
  simp only [hl, Bool.false_eq_true, if_false]
  cases hh : st.get r.db r.key r.id with
  | none => simpa using hh
  | some h =>
    simp only [hr, true_or, if_true]
    cases r.data <;> simp only [JState.removeHold, JState.get, JState.setValue] <;> exact find_filter_not _ _

/-- An UNLOCK record with Rcount > 0 on a hold of depth ≥ 2 takes exactly one level and changes nothing else of the hold. -/
theorem unlock_partial (st : JState) (r : JRec) (h : JHold) (hl : r.isLock = false) (hr : r.rcount ≠ 0) (hd : 2 ≤ h.depth)
    (hh : st.get r.db r.key r.id = some h) :
    (recoverStep st r).get r.db r.key r.id = some { h with depth := h.depth - 1 } := by
  unfold recoverStep
  have hc : ¬ (r.rcount = 0 ∨ h.depth ≤ 1) := by omega
  simp only [hl, Bool.false_eq_true, if_false, hh, hc]
  have key : ∀ (l : List JHold), l.find? (·.is r.db r.key r.id) = some h →
      (l.map (fun x => if x.is r.db r.key r.id then { x with depth := x.depth - 1 } else x)).find? (·.is r.db r.key r.id)
        = some { h with depth := h.depth - 1 } := by
    intro l
    induction l with
    | nil => intro hx; simp at hx
    | cons a t ih =>
      intro hx
      cases ha : a.is r.db r.key r.id with
      | true =>
        simp only [List.find?, ha] at hx
        injection hx with hx; subst hx
        have h2 : ({ a with depth := a.depth - 1 } : JHold).is r.db r.key r.id = true := ha
        simp only [List.map, ha, if_true, List.find?, h2]
      | false =>
        simp only [List.find?, ha] at hx
        simp [List.map, List.find?, ha, ih hx]
  cases r.data <;> simp only [JState.get, JState.setValue] <;> exact key st.holds hh

/-- The last level: an UNLOCK record on a hold of depth ≤ 1 removes it, whatever its Rcount. -/
theorem unlock_last (st : JState) (r : JRec) (h : JHold) (hl : r.isLock = false) (hd : h.depth ≤ 1)
    (hh : st.get r.db r.key r.id = some h) : (recoverStep st r).get r.db r.key r.id = none := by
  unfold recoverStep
  simp only [hl, Bool.false_eq_true, if_false, hh, hd, or_true, if_true]
  cases r.data <;> simp only [JState.removeHold, JState.get, JState.setValue] <;> exact find_filter_not _ _

/-- Frame: a record never touches a hold with another (db, key, id). -/
theorem other_hold_untouched (st : JState) (r : JRec) (db key id : Nat) (hne : (r.db, r.key, r.id) ≠ (db, key, id)) :
    (recoverStep st r).get db key id = st.get db key id := by
  have hdis := is_disjoint r.db r.key r.id db key id hne
  unfold recoverStep
  by_cases hl : r.isLock = true
  · simp only [hl, if_true]
    cases hh : st.get r.db r.key r.id with
    | none =>
      have : ({ st with holds := st.holds ++ [r.terms 1] } : JState).get db key id = st.get db key id := by
        unfold JState.get
        rw [List.find?_append]
        have : (r.terms 1).is db key id = false := by
          cases hx : (r.terms 1).is db key id with
          | true => exact (hdis _ (is_terms r 1) hx).elim
          | false => rfl
        simp [List.find?, this]
      cases r.data <;> simp [setValue_get, this]
    | some h =>
      have : ∀ d, ({ st with holds := st.holds.map (fun x => if x.is r.db r.key r.id then r.terms d else x) } : JState).get db key id
          = st.get db key id := by
        intro d
        unfold JState.get
        apply find_map_other st.holds (·.is r.db r.key r.id) (·.is db key id) (fun _ => r.terms d)
        · intro y
          by_cases hy : y.is r.db r.key r.id = true
          · simp only [hy, if_true]
            have h1 : (r.terms d).is db key id = false := by
              cases hx : (r.terms d).is db key id with
              | true => exact (hdis _ (is_terms r d) hx).elim
              | false => rfl
            have h2 : y.is db key id = false := by
              cases hx : y.is db key id with
              | true => exact (hdis _ hy hx).elim
              | false => rfl
            rw [h1, h2]
          · simp [hy]
        · exact hdis
      cases r.data <;> simp [setValue_get, this]
  · have hl' : r.isLock = false := by simpa using hl
    simp only [hl', Bool.false_eq_true, if_false]
    cases hh : st.get r.db r.key r.id with
    | none => rfl
    | some h =>
      simp only
      by_cases hc : r.rcount = 0 ∨ h.depth ≤ 1
      · simp only [hc, if_true]
        cases r.data <;> simp only [JState.removeHold, JState.get, JState.setValue] <;>
          exact find_filter_other _ _ _ hdis
      · simp only [hc, if_false]
        cases r.data <;> simp only [JState.get, JState.setValue] <;>
          (apply find_map_other st.holds (·.is r.db r.key r.id) (·.is db key id) (fun x => { x with depth := x.depth - 1 })
           · intro y
             by_cases hy : y.is r.db r.key r.id = true
             · simp only [hy, if_true]; rfl
             · simp [hy]
           · exact hdis)

/-- LOCK of a fresh id followed by its full UNLOCK (no value frames) is the identity on the whole state — provided the key keeps
another hold, or has no value (values live and die with the key's holds). -/
theorem lock_unlock_identity (st : JState) (r u : JRec) (hl : r.isLock = true) (hu : u.isLock = false)
    (hid : u.db = r.db ∧ u.key = r.key ∧ u.id = r.id) (hr : u.rcount = 0) (hd1 : r.data = none) (hd2 : u.data = none)
    (hn : st.get r.db r.key r.id = none)
    (hv : st.holds.any (fun h => h.db == r.db && h.key == r.key) = true ∨ ∀ p ∈ st.values, p.1 ≠ (r.db, r.key)) :
    recoverStep (recoverStep st r) u = st := by
  obtain ⟨h1, h2, h3⟩ := hid
  have hstep : recoverStep st r = { st with holds := st.holds ++ [r.terms 1] } := by
    unfold recoverStep; simp only [hl, if_true, hn, hd1]
  have hget : ({ st with holds := st.holds ++ [r.terms 1] } : JState).get u.db u.key u.id = some (r.terms 1) := by
    rw [h1, h2, h3, ← hstep]; exact lock_new st r hl hn
  have hnone : ∀ x ∈ st.holds, x.is r.db r.key r.id = false := by
    intro x hx
    unfold JState.get at hn
    have := List.find?_eq_none.mp hn x hx
    simpa using this
  have hfilt : (st.holds ++ [r.terms 1]).filter (fun h => !h.is r.db r.key r.id) = st.holds := by
    rw [List.filter_append]
    have a1 : st.holds.filter (fun h => !h.is r.db r.key r.id) = st.holds := by
      apply List.filter_eq_self.mpr; intro x hx; simp [hnone x hx]
    simp [a1, is_terms]
  rw [hstep]
  unfold recoverStep
  simp only [hu, Bool.false_eq_true, if_false, hget, hd2, hr, true_or, if_true]
  unfold JState.removeHold
  simp only [h1, h2, h3, hfilt]
  rcases hv with hv | hv
  · simp [hv]
  · have : st.values.filter (fun p => !decide (p.1 = (r.db, r.key))) = st.values := by
      apply List.filter_eq_self.mpr; intro p hp; simpa using hv p hp
    cases hany : st.holds.any (fun h => h.db == r.db && h.key == r.key)
    · simp only [Bool.false_eq_true, if_false, ne_eq, decide_not, this]
    · simp

theorem recover_append (a b : List JRec) : recover (a ++ b) = b.foldl recoverStep (recover a) := by
  unfold recover; rw [List.foldl_append]

end Slock.Aof
