import Slock.Proofs.EngineExpiry
/-!
Queue order as a REACHABLE-state invariant (used by C19's PriorityLock hand-over): every key's wait queue stays sorted by
priority (higher first) through every operation — lock, unlock, both sweeps of a tick.

The model identifies a queued request by (connection, RequestId) when the timeout sweep re-arms it (`updateWaiter`), so the
invariant needs what real clients guarantee: a request id is not reused while a request bearing it is still queued
(`Fresh`). `IdDet` is the resulting state invariant: queued requests with equal ids are equal commands.
-/
namespace Slock.Engine

def IdDet (db : DB) : Prop :=
  ∀ a ∈ allW db, ∀ b ∈ allW db, a.cmd.req = b.cmd.req → a.conn = b.conn → a.cmd = b.cmd

/-- queued requests of `d` agree with those of `d0` on equal ids -/
def Agree (d d0 : DB) : Prop :=
  ∀ x ∈ allW d, ∀ y ∈ allW d0, x.cmd.req = y.cmd.req → x.conn = y.conn → x.cmd = y.cmd

def DBSorted (db : DB) : Prop := ∀ k ∈ db.keys, PrioSorted k.waiters

def QInv (db : DB) : Prop := IdDet db ∧ DBSorted db

/-- the LOCK command's id is not borne by any queued request -/
def Fresh (db : DB) (c : Cmd) : Prop := ∀ w ∈ allW db, ¬ (w.cmd.req = c.req ∧ w.conn = c.conn)

theorem IdDet.of_sub {db db' : DB} (h : IdDet db) (hs : ∀ x ∈ allW db', x ∈ allW db) : IdDet db' :=
  fun a ha b hb => h a (hs a ha) b (hs b hb)

theorem IdDet.init (n : Nat) : IdDet (DB.init n) := by intro a ha; simp [allW, DB.init] at ha
theorem DBSorted.init (n : Nat) : DBSorted (DB.init n) := by intro k hk; simp [DB.init] at hk

/-! ### sortedness, key level -/

theorem PrioSorted.sublist {ws ws' : List Waiter} (h : PrioSorted ws) (hs : ws'.Sublist ws) : PrioSorted ws' :=
  List.Pairwise.sublist hs h

theorem removeWaiter_sublist (ws : List Waiter) (w : Waiter) : (removeWaiter ws w).Sublist ws := by
  induction ws with
  | nil => simp [removeWaiter]
  | cons x xs ih =>
    unfold removeWaiter
    split
    · exact List.sublist_cons_self x xs
    · exact List.Sublist.cons₂ x ih

theorem sorted_map_same (ws : List Waiter) (f : Waiter → Waiter)
    (hf : ∀ x ∈ ws, cmdPriority (f x).cmd = cmdPriority x.cmd) (hs : PrioSorted ws) : PrioSorted (ws.map f) := by
  induction ws with
  | nil => simp [PrioSorted]
  | cons x xs ih =>
    have hx := List.pairwise_cons.mp hs
    simp only [List.map_cons]
    apply List.pairwise_cons.mpr
    refine ⟨?_, ih (fun y hy => hf y (List.mem_cons_of_mem _ hy)) hx.2⟩
    intro z hz
    obtain ⟨y, hy, e⟩ := List.mem_map.mp hz
    have h1 := hx.1 y hy
    have h2 := hf x (by simp)
    have h3 := hf y (List.mem_cons_of_mem _ hy)
    rw [← e, h2, h3]; exact h1

theorem getKey_sorted {db : DB} (h : DBSorted db) (n : Nat) : PrioSorted (db.getKey n).waiters := by
  unfold DB.getKey
  cases hf : db.keys.find? (·.key == n) with
  | none => simp [emptyKey, PrioSorted]
  | some k => exact h k (List.mem_of_find?_eq_some hf)

theorem setKey_sorted {db : DB} (h : DBSorted db) {k : Key} (hk : PrioSorted k.waiters) : DBSorted (db.setKey k) := by
  unfold DB.setKey
  intro x hx
  simp only [] at hx
  split at hx
  · exact h x (List.mem_filter.mp hx).1
  · rcases List.mem_append.mp hx with h1 | h1
    · exact h x (List.mem_filter.mp h1).1
    · simp at h1; rw [h1]; exact hk

theorem DBSorted.of_keys_eq {db db' : DB} (h : DBSorted db) (e : db'.keys = db.keys) : DBSorted db' := by
  intro k hk; rw [e] at hk; exact h k hk

theorem wakeIter_sorted {db : DB} {k : Key} (hk : PrioSorted k.waiters) {db' : DB} {k' : Key} {r : Reply}
    (h : wakeIter db k = some (db', k', r)) : PrioSorted k'.waiters := by
  obtain ⟨w, rest, e1, e2, _⟩ := wakeIter_head h
  rw [e2]; rw [e1] at hk
  exact (List.pairwise_cons.mp hk).2

theorem wakePass_sorted (fuel : Nat) (db : DB) (k : Key) (out : List Reply) (hk : PrioSorted k.waiters) :
    PrioSorted (wakePass fuel db k out).2.1.waiters := by
  induction fuel generalizing db k out with
  | zero => unfold wakePass; split <;> exact hk
  | succ n ih =>
    unfold wakePass
    split
    · exact hk
    · cases hw : wakeIter db k with
      | none => simp only []; split <;> exact hk
      | some t =>
        obtain ⟨db', k', r⟩ := t
        simp only []
        exact ih db' k' _ (wakeIter_sorted hk hw)

theorem wake_sorted (db : DB) (k : Key) (out : List Reply) (hk : PrioSorted k.waiters) :
    PrioSorted (wake db k out).2.1.waiters := wakePass_sorted _ db k out hk

theorem wake_setKey_sorted {db0 db : DB} {k : Key} (out : List Reply) (h0 : DBSorted db0) (e : db.keys = db0.keys)
    (hk : PrioSorted k.waiters) : DBSorted ((wake db k out).1.setKey (wake db k out).2.1) :=
  setKey_sorted (h0.of_keys_eq (by rw [wake_keys, e])) (wake_sorted db k out hk)

theorem grantHold_waiters_eq (db : DB) (k : Key) (c : Cmd) : (grantHold db k c).2.waiters = k.waiters := rfl

/-! ### operations -/

theorem opLock_sorted (db : DB) (c : Cmd) (h : DBSorted db) : DBSorted (opLock db c).1 := by
  unfold opLock
  have hk := getKey_sorted h c.key
  cases hb : classifyLock db c with
  | p0a | p0b | stateError | unlockedWaitRefused | timeout => exact h
  | «show» cur | updateEqual h' | relockNoHold h' | relockRefused h' => exact h
  | update h' =>
    simp only [applyLock]
    exact wake_setKey_sorted _ h (updateHold_db_keys _ _ _) hk
  | relock h' =>
    simp only [applyLock]
    exact wake_setKey_sorted _ h (by simp [updateHold_db_keys]) hk
  | grant =>
    simp only [applyLock]
    have hg : PrioSorted (grantHold db (db.getKey c.key) c).2.waiters := by rw [grantHold_waiters_eq]; exact hk
    split
    · exact wake_setKey_sorted _ h (grantHold_db_keys _ _ _) hg
    · exact setKey_sorted (h.of_keys_eq (grantHold_db_keys db (db.getKey c.key) c)) hg
  | grantNoHold =>
    simp only [applyLock]
    split
    · exact wake_setKey_sorted _ h rfl hk
    · exact setKey_sorted (h.of_keys_eq rfl) hk
  | queue =>
    simp only [applyLock]
    exact setKey_sorted (h.of_keys_eq rfl) (insertWaiter_sorted _ _ hk)

theorem opUnlock_sorted (db : DB) (c : Cmd) (h : DBSorted db) : DBSorted (opUnlock db c).1 := by
  unfold opUnlock
  have hk := getKey_sorted h c.key
  cases hb : classifyUnlock db c with
  | stateError | notLocked | unown | cancelNone => exact h.of_keys_eq rfl
  | cancel w =>
    simp only [applyUnlock]
    exact wake_setKey_sorted _ h rfl (hk.sublist (removeWaiter_sublist _ _))
  | dec h' c' =>
    simp only [applyUnlock]
    exact wake_setKey_sorted _ h rfl hk
  | release h' c' =>
    simp only [applyUnlock]
    exact wake_setKey_sorted _ h rfl hk

theorem opLock_qinv (db : DB) (c : Cmd) (hf : Fresh db c) (h : QInv db) : QInv (opLock db c).1 := by
  refine ⟨?_, opLock_sorted db c h.2⟩
  intro a ha b hb e1 e2
  rcases opLock_waiters db c a ha with h1 | ⟨_, h1⟩ <;> rcases opLock_waiters db c b hb with h2 | ⟨_, h2⟩
  · exact h.1 a h1 b h2 e1 e2
  · exfalso; rw [h2] at e1 e2; exact hf a h1 ⟨e1, e2⟩
  · exfalso; rw [h1] at e1 e2; exact hf b h2 ⟨e1.symm, e2.symm⟩
  · rw [h1, h2]

theorem opUnlock_qinv (db : DB) (c : Cmd) (h : QInv db) : QInv (opUnlock db c).1 :=
  ⟨h.1.of_sub (opUnlock_waiters db c), opUnlock_sorted db c h.2⟩

/-! ### sweeps -/

theorem fireTimeout_qinv (db : DB) (key : Nat) (w : Waiter) (h : QInv db) : QInv (fireTimeout db key w).1 := by
  refine ⟨h.1.of_sub (fun x hx => mem_allW_fireTimeout hx), ?_⟩
  unfold fireTimeout
  exact wake_setKey_sorted _ h.2 rfl ((getKey_sorted h.2 key).sublist (removeWaiter_sublist _ _))

theorem fireExpire_qinv (db : DB) (key : Nat) (hd : Hold) (h : QInv db) : QInv (fireExpire db key hd).1 := by
  refine ⟨h.1.of_sub (fun x hx => mem_allW_fireExpire hx), ?_⟩
  unfold fireExpire
  exact wake_setKey_sorted _ h.2 rfl (getKey_sorted h.2 key)

theorem rearmHold_qinv (db : DB) (hd : Hold) (h : QInv db) : QInv (rearmHold db hd) := by
  refine ⟨h.1.of_sub (fun x hx => by
    unfold rearmHold at hx
    exact mem_allW_of_keys_eq rfl (mem_allW_updateHoldIn hx)), ?_⟩
  unfold rearmHold updateHoldIn
  exact setKey_sorted (h.2.of_keys_eq rfl) (getKey_sorted (h.2.of_keys_eq rfl) _)

theorem rearmed_cmd (db : DB) (w : Waiter) : (rearmed db w).cmd = w.cmd := rfl
theorem rearmed_conn (db : DB) (w : Waiter) : (rearmed db w).conn = w.conn := rfl

/-- the state carried through pass 1 of the timeout sweep that started in `d0` -/
def QAgree (d0 : DB) (d : DB) : Prop := QInv d ∧ Agree d d0

theorem rearmWaiter_qagree (d0 db : DB) (w : Waiter) (hw : w ∈ allW d0) (h0 : IdDet d0) (h : QAgree d0 db) :
    QAgree d0 (rearmWaiter db w) := by
  obtain ⟨⟨hid, hs⟩, hag⟩ := h
  have hnew : ∀ x ∈ allW (rearmWaiter db w), x ∈ allW db ∨ x = rearmed db w := fun x hx => mem_allW_rearmWaiter hx
  -- a queued request of `db` with w's id is w's command
  have hmatch : ∀ x ∈ allW db, x.cmd.req = w.cmd.req → x.conn = w.conn → x.cmd = w.cmd := fun x hx => hag x hx w hw
  refine ⟨⟨?_, ?_⟩, ?_⟩
  · intro a ha b hb e1 e2
    rcases hnew a ha with h1 | h1 <;> rcases hnew b hb with h2 | h2
    · exact hid a h1 b h2 e1 e2
    · rw [h2] at e1 e2 ⊢; rw [rearmed_cmd] at e1 ⊢; rw [rearmed_conn] at e2
      exact hmatch a h1 e1 e2
    · rw [h1] at e1 e2 ⊢; rw [rearmed_cmd] at e1 ⊢; rw [rearmed_conn] at e2
      exact (hmatch b h2 e1.symm e2.symm).symm
    · rw [h1, h2]
  · unfold rearmWaiter updateWaiter
    have hs' : DBSorted { db with seq := db.seq + 1 } := hs.of_keys_eq rfl
    refine setKey_sorted hs' ?_
    apply sorted_map_same _ _ _ (getKey_sorted hs' _)
    intro x hx
    split
    · rename_i hm
      have hm' : x.cmd.req = w.cmd.req ∧ x.conn = w.conn := by simpa using hm
      have hxa : x ∈ allW db := mem_allW_of_keys_eq (db := db) rfl (mem_getKey_waiters hx)
      simp only []
      rw [hmatch x hxa hm'.1 hm'.2]
    · rfl
  · intro x hx y hy e1 e2
    rcases hnew x hx with h1 | h1
    · exact hag x h1 y hy e1 e2
    · rw [h1] at e1 e2 ⊢; rw [rearmed_cmd] at e1 ⊢; rw [rearmed_conn] at e2
      exact h0 w hw y hy e1 e2

theorem foldl_Q_mem {α β} (Q : DB → Prop) (f : DB × β → α → DB × β) (l : List α)
    (hf : ∀ acc a, a ∈ l → Q acc.1 → Q (f acc a).1) (acc : DB × β) (h : Q acc.1) : Q (l.foldl f acc).1 := by
  induction l generalizing acc with
  | nil => exact h
  | cons a as ih =>
    simp only [List.foldl_cons]
    exact ih (fun acc b hb => hf acc b (List.mem_cons_of_mem _ hb)) _ (hf acc a (by simp) h)

theorem mem_slotWaiters' {db : DB} {c : Nat} {w : Waiter} (h : w ∈ slotWaiters db c) : w ∈ allW db := by
  unfold slotWaiters at h
  have := mem_sortBySeq _ _ _ h
  exact (List.mem_filter.mp this).1

theorem sweepTimeout_qinv (db : DB) (c : Nat) (h : QInv db) : QInv (sweepTimeout db c).1 := by
  unfold sweepTimeout timeoutPass1
  refine foldl_P QInv _ (fun acc a ha => by
    unfold fireTimeoutStep; split
    · exact fireTimeout_qinv _ _ _ ha
    · exact ha) _ _ ?_
  have : QAgree db ((slotWaiters db c).foldl timeoutStep (db, [])).1 := by
    refine foldl_Q_mem (QAgree db) _ _ (fun acc a hm ha => ?_) _ ⟨h, h.1⟩
    unfold timeoutStep
    split
    · exact rearmWaiter_qagree db _ _ (mem_slotWaiters' hm) h.1 ha
    · exact ha
  exact this.1

theorem sweepExpire_qinv (db : DB) (c : Nat) (h : QInv db) : QInv (sweepExpire db c).1 := by
  unfold sweepExpire expirePass1
  refine foldl_P QInv _ (fun acc a ha => by
    unfold fireExpireStep; split
    · exact fireExpire_qinv _ _ _ ha
    · exact ha) _ _ ?_
  exact foldl_P QInv _ (fun acc a ha => by
    unfold expireStep; split
    · exact rearmHold_qinv _ _ ha
    · exact ha) _ _ h

theorem QInv.of_keys_eq {db db' : DB} (h : QInv db) (e : db'.keys = db.keys) : QInv db' :=
  ⟨h.1.of_sub (fun x hx => mem_allW_of_keys_eq e hx), h.2.of_keys_eq e⟩

theorem opTick_qinv (db : DB) (h : QInv db) : QInv (opTick db).1 := by
  unfold opTick
  simp only []
  apply sweepExpire_qinv
  apply QInv.of_keys_eq (db := (sweepTimeout { db with now := db.now + 1, tCheck := db.now + 1 + 1 } (db.now + 1)).1) _ rfl
  exact sweepTimeout_qinv _ _ (h.of_keys_eq rfl)

/-! ### hand-over -/

/-- On a sorted queue, the request a wake iteration grants has maximal priority among ALL queued requests of the key. -/
theorem wakeIter_max {db db' : DB} {k k' : Key} {r : Reply} (hs : PrioSorted k.waiters)
    (h : wakeIter db k = some (db', k', r)) :
    ∃ w rest, k.waiters = w :: rest ∧ r.req = w.cmd.req ∧ r.conn = w.conn ∧ r.result = RESULT_SUCCED ∧
      ∀ x ∈ k.waiters, cmdPriority x.cmd ≤ cmdPriority w.cmd := by
  obtain ⟨w, rest, e1, _, e3, e4, e5⟩ := wakeIter_head h
  refine ⟨w, rest, e1, e3, e4, e5, ?_⟩
  intro x hx
  rw [e1] at hx hs
  rcases List.mem_cons.mp hx with h1 | h1
  · rw [h1]; exact Nat.le_refl _
  · exact (List.pairwise_cons.mp hs).1 x h1

/-- the replies of a wake pass: nothing new, or the first new reply is that of the first wake iteration -/
theorem wake_first (db : DB) (k : Key) (out : List Reply) :
    (wake db k out).2.2 = out ∨
      ∃ db' k' r more, wakeIter db k = some (db', k', r) ∧ (wake db k out).2.2 = out ++ r :: more := by
  unfold wake wakePass
  split
  · exact Or.inl rfl
  · cases hw : wakeIter db k with
    | none => simp only []; split <;> exact Or.inl rfl
    | some t =>
      obtain ⟨db', k', r⟩ := t
      simp only []
      obtain ⟨more, hm⟩ := wakePass_out k.waiters.length db' k' (out ++ [r])
      exact Or.inr ⟨db', k', r, more, rfl, by rw [hm]; simp⟩

end Slock.Engine
