import Slock.Model.Engine
/-! `sortBySeq` (the insertion sort both engine models order the due wheel entries with): it is stable, so it commutes with `filter` and
with a key-preserving `map`; its result is a permutation; and on lists whose keys are pairwise distinct the result depends on the SET of
elements only (`sortBySeq_ext`). Core Lean only. New file for the clock-tick simulation (`sim_tick`). -/
namespace Slock.SimTick
open Slock.Engine (insertBySeq sortBySeq)

variable {α : Type}

theorem insertBySeq_front (s : α → Nat) (x : α) (l : List α) (h : ∀ z ∈ l, s x < s z) : insertBySeq s x l = x :: l := by
  cases l with
  | nil => rfl
  | cons y ys => unfold insertBySeq; rw [if_pos (h y (by simp))]

theorem mem_insertBySeq (s : α → Nat) (x y : α) (acc : List α) : x ∈ insertBySeq s y acc ↔ x = y ∨ x ∈ acc := by
  induction acc with
  | nil => simp [insertBySeq]
  | cons z zs ih =>
    unfold insertBySeq
    split
    · simp
    · simp only [List.mem_cons, ih]
      constructor
      · rintro (h | h | h)
        · exact Or.inr (Or.inl h)
        · exact Or.inl h
        · exact Or.inr (Or.inr h)
      · rintro (h | h | h)
        · exact Or.inr (Or.inl h)
        · exact Or.inl h
        · exact Or.inr (Or.inr h)

theorem insertBySeq_sorted (s : α → Nat) (x : α) (acc : List α) (h : acc.Pairwise (fun a b => s a ≤ s b)) :
    (insertBySeq s x acc).Pairwise (fun a b => s a ≤ s b) := by
  induction acc with
  | nil => simp [insertBySeq]
  | cons y ys ih =>
    rw [List.pairwise_cons] at h
    unfold insertBySeq
    split
    · rename_i hlt
      rw [List.pairwise_cons]
      refine ⟨?_, List.pairwise_cons.mpr h⟩
      intro a ha
      rcases List.mem_cons.mp ha with e | e
      · rw [e]; omega
      · have := h.1 a e; omega
    · rename_i hge
      rw [List.pairwise_cons]
      refine ⟨?_, ih h.2⟩
      intro a ha
      rcases (mem_insertBySeq s a x ys).mp ha with e | e
      · rw [e]; omega
      · exact h.1 a e

theorem foldl_insert_sorted (s : α → Nat) (l acc : List α) (h : acc.Pairwise (fun a b => s a ≤ s b)) :
    (l.foldl (fun acc x => insertBySeq s x acc) acc).Pairwise (fun a b => s a ≤ s b) := by
  induction l generalizing acc with
  | nil => exact h
  | cons x xs ih => simp only [List.foldl_cons]; exact ih _ (insertBySeq_sorted s x acc h)

theorem sortBySeq_sorted (s : α → Nat) (l : List α) : (sortBySeq s l).Pairwise (fun a b => s a ≤ s b) :=
  foldl_insert_sorted s l [] List.Pairwise.nil

/-! ### stability: `filter` -/

theorem insertBySeq_cons (s : α → Nat) (x y : α) (ys : List α) :
    insertBySeq s x (y :: ys) = if s x < s y then x :: y :: ys else y :: insertBySeq s x ys := rfl

theorem filter_insertBySeq (s : α → Nat) (p : α → Bool) (x : α) (acc : List α) (h : acc.Pairwise (fun a b => s a ≤ s b)) :
    (insertBySeq s x acc).filter p = if p x then insertBySeq s x (acc.filter p) else acc.filter p := by
  induction acc with
  | nil =>
    cases hp : p x <;> simp [List.filter, hp, insertBySeq]
  | cons y ys ih =>
    rw [List.pairwise_cons] at h
    have ih' := ih h.2
    rw [insertBySeq_cons]
    split
    · rename_i hlt
      cases hpx : p x
      · simp [List.filter, hpx]
      · simp only [if_true]
        have hfront : insertBySeq s x ((y :: ys).filter p) = x :: (y :: ys).filter p := by
          apply insertBySeq_front
          intro z hz
          have hz' := (List.mem_filter.mp hz).1
          rcases List.mem_cons.mp hz' with e | e
          · rw [e]; exact hlt
          · have := h.1 z e; omega
        rw [hfront]
        simp [List.filter, hpx]
    · rename_i hge
      cases hpy : p y
      · have e1 : (y :: insertBySeq s x ys).filter p = (insertBySeq s x ys).filter p := by simp [List.filter, hpy]
        have e2 : (y :: ys).filter p = ys.filter p := by simp [List.filter, hpy]
        rw [e1, e2]; exact ih'
      · have e1 : (y :: insertBySeq s x ys).filter p = y :: (insertBySeq s x ys).filter p := by simp [List.filter, hpy]
        have e2 : (y :: ys).filter p = y :: ys.filter p := by simp [List.filter, hpy]
        rw [e1, e2, ih']
        cases hpx : p x
        · simp
        · simp only [if_true]
          rw [insertBySeq_cons, if_neg hge]

theorem filter_foldl_insert (s : α → Nat) (p : α → Bool) (l acc : List α) (h : acc.Pairwise (fun a b => s a ≤ s b)) :
    (l.foldl (fun acc x => insertBySeq s x acc) acc).filter p = (l.filter p).foldl (fun acc x => insertBySeq s x acc) (acc.filter p) := by
  induction l generalizing acc with
  | nil => rfl
  | cons x xs ih =>
    simp only [List.foldl_cons]
    rw [ih _ (insertBySeq_sorted s x acc h), filter_insertBySeq s p x acc h]
    cases hpx : p x
    · simp [List.filter, hpx]
    · simp [List.filter, hpx]

/-- the sort is stable: filtering before or after gives the same list -/
theorem filter_sortBySeq (s : α → Nat) (p : α → Bool) (l : List α) : (sortBySeq s l).filter p = sortBySeq s (l.filter p) := by
  unfold sortBySeq
  exact filter_foldl_insert s p l [] List.Pairwise.nil

/-! ### `map` with a key-preserving function -/

theorem map_insertBySeq {β : Type} (s : α → Nat) (t : β → Nat) (f : α → β) (hf : ∀ z, t (f z) = s z) (x : α) (acc : List α) :
    (insertBySeq s x acc).map f = insertBySeq t (f x) (acc.map f) := by
  induction acc with
  | nil => rfl
  | cons y ys ih =>
    unfold insertBySeq
    simp only [List.map_cons, hf]
    split
    · rfl
    · simp only [List.map_cons, ih]

theorem map_sortBySeq {β : Type} (s : α → Nat) (t : β → Nat) (f : α → β) (hf : ∀ z, t (f z) = s z) (l : List α) :
    (sortBySeq s l).map f = sortBySeq t (l.map f) := by
  unfold sortBySeq
  have gen : ∀ (l acc : List α), (l.foldl (fun acc x => insertBySeq s x acc) acc).map f =
      (l.map f).foldl (fun acc x => insertBySeq t x acc) (acc.map f) := by
    intro l
    induction l with
    | nil => intro acc; rfl
    | cons x xs ih => intro acc; simp only [List.foldl_cons, List.map_cons]; rw [ih, map_insertBySeq s t f hf]
  exact gen l []

theorem map_insertBySeq_on {β : Type} (s : α → Nat) (t : β → Nat) (f : α → β) (x : α) (acc : List α) (hx : t (f x) = s x)
    (hf : ∀ z ∈ acc, t (f z) = s z) : (insertBySeq s x acc).map f = insertBySeq t (f x) (acc.map f) := by
  induction acc with
  | nil => rfl
  | cons y ys ih =>
    unfold insertBySeq
    simp only [List.map_cons, hx, hf y (by simp)]
    split
    · rfl
    · simp only [List.map_cons, ih (fun z hz => hf z (List.mem_cons_of_mem _ hz))]

theorem map_sortBySeq_on {β : Type} (s : α → Nat) (t : β → Nat) (f : α → β) (l : List α) (hf : ∀ z ∈ l, t (f z) = s z) :
    (sortBySeq s l).map f = sortBySeq t (l.map f) := by
  unfold sortBySeq
  have gen : ∀ (l acc : List α), (∀ z ∈ l, t (f z) = s z) → (∀ z ∈ acc, t (f z) = s z) →
      (l.foldl (fun acc x => insertBySeq s x acc) acc).map f = (l.map f).foldl (fun acc x => insertBySeq t x acc) (acc.map f) := by
    intro l
    induction l with
    | nil => intro acc _ _; rfl
    | cons x xs ih =>
      intro acc h1 h2
      simp only [List.foldl_cons, List.map_cons]
      rw [ih _ (fun z hz => h1 z (List.mem_cons_of_mem _ hz)) (by
        intro z hz
        rcases (mem_insertBySeq s z x acc).mp hz with e | e
        · rw [e]; exact h1 x (by simp)
        · exact h2 z e), map_insertBySeq_on s t f x acc (h1 x (by simp)) h2]
  exact gen l [] hf (by simp)

/-- the key function may be replaced by one that agrees on the elements of the list -/
theorem insertBySeq_congr (s t : α → Nat) (x : α) (acc : List α) (hx : s x = t x) (h : ∀ z ∈ acc, s z = t z) :
    insertBySeq s x acc = insertBySeq t x acc := by
  induction acc with
  | nil => rfl
  | cons y ys ih =>
    unfold insertBySeq
    rw [hx, h y (by simp), ih (fun z hz => h z (List.mem_cons_of_mem _ hz))]

/-! ### permutation -/

theorem perm_insertBySeq (s : α → Nat) (x : α) (acc : List α) : (insertBySeq s x acc).Perm (x :: acc) := by
  induction acc with
  | nil => exact List.Perm.refl _
  | cons y ys ih =>
    unfold insertBySeq
    split
    · exact List.Perm.refl _
    · exact ((List.Perm.cons y ih).trans (List.Perm.swap x y ys))

theorem perm_foldl_insert (s : α → Nat) (l acc : List α) : (l.foldl (fun acc x => insertBySeq s x acc) acc).Perm (l ++ acc) := by
  induction l generalizing acc with
  | nil => exact List.Perm.refl _
  | cons x xs ih =>
    simp only [List.foldl_cons]
    refine (ih _).trans ?_
    refine (List.Perm.append_left xs (perm_insertBySeq s x acc)).trans ?_
    exact List.perm_middle

theorem perm_sortBySeq (s : α → Nat) (l : List α) : (sortBySeq s l).Perm l := by
  have := perm_foldl_insert s l []
  simpa [sortBySeq] using this

theorem mem_sortBySeq (s : α → Nat) (l : List α) (x : α) : x ∈ sortBySeq s l ↔ x ∈ l := (perm_sortBySeq s l).mem_iff

/-! ### distinct keys: the result depends on the set of elements only -/

/-- two strictly sorted lists with the same elements are equal -/
theorem strictSorted_ext (s : α → Nat) : ∀ (l1 l2 : List α), l1.Pairwise (fun a b => s a < s b) → l2.Pairwise (fun a b => s a < s b) →
    (∀ x, x ∈ l1 ↔ x ∈ l2) → l1 = l2 := by
  intro l1
  induction l1 with
  | nil =>
    intro l2 _ _ hm
    cases l2 with
    | nil => rfl
    | cons b bs => exact absurd ((hm b).mpr (by simp)) (by simp)
  | cons a as ih =>
    intro l2 h1 h2 hm
    cases l2 with
    | nil => exact absurd ((hm a).mp (by simp)) (by simp)
    | cons b bs =>
      rw [List.pairwise_cons] at h1 h2
      have hab : a = b := by
        apply Classical.byContradiction
        intro hne
        have ha : a ∈ bs := by
          rcases List.mem_cons.mp ((hm a).mp (by simp)) with e | e
          · exact absurd e hne
          · exact e
        have hb : b ∈ as := by
          rcases List.mem_cons.mp ((hm b).mpr (by simp)) with e | e
          · exact absurd e.symm hne
          · exact e
        have := h1.1 b hb
        have := h2.1 a ha
        omega
      subst hab
      congr 1
      apply ih bs h1.2 h2.2
      intro x
      constructor
      · intro hx
        rcases List.mem_cons.mp ((hm x).mp (List.mem_cons_of_mem _ hx)) with e | e
        · have := h1.1 x hx; rw [e] at this; omega
        · exact e
      · intro hx
        rcases List.mem_cons.mp ((hm x).mpr (List.mem_cons_of_mem _ hx)) with e | e
        · have := h2.1 x hx; rw [e] at this; omega
        · exact e

theorem sortBySeq_strict (s : α → Nat) (l : List α) (hn : (l.map s).Nodup) : (sortBySeq s l).Pairwise (fun a b => s a < s b) := by
  have h1 := sortBySeq_sorted s l
  have h2 : ((sortBySeq s l).map s).Nodup := ((perm_sortBySeq s l).map s).nodup_iff.mpr hn
  have h3 : (sortBySeq s l).Pairwise (fun a b => s a ≠ s b) := List.pairwise_map.mp h2
  exact (h1.and h3).imp (fun ⟨a, b⟩ => by omega)

/-- **with pairwise distinct keys the sorted list depends on the set of elements only** -/
theorem sortBySeq_ext (s : α → Nat) (l1 l2 : List α) (h1 : (l1.map s).Nodup) (h2 : (l2.map s).Nodup) (hm : ∀ x, x ∈ l1 ↔ x ∈ l2) :
    sortBySeq s l1 = sortBySeq s l2 :=
  strictSorted_ext s _ _ (sortBySeq_strict s l1 h1) (sortBySeq_strict s l2 h2)
    (fun x => by rw [mem_sortBySeq, mem_sortBySeq]; exact hm x)

/-- a strictly sorted list is its own sorted version -/
theorem sortBySeq_of_strict (s : α → Nat) (l : List α) (h : l.Pairwise (fun a b => s a < s b)) : sortBySeq s l = l := by
  have hn : (l.map s).Nodup := List.pairwise_map.mpr (h.imp (fun hab => by omega))
  exact strictSorted_ext s _ _ (sortBySeq_strict s l hn) h (fun x => mem_sortBySeq s l x)

end Slock.SimTick
