import Slock.Model.ValueExec
import Slock.Proofs.ValuePanic
/-! `DecodeLockCommand` never panics on a frame the parser lets through, and refuses truncated embedded data. -/
namespace Slock.Value

theorem sliceCap_ok (site : Site) (data extra : Bytes) (lo hi : Nat) (h1 : lo ≤ hi) (h2 : hi ≤ data.length) :
    sliceCap site data extra lo hi = .ok (((data ++ extra).drop lo).take (hi - lo)) := by
  unfold sliceCap
  rw [if_pos ⟨h1, by omega⟩]

theorem decodeLockCommand_no_panic (c : Cmd) (off : Nat) (hoff : cmdOff c = .ok off) :
    (decodeLockCommand c).isPanic = false := by
  unfold decodeLockCommand
  simp only [hoff]
  by_cases h64 : c.data.length < off + 64
  · rw [if_pos h64]; rfl
  · rw [if_neg h64, sliceCap_ok _ _ _ _ _ (by omega) (by omega)]
    simp only
    split
    · rfl
    · split
      · rfl
      · by_cases h68 : c.data.length < off + 68
        · rw [if_pos h68]; rfl
        · rw [if_neg h68]
          split
          · rfl
          · split
            · rfl
            · rename_i hlen
              rw [sliceCap_ok _ _ _ _ _ (by omega) (by omega)]
              simp only
              split <;> rfl

theorem decodeFrame_no_panic (data extra : Bytes) : (decodeFrame data extra).isPanic = false := by
  unfold decodeFrame
  split
  · rfl
  · rename_i c hp
    obtain ⟨_, _, hdr, v, _, hoff⟩ := parseFrame_sane _ _ c hp
    exact decodeLockCommand_no_panic c _ hoff

/-- The embedded command announces N > 0 data bytes but the frame ends before them: refused with an error. -/
theorem decodeLockCommand_short (c : Cmd) (off : Nat) (hoff : cmdOff c = .ok off) (h68 : off + 68 ≤ c.data.length)
    (fl : UInt8) (hfl : (((c.data ++ c.extra).drop off).take 64)[lockCommandFlagOffset]? = some fl)
    (hdata : (fl &&& LOCK_FLAG_CONTAINS_DATA == 0) = false)
    (hpos : 0 < readLE ((c.data.drop (off + 64)).take 4))
    (hshort : c.data.length < off + readLE ((c.data.drop (off + 64)).take 4) + 68) :
    decodeLockCommand c = .err (some (readLE ((c.data.drop (off + 64)).take 4) + 4)) := by
  unfold decodeLockCommand
  simp only [hoff]
  rw [if_neg (by omega), sliceCap_ok _ _ _ _ _ (by omega) (by omega)]
  have e : off + 64 - off = 64 := by omega
  simp only [e, hfl, hdata]
  rw [if_neg (by simp), if_neg (by omega), if_neg (by omega), if_pos hshort]

end Slock.Value
