import Slock.Proofs.Engine2SimEnqShape
/-! Simulation stage 2 → stage 1: the queue shape `QS` and the live raw head `HL` through `AddWaitLock` + `AddTimeOut`. -/
namespace Slock.Sim
open Slock Slock.Engine2
open Slock.Engine (has)

/-- in FIFO mode with a live raw head, every entry's current priority is at most the head's (equal when its record exists) -/
theorem fifo_recached_le {k : Key} (h : QS k) (hl : HL k) (hp : k.waitPrio = false) (e0 : WEnt) (rest : List WEnt) (hw : k.wait = e0 :: rest) :
    ∀ x ∈ k.wait, prOf k x.rid ≤ prOf k e0.rid := by
  have h0 : k.hasRec e0.rid := hasRec_of_liveWaiter (hl e0 rest hw)
  have c0 := h.cch e0 (by rw [hw]; simp) h0
  intro x hx
  by_cases hh : k.hasRec x.rid
  · have := h.cch x hx hh
    have e := h.eqc hp x hx e0 (by rw [hw]; simp)
    omega
  · rw [prOf_dead k x.rid hh]; exact Nat.zero_le _

theorem QS.enqueue {seq : Nat} {k : Key} (h : QS k) (hl : HL k) (ki : KI seq k) (rid : Nat)
    (hnh : rid ∉ k.current.toList ++ k.locks) : QS (k.addWaitLock rid) := by
  obtain ⟨_, a2, a3⟩ := addWaitLock_spec k rid
  have p2 := PKeep.addWaitLock ins_π2 k rid
  have hpr : ∀ y, (k.addWaitLock rid).hasRec y → prOf (k.addWaitLock rid) y = prOf k y :=
    fun y hy => by unfold prOf; exact congrArg Engine.cmdPriority (p2.val y hy)
  obtain ⟨w1, w2⟩ := addWaitLock_pre k rid
  -- no old entry sits in the holder queue
  have hold : ∀ y ∈ k.wait, y.rid ∉ k.current.toList ++ k.locks := by
    intro y hy hm
    cases hw : k.wait with
    | nil => rw [hw] at hy; simp at hy
    | cons e0 rest =>
      rw [hw] at hy
      rcases List.mem_cons.mp hy with h1 | h1
      · have := hl e0 rest hw
        rw [h1] at hm
        have := ki.ht e0.rid hm
        unfold Key.deadWaiter at *
        simp_all
      · exact h.dj y (by rw [hw]; exact h1) hm
  refine ⟨fun hf => by rw [addWaitLock_waited] at hf; exact absurd hf (by simp), fun hp => ?_, fun hp => ?_, fun x hx hh => ?_, fun x hx => ?_⟩
  · -- sorted
    cases hr : rePushes k rid with
    | true =>
      rw [w2, hr] at hp
      rw [w1, hr]
      simp only [if_true] at hp ⊢
      rw [(waitPush_prio k.rePush _ (rePush_wait k).2).1, (rePush_wait k).1]
      exact insertPrio_srt _ _ (foldl_insertPrio_srt _ [] (by unfold Srt; simp))
    | false =>
      rw [w2, hr] at hp
      rw [w1, hr]
      simp only [Bool.false_eq_true, if_false] at hp ⊢
      cases hm : k.waitPrio with
      | true =>
        rw [(waitPush_prio k _ hm).1]
        exact insertPrio_srt _ _ (h.srt hm)
      | false =>
        rw [(waitPush_fifo k _ hm).1] at hp
        exact absurd hp (by simp)
  · -- FIFO: all cached priorities equal
    rw [w2] at hp
    have hr : rePushes k rid = false := by
      cases hr : rePushes k rid with
      | false => rfl
      | true =>
        rw [hr] at hp
        simp only [if_true] at hp
        rw [(waitPush_prio k.rePush _ (rePush_wait k).2).2] at hp
        exact absurd hp (by simp)
    rw [hr] at hp
    simp only [Bool.false_eq_true, if_false] at hp
    have hm : k.waitPrio = false := by
      cases hm : k.waitPrio with
      | false => rfl
      | true => rw [(waitPush_prio k _ hm).2] at hp; exact absurd hp (by simp)
    -- the new entry has the priority of the old ones (if any)
    have hnew : ∀ y ∈ k.wait, y.prio = Engine.cmdPriority (k.getR rid).cmd := by
      intro y hy
      cases hw : k.wait with
      | nil => rw [hw] at hy; simp at hy
      | cons e0 rest =>
        have hwd : k.waited = true := by
          cases hwd : k.waited with
          | true => rfl
          | false => have := h.emp hwd; rw [hw] at this; simp at this
        unfold rePushes at hr
        rw [hwd, hm, hw] at hr
        simp only [Bool.not_false, Bool.and_self, Bool.true_and, List.head?_cons, bne_eq_false_iff_eq] at hr
        have h0 : k.hasRec e0.rid := hasRec_of_liveWaiter (hl e0 rest hw)
        have c0 := h.cch e0 (by rw [hw]; simp) h0
        have := h.eqc hm y hy e0 (by rw [hw]; simp)
        unfold prOf at c0
        omega
    intro x hx x' hx'
    have key : ∀ z ∈ (k.addWaitLock rid).wait, z.prio = Engine.cmdPriority (k.getR rid).cmd ∨ k.wait = [] ∨ (∃ y ∈ k.wait, z.prio = y.prio) := by
      intro z hz
      rw [w1, hr] at hz
      simp only [Bool.false_eq_true, if_false] at hz
      rcases (waitPush_fifo k ⟨rid, Engine.cmdPriority (k.getR rid).cmd⟩ hm).2 with e | e
      · rw [e] at hz
        rcases List.mem_append.mp hz with h1 | h1
        · exact Or.inr (Or.inr ⟨z, h1, rfl⟩)
        · left; have : z = ⟨rid, Engine.cmdPriority (k.getR rid).cmd⟩ := by simpa using h1
          rw [this]
      · rw [e] at hz
        rcases List.mem_append.mp hz with h1 | h1
        · exact Or.inr (Or.inr ⟨z, (List.mem_filter.mp h1).1, rfl⟩)
        · left; have : z = ⟨rid, Engine.cmdPriority (k.getR rid).cmd⟩ := by simpa using h1
          rw [this]
    have val : ∀ z ∈ (k.addWaitLock rid).wait, z.prio = Engine.cmdPriority (k.getR rid).cmd := by
      intro z hz
      rcases key z hz with h1 | h1 | ⟨y, hy, h1⟩
      · exact h1
      · rw [w1, hr] at hz
        simp only [Bool.false_eq_true, if_false] at hz
        rcases (waitPush_fifo k ⟨rid, Engine.cmdPriority (k.getR rid).cmd⟩ hm).2 with e | e
        · rw [e, h1] at hz; have : z = ⟨rid, Engine.cmdPriority (k.getR rid).cmd⟩ := by simpa using hz
          rw [this]
        · rw [e, h1] at hz; have : z = ⟨rid, Engine.cmdPriority (k.getR rid).cmd⟩ := by simpa using hz
          rw [this]
      · rw [h1]; exact hnew y hy
    rw [val x hx, val x' hx']
  · -- cached = current
    rw [hpr x.rid hh]
    rcases addWaitLock_mem k rid x hx with h1 | ⟨y, hy, h1 | h1⟩
    · rw [h1]; rfl
    · rw [h1]; exact h.cch y hy (by rw [← h1]; exact p2.sub x.rid hh)
    · rw [h1]; rfl
  · -- nothing behind the head sits in the holder queue
    rw [a2, a3]
    have hx' : x ∈ (k.addWaitLock rid).wait := List.mem_of_mem_tail hx
    rcases addWaitLock_mem k rid x hx' with h1 | ⟨y, hy, h1 | h1⟩
    · rw [h1]; exact hnh
    · rw [h1]; exact hold y hy
    · rw [h1]; exact hold y hy

theorem insertPrio_head (ws : List WEnt) (e x : WEnt) (rest : List WEnt) (h : insertPrio ws e = x :: rest) : x = e ∨ ∃ t, ws = x :: t := by
  cases ws with
  | nil => unfold insertPrio at h; injection h with a _; exact Or.inl a.symm
  | cons y t =>
    unfold insertPrio at h
    split at h
    · injection h with a _; exact Or.inl a.symm
    · injection h with a _; exact Or.inr ⟨t, by rw [a]⟩

/-- the raw head after `AddWaitLock(rid)` is the new entry or a live old one -/
theorem addWaitLock_head {k : Key} (h : QS k) (hl : HL k) (rid : Nat) (x : WEnt) (rest : List WEnt) (hw : (k.addWaitLock rid).wait = x :: rest) :
    x.rid = rid ∨ k.deadWaiter x.rid = false := by
  rw [(addWaitLock_pre k rid).1] at hw
  cases hr : rePushes k rid with
  | true =>
    rw [hr] at hw
    simp only [if_true] at hw
    rw [(waitPush_prio k.rePush _ (rePush_wait k).2).1, (rePush_wait k).1] at hw
    rcases insertPrio_head _ _ x rest hw with h1 | ⟨t, h1⟩
    · left; rw [h1]
    · right
      -- the re-sort keeps the live head in front
      have hm : k.waitPrio = false ∧ ∃ e0 r0, k.wait = e0 :: r0 := by
        unfold rePushes at hr
        cases hp : k.waitPrio with
        | true => rw [hp] at hr; simp at hr
        | false =>
          refine ⟨rfl, ?_⟩
          cases hw0 : k.wait with
          | nil => rw [hw0] at hr; simp at hr
          | cons e0 r0 => exact ⟨e0, r0, rfl⟩
      obtain ⟨hp, e0, r0, hw0⟩ := hm
      rw [hw0] at h1
      simp only [List.map_cons, List.foldl_cons] at h1
      have hi : insertPrio [] (recache k e0) = [recache k e0] := rfl
      rw [hi] at h1
      obtain ⟨t', ht'⟩ := foldl_insertPrio_head (r0.map (recache k)) (recache k e0) [] (by
        intro z hz
        obtain ⟨y, hy, e⟩ := List.mem_map.mp hz
        rw [← e]
        exact fifo_recached_le h hl hp e0 r0 hw0 y (by rw [hw0]; exact List.mem_cons_of_mem _ hy))
      rw [ht'] at h1
      injection h1 with a _
      rw [← a]
      exact hl e0 r0 hw0
  | false =>
    rw [hr] at hw
    simp only [Bool.false_eq_true, if_false] at hw
    cases hp : k.waitPrio with
    | true =>
      rw [(waitPush_prio k _ hp).1] at hw
      rcases insertPrio_head _ _ x rest hw with h1 | ⟨t, h1⟩
      · left; rw [h1]
      · right; exact hl x t h1
    | false =>
      rcases (waitPush_fifo k ⟨rid, Engine.cmdPriority (k.getR rid).cmd⟩ hp).2 with e | e
      · rw [e] at hw
        cases hw0 : k.wait with
        | nil => rw [hw0] at hw; simp at hw; left; rw [← hw.1]
        | cons e0 r0 =>
          rw [hw0] at hw
          injection hw with a _
          right; rw [← a]; exact hl e0 r0 hw0
      · rw [e] at hw
        cases hf : k.wait.filter (fun x => !k.deadWaiter x.rid) with
        | nil => rw [hf] at hw; simp at hw; left; rw [← hw.1]
        | cons y ys =>
          rw [hf] at hw
          injection hw with a _
          right
          have : y ∈ k.wait.filter (fun x => !k.deadWaiter x.rid) := by rw [hf]; simp
          rw [← a]
          simpa using (List.mem_filter.mp this).2

end Slock.Sim
