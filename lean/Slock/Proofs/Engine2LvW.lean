import Slock.Proofs.Engine2Lv
/-! Stage-2 engine: the invariant of the record being worked on, through every helper of an operation. -/
namespace Slock.Engine2

/-- the invariant as long as the record has not been reclaimed -/
def LvG (w : W) (ex : Nat → Int) : Prop := w.gone = false → Lv w ex

theorem LvG.of_lv {w : W} {ex : Nat → Int} (h : Lv w ex) : LvG w ex := fun _ => h

/-- lifting a step lemma over a step that cannot un-reclaim -/
theorem LvG.step {w w' : W} {ex ex' : Nat → Int} (h : LvG w ex) (f : Fr w w') (hs : Lv w ex → Lv w' ex') : LvG w' ex' := by
  intro hg
  apply hs; apply h
  cases h0 : w.gone with
  | false => rfl
  | true => rw [f.gone h0] at hg; exact absurd hg (by simp)

theorem RCx.setCell {k : Key} {ex : Nat → Int} (h : RCx k ex) (c : Option Slock.Value.Cell) : RCx { k with cell := c } ex :=
  h.transfer rfl rfl (fun _ => rfl)

theorem Lv.setCell {w : W} {ex : Nat → Int} (h : Lv w ex) (c : Option Slock.Value.Cell) : Lv { w with k := { w.k with cell := c } } ex :=
  ⟨h.rc.setCell c, h.side.of_le (RecsLe.of_eq rfl) (Nat.le_refl _)⟩

/-! ### value operation and journalling: records keep their references -/

theorem Lv.procData {w : W} {ex : Nat → Int} (h : Lv w ex) (ct : Slock.Value.CmdType) (c : Cmd) (f : Option Bytes) (rid : Nat) :
    Lv (w.procData ct c f rid) ex := by
  unfold W.procData
  split
  · exact h
  · simp only []
    split
    · exact h.db rfl (Nat.le_refl _)
    · rename_i cell' _
      split
      · have := (h.setCell cell').modR_plain rid (fun r => { r with aofData := true }) (fun _ => rfl) (fun _ => rfl) (fun _ => rfl)
          (fun _ => rfl) (fun _ => rfl)
        exact this
      · exact h.setCell cell'

theorem Lv.ofAofLockData {w : W} {ex : Nat → Int} (h : Lv w ex) (b : Bool) (rid : Nat) : Lv { w with k := (aofLockData w.k b rid).1 } ex := by
  unfold Slock.Engine2.aofLockData
  split
  · exact h.modR_plain rid (fun r => { r with aofData := false }) (fun _ => rfl) (fun _ => rfl) (fun _ => rfl) (fun _ => rfl) (fun _ => rfl)
  · split
    · split
      · exact h.setCell _
      · exact h
    · exact h

theorem Lv.pushLockAof {w : W} {ex : Nat → Int} (h : Lv w ex) (rid flag : Nat) : Lv (w.pushLockAof rid flag) ex := by
  unfold W.pushLockAof
  split
  · exact h
  · simp only []
    split
    · exact h.modR_plain rid (fun r => { r with isAof := true }) (fun _ => rfl) (fun _ => rfl) (fun _ => rfl) (fun _ => rfl) (fun _ => rfl)
    · have h1 := h.ofAofLockData true rid
      have h2 := h1.modR_plain rid (fun r => { r with isAof := true }) (fun _ => rfl) (fun _ => rfl) (fun _ => rfl) (fun _ => rfl) (fun _ => rfl)
      exact h2.db rfl (Nat.le_refl _)

theorem Lv.pushLockAofN {ex : Nat → Int} (n : Nat) (w : W) (h : Lv w ex) (rid : Nat) : Lv (W.pushLockAofN n w rid) ex := by
  induction n generalizing w with
  | zero => exact h
  | succ n ih => unfold W.pushLockAofN; exact ih _ (h.pushLockAof rid 0)

theorem Lv.pushUnLockAof {w : W} {ex : Nat → Int} (h : Lv w ex) (rid : Nat) (lc : Cmd) (fa ia : Bool) (flag : Nat) :
    Lv (w.pushUnLockAof rid lc fa ia flag) ex := by
  unfold W.pushUnLockAof
  split
  · exact h
  · split
    · exact h.modR_plain rid (fun r => { r with isAof := ia }) (fun _ => rfl) (fun _ => rfl) (fun _ => rfl) (fun _ => rfl) (fun _ => rfl)
    · have h1 := h.ofAofLockData false rid
      have h2 := h1.modR_plain rid (fun r => { r with isAof := ia }) (fun _ => rfl) (fun _ => rfl) (fun _ => rfl) (fun _ => rfl) (fun _ => rfl)
      exact h2.db rfl (Nat.le_refl _)

theorem Lv.journalLock {w : W} {ex : Nat → Int} (h : Lv w ex) (rid flag : Nat) : Lv (w.journalLock rid flag) ex :=
  h.when _ _ (h.pushLockAof rid flag)
theorem Lv.journalUnlock {w : W} {ex : Nat → Int} (h : Lv w ex) (rid : Nat) (fa ia : Bool) (flag : Nat) :
    Lv (w.journalUnlock rid fa ia flag) ex := h.when _ _ (h.pushUnLockAof rid _ fa ia flag)

/-! ### reference counts of single records -/

theorem Lv.ref {w : W} {ex : Nat → Int} (h : Lv w ex) (rid : Nat) (hh : w.k.hasRec rid) :
    Lv (w.ref rid) (fun y => ex y + delta rid y) := by
  refine h.modR rid _ (fun _ => rfl) (h.rc.incr rid hh) ?_
  intro r hr _
  exact h.side.ok r hr

/-- the record's own view of a wheel membership changing -/
theorem Lv.wheel {w : W} {ex : Nat → Int} (h : Lv w ex) (rid : Nat) (f : Rec → Rec) (hf : ∀ r, (f r).rid = r.rid)
    (h1 : ∀ r, (f r).refCount = r.refCount) (d : Int)
    (hw : ((f (w.k.getR rid)).wheelRefs : Int) = (w.k.getR rid).wheelRefs + d) (hh : w.k.hasRec rid)
    (hok : ∀ r ∈ w.k.recs, r.rid = rid → RecOk (f r)) :
    Lv (w.modR rid f) (fun y => ex y - d * delta rid y) := by
  refine h.modR rid f hf ?_ hok
  refine h.rc.modRec rid f hf (fun y hy => by simp [delta, hy]) (fun _ => ?_) (fun hn => absurd hh hn)
  rw [h1]; simp only [delta, if_true]; omega

/-! ### wheels -/

theorem wheelRefs_tNone (r : Rec) : (({ r with tSched := none } : Rec).wheelRefs : Int) =
    r.wheelRefs - (if r.tSched.isSome then 1 else 0) := by
  unfold Rec.wheelRefs; cases r.tSched <;> cases r.eSched <;> simp
theorem wheelRefs_eNone (r : Rec) : (({ r with eSched := none } : Rec).wheelRefs : Int) =
    r.wheelRefs - (if r.eSched.isSome then 1 else 0) := by
  unfold Rec.wheelRefs; cases r.tSched <;> cases r.eSched <;> simp

theorem armT_wheel (a : Nat × Sched) (r : Rec) : ((r.armT a).wheelRefs : Int) = r.wheelRefs + (if r.tSched.isSome then 0 else 1) := by
  unfold Rec.armT Rec.wheelRefs; cases r.tSched <;> cases r.eSched <;> simp
theorem armE_wheel (a : Nat × Sched) (r : Rec) : ((r.armE a).wheelRefs : Int) = r.wheelRefs + (if r.eSched.isSome then 0 else 1) := by
  unfold Rec.armE Rec.wheelRefs; cases r.tSched <;> cases r.eSched <;> simp

/-- `AddTimeOut`: `d = 1` for a record without a timeout-wheel entry (one reference more, not yet counted), `d = 0` for an entry
the sweeper has just popped and pushes again -/
theorem Lv.addTimeOut {w : W} {ex : Nat → Int} (h : Lv w ex) (rid : Nat) (hh : w.k.hasRec rid) (d : Int)
    (ht : (if (w.k.getR rid).tSched.isSome then 0 else 1) = d) (he : (w.k.getR rid).eSched.isSome = false) :
    Lv (w.addTimeOut rid) (fun y => ex y - d * delta rid y) := by
  unfold W.addTimeOut
  simp only []
  have h1 := h.wheel rid (Rec.armT (Slock.Engine.wheelAdd w.db.tCheck w.db.seq (w.k.getR rid).timeoutT (w.k.getR rid).tChecked))
    (fun _ => rfl) (fun _ => rfl) d (by rw [armT_wheel, ← ht]) hh (by
      intro r hr er _
      have : w.k.getR rid = r := by rw [← er]; exact mem_eq_getR h.rc.nodup hr
      rw [this] at he; exact he)
  exact h1.db rfl (Nat.le_refl _)

theorem Lv.schedExpried {w : W} {ex : Nat → Int} (h : Lv w ex) (rid : Nat) (hh : w.k.hasRec rid) (d : Int)
    (he : (if (w.k.getR rid).eSched.isSome then 0 else 1) = d) (hto : (w.k.getR rid).timeouted = true) :
    Lv (w.schedExpried rid) (fun y => ex y - d * delta rid y) := by
  unfold W.schedExpried
  simp only []
  have h1 := h.wheel rid (Rec.armE (Slock.Engine.wheelAdd w.db.eCheck w.db.seq (w.k.getR rid).expT (w.k.getR rid).eChecked))
    (fun _ => rfl) (fun _ => rfl) d (by rw [armE_wheel, ← he]) hh (by
      intro r hr er hf
      have : w.k.getR rid = r := by rw [← er]; exact mem_eq_getR h.rc.nodup hr
      rw [this] at hto
      have hf' : r.timeouted = false := hf
      rw [hto] at hf'; exact absurd hf' (by simp))
  exact h1.db rfl (Nat.le_refl _)

/-- a record with an expiry-wheel entry is not a live queued request -/
theorem Lv.timeouted_of_eSched {w : W} {ex : Nat → Int} (h : Lv w ex) (rid : Nat) (hh : w.k.hasRec rid)
    (he : (w.k.getR rid).eSched.isSome = true) : (w.k.getR rid).timeouted = true := by
  cases ht : (w.k.getR rid).timeouted with
  | true => rfl
  | false => have := h.side.ok _ (getR_mem hh) ht; rw [this] at he; exact absurd he (by simp)

theorem Lv.addExpried {w : W} {ex : Nat → Int} (h : Lv w ex) (rid : Nat) (hh : w.k.hasRec rid) (d : Int)
    (he : (if (w.k.getR rid).eSched.isSome then 0 else 1) = d) (hto : (w.k.getR rid).timeouted = true) :
    Lv (w.addExpried rid) (fun y => ex y - d * delta rid y) := by
  unfold W.addExpried
  simp only []
  exact (h.schedExpried rid hh d he hto).when _ _ (Lv.pushLockAofN _ _ (h.schedExpried rid hh d he hto) _)

/-! ### long-table removal -/

theorem Lv.removeLongT {w : W} {ex : Nat → Int} (hex : ∀ y, 0 ≤ ex y) (h : Lv w ex) (rid : Nat) (hh : w.k.hasRec rid)
    (ht : (w.k.getR rid).tSched.isSome = true) : Lv (w.removeLongT rid) ex := by
  unfold W.removeLongT
  have h1 := h.wheel rid (fun r => { r with tSched := none }) (fun _ => rfl) (fun _ => rfl) (-1)
    (by rw [wheelRefs_tNone, ht]; simp; omega) hh (fun r hr _ => h.side.ok r hr)
  have hh1 : (w.k.modRec rid fun r => { r with tSched := none }).hasRec rid := by
    rw [hasRec_modRec _ _ _ _ (by intro _; rfl)]; exact hh
  have h2 := h1.rc.unrefOnly rid hh1 (by
    have := hex rid; simp only [modR_k, delta, if_true]; omega)
  refine ⟨h2.congr (fun y => by simp [delta]), ?_⟩
  exact h1.side.of_le (RecsLe.unrefOnly _ _) (Nat.le_refl _)

theorem Lv.removeLongE {w : W} {ex : Nat → Int} (hex : ∀ y, 0 ≤ ex y) (h : Lv w ex) (rid : Nat) (hh : w.k.hasRec rid)
    (ht : (w.k.getR rid).eSched.isSome = true) : Lv (w.removeLongE rid) ex := by
  unfold W.removeLongE
  have h1 := h.wheel rid (fun r => { r with eSched := none }) (fun _ => rfl) (fun _ => rfl) (-1)
    (by rw [wheelRefs_eNone, ht]; simp; omega) hh (fun r hr _ _ => rfl)
  have hh1 : (w.k.modRec rid fun r => { r with eSched := none }).hasRec rid := by
    rw [hasRec_modRec _ _ _ _ (by intro _; rfl)]; exact hh
  have h2 := h1.rc.unrefOnly rid hh1 (by
    have := hex rid; simp only [modR_k, delta, if_true]; omega)
  refine ⟨h2.congr (fun y => by simp [delta]), ?_⟩
  exact h1.side.of_le (RecsLe.unrefOnly _ _) (Nat.le_refl _)

theorem tLong_isSome (r : Rec) (h : r.tLong = true) : r.tSched.isSome = true := by
  unfold Rec.tLong at h; cases ht : r.tSched <;> simp [ht] at h ⊢
theorem eLong_isSome (r : Rec) (h : r.eLong = true) : r.eSched.isSome = true := by
  unfold Rec.eLong at h; cases ht : r.eSched <;> simp [ht] at h ⊢

theorem Lv.dropLongT {w : W} {ex : Nat → Int} (hex : ∀ y, 0 ≤ ex y) (h : Lv w ex) (rid : Nat) (hh : w.k.hasRec rid) :
    Lv (w.dropLongT rid) ex := by
  unfold W.dropLongT W.when
  split
  · rename_i hl; exact h.removeLongT hex rid hh (tLong_isSome _ hl)
  · exact h

theorem Lv.dropLongE {w : W} {ex : Nat → Int} (hex : ∀ y, 0 ≤ ex y) (h : Lv w ex) (rid : Nat) (hh : w.k.hasRec rid) :
    Lv (w.dropLongE rid) ex := by
  unfold W.dropLongE W.when
  split
  · rename_i hl; exact h.removeLongE hex rid hh (eLong_isSome _ hl)
  · exact h

/-! ### new records -/

theorem addRec_rc {k : Key} {ex : Nat → Int} (h : RCx k ex) (r : Rec) (hn : ¬ k.hasRec r.rid) (h0 : r.refCount = 0) (hw : r.wheelRefs = 0)
    (hq : (k.qRefs r.rid : Int) + ex r.rid = 0) : RCx (k.addRec r) ex := by
  unfold Key.addRec
  refine ⟨?_, ?_, by simp [h.mgr], ?_⟩
  · simp only [List.map_append, List.map_cons, List.map_nil]
    apply List.nodup_append.mpr
    refine ⟨h.nodup, by simp, ?_⟩
    intro a ha b hb
    simp at hb
    obtain ⟨r0, hr0, e⟩ := List.mem_map.mp ha
    intro e'
    exact hn ⟨r0, hr0, by rw [e, e', hb]⟩
  · intro r1 hr1
    rcases List.mem_append.mp hr1 with h1 | h1
    · exact h.rc r1 h1
    · simp at h1
      subst h1
      have : ({ k with recs := k.recs ++ [r1], refCount := k.refCount + 1 } : Key).qRefs r1.rid = k.qRefs r1.rid := rfl
      rw [this, h0, hw]; omega
  · intro x hx
    obtain ⟨r0, hr0, e⟩ := h.dang x hx
    exact ⟨r0, List.mem_append_left _ hr0, e⟩

theorem getR_addRec_same (k : Key) (r : Rec) (hn : ¬ k.hasRec r.rid) : (k.addRec r).getR r.rid = r := by
  unfold Key.getR Key.addRec
  simp only []
  rw [List.find?_append]
  have : k.recs.find? (·.rid == r.rid) = none := by
    apply List.find?_eq_none.mpr
    intro r0 hr0 he
    exact hn ⟨r0, hr0, by simpa using he⟩
  rw [this]; simp

theorem Lv.newLock {w : W} {ex : Nat → Int} (hex : ∀ y, 0 ≤ ex y) (h : Lv w ex) (c : Cmd) (d : Option Bytes) :
    Lv (w.newLock c d).1 ex ∧ (w.newLock c d).1.k.hasRec w.db.nextRid ∧ (w.newLock c d).2 = w.db.nextRid ∧
    (w.newLock c d).1.k.qRefs w.db.nextRid = 0 ∧ ex w.db.nextRid = 0 ∧
    (w.newLock c d).1.k.getR w.db.nextRid = newRec w.db.nextRid w.db.now c d := by
  have hrid : (newRec w.db.nextRid w.db.now c d).rid = w.db.nextRid := rfl
  have hnot : ¬ w.k.hasRec (newRec w.db.nextRid w.db.now c d).rid := by
    rw [hrid]
    rintro ⟨r, hr, e⟩
    have := h.side.fresh r hr
    omega
  have hq : (w.k.qRefs w.db.nextRid : Int) + ex w.db.nextRid ≤ 0 := by
    apply Classical.byContradiction
    intro hn
    exact hnot (by rw [hrid]; exact h.rc.dang _ (by omega))
  have hq0 : w.k.qRefs w.db.nextRid = 0 := by have := hex w.db.nextRid; omega
  have hex0 : ex w.db.nextRid = 0 := by have := hex w.db.nextRid; omega
  have hrc := addRec_rc h.rc (newRec w.db.nextRid w.db.now c d) hnot rfl rfl (by rw [hrid]; omega)
  refine ⟨⟨hrc, ?_, ?_⟩, ⟨_, List.mem_append_right _ (List.mem_singleton.mpr rfl), rfl⟩, rfl, hq0, hex0, getR_addRec_same _ _ hnot⟩
  · intro r hr
    rcases List.mem_append.mp hr with h1 | h1
    · exact Nat.lt_succ_of_lt (h.side.fresh r h1)
    · simp at h1; subst h1; exact Nat.lt_succ_self _
  · intro r hr
    rcases List.mem_append.mp hr with h1 | h1
    · exact h.side.ok r h1
    · simp at h1; subst h1; intro hf; simp [newRec] at hf

/-! ### granting -/

theorem addLockF_fields (db : DB) (k : Key) (r : Rec) :
    (addLockF db k r).rid = r.rid ∧ (addLockF db k r).timeouted = r.timeouted ∧ (addLockF db k r).eSched = r.eSched ∧
    (addLockF db k r).tSched = r.tSched ∧ (addLockF db k r).refCount = r.refCount + 1 ∧ (addLockF db k r).depth = 1 ∧
    (addLockF db k r).cmd = r.cmd ∧ (addLockF db k r).data = r.data ∧ (addLockF db k r).conn = r.conn := by
  unfold addLockF; simp

theorem Lv.addLock {w : W} {ex : Nat → Int} (hex : ∀ y, 0 ≤ ex y) (h : Lv w ex) (rid : Nat) (hh : w.k.hasRec rid) :
    Lv (w.addLock rid) ex := by
  unfold W.addLock
  have hf := addLockF_fields w.db w.k
  have h1 : RCx (w.k.modRec rid (addLockF w.db w.k)) (fun y => ex y + delta rid y) := by
    refine h.rc.modRec rid _ (fun r => (hf r).1) (fun y hy => by simp [delta, hy]) (fun _ => ?_) (fun hn => absurd hh hn)
    have := hf (w.k.getR rid)
    simp only [Rec.wheelRefs, this.2.2.1, this.2.2.2.1, this.2.2.2.2.1, delta, if_true]; omega
  refine h.modK _ (addLock_rc hex rid _ h1) (RecsLe.addLock _ _ _ (fun r => ⟨(hf r).1, (hf r).2.1, by rw [(hf r).2.2.1]⟩))

theorem hasRec_of_le {k k' : Key} (x : Nat) (h : k'.recs.map (·.rid) = k.recs.map (·.rid)) : k'.hasRec x ↔ k.hasRec x := by
  have : ∀ k : Key, k.hasRec x ↔ x ∈ k.recs.map (·.rid) := by
    intro k; unfold Key.hasRec; simp [List.mem_map]
  rw [this, this, h]

theorem hasRec_modR (w : W) (rid x : Nat) (f : Rec → Rec) (hf : ∀ r, (f r).rid = r.rid) : (w.modR rid f).k.hasRec x ↔ w.k.hasRec x :=
  hasRec_modRec _ _ _ _ hf

/-! ### following one record through the queue operations -/

theorem getR_free_other (k : Key) (x y : Nat) (h : y ≠ x) : (k.free x).getR y = k.getR y := by
  unfold Key.free
  split
  · unfold Key.getR
    simp only []
    congr 1
    induction k.recs with
    | nil => rfl
    | cons a as ih =>
      by_cases e : a.rid = x
      · have h1 : (a.rid != x) = false := by simp [e]
        have h2 : (a.rid == y) = false := by rw [e]; simpa using (fun e' : x = y => h e'.symm)
        simp only [List.filter, h1, List.find?, h2]; exact ih
      · have h1 : (a.rid != x) = true := by simpa using e
        simp only [List.filter, h1, List.find?]
        cases (a.rid == y)
        · exact ih
        · rfl
  · rfl

theorem getR_unref_other (k : Key) (x y : Nat) (h : y ≠ x) : (k.unref x).getR y = k.getR y := by
  unfold Key.unref
  simp only []
  have h1 : (k.unrefOnly x).getR y = k.getR y := getR_modRec_other _ _ _ _ (by intro _; rfl) h
  split
  · rw [getR_free_other _ _ _ h, h1]
  · exact h1

theorem keep_foldl_unref (d : List Nat) (k : Key) (y : Nat) (hy : y ∉ d) :
    (d.foldl (fun k x => k.unref x) k).getR y = k.getR y ∧ ((d.foldl (fun k x => k.unref x) k).hasRec y ↔ k.hasRec y) := by
  refine ⟨?_, hasRec_foldl_unref d k y hy⟩
  induction d generalizing k with
  | nil => rfl
  | cons a as ih =>
    simp only [List.foldl_cons]
    rw [ih _ (fun h => hy (List.mem_cons_of_mem _ h))]
    exact getR_unref_other _ _ _ (fun e => hy (by simp [e]))

/-- `locks.Push` never touches a live holder's record -/
theorem keep_locksPush (k : Key) (rid y : Nat) (hy : k.liveHolder y = true) :
    (k.locksPush rid).getR y = k.getR y ∧ ((k.locksPush rid).hasRec y ↔ k.hasRec y) := by
  unfold Key.locksPush
  simp only []
  split
  · exact ⟨rfl, Iff.rfl⟩
  · split
    · exact ⟨rfl, Iff.rfl⟩
    · have hnd : y ∉ k.locks.filter (fun x => !k.liveHolder x) := by
        intro hm
        have := (List.mem_filter.mp hm).2
        rw [hy] at this; simp at this
      split
      · exact keep_foldl_unref _ _ _ hnd
      · exact keep_foldl_unref _ _ _ hnd

/-- after `AddLock(rid)` the record is `addLockF` of what it was -/
theorem keep_addLock (k : Key) (rid : Nat) (f : Rec → Rec) (hf : ∀ r, (f r).rid = r.rid) (hd : ∀ r, (f r).depth = 1) (hh : k.hasRec rid) :
    (k.addLock rid f).getR rid = f (k.getR rid) ∧ (k.addLock rid f).hasRec rid := by
  have h1 : (k.modRec rid f).getR rid = f (k.getR rid) := getR_modRec_same _ _ _ hf hh
  have h2 : (k.modRec rid f).hasRec rid := (hasRec_modRec _ _ _ _ hf).mpr hh
  unfold Key.addLock
  split
  · exact ⟨h1, h2⟩
  · have hl : (k.modRec rid f).liveHolder rid = true := by unfold Key.liveHolder; rw [h1, hd]; rfl
    obtain ⟨a, b⟩ := keep_locksPush (k.modRec rid f) rid rid hl
    exact ⟨a.trans h1, b.mpr h2⟩

/-- the value operation leaves every field of every record alone but `aofData` -/
theorem keep_procData (w : W) (ct : Slock.Value.CmdType) (c : Cmd) (f : Option Bytes) (rid y : Nat) :
    ((w.procData ct c f rid).k.hasRec y ↔ w.k.hasRec y) ∧
    ((w.procData ct c f rid).k.getR y).eSched = (w.k.getR y).eSched ∧ ((w.procData ct c f rid).k.getR y).tSched = (w.k.getR y).tSched ∧
    ((w.procData ct c f rid).k.getR y).timeouted = (w.k.getR y).timeouted ∧ ((w.procData ct c f rid).k.getR y).cmd = (w.k.getR y).cmd ∧
    ((w.procData ct c f rid).k.getR y).conn = (w.k.getR y).conn ∧ ((w.procData ct c f rid).k.getR y).depth = (w.k.getR y).depth ∧
    ((w.procData ct c f rid).k.getR y).data = (w.k.getR y).data ∧ ((w.procData ct c f rid).k.getR y).isAof = (w.k.getR y).isAof := by
  unfold W.procData
  split
  · exact ⟨Iff.rfl, rfl, rfl, rfl, rfl, rfl, rfl, rfl, rfl⟩
  · simp only []
    split
    · exact ⟨Iff.rfl, rfl, rfl, rfl, rfl, rfl, rfl, rfl, rfl⟩
    · split
      · rename_i cell' _ _
        have hk : ∀ z, ({ w.k with cell := cell' } : Key).getR z = w.k.getR z := fun _ => rfl
        by_cases e : y = rid
        · subst e
          by_cases hh : w.k.hasRec y
          · have := getR_modRec_same ({ w.k with cell := cell' } : Key) y (fun r => { r with aofData := true }) (fun _ => rfl) hh
            refine ⟨hasRec_modRec _ _ _ _ (by intro _; rfl), ?_⟩
            simp [this, hk]
          · have hn : (({ w.k with cell := cell' } : Key).modRec y fun r => { r with aofData := true }).getR y = w.k.getR y := by
              have hnr : ¬ (({ w.k with cell := cell' } : Key).modRec y fun r => { r with aofData := true }).hasRec y := by
                rw [hasRec_modRec _ _ _ _ (by intro _; rfl)]; exact hh
              unfold Key.getR
              have e1 : (({ w.k with cell := cell' } : Key).modRec y fun r => { r with aofData := true }).recs.find? (·.rid == y) = none := by
                apply List.find?_eq_none.mpr
                intro r hr he
                exact hnr ⟨r, hr, by simpa using he⟩
              have e2 : w.k.recs.find? (·.rid == y) = none := by
                apply List.find?_eq_none.mpr
                intro r hr he
                exact hh ⟨r, hr, by simpa using he⟩
              rw [e1, e2]
            refine ⟨hasRec_modRec _ _ _ _ (by intro _; rfl), ?_⟩
            simp [hn]
        · have := getR_modRec_other ({ w.k with cell := cell' } : Key) rid y (fun r => { r with aofData := true }) (fun _ => rfl) e
          refine ⟨hasRec_modRec _ _ _ _ (by intro _; rfl), ?_⟩
          simp [this, hk]
      · exact ⟨Iff.rfl, rfl, rfl, rfl, rfl, rfl, rfl, rfl, rfl⟩

/-! ### record ids are stable under journalling and scheduling -/

def Key.ids (k : Key) : List Nat := k.recs.map (·.rid)

theorem hasRec_iff_ids (k : Key) (x : Nat) : k.hasRec x ↔ x ∈ k.ids := by
  unfold Key.hasRec Key.ids; simp [List.mem_map]

theorem ids_modRec (k : Key) (rid : Nat) (f : Rec → Rec) (hf : ∀ r, (f r).rid = r.rid) : (k.modRec rid f).ids = k.ids :=
  map_rid_modRec k rid f hf

theorem ids_aofLockData (k : Key) (b : Bool) (rid : Nat) : (aofLockData k b rid).1.ids = k.ids := by
  unfold aofLockData
  split
  · exact ids_modRec _ _ _ (fun _ => rfl)
  · split
    · split <;> rfl
    · rfl

theorem ids_pushLockAof (w : W) (rid flag : Nat) : (w.pushLockAof rid flag).k.ids = w.k.ids := by
  unfold W.pushLockAof
  split
  · rfl
  · simp only []
    split
    · exact ids_modRec _ _ _ (fun _ => rfl)
    · exact (ids_modRec (aofLockData w.k true rid).1 rid _ (by intro _; rfl)).trans (ids_aofLockData _ _ _)

theorem ids_pushLockAofN (n : Nat) (w : W) (rid : Nat) : (W.pushLockAofN n w rid).k.ids = w.k.ids := by
  induction n generalizing w with
  | zero => rfl
  | succ n ih => unfold W.pushLockAofN; exact (ih _).trans (ids_pushLockAof _ _ _)

theorem ids_pushUnLockAof (w : W) (rid : Nat) (lc : Cmd) (fa ia : Bool) (flag : Nat) : (w.pushUnLockAof rid lc fa ia flag).k.ids = w.k.ids := by
  unfold W.pushUnLockAof
  split
  · rfl
  · split
    · exact ids_modRec _ _ _ (fun _ => rfl)
    · exact (ids_modRec (aofLockData w.k false rid).1 rid _ (by intro _; rfl)).trans (ids_aofLockData _ _ _)

theorem ids_addExpried (w : W) (rid : Nat) : (w.addExpried rid).k.ids = w.k.ids := by
  unfold W.addExpried W.when
  simp only []
  have h1 : (w.schedExpried rid).k.ids = w.k.ids := ids_modRec _ _ _ (fun _ => rfl)
  split
  · exact (ids_pushLockAofN _ _ _).trans h1
  · exact h1

theorem ids_addTimeOut (w : W) (rid : Nat) : (w.addTimeOut rid).k.ids = w.k.ids := ids_modRec _ _ _ (fun _ => rfl)

theorem hasRec_of_ids {k k' : Key} (h : k'.ids = k.ids) (x : Nat) : k'.hasRec x ↔ k.hasRec x := by
  rw [hasRec_iff_ids, hasRec_iff_ids, h]

/-- a record that can be given an expiry-wheel entry: it exists, has none, and is not a live queued request -/
structure Grantable (k : Key) (rid : Nat) : Prop where
  has : k.hasRec rid
  noE : (k.getR rid).eSched = none
  tomb : (k.getR rid).timeouted = true

theorem grant_head {w : W} {ex : Nat → Int} (hex : ∀ y, 0 ≤ ex y) (h : Lv w ex) (rid : Nat) (g : Grantable w.k rid) :
    Lv ((w.addLock rid).modK incLocked) ex ∧ Grantable ((w.addLock rid).modK incLocked).k rid := by
  have hf := addLockF_fields w.db w.k
  have l1 := h.addLock hex rid g.has
  obtain ⟨g1, hh1⟩ := keep_addLock w.k rid (addLockF w.db w.k) (fun r => (hf r).1) (fun r => (hf r).2.2.2.2.2.1) g.has
  have l2 : Lv ((w.addLock rid).modK incLocked) ex :=
    l1.modK incLocked (l1.rc.transfer rfl rfl (fun _ => rfl)) (RecsLe.of_eq rfl)
  have g2 : ((w.addLock rid).modK incLocked).k.getR rid = addLockF w.db w.k (w.k.getR rid) := g1
  exact ⟨l2, hh1, by rw [g2, (hf _).2.2.1]; exact g.noE, by rw [g2, (hf _).2.1]; exact g.tomb⟩

theorem grant_tail {w : W} {ex : Nat → Int} (h : Lv w ex) (rid : Nat) (g : Grantable w.k rid) (c cc : Cmd) (f d : Option Bytes)
    (cf : Counters → Counters) (a b : Nat) :
    Lv ((((((w.procData .lock c f rid).modR rid (fun r => { r with data := none })).addExpried rid).ref rid).ctr cf).reply cc a b d) ex ∧
    ((((((w.procData .lock c f rid).modR rid (fun r => { r with data := none })).addExpried rid).ref rid).ctr cf).reply cc a b d).k.hasRec rid := by
  have l3 := h.procData .lock c f rid
  obtain ⟨p1, p2, _, p4, _⟩ := keep_procData w .lock c f rid rid
  have hh3 := p1.mpr g.has
  have l4 := l3.modR_plain rid (fun r => { r with data := none }) (fun _ => rfl) (fun _ => rfl) (fun _ => rfl) (fun _ => rfl) (fun _ => rfl)
  have hh4 := (hasRec_modR _ rid rid (fun r => { r with data := none }) (fun _ => rfl)).mpr hh3
  have g4 := getR_modRec_same (w.procData .lock c f rid).k rid (fun r => { r with data := none }) (fun _ => rfl) hh3
  have l5 := l4.addExpried rid hh4 1 (by rw [modR_k, g4]; simp [p2, g.noE]) (by rw [modR_k, g4]; show _ = true; rw [p4]; exact g.tomb)
  have hh5 := (hasRec_of_ids (ids_addExpried _ rid) rid).mpr hh4
  have l6 := (l5.ref rid hh5).congr (ex' := ex) (fun y => by simp)
  have hh6 : ((((w.procData .lock c f rid).modR rid (fun r => { r with data := none })).addExpried rid).ref rid).k.hasRec rid := by
    unfold W.ref; rw [hasRec_modR _ rid rid _ (by intro _; rfl)]; exact hh5
  exact ⟨(l6.ctr _).reply _ _ _ _, hh6⟩

/-- the grant of `rid` (Expried > 0): holder (current or queued) + expiry-wheel entry, both counted -/
theorem Lv.grant {w : W} {ex : Nat → Int} (hex : ∀ y, 0 ≤ ex y) (h : Lv w ex) (rid : Nat) (g : Grantable w.k rid) :
    Lv (w.grant rid) ex ∧ (w.grant rid).k.hasRec rid := by
  obtain ⟨l2, g2⟩ := grant_head hex h rid g
  unfold W.grant
  simp only []
  exact grant_tail l2 rid g2 _ _ _ _ _ _ _

theorem Lv.grantNoHold {w : W} {ex : Nat → Int} (h : Lv w ex) (rid : Nat) : Lv (w.grantNoHold rid) ex := by
  unfold W.grantNoHold
  simp only []
  refine Lv.modR_plain ?_ rid _ (fun _ => rfl) (fun _ => rfl) (fun _ => rfl) (fun _ => rfl) (fun _ => rfl)
  exact (h.procData _ _ _ _).when _ _ ((h.procData _ _ _ _).pushLockAof _ _)

theorem ids_grantNoHold (w : W) (rid : Nat) : (w.grantNoHold rid).k.ids = w.k.ids := by
  unfold W.grantNoHold W.when
  simp only []
  have hp : ∀ (c : Cmd) (f : Option Bytes), (w.procData .lock c f rid).k.ids = w.k.ids := by
    intro c f
    unfold W.procData
    split
    · rfl
    · simp only []
      split
      · rfl
      · split
        · exact ids_modRec _ _ _ (fun _ => rfl)
        · rfl
  have hm : ∀ w' : W, (w'.modR rid (fun r => { r with data := none })).k.ids = w'.k.ids := fun w' => ids_modRec _ _ _ (by intro _; rfl)
  rw [hm]
  split
  · exact (ids_pushLockAof _ _ _).trans (hp _ _)
  · exact hp _ _

/-! ### update of a hold -/

theorem updF_fields (db : DB) (sole : Bool) (c : Cmd) (r : Rec) :
    (updF db sole c r).rid = r.rid ∧ (updF db sole c r).refCount = r.refCount ∧ (updF db sole c r).tSched = r.tSched ∧
    (updF db sole c r).eSched.isSome = r.eSched.isSome ∧ (updF db sole c r).timeouted = r.timeouted ∧
    (updF db sole c r).depth = r.depth := by
  unfold updF
  simp only []
  split <;> split <;> simp

theorem getR_removeLongE (w : W) (rid : Nat) (hh : w.k.hasRec rid) :
    (w.removeLongE rid).k.hasRec rid ∧ ((w.removeLongE rid).k.getR rid).eSched = none ∧
    ((w.removeLongE rid).k.getR rid).timeouted = (w.k.getR rid).timeouted := by
  unfold W.removeLongE Key.unrefOnly
  have h1 : (w.k.modRec rid fun r => { r with eSched := none }).hasRec rid := by
    rw [hasRec_modRec _ _ _ _ (by intro _; rfl)]; exact hh
  have h2 : ((w.k.modRec rid fun r => { r with eSched := none }).modRec rid fun r => { r with refCount := decU8 r.refCount }).hasRec rid := by
    rw [hasRec_modRec _ _ _ _ (by intro _; rfl)]; exact h1
  refine ⟨h2, ?_, ?_⟩
  · show (((w.k.modRec rid fun r => { r with eSched := none }).modRec rid fun r => { r with refCount := decU8 r.refCount }).getR rid).eSched = none
    rw [getR_modRec_same _ _ _ (by intro _; rfl) h1, getR_modRec_same _ _ _ (by intro _; rfl) hh]
  · show (((w.k.modRec rid fun r => { r with eSched := none }).modRec rid fun r => { r with refCount := decU8 r.refCount }).getR rid).timeouted = _
    rw [getR_modRec_same _ _ _ (by intro _; rfl) h1, getR_modRec_same _ _ _ (by intro _; rfl) hh]

theorem Lv.updateLocked {w : W} {ex : Nat → Int} (hex : ∀ y, 0 ≤ ex y) (h : Lv w ex) (rid : Nat) (c : Cmd) (hh : w.k.hasRec rid) :
    Lv (w.updateLocked rid c) ex := by
  unfold W.updateLocked
  simp only []
  have hf := updF_fields w.db (!(w.k.getR rid).isAof && w.k.current == some rid && w.k.locks.isEmpty) c
  have l1 : Lv (w.modR rid (updF w.db (!(w.k.getR rid).isAof && w.k.current == some rid && w.k.locks.isEmpty) c)) ex :=
    h.modR_plain rid _ (fun r => (hf r).1) (fun r => (hf r).2.1) (fun r => by rw [(hf r).2.2.1]) (fun r => (hf r).2.2.2.1)
      (fun r => (hf r).2.2.2.2.1)
  have hh1 : (w.modR rid (updF w.db (!(w.k.getR rid).isAof && w.k.current == some rid && w.k.locks.isEmpty) c)).k.hasRec rid :=
    (hasRec_modR _ rid rid _ (fun r => (hf r).1)).mpr hh
  have g1 : (w.modR rid (updF w.db (!(w.k.getR rid).isAof && w.k.current == some rid && w.k.locks.isEmpty) c)).k.getR rid =
      updF w.db (!(w.k.getR rid).isAof && w.k.current == some rid && w.k.locks.isEmpty) c (w.k.getR rid) :=
    getR_modRec_same _ _ _ (fun r => (hf r).1) hh
  refine Lv.modR_plain ?_ rid _ (fun _ => rfl) (fun _ => rfl) (fun _ => rfl) (fun _ => rfl) (fun _ => rfl)
  unfold W.when
  split
  · rename_i hc
    have hl : (w.k.getR rid).eLong = true := by
      cases hl : (w.k.getR rid).eLong with
      | true => rfl
      | false => rw [hl] at hc; simp at hc
    have hs : ((w.modR rid (updF w.db (!(w.k.getR rid).isAof && w.k.current == some rid && w.k.locks.isEmpty) c)).k.getR rid).eSched.isSome = true := by
      rw [g1, (hf _).2.2.2.1]; exact eLong_isSome _ hl
    have hto := l1.timeouted_of_eSched rid hh1 hs
    have l2 := l1.removeLongE hex rid hh1 hs
    obtain ⟨hh2, e2, t2⟩ := getR_removeLongE _ rid hh1
    have l3 := l2.addExpried rid hh2 1 (by simp [e2]) (by rw [t2]; exact hto)
    have hh3 := (hasRec_of_ids (ids_addExpried _ rid) rid).mpr hh2
    exact (l3.ref rid hh3).congr (fun y => by simp)
  · exact l1

/-! ### freeing records and reclaiming the key record -/

theorem LvG.removeIfZero {w : W} {ex : Nat → Int} (h : LvG w ex) : LvG w.removeIfZero ex := by
  rcases removeIfZero_cases w with e | ⟨hg, _⟩
  · rw [e]; exact h
  · intro hf; rw [hg] at hf; exact absurd hf (by simp)

theorem LvG.freeCheck {w : W} {ex : Nat → Int} (h : LvG w ex) (rid : Nat) (hz : w.gone = false → (w.k.qRefs rid : Int) + ex rid ≤ 0) :
    LvG (w.freeCheck rid) ex := by
  unfold W.freeCheck
  apply LvG.removeIfZero
  intro hg
  have hg' : w.gone = false := hg
  exact (h hg').modK _ ((h hg').rc.free rid (hz hg')) (RecsLe.free _ _)

theorem LvG.unrefCheck {w : W} {ex : Nat → Int} (h : LvG w ex) (rid : Nat) (hpos : w.gone = false → 0 < (w.k.qRefs rid : Int) + ex rid) :
    LvG (w.unrefCheck rid) (fun y => ex y - delta rid y) := by
  unfold W.unrefCheck
  simp only []
  have h1 : LvG (w.modK (·.unrefOnly rid)) (fun y => ex y - delta rid y) := by
    intro hg
    have hg' : w.gone = false := hg
    have hh := (h hg').rc.dang rid (hpos hg')
    exact (h hg').modK _ ((h hg').rc.unrefOnly rid hh (by have := hpos hg'; omega)) (RecsLe.unrefOnly _ _)
  unfold W.when
  split
  · rename_i hz
    apply h1.freeCheck
    intro hg
    have hg' : w.gone = false := hg
    have hh := (h hg').rc.dang rid (hpos hg')
    have hh1 : (w.modK (·.unrefOnly rid)).k.hasRec rid := by
      show (w.k.unrefOnly rid).hasRec rid
      unfold Key.unrefOnly; rw [hasRec_modRec _ _ _ _ (by intro _; rfl)]; exact hh
    have := (h1 hg).rc.refCount_of hh1
    have hz' : ((w.modK (·.unrefOnly rid)).k.getR rid).refCount = 0 := by simpa using hz
    rw [hz'] at this
    simp only [delta, if_true] at this ⊢
    have hq : (w.modK (·.unrefOnly rid)).k.qRefs rid = w.k.qRefs rid := rfl
    rw [hq] at this
    omega
  · exact h1

theorem LvG.dropT {w : W} {ex : Nat → Int} (h : LvG w ex) (hex : ∀ y, 0 ≤ ex y) (rid : Nat)
    (hs : w.gone = false → w.k.hasRec rid ∧ (w.k.getR rid).tSched.isSome = true) : LvG (w.dropT rid) ex := by
  unfold W.dropT
  have h1 : LvG (w.modR rid (fun r => { r with tSched := none })) (fun y => ex y + delta rid y) := by
    intro hg
    have hg' : w.gone = false := hg
    have := (h hg').wheel rid (fun r => { r with tSched := none }) (fun _ => rfl) (fun _ => rfl) (-1)
      (by rw [wheelRefs_tNone, (hs hg').2]; simp; omega) (hs hg').1 (fun r hr _ => (h hg').side.ok r hr)
    exact this.congr (fun y => by simp)
  refine fun hg => ((h1.unrefCheck rid ?_) hg).congr (fun y => by simp)
  intro _
  have := hex rid
  simp only [delta, if_true]; omega

theorem LvG.dropE {w : W} {ex : Nat → Int} (h : LvG w ex) (hex : ∀ y, 0 ≤ ex y) (rid : Nat)
    (hs : w.gone = false → w.k.hasRec rid ∧ (w.k.getR rid).eSched.isSome = true) : LvG (w.dropE rid) ex := by
  unfold W.dropE
  have h1 : LvG (w.modR rid (fun r => { r with eSched := none })) (fun y => ex y + delta rid y) := by
    intro hg
    have hg' : w.gone = false := hg
    have := (h hg').wheel rid (fun r => { r with eSched := none }) (fun _ => rfl) (fun _ => rfl) (-1)
      (by rw [wheelRefs_eNone, (hs hg').2]; simp; omega) (hs hg').1 (fun r hr _ _ => rfl)
    exact this.congr (fun y => by simp)
  refine fun hg => ((h1.unrefCheck rid ?_) hg).congr (fun y => by simp)
  intro _
  have := hex rid
  simp only [delta, if_true]; omega

end Slock.Engine2
