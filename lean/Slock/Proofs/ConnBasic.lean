import Slock.Model.Conn
/-! Helper lemmas for M-CONN: association lists, the engine submission log, `drain`, `recv`. -/
namespace Slock.Conn

/-! ### association lists -/
theorem aget_adel_self (m : List (Nat × Nat)) (k : Nat) : aget (adel m k) k = none := by
  induction m with
  | nil => rfl
  | cons p r ih =>
    obtain ⟨a, b⟩ := p
    by_cases h : a = k
    · simp only [adel, h, if_true]; exact ih
    · simp only [adel, h, if_false, aget]; exact ih

theorem aget_adel_ne (m : List (Nat × Nat)) (k j : Nat) (h : j ≠ k) : aget (adel m k) j = aget m j := by
  induction m with
  | nil => rfl
  | cons p r ih =>
    obtain ⟨a, b⟩ := p
    by_cases ha : a = k
    · have hj : ¬ a = j := fun e => h (e ▸ ha)
      simp only [adel, ha, if_true, aget]
      have hk : ¬ k = j := fun e => h e.symm
      simp only [hk, if_false]; exact ih
    · simp only [adel, ha, if_false, aget]; rw [ih]

theorem aget_aput_self (m : List (Nat × Nat)) (k v : Nat) : aget (aput m k v) k = some v := by
  simp [aput, aget]

theorem aget_aput_ne (m : List (Nat × Nat)) (k v j : Nat) (h : j ≠ k) : aget (aput m k v) j = aget m j := by
  have : k ≠ j := fun e => h e.symm
  simp [aput, aget, this, aget_adel_ne m k j h]

/-- a lookup that succeeds after a deletion succeeded before it, under another key -/
theorem aget_adel_some (m : List (Nat × Nat)) (k j d : Nat) (h : aget (adel m k) j = some d) : aget m j = some d ∧ j ≠ k := by
  by_cases e : j = k
  · subst e; rw [aget_adel_self] at h; cases h
  · rw [aget_adel_ne m k j e] at h; exact ⟨h, e⟩

/-! ### engine submission log -/
theorem execL_append (e₁ e₂ : List (Nat × Nat)) (c : Nat) : execL (e₁ ++ e₂) c = execL e₁ c ++ execL e₂ c := by
  simp [execL, List.filter_append, List.map_append]

theorem execL_same (c : Nat) (toks : List Nat) : execL (toks.map (fun t => (c, t))) c = toks := by
  induction toks with
  | nil => rfl
  | cons t ts ih => simp [execL] at ih ⊢; exact ih

theorem execL_other (c d : Nat) (h : d ≠ c) (toks : List Nat) : execL (toks.map (fun t => (c, t))) d = [] := by
  induction toks with
  | nil => rfl
  | cons t ts ih =>
    have : c ≠ d := fun e => h e.symm
    simp [execL, this] at ih ⊢

theorem execL_none (eng : List (Nat × Nat)) (c : Nat) (h : ∀ e ∈ eng, e.1 ≠ c) : execL eng c = [] := by
  induction eng with
  | nil => rfl
  | cons e es ih =>
    have h1 : e.1 ≠ c := h e (List.mem_cons_self ..)
    have h2 := ih (fun e' he' => h e' (List.mem_cons_of_mem _ he'))
    simp [execL, List.filter, h1] at h2 ⊢; exact h2

/-! ### drain -/
/-- what the loop does with one will: a reply is produced inside the call iff `imm` or `self` -/
def willOutcome (s₁ : Server) (c : Nat) (w : Will) : WillRes :=
  ⟨w.tok, w.self, if w.imm || w.self then some (recv s₁ c w.tok) else none⟩

/-- a `Close` that does not die handles EVERY will of the queue, in order, whatever the outcome of the earlier ones -/
theorem drain_nonfatal (s₁ : Server) (c : Nat) (ws : List Will) (h : (drain s₁ c ws).2 = none) :
    (drain s₁ c ws).1 = ws.map (willOutcome s₁ c) := by
  induction ws with
  | nil => rfl
  | cons w ws ih =>
    unfold drain at h ⊢
    by_cases hi : (w.imm || w.self) = true
    · simp only [hi, if_true] at h ⊢
      split at h
      · cases h
      · simp only [List.map_cons, willOutcome, hi, if_true]; rw [ih h]
    · simp only [hi] at h ⊢
      simp only [Bool.false_eq_true, if_false, List.map_cons, willOutcome, hi] at h ⊢; rw [ih h]

theorem drain_nonfatal_toks (s₁ : Server) (c : Nat) (ws : List Will) (h : (drain s₁ c ws).2 = none) :
    (drain s₁ c ws).1.map (·.tok) = ws.map (·.tok) := by
  rw [drain_nonfatal s₁ c ws h, List.map_map]; rfl

/-- fatal or not: what was executed is a prefix of the registered wills, in order -/
theorem drain_toks_prefix (s₁ : Server) (c : Nat) (ws : List Will) :
    ∃ rest, ws.map (·.tok) = (drain s₁ c ws).1.map (·.tok) ++ rest := by
  induction ws with
  | nil => exact ⟨[], rfl⟩
  | cons w ws ih =>
    obtain ⟨rest, hr⟩ := ih
    unfold drain
    by_cases hi : (w.imm || w.self) = true
    · simp only [hi, if_true]
      split
      · exact ⟨ws.map (·.tok), by simp⟩
      · exact ⟨rest, by simp [hr]⟩
    · simp only [hi]
      exact ⟨rest, by simp [hr]⟩

/-- a reply of a will that was delivered was routed by `recv` from the closing connection -/
theorem drain_to (s₁ : Server) (c : Nat) (ws : List Will) (r : WillRes) (d : Nat) (h : r ∈ (drain s₁ c ws).1)
    (hr : r.reply = some (Dest.to d)) : recv s₁ c r.tok = .to d := by
  induction ws with
  | nil => simp [drain] at h
  | cons w ws ih =>
    unfold drain at h
    by_cases hi : (w.imm || w.self) = true
    · simp only [hi, if_true] at h
      split at h
      · simp only [List.mem_singleton] at h; subst h; simp at hr
      · simp only [List.mem_cons] at h
        rcases h with h | h
        · subst h; simp only [Option.some.injEq] at hr; exact hr
        · exact ih h
    · simp only [hi] at h
      simp only [Bool.false_eq_true, if_false, List.mem_cons] at h
      rcases h with h | h
      · subst h; simp at hr
      · exact ih h

theorem drainT_toks (ws : List Will) : (drainT ws).map (·.tok) = ws.map (·.tok) := by
  induction ws with
  | nil => rfl
  | cons w ws ih => simp [drainT, ih]

theorem drainT_no_to (ws : List Will) (r : WillRes) (d : Nat) (h : r ∈ drainT ws) : r.reply ≠ some (Dest.to d) := by
  induction ws with
  | nil => simp [drainT] at h
  | cons w ws ih =>
    simp only [drainT, List.mem_cons] at h
    rcases h with h | h
    · subst h
      simp only []
      split <;> simp
    · exact ih h

/-! ### recv -/
/-- the reply handed to an open connection is written to that connection, or not at all -/
theorem recv_open (s : Server) (d tok : Nat) (y : Conn) (hy : s.conns[d]? = some y) (ho : y.closed = false) (e : Nat)
    (h : recv s d tok = .to e) : e = d := by
  unfold recv recvN at h
  simp only [hy] at h
  cases hk : y.kind <;> simp only [hk] at h
  · simp [ho] at h
    split at h
    · cases h
    · cases h; rfl
  · split at h
    · cases h
    · simp [ho] at h
      split at h
      · cases h
      · cases h; rfl

/-- handed to a closed connection that is not inited: nothing is written and nothing recurses -/
theorem recv_closed_plain (s : Server) (d tok : Nat) (y : Conn) (hy : s.conns[d]? = some y) (hc : y.closed = true)
    (hi : y.inited = false) : recv s d tok ≠ .loop ∧ ∀ e, recv s d tok ≠ .to e := by
  unfold recv recvN
  simp only [hy]
  cases hk : y.kind
  · simp [hc, hi]
  · simp only []
    split
    · simp
    · simp [hc]

theorem recv_open_noloop (s : Server) (d tok : Nat) (y : Conn) (hy : s.conns[d]? = some y) (ho : y.closed = false) :
    recv s d tok ≠ .loop := by
  unfold recv recvN
  simp only [hy]
  cases hk : y.kind
  · simp [ho]; split <;> simp
  · simp only []
    split
    · simp
    · simp [ho]; split <;> simp

theorem recv_none (s : Server) (d tok : Nat) (hy : s.conns[d]? = none) : recv s d tok = .dropped := by
  unfold recv recvN
  simp [hy]

/-- `recv` reads only kind / closed / inited / cid / awaiting / halfClosed of the records and the clients map -/
theorem recvN_congr (s s' : Server) (hc : s'.clients = s.clients)
    (h : ∀ j : Nat, (s'.conns[j]?).map (fun (y : Conn) => (y.kind, y.closed, y.inited, y.cid, y.awaiting, y.halfClosed)) =
              (s.conns[j]?).map (fun (y : Conn) => (y.kind, y.closed, y.inited, y.cid, y.awaiting, y.halfClosed)))
    (fuel d tok : Nat) : recvN s' fuel d tok = recvN s fuel d tok := by
  induction fuel generalizing d with
  | zero => rfl
  | succ n ih =>
    unfold recvN
    have hd := h d
    cases h1 : s'.conns[d]? <;> cases h2 : s.conns[d]? <;> simp only [h1, h2, Option.map] at hd
    · rfl
    · cases hd
    · cases hd
    · rename_i y' y
      simp only [Option.some.injEq, Prod.mk.injEq] at hd
      obtain ⟨e1, e2, e3, e4, e5, e6⟩ := hd
      simp only [e1, e2, e3, e4, e5, e6, hc]
      cases y.kind <;> simp only []
      split <;> try rfl
      split <;> try rfl
      split <;> try rfl
      exact ih _

end Slock.Conn
