import Slock.Proofs.AofRecover
import Slock.Proofs.KernelsAof
/-!
`reload` (what a restart does with a journal) against `recover` (what the journal means): a journal of ONE live LOCK record
is replayed exactly; the conversion inside is the regenerated `GetLockCommandExpriedTime`.
-/
namespace Slock.Aof

/-- The `Expried` of the replayed command is the regenerated kernel of `Aof.GetLockCommandExpriedTime`. -/
theorem reload_uses_generated (ef e : Nat) (ct now : Int) (he : e < 65536) :
    loadRemaining ef e ct now = Slock.Gen.K.getLockCommandExpriedTime ef e ct now :=
  (loadRemaining_generated ef e ct now he).symm

/-- A live LOCK record on an empty database is replayed as one hold of depth 1 with the record's Count / Rcount / flags and
the deadline `engineDeadline eflag (loadRemaining …) now`. -/
theorem reloadStep_fresh_lock (now : Int) (r : JRec) (hl : r.isLock = true)
    (hs : skippedAt r.eflag r.stored r.ct.toNat now = false) (he : loadRemaining r.eflag r.stored r.ct now > 0) :
    reloadStep now [] r =
      ([applyFrame ⟨r.db, r.key, [⟨r.id, 1, r.count, r.rcount, r.eflag,
          engineDeadline r.eflag (loadRemaining r.eflag r.stored r.ct now) now,
          placeLong r.eflag now (engineDeadline r.eflag (loadRemaining r.eflag r.stored r.ct now) now), r.tflag⟩], none, false, false⟩ r.data],
       Treat.newHold) := by
  unfold reloadStep
  have hk : RState.getKey [] r.db r.key = ⟨r.db, r.key, [], none, false, false⟩ := rfl
  have hlk : (⟨r.db, r.key, [], none, false, false⟩ : RKey).locked = 0 := rfl
  simp only [hs, Bool.false_eq_true, if_false, hl, if_true, hk, hlk, Nat.lt_irrefl, List.head?_nil, Option.map_none, Option.getD_none]
  have hd : Slock.Gen.K.doLock 0 0 r.count r.tflag 0 = true := by unfold Slock.Gen.K.doLock; simp
  simp only [hd, if_true, he, List.nil_append]
  cases hdata : r.data with
  | none => simp [applyFrame, RState.setKey]
  | some f =>
    simp only [applyFrame]
    split <;> (try split) <;> (try split) <;> simp [RState.setKey]

/-- **Single-record histories: the restart restores what the journal means.** For a journal of one live LOCK record, the hold
`reload` builds has the LockId, depth, Count, Rcount and unit flags of the hold `recover` describes. -/
theorem reload_single_agrees (now : Int) (r : JRec) (hl : r.isLock = true)
    (hs : skippedAt r.eflag r.stored r.ct.toNat now = false) (he : loadRemaining r.eflag r.stored r.ct now > 0) :
    ∃ k h j, reload now [r] = [k] ∧ k.db = r.db ∧ k.key = r.key ∧ k.holds = [h] ∧
      (recover [r]).get r.db r.key r.id = some j ∧
      h.id = j.id ∧ h.depth = j.depth ∧ h.count = j.count ∧ h.rcount = j.rcount ∧ h.eflag &&& 0x4440 = j.eflag ∧
      h.deadline = engineDeadline r.eflag (loadRemaining r.eflag r.stored r.ct now) now := by
  have hstep := reloadStep_fresh_lock now r hl hs he
  have hrec : (recover [r]).get r.db r.key r.id = some (r.terms 1) := by
    have := lock_new JState.empty r hl rfl
    simpa [recover] using this
  have hkey : ∀ (k : RKey) (d : Option Bytes), (applyFrame k d).db = k.db ∧ (applyFrame k d).key = k.key ∧ (applyFrame k d).holds = k.holds := by
    intro k d
    cases d with
    | none => exact ⟨rfl, rfl, rfl⟩
    | some f => simp only [applyFrame]; split <;> (try split) <;> (try split) <;> exact ⟨rfl, rfl, rfl⟩
  let d := engineDeadline r.eflag (loadRemaining r.eflag r.stored r.ct now) now
  let h0 : RHold := ⟨r.id, 1, r.count, r.rcount, r.eflag, d, placeLong r.eflag now d, r.tflag⟩
  let k0 : RKey := ⟨r.db, r.key, [h0], none, false, false⟩
  refine ⟨applyFrame k0 r.data, h0, r.terms 1, ?_, (hkey k0 _).1, (hkey k0 _).2.1, (hkey k0 _).2.2, hrec, rfl, rfl, rfl, rfl, rfl, rfl⟩
  unfold reload
  simp only [List.foldl, hstep]
  rfl

/-- The key entry a live LOCK record creates on a key nobody holds. -/
def freshEntry (now : Int) (r : JRec) : RKey :=
  applyFrame ⟨r.db, r.key, [⟨r.id, 1, r.count, r.rcount, r.eflag,
      engineDeadline r.eflag (loadRemaining r.eflag r.stored r.ct now) now,
      placeLong r.eflag now (engineDeadline r.eflag (loadRemaining r.eflag r.stored r.ct now) now), r.tflag⟩], none, false, false⟩ r.data

theorem applyFrame_key (k : RKey) (d : Option Bytes) : (applyFrame k d).db = k.db ∧ (applyFrame k d).key = k.key := by
  cases d with
  | none => exact ⟨rfl, rfl⟩
  | some f => simp only [applyFrame]; split <;> (try split) <;> (try split) <;> exact ⟨rfl, rfl⟩

def LiveLock (now : Int) (r : JRec) : Prop :=
  r.isLock = true ∧ skippedAt r.eflag r.stored r.ct.toNat now = false ∧ loadRemaining r.eflag r.stored r.ct now > 0

theorem reloadStep_new_key (now : Int) (st : RState) (r : JRec) (hr : LiveLock now r)
    (hfresh : ∀ k ∈ st, ¬ (k.db = r.db ∧ k.key = r.key)) :
    (reloadStep now st r).1 = st ++ [freshEntry now r] := by
  obtain ⟨hl, hs, he⟩ := hr
  have hfind : st.find? (fun k => decide (k.db = r.db ∧ k.key = r.key)) = none := by
    apply List.find?_eq_none.mpr
    intro k hk; simpa using hfresh k hk
  have hany : st.any (fun x => decide (x.db = r.db ∧ x.key = r.key)) = false := by
    apply List.any_eq_false.mpr
    intro k hk; simpa using hfresh k hk
  have hk : st.getKey r.db r.key = ⟨r.db, r.key, [], none, false, false⟩ := by
    unfold RState.getKey; rw [hfind]; rfl
  have hlk : (⟨r.db, r.key, [], none, false, false⟩ : RKey).locked = 0 := rfl
  have hd : Slock.Gen.K.doLock 0 0 r.count r.tflag 0 = true := by unfold Slock.Gen.K.doLock; simp
  unfold reloadStep
  simp only [hs, Bool.false_eq_true, if_false, hl, if_true, hk, hlk, Nat.lt_irrefl, List.head?_nil, Option.map_none,
    Option.getD_none, hd, he, List.nil_append]
  unfold RState.setKey
  have hkk := applyFrame_key ⟨r.db, r.key, [⟨r.id, 1, r.count, r.rcount, r.eflag,
      engineDeadline r.eflag (loadRemaining r.eflag r.stored r.ct now) now,
      placeLong r.eflag now (engineDeadline r.eflag (loadRemaining r.eflag r.stored r.ct now) now), r.tflag⟩], none, false, false⟩ r.data
  simp only [hkk.1, hkk.2, hany, Bool.false_eq_true, if_false]
  rfl

/-- **Histories with one live LOCK record per key: the restart restores exactly one hold per record** — the `freshEntry` of each
record, in order; in particular nothing is dropped, merged or refused. -/
theorem reload_one_record_per_key (now : Int) : ∀ (rs : List JRec) (st : RState),
    (∀ r ∈ rs, LiveLock now r) →
    rs.Pairwise (fun a b => ¬ (a.db = b.db ∧ a.key = b.key)) →
    (∀ k ∈ st, ∀ r ∈ rs, ¬ (k.db = r.db ∧ k.key = r.key)) →
    rs.foldl (fun st r => (reloadStep now st r).1) st = st ++ rs.map (freshEntry now)
  | [], st, _, _, _ => by simp
  | r :: rs, st, hl, hp, hf => by
    have hstep := reloadStep_new_key now st r (hl r (by simp)) (fun k hk => hf k hk r (by simp))
    simp only [List.foldl, hstep]
    obtain ⟨hpr, hprs⟩ := List.pairwise_cons.mp hp
    rw [reload_one_record_per_key now rs (st ++ [freshEntry now r]) (fun x hx => hl x (by simp [hx])) hprs ?_]
    · simp
    · intro k hk x hx
      rcases List.mem_append.mp hk with h | h
      · exact hf k h x (by simp [hx])
      · simp only [List.mem_singleton] at h
        subst h
        have := applyFrame_key ⟨r.db, r.key, [⟨r.id, 1, r.count, r.rcount, r.eflag,
          engineDeadline r.eflag (loadRemaining r.eflag r.stored r.ct now) now,
          placeLong r.eflag now (engineDeadline r.eflag (loadRemaining r.eflag r.stored r.ct now) now), r.tflag⟩], none, false, false⟩ r.data
        show ¬ ((freshEntry now r).db = x.db ∧ (freshEntry now r).key = x.key)
        unfold freshEntry
        rw [this.1, this.2]
        exact hpr x hx

end Slock.Aof
