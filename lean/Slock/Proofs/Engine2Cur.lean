import Slock.Proofs.Engine2NzW
/-! Stage-2 engine: `currentLock` always points at a live hold (depth > 0). -/
namespace Slock.Engine2

def CurLive (k : Key) : Prop := ∀ c, k.current = some c → 0 < (k.getR c).depth

/-- `currentLock` unchanged, no record appears, surviving records keep their depth -/
structure DepthKeep (k' k : Key) : Prop where
  cur : k'.current = k.current
  sub : ∀ y, k'.hasRec y → k.hasRec y
  depth : ∀ y, k'.hasRec y → (k'.getR y).depth = (k.getR y).depth

theorem DepthKeep.refl (k : Key) : DepthKeep k k := ⟨rfl, fun _ h => h, fun _ _ => rfl⟩
theorem DepthKeep.trans {a b c : Key} (h1 : DepthKeep a b) (h2 : DepthKeep b c) : DepthKeep a c :=
  ⟨h1.cur.trans h2.cur, fun y h => h2.sub y (h1.sub y h), fun y h => (h1.depth y h).trans (h2.depth y (h1.sub y h))⟩

theorem CurLive.of_keep {k k' : Key} (h : CurLive k) (d : DepthKeep k' k) (hh : ∀ c, k'.current = some c → k'.hasRec c) : CurLive k' := by
  intro c hc
  rw [d.depth c (hh c hc)]
  exact h c (by rw [← d.cur]; exact hc)

theorem DepthKeep.of_eq {k' k : Key} (h1 : k'.recs = k.recs) (h2 : k'.current = k.current) : DepthKeep k' k :=
  ⟨h2, fun y h => by unfold Key.hasRec at h ⊢; rw [← h1]; exact h, fun y _ => by unfold Key.getR; rw [h1]⟩

theorem DepthKeep.of_up {k' k : Key} (u : RecsUp k' k) (hc : k'.current = k.current) : DepthKeep k' k :=
  ⟨hc, fun y h => (hasRec_of_ids u.ids y).mp h, fun y _ => u.depth y⟩

theorem DepthKeep.modRec (k : Key) (rid : Nat) (f : Rec → Rec) (hf : ∀ r, (f r).rid = r.rid) (hd : ∀ r, (f r).depth = r.depth) :
    DepthKeep (k.modRec rid f) k :=
  ⟨rfl, fun y h => (hasRec_modRec _ _ _ _ hf).mp h, fun y _ => getR_modRec_proj (·.depth) k rid y f hf hd⟩

theorem hasRec_free_sub (k : Key) (rid y : Nat) (h : (k.free rid).hasRec y) : k.hasRec y ∧ (k.hasRec rid → y ≠ rid) := by
  unfold Key.free at h
  split at h
  · obtain ⟨r, hr, e⟩ := h
    have := List.mem_filter.mp hr
    refine ⟨⟨r, this.1, e⟩, fun _ e' => ?_⟩
    have h2 : r.rid ≠ rid := by simpa using this.2
    exact h2 (e.trans e')
  · rename_i hn
    refine ⟨h, fun hh => ?_⟩
    exact absurd ((any_iff_hasRec k rid).mpr hh) hn

theorem DepthKeep.free (k : Key) (rid : Nat) : DepthKeep (k.free rid) k := by
  refine ⟨(free_queues k rid).2.2.1, fun y h => (hasRec_free_sub k rid y h).1, fun y h => ?_⟩
  by_cases e : y = rid
  · subst e
    -- the record is still there although it was to be freed: then it was not there before either … impossible
    have := hasRec_free_sub k y y h
    exact absurd rfl (this.2 this.1)
  · rw [getR_free_other _ _ _ e]

theorem DepthKeep.unref (k : Key) (x : Nat) : DepthKeep (k.unref x) k := by
  unfold Key.unref
  simp only []
  have h1 : DepthKeep (k.unrefOnly x) k := DepthKeep.modRec k x _ (fun _ => rfl) (fun _ => rfl)
  split
  · exact (DepthKeep.free _ x).trans h1
  · exact h1

theorem DepthKeep.foldl_unref (d : List Nat) (k : Key) : DepthKeep (d.foldl (fun k x => k.unref x) k) k := by
  induction d generalizing k with
  | nil => exact DepthKeep.refl _
  | cons a as ih => simp only [List.foldl_cons]; exact (ih _).trans (DepthKeep.unref _ _)

theorem DepthKeep.foldl_unrefW (d : List WEnt) (k : Key) : DepthKeep (d.foldl (fun k x => k.unref x.rid) k) k := by
  induction d generalizing k with
  | nil => exact DepthKeep.refl _
  | cons a as ih => simp only [List.foldl_cons]; exact (ih _).trans (DepthKeep.unref _ _)

theorem DepthKeep.locksPush (k : Key) (rid : Nat) : DepthKeep (k.locksPush rid) k := by
  unfold Key.locksPush
  simp only []
  split
  · exact DepthKeep.of_eq rfl rfl
  · split
    · exact DepthKeep.of_eq rfl rfl
    · refine (DepthKeep.foldl_unref _ _).trans ?_
      split <;> exact DepthKeep.of_eq rfl rfl

theorem DepthKeep.locksSkip (take : Bool) (l : List Nat) (k : Key) : DepthKeep (locksSkip take l k).1 k := by
  induction l generalizing k with
  | nil => exact DepthKeep.refl _
  | cons x rest ih =>
    unfold Slock.Engine2.locksSkip
    split
    · split
      · exact DepthKeep.of_eq rfl rfl
      · exact DepthKeep.refl _
    · exact (ih _).trans ((DepthKeep.unref _ _).trans (DepthKeep.of_eq rfl rfl))

theorem DepthKeep.waitPush (k : Key) (e : WEnt) : DepthKeep (k.waitPush e) k := by
  unfold Key.waitPush
  split
  · exact DepthKeep.of_eq rfl rfl
  · simp only []
    split
    · exact DepthKeep.of_eq rfl rfl
    · split
      · exact DepthKeep.of_eq rfl rfl
      · refine (DepthKeep.foldl_unrefW _ _).trans ?_
        split <;> exact DepthKeep.of_eq rfl rfl

theorem DepthKeep.waitSkip (l : List WEnt) (k : Key) : DepthKeep (waitSkip l k).1 k := by
  induction l generalizing k with
  | nil => exact DepthKeep.refl _
  | cons e rest ih =>
    unfold Slock.Engine2.waitSkip
    split
    · exact (ih _).trans ((DepthKeep.unref _ _).trans (DepthKeep.of_eq rfl rfl))
    · exact DepthKeep.refl _

theorem DepthKeep.getWaitLock (k : Key) : DepthKeep k.getWaitLock.1 k := DepthKeep.waitSkip _ _

theorem DepthKeep.settleWait (k : Key) : DepthKeep k.settleWait k := by
  unfold Key.settleWait
  split
  · exact (DepthKeep.of_eq (k' := clearWaited k.getWaitLock.1) (k := k.getWaitLock.1) rfl rfl).trans (DepthKeep.getWaitLock k)
  · exact DepthKeep.getWaitLock k

theorem DepthKeep.addWaitLock (k : Key) (rid : Nat) : DepthKeep (k.addWaitLock rid) k := by
  unfold Key.addWaitLock
  simp only []
  have step : ∀ k1 : Key, DepthKeep k1 k →
      DepthKeep { (k1.waitPush ⟨rid, Slock.Engine.cmdPriority (k.getR rid).cmd⟩).modRec rid (fun r => { r with refCount := r.refCount + 1 }) with waited := true } k := by
    intro k1 h1
    have a := DepthKeep.waitPush k1 ⟨rid, Slock.Engine.cmdPriority (k.getR rid).cmd⟩
    have b := DepthKeep.modRec (k1.waitPush ⟨rid, Slock.Engine.cmdPriority (k.getR rid).cmd⟩) rid (fun r => { r with refCount := r.refCount + 1 })
      (by intro _; rfl) (by intro _; rfl)
    have c0 : DepthKeep ({ (k1.waitPush ⟨rid, Slock.Engine.cmdPriority (k.getR rid).cmd⟩).modRec rid (fun r => { r with refCount := r.refCount + 1 }) with waited := true } : Key)
        ((k1.waitPush ⟨rid, Slock.Engine.cmdPriority (k.getR rid).cmd⟩).modRec rid (fun r => { r with refCount := r.refCount + 1 })) := DepthKeep.of_eq rfl rfl
    exact c0.trans (b.trans (a.trans h1))
  apply step
  split
  · split
    · split
      · exact DepthKeep.of_eq rfl rfl
      · exact DepthKeep.refl _
    · exact DepthKeep.refl _
  · exact DepthKeep.refl _

/-! ### the three places where `currentLock` or a depth changes -/

/-- `AddLock(rid)` with an edit that makes `rid` a hold of depth 1 -/
theorem CurLive.addLock {k : Key} (h : CurLive k) (rid : Nat) (f : Rec → Rec) (hf : ∀ r, (f r).rid = r.rid) (hd : ∀ r, (f r).depth = 1)
    (hh : k.hasRec rid) (hcur : ∀ c, (k.addLock rid f).current = some c → (k.addLock rid f).hasRec c) : CurLive (k.addLock rid f) := by
  have g1 : (k.modRec rid f).getR rid = f (k.getR rid) := getR_modRec_same _ _ _ hf hh
  unfold Key.addLock at hcur ⊢
  split
  · intro c hc
    simp only [Option.some.injEq] at hc
    subst hc
    show 0 < ((k.modRec rid f).getR rid).depth
    rw [g1, hd]; exact Nat.one_pos
  · rename_i c0 hc0
    split at hcur
    · rename_i hn; rw [hc0] at hn; exact absurd hn (by simp)
    · intro c hc
      have dk := DepthKeep.locksPush (k.modRec rid f) rid
      have hc' : (k.modRec rid f).current = some c := by rw [← dk.cur]; exact hc
      rw [dk.depth c (hcur c hc)]
      by_cases e : c = rid
      · subst e; rw [g1, hd]; exact Nat.one_pos
      · rw [getR_modRec_other _ _ _ _ hf e]; exact h c hc'

theorem locksSkip_take_live (l : List Nat) (k : Key) (x : Nat) (h : (locksSkip true l k).2 = some x) : (locksSkip true l k).1.liveHolder x = true := by
  induction l generalizing k with
  | nil => simp [locksSkip] at h
  | cons a rest ih =>
    unfold locksSkip at h ⊢
    split
    · rename_i hl
      simp only [hl, if_true] at h
      injection h with h
      subst h
      exact hl
    · rename_i hl
      simp only [hl, Bool.false_eq_true, if_false] at h
      exact ih _ h

/-- `RemoveLock(rid)` -/
theorem CurLive.removeLock {k : Key} (h : CurLive k) (rid : Nat)
    (hcur : ∀ c, (k.removeLock rid).current = some c → (k.removeLock rid).hasRec c) : CurLive (k.removeLock rid) := by
  unfold Key.removeLock at hcur ⊢
  simp only [] at hcur ⊢
  split
  · split at hcur
    · intro c hc
      simp only [] at hc
      have := locksSkip_take_live _ _ c hc
      unfold Key.liveHolder at this
      exact of_decide_eq_true this
    · rename_i h1 h2; exact absurd h1 h2
  · rename_i hne
    split at hcur
    · rename_i h1; exact absurd h1 hne
    · intro c hc
      have dk := DepthKeep.locksSkip false (k.modRec rid fun r => { r with depth := 0 }).locks (k.modRec rid fun r => { r with depth := 0 })
      have hc' : k.current = some c := by
        have := dk.cur; rw [this] at hc; exact hc
      rw [dk.depth c (hcur c hc)]
      have hcr : c ≠ rid := by
        intro e; subst e
        apply hne
        show ((k.modRec c fun r => { r with depth := 0 }).current == some c) = true
        simp [Key.modRec, hc']
      rw [getR_modRec_other _ _ _ _ (by intro _; rfl) hcr]
      exact h c hc'

/-- a depth change of one hold that leaves it a hold -/
theorem CurLive.modDepth {k : Key} (h : CurLive k) (rid : Nat) (f : Rec → Rec) (hf : ∀ r, (f r).rid = r.rid) (hh : k.hasRec rid)
    (hd : 0 < (f (k.getR rid)).depth) : CurLive (k.modRec rid f) := by
  intro c hc
  have hc' : k.current = some c := hc
  by_cases e : c = rid
  · subst e; rw [getR_modRec_same _ _ _ hf hh]; exact hd
  · rw [getR_modRec_other _ _ _ _ hf e]; exact h c hc'

/-- a new record -/
theorem CurLive.addRec {k : Key} (h : CurLive k) (r : Rec) (hh : ∀ c, k.current = some c → k.hasRec c) : CurLive (k.addRec r) := by
  intro c hc
  have hc' : k.current = some c := hc
  have : (k.addRec r).getR c = k.getR c := by
    obtain ⟨x, hx⟩ := hasRec_find k c (hh c hc')
    unfold Key.getR Key.addRec
    simp only []
    rw [List.find?_append, hx]; rfl
  rw [this]; exact h c hc'

/-! ### helpers that keep `currentLock` and every depth -/

/-- a step of an operation that keeps `currentLock`, drops no hold's depth and creates no record -/
def DK (w' w : W) : Prop := DepthKeep w'.k w.k

theorem DK.refl (w : W) : DK w w := DepthKeep.refl _
theorem DK.trans {a b c : W} (h1 : DK a b) (h2 : DK b c) : DK a c := DepthKeep.trans h1 h2
theorem DK.of_k {w w' : W} (h : w'.k = w.k) : DK w' w := by unfold DK; rw [h]; exact DepthKeep.refl _

theorem dk_procData (w : W) (ct : Slock.Value.CmdType) (c : Cmd) (f : Option Bytes) (rid : Nat) : DK (w.procData ct c f rid) w :=
  DepthKeep.of_up (up_procData w ct c f rid) (by have := queues_procData w ct c f rid; unfold Key.queues at this; exact (Prod.mk.inj this).1)

theorem cur_aofLockData (k : Key) (b : Bool) (rid : Nat) : (aofLockData k b rid).1.current = k.current := by
  have := queues_aofLockData k b rid; unfold Key.queues at this; exact (Prod.mk.inj this).1

theorem dk_pushLockAof (w : W) (rid flag : Nat) : DK (w.pushLockAof rid flag) w :=
  DepthKeep.of_up (up_pushLockAof w rid flag) (by have := queues_pushLockAof w rid flag; unfold Key.queues at this; exact (Prod.mk.inj this).1)

theorem dk_pushLockAofN (n : Nat) (w : W) (rid : Nat) : DK (W.pushLockAofN n w rid) w := by
  induction n generalizing w with
  | zero => exact DK.refl _
  | succ n ih => unfold W.pushLockAofN; exact (ih _).trans (dk_pushLockAof _ _ _)

theorem dk_pushUnLockAof (w : W) (rid : Nat) (lc : Cmd) (fa ia : Bool) (flag : Nat) : DK (w.pushUnLockAof rid lc fa ia flag) w := by
  refine DepthKeep.of_up (up_pushUnLockAof w rid lc fa ia flag) ?_
  unfold W.pushUnLockAof
  split
  · rfl
  · split
    · rfl
    · exact cur_aofLockData w.k false rid

theorem dk_when (w : W) (b : Bool) (f : W → W) (h : DK (f w) w) : DK (w.when b f) w := by
  cases b
  · exact DK.refl _
  · exact h

theorem dk_journalLock (w : W) (rid flag : Nat) : DK (w.journalLock rid flag) w := dk_when _ _ _ (dk_pushLockAof _ _ _)
theorem dk_journalUnlock (w : W) (rid : Nat) (fa ia : Bool) (flag : Nat) : DK (w.journalUnlock rid fa ia flag) w :=
  dk_when _ _ _ (dk_pushUnLockAof _ _ _ _ _ _)
theorem dk_modR (w : W) (rid : Nat) (f : Rec → Rec) (hf : ∀ r, (f r).rid = r.rid) (hd : ∀ r, (f r).depth = r.depth) : DK (w.modR rid f) w :=
  DepthKeep.modRec w.k rid f hf hd
theorem dk_addTimeOut (w : W) (rid : Nat) : DK (w.addTimeOut rid) w := DepthKeep.modRec w.k rid _ (fun _ => rfl) (fun _ => rfl)
theorem dk_schedExpried (w : W) (rid : Nat) : DK (w.schedExpried rid) w := DepthKeep.modRec w.k rid _ (fun _ => rfl) (fun _ => rfl)
theorem dk_addExpried (w : W) (rid : Nat) : DK (w.addExpried rid) w := by
  unfold W.addExpried
  simp only []
  exact (dk_when _ _ _ (dk_pushLockAofN _ _ _)).trans (dk_schedExpried _ _)
theorem dk_ref (w : W) (rid : Nat) : DK (w.ref rid) w := DepthKeep.modRec w.k rid _ (fun _ => rfl) (fun _ => rfl)
theorem dk_removeLongT (w : W) (rid : Nat) : DK (w.removeLongT rid) w := by
  unfold W.removeLongT Key.unrefOnly DK
  exact (DepthKeep.modRec _ rid _ (by intro _; rfl) (by intro _; rfl)).trans (DepthKeep.modRec w.k rid _ (by intro _; rfl) (by intro _; rfl))
theorem dk_removeLongE (w : W) (rid : Nat) : DK (w.removeLongE rid) w := by
  unfold W.removeLongE Key.unrefOnly DK
  exact (DepthKeep.modRec _ rid _ (by intro _; rfl) (by intro _; rfl)).trans (DepthKeep.modRec w.k rid _ (by intro _; rfl) (by intro _; rfl))
theorem dk_dropLongT (w : W) (rid : Nat) : DK (w.dropLongT rid) w := dk_when _ _ _ (dk_removeLongT _ _)
theorem dk_dropLongE (w : W) (rid : Nat) : DK (w.dropLongE rid) w := dk_when _ _ _ (dk_removeLongE _ _)
theorem dk_modK (w : W) (f : Key → Key) (h : DepthKeep (f w.k) w.k) : DK (w.modK f) w := h

theorem dk_updateLocked (w : W) (rid : Nat) (c : Cmd) : DK (w.updateLocked rid c) w := by
  unfold W.updateLocked
  simp only []
  have hf := updF_fields w.db (!(w.k.getR rid).isAof && w.k.current == some rid && w.k.locks.isEmpty) c
  refine DK.trans (dk_modR _ rid (fun r => { r with conn := c.conn }) (by intro _; rfl) (by intro _; rfl)) ?_
  refine DK.trans (dk_when _ _ _ ?_) (dk_modR w rid _ (fun r => (hf r).1) (fun r => (hf r).2.2.2.2.2))
  exact (dk_ref _ _).trans ((dk_addExpried _ _).trans (dk_removeLongE _ _))

theorem dk_grantNoHold (w : W) (rid : Nat) : DK (w.grantNoHold rid) w := by
  unfold W.grantNoHold
  simp only []
  exact (dk_modR _ rid (fun r => { r with data := none }) (by intro _; rfl) (by intro _; rfl)).trans
    ((dk_when _ _ (·.pushLockAof rid 0) (dk_pushLockAof _ _ _)).trans (dk_procData _ _ _ _ _))

theorem dk_removeIfZero (w : W) : DK w.removeIfZero w := by
  unfold W.removeIfZero
  split
  · exact DepthKeep.of_eq rfl rfl
  · exact DK.refl _

theorem dk_freeCheck (w : W) (rid : Nat) : DK (w.freeCheck rid) w := by
  unfold W.freeCheck
  exact (dk_removeIfZero _).trans (dk_modK w _ (DepthKeep.free _ _))

theorem dk_unrefCheck (w : W) (rid : Nat) : DK (w.unrefCheck rid) w := by
  unfold W.unrefCheck
  simp only []
  exact (dk_when _ _ _ (dk_freeCheck _ _)).trans (dk_modK w _ (DepthKeep.modRec _ rid _ (by intro _; rfl) (by intro _; rfl)))

theorem dk_dropT (w : W) (rid : Nat) : DK (w.dropT rid) w := by
  unfold W.dropT
  exact (dk_unrefCheck _ _).trans (dk_modR w rid (fun r => { r with tSched := none }) (by intro _; rfl) (by intro _; rfl))
theorem dk_dropE (w : W) (rid : Nat) : DK (w.dropE rid) w := by
  unfold W.dropE
  exact (dk_unrefCheck _ _).trans (dk_modR w rid (fun r => { r with eSched := none }) (by intro _; rfl) (by intro _; rfl))

/-- everything referenced as `currentLock` has a record -/
theorem hasRec_current {w : W} (l : Lv w zero) : ∀ c, w.k.current = some c → w.k.hasRec c := by
  intro c hc
  apply l.rc.dang
  unfold Key.qRefs; simp only [hc, zero, if_true]; omega

theorem CurLive.of_dk {w w' : W} (h : CurLive w.k) (d : DK w' w) (l : Lv w' zero) : CurLive w'.k := h.of_keep d (hasRec_current l)

/-- the grant keeps `currentLock` live -/
theorem cur_grant {w : W} (h : CurLive w.k) (l0 : Lv w zero) (rid : Nat) (g : Grantable w.k rid) : CurLive (w.grant rid).k := by
  obtain ⟨lg, _⟩ := l0.grant zero_nonneg rid g
  have hf := addLockF_fields w.db w.k
  have l1 := l0.addLock zero_nonneg rid g.has
  have c1 : CurLive (w.addLock rid).k := CurLive.addLock h rid (addLockF w.db w.k) (fun r => (hf r).1) (fun r => (hf r).2.2.2.2.2.1) g.has (hasRec_current l1)
  refine c1.of_dk ?_ lg
  unfold W.grant
  simp only []
  refine DK.trans (DK.of_k rfl) ?_
  refine DK.trans (DK.of_k rfl) ?_
  refine DK.trans (dk_ref _ _) ?_
  refine DK.trans (dk_addExpried _ _) ?_
  refine DK.trans (dk_modR _ rid (fun r => { r with data := none }) (by intro _; rfl) (by intro _; rfl)) ?_
  refine DK.trans (dk_procData _ _ _ _ _) ?_
  exact DepthKeep.of_eq rfl rfl

end Slock.Engine2
