import Slock.Model.Client
/-!
The commands the client primitives send, built from the REGENERATED tuples (`Slock.Gen.Client`, read from client/*.go by the
extractor) through M-CLIENT (`Slock.Client.cmdOf`), and their shapes. Every shape lemma is `rfl` over the generated
definitions: if client/*.go changes a tuple, the lemma (a proof obligation of C19) no longer checks.
-/
namespace Slock.Client
open Slock.Engine Slock.Gen.Client

/-- a primitive instance whose constructor stored the user's `n` through the constructor's normalisation -/
def withCtor (c : Ctor) (n : Nat) (e : Env) : Env :=
  { e with field := fun s => if s = c.field then c.xform.apply n else e.field s }

/-! ### the commands -/
def lockCmd (e : Env) (req conn : Nat) : Cmd := cmdOf lock_lock (obj newLock e) req conn
def unlockCmd (e : Env) (req conn : Nat) : Cmd := cmdOf lock_unlock (obj newLock e) req conn
def rlockCmd (e : Env) (req conn : Nat) : Cmd := cmdOf lock_lock (obj newRLock e) req conn
def runlockCmd (e : Env) (req conn : Nat) : Cmd := cmdOf lock_unlock (obj newRLock e) req conn
def rwReadCmd (e : Env) (req conn : Nat) : Cmd := cmdOf lock_lock (obj rwlock_rLock e) req conn
def rwWriteCmd (e : Env) (req conn : Nat) : Cmd := cmdOf lock_lock (obj rwlock_lock e) req conn
def semAcquireCmd (n : Nat) (e : Env) (req conn : Nat) : Cmd :=
  cmdOf lock_lock (obj semaphore_acquire (withCtor newSemaphore_count n e)) req conn
def semReleaseCmd (n : Nat) (e : Env) (req conn : Nat) : Cmd :=
  cmdOf lock_unlockHead (obj semaphore_release (withCtor newSemaphore_count n e)) req conn
def flowAcquireCmd (n : Nat) (e : Env) (req conn : Nat) : Cmd :=
  cmdOf lock_lock (obj maxconcurrentflow_acquire (withCtor newMaxConcurrentFlow_count n e)) req conn
def prioLockCmd (e : Env) (req conn : Nat) : Cmd := cmdOf lock_lock (obj prioritylock_lock e) req conn
/-- Event, default-set mode -/
def evClearCmd (e : Env) (req conn : Nat) : Cmd := cmdOf lock_lockUpdate (obj event_clear_set e) req conn
def evSetCmd (e : Env) (req conn : Nat) : Cmd := cmdOf lock_unlock (obj event_set_set e) req conn
def evWaitCmd (e : Env) (req conn : Nat) : Cmd := cmdOf lock_lock (obj event_wait_set e) req conn
def evIsSetCmd (e : Env) (req conn : Nat) : Cmd := cmdOf lock_lock (obj event_isSet_set e) req conn

/-! ### shapes (each `rfl` over the generated tuples) -/

theorem lockCmd_shape (e : Env) (r n : Nat) :
    (lockCmd e r n).count = 0 ∧ (lockCmd e r n).rcount = 0 ∧ (lockCmd e r n).flag = 0 ∧
      (lockCmd e r n).key = e.param "lockKey" ∧ (lockCmd e r n).lockId = e.fresh := ⟨rfl, rfl, rfl, rfl, rfl⟩

theorem unlockCmd_shape (e : Env) (r n : Nat) :
    (unlockCmd e r n).flag = 0 ∧ (unlockCmd e r n).key = e.param "lockKey" ∧ (unlockCmd e r n).lockId = e.fresh ∧
      (unlockCmd e r n).rcount = 0 := ⟨rfl, rfl, rfl, rfl⟩

theorem rlockCmd_shape (e : Env) (r n : Nat) :
    (rlockCmd e r n).count = 0 ∧ (rlockCmd e r n).rcount = 0xff ∧ (rlockCmd e r n).flag = 0 ∧
      (rlockCmd e r n).key = e.param "lockKey" ∧ (rlockCmd e r n).lockId = e.fresh ∧
      (rlockCmd e r n).expried = e.param "expried" % 65536 ∧ (rlockCmd e r n).timeout = e.param "timeout" % 65536 ∧
      (rlockCmd e r n).tflag = (e.param "timeout" >>> 16) % 65536 := ⟨rfl, rfl, rfl, rfl, rfl, rfl, rfl, rfl⟩

theorem runlockCmd_shape (e : Env) (r n : Nat) :
    (runlockCmd e r n).rcount = 0xff ∧ (runlockCmd e r n).flag = 0 ∧ (runlockCmd e r n).key = e.param "lockKey" ∧
      (runlockCmd e r n).lockId = e.fresh ∧ (runlockCmd e r n).tflag = (e.param "timeout" >>> 16) % 65536 :=
  ⟨rfl, rfl, rfl, rfl, rfl⟩

theorem rwReadCmd_shape (e : Env) (r n : Nat) :
    (rwReadCmd e r n).count = 0xffff ∧ (rwReadCmd e r n).rcount = 0 ∧ (rwReadCmd e r n).flag = 0 ∧
      (rwReadCmd e r n).key = e.field "lockKey" := ⟨rfl, rfl, rfl, rfl⟩

theorem rwWriteCmd_shape (e : Env) (r n : Nat) :
    (rwWriteCmd e r n).count = 0 ∧ (rwWriteCmd e r n).rcount = 0 ∧ (rwWriteCmd e r n).flag = 0 ∧
      (rwWriteCmd e r n).key = e.field "lockKey" := ⟨rfl, rfl, rfl, rfl⟩

/-- `Semaphore(n)` sends Count n − 1 (0 for n = 0): the constructor's `decIfPos`, then `Acquire` passes the field through -/
theorem semAcquireCmd_shape (k : Nat) (e : Env) (r n : Nat) :
    (semAcquireCmd k e r n).count = (if k > 0 then k - 1 else 0) ∧ (semAcquireCmd k e r n).rcount = 0 ∧
      (semAcquireCmd k e r n).flag = 0 ∧ (semAcquireCmd k e r n).key = e.field "semaphoreKey" := ⟨rfl, rfl, rfl, rfl⟩

/-- `Release` is an unlock-first of the zero LockId: it releases the key's OLDEST holder -/
theorem semReleaseCmd_shape (k : Nat) (e : Env) (r n : Nat) :
    (semReleaseCmd k e r n).flag = UF_FIRST ∧ (semReleaseCmd k e r n).lockId = 0 ∧
      (semReleaseCmd k e r n).key = e.field "semaphoreKey" := ⟨rfl, rfl, rfl⟩

theorem flowAcquireCmd_shape (k : Nat) (e : Env) (r n : Nat) :
    (flowAcquireCmd k e r n).count = (if k > 0 then k - 1 else 0) ∧ (flowAcquireCmd k e r n).flag = 0 ∧
      (flowAcquireCmd k e r n).key = e.field "flowKey" ∧ (flowAcquireCmd k e r n).rcount = e.field "priority" :=
  ⟨rfl, rfl, rfl, rfl⟩

theorem prioLockCmd_shape (e : Env) (r n : Nat) :
    (prioLockCmd e r n).tflag = ((e.field "timeout" ||| 1048576) >>> 16) % 65536 ∧
      (prioLockCmd e r n).rcount = e.field "priority" ∧ (prioLockCmd e r n).count = e.field "count" ∧
      (prioLockCmd e r n).flag = 0 ∧ (prioLockCmd e r n).key = e.field "lockKey" := ⟨rfl, rfl, rfl, rfl, rfl⟩

theorem evClearCmd_shape (e : Env) (r n : Nat) :
    (evClearCmd e r n).flag = F_UPDATE ∧ (evClearCmd e r n).count = 0 ∧ (evClearCmd e r n).rcount = 0 ∧
      (evClearCmd e r n).key = e.field "eventKey" ∧ (evClearCmd e r n).lockId = e.field "eventKey" ∧
      (evClearCmd e r n).expried = e.field "expried" % 65536 := ⟨rfl, rfl, rfl, rfl, rfl, rfl⟩

theorem evSetCmd_shape (e : Env) (r n : Nat) :
    (evSetCmd e r n).flag = 0 ∧ (evSetCmd e r n).key = e.field "eventKey" ∧ (evSetCmd e r n).lockId = e.field "eventKey" ∧
      (evSetCmd e r n).rcount = 0 := ⟨rfl, rfl, rfl, rfl⟩

theorem evWaitCmd_shape (e : Env) (r n : Nat) :
    (evWaitCmd e r n).flag = 0 ∧ (evWaitCmd e r n).count = 0 ∧ (evWaitCmd e r n).rcount = 0 ∧ (evWaitCmd e r n).expried = 0 ∧
      (evWaitCmd e r n).key = e.field "eventKey" ∧ (evWaitCmd e r n).lockId = e.fresh ∧
      (evWaitCmd e r n).timeout = e.param "timeout" % 65536 := ⟨rfl, rfl, rfl, rfl, rfl, rfl, rfl⟩

theorem evIsSetCmd_shape (e : Env) (r n : Nat) :
    (evIsSetCmd e r n).flag = 0 ∧ (evIsSetCmd e r n).count = 0 ∧ (evIsSetCmd e r n).rcount = 0 ∧ (evIsSetCmd e r n).expried = 0 ∧
      (evIsSetCmd e r n).timeout = 0 := ⟨rfl, rfl, rfl, rfl, rfl⟩

/-! ### flag bits -/

theorem has_zero (f : Nat) : has 0 f = false := by unfold has; simp

/-- whatever the user's timeout word, PriorityLock's or-ed `TIMEOUT_FLAG_RCOUNT_IS_PRIORITY << 16` sets bit 0x10 of the flag field -/
theorem has_prio_bit (w : Nat) : has (((w ||| 1048576) >>> 16) % 65536) TF_PRIORITY = true := by
  unfold has TF_PRIORITY
  have h : ((((w ||| 1048576) >>> 16) % 2 ^ 16) &&& 2 ^ 4).testBit 4 = true := by
    rw [Nat.testBit_and, Nat.testBit_mod_two_pow, Nat.testBit_shiftRight, Nat.testBit_or]
    have : Nat.testBit 1048576 (16 + 4) = true := by decide
    rw [this]
    simp
    decide
  have : ((((w ||| 1048576) >>> 16) % 65536) &&& 16) ≠ 0 := by
    intro h0
    have e1 : (65536 : Nat) = 2 ^ 16 := by decide
    have e2 : (16 : Nat) = 2 ^ 4 := by decide
    rw [e1, e2] at h0
    rw [h0] at h; simp at h
  simpa using this

/-- a PriorityLock request's queue priority is the primitive's `priority` -/
theorem prioLockCmd_priority (e : Env) (r n : Nat) : cmdPriority (prioLockCmd e r n) = e.field "priority" := by
  unfold cmdPriority
  rw [(prioLockCmd_shape e r n).1, has_prio_bit, (prioLockCmd_shape e r n).2.1]
  rfl

end Slock.Client
