import Slock.Model.Queue
import Slock.Proofs.QueueList
/-! C20: the flat view of the segmented deque (all cells in node order), the abstraction function and the invariant. -/
namespace Slock.Queue

def nodeOf : Option Arr → Arr
  | some a => a
  | none => []

/-- all cells of all nodes, in node order -/
def F : List (Option Arr) → Arr
  | [] => []
  | s :: r => nodeOf s ++ F r

/-- global position of cell 0 of node `j` -/
def off (L : List (Option Arr)) (j : Nat) : Nat := (F (L.take j)).length

theorem F_append (A B : List (Option Arr)) : F (A ++ B) = F A ++ F B := by
  induction A with
  | nil => simp [F]
  | cons s r ih => simp [F, ih]

theorem off_zero (L : List (Option Arr)) : off L 0 = 0 := by simp [off, F]

theorem off_cons_succ (s : Option Arr) (r : List (Option Arr)) (j : Nat) :
    off (s :: r) (j + 1) = (nodeOf s).length + off r j := by
  simp [off, F]

theorem off_succ (L : List (Option Arr)) (j : Nat) (h : j < L.length) :
    off L (j + 1) = off L j + (nodeOf L[j]).length := by
  induction L generalizing j with
  | nil => simp at h
  | cons s r ih =>
    cases j with
    | zero => simp [off, F]
    | succ j =>
      have := ih j (by simpa using h)
      simp only [off_cons_succ, List.getElem_cons_succ]
      omega

theorem off_mono_succ (L : List (Option Arr)) (j : Nat) : off L j ≤ off L (j + 1) := by
  induction L generalizing j with
  | nil => simp [off, F]
  | cons s r ih =>
    cases j with
    | zero => simp [off, F]
    | succ j => have := ih j; simp only [off_cons_succ]; omega

theorem off_mono (L : List (Option Arr)) {j k : Nat} (h : j ≤ k) : off L j ≤ off L k := by
  induction k with
  | zero => have : j = 0 := by omega
            subst this; exact Nat.le_refl _
  | succ k ih =>
    by_cases hk : j = k + 1
    · subst hk; exact Nat.le_refl _
    · exact Nat.le_trans (ih (by omega)) (off_mono_succ L k)

theorem F_take_off (L : List (Option Arr)) (j : Nat) : (F L).take (off L j) = F (L.take j) := by
  have h : F L = F (L.take j) ++ F (L.drop j) := by rw [← F_append, List.take_append_drop]
  rw [h, off]
  simp

/-- writing one cell -/
theorem F_set_cell (L : List (Option Arr)) (j i : Nat) (a : Arr) (v : Elem)
    (hj : L[j]? = some (some a)) (hi : i < a.length) :
    F (L.set j (some (a.set i v))) = (F L).set (off L j + i) v := by
  induction L generalizing j with
  | nil => simp at hj
  | cons s r ih =>
    cases j with
    | zero =>
      simp at hj
      subst hj
      simp [F, off, nodeOf, List.set_append_left _ _ hi]
    | succ j =>
      simp at hj
      have := ih j hj
      simp only [List.set_cons_succ, F, this, off_cons_succ]
      rw [List.set_append_right]
      · congr 1; congr 1; omega
      · omega

theorem F_get_cell (L : List (Option Arr)) (j i : Nat) (a : Arr)
    (hj : L[j]? = some (some a)) (hi : i < a.length) :
    (F L)[off L j + i]? = some a[i] := by
  induction L generalizing j with
  | nil => simp at hj
  | cons s r ih =>
    cases j with
    | zero =>
      simp at hj
      subst hj
      simp [F, off, nodeOf, List.getElem?_append_left hi]
    | succ j =>
      simp at hj
      have := ih j hj
      simp only [F, off_cons_succ]
      rw [List.getElem?_append_right (by omega)]
      rw [← this]; congr 1; omega

theorem F_length_set (L : List (Option Arr)) (j : Nat) (a a' : Arr)
    (hj : L[j]? = some (some a)) (hl : a'.length = a.length) :
    (F (L.set j (some a'))).length = (F L).length := by
  induction L generalizing j with
  | nil => simp at hj
  | cons s r ih =>
    cases j with
    | zero => simp at hj; subst hj; simp [F, nodeOf, hl]
    | succ j => simp at hj; simp [F, ih j hj]

theorem off_set_len (L : List (Option Arr)) (j k : Nat) (a a' : Arr)
    (hj : L[j]? = some (some a)) (hl : a'.length = a.length) :
    off (L.set j (some a')) k = off L k := by
  unfold off
  rw [List.take_set]
  by_cases hjk : j < k
  · apply F_length_set _ _ a _ _ hl
    rw [List.getElem?_take]; simp [hjk, hj]
  · rw [List.set_eq_of_length_le]; simp; omega


/-! ### abstraction function -/

/-- the deque content determined by the node table and the two cursors -/
def absL (L : List (Option Arr)) (hni hqi tni tqi : Nat) : List Elem :=
  ((F L).take (off L tni + tqi)).drop (off L hni + hqi)

/-- `abs`: the cells from the head cursor (inclusive) to the tail cursor (exclusive), holes included -/
def abs (q : Q) : List Elem := absL q.queues q.hni q.hqi q.tni q.tqi

theorem off_take (L : List (Option Arr)) (m k : Nat) (h : k ≤ m) : off (L.take m) k = off L k := by
  unfold off
  rw [List.take_take, Nat.min_eq_left h]

/-- `absL` only looks at nodes `0..tni` -/
theorem absL_take (L : List (Option Arr)) (hni hqi tni tqi : Nat) (hle : hni ≤ tni) (ht : tni < L.length)
    (hti : tqi ≤ (nodeOf L[tni]).length) :
    absL L hni hqi tni tqi = absL (L.take (tni + 1)) hni hqi tni tqi := by
  unfold absL
  rw [off_take L (tni + 1) tni (by omega), off_take L (tni + 1) hni (by omega)]
  have h1 : off L tni + tqi ≤ off L (tni + 1) := by rw [off_succ L tni ht]; omega
  have h2 : (F L).take (off L tni + tqi) = ((F L).take (off L (tni + 1))).take (off L tni + tqi) := by
    rw [List.take_take, Nat.min_eq_left h1]
  rw [h2, F_take_off]

theorem absL_congr (L1 L2 : List (Option Arr)) (hni hqi tni tqi : Nat) (hle : hni ≤ tni)
    (h1 : tni < L1.length) (h2 : tni < L2.length) (hp : L1.take (tni + 1) = L2.take (tni + 1))
    (hti : tqi ≤ (nodeOf L1[tni]).length) :
    absL L1 hni hqi tni tqi = absL L2 hni hqi tni tqi := by
  have e : L1[tni] = L2[tni] := by
    have a1 : (L1.take (tni + 1))[tni]? = L1[tni]? := by rw [List.getElem?_take]; simp
    have a2 : (L2.take (tni + 1))[tni]? = L2[tni]? := by rw [List.getElem?_take]; simp
    rw [hp] at a1
    have : L1[tni]? = L2[tni]? := by rw [← a1, a2]
    simpa [List.getElem?_eq_getElem h1, List.getElem?_eq_getElem h2] using this
  rw [absL_take L1 hni hqi tni tqi hle h1 hti, absL_take L2 hni hqi tni tqi hle h2 (by rw [← e]; exact hti), hp]

/-! ### invariant -/

def shape (L : List (Option Arr)) : List (Option Nat) := L.map (Option.map List.length)

theorem shape_length (L : List (Option Arr)) : (shape L).length = L.length := by simp [shape]

theorem shape_some {L : List (Option Arr)} {j n : Nat} (h : (shape L)[j]? = some (some n)) :
    ∃ a, L[j]? = some (some a) ∧ a.length = n := by
  simp only [shape, List.getElem?_map] at h
  cases hj : L[j]? with
  | none => simp [hj] at h
  | some s =>
    cases s with
    | none => simp [hj] at h
    | some a => exact ⟨a, rfl, by simpa [hj] using h⟩

theorem shape_none {L : List (Option Arr)} {j : Nat} (h : (shape L)[j]? = some none) : L[j]? = some none := by
  simp only [shape, List.getElem?_map] at h
  cases hj : L[j]? with
  | none => simp [hj] at h
  | some s =>
    cases s with
    | none => rfl
    | some a => simp [hj] at h

theorem shape_set_cell (L : List (Option Arr)) (j i : Nat) (a : Arr) (v : Elem) (hj : L[j]? = some (some a)) :
    shape (L.set j (some (a.set i v))) = shape L := by
  apply List.ext_getElem?
  intro k
  simp only [shape, List.getElem?_map, List.getElem?_set]
  by_cases h : j = k
  · subst h
    have : j < L.length := by
      cases hl : L[j]? with
      | none => simp [hl] at hj
      | some _ => exact (List.getElem?_eq_some_iff.mp hl).1
    have e : L[j] = some a := (List.getElem?_eq_some_iff.mp hj).2
    simp [this, e]
  · simp [h]

/-- `QInv`: cursor / size / node-table consistency of the segmented deque.  Nodes `0..nodeIndex` are allocated with
the recorded positive sizes, the rest are nil; both cursors point at an existing cell, head not after tail; the
aliases are the cursor nodes; the next allocation size is sane. -/
structure QInv (q : Q) : Prop where
  lenQ : (shape q.queues).length = q.nodeSize
  lenS : q.sizes.length = q.nodeSize
  niLt : q.nodeIndex < q.nodeSize
  alloc : ∀ j, j ≤ q.nodeIndex → ∃ n, (shape q.queues)[j]? = some (some n) ∧ q.sizes[j]? = some n ∧ 0 < n ∧ n < 1073741824
  free : ∀ j, q.nodeIndex < j → j < q.nodeSize → (shape q.queues)[j]? = some none ∧ q.sizes[j]? = some 0
  hle : q.hni ≤ q.tni
  tle : q.tni ≤ q.nodeIndex
  hq : q.headQueue = .node q.hni
  tq : q.tailQueue = .node q.tni
  hqs : q.sizes[q.hni]? = some q.hqs
  tqs : q.sizes[q.tni]? = some q.tqs
  hlt : q.hqi < q.hqs
  tlt : q.tqi < q.tqs
  ord : q.hni = q.tni → q.hqi ≤ q.tqi
  base : 1 ≤ q.baseNodeSize
  qsPos : 0 < q.queueSize
  qsLt : q.queueSize < 1073741824

theorem QInv.node {q : Q} (h : QInv q) (j : Nat) (hj : j ≤ q.nodeIndex) :
    ∃ a, q.queues[j]? = some (some a) ∧ q.sizes[j]? = some a.length ∧ 0 < a.length ∧ a.length < 1073741824 := by
  obtain ⟨n, h1, h2, h3, h4⟩ := h.alloc j hj
  obtain ⟨a, ha, hl⟩ := shape_some h1
  exact ⟨a, ha, by rw [hl]; exact h2, by omega, by omega⟩

theorem QInv.tailNode {q : Q} (h : QInv q) : ∃ a, q.queues[q.tni]? = some (some a) ∧ a.length = q.tqs := by
  obtain ⟨a, h1, h2, _, _⟩ := h.node q.tni h.tle
  have := h.tqs
  rw [h2] at this
  exact ⟨a, h1, by simpa using this⟩

theorem QInv.headNode {q : Q} (h : QInv q) : ∃ a, q.queues[q.hni]? = some (some a) ∧ a.length = q.hqs := by
  obtain ⟨a, h1, h2, _, _⟩ := h.node q.hni (Nat.le_trans h.hle h.tle)
  have := h.hqs
  rw [h2] at this
  exact ⟨a, h1, by simpa using this⟩

theorem QInv.lenQ' {q : Q} (h : QInv q) : q.queues.length = q.nodeSize := by
  rw [← shape_length]; exact h.lenQ

/-- head position ≤ tail position < end of the tail node -/
theorem QInv.pos {q : Q} (h : QInv q) :
    off q.queues q.hni + q.hqi ≤ off q.queues q.tni + q.tqi ∧
    off q.queues q.tni + q.tqi < off q.queues (q.tni + 1) ∧
    off q.queues (q.tni + 1) ≤ (F q.queues).length := by
  obtain ⟨at_, hat, hatl⟩ := h.tailNode
  obtain ⟨ah, hah, hahl⟩ := h.headNode
  have htl : q.tni < q.queues.length := (List.getElem?_eq_some_iff.mp hat).1
  have hhl : q.hni < q.queues.length := (List.getElem?_eq_some_iff.mp hah).1
  have et : (nodeOf q.queues[q.tni]).length = q.tqs := by
    have := (List.getElem?_eq_some_iff.mp hat).2; rw [this]; simpa [nodeOf] using hatl
  have eh : (nodeOf q.queues[q.hni]).length = q.hqs := by
    have := (List.getElem?_eq_some_iff.mp hah).2; rw [this]; simpa [nodeOf] using hahl
  have s1 := off_succ q.queues q.tni htl
  have s2 := off_succ q.queues q.hni hhl
  have hlt := h.hlt
  have tlt := h.tlt
  refine ⟨?_, by omega, ?_⟩
  · by_cases e : q.hni = q.tni
    · have := h.ord e; rw [e]; omega
    · have : off q.queues (q.hni + 1) ≤ off q.queues q.tni := off_mono _ (by have := h.hle; omega)
      omega
  · have := F_take_off q.queues (q.tni + 1)
    have hl := congrArg List.length this
    simp only [List.length_take] at hl
    unfold off at *
    omega

/-! ### cells before the head cursor -/

/-- every cell of the flat view before global position `off h + hi` is nil -/
def cleanL (L : List (Option Arr)) (h hi : Nat) : Prop := ∀ e ∈ (F L).take (off L h + hi), e = none

/-- every cell before the head cursor is nil (Pop nils the cells it leaves behind; preserved by every operation) -/
def HeadClean (q : Q) : Prop := cleanL q.queues q.hni q.hqi

instance (q : Q) : Decidable (HeadClean q) := by unfold HeadClean cleanL; exact inferInstance

theorem HeadClean_origin {q : Q} (h1 : q.hni = 0) (h2 : q.hqi = 0) : HeadClean q := by
  unfold HeadClean cleanL; rw [h1, h2, off_zero]; simp

theorem mem_take_iff {α : Type} (l : List α) (n : Nat) (e : α) : e ∈ l.take n ↔ ∃ p, p < n ∧ l[p]? = some e := by
  rw [List.mem_iff_getElem?]
  constructor
  · rintro ⟨i, hi⟩
    rw [List.getElem?_take] at hi
    by_cases c : i < n
    · simp only [c, if_true] at hi; exact ⟨i, c, hi⟩
    · simp [c] at hi
  · rintro ⟨p, hp, he⟩
    exact ⟨p, by rw [List.getElem?_take]; simp [hp, he]⟩

/-- writing one cell keeps "clean before H'" when every position below H' is either the written cell (and nil is
written) or was clean before -/
theorem clean_set (g : Arr) (P : Nat) (v : Elem) (H H' : Nat) (hc : ∀ e ∈ g.take H, e = none)
    (hcond : ∀ p, p < H' → (p = P ∧ v = none) ∨ (p ≠ P ∧ p < H)) : ∀ e ∈ (g.set P v).take H', e = none := by
  intro e he
  obtain ⟨p, hp, hpe⟩ := (mem_take_iff _ _ _).mp he
  rcases hcond p hp with ⟨h1, h2⟩ | ⟨h1, h2⟩
  · subst h1
    rw [List.getElem?_set] at hpe
    simp only [if_true] at hpe
    by_cases c : p < g.length
    · simp only [c, if_true] at hpe; rw [← h2]; simpa using hpe.symm
    · simp [c] at hpe
  · rw [List.getElem?_set_ne (by omega)] at hpe
    exact hc e ((mem_take_iff _ _ _).mpr ⟨p, h2, hpe⟩)

theorem cleanL_set (L : List (Option Arr)) (n i : Nat) (a : Arr) (v : Elem) (hn : L[n]? = some (some a)) (hi : i < a.length)
    (h hi0 h' hi' : Nat) (hc : cleanL L h hi0)
    (hcond : ∀ p, p < off L h' + hi' → (p = off L n + i ∧ v = none) ∨ (p ≠ off L n + i ∧ p < off L h + hi0)) :
    cleanL (L.set n (some (a.set i v))) h' hi' := by
  unfold cleanL
  rw [F_set_cell _ _ _ _ _ hn hi, off_set_len _ _ _ a _ hn (by simp)]
  exact clean_set _ _ _ _ _ hc hcond

/-- a node table that agrees with another one on nodes `0..m-1` has the same flat prefix -/
theorem cleanL_prefix (L1 L2 : List (Option Arr)) (m h hi : Nat) (hp : L1.take m = L2.take m) (hm : h < m)
    (hb : off L2 h + hi ≤ off L2 m) (hc : cleanL L2 h hi) : cleanL L1 h hi := by
  unfold cleanL at *
  have o1 : off L1 h = off L2 h := by rw [← off_take L1 m h (by omega), hp, off_take L2 m h (by omega)]
  have o2 : off L1 m = off L2 m := by rw [← off_take L1 m m (Nat.le_refl _), hp, off_take L2 m m (Nat.le_refl _)]
  have t1 : (F L1).take (off L1 h + hi) = ((F L1).take (off L1 m)).take (off L1 h + hi) := by
    rw [List.take_take, Nat.min_eq_left (by omega)]
  have t2 : (F L2).take (off L2 h + hi) = ((F L2).take (off L2 m)).take (off L2 h + hi) := by
    rw [List.take_take, Nat.min_eq_left (by omega)]
  rw [t1, F_take_off, hp, o1, ← F_take_off, ← t2]
  exact hc

theorem F_length_shape {L1 L2 : List (Option Arr)} (h : shape L1 = shape L2) : (F L1).length = (F L2).length := by
  induction L1 generalizing L2 with
  | nil =>
    cases L2 with
    | nil => rfl
    | cons _ _ => simp [shape] at h
  | cons s r ih =>
    cases L2 with
    | nil => simp [shape] at h
    | cons s2 r2 =>
      simp only [shape, List.map_cons, List.cons.injEq] at h
      have hr : shape r = shape r2 := h.2
      have hs : (nodeOf s).length = (nodeOf s2).length := by
        cases s <;> cases s2 <;> simp [nodeOf] at h ⊢
        exact h.1
      simp only [F, List.length_append, ih hr, hs]

theorem off_shape {L1 L2 : List (Option Arr)} (h : shape L1 = shape L2) (j : Nat) : off L1 j = off L2 j := by
  unfold off
  apply F_length_shape
  simp only [shape, ← List.map_take]
  have := congrArg (List.take j) h
  simpa [shape, List.map_take] using this

end Slock.Queue
