import Slock.Proofs.Engine2Keep
/-! Stage-2 engine: the database invariant `DBI` is kept by every operation — LOCK, UNLOCK, a second of timer sweeps, a role
change — hence holds in every reachable state. -/
namespace Slock.Engine2

theorem DBside.lockBase {db : DB} (h : DBI db) (c : Cmd) (b : LockBranch) : DBside (lockBase db c b) := by
  cases b <;> first | exact h.openKey c.key | exact h.enter c.key

theorem opLock_dbi (db : DB) (h : DBI db) (c : Cmd) (data : Option Bytes) : DBI (opLock db c data).1 := by
  unfold opLock
  simp only []
  have hs := (DBside.lockBase h c (classifyLock db c data)).of_fr (applyLock_fr db c data _)
  have hl := applyLock_lvg db h c data (classifyLock db c data) (fun x hx => classifyLock_holder db c data x hx)
  exact DBI.commit hs (fun hg => (hl hg).toKeyOK)

theorem opUnlock_dbi (db : DB) (h : DBI db) (c : Cmd) (data : Option Bytes) : DBI (opUnlock db c data).1 := by
  unfold opUnlock
  simp only []
  have hs := (h.openKey c.key).of_fr (applyUnlock_fr db c data (classifyUnlock db c))
  have hl := applyUnlock_lvg db h c data (classifyUnlock db c) (fun x hx => classifyUnlock_holder db c x hx)
    (fun x hx => classifyUnlock_cancel db c x hx)
  exact DBI.commit hs (fun hg => (hl hg).toKeyOK)

/-! ### timer sweeps -/

/-- one step on one key record that is a frame step and keeps the record's invariant -/
theorem DBI.stepW {db : DB} (h : DBI db) (key : Nat) (w' : W) (f : Fr (db.openKey key) w') (hl : LvG w' zero) : DBI w'.commit :=
  DBI.commit ((h.openKey key).of_fr f) (fun hg => (hl hg).toKeyOK)

theorem hasT_spec (k : Key) (rid : Nat) (h : k.hasT rid = true) : k.hasRec rid ∧ (k.getR rid).tSched.isSome = true := by
  unfold Key.hasT at h
  simp only [Bool.and_eq_true] at h
  exact ⟨(any_iff_hasRec k rid).mp h.1, h.2⟩
theorem hasE_spec (k : Key) (rid : Nat) (h : k.hasE rid = true) : k.hasRec rid ∧ (k.getR rid).eSched.isSome = true := by
  unfold Key.hasE at h
  simp only [Bool.and_eq_true] at h
  exact ⟨(any_iff_hasRec k rid).mp h.1, h.2⟩

theorem Lv.wheelBroken {w : W} (l : Lv w zero) : Lv w.wheelBroken zero := l.db rfl (Nat.le_refl _)

theorem wheel_of_t {r : Rec} (h : r.tSched.isSome = true) : 1 ≤ r.wheelRefs := by unfold Rec.wheelRefs; simp [h]
theorem wheel_of_e {r : Rec} (h : r.eSched.isSome = true) : 1 ≤ r.wheelRefs := by unfold Rec.wheelRefs; simp only [h, if_true]; omega

theorem LvG.fireTimeout {w : W} (l : Lv w zero) (rid : Nat) : LvG (w.fireTimeout rid) zero := by
  unfold W.fireTimeout
  simp only []
  split
  · exact LvG.of_lv l.wheelBroken
  rename_i hg
  have hs := hasT_spec w.k rid (by simpa using hg)
  split
  · exact (LvG.of_lv l).dropT zero_nonneg rid (fun _ => hs)
  · have l1 : Lv (w.modR rid (fun r => { r with timeouted := true })) zero :=
      l.modR rid _ (fun _ => rfl) (l.rc.modRec_plain rid _ (fun _ => rfl) (fun _ => rfl) (fun _ => rfl)) (by
        intro r _ _ hf; simp at hf)
    have hh1 : (w.modR rid (fun r => { r with timeouted := true })).k.hasRec rid := (hasRec_modR _ rid rid _ (by intro _; rfl)).mpr hs.1
    have g1 : (w.modR rid (fun r => { r with timeouted := true })).k.getR rid = { (w.k.getR rid) with timeouted := true } :=
      getR_modRec_same _ _ _ (fun _ => rfl) hs.1
    have ht1 : ((w.modR rid (fun r => { r with timeouted := true })).k.getR rid).tSched.isSome = true := by rw [g1]; exact hs.2
    have l2 : Lv ((w.modR rid (fun r => { r with timeouted := true })).modK (·.settleWait)) zero :=
      l1.modK _ (settleWait_rc zero_nonneg l1.rc) (RecsLe.settleWait _)
    obtain ⟨k1, k2⟩ := settleWait_keep zero_nonneg l1.rc rid hh1 (wheel_of_t ht1)
    have l3 := l2.ctr (fun y => { y with waitCount := y.waitCount - 1 })
    have l4 := (LvG.of_lv l3).dropT zero_nonneg rid (fun _ => ⟨k1, by
      show ((w.modR rid (fun r => { r with timeouted := true })).k.settleWait.getR rid).tSched.isSome = true
      rw [k2.tSched]; exact ht1⟩)
    exact LvG.wake zero_nonneg ((l4.step (FQ.ctr _ _).fr (fun l => l.ctr _)).step (Fr.reply _ _ _ _ _) (fun l => l.reply _ _ _ _))

theorem LvG.fireExpire {w : W} (l : Lv w zero) (rid : Nat) : LvG (w.fireExpire rid) zero := by
  unfold W.fireExpire
  simp only []
  split
  · exact LvG.of_lv l.wheelBroken
  rename_i hg
  have hs := hasE_spec w.k rid (by simpa using hg)
  split
  · exact (LvG.of_lv l).dropE zero_nonneg rid (fun _ => hs)
  · split
    · -- deferral: the entry is pushed again
      have l1 : Lv (w.modR rid (fun r => { r with expT := w.db.now + 30 })) zero :=
        l.modR_plain rid _ (fun _ => rfl) (fun _ => rfl) (fun _ => rfl) (fun _ => rfl) (fun _ => rfl)
      have hh1 : (w.modR rid (fun r => { r with expT := w.db.now + 30 })).k.hasRec rid := (hasRec_modR _ rid rid _ (by intro _; rfl)).mpr hs.1
      have g1 : (w.modR rid (fun r => { r with expT := w.db.now + 30 })).k.getR rid = { (w.k.getR rid) with expT := w.db.now + 30 } :=
        getR_modRec_same _ _ _ (fun _ => rfl) hs.1
      have he1 : ((w.modR rid (fun r => { r with expT := w.db.now + 30 })).k.getR rid).eSched.isSome = true := by rw [g1]; exact hs.2
      have := l1.addExpried rid hh1 0 (by rw [he1]; rfl) (l1.timeouted_of_eSched rid hh1 he1)
      exact LvG.of_lv (this.congr (fun y => by simp))
    · have l1 : Lv (w.modR rid (fun r => { r with expried := true })) zero :=
        l.modR_plain rid _ (fun _ => rfl) (fun _ => rfl) (fun _ => rfl) (fun _ => rfl) (fun _ => rfl)
      have hh1 : (w.modR rid (fun r => { r with expried := true })).k.hasRec rid := (hasRec_modR _ rid rid _ (by intro _; rfl)).mpr hs.1
      have g1 : (w.modR rid (fun r => { r with expried := true })).k.getR rid = { (w.k.getR rid) with expried := true } :=
        getR_modRec_same _ _ _ (fun _ => rfl) hs.1
      have l2 : Lv ((w.modR rid (fun r => { r with expried := true })).modK (fun k => { k with locked := k.locked - (w.k.getR rid).depth })) zero :=
        l1.modK _ (l1.rc.transfer rfl rfl (fun _ => rfl)) (RecsLe.of_eq rfl)
      have l3 : Lv (((w.modR rid (fun r => { r with expried := true })).modK (fun k => { k with locked := k.locked - (w.k.getR rid).depth })).when
          (w.k.getR rid).isAof (·.pushUnLockAof rid (w.k.getR rid).cmd false false AOF_EXPRIED)) zero :=
        l2.when _ _ (l2.pushUnLockAof _ _ _ _ _)
      -- the record and its expiry entry are still there after journalling and `RemoveLock`
      have hk3 : (((w.modR rid (fun r => { r with expried := true })).modK (fun k => { k with locked := k.locked - (w.k.getR rid).depth })).when
          (w.k.getR rid).isAof (·.pushUnLockAof rid (w.k.getR rid).cmd false false AOF_EXPRIED)).k.hasRec rid ∧
          ((((w.modR rid (fun r => { r with expried := true })).modK (fun k => { k with locked := k.locked - (w.k.getR rid).depth })).when
          (w.k.getR rid).isAof (·.pushUnLockAof rid (w.k.getR rid).cmd false false AOF_EXPRIED)).k.getR rid).eSched.isSome = true := by
        unfold W.when
        split
        · refine ⟨(hasRec_of_ids (ids_pushUnLockAof _ _ _ _ _ _) rid).mpr hh1, ?_⟩
          have := pushUnLockAof_eSched ((w.modR rid (fun r => { r with expried := true })).modK (fun k => { k with locked := k.locked - (w.k.getR rid).depth }))
            rid (w.k.getR rid).cmd false false AOF_EXPRIED rid
          rw [this]; show ((w.modR rid (fun r => { r with expried := true })).k.getR rid).eSched.isSome = true
          rw [g1]; exact hs.2
        · exact ⟨hh1, by show ((w.modR rid (fun r => { r with expried := true })).k.getR rid).eSched.isSome = true; rw [g1]; exact hs.2⟩
      have l4 := l3.modK (·.removeLock rid) (removeLock_rc zero_nonneg l3.rc rid) (RecsLe.removeLock _ _)
      obtain ⟨m1, m2, _⟩ := removeLock_keep zero_nonneg l3.rc rid rid hk3.1 (wheel_of_e hk3.2)
      have l5 := (LvG.of_lv l4).dropE zero_nonneg rid (fun _ => ⟨m1, by
        show ((((w.modR rid (fun r => { r with expried := true })).modK (fun k => { k with locked := k.locked - (w.k.getR rid).depth })).when
          (w.k.getR rid).isAof (·.pushUnLockAof rid (w.k.getR rid).cmd false false AOF_EXPRIED)).k.removeLock rid |>.getR rid).eSched.isSome = true
        rw [m2]; exact hk3.2⟩)
      exact l5.finish _ _ _ _ _

theorem LvG.visitTimeout {w : W} (l : Lv w zero) (slot : Bool) (rid : Nat) (w' : W) (h : w.visitTimeout slot rid = some w') : LvG w' zero := by
  unfold W.visitTimeout at h
  simp only [] at h
  split at h
  · injection h with h; rw [← h]; exact LvG.of_lv l.wheelBroken
  rename_i hg
  have hs := hasT_spec w.k rid (by simpa using hg)
  split at h
  · injection h with h; rw [← h]; exact (LvG.of_lv l).dropT zero_nonneg rid (fun _ => hs)
  · rename_i hto
    split at h
    · injection h with h; rw [← h]
      have hto' : (w.k.getR rid).timeouted = false := by simpa using hto
      have he : (w.k.getR rid).eSched.isSome = false := l.side.ok _ (getR_mem hs.1) hto'
      have l1 : Lv (w.modR rid (fun r => { r with tChecked := r.tChecked + 1 })) zero :=
        l.modR_plain rid _ (fun _ => rfl) (fun _ => rfl) (fun _ => rfl) (fun _ => rfl) (fun _ => rfl)
      have hh1 : (w.modR rid (fun r => { r with tChecked := r.tChecked + 1 })).k.hasRec rid := (hasRec_modR _ rid rid _ (by intro _; rfl)).mpr hs.1
      have g1 : (w.modR rid (fun r => { r with tChecked := r.tChecked + 1 })).k.getR rid = { (w.k.getR rid) with tChecked := (w.k.getR rid).tChecked + 1 } :=
        getR_modRec_same _ _ _ (fun _ => rfl) hs.1
      have := l1.addTimeOut rid hh1 0 (by rw [g1]; show (if (w.k.getR rid).tSched.isSome = true then (0 : Int) else 1) = 0; rw [hs.2]; rfl) (by rw [g1]; exact he)
      exact LvG.of_lv (this.congr (fun y => by simp))
    · simp at h

theorem LvG.visitExpire {w : W} (l : Lv w zero) (slot : Bool) (rid : Nat) (w' : W) (h : w.visitExpire slot rid = some w') : LvG w' zero := by
  unfold W.visitExpire at h
  simp only [] at h
  split at h
  · injection h with h; rw [← h]; exact LvG.of_lv l.wheelBroken
  rename_i hg
  have hs := hasE_spec w.k rid (by simpa using hg)
  split at h
  · injection h with h; rw [← h]; exact (LvG.of_lv l).dropE zero_nonneg rid (fun _ => hs)
  · split at h
    · injection h with h; rw [← h]
      have l1 : Lv (w.modR rid (fun r => { r with eChecked := r.eChecked + 1 })) zero :=
        l.modR_plain rid _ (fun _ => rfl) (fun _ => rfl) (fun _ => rfl) (fun _ => rfl) (fun _ => rfl)
      have hh1 : (w.modR rid (fun r => { r with eChecked := r.eChecked + 1 })).k.hasRec rid := (hasRec_modR _ rid rid _ (by intro _; rfl)).mpr hs.1
      have g1 : (w.modR rid (fun r => { r with eChecked := r.eChecked + 1 })).k.getR rid = { (w.k.getR rid) with eChecked := (w.k.getR rid).eChecked + 1 } :=
        getR_modRec_same _ _ _ (fun _ => rfl) hs.1
      have he1 : ((w.modR rid (fun r => { r with eChecked := r.eChecked + 1 })).k.getR rid).eSched.isSome = true := by rw [g1]; exact hs.2
      have := l1.addExpried rid hh1 0 (by rw [he1]; rfl) (l1.timeouted_of_eSched rid hh1 he1)
      exact LvG.of_lv (this.congr (fun y => by simp))
    · simp at h

/-! ### the sweeps, one entry at a time -/

/-- taking a long-table entry in hand changes no count and no entry's presence -/
theorem Lv.collectT {w : W} (l : Lv w zero) (rid : Nat) : Lv (w.collectT rid) zero := by
  unfold W.collectT
  exact l.modR_plain rid _ (fun _ => rfl) (fun _ => rfl) (fun r => by cases r.tSched <;> rfl) (fun _ => rfl) (fun _ => rfl)

theorem timeoutStep_dbi (slot : Bool) (acc : DB × List Ent) (e : Ent) (h : DBI acc.1) : DBI (timeoutStep slot acc e).1 := by
  unfold timeoutStep
  split
  · rename_i w hw
    exact h.stepW e.key w (W.visitTimeout_fr _ _ _ _ hw) (LvG.visitTimeout (Lv.openKey h e.key) slot e.rid w hw)
  · cases slot
    · exact h.stepW e.key _ (W.collectT_fr _ _) (LvG.of_lv ((Lv.openKey h e.key).collectT e.rid))
    · exact h

theorem expireStep_dbi (slot : Bool) (acc : DB × List Ent) (e : Ent) (h : DBI acc.1) : DBI (expireStep slot acc e).1 := by
  unfold expireStep
  split
  · rename_i w hw
    exact h.stepW e.key w (W.visitExpire_fr _ _ _ _ hw) (LvG.visitExpire (Lv.openKey h e.key) slot e.rid w hw)
  · exact h

theorem fireTimeoutStep_dbi (acc : DB × List Reply) (e : Ent) (h : DBI acc.1) : DBI (fireTimeoutStep acc e).1 := by
  unfold fireTimeoutStep fireTimeout
  exact h.stepW e.key _ (W.fireTimeout_fr _ _) (LvG.fireTimeout (Lv.openKey h e.key) e.rid)

theorem fireExpireStep_dbi (acc : DB × List Reply) (e : Ent) (h : DBI acc.1) : DBI (fireExpireStep acc e).1 := by
  unfold fireExpireStep fireExpire
  exact h.stepW e.key _ (W.fireExpire_fr _ _) (LvG.fireExpire (Lv.openKey h e.key) e.rid)

theorem foldl_dbi {α β} (f : DB × β → α → DB × β) (hf : ∀ acc a, DBI acc.1 → DBI (f acc a).1)
    (l : List α) (acc : DB × β) (h : DBI acc.1) : DBI (l.foldl f acc).1 := by
  induction l generalizing acc with
  | nil => exact h
  | cons a as ih => simp only [List.foldl_cons]; exact ih _ (hf acc a h)

theorem sweepTimeout_dbi (db : DB) (c : Nat) (h : DBI db) : DBI (sweepTimeout db c).1 := by
  unfold sweepTimeout
  simp only []
  refine foldl_dbi _ fireTimeoutStep_dbi _ _ ?_
  exact foldl_dbi _ (timeoutStep_dbi false) _ _ (foldl_dbi _ (timeoutStep_dbi true) _ (db, []) h)

theorem sweepExpire_dbi (db : DB) (c : Nat) (h : DBI db) : DBI (sweepExpire db c).1 := by
  unfold sweepExpire
  simp only []
  refine foldl_dbi _ fireExpireStep_dbi _ _ ?_
  exact foldl_dbi _ (expireStep_dbi false) _ _ (foldl_dbi _ (expireStep_dbi true) _ (db, []) h)

/-- fields of the database the invariant does not read -/
theorem DBI.of_keys {db db' : DB} (h : DBI db) (h1 : db'.keys = db.keys) (h2 : db'.keyCount = db.keyCount) (h3 : db'.nextRid = db.nextRid) :
    DBI db' := ⟨by rw [h1]; exact h.kn, by rw [h1, h3]; exact h.ks, by rw [h1, h2]; exact h.kc⟩

theorem opTick_dbi (db : DB) (h : DBI db) : DBI (opTick db).1 := by
  unfold opTick
  simp only []
  apply sweepExpire_dbi
  refine DBI.of_keys (db := (sweepTimeout { db with now := db.now + 1, tCheck := db.now + 1 + 1 } (db.now + 1)).1) ?_ rfl rfl rfl
  exact sweepTimeout_dbi _ _ (h.of_keys rfl rfl rfl)

theorem step_dbi (db : DB) (o : Op) (h : DBI db) : DBI (step db o).1 := by
  cases o with
  | lock c d => exact opLock_dbi db h c d
  | unlock c d => exact opUnlock_dbi db h c d
  | tick => exact opTick_dbi db h
  | setLeader b => exact h.of_keys rfl rfl rfl

/-- **every reachable state satisfies the invariant** -/
theorem run_dbi (db : DB) (ops : List Op) (h : DBI db) : DBI (run db ops) := by
  induction ops generalizing db with
  | nil => exact h
  | cons o os ih => unfold run; simp only [List.foldl_cons]; exact ih _ (step_dbi db o h)

end Slock.Engine2
