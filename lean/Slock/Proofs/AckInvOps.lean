import Slock.Proofs.AckInv
/-! M-ACK: `InvA` through the building blocks of the operations. -/
namespace Slock.Ack

theorem reqAcks_pos (c : Cfg) : reqAcks c ≥ 1 := by unfold reqAcks; split <;> omega

theorem findR_none_of_ge {db : DB} (h : ∀ r ∈ db.recs, r.hid < db.nextHid) {a : Nat} (ha : a ≥ db.nextHid) : findR db.recs a = none := by
  unfold findR; rw [List.find?_eq_none]; intro r hr
  have := h r hr
  simp; omega

theorem getR_dead_of_ge {db : DB} (h : ∀ r ∈ db.recs, r.hid < db.nextHid) {a : Nat} (ha : a ≥ db.nextHid) : db.getR a = deadRec a := by
  rw [getR_eq, findR_none_of_ge h ha]; rfl

theorem InvA.modR {db : DB} (h : InvA db) (hid : Nat) (f : Rec → Rec)
    (hf : ∀ r, (f r).hid = r.hid)
    (hq : ∀ r ∈ db.recs, r.hid = hid → ((f r).queued = true → r.queued = true))
    (hd : ∀ r ∈ db.recs, r.hid = hid → (f r).depth > 0 → (f r).queued = false)
    (hp : (∃ e ∈ db.tab, e.hid = hid) → (f (db.getR hid)).pending = true → (f (db.getR hid)).ack ≥ 1) :
    InvA (db.modR hid f) := by
  have hX := (h.toX db.nextHid).modR hid f hf hq hd (fun _ => hp)
  apply hX.toA
  rw [getR_modR db hid f hf]
  have hn : findR db.recs db.nextHid = none := findR_none_of_ge h.hidLt (Nat.le_refl _)
  have hd' : db.getR db.nextHid = deadRec db.nextHid := getR_dead_of_ge h.hidLt (Nat.le_refl _)
  by_cases e : db.nextHid = hid
  · rw [if_pos e, hn]; simp; rw [hd']; rfl
  · rw [if_neg e, hd']; rfl

/-- fewer references: still fine -/
theorem InvA.sub {db db' : DB} (h : InvA db) (e1 : db'.recs = db.recs) (e4 : db'.nextHid = db.nextHid)
    (e2 : ∀ e ∈ db'.tab, e ∈ db.tab) (e3 : ∀ j ∈ db'.journal, j ∈ db.journal) : InvA db' := by
  have hg : ∀ a, db'.getR a = db.getR a := fun a => by rw [getR_eq, getR_eq, e1]
  refine ⟨by rw [e1]; exact h.nodup, ?_, ?_, ?_, ?_⟩
  · rw [e1, e4]; exact h.hidLt
  · rw [e1]; exact h.heldNQ
  · rw [e4]; intro j hj hl a ha; rw [hg]; exact h.jrn j (e3 j hj) hl a ha
  · rw [e4]; intro e he; rw [hg]; exact h.tabOk e (e2 e he)

theorem InvX.sub {db db' : DB} {x : Nat} (h : InvX db x) (e1 : db'.recs = db.recs) (e4 : db'.nextHid = db.nextHid)
    (e2 : ∀ e ∈ db'.tab, e ∈ db.tab) (e3 : ∀ j ∈ db'.journal, j ∈ db.journal) : InvX db' x := by
  have hg : ∀ a, db'.getR a = db.getR a := fun a => by rw [getR_eq, getR_eq, e1]
  refine ⟨by rw [e1]; exact h.nodup, ?_, ?_, ?_, ?_⟩
  · rw [e1, e4]; exact h.hidLt
  · rw [e1]; exact h.heldNQ
  · rw [e4]; intro j hj hl a ha; rw [hg]; exact h.jrn j (e3 j hj) hl a ha
  · rw [e4]; intro e he; rw [hg]; exact h.tabOk e (e2 e he)

theorem InvA.frame {db db' : DB} (h : InvA db) (e1 : db'.recs = db.recs) (e2 : db'.tab = db.tab)
    (e3 : db'.journal = db.journal) (e4 : db'.nextHid = db.nextHid) : InvA db' :=
  h.sub e1 e4 (by rw [e2]; exact fun _ x => x) (by rw [e3]; exact fun _ x => x)

theorem InvA.modKey {db : DB} (h : InvA db) (k : Nat) (f : Key → Key) : InvA (db.modKey k f) :=
  h.frame (by simp) (by simp) (by simp) (by simp)
theorem InvA.ctrMod {db : DB} (h : InvA db) (f : Counters → Counters) : InvA (db.ctrMod f) := h.frame rfl rfl rfl rfl

theorem InvA.toEnd {db : DB} (h : InvA db) (hid : Nat) : InvA (db.toEnd hid) := by
  have := (h.toX db.nextHid).toEnd hid
  apply this.toA
  rw [getR_toEnd, getR_dead_of_ge h.hidLt (Nat.le_refl _)]; rfl

/-! ### the record-level steps -/

theorem irrel_timeouted (b : Bool) : Irrel (fun r => { r with timeouted := b }) := fun _ => ⟨rfl, rfl, rfl, rfl⟩
theorem irrel_expried (b : Bool) : Irrel (fun r => { r with expried := b }) := fun _ => ⟨rfl, rfl, rfl, rfl⟩
theorem irrel_isAof (b : Bool) : Irrel (fun r => { r with isAof := b }) := fun _ => ⟨rfl, rfl, rfl, rfl⟩
theorem irrel_undo (u : Option Undo) : Irrel (fun r => { r with undo := u }) := fun _ => ⟨rfl, rfl, rfl, rfl⟩
theorem irrel_updateF (now : Nat) (c : Cmd) : Irrel (Rec.updateF now c) := fun _ => ⟨rfl, rfl, rfl, rfl⟩

/-- an irrelevant update of one record plus changes outside `recs` / `tab` / `journal` / `nextHid` -/
theorem InvA.irrel' {db db' : DB} (h : InvA db) (hid : Nat) (f : Rec → Rec) (e1 : db'.recs = modRecs hid f db.recs) (hf : Irrel f)
    (e2 : db'.tab = db.tab) (e3 : db'.journal = db.journal) (e4 : db'.nextHid = db.nextHid) : InvA db' :=
  (h.modR_irrel hid f hf).frame e1 e2 e3 e4

theorem InvA.addExpried {db : DB} (h : InvA db) (hid : Nat) : InvA (db.addExpried hid) := by
  unfold DB.addExpried
  exact h.irrel' hid _ rfl (fun _ => ⟨rfl, rfl, rfl, rfl⟩) rfl rfl rfl

theorem InvA.addTimeOut {db : DB} (h : InvA db) (hid : Nat) : InvA (db.addTimeOut hid) := by
  unfold DB.addTimeOut
  exact h.irrel' hid _ rfl (fun _ => ⟨rfl, rfl, rfl, rfl⟩) rfl rfl rfl

theorem InvA.valueOp {db : DB} (h : InvA db) (hid : Nat) (b : Bool) : InvA (db.valueOp hid b) := by
  unfold DB.valueOp
  simp only []
  split
  · exact h
  · split
    · exact (h.modKey _ _).irrel' hid _ rfl (fun _ => ⟨rfl, rfl, rfl, rfl⟩) rfl rfl rfl
    · exact h.modKey _ _

theorem InvA.removeLock {db : DB} (h : InvA db) (hid : Nat) : InvA (db.removeLock hid) := by
  unfold DB.removeLock
  apply InvA.modR h hid
  · intro _; rfl
  · intro r _ _ hq; exact hq
  · intro r _ _ hd; simp at hd
  · intro _ hp; simp [Rec.pending] at hp

/-- `AddLock` on a record no table entry points at (a fresh record, or a queued one) -/
theorem InvA.addLock {db : DB} (h : InvA db) (hid : Nat) (hn : ∀ e ∈ db.tab, e.hid ≠ hid) : InvA (db.addLock hid) := by
  unfold DB.addLock
  apply InvA.modKey
  apply InvA.toEnd
  apply InvA.modR h hid
  · intro _; rfl
  · intro r _ _ hq; simp [Rec.addLockF] at hq
  · intro r _ _ _; rfl
  · intro ⟨e, he, e1⟩; exact absurd e1 (hn e he)

/-- a journal record is appended; a LOCK record must point at a record that exists and is not queued -/
theorem InvA.pushJ {db : DB} (h : InvA db) (r : Rec) (isLock : Bool)
    (hr : isLock = true → r.cmd.ack = true → r.hid < db.nextHid ∧ (db.getR r.hid).queued = false) : InvA (db.pushJ r isLock).1 := by
  unfold DB.pushJ
  split
  · exact h
  · split
    · exact h
    · simp only []
      refine ⟨h.nodup, h.hidLt, h.heldNQ, ?_, h.tabOk⟩
      intro j hj hl a ha
      rcases List.mem_append.mp hj with hj | hj
      · exact h.jrn j hj hl a ha
      · simp at hj
        subst hj
        simp at hl ha
        obtain ⟨e, ha⟩ := ha
        subst ha
        exact hr hl e

theorem pushJ_recs (db : DB) (r : Rec) (b : Bool) : (db.pushJ r b).1.recs = db.recs := by
  unfold DB.pushJ; split; rfl; split <;> rfl
theorem pushJ_tab (db : DB) (r : Rec) (b : Bool) : (db.pushJ r b).1.tab = db.tab := by
  unfold DB.pushJ; split; rfl; split <;> rfl
theorem pushJ_nextHid (db : DB) (r : Rec) (b : Bool) : (db.pushJ r b).1.nextHid = db.nextHid := by
  unfold DB.pushJ; split; rfl; split <;> rfl
theorem pushJ_leader (db : DB) (r : Rec) (b : Bool) : (db.pushJ r b).1.leader = db.leader := by
  unfold DB.pushJ; split; rfl; split <;> rfl
theorem pushJ_closed (db : DB) (r : Rec) (b : Bool) : (db.pushJ r b).1.closed = db.closed := by
  unfold DB.pushJ; split; rfl; split <;> rfl
theorem pushJ_cfg (db : DB) (r : Rec) (b : Bool) : (db.pushJ r b).1.cfg = db.cfg := by
  unfold DB.pushJ; split; rfl; split <;> rfl

theorem InvA.pushLock {db : DB} (h : InvA db) (hid : Nat) (hlt : hid < db.nextHid) (hq : (db.getR hid).queued = false) :
    InvA (db.pushLock hid).1 := by
  unfold DB.pushLock
  simp only []
  have h1 : InvA (db.pushJ (db.getR hid) true).1 := h.pushJ _ true (fun _ _ => by rw [getR_hid]; exact ⟨hlt, hq⟩)
  split
  · exact h1.modR_irrel hid _ (irrel_isAof true)
  · exact h1

theorem InvA.journalUnlock {db : DB} (h : InvA db) (hid : Nat) (keep : Bool) : InvA (db.journalUnlock hid keep) := by
  unfold DB.journalUnlock
  split
  · simp only []
    have h1 : InvA (db.pushJ (db.getR hid) false).1 := h.pushJ _ false (fun hl => by simp at hl)
    split
    · exact h1.modR_irrel hid _ (irrel_isAof keep)
    · exact h1
  · exact h

theorem InvA.rollback {db : DB} (h : InvA db) (hid : Nat) : InvA (db.rollback hid) := by
  unfold DB.rollback
  simp only []
  apply InvA.ctrMod
  apply InvA.removeLock
  apply InvA.journalUnlock
  split
  · exact ((h.modKey _ _).modKey _ _).modR_irrel hid _ (irrel_undo none)
  · exact h.modKey _ _

theorem findR_append_ne (rs : List Rec) (r0 : Rec) (a : Nat) (hne : r0.hid ≠ a) : findR (rs ++ [r0]) a = findR rs a := by
  simp only [findR, List.find?_append]
  cases e : List.find? (fun x => x.hid == a) rs with
  | some r => simp
  | none =>
    have hb : (r0.hid == a) = false := by simpa using hne
    simp [List.find?, hb]

theorem newRec_getR (db : DB) (c : Cmd) (a : Nat) (ha : a ≠ db.nextHid) : (db.newRec c).1.getR a = db.getR a := by
  rw [getR_eq, getR_eq]
  show (findR (db.recs ++ [_]) a).getD _ = _
  rw [findR_append_ne _ _ _ (fun h => ha h.symm)]

theorem newRec_recs (db : DB) (c : Cmd) : ∃ r0 : Rec, (db.newRec c).1.recs = db.recs ++ [r0] ∧ r0.hid = db.nextHid ∧ r0.depth = 0 ∧
    r0.queued = false ∧ r0.ack = NOACK ∧ r0.cmd = c ∧ r0.timeouted = true ∧ r0.expried = true := ⟨_, rfl, rfl, rfl, rfl, rfl, rfl, rfl, rfl⟩

theorem InvA.newRec {db : DB} (h : InvA db) (c : Cmd) : InvA (db.newRec c).1 := by
  obtain ⟨r0, e0, e1, e2, _⟩ := newRec_recs db c
  have en : (db.newRec c).1.nextHid = db.nextHid + 1 := rfl
  refine ⟨?_, ?_, ?_, ?_, ?_⟩
  · rw [e0, List.map_append, List.nodup_append]
    refine ⟨h.nodup, by simp, ?_⟩
    intro a ha b hb
    simp only [List.mem_map] at ha
    obtain ⟨x, hx, rfl⟩ := ha
    simp at hb; subst hb
    have := h.hidLt x hx; omega
  · intro r hr
    rw [e0] at hr
    rcases List.mem_append.mp hr with hr | hr
    · have := h.hidLt r hr; rw [en]; omega
    · simp at hr; subst hr; rw [en, e1]; omega
  · intro r hr hd
    rw [e0] at hr
    rcases List.mem_append.mp hr with hr | hr
    · exact h.heldNQ r hr hd
    · simp at hr; subst hr; omega
  · intro j hj hl a ha
    have := h.jrn j hj hl a ha
    rw [newRec_getR db c a (by omega), en]
    exact ⟨by omega, this.2⟩
  · intro e he
    have := h.tabOk e he
    rw [newRec_getR db c e.hid (by omega), en]
    exact ⟨by omega, this.2⟩

theorem newRec_snd (db : DB) (c : Cmd) : (db.newRec c).2 = db.nextHid := rfl
theorem newRec_tab (db : DB) (c : Cmd) : (db.newRec c).1.tab = db.tab := rfl
theorem newRec_journal (db : DB) (c : Cmd) : (db.newRec c).1.journal = db.journal := rfl
theorem newRec_nextHid (db : DB) (c : Cmd) : (db.newRec c).1.nextHid = db.nextHid + 1 := rfl

/-- no table entry points at the record `newRec` just made -/
theorem InvA.newRec_unref {db : DB} (h : InvA db) (c : Cmd) : ∀ e ∈ (db.newRec c).1.tab, e.hid ≠ (db.newRec c).2 := by
  intro e he
  have := (h.tabOk e he).1
  rw [newRec_snd]; omega

end Slock.Ack
