import Slock.Proofs.EngineSimTickFrame2
import Slock.Proofs.EngineSimTickI1
import Slock.Proofs.EngineSimTickKTTick
/-! Clock-tick simulation (`sim_tick`): the entries of the timeout wheel still to be processed, against stage 1's requests (`PT`), and how
a sweep step on ANOTHER entry leaves that relation alone. -/
namespace Slock.SimTick
open Slock Slock.Sim Slock.Engine2
open Slock.Engine (has)

/-- the record-level invariants of the database a sweep carries -/
structure Sy (s : DB) : Prop where
  dbq : DBQ s
  dbk : DBK s
  dbkt : DBKT s

def eid (e : Ent) : Nat × Nat := (e.key, e.rid)
/-- the record of the entry is a live queued request -/
def liveT (s : DB) (e : Ent) : Bool := !((s.getKey e.key).getR e.rid).timeouted
def viewT (s : DB) (e : Ent) : Engine.Waiter := waiterOf (s.getKey e.key) e.rid

theorem liveT_iff (s : DB) (e : Ent) : liveT s e = true ↔ ((s.getKey e.key).getR e.rid).timeouted = false := by
  unfold liveT; cases ((s.getKey e.key).getR e.rid).timeouted <;> simp
theorem liveT_false_iff (s : DB) (e : Ent) : liveT s e = false ↔ ((s.getKey e.key).getR e.rid).timeouted = true := by
  unfold liveT; cases ((s.getKey e.key).getR e.rid).timeouted <;> simp

theorem hasRec_of_liveT {s : DB} {e : Ent} (h : liveT s e = true) : (s.getKey e.key).hasRec e.rid :=
  hasRec_of_liveWaiter ((liveT_iff s e).mp h)

theorem hasT_of_liveT {s : DB} (kt : DBKT s) {e : Ent} (h : liveT s e = true) : (s.getKey e.key).hasT e.rid = true := by
  have hh := hasRec_of_liveT h
  obtain ⟨sc, hsc, _⟩ := (kt.getKey e.key).ws e.rid hh ((liveT_iff s e).mp h)
  unfold Key.hasT
  rw [(any_iff_hasRec _ _).mpr hh, hsc]; rfl

/-- the stage-1 request `w` stands for the wheel entry `e` -/
structure PT (s : DB) (e : Ent) (w : Engine.Waiter) : Prop where
  key : w.cmd.key = e.key
  live : liveT s e = true → rcOf (viewT s e) = rcOf w
  dead : liveT s e = false → ∀ v ∈ (Key.abs (s.getKey e.key)).waiters, rcOf v ≠ rcOf w

theorem PT.of_live {s : DB} {e : Ent} (kt : DBKT s) (k1 : K1 (s.getKey e.key)) (h : liveT s e = true) : PT s e (viewT s e) := by
  refine ⟨?_, fun _ => rfl, fun hd => by rw [h] at hd; exact absurd hd (by simp)⟩
  have := k1.kw _ (live_mem_abs (kt.getKey e.key) e.rid (hasRec_of_liveT h) ((liveT_iff s e).mp h))
  exact this.trans (getKey_key s e.key)

/-- every queued request stage 1 sees after a step was one before, under the same (RequestId, connection) -/
theorem waiter_back {X : Nat → Prop} {seq0 : Nat} {k' k : Key} (F : WFK X seq0 k' k) (kt : KT k) {v' : Engine.Waiter}
    (hv : v' ∈ (Key.abs k').waiters) :
    ∃ y, k'.hasRec y ∧ (k'.getR y).timeouted = false ∧ v' = waiterOf k' y ∧ k.hasRec y ∧ (k.getR y).timeouted = false ∧
      rcOf (waiterOf k y) = rcOf v' ∧ waiterOf k y ∈ (Key.abs k).waiters := by
  rw [abs_waiters] at hv
  obtain ⟨y, hy, e⟩ := List.mem_map.mp hv
  have hl' : (k'.getR y).timeouted = false := by
    have := (List.mem_filter.mp hy).2
    unfold Key.deadWaiter at this
    simpa using this
  have hh' : k'.hasRec y := hasRec_of_liveWaiter hl'
  have hh := F.sub y hh'
  have hl := F.nr y hh' hl'
  obtain ⟨c1, c2⟩ := F.cc y hh'
  refine ⟨y, hh', hl', e.symm, hh, hl, ?_, live_mem_abs kt y hh hl⟩
  rw [← e]
  unfold rcOf waiterOf Rec.toWaiter
  simp only [c1, c2]

theorem wfd_notX {e e0 : Ent} (hne : eid e ≠ eid e0) : ¬ (e.key = e0.key ∧ e.rid = e0.rid) := by
  intro ⟨h1, h2⟩
  apply hne
  unfold eid; rw [h1, h2]

/-- **a sweep step on another entry keeps `PT`** -/
theorem pt_step {s s' : DB} {e0 e : Ent} {w : Engine.Waiter} (F : WFD e0.key e0.rid s' s)
    (kt : KT (s.getKey e.key)) (wu : ((Key.abs (s.getKey e.key)).waiters.map rcOf).Nodup) (h : PT s e w) : PT s' e w := by
  have Fk := F e.key
  refine ⟨h.key, ?_, ?_⟩
  · intro hl'
    have hh' := hasRec_of_liveT hl'
    have hl := Fk.nr e.rid hh' ((liveT_iff s' e).mp hl')
    obtain ⟨c1, c2⟩ := Fk.cc e.rid hh'
    rw [← h.live ((liveT_iff s e).mpr hl)]
    unfold rcOf viewT waiterOf Rec.toWaiter
    simp only [c1, c2]
  · intro hd' v' hv' erc
    obtain ⟨y, hh', hl', ev, hh, hl, hrc, hmem⟩ := waiter_back Fk kt hv'
    cases hle : liveT s e with
    | false => exact h.dead hle _ hmem (hrc.trans erc)
    | true =>
      -- `y` is the entry's own record: then it is still live
      have hm1 : e.rid ∈ ((s.getKey e.key).wait.map (·.rid)).filter (fun z => !(s.getKey e.key).deadWaiter z) :=
        List.mem_filter.mpr ⟨kt.wq e.rid (hasRec_of_liveT hle) ((liveT_iff s e).mp hle), by unfold Key.deadWaiter; rw [(liveT_iff s e).mp hle]; rfl⟩
      have hm2 : y ∈ ((s.getKey e.key).wait.map (·.rid)).filter (fun z => !(s.getKey e.key).deadWaiter z) :=
        List.mem_filter.mpr ⟨kt.wq y hh hl, by unfold Key.deadWaiter; rw [hl]; rfl⟩
      rw [abs_waiters, List.map_map] at wu
      have : y = e.rid := nodup_map_inj _ _ wu hm2 hm1 (by
        show rcOf (waiterOf (s.getKey e.key) y) = rcOf (waiterOf (s.getKey e.key) e.rid)
        rw [hrc, erc]; exact (h.live hle).symm)
      subst this
      have : liveT s' e = true := (liveT_iff s' e).mpr hl'
      rw [this] at hd'; exact absurd hd' (by simp)

/-- **a sweep step on another entry that keeps the (RequestId, connection) pairs stage 1 sees under the key** keeps liveness and the view -/
theorem live_step {s s' : DB} {e0 e : Ent} (hne : eid e ≠ eid e0) (F : WFD e0.key e0.rid s' s)
    (kt : KT (s.getKey e.key)) (wu : ((Key.abs (s.getKey e.key)).waiters.map rcOf).Nodup)
    (hrc : (Key.abs (s'.getKey e.key)).waiters.map rcOf = (Key.abs (s.getKey e.key)).waiters.map rcOf) :
    liveT s' e = liveT s e ∧ (liveT s e = true → viewT s' e = viewT s e) := by
  have Fk := F e.key
  have hview : liveT s' e = true → viewT s' e = viewT s e := fun hl' =>
    Fk.lv e.rid (wfd_notX hne) (hasRec_of_liveT hl') ((liveT_iff s' e).mp hl')
  cases hle : liveT s e with
  | false =>
    refine ⟨?_, fun h => absurd h (by simp)⟩
    cases hle' : liveT s' e with
    | false => rfl
    | true =>
      have := Fk.nr e.rid (hasRec_of_liveT hle') ((liveT_iff s' e).mp hle')
      rw [(liveT_iff s e).mpr this] at hle; exact absurd hle (by simp)
  | true =>
    have hl := (liveT_iff s e).mp hle
    have hh := hasRec_of_liveT hle
    have hmem := live_mem_abs kt e.rid hh hl
    have : rcOf (waiterOf (s.getKey e.key) e.rid) ∈ (Key.abs (s'.getKey e.key)).waiters.map rcOf := by
      rw [hrc]; exact List.mem_map.mpr ⟨_, hmem, rfl⟩
    obtain ⟨v', hv', erc⟩ := List.mem_map.mp this
    obtain ⟨y, hh', hl', ev, hhy, hly, hrcy, _⟩ := waiter_back Fk kt hv'
    have hm1 : e.rid ∈ ((s.getKey e.key).wait.map (·.rid)).filter (fun z => !(s.getKey e.key).deadWaiter z) :=
      List.mem_filter.mpr ⟨kt.wq e.rid hh hl, by unfold Key.deadWaiter; rw [hl]; rfl⟩
    have hm2 : y ∈ ((s.getKey e.key).wait.map (·.rid)).filter (fun z => !(s.getKey e.key).deadWaiter z) :=
      List.mem_filter.mpr ⟨kt.wq y hhy hly, by unfold Key.deadWaiter; rw [hly]; rfl⟩
    rw [abs_waiters, List.map_map] at wu
    have : y = e.rid := nodup_map_inj _ _ wu hm2 hm1 (by
      show rcOf (waiterOf (s.getKey e.key) y) = rcOf (waiterOf (s.getKey e.key) e.rid)
      rw [hrcy, erc])
    subst this
    have hle' : liveT s' e = true := (liveT_iff s' e).mpr hl'
    exact ⟨hle', fun _ => hview hle'⟩

/-- the stage-1 facts about one key's view, from the stage-1 database the state is related to -/
theorem k1_of_eql {s : DB} {a : Engine.DB} {S : List WId} (sy : Sy s) (he : EqL S (Engine2.abs s) a) (h : I1 a) (key : Nat) : K1 (s.getKey key) := by
  have e : Key.abs (s.getKey key) = clrK S (a.getKey key) := (abs_getKey s sy.dbq.dbt.dbi.kn key).symm.trans (he.keys key)
  have hki := Engine.getKey_inv h.inv key
  refine ⟨?_, ?_, ?_, ?_, ?_⟩
  · rw [e]; exact ⟨hki.sum, hki.pos⟩
  · rw [e]
    intro hw hn
    have hw' : (a.getKey key).waited = true := hw
    apply h.fl.getKey key hw'
    have : (a.getKey key).waiters.map (clr S (a.getKey key).key) = [] := hn
    simpa using this
  · rw [e, clrK_waiters, List.map_map]
    have : (rcOf ∘ clr S (a.getKey key).key) = Engine.rcW := by
      funext v; show rcOf (clr S _ v) = _; unfold rcOf Engine.rcW; rw [clr_cmd, clr_conn]
    rw [this]
    exact Engine.getKey_wu h.s3.wu key
  · rw [e, clrK_waiters]
    intro w hw
    obtain ⟨v, hv, ev⟩ := List.mem_map.mp hw
    rw [← ev, clr_cmd]
    exact (h.kw key v (Engine.waitAt_getKey hv)).trans (getKey_key s key).symm
  · rw [e]
    intro x hx
    exact (h.kh key x (Engine.holdAt_getKey hx)).trans (getKey_key s key).symm

theorem k1_of_equiv {s : DB} {a : Engine.DB} (sy : Sy s) (he : Equiv (Engine2.abs s) a) (h : I1 a) (key : Nat) : K1 (s.getKey key) :=
  k1_of_eql sy (EqL.of_equiv he) h key

end Slock.SimTick
