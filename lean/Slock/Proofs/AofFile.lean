import Slock.Proofs.AofLoad
/-!
`loadFile` on truncations of a file produced by the writer: cuts at record boundaries (with any cut of the value file),
cuts inside the header, cuts inside a record.
-/
namespace Slock.Aof

theorem encodeRecs_append (a b : List Rec) : encodeRecs (a ++ b) = encodeRecs a ++ encodeRecs b := by
  simp [encodeRecs]

theorem headerBytes_length : headerBytes.length = 12 := by decide

theorem specK_congr (now : Int) (K K' : Option Rd → Bytes → List Rec × Stop × Bytes)
    (hK : ∀ d buf, OldOK buf → K d buf = K' d buf) :
    ∀ (recs : List Rec) (d : Option Rd) (buf : Bytes), (∀ x ∈ recs, WFBuf x.buf) → OldOK buf →
      specK now K recs d buf = specK now K' recs d buf
  | [], d, buf, _, hb => by simp [specK, hK d buf hb]
  | x :: rs, d, buf, hw, _ => by
    have hx := (hw x (by simp)).oldOK
    have ih := fun d' => specK_congr now K K' hK rs d' x.buf (fun y hy => hw y (by simp [hy])) hx
    simp only [specK]
    cases hasData x.buf with
    | true =>
      simp only [if_true]
      cases d with
      | none => rfl
      | some dr =>
        simp only
        cases readLockData dr with
        | none => rfl
        | some p => obtain ⟨blob, dr'⟩ := p; simp only [ih]
    | false => simp only [Bool.false_eq_true, if_false, ih]

theorem loadLoop_end (now : Int) (f : Nat) (r : Rd) (d : Option Rd) (buf : Bytes) (hi : r.Inv) (hs : r.s = []) :
    loadLoop now (f + 1) r d buf = ([], .fileEnd, buf) := by
  simp [loadLoop, readLock_eof r buf hi hs]

/-- The file starts with the complete records `pre`; what follows them is `tl`. `loadFile` = the record loop over `pre`,
then `loadLoop` on a reader positioned at `tl`. -/
theorem loadFile_records (cfg : Nat) (now : Int) (buf0 : Bytes) (pre : List Rec) (tl : Bytes) (dat : Option Bytes)
    (hw : ∀ x ∈ pre, WFBuf x.buf) (hb : OldOK buf0) :
    ∃ r', r'.s = tl ∧ r'.Inv ∧
      loadFile cfg now buf0 ⟨headerBytes ++ encodeRecs pre ++ tl, dat⟩ =
        specK now (fun d' buf' => loadLoop now (12 + 63 * pre.length + tl.length + 2) r' d' buf') pre
          (dat.map (Rd.open (bufioCap (fileBufSize cfg * 64)))) buf0 := by
  unfold loadFile
  simp only [List.append_assoc]
  obtain ⟨r, hr, hs, hi⟩ := readHeader_ok (bufioCap (fileBufSize cfg)) (encodeRecs pre ++ tl)
  simp only [hr]
  have hlen : (headerBytes ++ (encodeRecs pre ++ tl)).length = 12 + 64 * pre.length + tl.length := by
    simp only [List.length_append, headerBytes_length, encodeRecs_length pre hw]; omega
  obtain ⟨r', hs', _, hi', hl⟩ := loadLoop_records now pre r tl (12 + 64 * pre.length + tl.length + 2) hw hi hs (by omega)
  refine ⟨r', hs', hi', ?_⟩
  rw [hlen, hl _ buf0 hb]
  have : 12 + 64 * pre.length + tl.length + 2 - pre.length = 12 + 63 * pre.length + tl.length + 2 := by omega
  rw [this]

/-- Cut at a record boundary, value file cut anywhere: exactly the complete records whose values are complete, in order;
the start-up does not fail. -/
theorem loadFile_boundary (cfg : Nat) (now : Int) (buf0 : Bytes) (pre : List Rec) (dc : Nat)
    (hw : ∀ x ∈ pre, WFRec x) (hb : OldOK buf0) :
    (loadFile cfg now buf0 ⟨encodeFile pre, some ((encodeData pre).take dc)⟩).1 = live now (pre.take (valuePrefix pre dc)) ∧
    (loadFile cfg now buf0 ⟨encodeFile pre, some ((encodeData pre).take dc)⟩).2.1 =
      (if valuePrefix pre dc = pre.length then Stop.fileEnd else Stop.eof) := by
  have hwb : ∀ x ∈ pre, WFBuf x.buf := fun x hx => (hw x hx).1
  obtain ⟨r', hs', hi', hl⟩ := loadFile_records cfg now buf0 pre [] (some ((encodeData pre).take dc)) hwb hb
  have he : encodeFile pre = headerBytes ++ encodeRecs pre ++ [] := by simp [encodeFile]
  rw [he, hl]
  have hK : ∀ (d : Option Rd) (buf : Bytes), OldOK buf →
      (fun d' buf' => loadLoop now (12 + 63 * pre.length + ([] : Bytes).length + 2) r' d' buf') d buf = Kend d buf := by
    intro d buf _
    exact loadLoop_end now _ r' d buf hi' hs'
  rw [specK_congr now _ Kend hK pre _ buf0 hwb hb]
  exact specK_values now Kend Stop.fileEnd (fun _ _ _ => rfl) (fun _ _ _ => rfl) pre _ dc buf0 hw hb (Rd.open_inv _ _) rfl

/-- Cut inside the 12-byte header (1–11 bytes left): "no records", quietly — like the empty file. -/
theorem loadFile_header_cut (cfg : Nat) (now : Int) (buf0 f : Bytes) (dat : Option Bytes) (h0 : 0 < f.length) (h12 : f.length < 12) :
    loadFile cfg now buf0 ⟨f, dat⟩ = ([], Stop.eof, buf0) := by
  unfold loadFile
  simp [readHeader_short _ f h0 h12]

/-- Empty record file: nothing is loaded, quietly (io.EOF — `LoadAofFiles` also skips any files after it). -/
theorem loadFile_empty (cfg : Nat) (now : Int) (buf0 : Bytes) (dat : Option Bytes) :
    loadFile cfg now buf0 ⟨[], dat⟩ = ([], Stop.eof, buf0) := by
  unfold loadFile
  simp [readHeader_empty]

/-- Cut `res` bytes into record `x` (0 < res < 64), value file cut anywhere: the torn record ends the file like a clean end —
the delivered records are exactly the complete records whose values are complete, and the load does not fail. -/
theorem loadFile_torn_values (cfg : Nat) (now : Int) (buf0 : Bytes) (pre : List Rec) (x : Rec) (res dc : Nat)
    (hw : ∀ y ∈ pre, WFRec y) (hx : WFBuf x.buf) (hb : OldOK buf0) (h0 : 0 < res) (h64 : res < 64) :
    (loadFile cfg now buf0 ⟨headerBytes ++ encodeRecs pre ++ x.buf.take res, some ((encodeData pre).take dc)⟩).1 =
      live now (pre.take (valuePrefix pre dc)) ∧
    (loadFile cfg now buf0 ⟨headerBytes ++ encodeRecs pre ++ x.buf.take res, some ((encodeData pre).take dc)⟩).2.1 =
        (if valuePrefix pre dc = pre.length then Stop.fileEnd else Stop.eof) := by
  have hwb : ∀ y ∈ pre, WFBuf y.buf := fun y hy => (hw y hy).1
  obtain ⟨r', hs', hi', hl⟩ := loadFile_records cfg now buf0 pre (x.buf.take res) (some ((encodeData pre).take dc)) hwb hb
  rw [hl]
  obtain ⟨f, hf⟩ : ∃ f, 12 + 63 * pre.length + (x.buf.take res).length + 2 = f + 1 := ⟨_, rfl⟩
  rw [hf]
  have hK : ∀ (d : Option Rd) (b : Bytes), OldOK b → (loadLoop now (f + 1) r' d b).1 = [] ∧ (loadLoop now (f + 1) r' d b).2.1 = Stop.fileEnd := by
    intro d b hbo
    obtain ⟨b', hb'⟩ := readLock_torn r' x.buf res hi' hx h0 h64 hs' b hbo
    simp [loadLoop, hb']
  exact specK_values now _ Stop.fileEnd (fun d b hbo => (hK d b hbo).1) (fun d b hbo => (hK d b hbo).2) pre
    (Rd.open (bufioCap (fileBufSize cfg * 64)) ((encodeData pre).take dc)) dc buf0 hw hb (Rd.open_inv _ _) rfl

/-- `load` (one file, fresh buffer) in terms of `loadFile`. -/
theorem load_eq (cfg : Nat) (now : Int) (f d : Bytes) :
    (load cfg now f d).1 = (loadFile cfg now (zeros 64) ⟨f, some d⟩).1 ∧
    ((load cfg now f d).2 = true ↔ (loadFile cfg now (zeros 64) ⟨f, some d⟩).2.1 ≠ Stop.err) := by
  unfold load loadFiles loadFilesFrom
  generalize loadFile cfg now (zeros 64) ⟨f, some d⟩ = res
  obtain ⟨rs, st, b⟩ := res
  cases st <;> simp [loadFilesFrom]

end Slock.Aof
