import Slock.Proofs.Engine2TightTick
/-! Stage-2 engine: "nothing leaks" holds in every reachable state (`run_dbt`). -/
namespace Slock.Engine2

/-- the database invariant with the no-leak facts of every key record -/
structure DBT (db : DB) : Prop where
  dbi : DBI db
  tight : ∀ k ∈ db.keys, KeyTight k

theorem DBT.init (now aofTime : Nat) : DBT (DB.init now aofTime) := ⟨DBI.init now aofTime, by simp [DB.init]⟩

theorem others_of_fr {P : Key → Prop} {w w' : W} (h : ∀ k ∈ w.db.keys, k.key ≠ w.k.key → P k) (f : Fr w w') :
    ∀ k ∈ w'.db.keys, k.key ≠ w'.k.key → P k := by
  intro k hk hne
  rw [f.key] at hne
  rcases f.dbk with ⟨e, _, _⟩ | ⟨_, _, e, _⟩
  · rw [e] at hk; exact h k hk hne
  · rw [e] at hk; exact h k (List.mem_filter.mp hk).1 hne

theorem commit_tight {w : W} (hs : DBside w) (ho : ∀ k ∈ w.db.keys, k.key ≠ w.k.key → KeyTight k) (hk : w.gone = false → KeyTight w.k) :
    ∀ k ∈ w.commit.keys, KeyTight k := by
  unfold W.commit
  cases hg : w.gone with
  | true =>
    simp only [if_true]
    have habs := (hasKey_eq_false_iff w.db w.k.key).mp (hs.absent hg)
    exact fun k hkm => ho k hkm (habs k hkm)
  | false =>
    simp only [Bool.false_eq_true, if_false]
    have hp := hs.present hg
    unfold DB.setKey
    simp only [hp, if_true]
    intro k hkm
    simp only [List.mem_map] at hkm
    obtain ⟨x, hx, e⟩ := hkm
    by_cases hc : (x.key == w.k.key) = true
    · rw [if_pos hc] at e; rw [← e]; exact hk hg
    · rw [if_neg hc] at e; rw [← e]; exact ho x hx (by simpa using hc)

theorem Tight.toKeyTight {w : W} (t : Tight w) : w.gone = false → KeyTight w.k := fun hg => ⟨(t.good hg).nz.nz, t.set hg, t.cur hg⟩

theorem others_openKey {db : DB} (ht : ∀ k ∈ db.keys, KeyTight k) (n : Nat) :
    ∀ k ∈ (db.openKey n).db.keys, k.key ≠ (db.openKey n).k.key → KeyTight k := fun k hk _ => ht k hk

theorem others_enter {db : DB} (ht : ∀ k ∈ db.keys, KeyTight k) (n : Nat) :
    ∀ k ∈ (db.enter n).db.keys, k.key ≠ (db.enter n).k.key → KeyTight k := by
  intro k hk hne
  rw [enter_db] at hk
  rw [enter_k, getKey_key] at hne
  unfold DB.create at hk
  split at hk
  · exact ht k hk
  · rcases List.mem_append.mp hk with h1 | h1
    · exact ht k h1
    · simp at h1; rw [h1] at hne; exact absurd rfl hne

theorem others_lockBase {db : DB} (ht : ∀ k ∈ db.keys, KeyTight k) (c : Cmd) (b : LockBranch) :
    ∀ k ∈ (lockBase db c b).db.keys, k.key ≠ (lockBase db c b).k.key → KeyTight k := by
  cases b <;> first | exact others_openKey ht c.key | exact others_enter ht c.key

theorem opLock_dbt (db : DB) (h : DBT db) (c : Cmd) (data : Option Bytes) : DBT (opLock db c data).1 := by
  refine ⟨opLock_dbi db h.dbi c data, ?_⟩
  unfold opLock
  simp only []
  have hs := (DBside.lockBase h.dbi c (classifyLock db c data)).of_fr (applyLock_fr db c data _)
  have ho := others_of_fr (others_lockBase h.tight c (classifyLock db c data)) (applyLock_fr db c data _)
  have t := applyLock_tight db h.dbi h.tight c data (classifyLock db c data) (fun x hx => classifyLock_holder db c data x hx)
    (fun x hx => classifyLock_relock db c data x hx) (fun hx => classifyLock_uwr db c data hx)
    (fun x hx => classifyLock_update_depth db c data x hx (cur_getKey h.tight c.key))
  exact commit_tight hs ho t.toKeyTight

theorem opUnlock_dbt (db : DB) (h : DBT db) (c : Cmd) (data : Option Bytes) : DBT (opUnlock db c data).1 := by
  refine ⟨opUnlock_dbi db h.dbi c data, ?_⟩
  unfold opUnlock
  simp only []
  have hs := (h.dbi.openKey c.key).of_fr (applyUnlock_fr db c data (classifyUnlock db c))
  have ho := others_of_fr (others_openKey h.tight c.key) (applyUnlock_fr db c data (classifyUnlock db c))
  have t := applyUnlock_tight db h.dbi h.tight c data (classifyUnlock db c) (fun x hx => classifyUnlock_holder db c x hx)
    (fun x hx => classifyUnlock_cancel db c x hx) (fun x c' hx => classifyUnlock_dec_depth db c c' x hx)
    (fun x c' hx => classifyUnlock_release_depth db c c' x hx (cur_getKey h.tight c.key))
  exact commit_tight hs ho t.toKeyTight

/-! ### timer sweeps -/

/-- a step on an opened key record: nothing to show if there is no such record -/
theorem tight_of_open {db : DB} (h : DBT db) (key : Nat) (w' : W) (f : Fr (db.openKey key) w')
    (hstep : Good (db.openKey key) → CurLive (db.openKey key).k → (db.openKey key).k.recs ≠ [] → Tight w') : Tight w' := by
  cases hg : (db.openKey key).gone with
  | true =>
    have := f.gone hg
    exact ⟨fun h' => by rw [this] at h'; exact absurd h' (by simp), fun h' => by rw [this] at h'; exact absurd h' (by simp),
      fun h' => by rw [this] at h'; exact absurd h' (by simp)⟩
  | false => exact hstep (Good.openKey h.dbi h.tight key) (cur_openKey h.tight key) (settled_openKey h.tight key hg)

theorem DBT.stepW {db : DB} (h : DBT db) (key : Nat) (w' : W) (f : Fr (db.openKey key) w') (hl : LvG w' zero) (t : Tight w') : DBT w'.commit :=
  ⟨h.dbi.stepW key w' f hl, commit_tight ((h.dbi.openKey key).of_fr f) (others_of_fr (others_openKey h.tight key) f) t.toKeyTight⟩

theorem timeoutStep_dbt (slot : Bool) (acc : DB × List Ent) (e : Ent) (h : DBT acc.1) : DBT (timeoutStep slot acc e).1 := by
  unfold timeoutStep
  split
  · rename_i w hw
    have f := W.visitTimeout_fr _ _ _ _ hw
    exact h.stepW e.key w f (LvG.visitTimeout (Lv.openKey h.dbi e.key) slot e.rid w hw)
      (tight_of_open h e.key w f (fun g cl hne => tight_visitTimeout g cl hne slot e.rid w hw))
  · cases slot
    · exact h.stepW e.key _ (W.collectT_fr _ _) (LvG.of_lv ((Lv.openKey h.dbi e.key).collectT e.rid))
        (tight_of_open h e.key _ (W.collectT_fr _ _) (fun g cl hne => tight_collectT g cl hne e.rid))
    · exact h

theorem expireStep_dbt (slot : Bool) (acc : DB × List Ent) (e : Ent) (h : DBT acc.1) : DBT (expireStep slot acc e).1 := by
  unfold expireStep
  split
  · rename_i w hw
    have f := W.visitExpire_fr _ _ _ _ hw
    exact h.stepW e.key w f (LvG.visitExpire (Lv.openKey h.dbi e.key) slot e.rid w hw)
      (tight_of_open h e.key w f (fun g cl hne => tight_visitExpire g cl hne slot e.rid w hw))
  · exact h

theorem fireTimeoutStep_dbt (acc : DB × List Reply) (e : Ent) (h : DBT acc.1) : DBT (fireTimeoutStep acc e).1 := by
  unfold fireTimeoutStep fireTimeout
  exact h.stepW e.key _ (W.fireTimeout_fr _ _) (LvG.fireTimeout (Lv.openKey h.dbi e.key) e.rid)
    (tight_of_open h e.key _ (W.fireTimeout_fr _ _) (fun g cl hne => tight_fireTimeout g cl hne e.rid))

theorem fireExpireStep_dbt (acc : DB × List Reply) (e : Ent) (h : DBT acc.1) : DBT (fireExpireStep acc e).1 := by
  unfold fireExpireStep fireExpire
  exact h.stepW e.key _ (W.fireExpire_fr _ _) (LvG.fireExpire (Lv.openKey h.dbi e.key) e.rid)
    (tight_of_open h e.key _ (W.fireExpire_fr _ _) (fun g cl hne => tight_fireExpire g cl hne e.rid))

theorem foldl_dbt {α β} (f : DB × β → α → DB × β) (hf : ∀ acc a, DBT acc.1 → DBT (f acc a).1)
    (l : List α) (acc : DB × β) (h : DBT acc.1) : DBT (l.foldl f acc).1 := by
  induction l generalizing acc with
  | nil => exact h
  | cons a as ih => simp only [List.foldl_cons]; exact ih _ (hf acc a h)

theorem sweepTimeout_dbt (db : DB) (c : Nat) (h : DBT db) : DBT (sweepTimeout db c).1 := by
  unfold sweepTimeout
  simp only []
  refine foldl_dbt _ fireTimeoutStep_dbt _ _ ?_
  exact foldl_dbt _ (timeoutStep_dbt false) _ _ (foldl_dbt _ (timeoutStep_dbt true) _ (db, []) h)

theorem sweepExpire_dbt (db : DB) (c : Nat) (h : DBT db) : DBT (sweepExpire db c).1 := by
  unfold sweepExpire
  simp only []
  refine foldl_dbt _ fireExpireStep_dbt _ _ ?_
  exact foldl_dbt _ (expireStep_dbt false) _ _ (foldl_dbt _ (expireStep_dbt true) _ (db, []) h)

theorem DBT.of_keys {db db' : DB} (h : DBT db) (h1 : db'.keys = db.keys) (h2 : db'.keyCount = db.keyCount) (h3 : db'.nextRid = db.nextRid) :
    DBT db' := ⟨h.dbi.of_keys h1 h2 h3, by rw [h1]; exact h.tight⟩

theorem opTick_dbt (db : DB) (h : DBT db) : DBT (opTick db).1 := by
  unfold opTick
  simp only []
  apply sweepExpire_dbt
  refine DBT.of_keys (db := (sweepTimeout { db with now := db.now + 1, tCheck := db.now + 1 + 1 } (db.now + 1)).1) ?_ rfl rfl rfl
  exact sweepTimeout_dbt _ _ (h.of_keys rfl rfl rfl)

theorem step_dbt (db : DB) (o : Op) (h : DBT db) : DBT (step db o).1 := by
  cases o with
  | lock c d => exact opLock_dbt db h c d
  | unlock c d => exact opUnlock_dbt db h c d
  | tick => exact opTick_dbt db h
  | setLeader b => exact h.of_keys rfl rfl rfl

/-- **every reachable state: counts exact, no record at count 0, no key record without a lock record** -/
theorem run_dbt (db : DB) (ops : List Op) (h : DBT db) : DBT (run db ops) := by
  induction ops generalizing db with
  | nil => exact h
  | cons o os ih => unfold run; simp only [List.foldl_cons]; exact ih _ (step_dbt db o h)

end Slock.Engine2
