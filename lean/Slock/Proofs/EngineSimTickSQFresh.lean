import Slock.Proofs.EngineSimTickSQ
import Slock.Proofs.EngineSimWU
/-! Stage 1 (M-ENGINE), wheel sequence numbers: the "fresh" relation between the state of ONE key before and after a step while the
database's counter goes `s ↦ s'` — every sequence number found afterwards was there before or lies in `[s, s')`, and distinctness is kept —
and the generic closing lemma `SQ.store`. Sequence numbers, not records, are compared: `updateHold` keeps a hold's number while changing
the record. -/
namespace Slock.SimTick
open Slock Slock.Engine

/-! ### lists of sequence numbers -/

structure FreshL (s s' : Nat) (l l' : List Nat) : Prop where
  mem : ∀ a ∈ l', a ∈ l ∨ (s ≤ a ∧ a < s')
  nd : l.Nodup → (∀ a ∈ l, a < s) → l'.Nodup

theorem FreshL.refl (s s' : Nat) (l : List Nat) : FreshL s s' l l := ⟨fun _ h => Or.inl h, fun h _ => h⟩

theorem FreshL.of_eq {s s' : Nat} {l l' : List Nat} (e : l' = l) : FreshL s s' l l' := e ▸ FreshL.refl s s' l

theorem FreshL.of_sublist {s s' : Nat} {l l' : List Nat} (h : l'.Sublist l) : FreshL s s' l l' :=
  ⟨fun _ ha => Or.inl (h.subset ha), fun hn _ => h.nodup hn⟩

theorem FreshL.trans {s s' s'' : Nat} {l l' l'' : List Nat} (h1 : FreshL s s' l l') (h2 : FreshL s' s'' l' l'')
    (le1 : s ≤ s') (le2 : s' ≤ s'') : FreshL s s'' l l'' := by
  refine ⟨?_, ?_⟩
  · intro a ha
    rcases h2.mem a ha with h | ⟨h, h'⟩
    · rcases h1.mem a h with g | ⟨g, g'⟩
      · exact Or.inl g
      · exact Or.inr ⟨g, by omega⟩
    · exact Or.inr ⟨by omega, h'⟩
  · intro hn hlt
    apply h2.nd (h1.nd hn hlt)
    intro a ha
    rcases h1.mem a ha with g | ⟨_, g'⟩
    · have := hlt a g; omega
    · exact g'

/-- one new number, the current counter, appended -/
theorem FreshL.snoc (s : Nat) (l : List Nat) : FreshL s (s + 1) l (l ++ [s]) := by
  refine ⟨?_, ?_⟩
  · intro a ha
    rcases List.mem_append.mp ha with h | h
    · exact Or.inl h
    · simp at h; exact Or.inr ⟨by omega, by omega⟩
  · intro hn hlt
    rw [List.nodup_append]
    refine ⟨hn, by simp, ?_⟩
    intro a ha b hb
    simp at hb; have := hlt a ha; omega

/-- one new number, the current counter, put somewhere -/
theorem FreshL.of_perm {s : Nat} {l l' : List Nat} (h : l'.Perm (s :: l)) : FreshL s (s + 1) l l' := by
  refine ⟨?_, ?_⟩
  · intro a ha
    rcases List.mem_cons.mp (h.mem_iff.mp ha) with e | e
    · exact Or.inr ⟨by omega, by omega⟩
    · exact Or.inl e
  · intro hn hlt
    rw [h.nodup_iff, List.nodup_cons]
    refine ⟨fun hm => ?_, hn⟩
    have := hlt s hm; omega

/-! ### one key -/

structure Fresh (s s' : Nat) (k k' : Key) : Prop where
  le : s ≤ s'
  w : FreshL s s' (k.waiters.map seqW) (k'.waiters.map seqW)
  h : FreshL s s' (k.holders.map seqH) (k'.holders.map seqH)

theorem Fresh.refl (s : Nat) (k : Key) : Fresh s s k k := ⟨Nat.le_refl _, FreshL.refl _ _ _, FreshL.refl _ _ _⟩

theorem Fresh.trans {s s' s'' : Nat} {k k' k'' : Key} (h1 : Fresh s s' k k') (h2 : Fresh s' s'' k' k'') : Fresh s s'' k k'' :=
  ⟨Nat.le_trans h1.le h2.le, h1.w.trans h2.w h1.le h2.le, h1.h.trans h2.h h1.le h2.le⟩

/-- the lists are the same or shorter, the counter the same -/
theorem Fresh.of_sublist {s : Nat} {k k' : Key} (hw : k'.waiters.Sublist k.waiters) (hh : k'.holders.Sublist k.holders) : Fresh s s k k' :=
  ⟨Nat.le_refl _, FreshL.of_sublist (hw.map _), FreshL.of_sublist (hh.map _)⟩

/-! ### closing: what `SQ` needs of a stored key -/

theorem SQ.store {db db1 : DB} {k' : Key} {m : Nat} (h : SQ db) (hf : Fresh db.seq db1.seq (db.getKey m) k')
    (hm : k'.key = m) (e : db1.keys = db.keys) : SQ (db1.setKey k') := by
  have pw : ∀ n w, WaitAt (db1.setKey k') n w →
      (∃ w0, WaitAt db n w0 ∧ seqW w0 = seqW w) ∨ (n = m ∧ db.seq ≤ seqW w ∧ seqW w < db1.seq) := by
    intro n w hw
    rcases waitAt_store (db0 := db) (m := m) hw e hm with ⟨_, h1⟩ | ⟨hn, h1⟩
    · exact Or.inl ⟨w, h1, rfl⟩
    · rcases hf.w.mem (seqW w) (List.mem_map.mpr ⟨w, h1, rfl⟩) with h2 | h2
      · obtain ⟨w0, hw0, e0⟩ := List.mem_map.mp h2
        exact Or.inl ⟨w0, hn ▸ waitAt_getKey hw0, e0⟩
      · exact Or.inr ⟨hn, h2⟩
  have ph : ∀ n x, HoldAt (db1.setKey k') n x →
      (∃ x0, HoldAt db n x0 ∧ seqH x0 = seqH x) ∨ (n = m ∧ db.seq ≤ seqH x ∧ seqH x < db1.seq) := by
    intro n x hx
    rcases holdAt_store (db0 := db) (m := m) hx e hm with ⟨_, h1⟩ | ⟨hn, h1⟩
    · exact Or.inl ⟨x, h1, rfl⟩
    · rcases hf.h.mem (seqH x) (List.mem_map.mpr ⟨x, h1, rfl⟩) with h2 | h2
      · obtain ⟨x0, hx0, e0⟩ := List.mem_map.mp h2
        exact Or.inl ⟨x0, hn ▸ holdAt_getKey hx0, e0⟩
      · exact Or.inr ⟨hn, h2⟩
  have hle := hf.le
  have es : (db1.setKey k').seq = db1.seq := rfl
  refine ⟨?_, ?_, ?_, ?_, ?_, ?_⟩
  · intro n w hw
    rw [es]
    rcases pw n w hw with ⟨w0, h0, e0⟩ | ⟨_, _, h2⟩
    · have := h.wlt n w0 h0; omega
    · exact h2
  · intro n x hx
    rw [es]
    rcases ph n x hx with ⟨x0, h0, e0⟩ | ⟨_, _, h2⟩
    · have := h.hlt n x0 h0; omega
    · exact h2
  · intro k hkm
    rcases mem_setKey_keys hkm with ⟨h1, _⟩ | h1
    · rw [e] at h1; exact h.wnd k h1
    · rw [h1]
      apply hf.w.nd
      · rcases getKey_mem_or_empty db m with h2 | h2
        · exact h.wnd _ h2
        · rw [h2]; simp [emptyKey]
      · intro a ha
        obtain ⟨w0, hw0, e0⟩ := List.mem_map.mp ha
        rw [← e0]; exact h.wlt m w0 (waitAt_getKey hw0)
  · intro k hkm
    rcases mem_setKey_keys hkm with ⟨h1, _⟩ | h1
    · rw [e] at h1; exact h.hnd k h1
    · rw [h1]
      apply hf.h.nd
      · rcases getKey_mem_or_empty db m with h2 | h2
        · exact h.hnd _ h2
        · rw [h2]; simp [emptyKey]
      · intro a ha
        obtain ⟨x0, hx0, e0⟩ := List.mem_map.mp ha
        rw [← e0]; exact h.hlt m x0 (holdAt_getKey hx0)
  · intro n n' w w' hne hw hw'
    rcases pw n w hw with ⟨w0, h0, e0⟩ | ⟨hn, h1, _⟩ <;> rcases pw n' w' hw' with ⟨w0', h0', e0'⟩ | ⟨hn', h1', _⟩
    · rw [← e0, ← e0']; exact h.wx n n' w0 w0' hne h0 h0'
    · have := h.wlt n w0 h0; omega
    · have := h.wlt n' w0' h0'; omega
    · exact absurd (hn.trans hn'.symm) hne
  · intro n n' x x' hne hx hx'
    rcases ph n x hx with ⟨x0, h0, e0⟩ | ⟨hn, h1, _⟩ <;> rcases ph n' x' hx' with ⟨x0', h0', e0'⟩ | ⟨hn', h1', _⟩
    · rw [← e0, ← e0']; exact h.hx n n' x0 x0' hne h0 h0'
    · have := h.hlt n x0 h0; omega
    · have := h.hlt n' x0' h0'; omega
    · exact absurd (hn.trans hn'.symm) hne

/-! ### the elementary steps -/

theorem wheelAdd_seq (check seq d n : Nat) : (wheelAdd check seq d n).2.seq = seq := by
  unfold wheelAdd; split <;> rfl

theorem seqH_grantedHold (db : DB) (c : Cmd) : seqH (grantedHold db c) = db.seq := by
  unfold seqH grantedHold; exact wheelAdd_seq _ _ _ _

theorem seqW_newWaiter (db : DB) (c : Cmd) : seqW (newWaiter db c) = db.seq := by
  unfold seqW newWaiter; exact wheelAdd_seq _ _ _ _

theorem seqW_rearmed (db : DB) (w : Waiter) : seqW (rearmed db w) = db.seq := by
  unfold seqW rearmed; exact wheelAdd_seq _ _ _ _

theorem seqH_rearmedH (db : DB) (x : Hold) : seqH (rearmedH db x) = db.seq := by
  unfold seqH rearmedH; exact wheelAdd_seq _ _ _ _

theorem fresh_grantHold (db : DB) (k : Key) (c : Cmd) : Fresh db.seq (grantHold db k c).1.seq k (grantHold db k c).2 := by
  refine ⟨by rw [grantHold_seq]; omega, FreshL.refl _ _ _, ?_⟩
  rw [grantHold_holders_eq, grantHold_seq, List.map_append, List.map_singleton, seqH_grantedHold]
  exact FreshL.snoc _ _

theorem removeHolder_sublist (hs : List Hold) (h : Hold) : (removeHolder hs h).Sublist hs := by
  induction hs with
  | nil => exact List.Sublist.refl _
  | cons x rest ih =>
    unfold removeHolder
    split
    · exact List.sublist_cons_self _ _
    · exact ih.cons_cons _

theorem replaceHolder_map_same {hs : List Hold} {h h' : Hold} (e : seqH h' = seqH h) :
    (replaceHolder hs h h').map seqH = hs.map seqH := by
  induction hs with
  | nil => rfl
  | cons x rest ih =>
    unfold replaceHolder
    split
    · rename_i hx; rw [hx, List.map_cons, List.map_cons, e]
    · rw [List.map_cons, List.map_cons, ih]

/-- the replaced record gets the current counter as its number -/
theorem replaceHolder_freshL {s : Nat} (hs : List Hold) (h h' : Hold) (e : seqH h' = s) :
    FreshL s (s + 1) (hs.map seqH) ((replaceHolder hs h h').map seqH) := by
  induction hs with
  | nil => exact FreshL.refl _ _ _
  | cons x rest ih =>
    unfold replaceHolder
    split
    · refine ⟨?_, ?_⟩
      · intro a ha
        rw [List.map_cons] at ha
        rcases List.mem_cons.mp ha with h1 | h1
        · exact Or.inr ⟨by omega, by omega⟩
        · exact Or.inl (by rw [List.map_cons]; exact List.mem_cons_of_mem _ h1)
      · intro hn hlt
        rw [List.map_cons, List.nodup_cons] at hn
        rw [List.map_cons, List.nodup_cons]
        refine ⟨fun hm => ?_, hn.2⟩
        have := hlt (seqH h') (by rw [List.map_cons]; exact List.mem_cons_of_mem _ hm); omega
    · refine ⟨?_, ?_⟩
      · intro a ha
        rw [List.map_cons] at ha
        rcases List.mem_cons.mp ha with h1 | h1
        · exact Or.inl (by rw [List.map_cons, h1]; exact List.mem_cons_self)
        · rcases ih.mem a h1 with h2 | h2
          · exact Or.inl (by rw [List.map_cons]; exact List.mem_cons_of_mem _ h2)
          · exact Or.inr h2
      · intro hn hlt
        rw [List.map_cons, List.nodup_cons] at hn
        have hlt' : ∀ a ∈ rest.map seqH, a < s := fun a ha => hlt a (by rw [List.map_cons]; exact List.mem_cons_of_mem _ ha)
        rw [List.map_cons, List.nodup_cons]
        refine ⟨fun hm => ?_, ih.nd hn.2 hlt'⟩
        rcases ih.mem _ hm with h2 | h2
        · exact hn.1 h2
        · have := hlt (seqH x) (by rw [List.map_cons]; exact List.mem_cons_self); omega

/-- `updateHold` keeps the record's number, or gives it the current counter and increments the counter -/
theorem updateHold_seq_cases (db : DB) (h : Hold) (c : Cmd) :
    ((updateHold db h c).1.seq = db.seq ∧ seqH (updateHold db h c).2 = seqH h) ∨
    ((updateHold db h c).1.seq = db.seq + 1 ∧ seqH (updateHold db h c).2 = db.seq) := by
  unfold updateHold
  split
  · exact Or.inl ⟨rfl, rfl⟩
  · simp only []
    split
    · split
      · exact Or.inr ⟨rfl, wheelAdd_seq _ _ _ _⟩
      · exact Or.inl ⟨rfl, rfl⟩
    · exact Or.inl ⟨rfl, rfl⟩

/-- the `update` / `relock` branches: hold `h` of `k` replaced by `updateHold` of (a copy with the same number of) `h` -/
theorem fresh_updateHold (db : DB) (k k' : Key) (h h0 : Hold) (c : Cmd) (e : seqH h0 = seqH h)
    (hw : k'.waiters = k.waiters) (hh : k'.holders = replaceHolder k.holders h (updateHold db h0 c).2) :
    Fresh db.seq (updateHold db h0 c).1.seq k k' := by
  rcases updateHold_seq_cases db h0 c with ⟨e1, e2⟩ | ⟨e1, e2⟩
  · rw [e1]
    exact ⟨Nat.le_refl _, FreshL.of_eq (by rw [hw]), FreshL.of_eq (by rw [hh, replaceHolder_map_same (e2.trans e)])⟩
  · rw [e1]
    exact ⟨Nat.le_succ _, FreshL.of_eq (by rw [hw]), by rw [hh]; exact replaceHolder_freshL _ _ _ e2⟩

/-- a record replaced by a copy with the same number (the `dec` branch) -/
theorem fresh_replace_same {s : Nat} (k k' : Key) (h h' : Hold) (e : seqH h' = seqH h)
    (hw : k'.waiters = k.waiters) (hh : k'.holders = replaceHolder k.holders h h') : Fresh s s k k' :=
  ⟨Nat.le_refl _, FreshL.of_eq (by rw [hw]), FreshL.of_eq (by rw [hh, replaceHolder_map_same e])⟩

theorem insertWaiter_perm (ws : List Waiter) (w : Waiter) : (insertWaiter ws w).Perm (w :: ws) := by
  induction ws with
  | nil => exact List.Perm.refl _
  | cons x xs ih =>
    unfold insertWaiter
    split
    · exact List.Perm.refl _
    · exact (ih.cons x).trans (List.Perm.swap _ _ _)

/-- the `queue` branch -/
theorem fresh_insertWaiter {s : Nat} (k k' : Key) (w : Waiter) (e : seqW w = s)
    (hw : k'.waiters = insertWaiter k.waiters w) (hh : k'.holders = k.holders) : Fresh s (s + 1) k k' := by
  refine ⟨Nat.le_succ _, ?_, FreshL.of_eq (by rw [hh])⟩
  rw [hw]
  apply FreshL.of_perm
  have := (insertWaiter_perm k.waiters w).map seqW
  rw [List.map_cons, e] at this
  exact this

/-! ### the wake pass -/

theorem fresh_wakeIter {db : DB} {k : Key} {db' : DB} {k' : Key} {r : Reply} (h : wakeIter db k = some (db', k', r)) :
    Fresh db.seq db'.seq k k' := by
  obtain ⟨w, rest, e1, _, e2, _, _, _, _, hh⟩ := wakeIter_spec h
  have hw : ∀ s', FreshL db.seq s' (k.waiters.map seqW) (k'.waiters.map seqW) := by
    intro s'
    apply FreshL.of_sublist
    rw [e1, e2]; exact (List.sublist_cons_self _ _).map _
  rcases hh with ⟨h1, _, h2⟩ | ⟨h1, _, h2⟩
  · rw [h2]
    refine ⟨Nat.le_succ _, hw _, ?_⟩
    rw [h1, List.map_append, List.map_singleton, seqH_grantedHold]
    exact FreshL.snoc _ _
  · rw [h2]
    exact ⟨Nat.le_refl _, hw _, FreshL.of_eq (by rw [h1])⟩

theorem fresh_wake (db : DB) (k : Key) (out : List Reply) : Fresh db.seq (wake db k out).1.seq k (wake db k out).2.1 := by
  apply wake_ind (fun d q => Fresh db.seq d.seq k q)
  · intro d q d' q' r hp hw
    exact hp.trans (fresh_wakeIter hw)
  · intro d q hp; exact ⟨hp.le, hp.w, hp.h⟩
  · exact Fresh.refl _ _

/-- a step on the key of `m`, then the wake pass, then the store -/
theorem SQ.wake_store {db db1 : DB} {k1 : Key} {m : Nat} (out : List Reply) (h : SQ db)
    (hf : Fresh db.seq db1.seq (db.getKey m) k1) (hm : k1.key = m) (e : db1.keys = db.keys) :
    SQ ((wake db1 k1 out).1.setKey (wake db1 k1 out).2.1) :=
  SQ.store h (hf.trans (fresh_wake db1 k1 out)) (by rw [wake_key, hm]) (by rw [wake_keys, e])

end Slock.SimTick
