import Slock.Model.Engine
import Slock.Gen.Kernels
/-!
G3 tie: the decision kernels REGENERATED from /repo's Go source on every run (`Slock.Gen.K.*`, translated statement by
statement by go/extract/kernels_impl.go) compute the same function as the kernels M-ENGINE uses. A source edit that changes
what `doLock` / `CheckLockedEqual` / `checkLockedCountEqual` compute regenerates a different definition and breaks these
proofs; an edit that merely reorders usually re-proves.
-/
namespace Slock.Engine
open Slock.Gen

/-- `LockDB.doLock` (core subset: the less-lock-version flag 0x4000 is clear). -/
theorem doLock_eq_generated (k : Key) (c : Cmd) (cur : Hold)
    (hcur : k.locked = 0 ∨ k.holders.head? = some cur) (hflag : c.tflag &&& 16384 = 0) (v : Int) :
    doLock k c = K.doLock k.locked cur.cmd.count c.count c.tflag v := by
  unfold doLock K.doLock
  by_cases h0 : k.locked = 0
  · simp [h0]
  · have hh : k.holders.head? = some cur := by
      rcases hcur with h | h
      · exact absurd h h0
      · exact h
    simp only [beq_iff_eq, h0, if_false, hh, hflag]
    by_cases hc : c.count = 0
    · simp [hc]
    · simp only [hc, if_false]
      by_cases h1 : k.locked ≥ 0xffff
      · by_cases h2 : k.locked ≥ 0x7fffffff
        · simp [h1, h2]
        · by_cases h3 : cur.cmd.count = 65535 <;> by_cases h4 : c.count = 65535 <;> simp [h1, h2, h3, h4]
      · by_cases h3 : k.locked ≤ cur.cmd.count <;> by_cases h4 : k.locked ≤ c.count <;> simp [h1, h3, h4]

theorem and16 (x : Nat) : x &&& 16 = 0 ∨ x &&& 16 = 16 := by
  cases hb : x.testBit 4
  · left
    apply Nat.eq_of_testBit_eq
    intro i
    rw [Nat.testBit_and, show (16:Nat) = 2^4 from rfl, Nat.testBit_two_pow]
    by_cases hi : 4 = i
    · subst hi; simp [hb]
    · simp [hi]
  · right
    apply Nat.eq_of_testBit_eq
    intro i
    rw [Nat.testBit_and, show (16:Nat) = 2^4 from rfl, Nat.testBit_two_pow]
    by_cases hi : 4 = i
    · subst hi; simp [hb]
    · simp [hi]

/-- `LockManager.checkLockedCountEqual`. -/
theorem countEqual_eq_generated (h : Hold) (c : Cmd) :
    (c.count == h.cmd.count && c.rcount == h.cmd.rcount && (has c.tflag TF_PRIORITY == has h.cmd.tflag TF_PRIORITY)) =
      K.checkLockedCountEqual c.count c.rcount c.tflag h.cmd.count h.cmd.rcount h.cmd.tflag := by
  unfold K.checkLockedCountEqual has TF_PRIORITY
  by_cases h1 : c.count = h.cmd.count <;> by_cases h2 : c.rcount = h.cmd.rcount <;> simp [h1, h2]
  -- remaining: the priority bit compared as a flag vs compared as a masked number
  all_goals (rcases and16 c.tflag with a | a <;> rcases and16 h.cmd.tflag with b | b <;> simp [a, b])

/-- `LockManager.CheckLockedEqual` for second / minute units (millisecond flag 0x0400 clear). -/
theorem checkLockedEqual_eq_generated (now : Nat) (h : Hold) (c : Cmd) (hms : c.eflag &&& 1024 = 0) :
    checkLockedEqual now h c =
      K.checkLockedEqual now h.expT c.eflag c.expried
        (K.checkLockedCountEqual c.count c.rcount c.tflag h.cmd.count h.cmd.rcount h.cmd.tflag) := by
  rw [← countEqual_eq_generated]
  unfold checkLockedEqual K.checkLockedEqual has EF_UNLIMITED EF_MINUTE INF_TIME absDiff
  simp only [hms]
  by_cases hu : c.eflag &&& 16384 = 0
  · by_cases hm : c.eflag &&& 64 = 0
    · simp only [hu, hm, bne_self_eq_false, Bool.false_eq_true, if_false, beq_self_eq_true, if_true]
      by_cases hg : now + c.expried + 1 > h.expT
      · have hg' : ((now : Int) + (c.expried : Int) + 1 > (h.expT : Int)) := by omega
        simp only [hg, hg', if_true, decide_true]
        congr 1
        by_cases hd : now + c.expried + 1 - h.expT ≤ 1
        · have : ((now : Int) + c.expried + 1 - h.expT ≤ 1) := by omega
          simp [hd, this]
        · have : ¬ ((now : Int) + c.expried + 1 - h.expT ≤ 1) := by omega
          simp [hd, this]
      · have hg' : ¬ ((now : Int) + (c.expried : Int) + 1 > (h.expT : Int)) := by omega
        simp only [hg, hg', if_false, decide_false]
        congr 1
        by_cases hd : h.expT - (now + c.expried + 1) ≤ 1
        · have : ((h.expT : Int) - (now + c.expried + 1) ≤ 1) := by omega
          simp [hd, this]
        · have : ¬ ((h.expT : Int) - (now + c.expried + 1) ≤ 1) := by omega
          simp [hd, this]
    · have hm' : (c.eflag &&& 64 != 0) = true := by simpa using hm
      simp only [hu, hm', bne_self_eq_false, Bool.false_eq_true, if_false, beq_self_eq_true, if_true]
      by_cases hg : now + c.expried * 60 + 1 > h.expT
      · have hg' : ((now : Int) + (c.expried : Int) * 60 + 1 > (h.expT : Int)) := by omega
        simp only [hg, hg', if_true, decide_true]
        congr 1
        by_cases hd : now + c.expried * 60 + 1 - h.expT ≤ 60
        · have : ((now : Int) + c.expried * 60 + 1 - h.expT ≤ 60) := by omega
          simp [hd, this]
        · have : ¬ ((now : Int) + c.expried * 60 + 1 - h.expT ≤ 60) := by omega
          simp [hd, this]
      · have hg' : ¬ ((now : Int) + (c.expried : Int) * 60 + 1 > (h.expT : Int)) := by omega
        simp only [hg, hg', if_false, decide_false]
        congr 1
        by_cases hd : h.expT - (now + c.expried * 60 + 1) ≤ 60
        · have : ((h.expT : Int) - (now + c.expried * 60 + 1) ≤ 60) := by omega
          simp [hd, this]
        · have : ¬ ((h.expT : Int) - (now + c.expried * 60 + 1) ≤ 60) := by omega
          simp [hd, this]
  · have hu' : (c.eflag &&& 16384 != 0) = true := by simpa using hu
    simp only [hu', if_true]
    by_cases he : c.expried = 65535
    · simp [he]
    · have : (c.expried == 65535) = false := by simpa using he
      simp only [this, Bool.false_eq_true, if_false]
      by_cases hx : h.expT = 9223372036854775807
      · simp [hx]
      · have hx' : ¬ ((h.expT : Int) = 9223372036854775807) := by omega
        have e1 : (h.expT == 9223372036854775807) = false := by simpa using hx
        have e2 : ((h.expT : Int) == 9223372036854775807) = false := by simpa using hx'
        simp [e1, e2]

end Slock.Engine

/-! ### deadline formulas (fragment kernels)

Every place in the Go source that computes an expiry or a wait deadline from a command is regenerated (`K.expAddLock`,
`K.expUpdate`, `K.expNew`, `K.expAck`, `K.toUpdate`, `K.toNew`; uint16 arithmetic wraps in the translation exactly as in Go) and
proved equal to the one formula M-ENGINE uses, for second / minute / unlimited units (millisecond flag 0x0400 clear). -/
namespace Slock.Engine
open Slock.Gen

theorem has_ne (x m : Nat) : ((x &&& m) != 0) = has x m := by
  unfold has; rfl

theorem expDeadline_generated (now : Nat) (c : Cmd) (hms : c.eflag &&& 1024 = 0) :
    K.expAddLock now c.eflag c.expried = (expiryDeadline now c : Int) := by
  unfold K.expAddLock expiryDeadline has EF_UNLIMITED EF_MINUTE INF_TIME
  simp only [hms]
  by_cases hu : c.eflag &&& 16384 = 0
  · by_cases hm : c.eflag &&& 64 = 0
    · simp [hu, hm]
    · simp [hu, hm]
  · simp [hu]

/-- the five copies of the expiry formula agree (AddLock, UpdateLockedLock, GetOrNewLock, DoAckLock) -/
theorem exp_copies_agree (s : Int) (f e : Nat) :
    K.expUpdate s f e = K.expAddLock s f e ∧ K.expNew s f e = K.expAddLock s f e ∧ K.expAck s f e = K.expAddLock s f e :=
  ⟨rfl, rfl, rfl⟩

theorem toDeadline_generated (now : Nat) (c : Cmd) (hms : c.tflag &&& 1024 = 0) :
    K.toNew now c.tflag c.timeout = (timeoutDeadline now c : Int) := by
  unfold K.toNew timeoutDeadline has TF_MINUTE
  simp only [hms]
  by_cases hm : c.tflag &&& 64 = 0
  · simp [hm]
  · simp [hm]

theorem to_copies_agree (s : Int) (f t : Nat) : K.toUpdate s f t = K.toNew s f t := rfl

/-- millisecond unit (outside M-ENGINE's clock): the deadline is start + ⌊ms/1000⌋ + 1 in every copy -/
theorem exp_ms_generated (s : Int) (f e : Nat) (hu : f &&& 16384 = 0) (hms : f &&& 1024 ≠ 0) :
    K.expAddLock s f e = s + ((e / 1000 : Nat) : Int) + 1 := by
  unfold K.expAddLock
  simp [hu, hms]

end Slock.Engine
