import Slock.Proofs.AckK
import Slock.Proofs.AckAt
/-! M-ACK: `InvK` through the operations (part 1: building blocks, grants, wake pass, `DoAckLock`). -/
namespace Slock.Ack

theorem fp_false_of_depth {r : Rec} (h : r.depth = 0) : r.fp = false := by unfold Rec.fp; simp [h]
theorem fp_false_of_expried {r : Rec} (h : r.expried = false) : r.fp = false := by unfold Rec.fp; simp [h]
theorem fp_false_of_noack {r : Rec} (h : r.ack = NOACK) : r.fp = false := by unfold Rec.fp Rec.pending; simp [h]

theorem AtK.finishN {db : DB} {hid : Nat} {r : Rec} (h : AtK db hid r) (hr : KR r) (hf : r.fp = false)
    (hj : jc db hid > 0 → r.depth = 0 ∨ r.pending = true) : InvK db :=
  h.finish hr (by intro hh; rw [hf] at hh; exact absurd hh (by decide)) (by intro _ _ _ hh; rw [hf] at hh; exact absurd hh (by decide)) hj

/-- the followed record is no hold (any more) -/
theorem AtK.finishD {db : DB} {hid : Nat} {r : Rec} (h : AtK db hid r) (hr : KR r) (hd : r.depth = 0) : InvK db :=
  h.finishN hr (by unfold Rec.fp; simp [hd]) (fun _ => Or.inl hd)

/-! ### building blocks: what they do to the followed record, the table and the journal -/

theorem jcL_single (j : JRec) (h : Nat) : jcL [j] h = if (j.isLock && j.hid == some h) = true then 1 else 0 := by
  unfold jcL; simp only [List.filter]; split <;> simp_all

theorem pushJ_jc (db : DB) (r0 : Rec) (b : Bool) (h : Nat) : jc (db.pushJ r0 b).1 h ≤ jc db h + (if b = true ∧ r0.hid = h then 1 else 0) := by
  unfold DB.pushJ
  split
  · exact Nat.le_add_right _ _
  · split
    · exact Nat.le_add_right _ _
    · show jcL (db.journal ++ [_]) h ≤ _
      rw [jcL_append, jcL_single]
      unfold jc
      simp only []
      by_cases e : b = true ∧ r0.hid = h
      · rw [if_pos e]
        have : ∀ (c : Prop) [Decidable c], (if c then 1 else 0 : Nat) ≤ 1 := by intro c _; split <;> omega
        have := this ((b && (if r0.cmd.ack = true then some r0.hid else none) == some h) = true)
        omega
      · rw [if_neg e]
        have : ¬ ((b && (if r0.cmd.ack = true then some r0.hid else none) == some h) = true) := by
          intro hh
          simp at hh
          apply e
          exact ⟨hh.1, hh.2.2⟩
        rw [if_neg this]; omega

theorem AtK.valueOp {db : DB} {hid : Nat} {r : Rec} (h : AtK db hid r) (b : Bool) :
    ∃ r', AtK (db.valueOp hid b) hid r' ∧ SameCore r r' ∧ (db.valueOp hid b).tab = db.tab ∧ (db.valueOp hid b).journal = db.journal := by
  unfold DB.valueOp
  simp only []
  split
  · exact ⟨r, h, SameCore.refl r, rfl, rfl⟩
  · split
    · exact ⟨_, (h.modKey _ _).modR _ (by intro _; rfl), ⟨rfl, rfl, rfl, rfl, rfl, rfl⟩, by simp, by simp⟩
    · exact ⟨r, h.modKey _ _, SameCore.refl r, by simp, by simp⟩

theorem AtK.pushLock {db : DB} {hid : Nat} {r : Rec} (h : AtK db hid r) :
    ∃ r', AtK (db.pushLock hid).1 hid r' ∧ SameCore r r' ∧ (db.pushLock hid).1.tab = db.tab ∧ jc (db.pushLock hid).1 hid ≤ jc db hid + 1 := by
  have hj := pushJ_jc db (db.getR hid) true hid
  have hj' : jc (db.pushJ (db.getR hid) true).1 hid ≤ jc db hid + 1 := by split at hj <;> omega
  unfold DB.pushLock
  simp only []
  split
  · exact ⟨_, (h.pushJ _ (getR_hid db hid) _).modR _ (by intro _; rfl), ⟨rfl, rfl, rfl, rfl, rfl, rfl⟩, by simp [pushJ_tab], hj'⟩
  · exact ⟨r, h.pushJ _ (getR_hid db hid) _, SameCore.refl r, pushJ_tab _ _ _, hj'⟩

theorem AtK.journalUnlock {db : DB} {hid : Nat} {r : Rec} (h : AtK db hid r) (keep : Bool) :
    ∃ r', AtK (db.journalUnlock hid keep) hid r' ∧ SameCore r r' ∧ (db.journalUnlock hid keep).tab = db.tab := by
  unfold DB.journalUnlock
  split
  · simp only []
    split
    · exact ⟨_, (h.pushJ _ (getR_hid db hid) _).modR _ (by intro _; rfl), ⟨rfl, rfl, rfl, rfl, rfl, rfl⟩, by simp [pushJ_tab]⟩
    · exact ⟨r, h.pushJ _ (getR_hid db hid) _, SameCore.refl r, pushJ_tab _ _ _⟩
  · exact ⟨r, h, SameCore.refl r, rfl⟩

theorem AtK.addExpried {db : DB} {hid : Nat} {r : Rec} (h : AtK db hid r) :
    ∃ r', AtK (db.addExpried hid) hid r' ∧ r'.depth = r.depth ∧ r'.ack = r.ack ∧ r'.expried = false := by
  unfold DB.addExpried
  exact ⟨_, h.modR' _ rfl (by intro _; rfl) rfl rfl rfl, rfl, rfl, rfl⟩

theorem AtK.addTimeOut {db : DB} {hid : Nat} {r : Rec} (h : AtK db hid r) :
    ∃ r', AtK (db.addTimeOut hid) hid r' ∧ r'.depth = r.depth ∧ r'.ack = r.ack ∧ r'.expried = r.expried ∧ r'.cmd = r.cmd := by
  unfold DB.addTimeOut
  exact ⟨_, h.modR' _ rfl (by intro _; rfl) rfl rfl rfl, rfl, rfl, rfl, rfl⟩

theorem AtK.addLock {db : DB} {hid : Nat} {r : Rec} (h : AtK db hid r) :
    ∃ r', AtK (db.addLock hid) hid r' ∧ r'.cmd = r.cmd ∧ r'.depth = 1 ∧ r'.ack = (if r.cmd.ack then 0 else r.ack) ∧ r'.expried = r.expried := by
  unfold DB.addLock
  exact ⟨_, ((h.modR _ (by intro _; rfl)).toEnd hid).modKey _ _, rfl, rfl, rfl, rfl⟩

theorem AtK.removeLock {db : DB} {hid : Nat} {r : Rec} (h : AtK db hid r) :
    ∃ r', AtK (db.removeLock hid) hid r' ∧ r'.depth = 0 ∧ r'.ack = NOACK := by
  unfold DB.removeLock
  exact ⟨_, h.modR _ (by intro _; rfl), rfl, rfl⟩

theorem AtK.rollback {db : DB} {hid : Nat} {r : Rec} (h : AtK db hid r) :
    ∃ r', AtK (db.rollback hid) hid r' ∧ r'.depth = 0 ∧ r'.ack = NOACK := by
  unfold DB.rollback
  simp only []
  have h1 : ∃ r1, AtK (match (if (has (db.getR hid).cmd.flag F_DATA && (db.getR hid).pending) = true then (db.getR hid).undo else none) with
      | some u => ((db.modKey (db.getR hid).cmd.key (fun k => { k with locked := k.locked - (db.getR hid).depth })).modKey (db.getR hid).cmd.key
            (fun k => { k with cell := undoCell k.cell u })).modR hid (fun r => { r with undo := none })
      | none => db.modKey (db.getR hid).cmd.key (fun k => { k with locked := k.locked - (db.getR hid).depth })) hid r1 := by
    split
    · exact ⟨_, ((h.modKey _ _).modKey _ _).modR _ (by intro _; rfl)⟩
    · exact ⟨r, h.modKey _ _⟩
  obtain ⟨r1, h1⟩ := h1
  obtain ⟨r2, h2, _, _⟩ := h1.journalUnlock false
  obtain ⟨r3, h3, e2, e3⟩ := h2.removeLock
  exact ⟨r3, h3.ctrMod _, e2, e3⟩

theorem KR_dead' {r : Rec} (h1 : r.depth = 0) (h2 : r.ack = NOACK) : KR r := by
  unfold KR; rw [h1, h2]; exact ⟨Nat.le_refl _, by intro h; omega⟩

/-- the record stops being a hold: nothing is asked of it any more -/
theorem InvK.rollback {db : DB} (ha : InvA db) (hk : InvK db) (hid : Nat) {r : Rec} (e : findR db.recs hid = some r) : InvK (db.rollback hid) := by
  obtain ⟨r', h', e1, e2⟩ := (AtK.start ha hk e).rollback
  exact h'.finishD (KR_dead' e1 e2) e1

end Slock.Ack
