import Slock.Proofs.ReplInv
/-!
What `Pop`, `Head`, `Search` and the acknowledgement return in a state satisfying the invariants. Core Lean only.
-/
namespace Slock.Repl

theorem LiveOk.exists_seq {k l hist s} (h : LiveOk k l hist) (h1 : k ≤ s) (h2 : s < hist.length) :
    ∃ it ∈ l, it.seq = s := by
  induction l generalizing k with
  | nil => simp only [LiveOk] at h; omega
  | cons a l ih =>
    obtain ⟨a1, _, a3⟩ := h
    by_cases hs : s = k
    · exact ⟨a, List.mem_cons_self .., by omega⟩
    · obtain ⟨x, hx, hxs⟩ := ih a3 (by omega)
      exact ⟨x, List.mem_cons_of_mem _ hx, hxs⟩

theorem LiveOk.prefix_seq {k as rest hist p} (h : LiveOk k (as ++ rest) hist) (h1 : k ≤ p) (h2 : p < k + as.length) :
    ∃ x ∈ as, x.seq = p ∧ hist[p]? = some (content x) := by
  induction as generalizing k with
  | nil => simp at h2; omega
  | cons a as ih =>
    obtain ⟨a1, a2, a3⟩ := h
    by_cases hs : p = k
    · exact ⟨a, List.mem_cons_self .., by omega, by rw [hs]; exact a2⟩
    · simp only [List.length_cons] at h2
      obtain ⟨x, hx, hxs⟩ := ih a3 (by omega) (by omega)
      exact ⟨x, List.mem_cons_of_mem _ hx, hxs⟩

theorem locate_cases {q : Q} {sid it nxt} (h : locate q sid = some (it, nxt)) :
    (∃ pre, q.live = pre ++ it :: nxt) ∨ ((∀ x ∈ q.live, x.sid ≠ sid) ∧ ∃ pre, q.free = pre ++ it :: nxt) := by
  unfold locate at h
  split at h
  · rename_i r hr
    cases h
    obtain ⟨pre, hp, _⟩ := after_some hr
    exact Or.inl ⟨pre, hp⟩
  · rename_i hr
    obtain ⟨pre, hp, _⟩ := after_some h
    exact Or.inr ⟨after_none hr, pre, hp⟩

theorem locate_isSome {q : Q} {sid} (h : ∃ it ∈ q.live ++ q.free, it.sid = sid) : (locate q sid).isSome := by
  unfold locate
  split
  · rfl
  · rename_i hr
    obtain ⟨it, hm, hs⟩ := h
    rcases List.mem_append.mp hm with hm | hm
    · exact absurd hs (after_none hr it hm)
    · exact after_isSome_of_mem ⟨it, hm, hs⟩

/-- an item that is not marked as recycled and is reachable through a pointer is linked in the buffer -/
theorem located_unmarked_live {A q hist sid it nxt} (h : Inv A q hist) (hl : locate q sid = some (it, nxt))
    (hm : it.pollCount ≠ M32) : ∃ pre, q.live = pre ++ it :: nxt := by
  rcases locate_cases hl with h1 | ⟨_, pre, h2⟩
  · exact h1
  · exact absurd (h.freeMarked it (by rw [h2]; simp)) hm

theorem located_marked_notlive {A q hist sid it nxt} (h : Inv A q hist) (hA : A < M32) (hl : locate q sid = some (it, nxt))
    (hm : it.pollCount = M32) : ∀ x ∈ q.live, x.sid ≠ sid := by
  rcases locate_cases hl with ⟨pre, h1⟩ | ⟨h2, _⟩
  · have := h.livePc it (by rw [h1]; simp)
    omega
  · exact h2

/-- the record a cursor holds after `takeCur` -/
theorem takeCur_fields (c : Cursor) (it : Item) (w : Bool) :
    (takeCur c it w).seq = it.seq ∧ ((takeCur c it w).bufId, (takeCur c it w).bufOrd, (takeCur c it w).dlen) = content it ∧
      (takeCur c it w).writed = w ∧ (takeCur c it w).cur = some it.sid := ⟨rfl, rfl, rfl, rfl⟩

/-- the conclusion of the no-gap theorem for one successful `Pop` -/
def PopGood (q : Q) (hist : List (Nat × Nat × Nat)) (c c' : Cursor) : Prop :=
  c'.seq < q.seq ∧ hist[c'.seq]? = some (c'.bufId, c'.bufOrd, c'.dlen) ∧ (c.seq = seqNone ∨ c'.seq = c.seq + 1) ∧
    CurOk q c' ∧ c'.writed = false ∧ ∃ it ∈ q.live, c'.cur = some it.sid

theorem took_good {A q hist} (h : Inv A q hist) (c : Cursor) {it : Item} (hm : it ∈ q.live)
    (hs : c.seq = seqNone ∨ it.seq = c.seq + 1) : PopGood q hist c (takeCur c it false) := by
  have hl := LiveOk.mem h.liveOk hm
  refine ⟨by rw [h.seq]; exact hl.2.1, hl.2.2, hs, takeCur_curOk h c hm false, rfl, it, hm, rfl⟩

theorem popTail_ok {A q hist c c'} (h : Inv A q hist) (hc : CurOk q c)
    (hno : c.seq = seqNone ∨ ∃ sid, c.cur = some sid ∧ ∀ it ∈ q.live, it.sid ≠ sid)
    (hp : popTail q c = (.ok, c')) : PopGood q hist c c' := by
  unfold popTail at hp
  split at hp
  · cases hp
  · rename_i t rest hl
    split at hp
    · cases hp
    · rename_i hcond
      simp only [Prod.mk.injEq, true_and] at hp
      subst hp
      have htm : t ∈ q.live := by rw [hl]; exact List.mem_cons_self ..
      apply took_good h c htm
      by_cases hn : c.seq = seqNone
      · exact Or.inl hn
      · right
        by_cases h1 : t.seq = c.seq + 1
        · exact h1
        · exfalso
          have h0 : t.seq = 0 := by
            by_cases h0 : t.seq = 0
            · exact h0
            · exact absurd ⟨h1, h0, hn⟩ hcond
          rcases hno with hno | ⟨sid, hs1, hs2⟩
          · exact hn hno
          · obtain ⟨c1, sid', c2, c3⟩ := hc hn
            rw [hs1] at c2
            cases c2
            have hlo := h.liveOk
            have hts : tailSeq q = 0 := by
              rw [hl] at hlo; rw [← hlo.1]; exact h0
            obtain ⟨x, hx, hxs⟩ := LiveOk.exists_seq hlo (by omega) (by rw [← h.seq]; exact c1)
            exact hs2 x hx (c3 x hx hxs)

/-- NO GAP, one step: a successful `Pop` yields the record that follows the cursor's position in the pushed sequence
(any buffered record if the cursor has no position yet), and it is that record's content. -/
theorem pop_ok {A q hist c c'} (h : Inv A q hist) (hA : A < M32) (hc : CurOk q c) (hp : pop q c = (.ok, c')) :
    PopGood q hist c c' := by
  unfold pop at hp
  split at hp
  · rename_i hcur
    apply popTail_ok h hc ?_ hp
    by_cases hn : c.seq = seqNone
    · exact Or.inl hn
    · obtain ⟨_, sid, c2, _⟩ := hc hn
      rw [hcur] at c2; cases c2
  · rename_i sid hcur
    split at hp
    · cases hp
    · rename_i it nxt hloc
      split at hp
      · rename_i hmark
        exact popTail_ok h hc (Or.inr ⟨sid, hcur, located_marked_notlive h hA hloc hmark⟩) hp
      · rename_i hmark
        split at hp
        · cases hp
        · rename_i hseq
          split at hp
          · cases hp
          · rename_i n rest
            simp only [Prod.mk.injEq, true_and] at hp
            subst hp
            obtain ⟨pre, hl⟩ := located_unmarked_live h hloc hmark
            have hlo := h.liveOk
            rw [hl] at hlo
            have sp := LiveOk.split hlo
            have hn : n ∈ q.live := by rw [hl]; simp
            apply took_good h c hn
            right
            have := sp.2.2.1
            have hs : it.seq = c.seq := by
              by_cases hs : it.seq = c.seq
              · exact hs
              · exact absurd hs (by simpa using hseq)
            omega

/-- a failed `Pop` leaves the cursor as it was -/
theorem pop_fail {q c} (hp : (pop q c).1 ≠ .ok) : (pop q c).2 = c := by
  unfold pop at hp ⊢
  unfold popTail at hp ⊢
  repeat' split
  all_goals first | rfl | (exfalso; simp_all)

/-- OUT OF BUF: a cursor whose successor record has left the buffer gets the error. -/
theorem pop_overtaken {A q hist c} (h : Inv A q hist) (hn : c.seq ≠ seqNone)
    (hov : c.seq + 1 < tailSeq q) (hloc : ∀ sid, c.cur = some sid → (locate q sid).isSome) :
    pop q c = (.oob, c) := by
  have hlo := h.liveOk
  have hlen := LiveOk.len hlo
  have htail : popTail q c = (.oob, c) := by
    unfold popTail
    split
    · rename_i hl
      rw [hl] at hlen
      simp only [List.length_nil] at hlen
      have : hist ≠ [] := by
        intro he; rw [he] at hlen; simp at hlen; omega
      exact absurd hl (h.nonempty this)
    · rename_i t rest hl
      rw [hl] at hlo
      have := hlo.1
      have hcond : t.seq ≠ c.seq + 1 ∧ t.seq ≠ 0 ∧ c.seq ≠ seqNone := ⟨by omega, by omega, hn⟩
      rw [if_pos hcond]
  unfold pop
  split
  · exact htail
  · rename_i sid hcur
    have := hloc sid hcur
    split
    · rename_i hl; rw [hl] at this; cases this
    · rename_i it nxt hl
      split
      · exact htail
      · rename_i hmark
        obtain ⟨pre, hpl⟩ := located_unmarked_live h hl hmark
        have hm : it ∈ q.live := by rw [hpl]; simp
        have := (LiveOk.mem hlo hm).1
        have hne : it.seq ≠ c.seq := by omega
        rw [if_pos hne]

/-- EOF means the cursor is at the newest record (or nothing was ever pushed). -/
theorem pop_eof {A q hist c c'} (h : Inv A q hist) (hp : pop q c = (.eof, c')) :
    c' = c ∧ (q.seq = 0 ∨ c.seq + 1 = q.seq) := by
  have hlo := h.liveOk
  have htail : ∀ c', popTail q c = (.eof, c') → c' = c ∧ (q.seq = 0 ∨ c.seq + 1 = q.seq) := by
    intro c' hp
    unfold popTail at hp
    split at hp
    · rename_i hl
      simp only [Prod.mk.injEq, true_and] at hp
      refine ⟨hp.symm, Or.inl ?_⟩
      rw [h.seq]
      cases hh : hist with
      | nil => rfl
      | cons a b => exact absurd hl (h.nonempty (by rw [hh]; simp))
    · split at hp <;> cases hp
  unfold pop at hp
  split at hp
  · exact htail c' hp
  · split at hp
    · cases hp
    · rename_i it nxt hl
      split at hp
      · exact htail c' hp
      · rename_i hmark
        split at hp
        · cases hp
        · rename_i hseq
          split at hp
          · simp only [Prod.mk.injEq, true_and] at hp
            obtain ⟨pre, hpl⟩ := located_unmarked_live h hl hmark
            rw [hpl] at hlo
            have sp := LiveOk.split hlo
            have e := sp.2.2
            simp only [LiveOk] at e
            have hs : it.seq = c.seq := by
              by_cases hs : it.seq = c.seq
              · exact hs
              · exact absurd hs (by simpa using hseq)
            refine ⟨hp.symm, Or.inr ?_⟩
            rw [h.seq]; omega
          · cases hp

/-! ### Head, Search -/

theorem head_ok {A q hist c c'} (h : Inv A q hist) (hp : head q c = (.ok, c')) :
    c'.seq + 1 = q.seq ∧ hist[c'.seq]? = some (c'.bufId, c'.bufOrd, c'.dlen) ∧ CurOk q c' ∧ c'.writed = false ∧
      ∃ it ∈ q.live, c'.cur = some it.sid := by
  unfold head at hp
  split at hp
  · cases hp
  · rename_i it hl
    simp only [Prod.mk.injEq, true_and] at hp
    subst hp
    obtain ⟨pre, hpl⟩ : ∃ pre, q.live = pre ++ [it] := by
      have := List.getLast?_eq_some_iff.mp hl
      exact this
    have hm : it ∈ q.live := by rw [hpl]; simp
    have hlo := h.liveOk
    have hmm := LiveOk.mem hlo hm
    rw [hpl] at hlo
    have sp := LiveOk.split hlo
    have e := sp.2.2
    simp only [LiveOk] at e
    refine ⟨by rw [h.seq]; exact e, hmm.2.2, takeCur_curOk h c hm false, rfl, it, hm, rfl⟩

theorem head_fail {q c} (hp : (head q c).1 ≠ .ok) : (head q c).2 = c ∧ q.live = [] := by
  unfold head at hp ⊢
  split
  · rename_i hl
    exact ⟨rfl, List.getLast?_eq_none_iff.mp hl⟩
  · rename_i it hl
    rw [hl] at hp
    exact absurd rfl hp

theorem search_ok {A q hist id c c'} (h : Inv A q hist) (hp : search q id c = (.ok, c')) :
    tailSeq q ≤ c'.seq ∧ c'.seq < q.seq ∧ hist[c'.seq]? = some (id, c'.bufOrd, c'.dlen) ∧ c'.bufId = id ∧
      (∀ p r, tailSeq q ≤ p → p < c'.seq → hist[p]? = some r → r.1 ≠ id) ∧ CurOk q c' ∧ c'.writed = true ∧
      ∃ it ∈ q.live, c'.cur = some it.sid := by
  unfold search at hp
  split at hp
  · cases hp
  · rename_i a b hl
    split at hp
    · cases hp
    · rename_i it hf
      simp only [Prod.mk.injEq, true_and] at hp
      subst hp
      obtain ⟨hpid, as, bs, hsplit, hfirst⟩ := List.find?_eq_some_iff_append.mp hf
      have hid : it.id = id := by simpa using hpid
      have hm : it ∈ q.live := by rw [hsplit]; simp
      have hlo := h.liveOk
      have hmm := LiveOk.mem hlo hm
      refine ⟨hmm.1, by rw [h.seq]; exact hmm.2.1, ?_, hid, ?_, takeCur_curOk h c hm true, rfl, it, hm, rfl⟩
      · have := hmm.2.2
        simp only [content] at this
        rw [hid] at this
        exact this
      · intro p r h1 h2 hr
        rw [hsplit] at hlo
        have sp := LiveOk.split hlo
        obtain ⟨x, hx, _, hxc⟩ := LiveOk.prefix_seq hlo h1 (by
          have : (takeCur c it true).seq = it.seq := rfl
          rw [this] at h2; omega)
        rw [hr] at hxc
        cases hxc
        have := hfirst x hx
        simpa [content] using this

theorem search_miss {A q hist id c} (h : Inv A q hist)
    (hno : ∀ p r, tailSeq q ≤ p → hist[p]? = some r → r.1 ≠ id) :
    ((search q id c).1 = .nf ∨ (search q id c).1 = .eof) ∧ (search q id c).2 = c := by
  unfold search
  split
  · exact ⟨Or.inr rfl, rfl⟩
  · rename_i a b hl
    split
    · exact ⟨Or.inl rfl, rfl⟩
    · rename_i it hf
      exfalso
      have hm := List.mem_of_find?_eq_some hf
      have hpid := List.find?_some hf
      have hid : it.id = id := by simpa using hpid
      have hmm := LiveOk.mem h.liveOk hm
      exact hno it.seq (content it) hmm.1 hmm.2.2 hid

theorem search_hit {A q hist id c} (h : Inv A q hist)
    (hyes : ∃ p r, tailSeq q ≤ p ∧ hist[p]? = some r ∧ r.1 = id) : (search q id c).1 = .ok := by
  obtain ⟨p, r, h1, h2, h3⟩ := hyes
  have hlt : p < hist.length := by
    rcases Nat.lt_or_ge p hist.length with hlt | hge
    · exact hlt
    · rw [List.getElem?_eq_none hge] at h2; cases h2
  obtain ⟨x, hx, hxs⟩ := LiveOk.exists_seq h.liveOk h1 hlt
  have hxc := (LiveOk.mem h.liveOk hx).2.2
  rw [hxs, h2] at hxc
  cases hxc
  unfold search
  split
  · rename_i hl; rw [hl] at hx; cases hx
  · rename_i a b hl
    split
    · rename_i hf
      have := List.find?_eq_none.mp hf x hx
      exact absurd h3 (by simpa [content] using this)
    · rfl

theorem search_cases (q : Q) (id : Nat) (c : Cursor) :
    search q id c = (.eof, c) ∨ search q id c = (.nf, c) ∨ ∃ it, search q id c = (.ok, takeCur c it true) := by
  unfold search
  split
  · exact Or.inl rfl
  · split
    · exact Or.inr (Or.inl rfl)
    · exact Or.inr (Or.inr ⟨_, rfl⟩)

theorem search_fail {q id c} (hp : (search q id c).1 ≠ .ok) : (search q id c).2 = c := by
  rcases search_cases q id c with h | h | ⟨it, h⟩ <;> rw [h] at hp ⊢
  exact absurd rfl hp

/-! ### Acknowledgement -/

theorem ack_spec {q c q' c' b} (ha : ack q c = some (q', c', b)) :
    Pointwise (fun a b => Same a b ∧ b.pollCount = a.pollCount) q.live q'.live ∧
    Pointwise (fun a b => Same a b ∧ b.pollCount = a.pollCount) q.free q'.free ∧
    q'.seq = q.seq ∧ q'.pollCount = q.pollCount ∧ c'.seq = c.seq ∧ c'.cur = c.cur := by
  have hr : ∀ a : Item, Same a a ∧ a.pollCount = a.pollCount := fun a => ⟨same_refl a, rfl⟩
  have hf : ∀ a : Item, Same a (incPollIndex a) ∧ (incPollIndex a).pollCount = a.pollCount := fun a => ⟨same_incPollIndex a, rfl⟩
  unfold ack at ha
  split at ha
  · cases ha
    exact ⟨Pointwise.refl hr _, Pointwise.refl hr _, rfl, rfl, rfl, rfl⟩
  · split at ha
    · cases ha
    · rename_i sid hcur
      simp only [Option.some.injEq, Prod.mk.injEq] at ha
      obtain ⟨rfl, rfl, _⟩ := ha
      split
      · rename_i l hb
        exact ⟨bumpOne_pointwise _ hr hf hb, Pointwise.refl hr _, rfl, rfl, rfl, rfl⟩
      · split
        · rename_i l hb
          exact ⟨Pointwise.refl hr _, bumpOne_pointwise _ hr hf hb, rfl, rfl, rfl, rfl⟩
        · exact ⟨Pointwise.refl hr _, Pointwise.refl hr _, rfl, rfl, rfl, rfl⟩

theorem Pointwise.imp {R S : Item → Item → Prop} (hrs : ∀ a b, R a b → S a b) : ∀ {l m}, Pointwise R l m → Pointwise S l m
  | [], [], _ => trivial
  | _ :: _, _ :: _, h => ⟨hrs _ _ h.1, Pointwise.imp hrs h.2⟩
  | [], _ :: _, h => h.elim
  | _ :: _, [], h => h.elim

/-- any update of the two lists that keeps identity, seq, record and pollCount of every item keeps the invariant -/
theorem inv_pointwise {A q q' hist} (h : Inv A q hist)
    (hl : Pointwise (fun a b => Same a b ∧ b.pollCount = a.pollCount) q.live q'.live)
    (hf : Pointwise (fun a b => Same a b ∧ b.pollCount = a.pollCount) q.free q'.free)
    (hs : q'.seq = q.seq) (hp : q'.pollCount = q.pollCount) : Inv A q' hist := by
  obtain ⟨k, hk⟩ := h.live
  refine ⟨⟨k, LiveOk.pointwise (Pointwise.imp (fun _ _ h => h.1) hl) hk⟩, by rw [hs]; exact h.seq, ?_, ?_, by rw [hp]; exact h.pc, ?_⟩
  · intro hne he
    have hlen := Pointwise.length hl
    rw [he] at hlen
    exact h.nonempty hne (List.length_eq_zero_iff.mp hlen)
  · intro it hm
    obtain ⟨a, ha, hr⟩ := Pointwise.mem_right hf it hm
    rw [hr.2]; exact h.freeMarked a ha
  · intro it hm
    obtain ⟨a, ha, hr⟩ := Pointwise.mem_right hl it hm
    rw [hr.2]; exact h.livePc a ha

theorem ack_inv {A q hist c q' c' b} (h : Inv A q hist) (ha : ack q c = some (q', c', b)) : Inv A q' hist := by
  obtain ⟨a1, a2, a3, a4, _, _⟩ := ack_spec ha
  exact inv_pointwise h a1 a2 a3 a4

theorem ack_curOk {q c q' c' b d} (ha : ack q c = some (q', c', b)) (hd : CurOk q d) : CurOk q' d := by
  obtain ⟨a1, _, a3, _, _, _⟩ := ack_spec ha
  exact curOk_pointwise a3 (Pointwise.imp (fun _ _ h => h.1) a1) hd

theorem ack_curOk_self {q c q' c' b} (ha : ack q c = some (q', c', b)) (hc : CurOk q c) : CurOk q' c' := by
  obtain ⟨_, _, _, _, a5, a6⟩ := ack_spec ha
  have := ack_curOk ha hc
  intro hn
  rw [a5] at hn ⊢
  rw [a6]
  exact this hn

end Slock.Repl
