import Slock.Proofs.Engine2SimShapeTick
/-! Simulation stage 2 → stage 1: the waiter-priority test agrees, and LOCK's `queue` branch (a request is filed in the wait queue:
inline array → priority ring, against stage 1's sorted insertion). -/
namespace Slock.Sim
open Slock Slock.Engine2
open Slock.Engine (has)

/-- **`doCheckLockWaitPriority` reads the same priority in both models** (raw head live, cached priority current) -/
theorem checkWaitPriority_refines {seq : Nat} {k : Key} (ks : KS seq k) (c : Engine.Cmd) :
    Engine.checkWaitPriority (Key.abs k) c = Engine2.checkWaitPriority k c := by
  unfold Engine.checkWaitPriority Engine2.checkWaitPriority
  rw [abs_waiters]
  cases hw : k.wait with
  | nil => rfl
  | cons e rest =>
    have hl := ks.hl e rest hw
    have hh : k.hasRec e.rid := hasRec_of_liveWaiter hl
    simp only [List.map_cons, List.filter, hl, Bool.not_false, List.head?_cons]
    have hc := ks.qs.cch e (by rw [hw]; simp) hh
    show (decide (c.rcount > Engine.cmdPriority (k.getR e.rid).cmd)) = decide (c.rcount > (if k.waitPrio = true then e.prio else Engine.cmdPriority (k.getR e.rid).cmd))
    cases k.waitPrio
    · rfl
    · simp only [if_true]; rw [hc]; rfl

theorem filter_map_rid (l : List WEnt) (P : Nat → Bool) (f : Nat → Engine.Waiter) :
    ((l.map (·.rid)).filter P).map f = (l.filter (fun e => P e.rid)).map (fun e => f e.rid) := by
  rw [List.filter_map, List.map_map]; rfl

/-- **the live requests after `AddWaitLock(rid)`** (with `rid` counted as live: `AddTimeOut` follows) are stage 1's `insertWaiter` -/
theorem enq_waiters {k : Key} (qs : QS k) (hl : HL k) (rid : Nat) (hnw : rid ∉ k.wait.map (·.rid)) (P : Nat → Bool) (f : Nat → Engine.Waiter)
    (hP : ∀ y, y ≠ rid → P y = !k.deadWaiter y) (hPr : P rid = true)
    (hf : ∀ y, y ≠ rid → k.deadWaiter y = false → Engine.cmdPriority (f y).cmd = prOf k y)
    (hfr : Engine.cmdPriority (f rid).cmd = prOf k rid) :
    (((k.addWaitLock rid).wait.map (·.rid)).filter P).map f = Engine.insertWaiter (((k.wait.map (·.rid)).filter P).map f) (f rid) := by
  rw [filter_map_rid, filter_map_rid]
  have hne : ∀ x ∈ k.wait, x.rid ≠ rid := fun x hx e => hnw (e ▸ List.mem_map.mpr ⟨x, hx, rfl⟩)
  -- a live old entry: cached priority = stage-1 priority
  have hcOld : ∀ x ∈ k.wait, P x.rid = true → x.prio = Engine.cmdPriority (f x.rid).cmd := by
    intro x hx hp
    have hd : k.deadWaiter x.rid = false := by
      have := hP x.rid (hne x hx)
      rw [hp] at this
      cases hdd : k.deadWaiter x.rid with
      | false => rfl
      | true => rw [hdd] at this; simp at this
    rw [hf x.rid (hne x hx) hd]
    exact qs.cch x hx (hasRec_of_liveWaiter hd)
  rw [(addWaitLock_pre k rid).1]
  cases hr : rePushes k rid with
  | true =>
    simp only [if_true]
    rw [(waitPush_prio k.rePush _ (rePush_wait k).2).1, (rePush_wait k).1]
    have hm : k.waitPrio = false ∧ ∃ e0 r0, k.wait = e0 :: r0 := by
      unfold rePushes at hr
      cases hp : k.waitPrio with
      | true => rw [hp] at hr; simp at hr
      | false =>
        refine ⟨rfl, ?_⟩
        cases hw0 : k.wait with
        | nil => rw [hw0] at hr; simp at hr
        | cons e0 r0 => exact ⟨e0, r0, rfl⟩
    obtain ⟨hp, e0, r0, hw0⟩ := hm
    have hsL : Srt ((k.wait.map (recache k)).foldl insertPrio []) := foldl_insertPrio_srt _ [] (by unfold Srt; simp)
    -- the re-sort keeps the live requests in order: they all have one priority
    have hq : ∀ x ∈ k.wait.map (recache k), P x.rid = true → x.prio = e0.prio := by
      intro x hx hpx
      obtain ⟨y, hy, e⟩ := List.mem_map.mp hx
      rw [← e] at hpx ⊢
      have hpy : P y.rid = true := hpx
      have hd : k.deadWaiter y.rid = false := by
        have := hP y.rid (hne y hy)
        rw [hpy] at this
        cases hdd : k.deadWaiter y.rid with
        | false => rfl
        | true => rw [hdd] at this; simp at this
      show Engine.cmdPriority (k.getR y.rid).cmd = e0.prio
      have := qs.cch y hy (hasRec_of_liveWaiter hd)
      unfold prOf at this
      rw [← this]
      exact qs.eqc hp y hy e0 (by rw [hw0]; simp)
    have hfl : ((k.wait.map (recache k)).foldl insertPrio []).filter (fun e => P e.rid) = (k.wait.map (recache k)).filter (fun e => P e.rid) := by
      rw [foldl_insertPrio_filter (fun e => P e.rid) e0.prio _ [] (by unfold Srt; simp) (by intro x hx; simp at hx) hq]
      rfl
    have hmapf : ((k.wait.map (recache k)).filter (fun e => P e.rid)).map (fun e => f e.rid) = (k.wait.filter (fun e => P e.rid)).map (fun e => f e.rid) := by
      rw [List.filter_map, List.map_map]; rfl
    rw [filter_insertPrio_waiter (fun e => P e.rid) (fun e => f e.rid) _ ⟨rid, Engine.cmdPriority (k.getR rid).cmd⟩ hsL ?_ hPr hfr.symm, hfl, hmapf]
    intro x hx hpx
    rcases (mem_foldl_insertPrio _ [] x).mp hx with h1 | h1
    · simp at h1
    · obtain ⟨y, hy, e⟩ := List.mem_map.mp h1
      rw [← e] at hpx ⊢
      have hpy : P y.rid = true := hpx
      have hd : k.deadWaiter y.rid = false := by
        have := hP y.rid (hne y hy)
        rw [hpy] at this
        cases hdd : k.deadWaiter y.rid with
        | false => rfl
        | true => rw [hdd] at this; simp at this
      show Engine.cmdPriority (k.getR y.rid).cmd = Engine.cmdPriority (f y.rid).cmd
      rw [hf y.rid (hne y hy) hd]; rfl
  | false =>
    simp only [Bool.false_eq_true, if_false]
    cases hp : k.waitPrio with
    | true =>
      rw [(waitPush_prio k _ hp).1]
      exact filter_insertPrio_waiter (fun e => P e.rid) (fun e => f e.rid) k.wait ⟨rid, Engine.cmdPriority (k.getR rid).cmd⟩ (qs.srt hp) hcOld hPr hfr.symm
    | false =>
      -- FIFO: to the back; every live request has the priority of the new one
      have hnew : ∀ y ∈ k.wait, y.prio = Engine.cmdPriority (k.getR rid).cmd := by
        intro y hy
        cases hw : k.wait with
        | nil => rw [hw] at hy; simp at hy
        | cons e0 rest =>
          have hwd : k.waited = true := by
            cases hwd : k.waited with
            | true => rfl
            | false => have := qs.emp hwd; rw [hw] at this; simp at this
          unfold rePushes at hr
          rw [hwd, hp, hw] at hr
          simp only [Bool.not_false, Bool.and_self, Bool.true_and, List.head?_cons, bne_eq_false_iff_eq] at hr
          have h0 : k.hasRec e0.rid := hasRec_of_liveWaiter (hl e0 rest hw)
          have c0 := qs.cch e0 (by rw [hw]; simp) h0
          have := qs.eqc hp y hy e0 (by rw [hw]; simp)
          unfold prOf at c0
          omega
      have happ : Engine.insertWaiter ((k.wait.filter (fun e => P e.rid)).map (fun e => f e.rid)) (f rid) =
          (k.wait.filter (fun e => P e.rid)).map (fun e => f e.rid) ++ [f rid] := by
        apply insertWaiter_append
        intro x hx
        obtain ⟨y, hy, e⟩ := List.mem_map.mp hx
        have hym := (List.mem_filter.mp hy).1
        have hyp : P y.rid = true := (List.mem_filter.mp hy).2
        rw [← e, ← hcOld y hym hyp, hnew y hym, hfr]
        unfold prOf
        exact Nat.lt_irrefl _
      rw [happ]
      have hfilt : ∀ X : List WEnt, X.filter (fun e => P e.rid) = k.wait.filter (fun e => P e.rid) →
          ((X ++ [(⟨rid, Engine.cmdPriority (k.getR rid).cmd⟩ : WEnt)]).filter (fun e => P e.rid)).map (fun e => f e.rid) =
            (k.wait.filter (fun e => P e.rid)).map (fun e => f e.rid) ++ [f rid] := by
        intro X hX
        rw [List.filter_append, hX]
        simp [List.filter, hPr]
      rcases (waitPush_fifo k ⟨rid, Engine.cmdPriority (k.getR rid).cmd⟩ hp).2 with e | e
      · rw [e]; exact hfilt _ rfl
      · rw [e]
        apply hfilt
        rw [List.filter_filter]
        apply List.filter_congr
        intro x hx
        rw [hP x.rid (hne x hx)]
        cases k.deadWaiter x.rid <;> rfl

theorem getR_addRec_other (k : Key) (r : Rec) (y : Nat) (hne : y ≠ r.rid) : (k.addRec r).getR y = k.getR y := by
  unfold Key.getR Key.addRec
  simp only []
  rw [List.find?_append]
  cases hf : k.recs.find? (·.rid == y) with
  | some x => rfl
  | none =>
    simp only [Option.none_or]
    have : ([r].find? (·.rid == y)) = none := by
      simp only [List.find?_cons, List.find?_nil]
      have : (r.rid == y) = false := by simpa using fun e => hne e.symm
      rw [this]
    rw [this]

/-- the waiter stage 1 files for a LOCK that has to wait -/
def waiterQ (a : Engine.DB) (c : Engine.Cmd) : Engine.Waiter :=
  let x := Engine.wheelAdd a.tCheck a.seq (Engine.timeoutDeadline a.now c) 1
  { cmd := c, conn := c.conn, timeoutT := x.1, sched := x.2 }

def keyQ (k : Engine.Key) (w : Engine.Waiter) : Engine.Key := { k with waiters := Engine.insertWaiter k.waiters w, waited := true }
def dbQ (a : Engine.DB) : Engine.DB := { a with seq := a.seq + 1, ctr := { a.ctr with waitCount := a.ctr.waitCount + 1 } }

theorem applyLock_queue_eq (a : Engine.DB) (c : Engine.Cmd) :
    Engine.applyLock a c .queue = ((dbQ a).setKey (keyQ (a.getKey c.key) (waiterQ a c)), []) := rfl

/-- **LOCK that has to wait**: the request is filed in the wait queue (`AddWaitLock`: inline array / priority ring, possibly switching
to priority mode or compacting) and armed (`AddTimeOut`) — stage 1's sorted `insertWaiter` -/
theorem sim_lock_queue (s : DB) (hq : DBQ s) (c : Engine.Cmd) (data : Option Bytes) (hcls : classifyLock s c data = .queue)
    (ks : KS s.seq (s.getKey c.key)) :
    Equiv (Engine2.abs (applyLock s c data .queue).commit) (Engine.applyLock (Engine2.abs s) c .queue).1 ∧
    (applyLock s c data .queue).out.map (·.r) = (Engine.applyLock (Engine2.abs s) c .queue).2 := by
  have hdbi := hq.dbt.dbi
  have ht := hq.dbt.tight
  have hkabs := abs_getKey s hdbi.kn c.key
  have ge := Good.enter hdbi ht c.key
  have le := ge.lv
  have hsc0 := scal_enter s c.key
  have tf := applyLock_tight s hdbi ht c data .queue (fun _ h => by simp [LockBranch.holderOf] at h) (fun _ h => by simp at h) (fun h => by simp at h)
    (fun _ h => by simp at h)
  simp only [applyLock] at tf
  obtain ⟨ln, hn, _, hq0, _, hg⟩ := le.newLock zero_nonneg c data
  have hfresh : ¬ (s.enter c.key).k.hasRec (s.enter c.key).db.nextRid := by
    rintro ⟨r, hr, e⟩
    have := le.side.fresh r hr
    omega
  have hrw : (s.enter c.key).db.nextRid ∉ ((s.enter c.key).newLock c data).1.k.wait.map (·.rid) := by
    intro hm
    have := qRefs_pos_of_wait_mem _ _ hm
    omega
  have hnh : (s.enter c.key).db.nextRid ∉ ((s.enter c.key).newLock c data).1.k.current.toList ++ ((s.enter c.key).newLock c data).1.k.locks := by
    intro hm
    have := qRefs_pos_of_holder _ _ hm
    omega
  have hgF : ((((((s.enter c.key).newLock c data).1.modK (·.addWaitLock (s.enter c.key).db.nextRid)).addTimeOut (s.enter c.key).db.nextRid).ref (s.enter c.key).db.nextRid).ctr (fun x => { x with waitCount := x.waitCount + 1 })).gone = false := enter_gone s c.key
  have gF := tf.good hgF
  -- the records of the old requests / holders in the new lock record's presence
  have hgetN : ∀ y, y ≠ (s.enter c.key).db.nextRid → ((s.enter c.key).newLock c data).1.k.getR y = (s.enter c.key).k.getR y := fun y hy => getR_addRec_other (s.enter c.key).k _ y hy
  have heK : (s.enter c.key).k = (s.getKey c.key) := enter_k s c.key
  have he3 : W3 (s.enter c.key) := ⟨WI.enter s c.key ks.ki, by rw [heK]; exact ks.qs⟩
  have hn3 := he3.newLock le c data
  have hlE : HL (s.enter c.key).k := by rw [heK]; exact ks.hl
  have hlN : HL ((s.enter c.key).newLock c data).1.k := by
    intro e rest hw
    have := hlE e rest hw
    have hh : (s.enter c.key).k.hasRec e.rid := hasRec_of_liveWaiter this
    unfold Key.deadWaiter at this ⊢
    show (((s.enter c.key).k.addRec _).getR e.rid).timeouted = false
    rw [getR_addRec _ _ _ hh]; exact this
  obtain ⟨_, a2, a3⟩ := addWaitLock_spec ((s.enter c.key).newLock c data).1.k (s.enter c.key).db.nextRid
  -- everything but the new record reads the same at the end
  have px : PKeepX πA (· = (s.enter c.key).db.nextRid) ((((((s.enter c.key).newLock c data).1.modK (·.addWaitLock (s.enter c.key).db.nextRid)).addTimeOut (s.enter c.key).db.nextRid).ref (s.enter c.key).db.nextRid).ctr (fun x => { x with waitCount := x.waitCount + 1 })).k (s.enter c.key).k := by
    have p1 : PKeepX πA (· = (s.enter c.key).db.nextRid) ((s.enter c.key).newLock c data).1.k (s.enter c.key).k := PKeepX.addRec (s.enter c.key).k _ rfl
    have p2 : PKeepX πA (· = (s.enter c.key).db.nextRid) (((s.enter c.key).newLock c data).1.modK (·.addWaitLock (s.enter c.key).db.nextRid)).k ((s.enter c.key).newLock c data).1.k := PKeepX.of_pk (PKeep.addWaitLock ins_πA ((s.enter c.key).newLock c data).1.k (s.enter c.key).db.nextRid)
    have p3 : PKeepX πA (· = (s.enter c.key).db.nextRid) ((((s.enter c.key).newLock c data).1.modK (·.addWaitLock (s.enter c.key).db.nextRid)).addTimeOut (s.enter c.key).db.nextRid).k (((s.enter c.key).newLock c data).1.modK (·.addWaitLock (s.enter c.key).db.nextRid)).k := by
      unfold W.addTimeOut
      exact PKeepX.modRec (X := (· = (s.enter c.key).db.nextRid)) (((s.enter c.key).newLock c data).1.modK (·.addWaitLock (s.enter c.key).db.nextRid)).k (s.enter c.key).db.nextRid _ (fun _ => rfl) rfl
    have p4 : PKeepX πA (· = (s.enter c.key).db.nextRid) (((((s.enter c.key).newLock c data).1.modK (·.addWaitLock (s.enter c.key).db.nextRid)).addTimeOut (s.enter c.key).db.nextRid).ref (s.enter c.key).db.nextRid).k ((((s.enter c.key).newLock c data).1.modK (·.addWaitLock (s.enter c.key).db.nextRid)).addTimeOut (s.enter c.key).db.nextRid).k := PKeepX.modRec (X := (· = (s.enter c.key).db.nextRid)) ((((s.enter c.key).newLock c data).1.modK (·.addWaitLock (s.enter c.key).db.nextRid)).addTimeOut (s.enter c.key).db.nextRid).k (s.enter c.key).db.nextRid (fun r => { r with refCount := r.refCount + 1 }) (fun _ => rfl) rfl
    exact (p4.trans (p3.trans p2)).trans p1
  have hcnt : (((s.enter c.key).newLock c data).1.k.wait.map (·.rid)).count (s.enter c.key).db.nextRid = 0 := List.count_eq_zero.mpr hrw
  obtain ⟨hhA, _, _⟩ := keep_addWaitLock ((s.enter c.key).newLock c data).1.k (s.enter c.key).db.nextRid hn hcnt
  have hhA' : (((s.enter c.key).newLock c data).1.modK (·.addWaitLock (s.enter c.key).db.nextRid)).k.hasRec (s.enter c.key).db.nextRid := hhA
  have hπ4 := proj_addWaitLock (fun r => (r.cmd, r.conn, r.timeoutT, r.tChecked)) (fun _ _ => rfl) ((s.enter c.key).newLock c data).1.k (s.enter c.key).db.nextRid hn hcnt
  rw [hg] at hπ4
  have hcmdA : ((((s.enter c.key).newLock c data).1.modK (·.addWaitLock (s.enter c.key).db.nextRid)).k.getR (s.enter c.key).db.nextRid).cmd = c := congrArg (fun t => t.1) hπ4
  have hconnA : ((((s.enter c.key).newLock c data).1.modK (·.addWaitLock (s.enter c.key).db.nextRid)).k.getR (s.enter c.key).db.nextRid).conn = c.conn := congrArg (fun t => t.2.1) hπ4
  have htoA : ((((s.enter c.key).newLock c data).1.modK (·.addWaitLock (s.enter c.key).db.nextRid)).k.getR (s.enter c.key).db.nextRid).timeoutT = Engine.timeoutDeadline (s.enter c.key).db.now c := congrArg (fun t => t.2.2.1) hπ4
  have htcA : ((((s.enter c.key).newLock c data).1.modK (·.addWaitLock (s.enter c.key).db.nextRid)).k.getR (s.enter c.key).db.nextRid).tChecked = 1 := congrArg (fun t => t.2.2.2) hπ4
  have hhT : ((((s.enter c.key).newLock c data).1.modK (·.addWaitLock (s.enter c.key).db.nextRid)).addTimeOut (s.enter c.key).db.nextRid).k.hasRec (s.enter c.key).db.nextRid := (addTimeOut_hasRec (((s.enter c.key).newLock c data).1.modK (·.addWaitLock (s.enter c.key).db.nextRid)) (s.enter c.key).db.nextRid (s.enter c.key).db.nextRid).mpr hhA'
  have hhF : ((((((s.enter c.key).newLock c data).1.modK (·.addWaitLock (s.enter c.key).db.nextRid)).addTimeOut (s.enter c.key).db.nextRid).ref (s.enter c.key).db.nextRid).ctr (fun x => { x with waitCount := x.waitCount + 1 })).k.hasRec (s.enter c.key).db.nextRid := (hasRec_modR ((((s.enter c.key).newLock c data).1.modK (·.addWaitLock (s.enter c.key).db.nextRid)).addTimeOut (s.enter c.key).db.nextRid) (s.enter c.key).db.nextRid (s.enter c.key).db.nextRid (fun r => { r with refCount := r.refCount + 1 }) (fun _ => rfl)).mpr hhT
  have hTR : ((((s.enter c.key).newLock c data).1.modK (·.addWaitLock (s.enter c.key).db.nextRid)).addTimeOut (s.enter c.key).db.nextRid).k.getR (s.enter c.key).db.nextRid = (Rec.armT (Engine.wheelAdd (((s.enter c.key).newLock c data).1.modK (·.addWaitLock (s.enter c.key).db.nextRid)).db.tCheck (((s.enter c.key).newLock c data).1.modK (·.addWaitLock (s.enter c.key).db.nextRid)).db.seq ((((s.enter c.key).newLock c data).1.modK (·.addWaitLock (s.enter c.key).db.nextRid)).k.getR (s.enter c.key).db.nextRid).timeoutT ((((s.enter c.key).newLock c data).1.modK (·.addWaitLock (s.enter c.key).db.nextRid)).k.getR (s.enter c.key).db.nextRid).tChecked)) ((((s.enter c.key).newLock c data).1.modK (·.addWaitLock (s.enter c.key).db.nextRid)).k.getR (s.enter c.key).db.nextRid) :=
    getR_modRec_same (((s.enter c.key).newLock c data).1.modK (·.addWaitLock (s.enter c.key).db.nextRid)).k (s.enter c.key).db.nextRid (Rec.armT (Engine.wheelAdd (((s.enter c.key).newLock c data).1.modK (·.addWaitLock (s.enter c.key).db.nextRid)).db.tCheck (((s.enter c.key).newLock c data).1.modK (·.addWaitLock (s.enter c.key).db.nextRid)).db.seq ((((s.enter c.key).newLock c data).1.modK (·.addWaitLock (s.enter c.key).db.nextRid)).k.getR (s.enter c.key).db.nextRid).timeoutT ((((s.enter c.key).newLock c data).1.modK (·.addWaitLock (s.enter c.key).db.nextRid)).k.getR (s.enter c.key).db.nextRid).tChecked)) (fun _ => rfl) hhA'
  have hFdead : ((((((s.enter c.key).newLock c data).1.modK (·.addWaitLock (s.enter c.key).db.nextRid)).addTimeOut (s.enter c.key).db.nextRid).ref (s.enter c.key).db.nextRid).ctr (fun x => { x with waitCount := x.waitCount + 1 })).k.deadWaiter (s.enter c.key).db.nextRid = false := by
    show ((((((s.enter c.key).newLock c data).1.modK (·.addWaitLock (s.enter c.key).db.nextRid)).addTimeOut (s.enter c.key).db.nextRid).ref (s.enter c.key).db.nextRid).k.getR (s.enter c.key).db.nextRid).timeouted = false
    rw [ref_timeouted]; exact addTimeOut_live (((s.enter c.key).newLock c data).1.modK (·.addWaitLock (s.enter c.key).db.nextRid)) (s.enter c.key).db.nextRid hhA'
  have hFw : waiterOf ((((((s.enter c.key).newLock c data).1.modK (·.addWaitLock (s.enter c.key).db.nextRid)).addTimeOut (s.enter c.key).db.nextRid).ref (s.enter c.key).db.nextRid).ctr (fun x => { x with waitCount := x.waitCount + 1 })).k (s.enter c.key).db.nextRid = waiterQ (Engine2.abs s) c := by
    have e0 : waiterOf ((((((s.enter c.key).newLock c data).1.modK (·.addWaitLock (s.enter c.key).db.nextRid)).addTimeOut (s.enter c.key).db.nextRid).ref (s.enter c.key).db.nextRid).ctr (fun x => { x with waitCount := x.waitCount + 1 })).k (s.enter c.key).db.nextRid = (((((s.enter c.key).newLock c data).1.modK (·.addWaitLock (s.enter c.key).db.nextRid)).addTimeOut (s.enter c.key).db.nextRid).k.getR (s.enter c.key).db.nextRid).toWaiter :=
      getR_modRec_proj (·.toWaiter) ((((s.enter c.key).newLock c data).1.modK (·.addWaitLock (s.enter c.key).db.nextRid)).addTimeOut (s.enter c.key).db.nextRid).k (s.enter c.key).db.nextRid (s.enter c.key).db.nextRid (fun r => { r with refCount := r.refCount + 1 }) (fun _ => rfl) (fun _ => rfl)
    rw [e0, hTR]
    unfold Rec.toWaiter Rec.armT waiterQ
    simp only [Option.getD_some]
    rw [hcmdA, hconnA, htoA, htcA]
    have e1 : (((s.enter c.key).newLock c data).1.modK (·.addWaitLock (s.enter c.key).db.nextRid)).db.tCheck = (Engine2.abs s).tCheck := hsc0.tCheck.symm
    have e2 : (((s.enter c.key).newLock c data).1.modK (·.addWaitLock (s.enter c.key).db.nextRid)).db.seq = (Engine2.abs s).seq := hsc0.seq.symm
    have e3 : (s.enter c.key).db.now = (Engine2.abs s).now := hsc0.now.symm
    rw [e1, e2, e3]
  -- the waiters
  have hwaiters : (Key.abs ((((((s.enter c.key).newLock c data).1.modK (·.addWaitLock (s.enter c.key).db.nextRid)).addTimeOut (s.enter c.key).db.nextRid).ref (s.enter c.key).db.nextRid).ctr (fun x => { x with waitCount := x.waitCount + 1 })).k).waiters = Engine.insertWaiter (Key.abs (s.getKey c.key)).waiters (waiterQ (Engine2.abs s) c) := by
    have key := enq_waiters hn3.qs hlN (s.enter c.key).db.nextRid hrw (fun y => if y = (s.enter c.key).db.nextRid then true else !((s.enter c.key).newLock c data).1.k.deadWaiter y)
      (fun y => if y = (s.enter c.key).db.nextRid then waiterQ (Engine2.abs s) c else waiterOf ((s.enter c.key).newLock c data).1.k y)
      (fun y hy => by simp only [hy, if_false]) (by simp only [if_true])
      (fun y hy _ => by simp only [hy, if_false]; rfl)
      (by simp only [if_true]; unfold prOf; rw [hg]; rfl)
    have hl : (Key.abs ((((((s.enter c.key).newLock c data).1.modK (·.addWaitLock (s.enter c.key).db.nextRid)).addTimeOut (s.enter c.key).db.nextRid).ref (s.enter c.key).db.nextRid).ctr (fun x => { x with waitCount := x.waitCount + 1 })).k).waiters =
        (((((s.enter c.key).newLock c data).1.k.addWaitLock (s.enter c.key).db.nextRid).wait.map (·.rid)).filter (fun y => if y = (s.enter c.key).db.nextRid then true else !((s.enter c.key).newLock c data).1.k.deadWaiter y)).map
          (fun y => if y = (s.enter c.key).db.nextRid then waiterQ (Engine2.abs s) c else waiterOf ((s.enter c.key).newLock c data).1.k y) := by
      rw [abs_waiters]
      show (((((s.enter c.key).newLock c data).1.k.addWaitLock (s.enter c.key).db.nextRid).wait.map (·.rid)).filter (fun x => !((((((s.enter c.key).newLock c data).1.modK (·.addWaitLock (s.enter c.key).db.nextRid)).addTimeOut (s.enter c.key).db.nextRid).ref (s.enter c.key).db.nextRid).ctr (fun x => { x with waitCount := x.waitCount + 1 })).k.deadWaiter x)).map (waiterOf ((((((s.enter c.key).newLock c data).1.modK (·.addWaitLock (s.enter c.key).db.nextRid)).addTimeOut (s.enter c.key).db.nextRid).ref (s.enter c.key).db.nextRid).ctr (fun x => { x with waitCount := x.waitCount + 1 })).k) = _
      apply filter_map_congr_on
      intro y hy
      by_cases e : y = (s.enter c.key).db.nextRid
      · rw [e]
        simp only [if_true, hFdead, Bool.not_false]
        exact ⟨trivial, fun _ => hFw⟩
      · simp only [e, if_false]
        obtain ⟨x, hx, hxy⟩ := List.mem_map.mp hy
        have hyF : ((((((s.enter c.key).newLock c data).1.modK (·.addWaitLock (s.enter c.key).db.nextRid)).addTimeOut (s.enter c.key).db.nextRid).ref (s.enter c.key).db.nextRid).ctr (fun x => { x with waitCount := x.waitCount + 1 })).k.hasRec y := hxy ▸ wait_hasRec gF.lv x hx
        have hv := px.val y e hyF
        have hvN : πA (((((((s.enter c.key).newLock c data).1.modK (·.addWaitLock (s.enter c.key).db.nextRid)).addTimeOut (s.enter c.key).db.nextRid).ref (s.enter c.key).db.nextRid).ctr (fun x => { x with waitCount := x.waitCount + 1 })).k.getR y) = πA (((s.enter c.key).newLock c data).1.k.getR y) := by rw [hv, hgetN y e]
        refine ⟨?_, fun _ => ?_⟩
        · unfold Key.deadWaiter; rw [timeouted_of_πA hvN]
        · unfold waiterOf; exact congrArg (fun t => t.2.1) hvN
    have hr : (Key.abs (s.getKey c.key)).waiters =
        ((((s.enter c.key).newLock c data).1.k.wait.map (·.rid)).filter (fun y => if y = (s.enter c.key).db.nextRid then true else !((s.enter c.key).newLock c data).1.k.deadWaiter y)).map
          (fun y => if y = (s.enter c.key).db.nextRid then waiterQ (Engine2.abs s) c else waiterOf ((s.enter c.key).newLock c data).1.k y) := by
      rw [abs_waiters, ← heK]
      show ((((s.enter c.key).newLock c data).1.k.wait.map (·.rid)).filter (fun x => !(s.enter c.key).k.deadWaiter x)).map (waiterOf (s.enter c.key).k) = _
      apply filter_map_congr_on
      intro y hy
      have e : y ≠ (s.enter c.key).db.nextRid := fun e' => hrw (e' ▸ hy)
      simp only [e, if_false]
      refine ⟨?_, fun _ => ?_⟩
      · unfold Key.deadWaiter; rw [hgetN y e]
      · unfold waiterOf; rw [hgetN y e]
    rw [hl, hr]
    rw [if_pos rfl] at key
    exact key
  -- the holders
  have hholders : (Key.abs ((((((s.enter c.key).newLock c data).1.modK (·.addWaitLock (s.enter c.key).db.nextRid)).addTimeOut (s.enter c.key).db.nextRid).ref (s.enter c.key).db.nextRid).ctr (fun x => { x with waitCount := x.waitCount + 1 })).k).holders = (Key.abs (s.getKey c.key)).holders := by
    rw [← heK]
    refine abs_holders_congr (X := (· = (s.enter c.key).db.nextRid)) a2 a3 px (fun y hy e => hnh (e ▸ hy)) ?_
    intro y hy
    apply gF.lv.rc.dang
    have h1 : y ∈ ((((((s.enter c.key).newLock c data).1.modK (·.addWaitLock (s.enter c.key).db.nextRid)).addTimeOut (s.enter c.key).db.nextRid).ref (s.enter c.key).db.nextRid).ctr (fun x => { x with waitCount := x.waitCount + 1 })).k.current.toList ++ ((((((s.enter c.key).newLock c data).1.modK (·.addWaitLock (s.enter c.key).db.nextRid)).addTimeOut (s.enter c.key).db.nextRid).ref (s.enter c.key).db.nextRid).ctr (fun x => { x with waitCount := x.waitCount + 1 })).k.locks := by
      show y ∈ (((s.enter c.key).newLock c data).1.k.addWaitLock (s.enter c.key).db.nextRid).current.toList ++ (((s.enter c.key).newLock c data).1.k.addWaitLock (s.enter c.key).db.nextRid).locks
      rw [a2, a3]; exact hy
    have := qRefs_pos_of_holder _ _ h1
    show 0 < (((((((s.enter c.key).newLock c data).1.modK (·.addWaitLock (s.enter c.key).db.nextRid)).addTimeOut (s.enter c.key).db.nextRid).ref (s.enter c.key).db.nextRid).ctr (fun x => { x with waitCount := x.waitCount + 1 })).k.qRefs y : Int) + 0
    omega
  have habsF : Key.abs ((((((s.enter c.key).newLock c data).1.modK (·.addWaitLock (s.enter c.key).db.nextRid)).addTimeOut (s.enter c.key).db.nextRid).ref (s.enter c.key).db.nextRid).ctr (fun x => { x with waitCount := x.waitCount + 1 })).k = keyQ (Key.abs (s.getKey c.key)) (waiterQ (Engine2.abs s) c) := by
    refine abs_ext ?_ ?_ hholders hwaiters rfl
    · show (((s.enter c.key).newLock c data).1.k.addWaitLock (s.enter c.key).db.nextRid).key = (s.getKey c.key).key
      rw [addWaitLock_key, ← heK]; rfl
    · show (((s.enter c.key).newLock c data).1.k.addWaitLock (s.enter c.key).db.nextRid).locked = (s.getKey c.key).locked
      rw [addWaitLock_locked, ← heK]; rfl
  have hscF : Scal (dbQ (Engine2.abs s)) ((((((s.enter c.key).newLock c data).1.modK (·.addWaitLock (s.enter c.key).db.nextRid)).addTimeOut (s.enter c.key).db.nextRid).ref (s.enter c.key).db.nextRid).ctr (fun x => { x with waitCount := x.waitCount + 1 })).db := by
    refine ⟨hsc0.now, hsc0.tCheck, hsc0.eCheck, ?_, hsc0.leader, ?_⟩
    · show (Engine2.abs s).seq + 1 = (s.enter c.key).db.seq + 1
      rw [hsc0.seq]
    · show ({ (Engine2.abs s).ctr with waitCount := (Engine2.abs s).ctr.waitCount + 1 } : Engine.Counters) =
        { (s.enter c.key).db.ctr with waitCount := (s.enter c.key).db.ctr.waitCount + 1 }
      rw [hsc0.ctr]
  have hfin := sim_lock_finish s hq c data .queue (dbQ (Engine2.abs s)) (keyQ (Key.abs (s.getKey c.key)) (waiterQ (Engine2.abs s) c)) rfl
    (getKey_key _ _) hscF ⟨fun _ => habsF, fun h => by
      have h' : ((((((s.enter c.key).newLock c data).1.modK (·.addWaitLock (s.enter c.key).db.nextRid)).addTimeOut (s.enter c.key).db.nextRid).ref (s.enter c.key).db.nextRid).ctr (fun x => { x with waitCount := x.waitCount + 1 })).gone = true := h
      rw [hgF] at h'; exact absurd h' (by simp)⟩ hcls
  rw [applyLock_queue_eq, hkabs]
  refine ⟨hfin, ?_⟩
  show (s.enter c.key).out.map (·.r) = []
  rw [enter_out]; rfl

/-- without a value frame and without a value cell the equal-terms shortcut of a data-flagged update is never taken -/
theorem classifyLock_no_ued (s : DB) (c : Engine.Cmd) (h : Nat) (hcell : (s.getKey c.key).cell = none) :
    classifyLock s c none ≠ .updateEqualData h := by
  intro hb
  have hds : ∀ (c' : Engine.Cmd) (x : Nat),
      dataSettled (({ db := s, k := s.getKey c.key } : W).procData .lock c' (frameOf c' none) x).k x = false := by
    intro c' x
    have : frameOf c' none = none := by unfold frameOf; split <;> rfl
    rw [this]
    unfold W.procData dataSettled
    simp [hcell]
  unfold classifyLock at hb
  simp only [hds, Bool.false_and, Bool.false_eq_true, if_false] at hb
  repeat' split at hb
  all_goals (try (simp at hb))

end Slock.Sim
