import Slock.Proofs.QueueRun
import Slock.Proofs.QueueResize
/-! C20: the lifted theorems with the maintenance operations included — operation sequences of any length that mix
Push / PushLeft / Pop / PopRight / Head / Tail / Len / Reset / Rellac / freeQueue with in-place holes, iteration,
Shrink, Resize and Restructuring (each maintenance operation under its decidable precondition), for the plain deque;
and Push / Pop / Remove / restructuring / Len sequences for `LongWaitLockQueue`. -/
namespace Slock.Queue

/-- the invariant carried through maintenance-inclusive runs -/
def QInv2 (q : Q) : Prop := QInv q ∧ HeadClean q

/-- the precondition of `Resize`: either it has nothing to do (the head node has not moved past `baseNodeSize`), or no
spare node lies behind the tail node and the recomputed allocation size is sane -/
def ResizeOK (q : Q) : Prop := q.hni ≤ q.baseNodeSize ∨ (NoSpare q ∧ ResizeQs q)
instance (q : Q) : Decidable (ResizeOK q) := by unfold ResizeOK; exact inferInstance

inductive MOp
  | base (op : Op)
  | hole (pos : Nat)
  | iter
  | shrink (sz : Nat)
  | resize
  | restructuring
  deriving Repr

inductive MObs
  | base (o : Obs)
  | bool (b : Bool)
  | list (l : List Elem)
  | nat (n : Nat)
  | unit
  deriving Repr

/-- the decidable precondition of each operation -/
def preM (q : Q) : MOp → Prop
  | .base _ => True
  | .hole _ => True
  | .iter => True
  | .shrink sz => ShrinkNoop q sz
  | .resize => ResizeOK q
  | .restructuring => NoSpare q

instance (q : Q) (op : MOp) : Decidable (preM q op) := by
  cases op <;> simp only [preM] <;> exact inferInstance

def stepM (q : Q) : MOp → Res (Q × MObs)
  | .base op => do let (q, o) ← stepModel q op; pure (q, .base o)
  | .hole pos => do let (q, b) ← hole q pos; pure (q, .bool b)
  | .iter => do let l ← iterAll q; pure (q, .list l.flatten)
  | .shrink sz => do let (q, n) ← shrink q sz; pure (q, .nat n)
  | .resize => do let q ← resize q; pure (q, .unit)
  | .restructuring => do let q ← restructuring q; pure (q, .unit)

def runM : Q → List MOp → Res (Q × List MObs)
  | q, [] => .ok (q, [])
  | q, op :: ops => do
    let (q1, o) ← stepM q op
    let (q2, os) ← runM q1 ops
    pure (q2, o :: os)

/-- every operation of the run is called inside its precondition (evaluated along the model run) -/
def runPre : Q → List MOp → Bool
  | _, [] => true
  | q, op :: ops =>
    decide (preM q op) &&
      (match stepM q op with
       | .ok (q', _) => runPre q' ops
       | _ => false)

/-- SPEC step: the plain deque with holes; iteration lists the content, a hole replaces one entry by nil,
Restructuring drops the nil entries, Shrink / Resize change nothing -/
def stepSpecM : List Elem → MOp → MObs → List Elem → Prop
  | l, .base op, o, l' => ∃ o', o = .base o' ∧ stepSpec l op o' l'
  | l, .hole pos, o, l' => o = .bool (decide (pos < l.length)) ∧ l' = l.set pos none
  | l, .iter, o, l' => o = .list l ∧ l' = l
  | l, .shrink _, o, l' => o = .nat 0 ∧ l' = l
  | l, .resize, o, l' => o = .unit ∧ l' = l
  | l, .restructuring, o, l' => o = .unit ∧ l' = l.filter Option.isSome

inductive SpecRunM : List Elem → List MOp → List MObs → List Elem → Prop
  | nil (l : List Elem) : SpecRunM l [] [] l
  | cons {l l1 l2 : List Elem} {op : MOp} {o : MObs} {ops : List MOp} {os : List MObs} :
      stepSpecM l op o l1 → SpecRunM l1 ops os l2 → SpecRunM l (op :: ops) (o :: os) l2

/-- the base operations also keep "cells before the head cursor are nil" -/
theorem step_refines2 {q : Q} (h : QInv2 q) (op : Op) :
    ∃ q' o, stepModel q op = .ok (q', o) ∧ QInv2 q' ∧ stepSpec (abs q) op o (abs q') := by
  obtain ⟨hi, hc⟩ := h
  cases op with
  | push x =>
    obtain ⟨q', e, hq, ha, hcl⟩ := push_spec hi x
    exact ⟨q', .unit, by simp [stepModel, e], ⟨hq, hcl hc⟩, rfl, ha⟩
  | pushLeft x =>
    by_cases hf : q.hni = 0 ∧ q.hqi = 0
    · exact ⟨q, .full, by simp [stepModel, pushLeft_full q x hf], ⟨hi, hc⟩, Or.inr ⟨rfl, rfl⟩⟩
    · obtain ⟨q', e, hq, ha, hcl⟩ := pushLeft_spec hi x hf
      exact ⟨q', .unit, by simp [stepModel, e], ⟨hq, hcl hc⟩, Or.inl ⟨rfl, ha⟩⟩
  | pop =>
    obtain ⟨q', e, hq, ha, hcl⟩ := pop_spec hi
    exact ⟨q', _, by simp [stepModel, e], ⟨hq, hcl hc⟩, rfl, ha⟩
  | popRight =>
    obtain ⟨q', e, hq, ha, hcl⟩ := popRight_spec hi
    exact ⟨q', _, by simp [stepModel, e], ⟨hq, hcl hc⟩, rfl, ha⟩
  | head => exact ⟨q, _, by simp [stepModel, head_refines hi], ⟨hi, hc⟩, rfl, rfl⟩
  | tail => exact ⟨q, _, by simp [stepModel, tail_refines hi], ⟨hi, hc⟩, rfl, rfl⟩
  | len => exact ⟨q, _, by simp [stepModel, len_refines hi], ⟨hi, hc⟩, rfl, rfl⟩
  | reset =>
    obtain ⟨q', e, hq, ha, hcl⟩ := reset_spec hi
    exact ⟨q', .unit, by simp [stepModel, e], ⟨hq, hcl⟩, rfl, ha⟩
  | rellac =>
    obtain ⟨q', e, hq, ha, hcl⟩ := rellac_spec hi
    exact ⟨q', .unit, by simp [stepModel, e], ⟨hq, hcl⟩, rfl, ha⟩
  | freeQueue =>
    obtain ⟨q', e, hq, ha, hcl⟩ := freeQueue_spec hi
    exact ⟨q', .unit, by simp [stepModel, e], ⟨hq, hcl hc⟩, rfl, ha⟩

theorem stepM_refines {q : Q} (h : QInv2 q) (op : MOp) (hp : preM q op) :
    ∃ q' o, stepM q op = .ok (q', o) ∧ QInv2 q' ∧ stepSpecM (abs q) op o (abs q') := by
  cases op with
  | base op =>
    obtain ⟨q', o, e, hq, hs⟩ := step_refines2 h op
    exact ⟨q', .base o, by simp [stepM, e], hq, o, rfl, hs⟩
  | hole pos =>
    obtain ⟨q', e, hq, ha, hcl⟩ := hole_spec h.1 pos
    exact ⟨q', _, by simp [stepM, e], ⟨hq, hcl h.2⟩, rfl, ha⟩
  | iter =>
    obtain ⟨l, e, hl⟩ := iterAll_refines h.1
    exact ⟨q, .list l.flatten, by simp [stepM, e], h, by rw [hl], rfl⟩
  | shrink sz =>
    exact ⟨q, _, by simp [stepM, shrink_refines h.1 sz hp], h, rfl, rfl⟩
  | resize =>
    obtain ⟨q', e, hq, ha, hcl⟩ := resize_spec h.1 hp
    exact ⟨q', _, by simp [stepM, e], ⟨hq, hcl h.2⟩, rfl, ha⟩
  | restructuring =>
    obtain ⟨q', e, hq, ha, hcl⟩ := restructuring_refines h.1 h.2 hp
    exact ⟨q', _, by simp [stepM, e], ⟨hq, hcl⟩, rfl, ha⟩

/-- **lifted, maintenance included**: every operation sequence (any length, any mix) in which each maintenance
operation is called inside its precondition runs without panic, keeps the invariant (hence stays inside the
preconditions' domain of discourse) and produces exactly the observations of the plain deque with holes. -/
theorem runM_refines {q : Q} (h : QInv2 q) (ops : List MOp) (hp : runPre q ops = true) :
    ∃ q' os, runM q ops = .ok (q', os) ∧ QInv2 q' ∧ SpecRunM (abs q) ops os (abs q') := by
  induction ops generalizing q with
  | nil => exact ⟨q, [], rfl, h, SpecRunM.nil _⟩
  | cons op ops ih =>
    simp only [runPre, Bool.and_eq_true, decide_eq_true_eq] at hp
    obtain ⟨hp1, hp2⟩ := hp
    obtain ⟨q1, o, e1, h1, s1⟩ := stepM_refines h op hp1
    rw [e1] at hp2
    obtain ⟨q2, os, e2, h2, s2⟩ := ih h1 hp2
    exact ⟨q2, o :: os, by simp [runM, e1, e2], h2, SpecRunM.cons s1 s2⟩

theorem runM_from_new (b n s : Nat) (hb : 1 ≤ b) (hn : 1 ≤ n) (hs : 1 ≤ s) (hs2 : s < 1073741824) (ops : List MOp) :
    ∃ q0, newQueue b n s = .ok q0 ∧ (runPre q0 ops = true →
      ∃ q' os, runM q0 ops = .ok (q', os) ∧ QInv2 q' ∧ SpecRunM [] ops os (abs q')) := by
  obtain ⟨q0, e0, h0, a0⟩ := newQueue_inv b n s hb hn hs hs2
  have hc0 : HeadClean q0 := by
    have : q0.hni = 0 ∧ q0.hqi = 0 := by
      have hn0 : ¬ n = 0 := by omega
      have hb0 : ¬ b = 0 := by omega
      simp only [newQueue, hn0, hb0, if_false] at e0
      injection e0 with e0; subst e0; exact ⟨rfl, rfl⟩
    exact HeadClean_origin this.1 this.2
  refine ⟨q0, e0, fun hp => ?_⟩
  obtain ⟨q', os, e, h', sr⟩ := runM_refines ⟨h0, hc0⟩ ops hp
  rw [a0] at sr
  exact ⟨q', os, e, h', sr⟩

/-! ### LongWaitLockQueue -/

inductive LOp
  | push (id : Nat)
  | pop
  | remove (id p : Nat)
  | restructuring
  | len
  deriving Repr

def preL (l : LongQ) : LOp → Prop
  | .remove id p => removeAt l id p = true
  | .restructuring => LongQsOK l.q
  | _ => True

instance (l : LongQ) (op : LOp) : Decidable (preL l op) := by
  cases op <;> simp only [preL] <;> exact inferInstance

def stepL (l : LongQ) : LOp → Res (LongQ × Obs)
  | .push id => do let l ← longPush l id; pure (l, .unit)
  | .pop => do let (l, x) ← longPop l; pure (l, .elem x)
  | .remove id _ => do let l ← longRemove l id; pure (l, .unit)
  | .restructuring => do let l ← longRestructuring l; pure (l, .unit)
  | .len => do let n ← len l.q; pure (l, .int n)

def runL : LongQ → List LOp → Res (LongQ × List Obs)
  | l, [] => .ok (l, [])
  | l, op :: ops => do
    let (l1, o) ← stepL l op
    let (l2, os) ← runL l1 ops
    pure (l2, o :: os)

def runPreL : LongQ → List LOp → Bool
  | _, [] => true
  | l, op :: ops =>
    decide (preL l op) &&
      (match stepL l op with
       | .ok (l', _) => runPreL l' ops
       | _ => false)

def stepSpecL : List Elem → LOp → Obs → List Elem → Prop
  | l, .push id, o, l' => o = .unit ∧ l' = l ++ [some id]
  | l, .pop, o, l' => o = .elem l.head?.join ∧ l' = l.tail
  | l, .remove _ p, o, l' => o = .unit ∧ l' = l.set p none
  | l, .restructuring, o, l' => o = .unit ∧ l' = l.filter Option.isSome
  | l, .len, o, l' => o = .int (l.length : Int) ∧ l' = l

inductive SpecRunL : List Elem → List LOp → List Obs → List Elem → Prop
  | nil (l : List Elem) : SpecRunL l [] [] l
  | cons {l l1 l2 : List Elem} {op : LOp} {o : Obs} {ops : List LOp} {os : List Obs} :
      stepSpecL l op o l1 → SpecRunL l1 ops os l2 → SpecRunL l (op :: ops) (o :: os) l2

theorem stepL_refines {l : LongQ} (h : LInv l) (op : LOp) (hp : preL l op) :
    ∃ l' o, stepL l op = .ok (l', o) ∧ LInv l' ∧ stepSpecL (abs l.q) op o (abs l'.q) := by
  cases op with
  | push id =>
    obtain ⟨l', e, hl, ha⟩ := longPush_spec h id
    exact ⟨l', .unit, by simp [stepL, e], hl, rfl, ha⟩
  | pop =>
    obtain ⟨l', e, hl, ha⟩ := longPop_spec h
    exact ⟨l', _, by simp [stepL, e], hl, rfl, ha⟩
  | remove id p =>
    obtain ⟨l', e, hl, ha⟩ := longRemove_spec h id p hp
    exact ⟨l', .unit, by simp [stepL, e], hl, rfl, ha⟩
  | restructuring =>
    obtain ⟨l', e, hl, ha⟩ := longRestructuring_spec h hp
    exact ⟨l', .unit, by simp [stepL, e], hl, rfl, ha⟩
  | len => exact ⟨l, _, by simp [stepL, len_refines h.1], h, rfl, rfl⟩

/-- **lifted, LongWaitLockQueue**: Push / Pop / Remove / restructuring / Len sequences of any length. -/
theorem runL_refines {l : LongQ} (h : LInv l) (ops : List LOp) (hp : runPreL l ops = true) :
    ∃ l' os, runL l ops = .ok (l', os) ∧ LInv l' ∧ SpecRunL (abs l.q) ops os (abs l'.q) := by
  induction ops generalizing l with
  | nil => exact ⟨l, [], rfl, h, SpecRunL.nil _⟩
  | cons op ops ih =>
    simp only [runPreL, Bool.and_eq_true, decide_eq_true_eq] at hp
    obtain ⟨hp1, hp2⟩ := hp
    obtain ⟨l1, o, e1, h1, s1⟩ := stepL_refines h op hp1
    rw [e1] at hp2
    obtain ⟨l2, os, e2, h2, s2⟩ := ih h1 hp2
    exact ⟨l2, o :: os, by simp [runL, e1, e2], h2, SpecRunL.cons s1 s2⟩

end Slock.Queue
