import Slock.Proofs.Engine2RCQ
/-! Stage-2 engine: the invariant of the database and of an operation in progress.

* `DBI db` (between operations): key ids distinct; every key record satisfies the reference-count invariant with no surplus, its
  record ids are below `nextRid`, a record that is a live queued request has no expiry-wheel entry; `KeyCount` = number of key records.
* `DBside w` (during an operation): the same for all OTHER key records of `w.db`, plus "reclaimed ⇔ unlinked" for this one.
  Every helper keeps it (`DBside.of_fr`: a consequence of the frame relation).
* `Lv w ex` (during an operation, while the record is not reclaimed): the reference-count invariant of the record being worked on,
  with surplus `ex`. -/
namespace Slock.Engine2

def RecOk (r : Rec) : Prop := r.timeouted = false → r.eSched.isSome = false

structure KeyOK (nextRid : Nat) (k : Key) : Prop where
  rc : RCx k (fun _ => 0)
  fresh : ∀ r ∈ k.recs, r.rid < nextRid
  ok : ∀ r ∈ k.recs, RecOk r

theorem KeyOK.mono {n m : Nat} {k : Key} (h : KeyOK n k) (hnm : n ≤ m) : KeyOK m k :=
  ⟨h.rc, fun r hr => Nat.lt_of_lt_of_le (h.fresh r hr) hnm, h.ok⟩

theorem KeyOK.ofNewKey (n key : Nat) : KeyOK n (newKey key) :=
  ⟨RCx.ofNewKey key, by simp [newKey], by simp [newKey]⟩

structure DBI (db : DB) : Prop where
  kn : (db.keys.map (·.key)).Nodup
  ks : ∀ k ∈ db.keys, KeyOK db.nextRid k
  kc : db.keyCount = db.keys.length

theorem DBI.init (now aofTime : Nat) : DBI (DB.init now aofTime) := ⟨by simp [DB.init], by simp [DB.init], by simp [DB.init]⟩

structure DBside (w : W) : Prop where
  kn : (w.db.keys.map (·.key)).Nodup
  others : ∀ k ∈ w.db.keys, k.key ≠ w.k.key → KeyOK w.db.nextRid k
  kc : w.db.keyCount = w.db.keys.length
  present : w.gone = false → w.db.hasKey w.k.key = true
  absent : w.gone = true → w.db.hasKey w.k.key = false

theorem length_filter_key {l : List Key} {n : Nat} (hn : (l.map (·.key)).Nodup) (hm : ∃ k ∈ l, k.key = n) :
    (l.filter (·.key != n)).length + 1 = l.length := by
  induction l with
  | nil => obtain ⟨r, hr, _⟩ := hm; simp at hr
  | cons a as ih =>
    simp only [List.map_cons, List.nodup_cons] at hn
    by_cases e : a.key = n
    · have h1 : (a.key != n) = false := by simp [e]
      have hall : as.filter (·.key != n) = as := by
        apply List.filter_eq_self.mpr
        intro y hy
        have : y.key ≠ n := fun e' => hn.1 (by rw [e, ← e']; exact List.mem_map.mpr ⟨y, hy, rfl⟩)
        simpa using this
      simp [List.filter, h1, hall]
    · have h1 : (a.key != n) = true := by simpa using e
      obtain ⟨r, hr, er⟩ := hm
      have hr' : r ∈ as := by
        rcases List.mem_cons.mp hr with e' | h'
        · exact absurd (e' ▸ er) e
        · exact h'
      simp only [List.filter, h1, List.length_cons]
      have := ih hn.2 ⟨r, hr', er⟩
      omega

theorem hasKey_iff (db : DB) (n : Nat) : db.hasKey n = true ↔ ∃ k ∈ db.keys, k.key = n := by
  constructor
  · intro h
    exact ⟨db.getKey n, getKey_mem db n h, getKey_key db n⟩
  · rintro ⟨k, hk, e⟩
    cases hh : db.hasKey n with
    | true => rfl
    | false => exact absurd e ((hasKey_eq_false_iff db n).mp hh k hk)

/-- every helper of an operation keeps the database side in order -/
theorem DBside.of_fr {w w' : W} (h : DBside w) (f : Fr w w') : DBside w' := by
  rcases f.dbk with ⟨a1, a2, a3⟩ | ⟨a1, a2, a3, a4⟩
  · refine ⟨by rw [a1]; exact h.kn, ?_, by rw [a1, a2]; exact h.kc, ?_, ?_⟩
    · intro k hk hne
      rw [a1] at hk; rw [f.key] at hne
      exact (h.others k hk hne).mono f.rid
    · intro hg; rw [hasKey_congr a1, f.key]; exact h.present (by rw [← a3]; exact hg)
    · intro hg; rw [hasKey_congr a1, f.key]; exact h.absent (by rw [← a3]; exact hg)
  · have hpres := (hasKey_iff w.db w.k.key).mp (h.present a1)
    refine ⟨?_, ?_, ?_, fun hg => by rw [a2] at hg; exact absurd hg (by simp), ?_⟩
    · rw [a3]
      have : (w.db.keys.filter (·.key != w.k.key)).map (·.key) = (w.db.keys.map (·.key)).filter (· != w.k.key) := by
        rw [List.filter_map]; rfl
      rw [this]; exact List.Nodup.sublist List.filter_sublist h.kn
    · intro k hk hne
      rw [a3] at hk; rw [f.key] at hne
      exact (h.others k (List.mem_filter.mp hk).1 hne).mono f.rid
    · rw [a4, a3]
      have hl := length_filter_key h.kn hpres
      have hc := h.kc
      simp only [decU32]
      have : w.db.keyCount ≠ 0 := by omega
      simp only [this, if_false]; omega
    · intro _
      rw [hasKey_eq_false_iff]
      intro k hk
      rw [a3] at hk
      have := (List.mem_filter.mp hk).2
      rw [f.key]; simpa using this

/-! ### opening and closing an operation -/

theorem DBI.create {db : DB} (h : DBI db) (n : Nat) : DBI (db.create n) := by
  unfold DB.create
  split
  · exact h
  · rename_i hh
    have hh' : db.hasKey n = false := by simpa using hh
    have hall := (hasKey_eq_false_iff db n).mp hh'
    refine ⟨?_, ?_, ?_⟩
    · simp only [List.map_append, List.map_cons, List.map_nil]
      apply List.nodup_append.mpr
      refine ⟨h.kn, by simp, ?_⟩
      intro a ha b hb
      simp at hb
      obtain ⟨y, hy, e⟩ := List.mem_map.mp ha
      rw [hb, ← e]; exact hall y hy
    · intro k hk
      rcases List.mem_append.mp hk with h1 | h1
      · exact h.ks k h1
      · simp at h1; rw [h1]; exact KeyOK.ofNewKey _ _
    · simp [h.kc]

theorem DBI.getKey_ok {db : DB} (h : DBI db) (n : Nat) : KeyOK db.nextRid (db.getKey n) := by
  cases hh : db.hasKey n with
  | true => exact h.ks _ (getKey_mem db n hh)
  | false => rw [getKey_of_not_hasKey db n hh]; exact KeyOK.ofNewKey _ _

theorem DBI.openKey {db : DB} (h : DBI db) (n : Nat) : DBside (db.openKey n) := by
  refine ⟨h.kn, fun k hk _ => h.ks k hk, h.kc, ?_, ?_⟩
  · intro hg; simpa [DB.openKey, getKey_key] using hg
  · intro hg; simpa [DB.openKey, getKey_key] using hg

theorem DBI.enter {db : DB} (h : DBI db) (n : Nat) : DBside (db.enter n) := by
  have h1 := (h.create n).openKey n
  exact h1

/-- storing the record back (or not, if it was reclaimed) -/
theorem DBI.commit {w : W} (hs : DBside w) (hk : w.gone = false → KeyOK w.db.nextRid w.k) : DBI w.commit := by
  unfold W.commit
  cases hg : w.gone with
  | true =>
    simp only [if_true]
    have habs := (hasKey_eq_false_iff w.db w.k.key).mp (hs.absent hg)
    exact ⟨hs.kn, fun k hkm => hs.others k hkm (habs k hkm), hs.kc⟩
  | false =>
    simp only [Bool.false_eq_true, if_false]
    have hp := hs.present hg
    unfold DB.setKey
    simp only [hp, if_true]
    refine ⟨?_, ?_, ?_⟩
    · have : (w.db.keys.map (fun x => if x.key == w.k.key then w.k else x)).map (·.key) = w.db.keys.map (·.key) := by
        rw [List.map_map]
        apply List.map_congr_left
        intro x _
        simp only [Function.comp]
        split
        · rename_i e; exact (by simpa using e : x.key = w.k.key).symm
        · rfl
      simp only []
      rw [this]; exact hs.kn
    · intro k hkm
      simp only [List.mem_map] at hkm
      obtain ⟨x, hx, e⟩ := hkm
      by_cases hc : (x.key == w.k.key) = true
      · rw [if_pos hc] at e; rw [← e]; exact hk hg
      · rw [if_neg hc] at e; rw [← e]; exact hs.others x hx (by simpa using hc)
    · simp only [List.length_map]; exact hs.kc

/-! ### the records of one key record through the helpers (side conditions) -/

/-- the records of `k'` are records of `k`, as far as the side conditions can tell -/
def RecsLe (k' k : Key) : Prop :=
  ∀ r' ∈ k'.recs, ∃ r ∈ k.recs, r'.rid = r.rid ∧ r'.timeouted = r.timeouted ∧ r'.eSched.isSome = r.eSched.isSome

theorem RecsLe.refl (k : Key) : RecsLe k k := fun r hr => ⟨r, hr, rfl, rfl, rfl⟩
theorem RecsLe.trans {a b c : Key} (h1 : RecsLe a b) (h2 : RecsLe b c) : RecsLe a c := by
  intro r hr
  obtain ⟨r1, hr1, e1, e2, e3⟩ := h1 r hr
  obtain ⟨r2, hr2, f1, f2, f3⟩ := h2 r1 hr1
  exact ⟨r2, hr2, e1.trans f1, e2.trans f2, e3.trans f3⟩
theorem RecsLe.of_eq {a b : Key} (h : a.recs = b.recs) : RecsLe a b := by intro r hr; rw [h] at hr; exact ⟨r, hr, rfl, rfl, rfl⟩

theorem RecsLe.modRec (k : Key) (rid : Nat) (f : Rec → Rec) (hf : ∀ r, (f r).rid = r.rid ∧ (f r).timeouted = r.timeouted ∧
    (f r).eSched.isSome = r.eSched.isSome) : RecsLe (k.modRec rid f) k := by
  intro r' hr'
  unfold Key.modRec at hr'
  simp only [List.mem_map] at hr'
  obtain ⟨r, hr, e⟩ := hr'
  refine ⟨r, hr, ?_⟩
  rw [← e]; split
  · exact hf r
  · exact ⟨rfl, rfl, rfl⟩

theorem RecsLe.free (k : Key) (rid : Nat) : RecsLe (k.free rid) k := by
  unfold Key.free
  split
  · intro r hr; exact ⟨r, (List.mem_filter.mp hr).1, rfl, rfl, rfl⟩
  · exact RecsLe.refl _

theorem RecsLe.unrefOnly (k : Key) (rid : Nat) : RecsLe (k.unrefOnly rid) k := RecsLe.modRec _ _ _ (fun _ => ⟨rfl, rfl, rfl⟩)

theorem RecsLe.unref (k : Key) (rid : Nat) : RecsLe (k.unref rid) k := by
  unfold Key.unref
  simp only []
  split
  · exact (RecsLe.free _ _).trans (RecsLe.unrefOnly _ _)
  · exact RecsLe.unrefOnly _ _

theorem RecsLe.foldl_unref (d : List Nat) (k : Key) : RecsLe (d.foldl (fun k x => k.unref x) k) k := by
  induction d generalizing k with
  | nil => exact RecsLe.refl _
  | cons a as ih => simp only [List.foldl_cons]; exact (ih _).trans (RecsLe.unref _ _)

theorem RecsLe.foldl_unrefW (d : List WEnt) (k : Key) : RecsLe (d.foldl (fun k x => k.unref x.rid) k) k := by
  induction d generalizing k with
  | nil => exact RecsLe.refl _
  | cons a as ih => simp only [List.foldl_cons]; exact (ih _).trans (RecsLe.unref _ _)

theorem RecsLe.locksPush (k : Key) (rid : Nat) : RecsLe (k.locksPush rid) k := by
  unfold Key.locksPush
  simp only []
  split
  · exact RecsLe.of_eq rfl
  · split
    · exact RecsLe.of_eq rfl
    · refine (RecsLe.foldl_unref _ _).trans ?_
      split <;> exact RecsLe.of_eq rfl

theorem RecsLe.locksSkip (take : Bool) (l : List Nat) (k : Key) : RecsLe (locksSkip take l k).1 k := by
  induction l generalizing k with
  | nil => exact RecsLe.refl _
  | cons x rest ih =>
    unfold Slock.Engine2.locksSkip
    split
    · split
      · exact RecsLe.of_eq rfl
      · exact RecsLe.refl _
    · exact (ih _).trans ((RecsLe.unref _ _).trans (RecsLe.of_eq rfl))

theorem RecsLe.removeLock (k : Key) (rid : Nat) : RecsLe (k.removeLock rid) k := by
  unfold Key.removeLock
  simp only []
  have h1 : RecsLe (k.modRec rid fun r => { r with depth := 0 }) k := RecsLe.modRec _ _ _ (fun _ => ⟨rfl, rfl, rfl⟩)
  split
  · refine RecsLe.trans (RecsLe.of_eq rfl) ((RecsLe.locksSkip true _ _).trans ?_)
    exact (RecsLe.of_eq rfl).trans ((RecsLe.unrefOnly _ _).trans h1)
  · exact (RecsLe.locksSkip false _ _).trans h1

theorem RecsLe.waitPush (k : Key) (e : WEnt) : RecsLe (k.waitPush e) k := by
  unfold Key.waitPush
  split
  · exact RecsLe.of_eq rfl
  · simp only []
    split
    · exact RecsLe.of_eq rfl
    · split
      · exact RecsLe.of_eq rfl
      · refine (RecsLe.foldl_unrefW _ _).trans ?_
        split <;> exact RecsLe.of_eq rfl

theorem RecsLe.waitSkip (l : List WEnt) (k : Key) : RecsLe (waitSkip l k).1 k := by
  induction l generalizing k with
  | nil => exact RecsLe.refl _
  | cons e rest ih =>
    unfold Slock.Engine2.waitSkip
    split
    · exact (ih _).trans ((RecsLe.unref _ _).trans (RecsLe.of_eq rfl))
    · exact RecsLe.refl _

theorem RecsLe.getWaitLock (k : Key) : RecsLe k.getWaitLock.1 k := RecsLe.waitSkip _ _

theorem RecsLe.settleWait (k : Key) : RecsLe k.settleWait k := by
  unfold Key.settleWait
  split
  · exact (RecsLe.of_eq rfl).trans (RecsLe.getWaitLock k)
  · exact RecsLe.getWaitLock k

theorem RecsLe.addWaitLock (k : Key) (rid : Nat) : RecsLe (k.addWaitLock rid) k := by
  unfold Key.addWaitLock
  simp only []
  refine RecsLe.trans (RecsLe.of_eq rfl) ((RecsLe.modRec _ _ _ (by intro _; exact ⟨rfl, rfl, rfl⟩)).trans ((RecsLe.waitPush _ _).trans ?_))
  split
  · split
    · split
      · exact RecsLe.of_eq rfl
      · exact RecsLe.refl _
    · exact RecsLe.refl _
  · exact RecsLe.refl _

theorem RecsLe.addLock (k : Key) (rid : Nat) (f : Rec → Rec) (hf : ∀ r, (f r).rid = r.rid ∧ (f r).timeouted = r.timeouted ∧
    (f r).eSched.isSome = r.eSched.isSome) : RecsLe (k.addLock rid f) k := by
  unfold Key.addLock
  split
  · exact (RecsLe.of_eq rfl).trans (RecsLe.modRec _ _ _ hf)
  · exact (RecsLe.locksPush _ _).trans (RecsLe.modRec _ _ _ hf)

/-! ### the invariant of the record being worked on -/

structure Side (n : Nat) (k : Key) : Prop where
  fresh : ∀ r ∈ k.recs, r.rid < n
  ok : ∀ r ∈ k.recs, RecOk r

theorem Side.of_le {n m : Nat} {k k' : Key} (h : Side n k) (l : RecsLe k' k) (hnm : n ≤ m) : Side m k' := by
  refine ⟨?_, ?_⟩
  · intro r hr
    obtain ⟨r0, hr0, e, _⟩ := l r hr
    rw [e]; exact Nat.lt_of_lt_of_le (h.fresh r0 hr0) hnm
  · intro r hr
    obtain ⟨r0, hr0, _, e2, e3⟩ := l r hr
    unfold RecOk
    rw [e2, e3]; exact h.ok r0 hr0

structure Lv (w : W) (ex : Nat → Int) : Prop where
  rc : RCx w.k ex
  side : Side w.db.nextRid w.k

theorem Lv.ofKeyOK {w : W} (h : KeyOK w.db.nextRid w.k) : Lv w (fun _ => 0) := ⟨h.rc, ⟨h.fresh, h.ok⟩⟩
theorem Lv.toKeyOK {w : W} (h : Lv w (fun _ => 0)) : KeyOK w.db.nextRid w.k := ⟨h.rc, h.side.fresh, h.side.ok⟩

theorem Lv.congr {w : W} {ex ex' : Nat → Int} (h : Lv w ex) (e : ∀ x, ex' x = ex x) : Lv w ex' := ⟨h.rc.congr e, h.side⟩

/-- a key-record edit with its own reference-count lemma -/
theorem Lv.modK {w : W} {ex ex' : Nat → Int} (h : Lv w ex) (f : Key → Key) (hrc : RCx (f w.k) ex') (hle : RecsLe (f w.k) w.k) :
    Lv (w.modK f) ex' := ⟨hrc, h.side.of_le hle (Nat.le_refl _)⟩

/-- only the database part changes (counters, sequence numbers, journal, `nextRid` upwards) -/
theorem Lv.db {w w' : W} {ex : Nat → Int} (h : Lv w ex) (hk : w'.k = w.k) (hn : w.db.nextRid ≤ w'.db.nextRid) : Lv w' ex := by
  refine ⟨by rw [hk]; exact h.rc, ?_⟩
  rw [hk]; exact h.side.of_le (RecsLe.refl _) hn

theorem Lv.ctr {w : W} {ex : Nat → Int} (h : Lv w ex) (f : Counters → Counters) : Lv (w.ctr f) ex := h.db rfl (Nat.le_refl _)
theorem Lv.reply {w : W} {ex : Nat → Int} (h : Lv w ex) (c : Cmd) (a b : Nat) (d : Option Bytes) : Lv (w.reply c a b d) ex :=
  h.db rfl (Nat.le_refl _)

/-- a record edit: reference-count lemma supplied, the edited record must still satisfy `RecOk` -/
theorem Lv.modR {w : W} {ex ex' : Nat → Int} (h : Lv w ex) (rid : Nat) (f : Rec → Rec) (hf : ∀ r, (f r).rid = r.rid)
    (hrc : RCx (w.k.modRec rid f) ex') (hok : ∀ r ∈ w.k.recs, r.rid = rid → RecOk (f r)) : Lv (w.modR rid f) ex' := by
  refine ⟨hrc, ?_, ?_⟩
  · intro r hr
    have : (w.k.modRec rid f).recs = w.k.recs.map (fun x => if x.rid == rid then f x else x) := rfl
    simp only [modR_k, this, List.mem_map] at hr
    obtain ⟨r0, hr0, e⟩ := hr
    have : r.rid = r0.rid := by rw [← e]; split; exact hf r0; rfl
    rw [this]; exact h.side.fresh r0 hr0
  · intro r hr
    have : (w.k.modRec rid f).recs = w.k.recs.map (fun x => if x.rid == rid then f x else x) := rfl
    simp only [modR_k, this, List.mem_map] at hr
    obtain ⟨r0, hr0, e⟩ := hr
    by_cases hc : (r0.rid == rid) = true
    · rw [if_pos hc] at e; rw [← e]; exact hok r0 hr0 (by simpa using hc)
    · rw [if_neg hc] at e; rw [← e]; exact h.side.ok r0 hr0

/-- an edit that touches none of: reference count, wheel memberships, `timeouted` -/
theorem Lv.modR_plain {w : W} {ex : Nat → Int} (h : Lv w ex) (rid : Nat) (f : Rec → Rec) (hf : ∀ r, (f r).rid = r.rid)
    (h1 : ∀ r, (f r).refCount = r.refCount) (h2 : ∀ r, (f r).tSched.isSome = r.tSched.isSome) (h3 : ∀ r, (f r).eSched.isSome = r.eSched.isSome)
    (h4 : ∀ r, (f r).timeouted = r.timeouted) : Lv (w.modR rid f) ex := by
  refine h.modR rid f hf (h.rc.modRec_plain rid f hf h1 (fun r => by simp [Rec.wheelRefs, h2, h3])) ?_
  intro r hr _
  unfold RecOk
  rw [h4, h3]; exact h.side.ok r hr

theorem Lv.when {w : W} {ex : Nat → Int} (h : Lv w ex) (b : Bool) (f : W → W) (hf : Lv (f w) ex) : Lv (w.when b f) ex := by
  cases b
  · exact h
  · exact hf

end Slock.Engine2
