import Slock.Proofs.EngineProv
/-!
C01 uniform-Count corollary: if every LOCK command for key `n` carries the same `count = c0 < 0xffff`, the key never has
more than `c0 + 1` simultaneous holders. Invariant: every request queued under `n` has `count = c0`, and
`holders.length ≤ c0 + 1`; a new holder is added only through `grantHold` after `doLock` admitted a command with
`count = c0`, which (with `locked = Σ depth ≥ #holders`) means at most `c0` holders were there.
-/
namespace Slock.Engine

/-- what `doLock` guarantees for a command with a real (non-0xffff) Count -/
theorem doLock_locked_le (k : Key) (c : Cmd) (h : doLock k c = true) (hc : c.count < 0xffff) :
    k.locked = 0 ∨ k.locked ≤ c.count := by
  unfold doLock at h
  by_cases h0 : k.locked = 0
  · exact Or.inl h0
  · right
    simp only [beq_iff_eq, h0, if_false] at h
    by_cases hz : c.count = 0
    · simp [hz] at h
    · simp only [hz, if_false] at h
      cases hh : k.holders.head? with
      | none => simp [hh] at h
      | some cur =>
        simp only [hh] at h
        by_cases hb : k.locked ≥ 0xffff
        · simp only [hb, if_true] at h
          by_cases hb2 : k.locked ≥ 0x7fffffff
          · simp [hb2] at h
          · simp only [hb2, if_false, Bool.and_eq_true, beq_iff_eq] at h
            omega
        · simp only [hb, if_false, Bool.and_eq_true, decide_eq_true_eq] at h
          exact h.2

theorem length_le_depthSum (hs : List Hold) (hp : ∀ h ∈ hs, 1 ≤ h.depth) : hs.length ≤ depthSum hs := by
  induction hs with
  | nil => simp
  | cons x xs ih =>
    simp only [List.length_cons, depthSum_cons]
    have := hp x (by simp)
    have := ih (fun h hh => hp h (List.mem_cons_of_mem _ hh))
    omega

theorem KeyInv.length_le {k : Key} (hk : KeyInv k) : k.holders.length ≤ k.locked := by
  rw [hk.sum]; exact length_le_depthSum _ hk.pos

theorem removeHolder_length_le (hs : List Hold) (h : Hold) : (removeHolder hs h).length ≤ hs.length := by
  induction hs with
  | nil => simp [removeHolder]
  | cons x xs ih =>
    unfold removeHolder
    split
    · simp
    · simp only [List.length_cons]; omega

/-- the uniform-Count invariant of one key record -/
def UC (n c0 : Nat) (k : Key) : Prop :=
  k.key = n → (∀ w ∈ k.waiters, w.cmd.count = c0) ∧ k.holders.length ≤ c0 + 1

theorem UC.empty (n c0 m : Nat) : UC n c0 (emptyKey m) := by
  intro _; simp [emptyKey]

theorem UC.shrink {n c0 : Nat} {k k' : Key} (h : UC n c0 k) (hkey : k'.key = k.key) (hw : ∀ w ∈ k'.waiters, w ∈ k.waiters)
    (hl : k'.holders.length ≤ k.holders.length) : UC n c0 k' := by
  intro hn
  have := h (by rw [← hkey]; exact hn)
  exact ⟨fun w hm => this.1 w (hw w hm), by omega⟩

theorem UC.grant {n c0 : Nat} {k k' : Key} (h : UC n c0 k) (hi : KeyInv k) (hkey : k'.key = k.key)
    (hw : ∀ w ∈ k'.waiters, w ∈ k.waiters) (hl : k'.holders.length = k.holders.length + 1)
    (c : Cmd) (hd : doLock k c = true) (hc : k.key = n → c.count = c0) (hlt : c0 < 0xffff) : UC n c0 k' := by
  intro hn
  have hkn : k.key = n := by rw [← hkey]; exact hn
  have := h hkn
  refine ⟨fun w hm => this.1 w (hw w hm), ?_⟩
  have hcc := hc hkn
  have hlen := hi.length_le
  rcases doLock_locked_le k c hd (by omega) with h0 | h0
  · have := hi.locked_zero_iff.mp h0
    rw [hl, this]; simp
  · omega

/-- wake pass -/
theorem wake_uc (n c0 : Nat) (hlt : c0 < 0xffff) (db : DB) (k : Key) (out : List Reply) (hi : KeyInv k) (hk : UC n c0 k) :
    UC n c0 (wake db k out).2.1 := by
  have := wake_ind (fun _ q => KeyInv q ∧ UC n c0 q) ?_ ?_ db k out ⟨hi, hk⟩
  · exact this.2
  · intro d q d' q' r hp hw
    refine ⟨wakeIter_inv hp.1 hw, ?_⟩
    obtain ⟨w, rest, e1, hd, e2, hkey, _, _, _, hh⟩ := wakeIter_spec hw
    have hsub : ∀ y ∈ q'.waiters, y ∈ q.waiters := by
      intro y hy; rw [e2] at hy; rw [e1]; exact List.mem_cons_of_mem _ hy
    rcases hh with ⟨h1, _, _⟩ | ⟨h1, _, _⟩
    · apply hp.2.grant hp.1 hkey hsub (by rw [h1]; simp) w.cmd hd _ hlt
      intro hn
      exact (hp.2 hn).1 w (by rw [e1]; simp)
    · exact hp.2.shrink hkey hsub (by rw [h1]; exact Nat.le_refl _)
  · intro d q hp
    exact ⟨⟨hp.1.sum, hp.1.pos⟩, hp.2⟩

/-! ### DB level -/

def UCdb (n c0 : Nat) (db : DB) : Prop := ∀ k ∈ db.keys, UC n c0 k

theorem getKey_uc {n c0 : Nat} {db : DB} (h : UCdb n c0 db) (m : Nat) : UC n c0 (db.getKey m) := by
  rcases getKey_mem_or_empty db m with h1 | h1
  · exact h _ h1
  · rw [h1]; exact UC.empty n c0 m

theorem setKey_uc {n c0 : Nat} {db : DB} (h : UCdb n c0 db) {k : Key} (hk : UC n c0 k) : UCdb n c0 (db.setKey k) := by
  intro x hx
  rcases mem_setKey_keys hx with ⟨h1, _⟩ | h1
  · exact h x h1
  · rw [h1]; exact hk

theorem UCdb.of_keys_eq {n c0 : Nat} {db db' : DB} (h : UCdb n c0 db) (e : db'.keys = db.keys) : UCdb n c0 db' := by
  intro k hk; rw [e] at hk; exact h k hk

theorem wake_store_uc {n c0 : Nat} (hlt : c0 < 0xffff) {db0 db : DB} {k : Key} (out : List Reply) (h0 : UCdb n c0 db0)
    (e : db.keys = db0.keys) (hi : KeyInv k) (hk : UC n c0 k) : UCdb n c0 ((wake db k out).1.setKey (wake db k out).2.1) :=
  setKey_uc (h0.of_keys_eq (by rw [wake_keys, e])) (wake_uc n c0 hlt db k out hi hk)

theorem opLock_uc (n c0 : Nat) (hlt : c0 < 0xffff) (db : DB) (c : Cmd) (hc : c.key = n → c.count = c0) (hi : DBInv db)
    (h : UCdb n c0 db) : UCdb n c0 (opLock db c).1 := by
  unfold opLock
  have hk := getKey_uc h c.key
  have hki := getKey_inv hi c.key
  have hkk := getKey_key db c.key
  cases hb : classifyLock db c with
  | p0a | p0b | stateError | unlockedWaitRefused | timeout => exact h
  | «show» cur | updateEqual h' | relockNoHold h' | relockRefused h' => exact h
  | update h' =>
    have hm := classifyLock_mem db c h' (by rw [hb]; rfl)
    simp only [applyLock]
    exact wake_store_uc hlt _ h (updateHold_db_keys _ _ _) (replace_inv hki hm (updateHold_depth _ _ _))
      (hk.shrink rfl (fun w hw => hw) (by simp only [replaceHolder_length]; exact Nat.le_refl _))
  | relock h' =>
    have hm := classifyLock_mem db c h' (by rw [hb]; rfl)
    simp only [applyLock]
    exact wake_store_uc hlt _ h (by simp [updateHold_db_keys]) (relock_inv hki hm (by rw [updateHold_depth]))
      (hk.shrink rfl (fun w hw => hw) (by simp only [replaceHolder_length]; exact Nat.le_refl _))
  | grant =>
    simp only [applyLock]
    have hd := classifyLock_grant_doLock db c hb
    have hg : UC n c0 (grantHold db (db.getKey c.key) c).2 :=
      hk.grant hki (grantHold_key _ _ _) (fun w hw => hw) (by rw [grantHold_holders_eq]; simp) c hd
        (fun hn => hc (by rw [← hkk]; exact hn)) hlt
    have hgi := grantHold_inv db (db.getKey c.key) c hki
    split
    · exact wake_store_uc hlt _ h (grantHold_db_keys _ _ _) hgi hg
    · exact setKey_uc (h.of_keys_eq (grantHold_db_keys db (db.getKey c.key) c)) hg
  | grantNoHold =>
    simp only [applyLock]
    split
    · exact wake_store_uc hlt _ h rfl hki hk
    · exact setKey_uc (h.of_keys_eq rfl) hk
  | queue =>
    simp only [applyLock]
    apply setKey_uc (h.of_keys_eq rfl)
    intro hn
    have hkn : (db.getKey c.key).key = n := hn
    have := hk hkn
    refine ⟨?_, this.2⟩
    intro w hw
    rcases mem_insertWaiter hw with h1 | h1
    · rw [h1]; exact hc (by rw [← hkk]; exact hkn)
    · exact this.1 w h1

theorem opUnlock_uc (n c0 : Nat) (hlt : c0 < 0xffff) (db : DB) (c : Cmd) (hi : DBInv db) (h : UCdb n c0 db) :
    UCdb n c0 (opUnlock db c).1 := by
  unfold opUnlock
  have hk := getKey_uc h c.key
  have hki := getKey_inv hi c.key
  cases hb : classifyUnlock db c with
  | stateError | notLocked | unown | cancelNone => exact h.of_keys_eq rfl
  | cancel w =>
    simp only [applyUnlock]
    exact wake_store_uc hlt _ h rfl (waiters_inv hki _ _) (hk.shrink rfl (fun x hx => mem_removeWaiter hx) (Nat.le_refl _))
  | dec h' c' =>
    have hm := classifyUnlock_mem db c h' (by rw [hb]; rfl)
    have hd := classifyUnlock_dec db c c' h' hb
    simp only [applyUnlock]
    exact wake_store_uc hlt _ h rfl (dec_inv hki hm hd)
      (hk.shrink rfl (fun w hw => hw) (by simp only [replaceHolder_length]; exact Nat.le_refl _))
  | release h' c' =>
    have hm := classifyUnlock_mem db c h' (by rw [hb]; rfl)
    simp only [applyUnlock]
    exact wake_store_uc hlt _ h rfl (release_inv hki hm)
      (hk.shrink rfl (fun w hw => hw) (removeHolder_length_le _ _))

theorem fireTimeout_uc (n c0 : Nat) (hlt : c0 < 0xffff) (db : DB) (key : Nat) (w : Waiter) (hi : DBInv db) (h : UCdb n c0 db) :
    UCdb n c0 (fireTimeout db key w).1 := by
  unfold fireTimeout
  exact wake_store_uc hlt _ h rfl (waiters_inv (getKey_inv hi key) _ _)
    ((getKey_uc h key).shrink rfl (fun x hx => mem_removeWaiter hx) (Nat.le_refl _))

theorem fireExpire_uc (n c0 : Nat) (hlt : c0 < 0xffff) (db : DB) (key : Nat) (hd : Hold) (hm : hd ∈ (db.getKey key).holders)
    (hi : DBInv db) (h : UCdb n c0 db) : UCdb n c0 (fireExpire db key hd).1 := by
  unfold fireExpire
  exact wake_store_uc hlt _ h rfl (release_inv (getKey_inv hi key) hm)
    ((getKey_uc h key).shrink rfl (fun w hw => hw) (removeHolder_length_le _ _))

theorem rearmHold_uc (n c0 : Nat) (db : DB) (hd : Hold) (h : UCdb n c0 db) : UCdb n c0 (rearmHold db hd) := by
  rw [rearmHold_eq]; unfold updateHoldIn
  have h' : UCdb n c0 { db with seq := db.seq + 1 } := h.of_keys_eq rfl
  exact setKey_uc h' ((getKey_uc h' _).shrink rfl (fun w hw => hw) (by simp only [replaceHolder_length]; exact Nat.le_refl _))

/-- re-arming a visited request whose own command satisfies the Count condition -/
theorem rearmWaiter_uc (n c0 : Nat) (db : DB) (w : Waiter) (hw : w.cmd.key = n → w.cmd.count = c0) (h : UCdb n c0 db) :
    UCdb n c0 (rearmWaiter db w) := by
  rw [rearmWaiter_eq]; unfold updateWaiter
  have h' : UCdb n c0 { db with seq := db.seq + 1 } := h.of_keys_eq rfl
  apply setKey_uc h'
  intro hn
  have hkn : (({ db with seq := db.seq + 1 } : DB).getKey w.cmd.key).key = n := hn
  have := getKey_uc h' w.cmd.key hkn
  refine ⟨?_, this.2⟩
  intro x hx
  simp only [List.mem_map] at hx
  obtain ⟨y, hy, e⟩ := hx
  split at e
  · rw [← e]
    have hk : w.cmd.key = n := by rw [← getKey_key ({ db with seq := db.seq + 1 } : DB) w.cmd.key]; exact hkn
    exact hw hk
  · rw [← e]; exact this.1 y hy

/-! ### every queued request that names key `n` carries `count = c0` (wherever it is stored) -/

def WC (n c0 : Nat) (db : DB) : Prop := ∀ w ∈ allW db, w.cmd.key = n → w.cmd.count = c0

theorem WC.of_sub {n c0 : Nat} {db db' : DB} (h : WC n c0 db) (hs : ∀ w ∈ allW db', w ∈ allW db) : WC n c0 db' :=
  fun w hw => h w (hs w hw)

theorem opLock_wc (n c0 : Nat) (db : DB) (c : Cmd) (hc : c.key = n → c.count = c0) (h : WC n c0 db) : WC n c0 (opLock db c).1 := by
  intro w hw
  rcases opLock_waiters db c w hw with h1 | ⟨_, h1⟩
  · exact h w h1
  · rw [h1]; exact hc

theorem rearmWaiter_wc (n c0 : Nat) (db : DB) (w : Waiter) (hw : w.cmd.key = n → w.cmd.count = c0) (h : WC n c0 db) :
    WC n c0 (rearmWaiter db w) := by
  intro x hx
  rcases mem_allW_rearmWaiter hx with h1 | h1
  · exact h x h1
  · rw [h1]; exact hw

/-! ### the three invariants together, through the sweeps -/

structure U3 (n c0 : Nat) (db : DB) : Prop where
  inv : DBInv db
  uc : UCdb n c0 db
  wc : WC n c0 db

theorem foldl_PQ_mem {α β} (P : DB → Prop) (Q : α → Prop) (f : DB × β → α → DB × β)
    (hf : ∀ acc a, Q a → P acc.1 → P (f acc a).1) (l : List α) (hl : ∀ a ∈ l, Q a) (acc : DB × β) (h : P acc.1) :
    P (l.foldl f acc).1 := by
  induction l generalizing acc with
  | nil => exact h
  | cons a as ih =>
    simp only [List.foldl_cons]
    exact ih (fun x hx => hl x (List.mem_cons_of_mem _ hx)) _ (hf acc a (hl a (by simp)) h)

theorem timeoutStep_u3 (n c0 : Nat) (acc : DB × List Waiter) (w : Waiter) (hw : w.cmd.key = n → w.cmd.count = c0)
    (h : U3 n c0 acc.1) : U3 n c0 (timeoutStep acc w).1 := by
  unfold timeoutStep
  split
  · exact ⟨rearmWaiter_inv _ _ h.inv, rearmWaiter_uc n c0 _ w hw h.uc, rearmWaiter_wc n c0 _ w hw h.wc⟩
  · exact h

theorem fireTimeoutStep_u3 (n c0 : Nat) (hlt : c0 < 0xffff) (acc : DB × List Reply) (w : Waiter) (h : U3 n c0 acc.1) :
    U3 n c0 (fireTimeoutStep acc w).1 := by
  unfold fireTimeoutStep
  split
  · exact ⟨fireTimeout_inv _ _ _ h.inv, fireTimeout_uc n c0 hlt _ _ _ h.inv h.uc, h.wc.of_sub (fun _ hx => mem_allW_fireTimeout hx)⟩
  · exact h

theorem expireStep_u3 (n c0 : Nat) (acc : DB × List Hold) (hd : Hold) (h : U3 n c0 acc.1) : U3 n c0 (expireStep acc hd).1 := by
  unfold expireStep
  split
  · refine ⟨rearmHold_inv _ _ h.inv, rearmHold_uc n c0 _ hd h.uc, h.wc.of_sub (fun x hx => ?_)⟩
    unfold rearmHold at hx
    exact mem_allW_of_keys_eq rfl (mem_allW_updateHoldIn hx)
  · exact h

theorem fireExpireStep_u3 (n c0 : Nat) (hlt : c0 < 0xffff) (acc : DB × List Reply) (hd : Hold) (h : U3 n c0 acc.1) :
    U3 n c0 (fireExpireStep acc hd).1 := by
  unfold fireExpireStep
  split
  · rename_i h' hf
    have hm := List.mem_of_find?_eq_some hf
    exact ⟨fireExpire_inv _ _ _ hm h.inv, fireExpire_uc n c0 hlt _ _ _ hm h.inv h.uc,
      h.wc.of_sub (fun _ hx => mem_allW_fireExpire hx)⟩
  · exact h

theorem sweepTimeout_u3 (n c0 : Nat) (hlt : c0 < 0xffff) (db : DB) (c : Nat) (h : U3 n c0 db) : U3 n c0 (sweepTimeout db c).1 := by
  unfold sweepTimeout timeoutPass1
  refine foldl_P (U3 n c0) _ (fireTimeoutStep_u3 n c0 hlt) _ _ ?_
  refine foldl_PQ_mem (U3 n c0) (fun w => w.cmd.key = n → w.cmd.count = c0) _ (fun acc a ha hp => timeoutStep_u3 n c0 acc a ha hp)
    _ ?_ _ h
  intro w hw
  unfold slotWaiters at hw
  have := (List.mem_filter.mp (mem_sortBySeq _ _ _ hw)).1
  exact h.wc w this

theorem sweepExpire_u3 (n c0 : Nat) (hlt : c0 < 0xffff) (db : DB) (c : Nat) (h : U3 n c0 db) : U3 n c0 (sweepExpire db c).1 := by
  unfold sweepExpire expirePass1
  exact foldl_P (U3 n c0) _ (fireExpireStep_u3 n c0 hlt) _ _ (foldl_P (U3 n c0) _ (expireStep_u3 n c0) _ _ h)

theorem opTick_u3 (n c0 : Nat) (hlt : c0 < 0xffff) (db : DB) (h : U3 n c0 db) : U3 n c0 (opTick db).1 := by
  unfold opTick
  simp only []
  apply sweepExpire_u3 n c0 hlt
  have h0 : U3 n c0 { db with now := db.now + 1, tCheck := db.now + 1 + 1 } :=
    ⟨h.inv.of_keys_eq rfl, h.uc.of_keys_eq rfl, h.wc.of_sub (fun _ hx => mem_allW_of_keys_eq rfl hx)⟩
  have h1 := sweepTimeout_u3 n c0 hlt _ (db.now + 1) h0
  exact ⟨h1.inv.of_keys_eq rfl, h1.uc.of_keys_eq rfl, h1.wc.of_sub (fun _ hx => mem_allW_of_keys_eq rfl hx)⟩

theorem opLock_u3 (n c0 : Nat) (hlt : c0 < 0xffff) (db : DB) (c : Cmd) (hc : c.key = n → c.count = c0) (h : U3 n c0 db) :
    U3 n c0 (opLock db c).1 :=
  ⟨opLock_inv db c h.inv, opLock_uc n c0 hlt db c hc h.inv h.uc, opLock_wc n c0 db c hc h.wc⟩

theorem opUnlock_u3 (n c0 : Nat) (hlt : c0 < 0xffff) (db : DB) (c : Cmd) (h : U3 n c0 db) : U3 n c0 (opUnlock db c).1 :=
  ⟨opUnlock_inv db c h.inv, opUnlock_uc n c0 hlt db c h.inv h.uc, h.wc.of_sub (opUnlock_waiters db c)⟩

theorem U3.init (n c0 now : Nat) : U3 n c0 (DB.init now) :=
  ⟨DBInv.init now, by intro k hk; simp [DB.init] at hk, by intro w hw; simp [allW, DB.init] at hw⟩

end Slock.Engine
