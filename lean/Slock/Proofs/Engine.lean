import Slock.Model.Engine
/-! Helper lemmas over M-ENGINE: depth sums, the per-key invariant and its preservation by every step. -/
namespace Slock.Engine

def depthSum (hs : List Hold) : Nat := (hs.map (·.depth)).sum

@[simp] theorem depthSum_nil : depthSum [] = 0 := rfl
@[simp] theorem depthSum_cons (h : Hold) (hs : List Hold) : depthSum (h :: hs) = h.depth + depthSum hs := by
  simp [depthSum]
@[simp] theorem depthSum_append (a b : List Hold) : depthSum (a ++ b) = depthSum a + depthSum b := by
  simp [depthSum]

/-- I1–I3 for one key: the hand-kept counter is the sum of the holders' depths, every holder has depth ≥ 1
(hence `holders = [] ↔ locked = 0`). -/
structure KeyInv (k : Key) : Prop where
  sum : k.locked = depthSum k.holders
  pos : ∀ h ∈ k.holders, 1 ≤ h.depth

theorem KeyInv.empty (n : Nat) : KeyInv (emptyKey n) := ⟨rfl, by simp [emptyKey]⟩

theorem depthSum_removeHolder {hs : List Hold} {h : Hold} (hm : h ∈ hs) :
    depthSum (removeHolder hs h) + h.depth = depthSum hs := by
  induction hs with
  | nil => simp at hm
  | cons x rest ih =>
    unfold removeHolder
    by_cases hx : x = h
    · simp [hx]; omega
    · simp only [hx, if_false, depthSum_cons]
      have : h ∈ rest := by
        rcases List.mem_cons.mp hm with h1 | h1
        · exact absurd h1.symm hx
        · exact h1
      have := ih this
      omega

theorem mem_removeHolder {hs : List Hold} {h x : Hold} (hx : x ∈ removeHolder hs h) : x ∈ hs := by
  induction hs with
  | nil => simp [removeHolder] at hx
  | cons y rest ih =>
    unfold removeHolder at hx
    by_cases hy : y = h
    · simp [hy] at hx; exact List.mem_cons_of_mem _ hx
    · simp only [hy, if_false] at hx
      rcases List.mem_cons.mp hx with h1 | h1
      · simp [h1]
      · exact List.mem_cons_of_mem _ (ih h1)

theorem depthSum_replaceHolder {hs : List Hold} {h h' : Hold} (hm : h ∈ hs) :
    depthSum (replaceHolder hs h h') + h.depth = depthSum hs + h'.depth := by
  induction hs with
  | nil => simp at hm
  | cons x rest ih =>
    unfold replaceHolder
    by_cases hx : x = h
    · simp [hx]; omega
    · simp only [hx, if_false, depthSum_cons]
      have : h ∈ rest := by
        rcases List.mem_cons.mp hm with h1 | h1
        · exact absurd h1.symm hx
        · exact h1
      have := ih this
      omega

theorem mem_replaceHolder {hs : List Hold} {h h' x : Hold} (hx : x ∈ replaceHolder hs h h') : x ∈ hs ∨ x = h' := by
  induction hs with
  | nil => simp [replaceHolder] at hx
  | cons y rest ih =>
    unfold replaceHolder at hx
    by_cases hy : y = h
    · simp only [hy, if_true] at hx
      rcases List.mem_cons.mp hx with h1 | h1
      · exact Or.inr h1
      · exact Or.inl (List.mem_cons_of_mem _ h1)
    · simp only [hy, if_false] at hx
      rcases List.mem_cons.mp hx with h1 | h1
      · left; simp [h1]
      · rcases ih h1 with h2 | h2
        · exact Or.inl (List.mem_cons_of_mem _ h2)
        · exact Or.inr h2

theorem findHolder_mem {k : Key} {id : Nat} {h : Hold} (hf : findHolder k id = some h) : h ∈ k.holders :=
  List.mem_of_find?_eq_some hf

theorem head?_mem {α} {l : List α} {a : α} (h : l.head? = some a) : a ∈ l := by
  cases l with
  | nil => simp at h
  | cons x xs => simp at h; simp [h]

/-- a key with the invariant and a member hold has `locked ≥ that hold's depth ≥ 1` -/
theorem KeyInv.depth_le {k : Key} (hk : KeyInv k) {h : Hold} (hm : h ∈ k.holders) : h.depth ≤ k.locked := by
  rw [hk.sum]
  have := depthSum_removeHolder hm
  omega

theorem KeyInv.locked_zero_iff {k : Key} (hk : KeyInv k) : k.locked = 0 ↔ k.holders = [] := by
  constructor
  · intro h0
    cases hh : k.holders with
    | nil => rfl
    | cons x xs =>
      have hx : x ∈ k.holders := by simp [hh]
      have h1 := hk.pos x hx
      have h2 := hk.depth_le hx
      omega
  · intro h; rw [hk.sum, h]; rfl

/-! ### per-step preservation (key level) -/

theorem grantHold_inv (db : DB) (k : Key) (c : Cmd) (hk : KeyInv k) : KeyInv (grantHold db k c).2 := by
  unfold grantHold
  constructor
  · simp [hk.sum]
  · intro h hm
    simp only [List.mem_append, List.mem_singleton] at hm
    rcases hm with hm | hm
    · exact hk.pos h hm
    · simp [hm]

theorem grantHold_holders (db : DB) (k : Key) (c : Cmd) :
    ∃ h, (grantHold db k c).2.holders = k.holders ++ [h] ∧ h.depth = 1 ∧ h.cmd = c ∧
      (grantHold db k c).2.locked = k.locked + 1 ∧ (grantHold db k c).2.waiters = k.waiters ∧
      (grantHold db k c).2.waited = k.waited ∧ (grantHold db k c).2.key = k.key := by
  unfold grantHold
  exact ⟨_, rfl, rfl, rfl, rfl, rfl, rfl, rfl⟩

theorem updateHold_depth (db : DB) (h : Hold) (c : Cmd) : (updateHold db h c).2.depth = h.depth := by
  unfold updateHold
  split
  · rfl
  · simp only []
    split
    · split <;> rfl
    · rfl

theorem replace_inv {k : Key} (hk : KeyInv k) {h h' : Hold} (hm : h ∈ k.holders) (hd : h'.depth = h.depth) :
    KeyInv { k with holders := replaceHolder k.holders h h' } := by
  constructor
  · have := depthSum_replaceHolder (h' := h') hm
    simp only [hk.sum]; omega
  · intro x hx
    rcases mem_replaceHolder hx with h1 | h1
    · exact hk.pos x h1
    · rw [h1, hd]; exact hk.pos h hm

theorem relock_inv {k : Key} (hk : KeyInv k) {h h' : Hold} (hm : h ∈ k.holders) (hd : h'.depth = h.depth + 1) :
    KeyInv { k with holders := replaceHolder k.holders h h', locked := k.locked + 1 } := by
  constructor
  · have := depthSum_replaceHolder (h' := h') hm
    simp only [hk.sum]; omega
  · intro x hx
    rcases mem_replaceHolder hx with h1 | h1
    · exact hk.pos x h1
    · rw [h1, hd]; omega

theorem dec_inv {k : Key} (hk : KeyInv k) {h : Hold} (hm : h ∈ k.holders) (hd : 1 < h.depth) :
    KeyInv { k with holders := replaceHolder k.holders h { h with depth := h.depth - 1 }, locked := k.locked - 1 } := by
  constructor
  · have := depthSum_replaceHolder (h' := { h with depth := h.depth - 1 }) hm
    have := hk.depth_le hm
    simp only [hk.sum] at *; omega
  · intro x hx
    rcases mem_replaceHolder hx with h1 | h1
    · exact hk.pos x h1
    · rw [h1]; simp; omega

theorem release_inv {k : Key} (hk : KeyInv k) {h : Hold} (hm : h ∈ k.holders) :
    KeyInv { k with holders := removeHolder k.holders h, locked := k.locked - h.depth } := by
  constructor
  · have := depthSum_removeHolder hm
    simp only [hk.sum]; omega
  · intro x hx
    exact hk.pos x (mem_removeHolder hx)

theorem waiters_inv {k : Key} (hk : KeyInv k) (ws : List Waiter) (b : Bool) :
    KeyInv { k with waiters := ws, waited := b } := ⟨hk.sum, hk.pos⟩

/-! ### wake pass -/

theorem wakeIter_inv {db : DB} {k : Key} (hk : KeyInv k) {db' : DB} {k' : Key} {r : Reply}
    (h : wakeIter db k = some (db', k', r)) : KeyInv k' := by
  unfold wakeIter at h
  cases hw : k.waiters with
  | nil => simp [hw] at h
  | cons w rest =>
    simp only [hw] at h
    by_cases hd : doLock k w.cmd = true
    · simp only [hd, Bool.not_true, Bool.false_eq_true, if_false] at h
      by_cases he : w.cmd.expried > 0
      · simp only [he, if_true] at h
        injection h with h; injection h with h1 h2; injection h2 with h2 h3
        rw [← h2]
        exact grantHold_inv _ _ _ (waiters_inv hk rest k.waited)
      · simp only [he, if_false] at h
        injection h with h; injection h with h1 h2; injection h2 with h2 h3
        rw [← h2]
        exact waiters_inv hk rest k.waited
    · simp [hd] at h

theorem wakePass_inv (fuel : Nat) (db : DB) (k : Key) (out : List Reply) (hk : KeyInv k) :
    KeyInv (wakePass fuel db k out).2.1 := by
  induction fuel generalizing db k out with
  | zero => unfold wakePass; split <;> exact hk
  | succ n ih =>
    unfold wakePass
    split
    · exact hk
    · cases hw : wakeIter db k with
      | none =>
        simp only []
        split
        · exact waiters_inv hk k.waiters false
        · exact hk
      | some t =>
        obtain ⟨db', k', r⟩ := t
        simp only []
        exact ih db' k' _ (wakeIter_inv hk hw)

theorem wake_inv (db : DB) (k : Key) (out : List Reply) (hk : KeyInv k) : KeyInv (wake db k out).2.1 :=
  wakePass_inv _ db k out hk

end Slock.Engine
