import Slock.Proofs.EngineSimTickVisitT
/-! Clock-tick simulation (`sim_tick`): the sweeper visits ONE entry of the expiry wheel (`expireStep`) — the entry of a record whose
hold has ended is dropped (stuttering), a live hold not yet due is re-armed (stage 1's `rearmHold`). -/
namespace Slock.SimTick
open Slock Slock.Sim Slock.Engine2
open Slock.Engine (has)

def bumpE (r : Rec) : Rec := { r with eChecked := r.eChecked + 1 }

/-- `Rec.toHold` reads what `πG` reads -/
def holdG (t : Nat × Engine.Cmd × Nat × Nat × Nat × Nat × Nat × Option Engine.Sched) : Engine.Hold :=
  { hid := t.1, cmd := t.2.1, conn := t.2.2.1, depth := t.2.2.2.1, startT := t.2.2.2.2.1, expT := t.2.2.2.2.2.1, sched := t.2.2.2.2.2.2.2.getD default }
theorem toHold_πG (r : Rec) : r.toHold = holdG (πG r) := rfl

/-- an expiry-wheel entry of a record whose hold has not ended belongs to a hold -/
theorem depth_pos_of_live {w : W} (g : Good w) (rid : Nat) (hs : w.k.hasRec rid ∧ (w.k.getR rid).eSched.isSome = true)
    (he : (w.k.getR rid).expried = false) : 0 < (w.k.getR rid).depth := by
  apply Nat.pos_of_ne_zero
  intro hz
  have := (recFine_of g rid hs.1).fin hz hs.2
  rw [he] at this; exact absurd this (by simp)

/-- **stuttering visits**: no such wheel entry (`wheelBroken`), or the entry of a record whose hold has ended (`dropE`) -/
theorem sim_visitE_stutter (s : DB) (hq : DBQ s) (hk : DBK s) (key rid : Nat) (slot : Bool) (k1 : K1 (s.getKey key))
    (h : (s.getKey key).hasE rid = false ∨ ((s.getKey key).getR rid).expried = true) :
    ∃ w', (s.openKey key).visitExpire slot rid = some w' ∧ Equiv (Engine2.abs w'.commit) (Engine2.abs s) := by
  have r0 := rel_open s hq key (hk.getKey key) k1.ki
  unfold W.visitExpire
  simp only []
  cases hT : (s.getKey key).hasE rid with
  | false =>
    have : (s.openKey key).k.hasE rid = false := hT
    simp only [this, Bool.not_false, if_true]
    exact ⟨_, rfl, rel_commit_same s hq key _ (Fr.wheelBroken _) (rel_wheelBroken r0)⟩
  | true =>
    have hT' : (s.openKey key).k.hasE rid = true := hT
    have hto : ((s.openKey key).k.getR rid).expried = true := by
      rcases h with h | h
      · rw [hT] at h; exact absurd h (by simp)
      · exact h
    simp only [hT', Bool.not_true, Bool.false_eq_true, if_false, hto, if_true]
    have hs := hasE_spec _ rid hT
    have ge := Good.openKey hq.dbt.dbi hq.dbt.tight key
    have hd0 : ((s.openKey key).k.getR rid).depth = 0 := (recFine_of ge rid hs.1).ended hto
    refine ⟨_, rfl, rel_commit_same s hq key _ (Fr.dropE _ _) (rel_dropE r0 k1.fl rid (fun _ => ⟨hs.1, hs.2, hd0⟩))⟩

theorem visitE_live_cases (w : W) (slot : Bool) (rid : Nat) (hT : w.k.hasE rid = true) (hl : (w.k.getR rid).expried = false) :
    w.visitExpire slot rid = if slot && (w.k.getR rid).expT > w.db.now then some ((w.modR rid bumpE).addExpried rid) else none := by
  unfold W.visitExpire
  simp only [hT, hl, Bool.not_true, Bool.false_eq_true, if_false]
  rfl

theorem live_mem_holders {k : Key} (kt : KT k) (rid : Nat) (hh : k.hasRec rid) (hd : 0 < (k.getR rid).depth) :
    holdOf k rid ∈ (Key.abs k).holders :=
  mem_abs_holders (kt.hq rid hh hd) (by unfold Key.liveHolder; simpa using hd)

/-- **re-arm**, working-state level -/
theorem rearmE_rel {w : W} (h : WSt w) (a : Engine.DB) (sc : Scal a w.db) (out1 : List Engine.Reply) (ho : w.out.map (·.r) = out1) (rid : Nat)
    (hT : w.k.hasE rid = true) (hl : (w.k.getR rid).expried = false) (hdue : (w.k.getR rid).expT > w.db.now) :
    w.visitExpire true rid = some ((w.modR rid bumpE).addExpried rid) ∧
    Rel ((w.modR rid bumpE).addExpried rid) (seqUp a)
      (replK (Key.abs w.k) (holdOf w.k rid) (rearmH w.db.eCheck w.db.seq (holdOf w.k rid))) out1 := by
  have hs := hasE_spec _ rid hT
  have hv : w.visitExpire true rid = some ((w.modR rid bumpE).addExpried rid) := by
    rw [visitE_live_cases _ true rid hT hl]
    simp [hdue]
  refine ⟨hv, ?_⟩
  have hdep := depth_pos_of_live h.good rid hs hl
  have T := tight_visitExpire h.good h.cl (recs_ne_of_hasRec hs.1) true rid _ hv
  have wi' := visitExpire_wi h.wi true rid _ hv
  have hg' : ((w.modR rid bumpE).addExpried rid).gone = false := by
    rw [(FQ.addExpried _ _).qt.gone]; exact h.hg
  have g1 : (w.modR rid bumpE).k.getR rid = bumpE (w.k.getR rid) := getR_modRec_same w.k rid bumpE (fun _ => rfl) hs.1
  have hh1 : (w.modR rid bumpE).k.hasRec rid := (hasRec_modR w rid rid bumpE (fun _ => rfl)).mpr hs.1
  obtain ⟨hh2, g2⟩ := addExpried_rec (w.modR rid bumpE) rid hh1
  rw [g1] at g2
  obtain ⟨sc0, hsc⟩ := Option.isSome_iff_exists.mp hs.2
  have hck : sc0.checked = (w.k.getR rid).eChecked := h.wi.ck rid hs.1 sc0 hsc
  have hview : holdOf ((w.modR rid bumpE).addExpried rid).k rid = rearmH w.db.eCheck w.db.seq (holdOf w.k rid) := by
    unfold holdOf
    rw [toHold_πG, g2]
    unfold rearmH holdG πG Rec.toHold Rec.armE bumpE
    simp only [hsc, Option.getD_some, hck]
    rfl
  have sx : SX (· = rid) w ((w.modR rid bumpE).addExpried rid) :=
    ((SX.refl (X := (· = rid)) w).modR_in rid bumpE (fun _ => rfl) rfl).addExpried rid rfl
  have pt : PKeep (·.timeouted) ((w.modR rid bumpE).addExpried rid).k w.k :=
    (pk_addExpried ins_timeouted (w.modR rid bumpE) rid (fun _ _ => rfl)).trans (pk_modR (π := (·.timeouted)) w rid bumpE (fun _ => rfl) (fun _ => rfl))
  have hids : ((w.modR rid bumpE).addExpried rid).k.ids = w.k.ids := (ids_addExpried _ rid).trans (ids_modR w rid bumpE (fun _ => rfl))
  have hrec : ∀ y ∈ w.k.current.toList ++ w.k.locks ++ w.k.wait.map (·.rid), ((w.modR rid bumpE).addExpried rid).k.hasRec y :=
    fun y hy => (hasRec_of_ids hids y).mpr (h.hrec y hy)
  have hl0 : w.k.liveHolder rid = true := by unfold Key.liveHolder; simpa using hdep
  have hdep' : (((w.modR rid bumpE).addExpried rid).k.getR rid).depth = (w.k.getR rid).depth := by
    have := congrArg (fun t => t.2.2.2.1) g2
    simp only [πG, Rec.armE, bumpE] at this
    exact this
  have hl' : ((w.modR rid bumpE).addExpried rid).k.liveHolder rid = true := by unfold Key.liveHolder; rw [hdep']; simpa using hdep
  have habs := abs_edit_holder (k := w.k) (k' := ((w.modR rid bumpE).addExpried rid).k) rid sx.key sx.waited sx.q sx.p pt hrec
    (h.kt.hq rid hs.1 hdep) hl0 hl' h.wi.wq.sep (nodup_of_hid h.wi.hidNodup)
  rw [hview] at habs
  have hlk : ((w.modR rid bumpE).addExpried rid).k.locked = w.k.locked := by
    rw [(FQ.addExpried _ _).qt.locked]; rfl
  rw [hlk] at habs
  have hsc' : Scal (seqUp a) ((w.modR rid bumpE).addExpried rid).db := by
    obtain ⟨d1, d2, d3, d4, d5, d6⟩ := addExpried_db (w.modR rid bumpE) rid
    exact ⟨sc.now.trans d4.symm, sc.tCheck.trans d3.symm, sc.eCheck.trans d2.symm, by show a.seq + 1 = _; rw [d1, sc.seq]; rfl, sc.leader.trans d6.symm,
      sc.ctr.trans d5.symm⟩
  have hout : ((w.modR rid bumpE).addExpried rid).out.map (·.r) = out1 := by
    rw [(FQ.addExpried _ _).qt.out]; exact ho
  have hmem := live_mem_holders h.kt rid hs.1 hdep
  have ki1 : Engine.KeyInv (replK (Key.abs w.k) (holdOf w.k rid) (rearmH w.db.eCheck w.db.seq (holdOf w.k rid))) :=
    Engine.replace_inv h.k1.ki hmem rfl
  exact Rel.of_live hg' hsc' hout ki1 ⟨T.good hg', T.cur hg', h.cn.of_cl (queues_eq sx.q).1 (queues_eq sx.q).2.1, wi'.wq, habs⟩

/-- **re-arm**: the record-level step (`eChecked + 1`, `AddExpried`) is stage 1's `rearmHold` of that hold -/
theorem sim_rearmE (s : DB) (hq : DBQ s) (hk : DBK s) (hkt : DBKT s) (key rid : Nat) (k1 : K1 (s.getKey key))
    (hT : (s.getKey key).hasE rid = true) (hl : ((s.getKey key).getR rid).expried = false)
    (hdue : ((s.getKey key).getR rid).expT > s.now) :
    (s.openKey key).visitExpire true rid = some (((s.openKey key).modR rid bumpE).addExpried rid) ∧
    Equiv (Engine2.abs (((s.openKey key).modR rid bumpE).addExpried rid).commit)
      (Engine.rearmHold (Engine2.abs s) (holdOf (s.getKey key) rid)) := by
  have hs := hasE_spec _ rid hT
  have hws := ws_open s hq hk hkt key k1 (openKey_live_of_hasRec s key rid hs.1)
  obtain ⟨hv, rel⟩ := rearmE_rel hws (Engine2.abs s) (scal_openKey s key) [] rfl rid hT hl hdue
  refine ⟨hv, ?_⟩
  have hdep := depth_pos_of_live hws.good rid hs hl
  have hkw : (holdOf (s.getKey key) rid).cmd.key = key := (k1.kh _ (live_mem_holders hws.kt rid hs.1 hdep)).trans (getKey_key s key)
  have e1 := rel_commit s hq key _ (W.visitExpire_fr _ _ _ _ hv) rel (fun _ => rfl) (getKey_key _ _)
  rw [rearmHold_eq', hkw, abs_getKey s hq.dbt.dbi.kn key]
  exact e1

end Slock.SimTick
