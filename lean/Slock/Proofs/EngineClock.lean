import Slock.Proofs.EngineWheel
/-! Frame lemmas: which steps touch the clock fields; provenance of queued requests across a tick. -/
namespace Slock.Engine

/-- the fields only `opTick` (and the role switch) may change -/
def clock (db : DB) : Nat × Nat × Nat × Bool := (db.now, db.tCheck, db.eCheck, db.leader)

theorem clock_setKey (db : DB) (k : Key) : clock (db.setKey k) = clock db := rfl
theorem clock_grantHold (db : DB) (k : Key) (c : Cmd) : clock (grantHold db k c).1 = clock db := by unfold grantHold; rfl
theorem clock_updateHold (db : DB) (h : Hold) (c : Cmd) : clock (updateHold db h c).1 = clock db := by
  unfold updateHold
  split
  · rfl
  · simp only []
    split
    · split <;> rfl
    · rfl

theorem clock_wakeIter {db : DB} {k : Key} {db' : DB} {k' : Key} {r : Reply}
    (h : wakeIter db k = some (db', k', r)) : clock db' = clock db := by
  unfold wakeIter at h
  cases hw : k.waiters with
  | nil => simp [hw] at h
  | cons w rest =>
    simp only [hw] at h
    by_cases hd : doLock k w.cmd = true
    · simp only [hd, Bool.not_true, Bool.false_eq_true, if_false] at h
      by_cases he : w.cmd.expried > 0
      · simp only [he, if_true] at h
        injection h with h; injection h with h1 h2
        rw [← h1, clock_grantHold]; rfl
      · simp only [he, if_false] at h
        injection h with h; injection h with h1 h2
        rw [← h1]; rfl
    · simp [hd] at h

theorem clock_wakePass (fuel : Nat) (db : DB) (k : Key) (out : List Reply) : clock (wakePass fuel db k out).1 = clock db := by
  induction fuel generalizing db k out with
  | zero => unfold wakePass; split <;> rfl
  | succ n ih =>
    unfold wakePass
    split
    · rfl
    · cases hw : wakeIter db k with
      | none => simp only []; split <;> rfl
      | some t =>
        obtain ⟨db', k', r⟩ := t
        simp only []
        rw [ih, clock_wakeIter hw]

theorem clock_wake (db : DB) (k : Key) (out : List Reply) : clock (wake db k out).1 = clock db := clock_wakePass _ db k out

theorem clock_opLock (db : DB) (c : Cmd) : clock (opLock db c).1 = clock db := by
  unfold opLock
  cases hb : classifyLock db c <;> simp only [applyLock] <;>
    (try rfl) <;> (try (split <;> simp [clock_setKey, clock_wake, clock_grantHold, clock_updateHold] <;> rfl))
  all_goals (simp only [clock_setKey, clock_wake, clock_updateHold]; try rfl)
  all_goals (first | exact clock_updateHold _ _ _ | skip)

theorem clock_opUnlock (db : DB) (c : Cmd) : clock (opUnlock db c).1 = clock db := by
  unfold opUnlock
  cases hb : classifyUnlock db c <;> simp only [applyUnlock, bumpErr] <;> (try rfl) <;>
    (simp only [clock_setKey, clock_wake]; rfl)

end Slock.Engine

namespace Slock.Engine

/-! ### queued requests across a sweep -/

theorem mem_allW_updateWaiter {db : DB} {w w' x : Waiter} (h : x ∈ allW (updateWaiter db w w')) : x ∈ allW db ∨ x = w' := by
  unfold updateWaiter at h
  rcases mem_allW_setKey h with h1 | h1
  · exact Or.inl h1
  · simp only [List.mem_map] at h1
    obtain ⟨y, hy, e⟩ := h1
    split at e
    · exact Or.inr e.symm
    · rw [← e]; exact Or.inl (mem_getKey_waiters hy)

theorem clock_updateWaiter (db : DB) (w w' : Waiter) : clock (updateWaiter db w w') = clock db := rfl

theorem clock_rearmWaiter (db : DB) (w : Waiter) : clock (rearmWaiter db w) = clock db := rfl

/-- the re-armed copy of a visited request -/
def rearmed (db : DB) (w : Waiter) : Waiter :=
  { w with timeoutT := (wheelAdd db.tCheck db.seq w.timeoutT (w.sched.checked + 1)).1,
           sched := (wheelAdd db.tCheck db.seq w.timeoutT (w.sched.checked + 1)).2 }

theorem mem_allW_rearmWaiter {db : DB} {w x : Waiter} (h : x ∈ allW (rearmWaiter db w)) : x ∈ allW db ∨ x = rearmed db w := by
  unfold rearmWaiter at h
  rcases mem_allW_updateWaiter h with h1 | h1
  · exact Or.inl (mem_allW_of_keys_eq rfl h1)
  · exact Or.inr h1

theorem mem_allW_fireTimeout {db : DB} {key : Nat} {w x : Waiter} (h : x ∈ allW (fireTimeout db key w).1) : x ∈ allW db := by
  unfold fireTimeout at h
  rcases mem_allW_setKey h with h1 | h1
  · refine mem_allW_of_keys_eq ?_ h1; simp [wake_keys]
  · have h2 := mem_removeWaiter (wake_waiters _ _ _ x h1)
    exact mem_getKey_waiters (n := key) h2

theorem mem_allW_fireExpire {db : DB} {key : Nat} {hd : Hold} {x : Waiter} (h : x ∈ allW (fireExpire db key hd).1) : x ∈ allW db := by
  unfold fireExpire at h
  rcases mem_allW_setKey h with h1 | h1
  · refine mem_allW_of_keys_eq ?_ h1; simp [wake_keys]
  · have h2 := wake_waiters _ _ _ x h1
    exact mem_getKey_waiters (n := key) h2

/-- Per-waiter wheel invariant: scheduled no later than the deadline; long-table entries are keyed by the deadline. -/
def WOK (w : Waiter) : Prop := w.sched.visit ≤ w.timeoutT ∧ (w.sched.long = true → w.sched.visit = w.timeoutT)

def WInv (db : DB) : Prop := db.tCheck = db.now + 1 ∧ ∀ w ∈ allW db, WOK w

theorem timeoutDeadline_gt (now : Nat) (c : Cmd) : now + 1 ≤ timeoutDeadline now c := by
  unfold timeoutDeadline; split <;> omega

theorem newWaiter_ok (db : DB) (c : Cmd) (h : db.tCheck = db.now + 1) :
    WOK (newWaiter db c) ∧ (newWaiter db c).timeoutT = timeoutDeadline db.now c := by
  have hs := wheelAdd_spec db.tCheck db.seq (timeoutDeadline db.now c) 1 (by rw [h]; exact timeoutDeadline_gt _ _)
  unfold newWaiter WOK
  simp only []
  rw [hs.1]
  exact ⟨⟨hs.2.2.1, hs.2.2.2.1⟩, rfl⟩

theorem rearmed_ok (db : DB) (w : Waiter) (h : db.tCheck = db.now + 1) (hd : w.timeoutT > db.now) :
    WOK (rearmed db w) ∧ (rearmed db w).timeoutT = w.timeoutT ∧ db.now + 1 ≤ (rearmed db w).sched.visit := by
  have hs := wheelAdd_spec db.tCheck db.seq w.timeoutT (w.sched.checked + 1) (by omega)
  unfold rearmed WOK
  simp only []
  rw [hs.1]
  exact ⟨⟨hs.2.2.1, hs.2.2.2.1⟩, rfl, by rw [← h]; exact hs.2.1⟩

theorem opLock_WInv (db : DB) (c : Cmd) (h : WInv db) : WInv (opLock db c).1 := by
  have hc := clock_opLock db c
  unfold clock at hc
  simp only [Prod.mk.injEq] at hc
  refine ⟨by rw [hc.2.1, hc.1]; exact h.1, ?_⟩
  intro w hw
  rcases opLock_waiters db c w hw with h1 | ⟨_, h1⟩
  · exact h.2 w h1
  · rw [h1]; exact (newWaiter_ok db c h.1).1

theorem opUnlock_WInv (db : DB) (c : Cmd) (h : WInv db) : WInv (opUnlock db c).1 := by
  have hc := clock_opUnlock db c
  unfold clock at hc
  simp only [Prod.mk.injEq] at hc
  exact ⟨by rw [hc.2.1, hc.1]; exact h.1, fun w hw => h.2 w (opUnlock_waiters db c w hw)⟩

end Slock.Engine

namespace Slock.Engine

theorem mem_allW_updateHoldIn {db : DB} {h h' : Hold} {x : Waiter} (hx : x ∈ allW (updateHoldIn db h h')) : x ∈ allW db := by
  unfold updateHoldIn at hx
  rcases mem_allW_setKey hx with h1 | h1
  · exact h1
  · exact mem_getKey_waiters h1

theorem clock_rearmHold (db : DB) (h : Hold) : clock (rearmHold db h) = clock db := rfl

theorem clock_fireTimeout (db : DB) (key : Nat) (w : Waiter) : clock (fireTimeout db key w).1 = clock db := by
  unfold fireTimeout; simp only [clock_setKey, clock_wake]; rfl

theorem clock_fireExpire (db : DB) (key : Nat) (h : Hold) : clock (fireExpire db key h).1 = clock db := by
  unfold fireExpire; simp only [clock_setKey, clock_wake]; rfl

theorem WInv.of_clock {db db' : DB} (h : WInv db) (hc : clock db' = clock db) (hw : ∀ x ∈ allW db', x ∈ allW db) : WInv db' := by
  unfold clock at hc
  simp only [Prod.mk.injEq] at hc
  exact ⟨by rw [hc.2.1, hc.1]; exact h.1, fun x hx => h.2 x (hw x hx)⟩

theorem timeoutStep_WInv (acc : DB × List Waiter) (w : Waiter) (h : WInv acc.1) : WInv (timeoutStep acc w).1 := by
  unfold timeoutStep
  split
  · rename_i hd
    have hc := clock_rearmWaiter acc.1 w
    unfold clock at hc
    simp only [Prod.mk.injEq] at hc
    refine ⟨by rw [hc.2.1, hc.1]; exact h.1, ?_⟩
    intro x hx
    rcases mem_allW_rearmWaiter hx with h1 | h1
    · exact h.2 x h1
    · rw [h1]; exact (rearmed_ok acc.1 w h.1 hd).1
  · exact h

theorem fireTimeoutStep_WInv (acc : DB × List Reply) (w : Waiter) (h : WInv acc.1) : WInv (fireTimeoutStep acc w).1 := by
  unfold fireTimeoutStep
  split
  · exact h.of_clock (clock_fireTimeout _ _ _) (fun x hx => mem_allW_fireTimeout hx)
  · exact h

theorem expireStep_WInv (acc : DB × List Hold) (hd : Hold) (h : WInv acc.1) : WInv (expireStep acc hd).1 := by
  unfold expireStep
  split
  · exact h.of_clock (clock_rearmHold _ _) (fun x hx => by
      unfold rearmHold at hx
      exact mem_allW_of_keys_eq rfl (mem_allW_updateHoldIn hx))
  · exact h

theorem fireExpireStep_WInv (acc : DB × List Reply) (hd : Hold) (h : WInv acc.1) : WInv (fireExpireStep acc hd).1 := by
  unfold fireExpireStep
  split
  · exact h.of_clock (clock_fireExpire _ _ _) (fun x hx => mem_allW_fireExpire hx)
  · exact h

theorem foldl_P {α β} (P : DB → Prop) (f : DB × β → α → DB × β) (hf : ∀ acc a, P acc.1 → P (f acc a).1)
    (l : List α) (acc : DB × β) (h : P acc.1) : P (l.foldl f acc).1 := by
  induction l generalizing acc with
  | nil => exact h
  | cons a as ih => simp only [List.foldl_cons]; exact ih _ (hf acc a h)

theorem sweepTimeout_WInv (db : DB) (c : Nat) (h : WInv db) : WInv (sweepTimeout db c).1 := by
  unfold sweepTimeout timeoutPass1
  exact foldl_P WInv _ fireTimeoutStep_WInv _ _ (foldl_P WInv _ timeoutStep_WInv _ _ h)

theorem sweepExpire_WInv (db : DB) (c : Nat) (h : WInv db) : WInv (sweepExpire db c).1 := by
  unfold sweepExpire expirePass1
  exact foldl_P WInv _ fireExpireStep_WInv _ _ (foldl_P WInv _ expireStep_WInv _ _ h)

theorem clock_foldl {α β} (f : DB × β → α → DB × β) (hf : ∀ acc a, clock (f acc a).1 = clock acc.1)
    (l : List α) (acc : DB × β) : clock (l.foldl f acc).1 = clock acc.1 := by
  induction l generalizing acc with
  | nil => rfl
  | cons a as ih => simp only [List.foldl_cons]; rw [ih, hf]

theorem clock_sweepTimeout (db : DB) (c : Nat) : clock (sweepTimeout db c).1 = clock db := by
  unfold sweepTimeout timeoutPass1
  rw [clock_foldl _ (fun acc a => by unfold fireTimeoutStep; split; exact clock_fireTimeout _ _ _; rfl)]
  exact clock_foldl _ (fun acc a => by unfold timeoutStep; split <;> rfl) _ _

theorem opTick_WInv (db : DB) (h : WInv db) : WInv (opTick db).1 := by
  unfold opTick
  simp only []
  apply sweepExpire_WInv
  have h0 : WInv { db with now := db.now + 1, tCheck := db.now + 1 + 1 } := ⟨rfl, h.2⟩
  have h1 := sweepTimeout_WInv _ (db.now + 1) h0
  exact ⟨h1.1, h1.2⟩

/-- what pass 1 hands to the firing pass: only requests whose deadline has been reached, all of them live waiters -/
theorem timeoutPass1_due (db : DB) (c : Nat) (h : WInv db) (hc : c = db.now) :
    ∀ w ∈ (timeoutPass1 db c).2, w.timeoutT ≤ db.now := by
  unfold timeoutPass1
  simp only []
  have key : ∀ (l : List Waiter) (acc : DB × List Waiter), acc.1.now = db.now → (∀ w ∈ acc.2, w.timeoutT ≤ db.now) →
      ∀ w ∈ (l.foldl timeoutStep acc).2, w.timeoutT ≤ db.now := by
    intro l
    induction l with
    | nil => intro acc _ h2; exact h2
    | cons a as ih =>
      intro acc h1 h2
      simp only [List.foldl_cons]
      apply ih
      · unfold timeoutStep; split
        · have := clock_rearmWaiter acc.1 a; unfold clock at this; simp only [Prod.mk.injEq] at this; rw [this.1]; exact h1
        · exact h1
      · unfold timeoutStep; split
        · exact h2
        · rename_i hnd
          intro w hw
          rcases List.mem_append.mp hw with hw | hw
          · exact h2 w hw
          · simp at hw; rw [hw]; omega
  intro w hw
  rcases List.mem_append.mp hw with hw | hw
  · exact key _ (db, []) rfl (by simp) w hw
  · -- long-table entries of second c: keyed by their deadline
    unfold longWaiters at hw
    have hm : w ∈ (allWaiters db).filter (fun w => w.sched.visit == c && w.sched.long) := by
      have : ∀ (l : List Waiter) (x : Waiter), x ∈ sortBySeq (·.sched.seq) l → x ∈ l := by
        intro l x hx
        unfold sortBySeq at hx
        have gen : ∀ (l acc : List Waiter), x ∈ l.foldl (fun acc y => insertBySeq (·.sched.seq) y acc) acc → x ∈ l ∨ x ∈ acc := by
          intro l
          induction l with
          | nil => intro acc h; exact Or.inr h
          | cons y ys ih =>
            intro acc h
            simp only [List.foldl_cons] at h
            rcases ih _ h with h | h
            · exact Or.inl (List.mem_cons_of_mem _ h)
            · have ins : ∀ (acc : List Waiter), x ∈ insertBySeq (·.sched.seq) y acc → x = y ∨ x ∈ acc := by
                intro acc
                induction acc with
                | nil => intro h; simp [insertBySeq] at h; exact Or.inl h
                | cons z zs ihz =>
                  intro h
                  unfold insertBySeq at h
                  split at h
                  · rcases List.mem_cons.mp h with h | h
                    · exact Or.inl h
                    · exact Or.inr h
                  · rcases List.mem_cons.mp h with h | h
                    · exact Or.inr (by simp [h])
                    · rcases ihz h with h | h
                      · exact Or.inl h
                      · exact Or.inr (List.mem_cons_of_mem _ h)
              rcases ins acc h with h | h
              · exact Or.inl (by simp [h])
              · exact Or.inr h
        rcases gen l [] hx with h | h
        · exact h
        · simp at h
      exact this _ _ hw
    have hf := List.mem_filter.mp hm
    have hvis : w.sched.visit = c ∧ w.sched.long = true := by simpa using hf.2
    have hok := h.2 w (by unfold allW; exact hf.1)
    have := hok.2 hvis.2
    omega

end Slock.Engine
