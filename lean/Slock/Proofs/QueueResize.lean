import Slock.Proofs.QueueShrink
/-! C20: `Resize` of the segmented deque — the two loops (free the nodes before the head node, move the live nodes
down) keep the content, in every state without a spare node behind the tail node. -/
namespace Slock.Queue

/-- `freeRange a n`: nodes `a..a+n-1` (none of them aliased by the cursors) are set to nil / size 0 -/
theorem freeRange_spec : ∀ n a (q : Q), a + n ≤ q.queues.length → a + n ≤ q.sizes.length →
    (∀ i, a ≤ i → i < a + n → q.headQueue ≠ .node i ∧ q.tailQueue ≠ .node i) →
    ∃ Qn Sn, freeRange a n q = .ok { q with queues := Qn, sizes := Sn } ∧
      Qn.length = q.queues.length ∧ Sn.length = q.sizes.length ∧
      (∀ p, a ≤ p → p < a + n → Qn[p]? = some none ∧ Sn[p]? = some 0) ∧
      (∀ p, (p < a ∨ a + n ≤ p) → Qn[p]? = q.queues[p]? ∧ Sn[p]? = q.sizes[p]?) := by
  intro n
  induction n with
  | zero =>
    intro a q _ _ _
    exact ⟨q.queues, q.sizes, rfl, rfl, rfl, fun p h1 h2 => by omega, fun p _ => ⟨rfl, rfl⟩⟩
  | succ n ih =>
    intro a q h1 h2 hr
    have hd : detach q a = q := detach_eq_self q a (hr a (Nat.le_refl _) (by omega)).1 (hr a (Nat.le_refl _) (by omega)).2
    obtain ⟨Qn, Sn, e, l1, l2, c1, c2⟩ := ih (a + 1) { q with queues := q.queues.set a none, sizes := q.sizes.set a 0 }
      (by simp only [List.length_set]; omega) (by simp only [List.length_set]; omega)
      (fun i hi1 hi2 => hr i (by omega) (by omega))
    refine ⟨Qn, Sn, ?_, by simpa using l1, by simpa using l2, ?_, ?_⟩
    · simp only [freeRange, freeNode_eq q a (by omega) (by omega), hd, Res.ok_bind]
      exact e
    · intro p hp1 hp2
      by_cases c : p = a
      · subst c
        have := c2 p (Or.inl (by omega))
        simp only [] at this
        rw [this.1, this.2, List.getElem?_set_self (by omega), List.getElem?_set_self (by omega)]
        exact ⟨rfl, rfl⟩
      · exact c1 p (by omega) (by omega)
    · intro p hp
      have := c2 p (by omega)
      simp only [] at this
      rw [this.1, this.2, List.getElem?_set_ne (by omega), List.getElem?_set_ne (by omega)]
      exact ⟨rfl, rfl⟩


theorem moveSlot_eq (q : Q) (i t : Nat) (arr : Arr) (s : Nat) (hi : q.queues[i]? = some (some arr))
    (hs : q.sizes[i]? = some s) (ht1 : t < q.queues.length) (ht2 : t < q.sizes.length) (his : i < q.sizes.length)
    (hd : q.headQueue ≠ .node t ∧ q.tailQueue ≠ .node t) :
    moveSlot q i t = .ok { q with queues := (q.queues.set t (some arr)).set i none,
                                  sizes := (q.sizes.set t s).set i 0,
                                  headQueue := if q.headQueue = .node i then .node t else q.headQueue,
                                  tailQueue := if q.tailQueue = .node i then .node t else q.tailQueue } := by
  have hdt : detach q t = q := detach_eq_self q t hd.1 hd.2
  simp only [moveSlot, slot, hi, size, hs, Res.ok_bind, setSlot, ht1, if_true, hdt, setSize, List.length_set, ht2, his]

/-- `moveRange m i n`: the nodes `i..T` (T = i+n-1, all allocated) move down by `m`; the head alias follows node `H`,
the tail alias node `T` -/
theorem moveRange_spec (m H T : Nat) (hm : 0 < m) (hmH : m ≤ H) : ∀ n i (q : Q), i + n = T + 1 → H ≤ i →
    T < q.queues.length → T < q.sizes.length →
    (∀ j, i ≤ j → j ≤ T → ∃ arr s, q.queues[j]? = some (some arr) ∧ q.sizes[j]? = some s) →
    q.headQueue = (if i = H then .node H else .node (H - m)) →
    (1 ≤ n → q.tailQueue = .node T) → (n = 0 → q.tailQueue = .node (T - m)) → H ≤ T →
    ∃ Qn Sn, moveRange m i n q = .ok { q with queues := Qn, sizes := Sn, headQueue := (if i = H ∧ n = 0 then .node H else .node (H - m)), tailQueue := .node (T - m) } ∧
      Qn.length = q.queues.length ∧ Sn.length = q.sizes.length ∧
      (∀ p, i ≤ p + m → p + m ≤ T → Qn[p]? = q.queues[p + m]? ∧ Sn[p]? = q.sizes[p + m]?) ∧
      (∀ p, i ≤ p → p ≤ T → T < p + m → Qn[p]? = some none ∧ Sn[p]? = some 0) ∧
      (∀ p, ¬ (i ≤ p + m ∧ p + m ≤ T) → ¬ (i ≤ p ∧ p ≤ T) → Qn[p]? = q.queues[p]? ∧ Sn[p]? = q.sizes[p]?) := by
  intro n
  induction n with
  | zero =>
    intro i q h1 h2 _ _ _ hh _ ht0 _
    refine ⟨q.queues, q.sizes, ?_, rfl, rfl, fun p a b => by omega, fun p a b c => by omega, fun p _ _ => ⟨rfl, rfl⟩⟩
    simp only [moveRange]
    have e1 : (if i = H ∧ True then Ref.node H else Ref.node (H - m)) = q.headQueue := by simp [hh]
    simp only [e1, ← ht0 rfl]
  | succ n ih =>
    intro i q h1 h2 hlq hls hall hh ht1 _ hHT
    obtain ⟨arr, s, ha, hsz⟩ := hall i (Nat.le_refl _) (by omega)
    have hdet : q.headQueue ≠ .node (i - m) ∧ q.tailQueue ≠ .node (i - m) := by
      constructor
      · rw [hh]; split
        · intro e; injection e with e; omega
        · intro e; injection e with e; omega
      · rw [ht1 (by omega)]; intro e; injection e with e; omega
    have e1 := moveSlot_eq q i (i - m) arr s ha hsz (by omega) (by omega) (by omega) hdet
    -- refs after the move
    have hh1 : (if q.headQueue = .node i then Ref.node (i - m) else q.headQueue) =
        (if i + 1 = H then Ref.node H else Ref.node (H - m)) := by
      rw [hh]
      by_cases c : i = H
      · subst c; simp
      · have c2 : ¬ i + 1 = H := by omega
        have c3 : ¬ H - m = i := by omega
        simp [c, c2, c3]
    obtain ⟨Qn, Sn, e2, l1, l2, c1, c2, c3⟩ := ih (i + 1)
      { q with queues := (q.queues.set (i - m) (some arr)).set i none, sizes := (q.sizes.set (i - m) s).set i 0,
               headQueue := if q.headQueue = .node i then .node (i - m) else q.headQueue,
               tailQueue := if q.tailQueue = .node i then .node (i - m) else q.tailQueue }
      (by omega) (by omega) (by simp only [List.length_set]; exact hlq) (by simp only [List.length_set]; exact hls)
      (by
        intro j hj1 hj2
        obtain ⟨arr', s', a1, a2⟩ := hall j (by omega) hj2
        refine ⟨arr', s', ?_, ?_⟩
        · simp only []; rw [List.getElem?_set_ne (by omega), List.getElem?_set_ne (by omega)]; exact a1
        · simp only []; rw [List.getElem?_set_ne (by omega), List.getElem?_set_ne (by omega)]; exact a2)
      hh1
      (by intro hn; simp only []; rw [ht1 (by omega)]; have : ¬ T = i := by omega
          simp [this])
      (by intro hn; simp only []; rw [ht1 (by omega)]; have : T = i := by omega
          simp [this])
      hHT
    simp only [List.length_set] at l1 l2
    refine ⟨Qn, Sn, ?_, l1, l2, ?_, ?_, ?_⟩
    · simp only [moveRange, e1, Res.ok_bind]
      have : (if i + 1 = H ∧ n = 0 then Ref.node H else Ref.node (H - m)) =
          (if i = H ∧ n + 1 = 0 then Ref.node H else Ref.node (H - m)) := by
        have a1 : ¬ (i + 1 = H ∧ n = 0) := by omega
        have a2 : ¬ (i = H ∧ n + 1 = 0) := by omega
        simp [a1, a2]
      rw [← this]; exact e2
    · intro p hp1 hp2
      by_cases c : p + m = i
      · -- the target of this step; untouched by the later steps
        have hpi : p = i - m := by omega
        have := c3 p (by omega) (by omega)
        simp only [] at this
        rw [this.1, this.2]
        have hne : ¬ i = p := by omega
        have e : i - m + m = i := by omega
        rw [List.getElem?_set_ne hne, List.getElem?_set_ne hne, hpi,
          List.getElem?_set_self (by omega), List.getElem?_set_self (by omega), e, ha, hsz]
        exact ⟨rfl, rfl⟩
      · have := c1 p (by omega) hp2
        simp only [] at this
        rw [this.1, this.2, List.getElem?_set_ne (by omega), List.getElem?_set_ne (by omega),
          List.getElem?_set_ne (by omega), List.getElem?_set_ne (by omega)]
        exact ⟨rfl, rfl⟩
    · intro p hp1 hp2 hp3
      by_cases c : p = i
      · have := c3 p (by omega) (by omega)
        simp only [] at this
        rw [this.1, this.2, c, List.getElem?_set_self (by simp only [List.length_set]; omega),
          List.getElem?_set_self (by simp only [List.length_set]; omega)]
        exact ⟨rfl, rfl⟩
      · exact c2 p (by omega) hp2 hp3
    · intro p hp1 hp2
      have := c3 p (by omega) (by omega)
      simp only [] at this
      rw [this.1, this.2, List.getElem?_set_ne (by omega), List.getElem?_set_ne (by omega),
        List.getElem?_set_ne (by omega), List.getElem?_set_ne (by omega)]
      exact ⟨rfl, rfl⟩


/-- `Resize` recomputes `queueSize = baseQueueSize * int32(uint32(1)<<uint32(tailNodeIndex))`: it must stay a sane size -/
def ResizeQs (q : Q) : Prop :=
  0 < wrap32 ((q.baseQueueSize : Int) * shl1 q.tni) ∧ wrap32 ((q.baseQueueSize : Int) * shl1 q.tni) < 1073741824

instance (q : Q) : Decidable (ResizeQs q) := by unfold ResizeQs; exact inferInstance

theorem shape_getElem?_congr {L1 L2 : List (Option Arr)} {i j : Nat} (h : L1[i]? = L2[j]?) : (shape L1)[i]? = (shape L2)[j]? := by
  simp only [shape, List.getElem?_map, h]

/-- the moving branch of `Resize`: explicit result -/
theorem resize_move {q : Q} (h : QInv q) (hns : NoSpare q) (hqs : ResizeQs q) (hgt : q.baseNodeSize < q.hni) :
    ∃ Qn Sn, resize q = .ok { q with queues := Qn, sizes := Sn, headQueue := .node q.baseNodeSize, tailQueue := .node (q.tni - (q.hni - q.baseNodeSize)), nodeIndex := q.tni - (q.hni - q.baseNodeSize), queueSize := wrap32 ((q.baseQueueSize : Int) * shl1 q.tni), hni := q.baseNodeSize, tni := q.tni - (q.hni - q.baseNodeSize) } ∧
      Qn.length = q.queues.length ∧ Sn.length = q.sizes.length ∧
      (∀ p, p < q.baseNodeSize → Qn[p]? = q.queues[p]? ∧ Sn[p]? = q.sizes[p]?) ∧
      (∀ p, q.baseNodeSize ≤ p → p + (q.hni - q.baseNodeSize) ≤ q.tni →
        Qn[p]? = q.queues[p + (q.hni - q.baseNodeSize)]? ∧ Sn[p]? = q.sizes[p + (q.hni - q.baseNodeSize)]?) ∧
      (∀ p, q.baseNodeSize ≤ p → p ≤ q.tni → q.tni < p + (q.hni - q.baseNodeSize) → Qn[p]? = some none ∧ Sn[p]? = some 0) ∧
      (∀ p, q.tni < p → Qn[p]? = q.queues[p]? ∧ Sn[p]? = q.sizes[p]?) := by
  have hle := h.hle
  have htle := h.tle
  have hni := h.niLt
  have hlq := h.lenQ'
  have hls := h.lenS
  have hb := h.base
  obtain ⟨Q1, S1, e1, l1, l2, f1, f2⟩ := freeRange_spec (q.hni - q.baseNodeSize) q.baseNodeSize q (by omega) (by omega)
    (by
      intro i hi1 hi2
      rw [h.hq, h.tq]
      constructor <;> (intro e; injection e with e; omega))
  obtain ⟨Q2, S2, e2, l3, l4, c1, c2, c3⟩ := moveRange_spec (q.hni - q.baseNodeSize) q.hni q.tni (by omega) (by omega)
    (q.tni + 1 - q.hni) q.hni { q with queues := Q1, sizes := S1 } (by omega) (Nat.le_refl _)
    (by simp only []; omega) (by simp only []; omega)
    (by
      intro j hj1 hj2
      obtain ⟨a, ha, hsz, _, _⟩ := h.node j (by omega)
      refine ⟨a, a.length, ?_, ?_⟩
      · simp only []; rw [(f2 j (Or.inr (by omega))).1]; exact ha
      · simp only []; rw [(f2 j (Or.inr (by omega))).2]; exact hsz)
    (by simp only [if_true]; exact h.hq)
    (fun _ => h.tq) (fun hn => by omega) hle
  simp only [] at l3 l4 c1 c2 c3
  have hne : ¬ (True ∧ q.tni + 1 - q.hni = 0) := by omega
  simp only [true_and] at hne
  simp only [true_and, hne, if_false] at e2
  have hbm : q.hni - (q.hni - q.baseNodeSize) = q.baseNodeSize := by omega
  rw [hbm] at e2
  refine ⟨Q2, S2, ?_, by omega, by omega, ?_, ?_, ?_, ?_⟩
  · have g1 : ¬ q.hni ≤ q.baseNodeSize := by omega
    have g2 : ¬ (q.baseNodeSize + (q.tni + 1 - q.hni) = 0) := by omega
    have g3 : ¬ (q.tni < q.hni - q.baseNodeSize) := by omega
    have g4 : q.baseNodeSize + (q.tni + 1 - q.hni) - 1 = q.tni - (q.hni - q.baseNodeSize) := by omega
    simp only [resize, g1, if_false, e1, Res.ok_bind, e2, g2, g3, Res.pure_eq, g4, hbm]
  · intro p hp
    have a := c3 p (by omega) (by omega)
    have b := f2 p (Or.inl hp)
    exact ⟨a.1.trans b.1, a.2.trans b.2⟩
  · intro p hp1 hp2
    have a := c1 p (by omega) hp2
    have b := f2 (p + (q.hni - q.baseNodeSize)) (Or.inr (by omega))
    exact ⟨a.1.trans b.1, a.2.trans b.2⟩
  · intro p hp1 hp2 hp3
    by_cases c : q.hni ≤ p
    · exact c2 p c hp2 hp3
    · have a := c3 p (by omega) (by omega)
      have b := f1 p hp1 (by omega)
      exact ⟨a.1.trans b.1, a.2.trans b.2⟩
  · intro p hp
    have a := c3 p (by omega) (by omega)
    have b := f2 p (Or.inr (by omega))
    exact ⟨a.1.trans b.1, a.2.trans b.2⟩


/-- two states whose cursor nodes correspond (same arrays, same recorded sizes, same in-node cursors) iterate alike -/
theorem iterFrom_congr (q q' : Q) (hh : q'.hqi = q.hqi) (ht : q'.tqi = q.tqi)
    (hs : ∀ idx, q.hni + idx ≤ q.tni → q'.queues[q'.hni + idx]? = q.queues[q.hni + idx]? ∧
      q'.sizes[q'.hni + idx]? = q.sizes[q.hni + idx]?)
    (hd : q'.tni - q'.hni = q.tni - q.hni) (h1 : q.hni ≤ q.tni) (h2 : q'.hni ≤ q'.tni) :
    ∀ n i, q.hni + i + n ≤ q.tni + 1 → iterFrom q' i n = iterFrom q i n := by
  intro n
  induction n with
  | zero => intro i _; rfl
  | succ n ih =>
    intro i hi
    have e := hs i (by omega)
    have c1 : (q'.hni + i = q'.hni) = (q.hni + i = q.hni) := by apply propext; omega
    have c2 : (q'.hni + i = q'.tni) = (q.hni + i = q.tni) := by apply propext; omega
    have : iterNodeQueues q' i = iterNodeQueues q i := by
      unfold iterNodeQueues iterBounds slot size
      simp only [e.1, e.2, c1, c2, hh, ht]
    simp only [iterFrom, this, ih (i + 1) (by omega)]

theorem mem_F_take {L : List (Option Arr)} {n : Nat} {e : Elem} (p : Nat) (hp : p < n) (he : (F L)[p]? = some e) :
    e ∈ (F L).take n := (mem_take_iff _ _ _).mpr ⟨p, hp, he⟩

/-- **Resize** ≙ identity, in every state satisfying the invariant with no spare node behind the tail node and a sane
recomputed allocation size (or when the head node has not moved past `baseNodeSize`, where Resize does nothing). -/
theorem resize_spec {q : Q} (h : QInv q) (hp : q.hni ≤ q.baseNodeSize ∨ (NoSpare q ∧ ResizeQs q)) :
    ∃ q', resize q = .ok q' ∧ QInv q' ∧ abs q' = abs q ∧ (HeadClean q → HeadClean q') := by
  by_cases hgt : q.hni ≤ q.baseNodeSize
  · exact ⟨q, by simp [resize, hgt], h, rfl, id⟩
  · have hpre : NoSpare q ∧ ResizeQs q := by rcases hp with h1 | h1; exact absurd h1 hgt; exact h1
    obtain ⟨hns, hqs⟩ := hpre
    obtain ⟨Qn, Sn, e, l1, l2, fA, fB, fC, fD⟩ := resize_move h hns hqs (by omega)
    unfold NoSpare at hns
    have hle := h.hle
    have htle := h.tle
    have hnilt := h.niLt
    have hlq := h.lenQ'
    have hls := h.lenS
    have hb := h.base
    have hbm : q.baseNodeSize + (q.hni - q.baseNodeSize) = q.hni := by omega
    have hinv : QInv { q with queues := Qn, sizes := Sn, headQueue := .node q.baseNodeSize, tailQueue := .node (q.tni - (q.hni - q.baseNodeSize)), nodeIndex := q.tni - (q.hni - q.baseNodeSize), queueSize := wrap32 ((q.baseQueueSize : Int) * shl1 q.tni), hni := q.baseNodeSize, tni := q.tni - (q.hni - q.baseNodeSize) } := by
      constructor <;> simp only [shape_length]
      case lenQ => omega
      case lenS => omega
      case niLt => omega
      case alloc =>
        intro j hj
        by_cases c : j < q.baseNodeSize
        · obtain ⟨n, a1, a2, a3, a4⟩ := h.alloc j (by omega)
          exact ⟨n, by rw [shape_getElem?_congr (fA j c).1]; exact a1, by rw [(fA j c).2]; exact a2, a3, a4⟩
        · obtain ⟨n, a1, a2, a3, a4⟩ := h.alloc (j + (q.hni - q.baseNodeSize)) (by omega)
          have := fB j (by omega) (by omega)
          exact ⟨n, by rw [shape_getElem?_congr this.1]; exact a1, by rw [this.2]; exact a2, a3, a4⟩
      case free =>
        intro j hj1 hj2
        by_cases c : j ≤ q.tni
        · have := fC j (by omega) c (by omega)
          exact ⟨by simp only [shape, List.getElem?_map, this.1]; rfl, this.2⟩
        · have := fD j (by omega)
          obtain ⟨g1, g2⟩ := h.free j (by omega) hj2
          exact ⟨by rw [shape_getElem?_congr this.1]; exact g1, by rw [this.2]; exact g2⟩
      case hle => omega
      case tle => exact Nat.le_refl _
      case hqs => have := fB q.baseNodeSize (Nat.le_refl _) (by omega); rw [this.2, hbm]; exact h.hqs
      case tqs =>
        have := fB (q.tni - (q.hni - q.baseNodeSize)) (by omega) (by omega)
        rw [this.2, show q.tni - (q.hni - q.baseNodeSize) + (q.hni - q.baseNodeSize) = q.tni by omega]; exact h.tqs
      case hlt => exact h.hlt
      case tlt => exact h.tlt
      case ord => intro e'; exact h.ord (by omega)
      case base => exact hb
      case qsPos => exact hqs.1
      case qsLt => exact hqs.2
    refine ⟨_, e, hinv, ?_, ?_⟩
    · -- same iteration ⇒ same content
      obtain ⟨la, ea, fa⟩ := iterAll_refines h
      obtain ⟨lb, eb, fb⟩ := iterAll_refines hinv
      have hcong := iterFrom_congr q { q with queues := Qn, sizes := Sn, headQueue := .node q.baseNodeSize, tailQueue := .node (q.tni - (q.hni - q.baseNodeSize)), nodeIndex := q.tni - (q.hni - q.baseNodeSize), queueSize := wrap32 ((q.baseQueueSize : Int) * shl1 q.tni), hni := q.baseNodeSize, tni := q.tni - (q.hni - q.baseNodeSize) }
        rfl rfl
        (by
          intro idx hidx
          have := fB (q.baseNodeSize + idx) (by omega) (by omega)
          simp only []
          rw [this.1, this.2, show q.baseNodeSize + idx + (q.hni - q.baseNodeSize) = q.hni + idx by omega]
          exact ⟨rfl, rfl⟩)
        (by simp only []; omega) hle (by simp only []; omega) (q.tni + 1 - q.hni) 0 (by omega)
      have hc1 : q.hni ≤ q.tni + 1 ∧ q.tni + 1 ≤ q.queues.length := by omega
      have hc2 : q.baseNodeSize ≤ q.tni - (q.hni - q.baseNodeSize) + 1 ∧ q.tni - (q.hni - q.baseNodeSize) + 1 ≤ Qn.length := by omega
      have hcnt : q.tni - (q.hni - q.baseNodeSize) + 1 - q.baseNodeSize = q.tni + 1 - q.hni := by omega
      simp only [iterAll, iterNodes, hc1, and_self, if_true, Res.ok_bind] at ea
      simp only [iterAll, iterNodes, hc2, and_self, if_true, Res.ok_bind, hcnt, hcong] at eb
      rw [ea] at eb
      injection eb with eb
      rw [← fa, ← fb, eb]
    · intro hc
      show cleanL Qn q.baseNodeSize q.hqi
      unfold cleanL
      intro e' he'
      obtain ⟨p, hp1, hp2⟩ := (mem_take_iff _ _ _).mp he'
      -- nodes 0..base-1 are untouched
      have htk : Qn.take q.baseNodeSize = q.queues.take q.baseNodeSize := by
        apply List.ext_getElem?
        intro k
        simp only [List.getElem?_take]
        by_cases ck : k < q.baseNodeSize
        · simp only [ck, if_true]; exact (fA k ck).1
        · simp only [ck, if_false]
      have ho : off Qn q.baseNodeSize = off q.queues q.baseNodeSize := by
        rw [← off_take Qn q.baseNodeSize q.baseNodeSize (Nat.le_refl _), htk, off_take _ _ _ (Nat.le_refl _)]
      obtain ⟨ah, hah, hahl⟩ := h.headNode
      have hQb : Qn[q.baseNodeSize]? = some (some ah) := by
        have := fB q.baseNodeSize (Nat.le_refl _) (by omega)
        rw [this.1, hbm]; exact hah
      have hmono : off q.queues q.baseNodeSize ≤ off q.queues q.hni := off_mono _ (by omega)
      apply hc e'
      by_cases cp : p < off Qn q.baseNodeSize
      · -- a cell of nodes 0..base-1: same cell in the old table
        have e1 : (F Qn)[p]? = (F q.queues)[p]? := by
          have a1 : ((F Qn).take (off Qn q.baseNodeSize))[p]? = (F Qn)[p]? := by rw [List.getElem?_take]; simp [cp]
          have a2 : ((F q.queues).take (off q.queues q.baseNodeSize))[p]? = (F q.queues)[p]? := by
            rw [List.getElem?_take]; simp [show p < off q.queues q.baseNodeSize by omega]
          rw [← a1, ← a2, F_take_off, F_take_off, htk]
        exact mem_F_take p (by omega) (by rw [← e1]; exact hp2)
      · -- a cell of the head node before the head cursor
        have hj : p - off Qn q.baseNodeSize < ah.length := by have := h.hlt; omega
        have e1 := F_get_cell Qn q.baseNodeSize (p - off Qn q.baseNodeSize) ah hQb hj
        have e2 := F_get_cell q.queues q.hni (p - off Qn q.baseNodeSize) ah hah hj
        rw [show off Qn q.baseNodeSize + (p - off Qn q.baseNodeSize) = p by omega] at e1
        rw [e1] at hp2
        exact mem_F_take (off q.queues q.hni + (p - off Qn q.baseNodeSize)) (by omega) (by rw [e2]; exact hp2)

end Slock.Queue
