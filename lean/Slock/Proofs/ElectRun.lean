import Slock.Proofs.ElectCmp
/-!
Invariants of M-ELECT over ALL event sequences (any length, any member count), by induction over the event list.

The central notion is the *pure acceptor*: a member that is never started as a candidate and never restarted in the
execution under consideration. For such a member every step is one of the four acceptor handlers (or leaves it alone),
so its numbers only grow, its latch is never cleared and it accepts at most one commit, ever.
-/
namespace Slock.Elect

/-! ### list helpers -/

theorem length_setM (ms : List Member) (i : Nat) (x : Member) : (setM ms i x).length = ms.length := by
  induction ms generalizing i with
  | nil => rfl
  | cons m ms ih => cases i with
    | zero => rfl
    | succ i => simp [setM, ih]

theorem getM_setM_eq (ms : List Member) (i : Nat) (x : Member) (h : i < ms.length) : getM (setM ms i x) i = x := by
  induction ms generalizing i with
  | nil => simp at h
  | cons m ms ih => cases i with
    | zero => rfl
    | succ i => simp only [setM, getM]; exact ih i (by simpa using h)

theorem getM_setM_ne (ms : List Member) (i j : Nat) (x : Member) (h : i ≠ j) : getM (setM ms j x) i = getM ms i := by
  induction ms generalizing i j with
  | nil => rfl
  | cons m ms ih =>
    cases j with
    | zero => cases i with
      | zero => exact absurd rfl h
      | succ i => rfl
    | succ j => cases i with
      | zero => rfl
      | succ i => simp only [setM, getM]; exact ih i j (by omega)

theorem getM_mem (ms : List Member) (i : Nat) (h : i < ms.length) : getM ms i ∈ ms := by
  induction ms generalizing i with
  | nil => simp at h
  | cons m ms ih => cases i with
    | zero => simp [getM]
    | succ i => simp only [getM]; exact List.mem_cons_of_mem _ (ih i (by simpa using h))

theorem mem_getM (ms : List Member) (m : Member) (h : m ∈ ms) : ∃ i, i < ms.length ∧ getM ms i = m := by
  induction ms with
  | nil => simp at h
  | cons a ms ih =>
    rcases List.mem_cons.mp h with h | h
    · exact ⟨0, by simp, by simp [getM, h]⟩
    · obtain ⟨i, hi, he⟩ := ih h
      exact ⟨i + 1, by simp; omega, by simp [getM, he]⟩

/-- two sub-populations of a list, counted with `filter`, overlap by at least the excess over the list's length -/
theorem filter_overlap (l : List Member) (p q : Member → Bool) :
    (l.filter p).length + (l.filter q).length ≤ l.length + (l.filter (fun m => p m && q m)).length := by
  induction l with
  | nil => simp
  | cons a l ih =>
    simp only [List.filter_cons, List.length_cons]
    cases hp : p a <;> cases hq : q a <;> simp <;> omega

/-! ### what a step does to a member that is not running a candidacy -/

/-- the relation between the states of a member before and after one of the acceptor handlers (or nothing) -/
def AccRel (m m' : Member) : Prop :=
  m'.phase = m.phase ∧ m'.clears = m.clears ∧ m'.voteHost = m.voteHost ∧
  ( (m'.pid = m.pid ∧ m'.cid = m.cid ∧ m'.latch = m.latch ∧ m'.commits = m.commits)
  ∨ (m.latch = none ∧ m.pid < m'.pid ∧ m.cid < m'.pid ∧ m'.cid = m.cid ∧ m'.latch = none ∧ m'.commits = m.commits)
  ∨ (∃ h, m'.pid = m.pid ∧ m.cid < m.pid ∧ m'.cid = m.pid ∧ m'.latch = some h ∧ m'.commits = (m.pid, h) :: m.commits))

theorem AccRel.refl (m : Member) : AccRel m m := ⟨rfl, rfl, rfl, Or.inl ⟨rfl, rfl, rfl, rfl⟩⟩

theorem accRel_handleVote (self : Nat) (m : Member) : AccRel m (handleVote self m).2 := by
  unfold handleVote currentAof
  simp only []
  split <;> exact ⟨rfl, rfl, rfl, Or.inl ⟨rfl, rfl, rfl, rfl⟩⟩

theorem accRel_handleProposal (n self : Nat) (m : Member) (k host : Nat) (aof : AofId) :
    AccRel m (handleProposal n self m k host aof).2 := by
  cases hr : handleProposal n self m k host aof with
  | mk r m' =>
    cases r with
    | ok old =>
      obtain ⟨h1, h2, h3, _, h5, _⟩ := handleProposal_ok hr
      subst h5
      exact ⟨rfl, rfl, rfl, Or.inr (Or.inl ⟨h1, h2, h3, rfl, h1, rfl⟩)⟩
    | reject => rw [handleProposal_not_ok hr (by simp)]; exact AccRel.refl m
    | role => rw [handleProposal_not_ok hr (by simp)]; exact AccRel.refl m
    | status => rw [handleProposal_not_ok hr (by simp)]; exact AccRel.refl m
    | offline => rw [handleProposal_not_ok hr (by simp)]; exact AccRel.refl m
    | aofid => rw [handleProposal_not_ok hr (by simp)]; exact AccRel.refl m
    | badHost => rw [handleProposal_not_ok hr (by simp)]; exact AccRel.refl m
    | propId x => rw [handleProposal_not_ok hr (by simp)]; exact AccRel.refl m

theorem accRel_handleCommit (n : Nat) (m : Member) (f k host : Nat) :
    AccRel m (handleCommit n m f k host).2 := by
  cases hr : handleCommit n m f k host with
  | mk r m' =>
    cases r with
    | ok =>
      obtain ⟨h1, h2, h3⟩ := handleCommit_ok hr
      subst h3
      subst h1
      exact ⟨rfl, rfl, rfl, Or.inr (Or.inr ⟨host, rfl, h2, rfl, rfl, rfl⟩)⟩
    | badHost => rw [handleCommit_not_ok hr (by simp)]; exact AccRel.refl m
    | propId => rw [handleCommit_not_ok hr (by simp)]; exact AccRel.refl m
    | commitId => rw [handleCommit_not_ok hr (by simp)]; exact AccRel.refl m

theorem recordVote_idle (n c t : Nat) (m : Member) (r : VoteResp) (b : Bool) (h : m.phase = .idle) :
    recordVote n c t m r b = (m, []) := by
  unfold recordVote; simp [h]

theorem recordProposal_idle (n c : Nat) (m : Member) (r : PropRes) (b : Bool) (h : m.phase = .idle) :
    recordProposal n c m r b = (m, []) := by
  unfold recordProposal; simp [h]

theorem recordCommit_idle (n c : Nat) (m : Member) (r : CommitRes) (h : m.phase = .idle) :
    recordCommit n c m r = (m, []) := by
  unfold recordCommit; simp [h]

theorem phaseOfMsg_ne_idle (msg : Msg) : Phase.idle ≠ phaseOfMsg msg := by
  cases msg <;> simp [phaseOfMsg]

theorem step_length (s : State) (e : Event) : (step s e).1.members.length = s.members.length := by
  unfold step
  cases e <;> simp only [] <;> (repeat' split) <;> simp [length_setM, State.n]

/-- One step, seen from a member `i` that is idle, is not being started and not being restarted: an acceptor move. -/
theorem step_idle_member (s : State) (e : Event) (i : Nat)
    (hidle : (getM s.members i).phase = .idle) (hs : e ≠ .start i) (hr : e ≠ .restart i) :
    AccRel (getM s.members i) (getM (step s e).1.members i) := by
  unfold step
  cases e with
  | start c =>
    have hci : i ≠ c := fun h => hs (by rw [h])
    simp only []
    split
    · split
      · simp only [getM_setM_ne _ _ _ _ hci]; exact AccRel.refl _
      · exact AccRel.refl _
    · exact AccRel.refl _
  | restart c =>
    have hci : i ≠ c := fun h => hr (by rw [h])
    simp only []
    split
    · simp only [getM_setM_ne _ _ _ _ hci]; exact AccRel.refl _
    · exact AccRel.refl _
  | save c =>
    simp only []
    split
    · rename_i hc
      by_cases hci : i = c
      · subst hci
        simp only [State.n] at hc
        rw [getM_setM_eq _ _ _ hc]
        exact ⟨rfl, rfl, rfl, Or.inl ⟨rfl, rfl, rfl, rfl⟩⟩
      · simp only [getM_setM_ne _ _ _ _ hci]; exact AccRel.refl _
    · exact AccRel.refl _
  | deliverReq c t =>
    simp only []
    split
    · rename_i hct
      simp only [State.n] at hct
      split
      · exact AccRel.refl _
      · rename_i msg rest _
        cases msg with
        | voteReq a b =>
          simp only []
          by_cases htc : t = c
          · simp only [htc, if_true]
            by_cases hic : i = c
            · subst hic
              have h1 := accRel_handleVote i (getM s.members i)
              have hph : (handleVote i (getM s.members i)).2.phase = .idle := by rw [h1.1]; exact hidle
              rw [recordVote_idle _ _ _ _ _ _ hph]
              simp only [getM_setM_eq _ _ _ hct.1]
              exact h1
            · simp only [getM_setM_ne _ _ _ _ hic]; exact AccRel.refl _
          · simp only [htc, if_false]
            by_cases hit : i = t
            · subst hit
              simp only [getM_setM_eq _ _ _ hct.2]
              exact accRel_handleVote i (getM s.members i)
            · simp only [getM_setM_ne _ _ _ _ hit]; exact AccRel.refl _
        | propReq a b k host aof =>
          simp only []
          by_cases htc : t = c
          · simp only [htc, if_true]
            by_cases hic : i = c
            · subst hic
              have h1 := accRel_handleProposal s.n i (getM s.members i) k host aof
              have hph : (handleProposal s.n i (getM s.members i) k host aof).2.phase = .idle := by rw [h1.1]; exact hidle
              rw [recordProposal_idle _ _ _ _ _ hph]
              simp only [getM_setM_eq _ _ _ hct.1]
              exact h1
            · simp only [getM_setM_ne _ _ _ _ hic]; exact AccRel.refl _
          · simp only [htc, if_false]
            by_cases hit : i = t
            · subst hit
              simp only [getM_setM_eq _ _ _ hct.2]
              exact accRel_handleProposal s.n i (getM s.members i) k host aof
            · simp only [getM_setM_ne _ _ _ _ hit]; exact AccRel.refl _
        | commitReq a b k host =>
          simp only []
          by_cases htc : t = c
          · simp only [htc, if_true]
            by_cases hic : i = c
            · subst hic
              have h1 := accRel_handleCommit s.n (getM s.members i) i k host
              have hph : (handleCommit s.n (getM s.members i) i k host).2.phase = .idle := by rw [h1.1]; exact hidle
              rw [recordCommit_idle _ _ _ _ hph]
              simp only [getM_setM_eq _ _ _ hct.1]
              exact h1
            · simp only [getM_setM_ne _ _ _ _ hic]; exact AccRel.refl _
          · simp only [htc, if_false]
            by_cases hit : i = t
            · subst hit
              simp only [getM_setM_eq _ _ _ hct.2]
              exact accRel_handleCommit s.n (getM s.members i) c k host
            · simp only [getM_setM_ne _ _ _ _ hit]; exact AccRel.refl _
        | voteRep a b r => exact AccRel.refl _
        | propRep a b r => exact AccRel.refl _
        | commitRep a b r => exact AccRel.refl _
    · exact AccRel.refl _
  | deliverRep c t =>
    simp only []
    split
    · rename_i hct
      simp only [State.n] at hct
      split
      · exact AccRel.refl _
      · rename_i msg rest _
        by_cases hic : i = c
        · subst hic
          cases msg with
          | voteRep a b r =>
            simp only [recordVote_idle _ _ _ _ _ _ hidle, getM_setM_eq _ _ _ hct.1]; exact AccRel.refl _
          | propRep a b r =>
            simp only [recordProposal_idle _ _ _ _ _ hidle, getM_setM_eq _ _ _ hct.1]; exact AccRel.refl _
          | commitRep a b r =>
            simp only [recordCommit_idle _ _ _ _ hidle, getM_setM_eq _ _ _ hct.1]; exact AccRel.refl _
          | voteReq a b => exact AccRel.refl _
          | propReq a b k host aof => exact AccRel.refl _
          | commitReq a b k host => exact AccRel.refl _
        · cases msg <;> simp only [getM_setM_ne _ _ _ _ hic] <;> exact AccRel.refl _
    · exact AccRel.refl _
  | dropReq c t =>
    simp only []
    split
    · split
      · exact AccRel.refl _
      · rename_i msg rest _
        by_cases hic : i = c
        · subst hic
          have hne : ¬ (getM s.members i).phase = phaseOfMsg msg := by rw [hidle]; exact phaseOfMsg_ne_idle msg
          simp only [hne, if_false]; exact AccRel.refl _
        · split
          · simp only [getM_setM_ne _ _ _ _ hic]; exact AccRel.refl _
          · exact AccRel.refl _
    · exact AccRel.refl _
  | dropRep c t =>
    simp only []
    split
    · split
      · exact AccRel.refl _
      · rename_i msg rest _
        by_cases hic : i = c
        · subst hic
          have hne : ¬ (getM s.members i).phase = phaseOfMsg msg := by rw [hidle]; exact phaseOfMsg_ne_idle msg
          simp only [hne, if_false]; exact AccRel.refl _
        · split
          · simp only [getM_setM_ne _ _ _ _ hic]; exact AccRel.refl _
          · exact AccRel.refl _
    · exact AccRel.refl _

/-! ### executions -/

/-- member `i` is neither started as a candidate nor restarted anywhere in `es` -/
def PureAcceptor (i : Nat) (es : List Event) : Prop := ∀ e ∈ es, e ≠ .start i ∧ e ≠ .restart i

/-- the acceptor invariant behind "commit once": a member is either unlatched and has never accepted a commit, or it
is latched, has accepted exactly one commit, and `proposalId = commitId =` that commit's number -/
def CommitOnce (m : Member) : Prop :=
  (m.commits = [] ∧ m.latch = none) ∨ (∃ k h, m.commits = [(k, h)] ∧ m.latch = some h ∧ m.pid = k ∧ m.cid = k)

theorem AccRel.mono {m m' : Member} (h : AccRel m m') : m'.phase = m.phase ∧ m.pid ≤ m'.pid ∧ m.cid ≤ m'.cid := by
  obtain ⟨hp, _, _, h⟩ := h
  rcases h with ⟨h1, h2, _, _⟩ | ⟨_, h2, _, h4, _, _⟩ | ⟨x, h1, h2, h3, _, _⟩
  · exact ⟨hp, by omega, by omega⟩
  · exact ⟨hp, by omega, by omega⟩
  · exact ⟨hp, by omega, by omega⟩

theorem AccRel.commitOnce {m m' : Member} (h : AccRel m m') (hc : CommitOnce m) : CommitOnce m' := by
  obtain ⟨_, _, _, h⟩ := h
  rcases h with ⟨h1, h2, h3, h4⟩ | ⟨h1, h2, h3, h4, h5, h6⟩ | ⟨x, h1, h2, h3, h4, h5⟩
  · rcases hc with ⟨c1, c2⟩ | ⟨k, hh, c1, c2, c3, c4⟩
    · left; rw [h4, h3]; exact ⟨c1, c2⟩
    · right; exact ⟨k, hh, by rw [h4, c1], by rw [h3, c2], by rw [h1, c3], by rw [h2, c4]⟩
  · rcases hc with ⟨c1, _⟩ | ⟨k, hh, _, c2, _, _⟩
    · left; rw [h6]; exact ⟨c1, h5⟩
    · rw [c2] at h1; simp at h1
  · rcases hc with ⟨c1, _⟩ | ⟨k, hh, _, _, c3, c4⟩
    · right; exact ⟨m.pid, x, by rw [h5, c1], h4, h1, h3⟩
    · omega

/-- a latched member (that satisfies the invariant) is frozen: no acceptor move changes its numbers, latch or commits -/
theorem AccRel.frozen {m m' : Member} (h : AccRel m m') (hc : CommitOnce m) (hl : m.latch ≠ none) :
    m'.latch = m.latch ∧ m'.commits = m.commits ∧ m'.pid = m.pid ∧ m'.cid = m.cid := by
  obtain ⟨_, _, _, h⟩ := h
  rcases h with ⟨h1, h2, h3, h4⟩ | ⟨h1, _⟩ | ⟨x, h1, h2, h3, h4, h5⟩
  · exact ⟨h3, h4, h1, h2⟩
  · exact absurd h1 hl
  · rcases hc with ⟨_, c2⟩ | ⟨k, hh, _, _, c3, c4⟩
    · exact absurd c2 hl
    · omega

theorem run_length (s : State) (es : List Event) : (run s es).members.length = s.members.length := by
  induction es generalizing s with
  | nil => rfl
  | cons e es ih => simp only [run]; rw [ih, step_length]

/-- Along any execution in which member `i` is a pure acceptor: it stays idle, `proposalId` and `commitId` never
decrease, the commit-once invariant is kept, and once latched nothing about it changes any more. -/
theorem run_pure (es : List Event) : ∀ (s : State) (i : Nat), PureAcceptor i es → (getM s.members i).phase = .idle →
    (getM (run s es).members i).phase = .idle ∧
    (getM s.members i).pid ≤ (getM (run s es).members i).pid ∧
    (getM s.members i).cid ≤ (getM (run s es).members i).cid ∧
    (CommitOnce (getM s.members i) → CommitOnce (getM (run s es).members i)) ∧
    (CommitOnce (getM s.members i) → (getM s.members i).latch ≠ none →
      (getM (run s es).members i).latch = (getM s.members i).latch ∧
      (getM (run s es).members i).commits = (getM s.members i).commits) := by
  induction es with
  | nil => intro s i _ h; exact ⟨h, Nat.le_refl _, Nat.le_refl _, id, fun _ _ => ⟨rfl, rfl⟩⟩
  | cons e es ih =>
    intro s i hp hidle
    have he := hp e (by simp)
    have hp' : PureAcceptor i es := fun x hx => hp x (by simp [hx])
    have hstep := step_idle_member s e i hidle he.1 he.2
    obtain ⟨m1, m2, m3⟩ := hstep.mono
    have hidle' : (getM (step s e).1.members i).phase = .idle := by rw [m1]; exact hidle
    obtain ⟨i1, i2, i3, i4, i5⟩ := ih (step s e).1 i hp' hidle'
    simp only [run]
    refine ⟨i1, by omega, by omega, fun hc => i4 (hstep.commitOnce hc), ?_⟩
    intro hc hl
    obtain ⟨f1, f2, _, _⟩ := hstep.frozen hc hl
    have hl' : (getM (step s e).1.members i).latch ≠ none := by rw [f1]; exact hl
    obtain ⟨g1, g2⟩ := i5 (hstep.commitOnce hc) hl'
    exact ⟨by rw [g1, f1], by rw [g2, f2]⟩

/-- a pure acceptor that starts unlatched with an empty history accepts at most one commit in the whole execution -/
theorem pure_commits_le_one (es : List Event) (s : State) (i : Nat) (hp : PureAcceptor i es)
    (hidle : (getM s.members i).phase = .idle) (h0 : (getM s.members i).commits = [] ∧ (getM s.members i).latch = none)
    {a b : Nat × Nat} (ha : a ∈ (getM (run s es).members i).commits) (hb : b ∈ (getM (run s es).members i).commits) : a = b := by
  obtain ⟨_, _, _, h4, _⟩ := run_pure es s i hp hidle
  rcases h4 (Or.inl h0) with ⟨c1, _⟩ | ⟨k, h, c1, _, _, _⟩
  · rw [c1] at ha; simp at ha
  · rw [c1] at ha hb
    simp at ha hb
    rw [ha, hb]

/-- quorum intersection: if two (number, host) pairs were each accepted by a majority, some member accepted both -/
theorem majorities_intersect (ms : List Member) (a b : Nat × Nat)
    (ha : (ms.filter (fun m => m.commits.contains a)).length ≥ voteMajority ms.length)
    (hb : (ms.filter (fun m => m.commits.contains b)).length ≥ voteMajority ms.length) :
    ∃ i, i < ms.length ∧ a ∈ (getM ms i).commits ∧ b ∈ (getM ms i).commits := by
  have h := filter_overlap ms (fun m => m.commits.contains a) (fun m => m.commits.contains b)
  unfold voteMajority at ha hb
  have hpos : 0 < (ms.filter (fun m => m.commits.contains a && m.commits.contains b)).length := by omega
  obtain ⟨m, hm⟩ := List.exists_mem_of_length_pos hpos
  rw [List.mem_filter] at hm
  obtain ⟨hm1, hm2⟩ := hm
  simp only [Bool.and_eq_true, List.contains_iff_mem] at hm2
  obtain ⟨i, hi, hie⟩ := mem_getM ms m hm1
  exact ⟨i, hi, by rw [hie]; exact hm2.1, by rw [hie]; exact hm2.2⟩

end Slock.Elect
