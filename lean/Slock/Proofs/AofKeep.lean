import Slock.Proofs.AofDeadline
/-!
The compaction's keep-rule on AGED records: a record written (at second `c`) from the terms of a hold with deadline `d` is
judged (at second `n`, `c ≤ n < d`) by `CheckLockedEqual` on the REMAINING lifetime `loadRemaining … n`; that comparison
succeeds whatever the age `n − c` — so the record is kept iff the counts agree.
-/
namespace Slock.Aof
open Slock.Gen.K

theorem flags_sec (ef : Nat) (h : IsSeconds ef) : ef &&& 16384 = 0 ∧ ef &&& 1024 = 0 ∧ ef &&& 64 = 0 := h
theorem flags_min (ef : Nat) (h : IsMinutes ef) : ef &&& 16384 = 0 ∧ ef &&& 1024 = 0 ∧ ef &&& 64 ≠ 0 := h

/-- `CheckLockedEqual` for a seconds-unit command: `|now + expried + 1 − deadline| ≤ 1` and equal counts. -/
theorem checkLockedEqual_sec (now expT : Int) (ef expried : Nat) (countEq : Bool) (h : IsSeconds ef) :
    checkLockedEqual now expT ef expried countEq =
      (decide (now + expried + 1 - expT ≤ 1 ∧ expT - (now + expried + 1) ≤ 1) && countEq) := by
  obtain ⟨h1, h2, h3⟩ := flags_sec ef h
  unfold checkLockedEqual
  simp only [h1, h2, h3, bne_self_eq_false, Bool.false_eq_true, if_false, beq_self_eq_true, if_true]
  by_cases hg : now + (expried : Int) + 1 > expT
  · simp only [decide_eq_true hg, if_true]
    congr 1; apply decide_eq_decide.mpr; constructor <;> intro <;> omega
  · simp only [decide_eq_false hg, Bool.false_eq_true, if_false]
    congr 1; apply decide_eq_decide.mpr; constructor <;> intro <;> omega

/-- `CheckLockedEqual` for a minute-unit command: `|now + 60·expried + 1 − deadline| ≤ 60` and equal counts. -/
theorem checkLockedEqual_min (now expT : Int) (ef expried : Nat) (countEq : Bool) (h : IsMinutes ef) :
    checkLockedEqual now expT ef expried countEq =
      (decide (now + (expried : Int) * 60 + 1 - expT ≤ 60 ∧ expT - (now + (expried : Int) * 60 + 1) ≤ 60) && countEq) := by
  obtain ⟨h1, h2, h3⟩ := flags_min ef h
  have h3' : (ef &&& 64 != 0) = true := by simp [h3]
  unfold checkLockedEqual
  simp only [h1, h2, h3', bne_self_eq_false, Bool.false_eq_true, if_false, beq_self_eq_true, if_true]
  by_cases hg : now + (expried : Int) * 60 + 1 > expT
  · simp only [decide_eq_true hg, if_true]
    congr 1; apply decide_eq_decide.mpr; constructor <;> intro <;> omega
  · simp only [decide_eq_false hg, Bool.false_eq_true, if_false]
    congr 1; apply decide_eq_decide.mpr; constructor <;> intro <;> omega

/-- **Seconds, any age.** A record written at `c` from a hold with deadline `d = s + e + 1` (stored value saturating at
0xffff included), judged at any `n` with `c ≤ n < d`: the expiry comparison of the keep-rule succeeds. -/
theorem keep_aged_seconds (ef e : Nat) (s c n : Int) (countEq : Bool) (h : IsSeconds ef) (he : 0 < e) (he2 : e ≤ 65535)
    (hs : 0 ≤ s) (hsc : s ≤ c) (hcn : c ≤ n) (hnd : n < s + e + 1) :
    checkLockedEqual n (s + e + 1) ef (loadRemaining ef (writeRemaining ef e (some (s + e + 1)) c) c n) countEq = countEq := by
  rw [checkLockedEqual_sec _ _ _ _ _ h]
  by_cases hov : s + e + 1 - c < 65536
  · rw [sec_write ef e (s + e + 1) c h (by omega) (by omega) hov, sec_load ef _ c n h hcn (by omega)]
    have : decide (n + ((((s + e + 1 - c).toNat - (n - c).toNat : Nat) : Int)) + 1 - (s + e + 1) ≤ 1 ∧
        (s + e + 1) - (n + ((((s + e + 1 - c).toNat - (n - c).toNat : Nat) : Int)) + 1) ≤ 1) = true := by
      apply decide_eq_true; constructor <;> omega
    rw [this]; simp
  · rw [sec_write_sat ef e (s + e + 1) c h (by omega) (by omega), sec_load ef _ c n h hcn (by omega)]
    have : decide (n + (((65535 - (n - c).toNat : Nat) : Int)) + 1 - (s + e + 1) ≤ 1 ∧
        (s + e + 1) - (n + (((65535 - (n - c).toNat : Nat) : Int)) + 1) ≤ 1) = true := by
      apply decide_eq_true; constructor <;> omega
    rw [this]; simp

/-- **Minutes, any age** (no uint16 overflow: at most 65535 minutes left when written). -/
theorem keep_aged_minutes (ef e : Nat) (s c n : Int) (countEq : Bool) (h : IsMinutes ef)
    (hcn : c ≤ n) (hnd : n < s + (e : Int) * 60 + 1) (hov : s + (e : Int) * 60 + 1 - c ≤ 60 * 65535) :
    checkLockedEqual n (s + (e : Int) * 60 + 1) ef
      (loadRemaining ef (writeRemaining ef e (some (s + (e : Int) * 60 + 1)) c) c n) countEq = countEq := by
  rw [checkLockedEqual_min _ _ _ _ _ h]
  have hw : ((writeRemaining ef e (some (s + (e : Int) * 60 + 1)) c : Nat) : Int) = (s + (e : Int) * 60 + 1 - c + 59) / 60 :=
    min_write ef e _ c h (by omega) hov
  have hl := min_load ef (writeRemaining ef e (some (s + (e : Int) * 60 + 1)) c) c n h hcn (by omega)
  rw [hl]
  generalize writeRemaining ef e (some (s + (e : Int) * 60 + 1)) c = rem at hw
  have : decide (n + (((rem - (elapsedMinutes (n - c)).toNat : Nat) : Int)) * 60 + 1 - (s + (e : Int) * 60 + 1) ≤ 60 ∧
      (s + (e : Int) * 60 + 1) - (n + (((rem - (elapsedMinutes (n - c)).toNat : Nat) : Int)) * 60 + 1) ≤ 60) = true := by
    apply decide_eq_true
    unfold elapsedMinutes
    split <;> constructor <;> omega
  rw [this]; simp

/-- Under the keep-rule a LOCK record with the update-when-locked flag and no value is kept iff `CheckLockedEqual` says so. -/
theorem keepRule_update_record (now : Int) (view : List KeyView) (r : Rec) (k : KeyView) (h : HoldView)
    (hk : view.find? (fun k => k.db = recDb r.buf ∧ k.key = recKey r.buf) = some k)
    (hh : k.holds.find? (fun h => h.lockId = recLockId r.buf) = some h)
    (hct : commandType r.buf = 1) (hfl : recFlag r.buf &&& 0x02 ≠ 0) (hd : r.data = none)
    (hnz : ¬ (keepExpried now r.buf = 0 ∧ expriedFlag r.buf &&& 0x4440 = 0)) :
    keepRule now view r = lockedEqual now h r.buf := by
  have hne : k.holds.isEmpty = false := by
    cases hkh : k.holds with
    | nil => rw [hkh] at hh; simp at hh
    | cons a l => rfl
  unfold keepRule
  simp only [hk, hne, Bool.false_eq_true, if_false, hct, if_true, hnz, hfl, ne_eq, not_false_eq_true, hh, hd]

end Slock.Aof
