import Slock.Proofs.AckBasic
/-! M-ACK: the structural invariant `InvA` (record identities, who may be referenced by the journal and the ack table, the counter of a
registered lock is positive) and the lemmas that carry it through the primitive updates. -/
namespace Slock.Ack

theorem map_hid_modRecs (hid : Nat) (f : Rec → Rec) (hf : ∀ r, (f r).hid = r.hid) (rs : List Rec) :
    (modRecs hid f rs).map (·.hid) = rs.map (·.hid) := by
  induction rs with
  | nil => rfl
  | cons r rs ih =>
    unfold modRecs
    split
    · simp [hf]
    · simp [ih]

theorem nodup_toEnd {db : DB} (h : (db.recs.map (·.hid)).Nodup) (hid : Nat) : ((db.toEnd hid).recs.map (·.hid)).Nodup := by
  unfold DB.toEnd
  simp only [List.map_append]
  rw [List.nodup_append]
  refine ⟨(h.sublist (List.Sublist.map _ List.filter_sublist)), (h.sublist (List.Sublist.map _ List.filter_sublist)), ?_⟩
  intro a ha b hb
  simp only [List.mem_map, List.mem_filter] at ha hb
  obtain ⟨x, ⟨_, hx⟩, rfl⟩ := ha
  obtain ⟨y, ⟨_, hy⟩, rfl⟩ := hb
  simp at hx hy
  omega

theorem findR_of_mem {rs : List Rec} (hn : (rs.map (·.hid)).Nodup) {r : Rec} (hr : r ∈ rs) : findR rs r.hid = some r := by
  induction rs with
  | nil => simp at hr
  | cons x xs ih =>
    simp only [List.map_cons, List.nodup_cons] at hn
    unfold findR
    rcases List.mem_cons.mp hr with e | e
    · subst e; simp [List.find?]
    · have hne : ¬ x.hid = r.hid := by
        intro he; apply hn.1; rw [he]; exact List.mem_map_of_mem e
      have hb : (x.hid == r.hid) = false := by simpa using hne
      simp only [List.find?, hb]
      exact ih hn.2 e

structure InvA (db : DB) : Prop where
  nodup : (db.recs.map (·.hid)).Nodup
  hidLt : ∀ r ∈ db.recs, r.hid < db.nextHid
  heldNQ : ∀ r ∈ db.recs, r.depth > 0 → r.queued = false
  jrn : ∀ j ∈ db.journal, j.isLock = true → ∀ h, j.hid = some h → h < db.nextHid ∧ (db.getR h).queued = false
  tabOk : ∀ e ∈ db.tab, e.hid < db.nextHid ∧ (db.getR e.hid).queued = false ∧
            ((db.getR e.hid).pending = true → (db.getR e.hid).ack ≥ 1)

/-- the same, except that the counter of record `x` may be zero (the instant between the last decrement and `DoAckLock`) -/
structure InvX (db : DB) (x : Nat) : Prop where
  nodup : (db.recs.map (·.hid)).Nodup
  hidLt : ∀ r ∈ db.recs, r.hid < db.nextHid
  heldNQ : ∀ r ∈ db.recs, r.depth > 0 → r.queued = false
  jrn : ∀ j ∈ db.journal, j.isLock = true → ∀ h, j.hid = some h → h < db.nextHid ∧ (db.getR h).queued = false
  tabOk : ∀ e ∈ db.tab, e.hid < db.nextHid ∧ (db.getR e.hid).queued = false ∧
            (e.hid ≠ x → (db.getR e.hid).pending = true → (db.getR e.hid).ack ≥ 1)

theorem InvA.toX {db : DB} (h : InvA db) (x : Nat) : InvX db x :=
  ⟨h.nodup, h.hidLt, h.heldNQ, h.jrn, fun e he => ⟨(h.tabOk e he).1, (h.tabOk e he).2.1, fun _ => (h.tabOk e he).2.2⟩⟩

theorem InvX.toA {db : DB} {x : Nat} (h : InvX db x) (hx : (db.getR x).pending = false) : InvA db :=
  ⟨h.nodup, h.hidLt, h.heldNQ, h.jrn, fun e he => ⟨(h.tabOk e he).1, (h.tabOk e he).2.1, fun hp => by
    by_cases e1 : e.hid = x
    · rw [e1, hx] at hp; exact absurd hp (by decide)
    · exact (h.tabOk e he).2.2 e1 hp⟩⟩

theorem deadRec_queued (h : Nat) : (deadRec h).queued = false := rfl
theorem deadRec_pending (h : Nat) : (deadRec h).pending = false := rfl

/-- same `recs`, `tab`, `journal`, `nextHid`: same invariant -/
theorem InvX.frame {db db' : DB} {x : Nat} (h : InvX db x) (e1 : db'.recs = db.recs) (e2 : db'.tab = db.tab)
    (e3 : db'.journal = db.journal) (e4 : db'.nextHid = db.nextHid) : InvX db' x := by
  have hg : ∀ a, db'.getR a = db.getR a := fun a => by rw [getR_eq, getR_eq, e1]
  refine ⟨?_, ?_, ?_, ?_, ?_⟩
  · rw [e1]; exact h.nodup
  · rw [e1, e4]; exact h.hidLt
  · rw [e1]; exact h.heldNQ
  · rw [e3, e4]; intro j hj hl a ha; rw [hg]; exact h.jrn j hj hl a ha
  · rw [e2, e4]; intro e he; rw [hg]; exact h.tabOk e he

/-- a record update that leaves identity, depth, queue membership and the counter alone -/
def Irrel (f : Rec → Rec) : Prop := ∀ r, (f r).hid = r.hid ∧ (f r).depth = r.depth ∧ (f r).queued = r.queued ∧ (f r).ack = r.ack

theorem Irrel.pending {f : Rec → Rec} (hf : Irrel f) (r : Rec) : (f r).pending = r.pending := by
  unfold Rec.pending; rw [(hf r).2.2.2]

/-- general record update: the touched record keeps its identity, does not enter the queue, and `pending → counter ≥ 1` is kept
(unless it is the excepted record) -/
theorem InvX.modR {db : DB} {x : Nat} (h : InvX db x) (hid : Nat) (f : Rec → Rec)
    (hf : ∀ r, (f r).hid = r.hid)
    (hq : ∀ r ∈ db.recs, r.hid = hid → ((f r).queued = true → r.queued = true))
    (hd : ∀ r ∈ db.recs, r.hid = hid → (f r).depth > 0 → (f r).queued = false)
    (hp : hid ≠ x → (∃ e ∈ db.tab, e.hid = hid) → (f (db.getR hid)).pending = true → (f (db.getR hid)).ack ≥ 1) :
    InvX (db.modR hid f) x := by
  have hq' : ∀ a, (db.getR a).queued = false → ((db.modR hid f).getR a).queued = false := by
    intro a ha
    rw [getR_modR db hid f hf]
    by_cases e1 : a = hid
    · rw [if_pos e1]
      cases e2 : findR db.recs a with
      | none => simp; exact ha
      | some r =>
        simp only [Option.isSome_some, if_true]
        have hr : db.getR a = r := by rw [getR_eq, e2]; rfl
        have hm := findR_some_mem e2
        rw [hr] at ha ⊢
        cases e3 : (f r).queued with
        | false => rfl
        | true => have := hq r hm.1 (by rw [hm.2, e1]) e3; rw [ha] at this; exact absurd this (by decide)
    · rw [if_neg e1]; exact ha
  refine ⟨?_, ?_, ?_, ?_, ?_⟩
  · rw [modR_recs, map_hid_modRecs hid f hf]; exact h.nodup
  · apply forall_modR db hid f h.hidLt
    intro r _ _ hr; rw [hf]; exact hr
  · apply forall_modR (P := fun r => r.depth > 0 → r.queued = false) db hid f h.heldNQ
    intro r hr e _; exact hd r hr e
  · intro j hj hl a ha
    have := h.jrn j hj hl a ha
    exact ⟨this.1, hq' a this.2⟩
  · intro e he
    have := h.tabOk e he
    refine ⟨this.1, hq' _ this.2.1, ?_⟩
    intro hne hpend
    rw [getR_modR db hid f hf] at hpend ⊢
    by_cases e1 : e.hid = hid
    · rw [if_pos e1] at hpend ⊢
      cases e2 : findR db.recs e.hid with
      | none =>
        rw [e2] at hpend; simp only [Option.isSome_none, Bool.false_eq_true, if_false] at hpend ⊢
        exact this.2.2 hne hpend
      | some r =>
        rw [e2] at hpend; simp only [Option.isSome_some, if_true] at hpend ⊢
        rw [e1] at hpend ⊢
        exact hp (by rw [← e1]; exact hne) ⟨e, he, e1⟩ hpend
    · rw [if_neg e1] at hpend ⊢
      exact this.2.2 hne hpend

theorem InvX.modR_irrel {db : DB} {x : Nat} (h : InvX db x) (hid : Nat) (f : Rec → Rec) (hf : Irrel f) :
    InvX (db.modR hid f) x := by
  apply h.modR hid f (fun r => (hf r).1)
  · intro r _ _ hq; rw [(hf r).2.2.1] at hq; exact hq
  · intro r hr _ hd; rw [(hf r).2.1] at hd; rw [(hf r).2.2.1]; exact h.heldNQ r hr hd
  · intro hne ⟨e, he, e1⟩ hp
    rw [hf.pending] at hp; rw [(hf _).2.2.2]
    have := (h.tabOk e he).2.2 (by rw [e1]; exact hne)
    rw [e1] at this; exact this hp

theorem InvX.toEnd {db : DB} {x : Nat} (h : InvX db x) (hid : Nat) : InvX (db.toEnd hid) x := by
  refine ⟨nodup_toEnd h.nodup hid, ?_, ?_, ?_, ?_⟩
  · intro r hr; exact h.hidLt r (mem_toEnd.mp hr)
  · intro r hr; exact h.heldNQ r (mem_toEnd.mp hr)
  · intro j hj hl a ha; rw [getR_toEnd]; exact h.jrn j hj hl a ha
  · intro e he; rw [getR_toEnd]; exact h.tabOk e he

theorem InvA.modR_irrel {db : DB} (h : InvA db) (hid : Nat) (f : Rec → Rec) (hf : Irrel f) : InvA (db.modR hid f) := by
  have := (h.toX hid).modR_irrel hid f hf
  refine ⟨this.nodup, this.hidLt, this.heldNQ, this.jrn, fun e he => ⟨(this.tabOk e he).1, (this.tabOk e he).2.1, fun hp => ?_⟩⟩
  by_cases e1 : e.hid = hid
  · -- the touched record: same pending / counter as before
    have h0 := (h.tabOk e he).2.2
    rw [getR_modR db hid f (fun r => (hf r).1)] at hp ⊢
    rw [if_pos e1] at hp ⊢
    cases e2 : findR db.recs e.hid with
    | none => rw [e2] at hp; simp at hp ⊢; exact h0 hp
    | some r => rw [e2] at hp; simp at hp ⊢; rw [hf.pending] at hp; rw [(hf _).2.2.2]; exact h0 hp
  · exact (this.tabOk e he).2.2 e1 hp

/-- with distinct identities a record is found under its own identity -/
theorem InvA.getR_of_mem {db : DB} (h : InvA db) {r : Rec} (hr : r ∈ db.recs) : db.getR r.hid = r := by
  rw [getR_eq, findR_of_mem h.nodup hr]; rfl

end Slock.Ack
