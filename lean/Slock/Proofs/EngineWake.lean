import Slock.Proofs.EngineInv
/-! Wake pass and wait-queue order lemmas (C04). -/
namespace Slock.Engine

/-- queue order: priorities never increase along the list -/
def PrioSorted (ws : List Waiter) : Prop := ws.Pairwise (fun a b => cmdPriority a.cmd ≥ cmdPriority b.cmd)

/-- `insertWaiter` splits the old queue into those it stays behind (priority ≥ its own) and those it jumps (strictly lower). -/
theorem insertWaiter_split (ws : List Waiter) (w : Waiter) :
    ∃ l1 l2, ws = l1 ++ l2 ∧ insertWaiter ws w = l1 ++ w :: l2 ∧
      (∀ x ∈ l1, cmdPriority x.cmd ≥ cmdPriority w.cmd) ∧
      (∀ x, l2.head? = some x → cmdPriority x.cmd < cmdPriority w.cmd) := by
  induction ws with
  | nil => exact ⟨[], [], rfl, rfl, by simp, by simp⟩
  | cons x xs ih =>
    unfold insertWaiter
    by_cases hp : cmdPriority w.cmd > cmdPriority x.cmd
    · simp only [hp, if_true]
      exact ⟨[], x :: xs, rfl, rfl, by simp, by intro y hy; simp at hy; rw [← hy]; exact hp⟩
    · simp only [hp, if_false]
      obtain ⟨l1, l2, e1, e2, h1, h2⟩ := ih
      refine ⟨x :: l1, l2, by rw [e1]; rfl, by rw [e2]; rfl, ?_, h2⟩
      intro y hy
      rcases List.mem_cons.mp hy with hy | hy
      · rw [hy]; omega
      · exact h1 y hy

theorem insertWaiter_sorted (ws : List Waiter) (w : Waiter) (hs : PrioSorted ws) : PrioSorted (insertWaiter ws w) := by
  induction ws with
  | nil => simp [insertWaiter, PrioSorted]
  | cons x xs ih =>
    unfold insertWaiter
    have hx := List.pairwise_cons.mp hs
    by_cases hp : cmdPriority w.cmd > cmdPriority x.cmd
    · simp only [hp, if_true]
      apply List.pairwise_cons.mpr
      refine ⟨?_, hs⟩
      intro y hy
      rcases List.mem_cons.mp hy with hy | hy
      · rw [hy]; omega
      · have := hx.1 y hy; omega
    · simp only [hp, if_false]
      apply List.pairwise_cons.mpr
      refine ⟨?_, ih hx.2⟩
      intro y hy
      obtain ⟨l1, l2, e1, e2, _, _⟩ := insertWaiter_split xs w
      rw [e2] at hy
      rcases List.mem_append.mp hy with hy | hy
      · exact hx.1 y (by rw [e1]; exact List.mem_append_left _ hy)
      · rcases List.mem_cons.mp hy with hy | hy
        · rw [hy]; omega
        · exact hx.1 y (by rw [e1]; exact List.mem_append_right _ hy)

/-- what the wake pass leaves behind: nothing queued (and the flag cleared), or an inadmissible head -/
def Settled (k : Key) : Prop :=
  (k.waiters = [] ∧ k.waited = false) ∨ (∃ w rest, k.waiters = w :: rest ∧ doLock k w.cmd = false) ∨ k.waited = false

theorem wakeIter_length {db : DB} {k : Key} {db' : DB} {k' : Key} {r : Reply}
    (h : wakeIter db k = some (db', k', r)) : k'.waiters.length + 1 = k.waiters.length ∧ k'.waited = k.waited := by
  unfold wakeIter at h
  cases hw : k.waiters with
  | nil => simp [hw] at h
  | cons w rest =>
    simp only [hw] at h
    by_cases hd : doLock k w.cmd = true
    · simp only [hd, Bool.not_true, Bool.false_eq_true, if_false] at h
      by_cases he : w.cmd.expried > 0
      · simp only [he, if_true] at h
        injection h with h; injection h with h1 h2; injection h2 with h2 h3
        rw [← h2]
        obtain ⟨hh, _, _, _, _, hw', hwd, _⟩ := grantHold_holders
          { db with ctr := { db.ctr with waitCount := db.ctr.waitCount - 1 } } { k with waiters := rest } { w.cmd with conn := w.conn }
        rw [hw', hwd]; simp
      · simp only [he, if_false] at h
        injection h with h; injection h with h1 h2; injection h2 with h2 h3
        rw [← h2]; simp
    · simp [hd] at h

theorem wakeIter_none {db : DB} {k : Key} (h : wakeIter db k = none) :
    k.waiters = [] ∨ ∃ w rest, k.waiters = w :: rest ∧ doLock k w.cmd = false := by
  unfold wakeIter at h
  cases hw : k.waiters with
  | nil => exact Or.inl rfl
  | cons w rest =>
    right
    refine ⟨w, rest, rfl, ?_⟩
    simp only [hw] at h
    by_cases hd : doLock k w.cmd = true
    · simp only [hd, Bool.not_true, Bool.false_eq_true, if_false] at h
      split at h <;> simp at h
    · simpa using hd

theorem wakePass_settled (fuel : Nat) (db : DB) (k : Key) (out : List Reply) (hf : k.waiters.length < fuel) :
    Settled (wakePass fuel db k out).2.1 := by
  induction fuel generalizing db k out with
  | zero => omega
  | succ n ih =>
    unfold wakePass
    by_cases hwd : k.waited = true
    · simp only [hwd, Bool.not_true, Bool.false_eq_true, if_false]
      cases hw : wakeIter db k with
      | none =>
        simp only []
        rcases wakeIter_none hw with h1 | ⟨w, rest, h1, h2⟩
        · simp only [h1, List.isEmpty_nil, if_true]
          exact Or.inl ⟨rfl, rfl⟩
        · simp only [h1, List.isEmpty_cons, Bool.false_eq_true, if_false]
          exact Or.inr (Or.inl ⟨w, rest, h1, h2⟩)
      | some t =>
        obtain ⟨db', k', r⟩ := t
        simp only []
        have := (wakeIter_length hw).1
        exact ih db' k' _ (by omega)
    · have : k.waited = false := by simpa using hwd
      simp only [this, Bool.not_false, if_true]
      exact Or.inr (Or.inr this)

theorem wake_settled (db : DB) (k : Key) (out : List Reply) : Settled (wake db k out).2.1 :=
  wakePass_settled _ db k out (by omega)

end Slock.Engine

namespace Slock.Engine

theorem getKey_setKey (db : DB) (k : Key) : (db.setKey k).getKey k.key = if k.isEmpty then emptyKey k.key else k := by
  unfold DB.setKey DB.getKey
  simp only []
  have hnf : ∀ l : List Key, (l.filter (fun x => x.key != k.key)).find? (fun x => x.key == k.key) = none := by
    intro l
    apply List.find?_eq_none.mpr
    intro x hx
    have := (List.mem_filter.mp hx).2
    simpa using this
  split
  · rw [hnf]; rfl
  · rw [List.find?_append, hnf]; simp

theorem grantHold_key (db : DB) (k : Key) (c : Cmd) : (grantHold db k c).2.key = k.key := by
  unfold grantHold; rfl

theorem wakeIter_key {db : DB} {k : Key} {db' : DB} {k' : Key} {r : Reply}
    (h : wakeIter db k = some (db', k', r)) : k'.key = k.key := by
  unfold wakeIter at h
  cases hw : k.waiters with
  | nil => simp [hw] at h
  | cons w rest =>
    simp only [hw] at h
    by_cases hd : doLock k w.cmd = true
    · simp only [hd, Bool.not_true, Bool.false_eq_true, if_false] at h
      by_cases he : w.cmd.expried > 0
      · simp only [he, if_true] at h
        injection h with h; injection h with h1 h2; injection h2 with h2 h3
        rw [← h2, grantHold_key]
      · simp only [he, if_false] at h
        injection h with h; injection h with h1 h2; injection h2 with h2 h3
        rw [← h2]
    · simp [hd] at h

theorem wakePass_key (fuel : Nat) (db : DB) (k : Key) (out : List Reply) : (wakePass fuel db k out).2.1.key = k.key := by
  induction fuel generalizing db k out with
  | zero => unfold wakePass; split <;> rfl
  | succ n ih =>
    unfold wakePass
    split
    · rfl
    · cases hw : wakeIter db k with
      | none => simp only []; split <;> rfl
      | some t =>
        obtain ⟨db', k', r⟩ := t
        simp only []
        rw [ih, wakeIter_key hw]

theorem wake_key (db : DB) (k : Key) (out : List Reply) : (wake db k out).2.1.key = k.key := wakePass_key _ db k out

theorem Settled.empty (n : Nat) : Settled (emptyKey n) := Or.inl ⟨rfl, rfl⟩

/-- storing the result of a wake pass leaves the key settled -/
theorem settled_after_wake (db0 db : DB) (k : Key) (out : List Reply) :
    Settled (((wake db k out).1.setKey (wake db k out).2.1).getKey k.key) := by
  have hk := wake_key db k out
  rw [← hk, getKey_setKey]
  split
  · exact Settled.empty _
  · exact wake_settled db k out

theorem getKey_key (db : DB) (n : Nat) : (db.getKey n).key = n := by
  unfold DB.getKey
  cases hf : db.keys.find? (·.key == n) with
  | none => rfl
  | some k => have := List.find?_some hf; simpa using this

theorem settled_after_wake' (db : DB) (k : Key) (out : List Reply) (n : Nat) (hn : k.key = n) :
    Settled (((wake db k out).1.setKey (wake db k out).2.1).getKey n) := by
  rw [← hn]; exact settled_after_wake db db k out

def headAdmissible (k : Key) : Bool :=
  match k.waiters with
  | w :: _ => k.waited && doLock k w.cmd
  | [] => false

theorem not_settled_of_headAdmissible {k : Key} (h : headAdmissible k = true) : ¬ Settled k := by
  unfold headAdmissible at h
  cases hw : k.waiters with
  | nil => simp [hw] at h
  | cons w rest =>
    simp only [hw, Bool.and_eq_true] at h
    intro hs
    rcases hs with ⟨h1, _⟩ | ⟨w', rest', h1, h2⟩ | h1
    · rw [hw] at h1; simp at h1
    · rw [hw] at h1; injection h1 with h1 _; rw [← h1] at h2; rw [h.2] at h2; simp at h2
    · rw [h.1] at h1; simp at h1

/-- grants from the queue are made strictly at its head -/
theorem wakeIter_head {db db' : DB} {k k' : Key} {r : Reply} (h : wakeIter db k = some (db', k', r)) :
    ∃ w rest, k.waiters = w :: rest ∧ k'.waiters = rest ∧ r.req = w.cmd.req ∧ r.conn = w.conn ∧ r.result = RESULT_SUCCED := by
  unfold wakeIter at h
  cases hw : k.waiters with
  | nil => simp [hw] at h
  | cons w rest =>
    refine ⟨w, rest, rfl, ?_⟩
    simp only [hw] at h
    by_cases hd : doLock k w.cmd = true
    · simp only [hd, Bool.not_true, Bool.false_eq_true, if_false] at h
      by_cases he : w.cmd.expried > 0
      · simp only [he, if_true] at h
        injection h with h; injection h with h1 h2; injection h2 with h2 h3
        obtain ⟨hh, _, _, _, _, hw', _, _⟩ := grantHold_holders
          { db with ctr := { db.ctr with waitCount := db.ctr.waitCount - 1 } } { k with waiters := rest } { w.cmd with conn := w.conn }
        rw [← h2, ← h3, hw']
        exact ⟨rfl, rfl, rfl, rfl⟩
      · simp only [he, if_false] at h
        injection h with h; injection h with h1 h2; injection h2 with h2 h3
        rw [← h2, ← h3]
        exact ⟨rfl, rfl, rfl, rfl⟩
    · simp [hd] at h

/-- a wake pass only appends replies -/
theorem wakePass_out (fuel : Nat) (db : DB) (k : Key) (out : List Reply) :
    ∃ more, (wakePass fuel db k out).2.2 = out ++ more := by
  induction fuel generalizing db k out with
  | zero => unfold wakePass; split <;> exact ⟨[], by simp⟩
  | succ n ih =>
    unfold wakePass
    split
    · exact ⟨[], by simp⟩
    · cases hw : wakeIter db k with
      | none => simp only []; split <;> exact ⟨[], by simp⟩
      | some t =>
        obtain ⟨db', k', r⟩ := t
        simp only []
        obtain ⟨more, hm⟩ := ih db' k' (out ++ [r])
        exact ⟨r :: more, by rw [hm]; simp⟩

theorem wake_out (db : DB) (k : Key) (out : List Reply) : ∃ more, (wake db k out).2.2 = out ++ more :=
  wakePass_out _ db k out

/-- a wake pass only appends SUCCED replies (grants) -/
theorem wakePass_out_succed (fuel : Nat) (db : DB) (k : Key) (out : List Reply) :
    ∃ more, (wakePass fuel db k out).2.2 = out ++ more ∧ ∀ r ∈ more, r.result = RESULT_SUCCED := by
  induction fuel generalizing db k out with
  | zero => unfold wakePass; split <;> exact ⟨[], by simp, by simp⟩
  | succ n ih =>
    unfold wakePass
    split
    · exact ⟨[], by simp, by simp⟩
    · cases hw : wakeIter db k with
      | none => simp only []; split <;> exact ⟨[], by simp, by simp⟩
      | some t =>
        obtain ⟨db', k', r⟩ := t
        simp only []
        obtain ⟨more, hm, hs⟩ := ih db' k' (out ++ [r])
        obtain ⟨_, _, _, _, _, _, hr⟩ := wakeIter_head hw
        refine ⟨r :: more, by rw [hm]; simp, ?_⟩
        intro y hy
        rcases List.mem_cons.mp hy with h1 | h1
        · rw [h1]; exact hr
        · exact hs y h1

theorem wake_out_succed (db : DB) (k : Key) (out : List Reply) :
    ∃ more, (wake db k out).2.2 = out ++ more ∧ ∀ r ∈ more, r.result = RESULT_SUCCED :=
  wakePass_out_succed _ db k out

end Slock.Engine
