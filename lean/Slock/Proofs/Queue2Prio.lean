import Slock.Proofs.Queue2Ring
/-!
# LockManagerPriorityRingQueue refines a stable priority queue

Abstraction: the concatenation of the node rings in node order.  Invariant: node priorities strictly
descending, every node ring well-formed and holding only (non-nil) locks of the node's priority.
-/
namespace Slock.Queue2

def prioOf : Slot → Nat
  | none => 0
  | some e => e.priority

/-- Stable priority insert: `x` goes behind every element of priority ≥ its own that precedes the
first element of lower priority (for a descending list: behind the LAST element of priority ≥ its own). -/
def specPushPrio (x : Slot) : List Slot → List Slot
  | [] => [x]
  | y :: l => if prioOf y ≥ prioOf x then y :: specPushPrio x l else x :: y :: l

theorem specPushPrio_append_ge (x : Slot) (a b : List Slot) (h : ∀ y ∈ a, prioOf y ≥ prioOf x) :
    specPushPrio x (a ++ b) = a ++ specPushPrio x b := by
  induction a with
  | nil => rfl
  | cons y a ih =>
    have hy := h y (by simp)
    simp only [List.cons_append, specPushPrio, hy, if_true]
    rw [ih (fun z hz => h z (by simp [hz]))]

theorem specPushPrio_lt (x : Slot) (b : List Slot) (h : ∀ y ∈ b, prioOf y < prioOf x) :
    specPushPrio x b = x :: b := by
  cases b with
  | nil => rfl
  | cons y l =>
    have hy := h y (by simp)
    have : ¬ prioOf y ≥ prioOf x := by omega
    simp only [specPushPrio, this, if_false]

def absN (ns : List PNode) : List Slot := ns.flatMap (fun n => n.ring.abs)

def PRing.abs (q : PRing) : List Slot := absN q.nodes

def NodeOK (n : PNode) : Prop :=
  n.ring.Inv ∧ ∀ s ∈ n.ring.abs, ∃ e, s = some e ∧ e.priority = n.priority

def InvN (ns : List PNode) : Prop :=
  (∀ n ∈ ns, NodeOK n) ∧ ns.Pairwise (fun a b => a.priority > b.priority)

def PRing.Inv (q : PRing) : Prop := InvN q.nodes

theorem absN_cons (n : PNode) (ns : List PNode) : absN (n :: ns) = n.ring.abs ++ absN ns := by
  simp [absN]

theorem NodeOK.prio {n : PNode} (h : NodeOK n) : ∀ s ∈ n.ring.abs, prioOf s = n.priority := by
  intro s hs
  obtain ⟨e, he, hp⟩ := h.2 s hs
  subst he; exact hp

theorem absN_prio_lt {ns : List PNode} (h : ∀ n ∈ ns, NodeOK n) (p : Nat)
    (hp : ∀ n ∈ ns, n.priority < p) : ∀ y ∈ absN ns, prioOf y < p := by
  intro y hy
  simp only [absN, List.mem_flatMap] at hy
  obtain ⟨n, hn, hyn⟩ := hy
  rw [(h n hn).prio y hyn]; exact hp n hn

theorem InvN.tail {n : PNode} {ns : List PNode} (h : InvN (n :: ns)) : InvN ns :=
  ⟨fun m hm => h.1 m (by simp [hm]), (List.pairwise_cons.mp h.2).2⟩

theorem pushExisting_none (grow : Nat → Nat) (p : Nat) (x : Slot) (ns : List PNode)
    (h : ∀ n ∈ ns, n.priority ≠ p) : pushExisting grow p x ns = none := by
  induction ns with
  | nil => rfl
  | cons n ns ih =>
    have hn := h n (by simp)
    simp only [pushExisting, hn, if_false]
    rw [ih (fun m hm => h m (by simp [hm]))]

theorem pushExisting_some (grow : Nat → Nat) (hg : GrowOK grow) (e : Elem) (ns : List PNode)
    (hinv : InvN ns) (hex : ∃ n ∈ ns, n.priority = e.priority) :
    ∃ ns', pushExisting grow e.priority (some e) ns = some (.ok ns') ∧ InvN ns' ∧
      absN ns' = specPushPrio (some e) (absN ns) ∧
      (∀ m' ∈ ns', ∃ m ∈ ns, m.priority = m'.priority) := by
  induction ns with
  | nil => obtain ⟨n, hn, _⟩ := hex; simp at hn
  | cons n ns ih =>
    have hn : NodeOK n := hinv.1 n (by simp)
    have hpw := List.pairwise_cons.mp hinv.2
    by_cases hp : n.priority = e.priority
    · obtain ⟨r, hr, hri, hra⟩ := Ring.push_refines grow hg n.ring (some e) hn.1
      refine ⟨{ n with ring := r } :: ns, ?_, ?_, ?_, ?_⟩
      · simp only [pushExisting, hp, if_true, hr]
      · refine ⟨?_, ?_⟩
        · intro m hm
          rcases List.mem_cons.mp hm with rfl | hm
          · refine ⟨hri, ?_⟩
            intro s hs
            simp only [hra, List.mem_append, List.mem_singleton] at hs
            rcases hs with hs | rfl
            · exact hn.2 s hs
            · exact ⟨e, rfl, hp.symm⟩
          · exact hinv.1 m (by simp [hm])
        · exact List.pairwise_cons.mpr ⟨hpw.1, hpw.2⟩
      · rw [absN_cons, absN_cons, hra]
        rw [specPushPrio_append_ge _ _ _ (fun y hy => by rw [hn.prio y hy]; simp [prioOf]; omega)]
        rw [specPushPrio_lt _ _ (absN_prio_lt (fun m hm => hinv.1 m (by simp [hm])) _
          (fun m hm => by have := hpw.1 m hm; simp only [prioOf]; omega))]
        simp
      · intro m' hm'
        rcases List.mem_cons.mp hm' with rfl | hm'
        · exact ⟨n, by simp, rfl⟩
        · exact ⟨m', by simp [hm'], rfl⟩
    · obtain ⟨w, hw, hwp⟩ := hex
      have hw' : w ∈ ns := by
        rcases List.mem_cons.mp hw with rfl | hw
        · exact absurd hwp hp
        · exact hw
      obtain ⟨ns', h1, h2, h3, h4⟩ := ih hinv.tail ⟨w, hw', hwp⟩
      have hgt : n.priority > e.priority := by have := hpw.1 w hw'; omega
      refine ⟨n :: ns', ?_, ?_, ?_, ?_⟩
      · simp only [pushExisting, hp, if_false, h1]
      · refine ⟨?_, ?_⟩
        · intro m hm
          rcases List.mem_cons.mp hm with rfl | hm
          · exact hn
          · exact h2.1 m hm
        · refine List.pairwise_cons.mpr ⟨?_, h2.2⟩
          intro m' hm'
          obtain ⟨m, hm, hmp⟩ := h4 m' hm'
          have := hpw.1 m hm; omega
      · rw [absN_cons, absN_cons, h3]
        rw [specPushPrio_append_ge _ _ _ (fun y hy => by rw [hn.prio y hy]; simp only [prioOf]; omega)]
      · intro m' hm'
        rcases List.mem_cons.mp hm' with rfl | hm'
        · exact ⟨m', by simp, rfl⟩
        · obtain ⟨m, hm, hmp⟩ := h4 m' hm'
          exact ⟨m, by simp [hm], hmp⟩

theorem mem_insertNode (node m : PNode) (ns : List PNode) :
    m ∈ insertNode node ns ↔ m = node ∨ m ∈ ns := by
  induction ns with
  | nil => simp [insertNode]
  | cons n ns ih =>
    unfold insertNode
    split
    · simp
    · simp only [List.mem_cons, ih]
      constructor
      · rintro (h | h | h) <;> simp [h]
      · rintro (h | h | h) <;> simp [h]

theorem insertNode_refines (node : PNode) (x : Slot) (ns : List PNode) (hinv : InvN ns)
    (hnode : NodeOK node) (habs : node.ring.abs = [x]) (hpx : prioOf x = node.priority)
    (hne : ∀ n ∈ ns, n.priority ≠ node.priority) :
    InvN (insertNode node ns) ∧ absN (insertNode node ns) = specPushPrio x (absN ns) := by
  induction ns with
  | nil =>
    refine ⟨⟨?_, ?_⟩, ?_⟩
    · intro m hm; simp [insertNode] at hm; subst hm; exact hnode
    · simp [insertNode]
    · simp [insertNode, absN, habs, specPushPrio]
  | cons n ns ih =>
    have hn : NodeOK n := hinv.1 n (by simp)
    have hpw := List.pairwise_cons.mp hinv.2
    have hnn := hne n (by simp)
    unfold insertNode
    by_cases hgt : node.priority > n.priority
    · rw [if_pos hgt]
      refine ⟨⟨?_, ?_⟩, ?_⟩
      · intro m hm
        rcases List.mem_cons.mp hm with rfl | hm
        · exact hnode
        · exact hinv.1 m hm
      · refine List.pairwise_cons.mpr ⟨?_, hinv.2⟩
        intro m hm
        rcases List.mem_cons.mp hm with rfl | hm
        · exact hgt
        · have := hpw.1 m hm; omega
      · rw [absN_cons, habs]
        rw [specPushPrio_lt x (absN (n :: ns))]
        · rfl
        · apply absN_prio_lt hinv.1
          intro m hm
          rw [hpx]
          rcases List.mem_cons.mp hm with rfl | hm
          · exact hgt
          · have := hpw.1 m hm; omega
    · rw [if_neg hgt]
      obtain ⟨ih1, ih2⟩ := ih hinv.tail (fun m hm => hne m (by simp [hm]))
      refine ⟨⟨?_, ?_⟩, ?_⟩
      · intro m hm
        rcases List.mem_cons.mp hm with rfl | hm
        · exact hn
        · exact ih1.1 m hm
      · refine List.pairwise_cons.mpr ⟨?_, ih1.2⟩
        intro m hm
        rcases (mem_insertNode node m ns).mp hm with rfl | hm
        · omega
        · exact hpw.1 m hm
      · rw [absN_cons, absN_cons, ih2]
        rw [specPushPrio_append_ge _ _ _ (fun y hy => by rw [hn.prio y hy, hpx]; omega)]

theorem PRing.new_inv (size : Nat) : (PRing.new size).Inv := by
  simp [PRing.new, PRing.Inv, InvN]

theorem PRing.new_abs (size : Nat) : (PRing.new size).abs = [] := by
  simp [PRing.new, PRing.abs, absN]

/-- Push of a (non-nil) lock: never panics, and is the stable priority insert. -/
theorem PRing.push_refines (grow : Nat → Nat) (hg : GrowOK grow) (q : PRing) (e : Elem) (h : q.Inv) :
    ∃ q', q.push grow (some e) = .ok q' ∧ q'.Inv ∧ q'.abs = specPushPrio (some e) q.abs ∧
      q'.size = q.size := by
  by_cases hex : ∃ n ∈ q.nodes, n.priority = e.priority
  · obtain ⟨ns', h1, h2, h3, _⟩ := pushExisting_some grow hg e q.nodes h hex
    exact ⟨{ q with nodes := ns' }, by simp only [PRing.push, h1], h2, h3, rfl⟩
  · have hne : ∀ n ∈ q.nodes, n.priority ≠ e.priority := fun n hn hp => hex ⟨n, hn, hp⟩
    have hnone := pushExisting_none grow e.priority (some e) q.nodes hne
    obtain ⟨r, hr, hri, hra⟩ := Ring.push_refines grow hg (Ring.new q.size) (some e) (Ring.new_inv _)
    rw [Ring.new_abs, List.nil_append] at hra
    have hnode : NodeOK ⟨r, e.priority⟩ := by
      refine ⟨hri, ?_⟩
      intro s hs
      simp only [hra, List.mem_singleton] at hs
      exact ⟨e, hs, rfl⟩
    have key := insertNode_refines ⟨r, e.priority⟩ (some e) q.nodes h hnode hra rfl hne
    have hbranch : ∃ c, q.push grow (some e) =
        .ok { q with nodes := insertNode ⟨r, e.priority⟩ q.nodes, nodesCap := c } := by
      simp only [PRing.push, hnone, hr]
      cases hq : q.nodes with
      | nil => exact ⟨q.nodesCap, by simp [insertNode]⟩
      | cons n0 rest =>
        cases rest with
        | nil =>
          have h0 := hne n0 (by simp [hq])
          by_cases hgt : n0.priority > e.priority
          · refine ⟨q.nodesCap, ?_⟩
            have : ¬ e.priority > n0.priority := by omega
            simp [insertNode, hgt, this]
          · refine ⟨q.nodesCap, ?_⟩
            have : e.priority > n0.priority := by omega
            simp [insertNode, hgt, this]
        | cons n1 rest => exact ⟨_, rfl⟩
    obtain ⟨c, hc⟩ := hbranch
    exact ⟨_, hc, key.1, key.2, rfl⟩

/-- `Push(nil)` is a Go panic (`lock.command` on a nil lock). -/
theorem PRing.push_nil (grow : Nat → Nat) (q : PRing) : q.push grow none = .panic := rfl

theorem popNodes_refines (ns : List PNode) (h : InvN ns) :
    InvN (popNodes ns).1 ∧ absN (popNodes ns).1 = (absN ns).tail ∧
      (popNodes ns).2 = (absN ns).headD none ∧
      (∀ m' ∈ (popNodes ns).1, ∃ m ∈ ns, m.priority = m'.priority) := by
  induction ns with
  | nil => simp [popNodes, absN, InvN]
  | cons n ns ih =>
    have hn : NodeOK n := h.1 n (by simp)
    have hpw := List.pairwise_cons.mp h.2
    obtain ⟨p1, p2, p3⟩ := Ring.pop_refines n.ring hn.1
    cases hpop : n.ring.pop with
    | mk r o =>
      rw [hpop] at p1 p2 p3
      simp only at p1 p2 p3
      cases hab : n.ring.abs with
      | nil =>
        rw [hab] at p2 p3
        simp only [List.headD_nil] at p3
        subst p3
        obtain ⟨i1, i2, i3, i4⟩ := ih h.tail
        simp only [popNodes, hpop]
        refine ⟨⟨?_, ?_⟩, ?_, ?_, ?_⟩
        · intro m hm
          rcases List.mem_cons.mp hm with rfl | hm
          · exact ⟨p1, by simp [p2]⟩
          · exact i1.1 m hm
        · refine List.pairwise_cons.mpr ⟨?_, i1.2⟩
          intro m' hm'
          obtain ⟨m, hm, hmp⟩ := i4 m' hm'
          have := hpw.1 m hm
          simp only; omega
        · rw [absN_cons, absN_cons, hab, i2]; simp [p2]
        · rw [i3, absN_cons, hab]; rfl
        · intro m' hm'
          rcases List.mem_cons.mp hm' with rfl | hm'
          · exact ⟨n, by simp, rfl⟩
          · obtain ⟨m, hm, hmp⟩ := i4 m' hm'
            exact ⟨m, by simp [hm], hmp⟩
      | cons s t =>
        rw [hab] at p2 p3
        simp only [List.headD_cons, List.tail_cons] at p2 p3
        obtain ⟨e, he, hep⟩ := hn.2 s (by simp [hab])
        subst he; subst p3
        simp only [popNodes, hpop]
        refine ⟨⟨?_, ?_⟩, ?_, ?_, ?_⟩
        · intro m hm
          rcases List.mem_cons.mp hm with rfl | hm
          · refine ⟨p1, ?_⟩
            intro s hs
            simp only [p2] at hs
            exact hn.2 s (by simp [hab, hs])
          · exact h.1 m (by simp [hm])
        · exact List.pairwise_cons.mpr ⟨hpw.1, hpw.2⟩
        · rw [absN_cons, absN_cons, hab, p2]; rfl
        · rw [absN_cons, hab]; rfl
        · intro m' hm'
          rcases List.mem_cons.mp hm' with rfl | hm'
          · exact ⟨n, by simp, rfl⟩
          · exact ⟨m', by simp [hm'], rfl⟩

/-- Pop: removes and returns the first element in priority order (nil when empty). -/
theorem PRing.pop_refines (q : PRing) (h : q.Inv) :
    q.pop.1.Inv ∧ q.pop.1.abs = q.abs.tail ∧ q.pop.2 = q.abs.headD none := by
  obtain ⟨a, b, c, _⟩ := popNodes_refines q.nodes h
  exact ⟨a, b, c⟩

theorem headNodes_refines (ns : List PNode) (h : InvN ns) : headNodes ns = (absN ns).headD none := by
  induction ns with
  | nil => rfl
  | cons n ns ih =>
    have hn : NodeOK n := h.1 n (by simp)
    have hh := Ring.head_refines n.ring
    cases hab : n.ring.abs with
    | nil =>
      rw [hab] at hh
      simp only [headNodes, hh, List.headD_nil, absN_cons, hab, List.nil_append]
      exact ih h.tail
    | cons s t =>
      obtain ⟨e, he, _⟩ := hn.2 s (by simp [hab])
      subst he
      rw [hab] at hh
      simp only [headNodes, hh, List.headD_cons, absN_cons, hab, List.cons_append]

theorem PRing.head_refines (q : PRing) (h : q.Inv) : q.head = q.abs.headD none :=
  headNodes_refines q.nodes h

theorem maxPrioNodes_refines (ns : List PNode) (h : InvN ns) :
    maxPrioNodes ns = prioOf ((absN ns).headD none) := by
  induction ns with
  | nil => rfl
  | cons n ns ih =>
    have hn : NodeOK n := h.1 n (by simp)
    have hh := Ring.head_refines n.ring
    cases hab : n.ring.abs with
    | nil =>
      rw [hab] at hh
      simp only [maxPrioNodes, hh, List.headD_nil, absN_cons, hab, List.nil_append]
      exact ih h.tail
    | cons s t =>
      obtain ⟨e, he, hp⟩ := hn.2 s (by simp [hab])
      subst he
      rw [hab] at hh
      simp only [maxPrioNodes, hh, List.headD_cons, absN_cons, hab, List.cons_append, prioOf, hp]

/-- MaxPriority: the priority of the element `Head` returns, 0 when empty. -/
theorem PRing.maxPriority_refines (q : PRing) (h : q.Inv) :
    q.maxPriority = prioOf (q.abs.headD none) := maxPrioNodes_refines q.nodes h

theorem foldl_len (ns : List PNode) (h : ∀ n ∈ ns, n.ring.Inv) (a : Int) :
    (ns.map (fun n => n.ring.len)).foldl (· + ·) a = a + ((absN ns).length : Int) := by
  induction ns generalizing a with
  | nil => simp [absN]
  | cons n ns ih =>
    simp only [List.map_cons, List.foldl_cons]
    rw [ih (fun m hm => h m (by simp [hm])), absN_cons, Ring.len_refines n.ring (h n (by simp))]
    simp only [List.length_append]
    omega

theorem PRing.len_refines (q : PRing) (h : q.Inv) : q.len = (q.abs.length : Int) := by
  unfold PRing.len
  rw [foldl_len q.nodes (fun n hn => (h.1 n hn).1)]
  simp [PRing.abs]

/-- IterNodes: the non-empty node rings in priority order; concatenated they are the content. -/
theorem PRing.iterNodes_refines (q : PRing) :
    q.iterNodes.flatten = q.abs ∧ ∀ l ∈ q.iterNodes, l ≠ [] := by
  unfold PRing.iterNodes PRing.abs absN
  constructor
  · induction q.nodes with
    | nil => rfl
    | cons n ns ih =>
      simp only [List.flatMap_cons, List.flatten_append, ih, Ring.iterNodes_flatten]
  · intro l hl
    simp only [List.mem_flatMap] at hl
    obtain ⟨n, _, hl⟩ := hl
    rw [Ring.iterNodes_refines] at hl
    split at hl
    · simp at hl
    · simp only [List.mem_singleton] at hl; subst hl; assumption

/-- Tombstoning a queued lock in place (any mutation that keeps its priority). -/
theorem PRing.mapId_refines (f : Elem → Elem) (hf : ∀ e, (f e).priority = e.priority) (id : Nat)
    (q : PRing) (h : q.Inv) : (q.mapId f id).Inv ∧ (q.mapId f id).abs = q.abs.map (killSlot f id) := by
  unfold PRing.mapId PRing.Inv PRing.abs
  simp only
  constructor
  · constructor
    · intro m hm
      simp only [List.mem_map] at hm
      obtain ⟨n, hn, rfl⟩ := hm
      have hok := h.1 n hn
      refine ⟨Ring.mapId_inv f id n.ring hok.1, ?_⟩
      intro s hs
      rw [Ring.mapId_abs] at hs
      simp only [List.mem_map] at hs
      obtain ⟨s0, hs0, rfl⟩ := hs
      obtain ⟨e, rfl, hp⟩ := hok.2 s0 hs0
      simp only [killSlot]
      split
      · exact ⟨f e, rfl, by rw [hf]; exact hp⟩
      · exact ⟨e, rfl, hp⟩
    · rw [List.pairwise_map]; exact h.2
  · induction q.nodes with
    | nil => rfl
    | cons n ns ih =>
      simp only [List.map_cons, absN_cons, List.map_append, Ring.mapId_abs]
      rw [ih]

end Slock.Queue2
