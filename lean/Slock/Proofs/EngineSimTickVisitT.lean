import Slock.Proofs.EngineSimTickWaiter
/-! Clock-tick simulation (`sim_tick`): the sweeper visits ONE entry of the timeout wheel (`timeoutStep`) — a tombstoned entry is
dropped (stuttering), a live one not yet due is re-armed (stage 1's `rearmWaiter`), a due long-table entry is taken in hand
(`collectT`: stage 1's view of the request loses its `long` flag). -/
namespace Slock.SimTick
open Slock Slock.Sim Slock.Engine2
open Slock.Engine (has)

theorem openKey_live_of_hasRec (s : DB) (key rid : Nat) (hh : (s.getKey key).hasRec rid) : (s.openKey key).gone = false := by
  cases hg : (s.openKey key).gone with
  | false => rfl
  | true =>
    have hk : s.hasKey key = false := by simpa [DB.openKey] using hg
    have : (s.getKey key).recs = [] := by rw [getKey_of_not_hasKey s key hk]; rfl
    exact absurd this (recs_ne_of_hasRec hh)

/-- whatever the queues of a key record of a reachable state refer to exists -/
theorem queue_hasRec (s : DB) (hq : DBQ s) (key y : Nat)
    (hy : y ∈ (s.getKey key).current.toList ++ (s.getKey key).locks ++ (s.getKey key).wait.map (·.rid)) : (s.getKey key).hasRec y := by
  have l := Lv.openKey hq.dbt.dbi key
  apply l.rc.dang
  have h1 := qRefs_pos_of_any (s.getKey key) y hy
  have e : (s.openKey key).k.qRefs y = (s.getKey key).qRefs y := rfl
  rw [e]
  simp only [zero]
  omega

theorem rel_wheelBroken {w : W} {a : Engine.DB} {k1 : Engine.Key} {out1 : List Engine.Reply} (h : Rel w a k1 out1) : Rel w.wheelBroken a k1 out1 := by
  refine ⟨⟨h.sc.now, h.sc.tCheck, h.sc.eCheck, h.sc.seq, h.sc.leader, h.sc.ctr⟩, h.out, h.lk, h.wd, h.ki, fun hg => ?_, h.dead⟩
  have l := h.live hg
  exact ⟨l.good.of_up l.good.lv.wheelBroken (RecsUp.of_eq rfl), l.cl, l.cn, l.wq, l.abs⟩

/-- the stage-1 facts about the view of one key record that the sweep steps use (they arrive from stage 1's invariants through `Equiv`) -/
structure K1 (k : Key) : Prop where
  ki : Engine.KeyInv (Key.abs k)
  fl : (Key.abs k).waited = true → (Key.abs k).waiters ≠ []
  wu : ((Key.abs k).waiters.map rcOf).Nodup
  kw : ∀ w ∈ (Key.abs k).waiters, w.cmd.key = k.key
  kh : ∀ x ∈ (Key.abs k).holders, x.cmd.key = k.key

/-- **stuttering visits**: no such wheel entry (`wheelBroken`), or the entry of a tombstoned record (`dropT`) -/
theorem sim_visitT_stutter (s : DB) (hq : DBQ s) (hk : DBK s) (key rid : Nat) (slot : Bool) (k1 : K1 (s.getKey key))
    (h : (s.getKey key).hasT rid = false ∨ ((s.getKey key).getR rid).timeouted = true) :
    ∃ w', (s.openKey key).visitTimeout slot rid = some w' ∧ Equiv (Engine2.abs w'.commit) (Engine2.abs s) := by
  have r0 := rel_open s hq key (hk.getKey key) k1.ki
  unfold W.visitTimeout
  simp only []
  cases hT : (s.getKey key).hasT rid with
  | false =>
    have : (s.openKey key).k.hasT rid = false := hT
    simp only [this, Bool.not_false, if_true]
    exact ⟨_, rfl, rel_commit_same s hq key _ (Fr.wheelBroken _) (rel_wheelBroken r0)⟩
  | true =>
    have hT' : (s.openKey key).k.hasT rid = true := hT
    have hto : ((s.openKey key).k.getR rid).timeouted = true := by
      rcases h with h | h
      · rw [hT] at h; exact absurd h (by simp)
      · exact h
    simp only [hT', Bool.not_true, Bool.false_eq_true, if_false, hto, if_true]
    have hs := hasT_spec _ rid hT
    refine ⟨_, rfl, rel_commit_same s hq key _ (Fr.dropT _ _) (rel_dropT r0 k1.fl rid (fun _ => ⟨hs.1, hs.2, hto⟩))⟩

theorem visitT_live_cases (w : W) (slot : Bool) (rid : Nat) (hT : w.k.hasT rid = true) (hl : (w.k.getR rid).timeouted = false) :
    w.visitTimeout slot rid = if slot && (w.k.getR rid).timeoutT > w.db.now then
      some ((w.modR rid (fun r => { r with tChecked := r.tChecked + 1 })).addTimeOut rid) else none := by
  unfold W.visitTimeout
  simp only [hT, hl, Bool.not_true, Bool.false_eq_true, if_false]

def bumpT (r : Rec) : Rec := { r with tChecked := r.tChecked + 1 }
def unlongT (r : Rec) : Rec := { r with tSched := r.tSched.map (fun s => { s with long := false }) }

theorem getR_addTimeOut (w : W) (rid : Nat) (hh : w.k.hasRec rid) :
    (w.addTimeOut rid).k.getR rid = Rec.armT (Engine.wheelAdd w.db.tCheck w.db.seq (w.k.getR rid).timeoutT (w.k.getR rid).tChecked) (w.k.getR rid) :=
  getR_modRec_same w.k rid (Rec.armT (Engine.wheelAdd w.db.tCheck w.db.seq (w.k.getR rid).timeoutT (w.k.getR rid).tChecked)) (fun _ => rfl) hh

theorem live_mem_abs {k : Key} (kt : KT k) (rid : Nat) (hh : k.hasRec rid) (hl : (k.getR rid).timeouted = false) :
    waiterOf k rid ∈ (Key.abs k).waiters := by
  rw [abs_waiters]
  exact List.mem_map.mpr ⟨rid, List.mem_filter.mpr ⟨kt.wq rid hh hl, by unfold Key.deadWaiter; rw [hl]; rfl⟩, rfl⟩

/-- what a sweep step starts from: the working state of a linked key record with its invariants -/
structure WSt (w : W) : Prop where
  hg : w.gone = false
  good : Good w
  cl : CurLive w.k
  cn : CurNone w.k
  wi : WI w
  kt : KT w.k
  k1 : K1 w.k

theorem WSt.hrec {w : W} (h : WSt w) : ∀ y ∈ w.k.current.toList ++ w.k.locks ++ w.k.wait.map (·.rid), w.k.hasRec y := by
  intro y hy
  apply h.good.lv.rc.dang
  have h1 := qRefs_pos_of_any w.k y hy
  simp only [zero]
  omega

/-- **re-arm**, working-state level -/
theorem rearmT_rel {w : W} (h : WSt w) (a : Engine.DB) (sc : Scal a w.db) (out1 : List Engine.Reply) (ho : w.out.map (·.r) = out1) (rid : Nat)
    (hT : w.k.hasT rid = true) (hl : (w.k.getR rid).timeouted = false) (hdue : (w.k.getR rid).timeoutT > w.db.now) :
    w.visitTimeout true rid = some ((w.modR rid bumpT).addTimeOut rid) ∧
    Rel ((w.modR rid bumpT).addTimeOut rid) (seqUp a)
      (mapW (Key.abs w.k) (waiterOf w.k rid) (rearmW w.db.tCheck w.db.seq (waiterOf w.k rid))) out1 := by
  have hs := hasT_spec _ rid hT
  have hv : w.visitTimeout true rid = some ((w.modR rid bumpT).addTimeOut rid) := by
    rw [visitT_live_cases _ true rid hT hl]
    simp [hdue]
    rfl
  refine ⟨hv, ?_⟩
  have T := tight_visitTimeout h.good h.cl (recs_ne_of_hasRec hs.1) true rid _ hv
  have wi' := visitTimeout_wi h.wi true rid _ hv
  have hg' : ((w.modR rid bumpT).addTimeOut rid).gone = false := h.hg
  have g1 : (w.modR rid bumpT).k.getR rid = bumpT (w.k.getR rid) := getR_modRec_same w.k rid bumpT (fun _ => rfl) hs.1
  have hh1 : (w.modR rid bumpT).k.hasRec rid := (hasRec_modR w rid rid bumpT (fun _ => rfl)).mpr hs.1
  have g2 := getR_addTimeOut (w.modR rid bumpT) rid hh1
  rw [g1] at g2
  obtain ⟨sc0, hsc, hck⟩ := h.kt.ws rid hs.1 hl
  have hview : waiterOf ((w.modR rid bumpT).addTimeOut rid).k rid = rearmW w.db.tCheck w.db.seq (waiterOf w.k rid) := by
    unfold waiterOf
    rw [g2]
    unfold rearmW Rec.toWaiter Rec.armT bumpT
    simp only [hsc, Option.getD_some, hck]
    rfl
  have px : PKeepX πA (· = rid) ((w.modR rid bumpT).addTimeOut rid).k w.k :=
    (PKeepX.modRec (X := (· = rid)) (w.modR rid bumpT).k rid
      (Rec.armT (Engine.wheelAdd (w.modR rid bumpT).db.tCheck (w.modR rid bumpT).db.seq ((w.modR rid bumpT).k.getR rid).timeoutT
        ((w.modR rid bumpT).k.getR rid).tChecked)) (fun _ => rfl) rfl).trans
      (PKeepX.modRec (X := (· = rid)) w.k rid bumpT (fun _ => rfl) rfl)
  have hrec : ∀ y ∈ w.k.current.toList ++ w.k.locks ++ w.k.wait.map (·.rid), ((w.modR rid bumpT).addTimeOut rid).k.hasRec y := by
    intro y hy
    have h0 := h.hrec y hy
    have h1 : (w.modR rid bumpT).k.hasRec y := (hasRec_modR w rid y bumpT (fun _ => rfl)).mpr h0
    exact (hasRec_modRec (w.modR rid bumpT).k rid y
      (Rec.armT (Engine.wheelAdd (w.modR rid bumpT).db.tCheck (w.modR rid bumpT).db.seq ((w.modR rid bumpT).k.getR rid).timeoutT
        ((w.modR rid bumpT).k.getR rid).tChecked)) (fun _ => rfl)).mpr h1
  have hnot : rid ∉ w.k.current.toList ++ w.k.locks := by
    intro hm
    have := h.wi.ht rid hm
    rw [this] at hl; exact absurd hl (by simp)
  have hd' : ((w.modR rid bumpT).addTimeOut rid).k.deadWaiter rid = false := by
    unfold Key.deadWaiter; rw [g2]; rfl
  have habs := abs_edit_waiter (k := w.k) (k' := ((w.modR rid bumpT).addTimeOut rid).k)
    rid rfl rfl rfl rfl px hrec (h.kt.wq rid hs.1 hl) hl hd' hnot h.k1.wu
  rw [hview] at habs
  exact Rel.of_live hg' ⟨sc.now, sc.tCheck, sc.eCheck, by show a.seq + 1 = w.db.seq + 1; rw [sc.seq], sc.leader, sc.ctr⟩ ho (Engine.waiters_inv h.k1.ki _ _)
    ⟨T.good hg', T.cur hg', h.cn.of_cl rfl rfl, wi'.wq, habs⟩

/-- **a due long-table entry is taken in hand**, working-state level -/
theorem collectT_rel {w : W} (h : WSt w) (a : Engine.DB) (sc : Scal a w.db) (out1 : List Engine.Reply) (ho : w.out.map (·.r) = out1) (rid : Nat)
    (hT : w.k.hasT rid = true) (hl : (w.k.getR rid).timeouted = false) :
    Rel (w.collectT rid) a (clrK [rcId w.k.key (waiterOf w.k rid)] (Key.abs w.k)) out1 := by
  have hs := hasT_spec _ rid hT
  have T := tight_collectT h.good h.cl (recs_ne_of_hasRec hs.1) rid
  have wi' := collectT_wi h.wi rid
  have hg' : (w.collectT rid).gone = false := h.hg
  have g1 : (w.collectT rid).k.getR rid = unlongT (w.k.getR rid) := getR_modRec_same w.k rid unlongT (fun _ => rfl) hs.1
  obtain ⟨sc0, hsc, _⟩ := h.kt.ws rid hs.1 hl
  have hview : waiterOf (w.collectT rid).k rid = unlong (waiterOf w.k rid) := by
    unfold waiterOf
    rw [g1]
    unfold unlong Rec.toWaiter unlongT
    simp only [hsc, Option.map_some, Option.getD_some]
  have px : PKeepX πA (· = rid) (w.collectT rid).k w.k := PKeepX.modRec (X := (· = rid)) w.k rid unlongT (fun _ => rfl) rfl
  have hrec : ∀ y ∈ w.k.current.toList ++ w.k.locks ++ w.k.wait.map (·.rid), (w.collectT rid).k.hasRec y := by
    intro y hy
    exact (hasRec_modR w rid y unlongT (fun _ => rfl)).mpr (h.hrec y hy)
  have hnot : rid ∉ w.k.current.toList ++ w.k.locks := by
    intro hm
    have := h.wi.ht rid hm
    rw [this] at hl; exact absurd hl (by simp)
  have hd' : (w.collectT rid).k.deadWaiter rid = false := by
    unfold Key.deadWaiter; rw [g1]; exact hl
  have habs := abs_edit_waiter (k := w.k) (k' := (w.collectT rid).k) rid rfl rfl rfl rfl px hrec (h.kt.wq rid hs.1 hl) hl hd' hnot h.k1.wu
  rw [hview, mapW_unlong _ _ (live_mem_abs h.kt rid hs.1 hl) h.k1.wu] at habs
  exact Rel.of_live hg' sc ho ⟨h.k1.ki.sum, h.k1.ki.pos⟩ ⟨T.good hg', T.cur hg', h.cn.of_cl rfl rfl, wi'.wq, habs⟩

/-- the working state a sweep step opens -/
theorem ws_open (s : DB) (hq : DBQ s) (hk : DBK s) (hkt : DBKT s) (key : Nat) (k1 : K1 (s.getKey key)) (hg : (s.openKey key).gone = false) :
    WSt (s.openKey key) :=
  ⟨hg, Good.openKey hq.dbt.dbi hq.dbt.tight key, cur_openKey hq.dbt.tight key, (qi_getKey hq.qi key).cn, WI.openKey s key (hk.getKey key),
    hkt.getKey key, k1⟩

/-- **re-arm**: the record-level step (`tChecked + 1`, `AddTimeOut`) is stage 1's `rearmWaiter` of that request -/
theorem sim_rearmT (s : DB) (hq : DBQ s) (hk : DBK s) (hkt : DBKT s) (key rid : Nat) (k1 : K1 (s.getKey key))
    (hT : (s.getKey key).hasT rid = true) (hl : ((s.getKey key).getR rid).timeouted = false)
    (hdue : ((s.getKey key).getR rid).timeoutT > s.now) :
    (s.openKey key).visitTimeout true rid = some (((s.openKey key).modR rid bumpT).addTimeOut rid) ∧
    Equiv (Engine2.abs (((s.openKey key).modR rid bumpT).addTimeOut rid).commit)
      (Engine.rearmWaiter (Engine2.abs s) (waiterOf (s.getKey key) rid)) := by
  have hs := hasT_spec _ rid hT
  have hws := ws_open s hq hk hkt key k1 (openKey_live_of_hasRec s key rid hs.1)
  obtain ⟨hv, rel⟩ := rearmT_rel hws (Engine2.abs s) (scal_openKey s key) [] rfl rid hT hl hdue
  refine ⟨hv, ?_⟩
  have hkw : (waiterOf (s.getKey key) rid).cmd.key = key := (k1.kw _ (live_mem_abs hws.kt rid hs.1 hl)).trans (getKey_key s key)
  have e1 := rel_commit s hq key _ (W.visitTimeout_fr _ _ _ _ hv) rel (fun _ => rfl) (getKey_key _ _)
  rw [rearmWaiter_eq, hkw, abs_getKey s hq.dbt.dbi.kn key]
  exact e1

/-- **a due long-table entry is taken in hand** (`collectT`): stage 1's view of that request loses its `long` flag, nothing else changes -/
theorem sim_collectT (s : DB) (hq : DBQ s) (hk : DBK s) (hkt : DBKT s) (key rid : Nat) (k1 : K1 (s.getKey key))
    (hT : (s.getKey key).hasT rid = true) (hl : ((s.getKey key).getR rid).timeouted = false) :
    EqL [rcId key (waiterOf (s.getKey key) rid)] (Engine2.abs ((s.openKey key).collectT rid).commit) (Engine2.abs s) := by
  have hs := hasT_spec _ rid hT
  have hws := ws_open s hq hk hkt key k1 (openKey_live_of_hasRec s key rid hs.1)
  have rel := collectT_rel hws (Engine2.abs s) (scal_openKey s key) [] rfl rid hT hl
  have ek : (s.openKey key).k = s.getKey key := rfl
  rw [ek] at rel
  have hkk : (s.getKey key).key = key := getKey_key s key
  rw [hkk] at rel
  have e1 := rel_commit s hq key _ (W.collectT_fr _ _) rel (fun _ => rfl) (by rw [clrK_key]; exact hkk)
  refine EqL.left e1 ⟨setKey_se _ _, fun n => ?_⟩
  by_cases e : n = key
  · subst e
    have := getKey_setKey_same (Engine2.abs s) (clrK [rcId n (waiterOf (s.getKey n) rid)] (Key.abs (s.getKey n)))
    rw [clrK_key] at this
    have hkk' : (Key.abs (s.getKey n)).key = n := hkk
    rw [hkk'] at this
    rw [this, abs_getKey s hq.dbt.dbi.kn n]
  · have hkk' : (Key.abs (s.getKey key)).key = key := hkk
    rw [getKey_setKey_other _ _ _ (by rw [clrK_key, hkk']; exact e)]
    have e0 : (Engine2.abs s).getKey n = clrK [] ((Engine2.abs s).getKey n) := (clrK_nil _).symm
    rw [e0]
    conv => rhs; rw [clrK_nil]
    apply clrK_congr
    intro v _
    rw [Engine.getKey_key]
    constructor
    · intro hm; simp at hm
    · intro hm
      simp only [List.mem_singleton, rcId, Prod.mk.injEq] at hm
      exact absurd hm.1 e

end Slock.SimTick
