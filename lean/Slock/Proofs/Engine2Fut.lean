import Slock.Proofs.Engine2Drain
/-! Stage-2 engine: where wheel entries are scheduled. Through every helper of an operation, the timeout-wheel entry and the
expiry-wheel entry of a lock record are each: gone, what they were (same visit second, same sequence number), or FRESH — armed by
`AddTimeOut` / `AddExpried` for a second ≥ the sweeper's next check second. -/
namespace Slock.Engine2
open Slock.Engine (wheelAdd)

theorem wheelAdd_visit_ge (check seq d n : Nat) : check ≤ (wheelAdd check seq d n).2.visit := by
  unfold wheelAdd
  split
  · simp only []; split <;> omega
  · simp only []; split
    · split <;> omega
    · omega

/-- what the sweeps read of a wheel entry: the second it is scheduled for, and its sequence number -/
def πT (r : Rec) : Option (Nat × Nat) := r.tSched.map (fun s => (s.visit, s.seq))
def πE (r : Rec) : Option (Nat × Nat) := r.eSched.map (fun s => (s.visit, s.seq))

/-- none, unchanged, or fresh (scheduled after second `c`) -/
def Step (c : Nat) (n o : Option (Nat × Nat)) : Prop := n = none ∨ n = o ∨ ∃ v q, n = some (v, q) ∧ c < v

theorem Step.refl (c : Nat) (o : Option (Nat × Nat)) : Step c o o := Or.inr (Or.inl rfl)
theorem Step.trans {c : Nat} {a b d : Option (Nat × Nat)} (h1 : Step c a b) (h2 : Step c b d) : Step c a d := by
  rcases h1 with h | h | h
  · exact Or.inl h
  · rw [h]; exact h2
  · exact Or.inr (Or.inr h)
theorem Step.of_none {c : Nat} {a d : Option (Nat × Nat)} (h : Step c a none) : Step c a d := by
  rcases h with h | h | h
  · exact Or.inl h
  · exact Or.inl h
  · exact Or.inr (Or.inr h)
theorem Step.of_eq {c : Nat} {a b : Option (Nat × Nat)} (h : a = b) : Step c a b := Or.inr (Or.inl h)

structure RS (ct ce : Nat) (r' r : Rec) : Prop where
  t : Step ct (πT r') (πT r)
  e : Step ce (πE r') (πE r)

theorem RS.refl (ct ce : Nat) (r : Rec) : RS ct ce r r := ⟨Step.refl _ _, Step.refl _ _⟩
theorem RS.trans {ct ce : Nat} {a b d : Rec} (h1 : RS ct ce a b) (h2 : RS ct ce b d) : RS ct ce a d := ⟨h1.t.trans h2.t, h1.e.trans h2.e⟩
theorem RS.of_eq {ct ce : Nat} {a b : Rec} (h1 : a.tSched = b.tSched) (h2 : a.eSched = b.eSched) : RS ct ce a b :=
  ⟨Step.of_eq (by unfold πT; rw [h1]), Step.of_eq (by unfold πE; rw [h2])⟩
theorem RS.of_dead {ct ce : Nat} {a d : Rec} {rid : Nat} (h : RS ct ce a (deadRec rid)) : RS ct ce a d := ⟨h.t.of_none, h.e.of_none⟩

/-- key-record level (lookups; a record that was not there counts as one without entries) -/
def KS (ct ce : Nat) (k' k : Key) : Prop := ∀ y, k'.hasRec y → RS ct ce (k'.getR y) (k.getR y)

theorem KS.refl (ct ce : Nat) (k : Key) : KS ct ce k k := fun _ _ => RS.refl _ _ _
theorem KS.trans {ct ce : Nat} {a b d : Key} (h1 : KS ct ce a b) (h2 : KS ct ce b d) : KS ct ce a d := by
  intro y hy
  by_cases hb : b.hasRec y
  · exact (h1 y hy).trans (h2 y hb)
  · have := h1 y hy
    rw [getR_of_not_hasRec b y hb] at this
    exact this.of_dead

theorem ins_πT : Ins πT := ⟨fun _ _ => rfl, fun _ _ => rfl, fun _ _ => rfl, fun _ _ => rfl⟩
theorem ins_πE : Ins πE := ⟨fun _ _ => rfl, fun _ _ => rfl, fun _ _ => rfl, fun _ _ => rfl⟩

theorem KS.of_pk {ct ce : Nat} {k' k : Key} (pT : PKeep πT k' k) (pE : PKeep πE k' k) : KS ct ce k' k :=
  fun y hy => ⟨Step.of_eq (pT.val y hy), Step.of_eq (pE.val y hy)⟩

theorem KS.of_recs {ct ce : Nat} {k' k : Key} (h : k'.recs = k.recs) : KS ct ce k' k := KS.of_pk (PKeep.of_eq h) (PKeep.of_eq h)

/-- an edit of one record -/
theorem KS.modRec {ct ce : Nat} (k : Key) (rid : Nat) (f : Rec → Rec) (hf : ∀ r, (f r).rid = r.rid) (hs : ∀ r, RS ct ce (f r) r) :
    KS ct ce (k.modRec rid f) k := by
  intro y hy
  have hk := (hasRec_modRec _ _ _ _ hf).mp hy
  by_cases e : y = rid
  · subst e; rw [getR_modRec_same _ _ _ hf hk]; exact hs _
  · rw [getR_modRec_other _ _ _ _ hf e]; exact RS.refl _ _ _

theorem KS.addRec {ct ce : Nat} (k : Key) (r : Rec) (h1 : r.tSched = none) (h2 : r.eSched = none) : KS ct ce (k.addRec r) k := by
  intro y hy
  by_cases hk : k.hasRec y
  · rw [getR_addRec _ _ _ hk]; exact RS.refl _ _ _
  · -- the new record
    obtain ⟨x, hx, e⟩ := hy
    have hx' : x ∈ k.recs ++ [r] := hx
    rcases List.mem_append.mp hx' with h3 | h3
    · exact absurd ⟨x, h3, e⟩ hk
    · simp at h3
      have hg : (k.addRec r).getR y = r := by
        unfold Key.getR Key.addRec
        simp only []
        rw [List.find?_append]
        have : k.recs.find? (·.rid == y) = none := by
          apply List.find?_eq_none.mpr
          intro z hz hzy
          exact hk ⟨z, hz, by simpa using hzy⟩
        rw [this]
        simp [List.find?, ← h3, e]
      rw [hg]
      exact ⟨Or.inl (by unfold πT; rw [h1]; rfl), Or.inl (by unfold πE; rw [h2]; rfl)⟩

/-! ### working states: `Ok ct ce w0 w` — `w` is `w0` after steps of this kind, and the sweeper's check seconds are ahead of `ct` / `ce` -/

structure Ok (ct ce : Nat) (w0 w : W) : Prop where
  tc : ct < w.db.tCheck
  ec : ce < w.db.eCheck
  ks : KS ct ce w.k w0.k
  teq : w.db.tCheck = w0.db.tCheck
  eeq : w.db.eCheck = w0.db.eCheck

theorem Ok.refl {ct ce : Nat} {w : W} (h1 : ct < w.db.tCheck) (h2 : ce < w.db.eCheck) : Ok ct ce w w := ⟨h1, h2, KS.refl _ _ _, rfl, rfl⟩

/-- a step that edits the key record only -/
theorem Ok.key {ct ce : Nat} {w0 w w' : W} (h : Ok ct ce w0 w) (h1 : w'.db.tCheck = w.db.tCheck) (h2 : w'.db.eCheck = w.db.eCheck)
    (hk : KS ct ce w'.k w.k) : Ok ct ce w0 w' := ⟨by rw [h1]; exact h.tc, by rw [h2]; exact h.ec, hk.trans h.ks, h1.trans h.teq, h2.trans h.eeq⟩

theorem Ok.rebase {ct ce : Nat} {w0 w1 w : W} (h : Ok ct ce w1 w) (h0 : Ok ct ce w0 w1) : Ok ct ce w0 w :=
  ⟨h.tc, h.ec, h.ks.trans h0.ks, h.teq.trans h0.teq, h.eeq.trans h0.eeq⟩

namespace Ok
variable {ct ce : Nat} {w0 w : W}

theorem reply (h : Ok ct ce w0 w) (c : Cmd) (a b : Nat) (d : Option Bytes) : Ok ct ce w0 (w.reply c a b d) := h.key rfl rfl (KS.refl _ _ _)
theorem ctr (h : Ok ct ce w0 w) (f : Counters → Counters) : Ok ct ce w0 (w.ctr f) := h.key rfl rfl (KS.refl _ _ _)
theorem wheelBroken (h : Ok ct ce w0 w) : Ok ct ce w0 w.wheelBroken := h.key rfl rfl (KS.refl _ _ _)
theorem modR (h : Ok ct ce w0 w) (rid : Nat) (f : Rec → Rec) (hf : ∀ r, (f r).rid = r.rid) (hs : ∀ r, RS ct ce (f r) r) : Ok ct ce w0 (w.modR rid f) :=
  h.key rfl rfl (KS.modRec w.k rid f hf hs)
/-- an edit that leaves both wheel entries alone -/
theorem modR_eq (h : Ok ct ce w0 w) (rid : Nat) (f : Rec → Rec) (hf : ∀ r, (f r).rid = r.rid) (h1 : ∀ r, (f r).tSched = r.tSched)
    (h2 : ∀ r, (f r).eSched = r.eSched) : Ok ct ce w0 (w.modR rid f) := h.modR rid f hf (fun r => RS.of_eq (h1 r) (h2 r))
theorem modK_pk (h : Ok ct ce w0 w) (f : Key → Key) (pT : PKeep πT (f w.k) w.k) (pE : PKeep πE (f w.k) w.k) : Ok ct ce w0 (w.modK f) :=
  h.key rfl rfl (KS.of_pk pT pE)
theorem modK_recs (h : Ok ct ce w0 w) (f : Key → Key) (e : (f w.k).recs = w.k.recs) : Ok ct ce w0 (w.modK f) := h.key rfl rfl (KS.of_recs e)
theorem when (h : Ok ct ce w0 w) (b : Bool) (f : W → W) (hf : Ok ct ce w0 w → Ok ct ce w0 (f w)) : Ok ct ce w0 (w.when b f) := by
  cases b
  · exact h
  · exact hf h

theorem procData (h : Ok ct ce w0 w) (t : Slock.Value.CmdType) (c : Cmd) (f : Option Bytes) (rid : Nat) : Ok ct ce w0 (w.procData t c f rid) := by
  refine h.key ?_ ?_ (KS.of_pk (pk_procData ins_πT w t c f rid) (pk_procData ins_πE w t c f rid))
  · unfold W.procData; split
    · rfl
    · simp only []; split <;> rfl
  · unfold W.procData; split
    · rfl
    · simp only []; split <;> rfl

theorem pushLockAof (h : Ok ct ce w0 w) (rid flag : Nat) : Ok ct ce w0 (w.pushLockAof rid flag) := by
  refine h.key ?_ ?_ (KS.of_pk (pk_pushLockAof ins_πT w rid flag) (pk_pushLockAof ins_πE w rid flag))
  · unfold W.pushLockAof; split
    · rfl
    · simp only []; split <;> rfl
  · unfold W.pushLockAof; split
    · rfl
    · simp only []; split <;> rfl

theorem pushLockAofN (n : Nat) (h : Ok ct ce w0 w) (rid : Nat) : Ok ct ce w0 (W.pushLockAofN n w rid) := by
  induction n generalizing w with
  | zero => exact h
  | succ n ih => unfold W.pushLockAofN; exact ih (h.pushLockAof rid 0)

theorem pushUnLockAof (h : Ok ct ce w0 w) (rid : Nat) (lc : Cmd) (fa ia : Bool) (flag : Nat) : Ok ct ce w0 (w.pushUnLockAof rid lc fa ia flag) := by
  refine h.key ?_ ?_ (KS.of_pk (pk_pushUnLockAof ins_πT w rid lc fa ia flag) (pk_pushUnLockAof ins_πE w rid lc fa ia flag))
  · unfold W.pushUnLockAof; split
    · rfl
    · split <;> rfl
  · unfold W.pushUnLockAof; split
    · rfl
    · split <;> rfl

theorem journalLock (h : Ok ct ce w0 w) (rid flag : Nat) : Ok ct ce w0 (w.journalLock rid flag) := h.when _ _ (fun h => h.pushLockAof rid flag)
theorem journalUnlock (h : Ok ct ce w0 w) (rid : Nat) (fa ia : Bool) (flag : Nat) : Ok ct ce w0 (w.journalUnlock rid fa ia flag) :=
  h.when _ _ (fun h => h.pushUnLockAof rid _ fa ia flag)
theorem ref (h : Ok ct ce w0 w) (rid : Nat) : Ok ct ce w0 (w.ref rid) := h.modR_eq rid _ (fun _ => rfl) (fun _ => rfl) (fun _ => rfl)

/-- `AddTimeOut`: a fresh timeout-wheel entry -/
theorem addTimeOut (h : Ok ct ce w0 w) (rid : Nat) : Ok ct ce w0 (w.addTimeOut rid) := by
  refine h.key rfl rfl (KS.modRec w.k rid _ (fun _ => rfl) (fun r => ⟨?_, Step.of_eq rfl⟩))
  right; right
  refine ⟨_, _, rfl, ?_⟩
  exact Nat.lt_of_lt_of_le h.tc (wheelAdd_visit_ge _ _ _ _)

theorem schedExpried (h : Ok ct ce w0 w) (rid : Nat) : Ok ct ce w0 (w.schedExpried rid) := by
  refine h.key rfl rfl (KS.modRec w.k rid _ (fun _ => rfl) (fun r => ⟨Step.of_eq rfl, ?_⟩))
  right; right
  refine ⟨_, _, rfl, ?_⟩
  exact Nat.lt_of_lt_of_le h.ec (wheelAdd_visit_ge _ _ _ _)

theorem addExpried (h : Ok ct ce w0 w) (rid : Nat) : Ok ct ce w0 (w.addExpried rid) := by
  unfold W.addExpried
  simp only []
  exact (h.schedExpried rid).when _ _ (fun h' => pushLockAofN _ h' rid)

theorem removeLongT (h : Ok ct ce w0 w) (rid : Nat) : Ok ct ce w0 (w.removeLongT rid) := by
  unfold W.removeLongT Key.unrefOnly
  refine h.key rfl rfl (KS.trans (KS.modRec _ rid _ (by intro _; rfl) (fun r => RS.of_eq rfl rfl))
    (KS.modRec w.k rid _ (by intro _; rfl) (fun r => ⟨Or.inl rfl, Step.of_eq rfl⟩)))
theorem removeLongE (h : Ok ct ce w0 w) (rid : Nat) : Ok ct ce w0 (w.removeLongE rid) := by
  unfold W.removeLongE Key.unrefOnly
  refine h.key rfl rfl (KS.trans (KS.modRec _ rid _ (by intro _; rfl) (fun r => RS.of_eq rfl rfl))
    (KS.modRec w.k rid _ (by intro _; rfl) (fun r => ⟨Step.of_eq rfl, Or.inl rfl⟩)))
theorem dropLongT (h : Ok ct ce w0 w) (rid : Nat) : Ok ct ce w0 (w.dropLongT rid) := h.when _ _ (fun h => h.removeLongT rid)
theorem dropLongE (h : Ok ct ce w0 w) (rid : Nat) : Ok ct ce w0 (w.dropLongE rid) := h.when _ _ (fun h => h.removeLongE rid)

theorem removeIfZero (h : Ok ct ce w0 w) : Ok ct ce w0 w.removeIfZero := by
  unfold W.removeIfZero
  split
  · obtain ⟨_, _, _, _, _, _, d1, d2, _⟩ := dropKey_fields w.db w.k.key
    exact h.key d1 d2 (KS.of_recs rfl)
  · exact h

theorem freeCheck (h : Ok ct ce w0 w) (rid : Nat) : Ok ct ce w0 (w.freeCheck rid) := by
  unfold W.freeCheck
  exact (h.modK_pk _ (PKeep.free _ _) (PKeep.free _ _)).removeIfZero

theorem unrefCheck (h : Ok ct ce w0 w) (rid : Nat) : Ok ct ce w0 (w.unrefCheck rid) := by
  unfold W.unrefCheck
  simp only []
  exact (h.modK_pk _ (PKeep.unrefOnly ins_πT _ _) (PKeep.unrefOnly ins_πE _ _)).when _ _ (fun h' => h'.freeCheck rid)

theorem dropT (h : Ok ct ce w0 w) (rid : Nat) : Ok ct ce w0 (w.dropT rid) := by
  unfold W.dropT
  exact (h.modR rid (fun r => { r with tSched := none }) (by intro _; rfl) (fun r => ⟨Or.inl rfl, Step.of_eq rfl⟩)).unrefCheck rid
theorem dropE (h : Ok ct ce w0 w) (rid : Nat) : Ok ct ce w0 (w.dropE rid) := by
  unfold W.dropE
  exact (h.modR rid (fun r => { r with eSched := none }) (by intro _; rfl) (fun r => ⟨Step.of_eq rfl, Or.inl rfl⟩)).unrefCheck rid

theorem collectT (h : Ok ct ce w0 w) (rid : Nat) : Ok ct ce w0 (w.collectT rid) := by
  unfold W.collectT
  refine h.modR rid _ (by intro _; rfl) (fun r => ⟨Step.of_eq ?_, Step.of_eq rfl⟩)
  unfold πT
  cases r.tSched <;> rfl

end Ok

end Slock.Engine2
