import Slock.Proofs.EngineSimTickStepT
/-! Clock-tick simulation (`sim_tick`): the three phases of the timeout sweep as folds — pass 1 over the slot entries, the long-table
pass, the firing phase — record level against stage 1. -/
namespace Slock.SimTick
open Slock Slock.Sim Slock.Engine2
open Slock.Engine (has)

/-- what a run of sweep steps on the entries `ids` leaves alone: `PT` of every entry, liveness and view of the entries not in `ids` -/
structure Stab (ids : List (Nat × Nat)) (s' s : DB) : Prop where
  pt : ∀ e w, PT s e w → PT s' e w
  lv : ∀ e, eid e ∉ ids → liveT s' e = liveT s e ∧ (liveT s e = true → viewT s' e = viewT s e)

theorem Stab.refl (ids : List (Nat × Nat)) (s : DB) : Stab ids s s := ⟨fun _ _ h => h, fun _ _ => ⟨rfl, fun _ => rfl⟩⟩

theorem Stab.trans {i1 i2 : List (Nat × Nat)} {s s' s'' : DB} (h2 : Stab i2 s'' s') (h1 : Stab i1 s' s) : Stab (i1 ++ i2) s'' s := by
  refine ⟨fun e w h => h2.pt e w (h1.pt e w h), fun e he => ?_⟩
  have a1 := h1.lv e (fun hm => he (List.mem_append_left _ hm))
  have a2 := h2.lv e (fun hm => he (List.mem_append_right _ hm))
  refine ⟨a2.1.trans a1.1, fun hl => ?_⟩
  rw [a2.2 (a1.1.trans hl), a1.2 hl]

theorem stab_step {s s' : DB} {e0 : Ent} (F : WFD e0.key e0.rid s' s) (sy : Sy s) (wu : ∀ n, K1 (s.getKey n)) (hrc : RC s' s) :
    Stab [eid e0] s' s := by
  refine ⟨fun e w h => pt_step F (sy.dbkt.getKey e.key) (wu e.key).wu h, fun e he => ?_⟩
  have hne : eid e ≠ eid e0 := fun h => he (by rw [h]; simp)
  exact live_step hne F (sy.dbkt.getKey e.key) (wu e.key).wu (hrc e.key)

theorem pend_congr {ids : List (Nat × Nat)} {s s' : DB} (st : Stab ids s' s) (L : List Ent) (hL : ∀ e ∈ L, eid e ∉ ids) :
    (L.filter (liveT s')).map (viewT s') = (L.filter (liveT s)).map (viewT s) := by
  apply filter_map_congr_on
  intro e he
  obtain ⟨a1, a2⟩ := st.lv e (hL e he)
  exact ⟨a1, a2⟩

/-- **pass 1 of the timeout sweep** -/
theorem pass1T (L2 : List Ent) : ∀ (x2 : DB × List Ent) (x1 : Engine.DB × List Engine.Waiter),
    Sy x2.1 → I1 x1.1 → Equiv (Engine2.abs x2.1) x1.1 → (L2.map eid).Nodup →
    ∃ PP : List (Ent × Engine.Waiter),
      (L2.foldl (timeoutStep true) x2).2 = x2.2 ++ PP.map (·.1) ∧
      (((L2.filter (liveT x2.1)).map (viewT x2.1)).foldl Engine.timeoutStep x1).2 = x1.2 ++ PP.map (·.2) ∧
      Sy (L2.foldl (timeoutStep true) x2).1 ∧
      I1 (((L2.filter (liveT x2.1)).map (viewT x2.1)).foldl Engine.timeoutStep x1).1 ∧
      Equiv (Engine2.abs (L2.foldl (timeoutStep true) x2).1) (((L2.filter (liveT x2.1)).map (viewT x2.1)).foldl Engine.timeoutStep x1).1 ∧
      (∀ p ∈ PP, PT (L2.foldl (timeoutStep true) x2).1 p.1 p.2) ∧
      Stab (L2.map eid) (L2.foldl (timeoutStep true) x2).1 x2.1 := by
  induction L2 with
  | nil =>
    intro x2 x1 sy i1 he _
    exact ⟨[], by simp, by simp, sy, i1, he, by simp, Stab.refl _ _⟩
  | cons e0 rest ih =>
    intro x2 x1 sy i1 he hnd
    obtain ⟨s, C2⟩ := x2
    obtain ⟨a, C1⟩ := x1
    simp only [List.map_cons, List.nodup_cons] at hnd
    have sy' := timeoutStep_sy true s C2 e0 sy
    have F := timeoutStep_wfd true s C2 e0 sy.dbq
    have hk1 : ∀ n, K1 (s.getKey n) := fun n => k1_of_equiv sy he i1 n
    have hrest : ∀ e ∈ rest, eid e ∉ [eid e0] := by
      intro e hem h
      simp only [List.mem_singleton] at h
      exact hnd.1 (h ▸ List.mem_map.mpr ⟨e, hem, rfl⟩)
    simp only [List.foldl_cons]
    cases hl : liveT s e0 with
    | false =>
      obtain ⟨e1, ec, hrc⟩ := pass1T_dead s a C2 e0 sy i1 he hl true
      have st1 := stab_step F sy hk1 hrc
      have hlist : ((e0 :: rest).filter (liveT s)).map (viewT s) = (rest.filter (liveT (timeoutStep true (s, C2) e0).1)).map (viewT (timeoutStep true (s, C2) e0).1) := by
        rw [pend_congr st1 rest hrest]
        simp [List.filter, hl]
      obtain ⟨PP, h1, h2, h3, h4, h5, h6, h7⟩ := ih (timeoutStep true (s, C2) e0) (a, C1) sy' i1 e1 hnd.2
      rw [hlist]
      refine ⟨PP, by rw [h1, ec], h2, h3, h4, h5, h6, ?_⟩
      exact (h7.trans st1)
    | true =>
      obtain ⟨e1, hrc, hc⟩ := pass1T_live s a C2 C1 e0 sy i1 he hl
      have st1 := stab_step F sy hk1 hrc
      have i1' := timeoutStep_i1 (a, C1) (viewT s e0) i1
      have hlist : ((e0 :: rest).filter (liveT s)).map (viewT s) =
          viewT s e0 :: (rest.filter (liveT (timeoutStep true (s, C2) e0).1)).map (viewT (timeoutStep true (s, C2) e0).1) := by
        rw [pend_congr st1 rest hrest]
        simp [List.filter, hl]
      obtain ⟨PP, h1, h2, h3, h4, h5, h6, h7⟩ := ih (timeoutStep true (s, C2) e0) (Engine.timeoutStep (a, C1) (viewT s e0)) sy' i1' e1 hnd.2
      rw [hlist]
      simp only [List.foldl_cons]
      rcases hc with ⟨c1, c2⟩ | ⟨c0, c1, c2⟩
      · exact ⟨PP, by rw [h1, c1], by rw [h2, c2], h3, h4, h5, h6, h7.trans st1⟩
      · refine ⟨(e0, viewT s e0) :: PP, by rw [h1, c1]; simp, by rw [h2, c2]; simp, h3, h4, h5, ?_, h7.trans st1⟩
        intro p hp
        rcases List.mem_cons.mp hp with hp | hp
        · rw [hp]
          exact h7.pt _ _ (st1.pt _ _ (PT.of_live sy.dbkt (hk1 e0.key) hl))
        · exact h6 p hp

/-- **the long-table pass of the timeout sweep**: stage 1 does nothing; the collected requests lose their `long` flag on the record level -/
theorem passLT (L2 : List Ent) : ∀ (x2 : DB × List Ent) (a : Engine.DB) (S : List WId),
    Sy x2.1 → I1 a → EqL S (Engine2.abs x2.1) a → (L2.map eid).Nodup →
    ∃ PP : List (Ent × Engine.Waiter), ∃ S' : List WId,
      (L2.foldl (timeoutStep false) x2).2 = x2.2 ++ PP.map (·.1) ∧
      (L2.filter (liveT x2.1)).map (viewT x2.1) = PP.map (·.2) ∧
      Sy (L2.foldl (timeoutStep false) x2).1 ∧
      EqL S' (Engine2.abs (L2.foldl (timeoutStep false) x2).1) a ∧
      (∀ i ∈ S', i ∈ S ∨ ∃ p ∈ PP, rcId p.2.cmd.key p.2 = i) ∧
      (∀ p ∈ PP, PT (L2.foldl (timeoutStep false) x2).1 p.1 p.2) ∧
      Stab (L2.map eid) (L2.foldl (timeoutStep false) x2).1 x2.1 := by
  induction L2 with
  | nil =>
    intro x2 a S sy _ he _
    exact ⟨[], S, by simp, by simp, sy, he, fun i hi => Or.inl hi, by simp, Stab.refl _ _⟩
  | cons e0 rest ih =>
    intro x2 a S sy i1 he hnd
    obtain ⟨s, C2⟩ := x2
    simp only [List.map_cons, List.nodup_cons] at hnd
    have sy' := timeoutStep_sy false s C2 e0 sy
    have F := timeoutStep_wfd false s C2 e0 sy.dbq
    have hk1 : ∀ n, K1 (s.getKey n) := fun n => k1_of_eql sy he i1 n
    have hrest : ∀ e ∈ rest, eid e ∉ [eid e0] := by
      intro e hem h
      simp only [List.mem_singleton] at h
      exact hnd.1 (h ▸ List.mem_map.mpr ⟨e, hem, rfl⟩)
    simp only [List.foldl_cons]
    cases hl : liveT s e0 with
    | false =>
      obtain ⟨e1, ec, hrc⟩ := passLT_dead s a S C2 e0 sy i1 he hl
      have st1 := stab_step F sy hk1 hrc
      have hlist : ((e0 :: rest).filter (liveT s)).map (viewT s) = (rest.filter (liveT (timeoutStep false (s, C2) e0).1)).map (viewT (timeoutStep false (s, C2) e0).1) := by
        rw [pend_congr st1 rest hrest]
        simp [List.filter, hl]
      obtain ⟨PP, S', h1, h2, h3, h4, h5, h6, h7⟩ := ih (timeoutStep false (s, C2) e0) a S sy' i1 e1 hnd.2
      rw [hlist]
      exact ⟨PP, S', by rw [h1, ec], h2, h3, h4, h5, h6, h7.trans st1⟩
    | true =>
      obtain ⟨e1, ec, hrc⟩ := passLT_live s a S C2 e0 sy i1 he hl
      have st1 := stab_step F sy hk1 hrc
      have hlist : ((e0 :: rest).filter (liveT s)).map (viewT s) =
          viewT s e0 :: (rest.filter (liveT (timeoutStep false (s, C2) e0).1)).map (viewT (timeoutStep false (s, C2) e0).1) := by
        rw [pend_congr st1 rest hrest]
        simp [List.filter, hl]
      obtain ⟨PP, S', h1, h2, h3, h4, h5, h6, h7⟩ := ih (timeoutStep false (s, C2) e0) a (rcId e0.key (viewT s e0) :: S) sy' i1 e1 hnd.2
      rw [hlist]
      have hpt0 := PT.of_live sy.dbkt (hk1 e0.key) hl
      refine ⟨(e0, viewT s e0) :: PP, S', by rw [h1, ec]; simp, by rw [h2]; simp, h3, h4, ?_, ?_, h7.trans st1⟩
      · intro i hi
        rcases h5 i hi with h | ⟨p, hp, hpi⟩
        · rcases List.mem_cons.mp h with h' | h'
          · right
            refine ⟨(e0, viewT s e0), by simp, ?_⟩
            rw [h']
            show rcId (viewT s e0).cmd.key (viewT s e0) = rcId e0.key (viewT s e0)
            rw [hpt0.key]
          · exact Or.inl h'
        · exact Or.inr ⟨p, List.mem_cons_of_mem _ hp, hpi⟩
      · intro p hp
        rcases List.mem_cons.mp hp with hp | hp
        · rw [hp]
          exact h7.pt _ _ (st1.pt _ _ hpt0)
        · exact h6 p hp

/-- **the firing phase of the timeout sweep** -/
theorem fireT_fold (PP : List (Ent × Engine.Waiter)) : ∀ (x2 : DB × List Reply) (x1 : Engine.DB × List Engine.Reply) (S : List WId),
    Sy x2.1 → I1 x1.1 → EqL S (Engine2.abs x2.1) x1.1 → x2.2.map (·.r) = x1.2 → (∀ p ∈ PP, PT x2.1 p.1 p.2) →
    (∀ i ∈ S, ∃ p ∈ PP, rcId p.2.cmd.key p.2 = i) →
    Sy ((PP.map (·.1)).foldl fireTimeoutStep x2).1 ∧ I1 ((PP.map (·.2)).foldl Engine.fireTimeoutStep x1).1 ∧
    Equiv (Engine2.abs ((PP.map (·.1)).foldl fireTimeoutStep x2).1) ((PP.map (·.2)).foldl Engine.fireTimeoutStep x1).1 ∧
    ((PP.map (·.1)).foldl fireTimeoutStep x2).2.map (·.r) = ((PP.map (·.2)).foldl Engine.fireTimeoutStep x1).2 := by
  induction PP with
  | nil =>
    intro x2 x1 S sy i1 he ho _ hS
    have : S = [] := by
      cases S with
      | nil => rfl
      | cons i _ => obtain ⟨p, hp, _⟩ := hS i (by simp); simp at hp
    subst this
    exact ⟨sy, i1, he.equiv, ho⟩
  | cons p rest ih =>
    intro x2 x1 S sy i1 he ho hpt hS
    obtain ⟨s, o2⟩ := x2
    obtain ⟨a, o1⟩ := x1
    obtain ⟨e0, w0⟩ := p
    simp only [List.map_cons, List.foldl_cons]
    have hk1 : ∀ n, K1 (s.getKey n) := fun n => k1_of_eql sy he i1 n
    have pt0 : PT s e0 w0 := hpt (e0, w0) (by simp)
    obtain ⟨a1, a2⟩ := fireT_step_abs s o2 e0 w0 sy (hk1 e0.key) pt0
    have ho' : o2.map (·.r) = o1 := ho
    rw [ho'] at a1 a2
    obtain ⟨b1, b2⟩ := fireTimeoutStep_eqL (x := (Engine2.abs s, o1)) (y := (a, o1)) he rfl w0
    have hgone := fireTimeoutStep_gone (a, o1) w0 i1.s3.wu
    have b3 := b1.shrink (rcId w0.cmd.key w0) (by
      intro v hv e
      apply hgone v hv
      unfold rcId at e
      simp only [Prod.mk.injEq, true_and] at e
      exact e)
    have he' := EqL.left a1 b3
    have sy' := fireTimeoutStep_sy s o2 e0 sy
    have i1' := fireTimeoutStep_i1 (a, o1) w0 i1
    have F := fireTimeoutStep_wfd s o2 e0 sy.dbq sy.dbk sy.dbkt (hk1 e0.key)
    refine ih (fireTimeoutStep (s, o2) e0) (Engine.fireTimeoutStep (a, o1) w0) _ sy' i1' he' (a2.trans b2) ?_ ?_
    · intro q hq
      exact pt_step F (sy.dbkt.getKey q.1.key) (hk1 q.1.key).wu (hpt q (List.mem_cons_of_mem _ hq))
    · intro i hi
      obtain ⟨hi1, hi2⟩ := List.mem_filter.mp hi
      obtain ⟨q, hq, eq⟩ := hS i hi1
      rcases List.mem_cons.mp hq with e | e
      · exfalso
        rw [e] at eq
        simp only [bne_iff_ne, ne_eq] at hi2
        exact hi2 eq.symm
      · exact ⟨q, e, eq⟩

end Slock.SimTick
