import Slock.Proofs.EngineSimTickPend
/-! Clock-tick simulation (`sim_tick`): the sorted lists of due wheel entries of the two models at the start of a sweep. The record-level
list (`tEntries` / `eEntries`: all records with a matching wheel entry, tombstoned ones included, in the order of the key table and the
record lists) restricted to the live ones and mapped to their stage-1 views IS stage 1's list (`slotWaiters` … : the live requests /
holds in the order of stage 1's key table and queues), because both are sorted by pairwise distinct sequence numbers. -/
namespace Slock.SimTick
open Slock Slock.Sim Slock.Engine2
open Slock.Engine (has sortBySeq)

/-- the unsorted list of wheel entries satisfying `p` -/
def entOf (sel : Rec → Option Engine.Sched) (p : Engine.Sched → Bool) (key : Nat) (r : Rec) : Option Ent :=
  match sel r with
  | some sc => if p sc then some ⟨key, r.rid, sc.seq⟩ else none
  | none => none

def rawE (sel : Rec → Option Engine.Sched) (s : DB) (p : Engine.Sched → Bool) : List Ent :=
  s.keys.flatMap (fun k => k.recs.filterMap (entOf sel p k.key))

theorem entOf_some {sel : Rec → Option Engine.Sched} {p : Engine.Sched → Bool} {key : Nat} {r : Rec} {e : Ent} (h : entOf sel p key r = some e) :
    ∃ sc, sel r = some sc ∧ p sc = true ∧ e = ⟨key, r.rid, sc.seq⟩ := by
  unfold entOf at h
  cases hs : sel r with
  | none => simp [hs] at h
  | some sc =>
    simp only [hs] at h
    split at h
    · rename_i hp; injection h with h; exact ⟨sc, rfl, hp, h.symm⟩
    · simp at h

theorem tEntries_eq (s : DB) (p : Engine.Sched → Bool) : tEntries s p = sortBySeq (·.seq) (rawE (·.tSched) s p) := rfl
theorem eEntries_eq (s : DB) (p : Engine.Sched → Bool) : eEntries s p = sortBySeq (·.seq) (rawE (·.eSched) s p) := rfl

theorem getKey2_of_mem {s : DB} (hn : (s.keys.map (·.key)).Nodup) {k : Key} (hm : k ∈ s.keys) : s.getKey k.key = k := by
  unfold DB.getKey DB.findKey
  have : s.keys.find? (·.key == k.key) = some k := by
    generalize s.keys = l at hn hm
    induction l with
    | nil => simp at hm
    | cons a as ih =>
      simp only [List.map_cons, List.nodup_cons] at hn
      rcases List.mem_cons.mp hm with e | e
      · subst e; simp [List.find?]
      · have hne : (a.key == k.key) = false := by
          have : a.key ≠ k.key := fun e' => hn.1 (by rw [e']; exact List.mem_map.mpr ⟨k, e, rfl⟩)
          simpa using this
        simp only [List.find?, hne]
        exact ih hn.2 e
  rw [this]; rfl

theorem mem_rawE {sel : Rec → Option Engine.Sched} {s : DB} (hd : DBI s) (p : Engine.Sched → Bool) (e : Ent) :
    e ∈ rawE sel s p ↔ ∃ sc, (s.getKey e.key).hasRec e.rid ∧ sel ((s.getKey e.key).getR e.rid) = some sc ∧ p sc = true ∧ e.seq = sc.seq := by
  unfold rawE
  rw [List.mem_flatMap]
  constructor
  · rintro ⟨k, hk, he⟩
    rw [List.mem_filterMap] at he
    obtain ⟨r, hr, hf⟩ := he
    have hgk := getKey2_of_mem hd.kn hk
    have hnd := (hd.ks k hk).rc.nodup
    obtain ⟨sc, hs, hp, he⟩ := entOf_some hf
    subst he
    simp only []
    rw [hgk, mem_eq_getR hnd hr]
    exact ⟨sc, ⟨r, hr, rfl⟩, hs, hp, rfl⟩
  · rintro ⟨sc, hh, hs, hp, hq⟩
    have hk : s.hasKey e.key = true := by
      cases hk : s.hasKey e.key with
      | true => rfl
      | false =>
        rw [getKey_of_not_hasKey s e.key hk] at hh
        obtain ⟨r, hr, _⟩ := hh
        simp [newKey] at hr
    refine ⟨s.getKey e.key, getKey_mem s e.key hk, ?_⟩
    rw [List.mem_filterMap]
    refine ⟨(s.getKey e.key).getR e.rid, getR_mem hh, ?_⟩
    unfold entOf
    simp only [hs, hp, if_true, getKey_key, getR_rid]
    cases e
    simp only [] at hq
    rw [hq]

theorem rawE_nodup {sel : Rec → Option Engine.Sched} {s : DB} (hd : DBI s) (p : Engine.Sched → Bool) : ((rawE sel s p).map eid).Nodup := by
  unfold rawE
  rw [List.Nodup, List.pairwise_map, List.pairwise_flatMap]
  refine ⟨?_, ?_⟩
  · intro k hk
    have hnd := (hd.ks k hk).rc.nodup
    -- distinct records give distinct entries
    have : ∀ (l : List Rec), (l.map (·.rid)).Nodup → (l.filterMap (entOf sel p k.key)).Pairwise (fun a b => eid a ≠ eid b) := by
      intro l
      induction l with
      | nil => intro _; simp
      | cons r rs ih =>
        intro hn
        simp only [List.map_cons, List.nodup_cons] at hn
        cases hfr : entOf sel p k.key r with
        | none => rw [List.filterMap_cons_none hfr]; exact ih hn.2
        | some b =>
          rw [List.filterMap_cons_some hfr, List.pairwise_cons]
          refine ⟨?_, ih hn.2⟩
          obtain ⟨sc, _, _, hb⟩ := entOf_some hfr
          intro e' he' heq
          rw [List.mem_filterMap] at he'
          obtain ⟨r', hr', hf'⟩ := he'
          obtain ⟨sc', _, _, hb'⟩ := entOf_some hf'
          rw [hb, hb'] at heq
          unfold eid at heq
          simp only [Prod.mk.injEq, true_and] at heq
          exact hn.1 (heq ▸ List.mem_map.mpr ⟨r', hr', rfl⟩)
    exact this k.recs hnd
  · have hkn : s.keys.Pairwise (fun k k' => k.key ≠ k'.key) := List.pairwise_map.mp hd.kn
    refine (List.Pairwise.and_mem.mp hkn).imp ?_
    intro k k' ⟨hm, hm', hne⟩ e he e' he' heq
    rw [List.mem_filterMap] at he he'
    obtain ⟨r, _, hf⟩ := he
    obtain ⟨r', _, hf'⟩ := he'
    obtain ⟨_, _, _, hb⟩ := entOf_some hf
    obtain ⟨_, _, _, hb'⟩ := entOf_some hf'
    rw [hb, hb'] at heq
    unfold eid at heq
    simp only [Prod.mk.injEq] at heq
    exact hne heq.1

theorem entries_nodup {sel : Rec → Option Engine.Sched} {s : DB} (hd : DBI s) (p : Engine.Sched → Bool) :
    ((sortBySeq (·.seq) (rawE sel s p)).map eid).Nodup :=
  ((perm_sortBySeq (·.seq) (rawE sel s p)).map eid).nodup_iff.mpr (rawE_nodup hd p)

/-- an entry of the slot list and an entry of the long-table list belong to different records -/
theorem entries_disjoint {sel : Rec → Option Engine.Sched} {s : DB} (hd : DBI s) (p q : Engine.Sched → Bool) (hpq : ∀ sc, p sc = true → q sc = true → False)
    {e e' : Ent} (he : e ∈ sortBySeq (·.seq) (rawE sel s p)) (he' : e' ∈ sortBySeq (·.seq) (rawE sel s q)) : eid e ≠ eid e' := by
  rw [mem_sortBySeq, mem_rawE hd] at he he'
  obtain ⟨sc, _, hs, hp, _⟩ := he
  obtain ⟨sc', _, hs', hq, _⟩ := he'
  intro heq
  unfold eid at heq
  simp only [Prod.mk.injEq] at heq
  rw [heq.1, heq.2, hs'] at hs
  injection hs with hs
  subst hs
  exact hpq _ hp hq

end Slock.SimTick
