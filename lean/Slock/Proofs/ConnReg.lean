import Slock.Proofs.ConnThm
/-! The ghost field `Conn.reg` is exactly the list of will registrations the server accepted for that connection
(the `will c tok _` events it answered `ok`), in order. -/
namespace Slock.Conn

/-- the registration a single event adds for connection `c` -/
def regDelta (s : Server) (e : Event) (c : Nat) : List Nat :=
  match e with
  | .will c' tok _ _ => if c' = c ∧ (step s e).2 = .ok then [tok] else []
  | _ => []

/-- the will registrations of connection `c` the server accepted during `evs` (starting in `s`), in order -/
def registered : Server → List Event → Nat → List Nat
  | _, [], _ => []
  | s, e :: es, c => regDelta s e c ++ registered (step s e).1 es c

def regOpt (l : List Conn) (c : Nat) : List Nat := ((l[c]?).map (·.reg)).getD []

theorem regOpt_set {l : List Conn} {j : Nat} {x : Conn} (hx : l[j]? = some x) (x' : Conn) (h : x'.reg = x.reg) (c : Nat) :
    regOpt (l.set j x') c = regOpt l c := by
  unfold regOpt
  by_cases e : c = j
  · subst e; rw [get_set_self hx, hx]; simp [h]
  · rw [get_set_ne e]

theorem regOpt_unadopt (l : List Conn) (k c : Nat) : regOpt (l.map (unadopt k)) c = regOpt l c := by
  unfold regOpt
  rw [List.getElem?_map]
  cases l[c]? with
  | none => rfl
  | some y => simp [unadopt_reg]

theorem regOpt_doClose (s : Server) (k : Nat) (x : Conn) (hx : s.conns[k]? = some x) (c : Nat) :
    regOpt (doClose s k x).1.conns c = regOpt s.conns c := by
  have hm : (s.conns.map (unadopt k))[k]? = some (unadopt k x) := by rw [List.getElem?_map, hx]; rfl
  have h1 : regOpt ((s.conns.map (unadopt k)).set k (closing x)) c = regOpt s.conns c := by
    rw [regOpt_set hm (closing x) (by rw [unadopt_reg]; rfl), regOpt_unadopt]
  cases hf : (drainK (closeState s k x) k x).2 with
  | none =>
    rw [doClose_none s k x hf]
    dsimp only
    refine Eq.trans (regOpt_set (closed1_get_self hx) _ ?_ c) h1
    rfl
  | some f =>
    rw [doClose_some s k x f hf]
    exact h1

theorem regOpt_closeOne (s : Server) (k c : Nat) : regOpt (closeOne s k).1.conns c = regOpt s.conns c := by
  cases hx : s.conns[k]? with
  | none => rw [closeOne_none hx]
  | some x =>
    cases hc : x.closed with
    | true => rw [closeOne_noop hx hc]
    | false =>
      by_cases ha : x.awaiting = 0
      · rw [closeOne_do hx hc ha]; exact regOpt_doClose s k x hx c
      · rw [closeOne_defer hx hc ha]; (refine regOpt_set hx _ ?_ c; rfl)

theorem regOpt_stepClose (s : Server) (k c : Nat) : regOpt (stepClose s k).1.conns c = regOpt s.conns c := by
  refine stepClose_ind (fun t => regOpt t.conns c = regOpt s.conns c) s k rfl ?_ ?_
  · intro t j h; rw [regOpt_closeOne, h]
  · intro t j x h hx
    refine Eq.trans (regOpt_set hx _ ?_ c) h
    rfl

theorem regOpt_route (s : Server) (tok c : Nat) : regOpt (route s tok).1.conns c = regOpt s.conns c := by
  unfold route
  cases aget s.owner tok with
  | none => rfl
  | some o =>
    simp only []
    cases hx : s.conns[o]? with
    | none => rfl
    | some x =>
      simp only []
      cases x.target with
      | self => rfl
      | conn d => rfl
      | default =>
        simp only []
        split
        · rfl
        · cases aget s.clients x.cid with
          | none => rfl
          | some d =>
            simp only []
            split
            · (refine regOpt_set hx _ ?_ c; rfl)
            · rfl

theorem regOpt_settle (s : Server) (dst : Dest) (c : Nat) : regOpt (settle s dst).1.conns c = regOpt s.conns c := by
  cases dst with
  | to d =>
    simp only [settle]
    cases hd : s.conns[d]? with
    | none => rfl
    | some y =>
      simp only []
      split
      · (refine regOpt_set hd _ ?_ c; rfl)
      · rfl
  | lost d =>
    cases hd : s.conns[d]? with
    | none => simp only [settle, hd]
    | some y =>
      rw [settle_state s d y hd, regOpt_stepClose]
      (refine regOpt_set hd _ ?_ c; rfl)
  | dropped => rfl
  | filtered => rfl
  | loop => rfl

theorem regOpt_step (s : Server) (e : Event) (c : Nat) :
    regOpt (step s e).1.conns c = regOpt s.conns c ++ regDelta s e c := by
  cases hd : s.dead with
  | some f =>
    have h1 : step s e = (s, .ignored) := by unfold step; simp [hd]
    have : regDelta s e c = [] := by
      unfold regDelta
      cases e <;> simp [h1]
    rw [this, h1]; simp
  | none =>
    cases e with
    | «open» k =>
      have h1 : (step s (.open k)).1.conns = s.conns ++ [{ kind := k }] := by unfold step; simp [hd]
      rw [h1]; simp only [regDelta, List.append_nil]
      unfold regOpt
      rw [List.getElem?_append]
      split
      · rfl
      · rename_i hlt
        have hn : s.conns[c]? = none := List.getElem?_eq_none (by omega)
        rw [hn]
        cases hh : ([({ kind := k } : Conn)])[c - s.conns.length]? with
        | none => rfl
        | some y =>
          have : c - s.conns.length = 0 := by
            by_cases e0 : c - s.conns.length = 0
            · exact e0
            · have : ([({ kind := k } : Conn)])[c - s.conns.length]? = none := List.getElem?_eq_none (by simp; omega)
              rw [this] at hh; cases hh
          rw [this] at hh; simp at hh; subst hh; rfl
    | init k cid =>
      have h1 : (step s (.init k cid)).1 = (stepInit s k cid).1 := by unfold step; simp [hd]
      rw [h1]; simp only [regDelta, List.append_nil]
      unfold stepInit
      cases hx : s.conns[k]? with
      | none => rfl
      | some x =>
        simp only []
        split
        · rfl
        · (refine regOpt_set hx _ ?_ c; rfl)
    | will k tok imm sf =>
      have h1 : step s (.will k tok imm sf) = stepWill s k tok imm sf := by unfold step; simp [hd]
      unfold regDelta
      rw [h1]
      unfold stepWill
      cases hx : s.conns[k]? with
      | none => simp
      | some x =>
        simp only []
        split
        · simp
        · simp only [and_true]
          unfold regOpt
          by_cases e : k = c
          · subst e
            rw [get_set_self hx, hx]; simp
          · have e' : c ≠ k := fun h => e h.symm
            rw [get_set_ne e']; simp [e]
    | request k tok =>
      have h1 : (step s (.request k tok)).1 = (stepRequest s k tok).1 := by unfold step; simp [hd]
      rw [h1]; simp only [regDelta, List.append_nil]
      unfold stepRequest
      cases hx : s.conns[k]? with
      | none => rfl
      | some x =>
        simp only []
        split
        · rfl
        · cases x.kind <;> simp only []
          · (refine regOpt_set hx _ ?_ c; rfl)
    | deliver tok =>
      have h1 : (step s (.deliver tok)).1 = (stepDeliver s tok).1 := by unfold step; simp [hd]
      rw [h1]; simp only [regDelta, List.append_nil]
      unfold stepDeliver
      rw [regOpt_settle, regOpt_route]
    | close k cause =>
      have h1 : (step s (.close k cause)).1 = (stepClose s k).1 := by unfold step; simp [hd]
      rw [h1]; simp only [regDelta, List.append_nil]
      exact regOpt_stepClose s k c
    | admin k =>
      have h1 : (step s (.admin k)).1 = (stepAdmin s k).1 := by unfold step; simp [hd]
      rw [h1]; simp only [regDelta, List.append_nil]
      unfold stepAdmin
      cases hx : s.conns[k]? with
      | none => rfl
      | some x =>
        simp only []
        split
        · rfl
        · have e1 : regOpt (s.conns.set k { x with nested := some s.conns.length }) c = regOpt s.conns c := by
            refine regOpt_set hx _ ?_ c; rfl
          rw [← e1]
          unfold regOpt
          rw [List.getElem?_append]
          split
          · rfl
          · rename_i hlt
            have hl : (s.conns.set k { x with nested := some s.conns.length }).length ≤ c := by omega
            rw [List.getElem?_eq_none hl]
            cases hh : ([({ kind := .text, outer := some k } : Conn)])[c - (s.conns.set k { x with nested := some s.conns.length }).length]? with
            | none => rfl
            | some y =>
              have : c - (s.conns.set k { x with nested := some s.conns.length }).length = 0 := by
                by_cases e0 : c - (s.conns.set k { x with nested := some s.conns.length }).length = 0
                · exact e0
                · have : ([({ kind := .text, outer := some k } : Conn)])[c - (s.conns.set k { x with nested := some s.conns.length }).length]? = none :=
                    List.getElem?_eq_none (by simp only [List.length_cons, List.length_nil]; omega)
                  rw [this] at hh; cases hh
              rw [this] at hh; simp at hh; subst hh; rfl

theorem regOpt_fold (evs : List Event) : ∀ (s : Server) (c : Nat),
    regOpt (evs.foldl (fun s e => (step s e).1) s).conns c = regOpt s.conns c ++ registered s evs c := by
  induction evs with
  | nil => intro s c; simp [registered]
  | cons e es ih =>
    intro s c
    simp only [List.foldl_cons, registered]
    rw [ih, regOpt_step, List.append_assoc]

/-- `reg` = the accepted registrations, in order -/
theorem reg_eq_registered (evs : List Event) (c : Nat) (x : Conn) (hx : (run evs).conns[c]? = some x) :
    x.reg = registered {} evs c := by
  have := regOpt_fold evs {} c
  unfold regOpt at this
  have h0 : (({} : Server).conns[c]?) = none := by simp
  rw [h0] at this
  unfold run at hx
  rw [hx] at this
  simpa using this

end Slock.Conn
