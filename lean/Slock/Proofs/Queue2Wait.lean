import Slock.Proofs.Queue2Fast
/-!
# LockManagerWaitQueue

FIFO mode (`fastIndex ≥ 0`): content = fast part ++ ring.  Priority mode (`fastIndex = -1`): content =
the priority ring.  `RePushPriorityRingQueue` moves FIFO content into stable priority order.
-/
namespace Slock.Queue2

def WRing.abs : WRing → List Slot
  | .nil => []
  | .ring r => r.abs
  | .prio p => p.abs

def WRing.Inv : WRing → Prop
  | .nil => True
  | .ring r => r.Inv
  | .prio p => p.Inv

def WaitQ.fastPart (q : WaitQ) : List Slot :=
  match q.fastActive with
  | some f => f.data.drop q.fastIndex.toNat
  | none => []

def WaitQ.abs (q : WaitQ) : List Slot := q.fastPart ++ q.ring.abs

def WaitQ.Inv (q : WaitQ) : Prop :=
  q.ring.Inv ∧
  (∀ f, q.fast = some f → f.data.length ≤ f.cap ∧ q.fastIndex ≤ f.data.length) ∧
  (q.fast = none → q.fastIndex ≤ 0) ∧
  -1 ≤ q.fastIndex ∧
  (q.fastIndex < 0 ↔ ∃ p, q.ring = .prio p)

theorem WaitQ.new_inv (b : Bool) : (WaitQ.new b).Inv := by
  cases b
  · simp [WaitQ.new, WaitQ.Inv, WRing.Inv]
  · simp only [WaitQ.new, WaitQ.Inv, WRing.Inv, if_true]
    exact ⟨PRing.new_inv 16, by simp, by simp, by simp, by simp⟩

theorem WaitQ.new_abs (b : Bool) : (WaitQ.new b).abs = [] := by
  cases b <;> simp [WaitQ.new, WaitQ.abs, WaitQ.fastPart, WaitQ.fastActive, WRing.abs, PRing.new_abs]

theorem WaitQ.fastPart_neg (q : WaitQ) (h : q.fastIndex < 0) : q.fastPart = [] := by
  unfold WaitQ.fastPart WaitQ.fastActive
  cases q.fast with
  | none => rfl
  | some f =>
    have : ¬ (q.fastIndex < (f.data.length : Int) ∧ q.fastIndex ≥ 0) := by omega
    simp only [this, if_false]

theorem WaitQ.fastPart_none (q : WaitQ) (h : q.fast = none) : q.fastPart = [] := by
  simp [WaitQ.fastPart, WaitQ.fastActive, h]

theorem WaitQ.fastPart_some (q : WaitQ) (f : FastQ) (hf : q.fast = some f) (n : Nat)
    (hn : q.fastIndex = n) : q.fastPart = f.data.drop n := by
  unfold WaitQ.fastPart WaitQ.fastActive
  simp only [hf, hn]
  by_cases h : ((n : Int) < (f.data.length : Int) ∧ (n : Int) ≥ 0)
  · simp only [h, and_self, if_true, Int.toNat_natCast]
  · simp only [h, if_false]
    symm; apply List.drop_eq_nil_of_le; omega

theorem WaitQ.fastPart_mk (f : FastQ) (n : Nat) (i : Int) (hi : i = n) (ring : WRing) :
    (WaitQ.mk (some f) i ring).fastPart = f.data.drop n :=
  WaitQ.fastPart_some _ f rfl n hi

theorem WaitQ.fastActive_some (q : WaitQ) (f : FastQ) (hf : q.fast = some f) (n : Nat)
    (hn : q.fastIndex = n) (hlt : n < f.data.length) : q.fastActive = some f := by
  unfold WaitQ.fastActive
  simp only [hf, hn]
  have : ((n : Int) < (f.data.length : Int) ∧ (n : Int) ≥ 0) := by omega
  simp only [this, and_self, if_true]

theorem WaitQ.fastActive_none (q : WaitQ)
    (h : ∀ f, q.fast = some f → ¬ (q.fastIndex < (f.data.length : Int) ∧ q.fastIndex ≥ 0)) :
    q.fastActive = none := by
  unfold WaitQ.fastActive
  cases hf : q.fast with
  | none => rfl
  | some f => simp only [h f hf, if_false]

theorem WaitQ.inv_mk (fast : Option FastQ) (i : Int) (ring : WRing) (h1 : ring.Inv)
    (h2 : ∀ f, fast = some f → f.data.length ≤ f.cap ∧ i ≤ f.data.length)
    (h3 : fast = none → i ≤ 0) (h4 : -1 ≤ i) (h5 : i < 0 ↔ ∃ p, ring = .prio p) :
    (WaitQ.mk fast i ring).Inv := ⟨h1, h2, h3, h4, h5⟩

theorem WaitQ.inv_fifo_some (f : FastQ) (n : Nat) (ring : WRing) (h1 : ring.Inv)
    (h2 : f.data.length ≤ f.cap) (h3 : n ≤ f.data.length) (h5 : ∀ p, ring ≠ .prio p) :
    (WaitQ.mk (some f) n ring).Inv := by
  refine ⟨h1, ?_, by simp, ?_, ?_⟩
  · intro f' hf'; simp at hf'; subst hf'
    refine ⟨h2, ?_⟩
    show (n : Int) ≤ _
    omega
  · show (-1 : Int) ≤ (n : Int)
    omega
  · constructor
    · intro h
      have h' : (n : Int) < 0 := h
      omega
    · rintro ⟨p, hp⟩; exact absurd hp (h5 p)

theorem WaitQ.inv_fifo_zero (f : FastQ) (ring : WRing) (h1 : ring.Inv)
    (h2 : f.data.length ≤ f.cap) (h5 : ∀ p, ring ≠ .prio p) :
    (WaitQ.mk (some f) 0 ring).Inv := WaitQ.inv_fifo_some f 0 ring h1 h2 (by omega) h5

theorem WaitQ.fastPart_mk0 (f : FastQ) (ring : WRing) :
    (WaitQ.mk (some f) 0 ring).fastPart = f.data := by
  have := WaitQ.fastPart_mk f 0 0 rfl ring
  simpa using this

/-- Push in FIFO mode. -/
theorem WaitQ.push_fifo_refines (grow : Nat → Nat) (hg : GrowOK grow) (q : WaitQ) (e : Elem)
    (h : q.Inv) (hm : 0 ≤ q.fastIndex) :
    ∃ q' o, q.push grow (some e) = .ok (q', o) ∧ q'.Inv ∧ 0 ≤ q'.fastIndex ∧
      PushSpec waitLive q.abs q'.abs (some e) o.dropped := by
  obtain ⟨hr, hfast, hnone, hge, hmode⟩ := h
  obtain ⟨n, hn⟩ := Int.eq_ofNat_of_zero_le hm
  unfold WaitQ.push
  cases hring : q.ring with
  | prio p => exact absurd (hmode.mpr ⟨p, hring⟩) (by omega)
  | ring r =>
    rw [hring] at hr
    obtain ⟨r', hr1, hr2, hr3⟩ := Ring.push_refines grow hg r (some e) hr
    refine ⟨{ q with ring := .ring r' }, {}, ?_, ?_, hm, ?_⟩
    · simp [WRing.push, hr1]
    · refine ⟨hr2, hfast, hnone, hge, ?_⟩
      simp only [reduceCtorEq, exists_false, iff_false]; omega
    · left
      refine ⟨?_, rfl⟩
      simp only [WaitQ.abs, hring, WRing.abs, hr3, ← List.append_assoc]
      rfl
  | nil =>
    simp only
    cases hf : q.fast with
    | none =>
      have h0 : n = 0 := by have := hnone hf; omega
      subst h0
      refine ⟨_, _, rfl, ?_, hm, ?_⟩
      · rw [hn]; exact WaitQ.inv_fifo_some _ 0 _ trivial (by simp) (by simp) (by simp)
      · left
        refine ⟨?_, rfl⟩
        simp only [WaitQ.abs, hring, WRing.abs, List.append_nil]
        rw [WaitQ.fastPart_mk _ 0 _ hn, WaitQ.fastPart_none q hf]
        rfl
    | some f =>
      obtain ⟨hcap, hidx⟩ := hfast f hf
      have hidx' : n ≤ f.data.length := by omega
      have habs : q.abs = f.data.drop n := by
        simp only [WaitQ.abs, hring, WRing.abs, List.append_nil]
        exact WaitQ.fastPart_some q f hf n hn
      simp only
      by_cases h1 : f.data.length < f.cap
      · rw [if_pos h1]
        refine ⟨_, _, rfl, ?_, hm, ?_⟩
        · rw [hn]; exact WaitQ.inv_fifo_some _ n _ trivial (by simp; omega) (by simp; omega) (by simp)
        · left
          refine ⟨?_, rfl⟩
          rw [habs]
          simp only [WaitQ.abs, WRing.abs, List.append_nil]
          rw [WaitQ.fastPart_mk _ n _ hn]
          exact List.drop_append_of_le_length hidx'
      · rw [if_neg h1]
        by_cases h2 : q.fastIndex ≥ (f.data.length : Int)
        · rw [if_pos h2]
          refine ⟨_, _, rfl, ?_, by simp, ?_⟩
          · apply WaitQ.inv_fifo_zero _ WRing.nil trivial
            · simp only [goAppend_fst]
              exact goAppend_cap grow hg [] f.cap (some e) (by simp)
            · simp
          · left
            refine ⟨?_, rfl⟩
            rw [habs]
            simp only [WaitQ.abs, WRing.abs, List.append_nil]
            rw [WaitQ.fastPart_mk0]
            simp only [goAppend_fst]
            rw [List.drop_eq_nil_of_le (by omega)]
        · rw [if_neg h2]
          have h2' : ¬ q.fastIndex < 0 := by omega
          rw [if_neg h2']
          rw [compact_fst, compact_snd]
          have htn : q.fastIndex.toNat = n := by omega
          rw [htn]
          by_cases h3 : ((f.data.drop n).filter (liveSlot waitLive)).length < f.data.length
          · rw [if_pos h3]
            refine ⟨_, _, rfl, ?_, by simp, ?_⟩
            · apply WaitQ.inv_fifo_zero _ WRing.nil trivial
              · simp only [goAppend_fst]
                exact goAppend_cap grow hg _ f.cap (some e) (by omega)
              · simp
            · right
              refine ⟨?_, by rw [habs]⟩
              rw [habs]
              simp only [WaitQ.abs, WRing.abs, List.append_nil]
              rw [WaitQ.fastPart_mk0]
              simp only [goAppend_fst]
          · rw [if_neg h3]
            obtain ⟨c1, c2, c3⟩ := compact_full waitLive f.data n h3
            by_cases h4 : f.cap ≤ 128
            · rw [if_pos h4]
              refine ⟨_, _, rfl, ?_, hm, ?_⟩
              · rw [hn]
                apply WaitQ.inv_fifo_some _ n WRing.nil trivial
                · simp only [goAppend_fst]
                  exact goAppend_cap grow hg _ f.cap (some e) hcap
                · simp only [goAppend_fst]; simp; omega
                · simp
              · left
                refine ⟨?_, by simp [c3]⟩
                rw [habs]
                simp only [WaitQ.abs, WRing.abs, List.append_nil]
                rw [WaitQ.fastPart_mk _ n _ hn]
                simp only [goAppend_fst]
                exact List.drop_append_of_le_length hidx'
            · rw [if_neg h4]
              obtain ⟨r', hr1, hr2, hr3⟩ :=
                Ring.push_refines grow hg (Ring.new 64) (some e) (Ring.new_inv 64)
              rw [hr1]
              refine ⟨_, _, rfl, ?_, hm, ?_⟩
              · rw [hn]
                exact WaitQ.inv_fifo_some _ n _ hr2 hcap hidx' (by simp)
              · left
                refine ⟨?_, by simp [c3]⟩
                rw [habs]
                simp only [WaitQ.abs, WRing.abs, hr3, Ring.new_abs, List.nil_append]
                rw [WaitQ.fastPart_mk _ n _ hn]

/-- Push in priority mode: the stable priority insert, nothing is dropped. -/
theorem WaitQ.push_prio_refines (grow : Nat → Nat) (hg : GrowOK grow) (q : WaitQ) (e : Elem)
    (h : q.Inv) (hm : q.fastIndex < 0) :
    ∃ q', q.push grow (some e) = .ok (q', {}) ∧ q'.Inv ∧ q'.fastIndex < 0 ∧
      q'.abs = specPushPrio (some e) q.abs := by
  obtain ⟨hr, hfast, hnone, hge, hmode⟩ := h
  obtain ⟨p, hp⟩ := hmode.mp hm
  rw [hp] at hr
  obtain ⟨p', h1, h2, h3, _⟩ := PRing.push_refines grow hg p e hr
  refine ⟨{ q with ring := .prio p' }, ?_, ?_, hm, ?_⟩
  · simp [WaitQ.push, hp, WRing.push, h1]
  · refine ⟨h2, hfast, hnone, hge, ?_⟩
    constructor
    · intro _; exact ⟨p', rfl⟩
    · intro _; exact hm
  · have e1 : q.fastPart = [] := WaitQ.fastPart_neg q hm
    have e2 : ({ q with ring := WRing.prio p' } : WaitQ).fastPart = [] := WaitQ.fastPart_neg _ hm
    simp only [WaitQ.abs, e1, e2, List.nil_append, WRing.abs, hp, h3]

theorem WRing.pop_refines (w : WRing) (h : w.Inv) :
    w.pop.1.Inv ∧ w.pop.1.abs = w.abs.tail ∧ w.pop.2 = w.abs.headD none ∧
      (∀ p, w.pop.1 = .prio p → ∃ p0, w = .prio p0) ∧ (∀ p0, w = .prio p0 → ∃ p, w.pop.1 = .prio p) := by
  cases w with
  | nil => simp [WRing.pop, WRing.Inv, WRing.abs]
  | ring r =>
    obtain ⟨a, b, c⟩ := Ring.pop_refines r h
    exact ⟨a, b, c, by simp [WRing.pop], by simp⟩
  | prio p =>
    obtain ⟨a, b, c⟩ := PRing.pop_refines p h
    exact ⟨a, b, c, by simp [WRing.pop], by simp [WRing.pop]⟩

/-- Pop (both modes): removes and returns the first element of the content. -/
theorem WaitQ.pop_refines (q : WaitQ) (h : q.Inv) :
    q.pop.1.Inv ∧ q.pop.1.abs = q.abs.tail ∧ q.pop.2 = q.abs.headD none ∧
      (q.pop.1.fastIndex < 0 ↔ q.fastIndex < 0) := by
  obtain ⟨hr, hfast, hnone, hge, hmode⟩ := h
  unfold WaitQ.pop
  cases hfa : q.fastActive with
  | some f =>
    have hf : q.fast = some f ∧ q.fastIndex < (f.data.length : Int) ∧ q.fastIndex ≥ 0 := by
      unfold WaitQ.fastActive at hfa
      cases hq : q.fast with
      | none => simp [hq] at hfa
      | some f' =>
        simp only [hq] at hfa
        split at hfa
        · rename_i hc; simp at hfa; subst hfa; exact ⟨rfl, hc⟩
        · simp at hfa
    obtain ⟨hf, hlt, h0⟩ := hf
    obtain ⟨n, hn⟩ := Int.eq_ofNat_of_zero_le h0
    obtain ⟨hcap, _⟩ := hfast f hf
    have hlt' : n < f.data.length := by omega
    have hnp : ∀ p, q.ring ≠ .prio p := fun p hp => by have := hmode.mpr ⟨p, hp⟩; omega
    have habs : q.fastPart = f.data.drop n := WaitQ.fastPart_some q f hf n hn
    have htn : q.fastIndex.toNat = n := by omega
    simp only [htn]
    have hidx : q.fastIndex + 1 = ((n + 1 : Nat) : Int) := by omega
    rw [hidx]
    refine ⟨?_, ?_, ?_, ?_⟩
    · exact WaitQ.inv_fifo_some _ (n + 1) _ hr (by simp; omega) (by simp; omega) hnp
    · simp only [WaitQ.abs, habs]
      rw [WaitQ.fastPart_mk _ (n + 1) _ rfl]
      simp only
      rw [tail_append_drop _ _ _ hlt', List.drop_set_of_lt (by omega)]
    · simp only [WaitQ.abs, habs]
      rw [headD_append_drop _ _ _ hlt']
    · show ((n + 1 : Nat) : Int) < 0 ↔ q.fastIndex < 0
      omega
  | none =>
    obtain ⟨a, b, c, d1, d2⟩ := WRing.pop_refines q.ring hr
    have e1 : q.fastPart = [] := by simp [WaitQ.fastPart, hfa]
    have hfa' : ({ q with ring := q.ring.pop.1 } : WaitQ).fastActive = none := hfa
    have e2 : ({ q with ring := q.ring.pop.1 } : WaitQ).fastPart = [] := by
      simp [WaitQ.fastPart, hfa']
    refine ⟨⟨a, hfast, hnone, hge, ?_⟩, ?_, ?_, Iff.rfl⟩
    · constructor
      · intro hlt; obtain ⟨p0, hp0⟩ := hmode.mp hlt; exact d2 p0 hp0
      · rintro ⟨p, hp⟩; obtain ⟨p0, hp0⟩ := d1 p hp; exact hmode.mpr ⟨p0, hp0⟩
    · simp only [WaitQ.abs, e1, e2, List.nil_append, b]
    · simp only [WaitQ.abs, e1, List.nil_append, c]

theorem WRing.head_refines (w : WRing) (h : w.Inv) : w.head = w.abs.headD none := by
  cases w with
  | nil => rfl
  | ring r => exact Ring.head_refines r
  | prio p => exact PRing.head_refines p h

theorem WaitQ.fastActive_spec (q : WaitQ) (f : FastQ) (hfa : q.fastActive = some f) :
    q.fast = some f ∧ q.fastIndex < (f.data.length : Int) ∧ q.fastIndex ≥ 0 := by
  unfold WaitQ.fastActive at hfa
  cases hq : q.fast with
  | none => simp [hq] at hfa
  | some f' =>
    simp only [hq] at hfa
    split at hfa
    · rename_i hc; simp at hfa; subst hfa; exact ⟨rfl, hc⟩
    · simp at hfa

theorem WaitQ.head_refines (q : WaitQ) (h : q.Inv) : q.head = q.abs.headD none := by
  unfold WaitQ.head
  cases hfa : q.fastActive with
  | some f =>
    obtain ⟨hf, hlt, h0⟩ := WaitQ.fastActive_spec q f hfa
    obtain ⟨n, hn⟩ := Int.eq_ofNat_of_zero_le h0
    have htn : q.fastIndex.toNat = n := by omega
    simp only [htn, WaitQ.abs, WaitQ.fastPart_some q f hf n hn]
    rw [headD_append_drop _ _ _ (by omega)]
  | none =>
    have e1 : q.fastPart = [] := by simp [WaitQ.fastPart, hfa]
    simp only [WaitQ.abs, e1, List.nil_append]
    exact WRing.head_refines q.ring h.1

theorem WRing.len_refines (w : WRing) (h : w.Inv) : w.len = (w.abs.length : Int) := by
  cases w with
  | nil => rfl
  | ring r => exact Ring.len_refines r h
  | prio p => exact PRing.len_refines p h

theorem WaitQ.len_refines (q : WaitQ) (h : q.Inv) : q.len = (q.abs.length : Int) := by
  obtain ⟨hr, hfast, hnone, hge, hmode⟩ := h
  have hl := WRing.len_refines q.ring hr
  unfold WaitQ.len
  cases hf : q.fast with
  | none => simp [WaitQ.abs, WaitQ.fastPart_none q hf, hl]
  | some f =>
    simp only
    by_cases hneg : q.fastIndex < 0
    · rw [if_pos hneg]; simp [WaitQ.abs, WaitQ.fastPart_neg q hneg, hl]
    · rw [if_neg hneg]
      obtain ⟨n, hn⟩ := Int.eq_ofNat_of_zero_le (by omega : 0 ≤ q.fastIndex)
      have := (hfast f hf).2
      simp only [WaitQ.abs, WaitQ.fastPart_some q f hf n hn, List.length_append, List.length_drop, hl]
      omega

theorem WaitQ.reset_refines (q : WaitQ) :
    q.reset.Inv ∧ q.reset.abs = [] ∧ q.reset.fastIndex = 0 := by
  unfold WaitQ.reset
  cases hf : q.fast with
  | none => simp [WaitQ.Inv, WRing.Inv, WaitQ.abs, WaitQ.fastPart, WaitQ.fastActive, WRing.abs]
  | some f =>
    simp only
    split
    · simp [WaitQ.Inv, WRing.Inv, WaitQ.abs, WaitQ.fastPart, WaitQ.fastActive, WRing.abs]
    · split
      · simp [WaitQ.Inv, WRing.Inv, WaitQ.abs, WaitQ.fastPart, WaitQ.fastActive, WRing.abs]
      · rename_i h1 h2
        have hd : f.data = [] := by
          cases hd : f.data with
          | nil => rfl
          | cons a t => simp [hd] at h2
        simp [WaitQ.Inv, WRing.Inv, WaitQ.abs, WaitQ.fastPart, WaitQ.fastActive, WRing.abs, hd]

theorem WRing.iterNodes_flatten (w : WRing) : w.iterNodes.flatten = w.abs := by
  cases w with
  | nil => rfl
  | ring r => exact Ring.iterNodes_flatten r
  | prio p => exact (PRing.iterNodes_refines p).1

/-- IterNodes: concatenated, the nodes are the content in order. -/
theorem WaitQ.iterNodes_refines (q : WaitQ) : q.iterNodes.flatten = q.abs := by
  unfold WaitQ.iterNodes WaitQ.abs WaitQ.fastPart
  cases q.fastActive <;> simp [WRing.iterNodes_flatten]

/-- MaxPriority in FIFO mode: the priority of the FIRST element (not the maximum); a nil first element
is a Go panic.  In priority mode: the priority of the first element = the maximum. -/
theorem WaitQ.maxPriority_refines (q : WaitQ) (h : q.Inv) :
    q.maxPriority = match q.abs with
      | [] => .ok 0
      | none :: _ => if q.fastIndex < 0 then .ok 0 else .panic
      | some e :: _ => .ok e.priority := by
  obtain ⟨hr, hfast, hnone, hge, hmode⟩ := h
  unfold WaitQ.maxPriority
  cases hfa : q.fastActive with
  | some f =>
    obtain ⟨hf, hlt, h0⟩ := WaitQ.fastActive_spec q f hfa
    obtain ⟨n, hn⟩ := Int.eq_ofNat_of_zero_le h0
    have htn : q.fastIndex.toNat = n := by omega
    have hlt' : n < f.data.length := by omega
    simp only [htn, WaitQ.abs, WaitQ.fastPart_some q f hf n hn]
    rw [← headD_drop]
    have hneg : ¬ q.fastIndex < 0 := by omega
    cases hd : f.data.drop n with
    | nil => have := List.drop_eq_nil_iff.mp hd; omega
    | cons a t => cases a <;> simp [hneg]
  | none =>
    have e1 : q.fastPart = [] := by simp [WaitQ.fastPart, hfa]
    simp only [WaitQ.abs, e1, List.nil_append]
    cases hw : q.ring with
    | nil => simp [WRing.maxPriority, WRing.abs]
    | ring r =>
      have hneg : ¬ q.fastIndex < 0 := fun hlt => by
        obtain ⟨p, hp⟩ := hmode.mp hlt; rw [hw] at hp; cases hp
      simp only [WRing.maxPriority, WRing.abs, Ring.maxPriority_refines r, hneg, if_false]
      rfl
    | prio p =>
      rw [hw] at hr
      have hneg : q.fastIndex < 0 := hmode.mpr ⟨p, hw⟩
      simp only [WRing.maxPriority, WRing.abs, PRing.maxPriority_refines p hr, hneg, if_true]
      cases hd : p.abs with
      | nil => rfl
      | cons a t => cases a <;> rfl

end Slock.Queue2
