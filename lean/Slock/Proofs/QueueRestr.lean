import Slock.Proofs.QueueIter
/-! C20: `Restructuring` of the segmented deque — the in-place compaction loop refines "drop the holes". -/
namespace Slock.Queue

/-- **Push without allocation** (room in the tail node, or the next node already exists): the exact frame. -/
theorem push_frame {q : Q} (h : QInv q) (x : Elem) (hroom : q.tqi + 1 < q.tqs ∨ q.tni + 1 ≤ q.nodeIndex) :
    ∃ q', push q x = .ok q' ∧ QInv q' ∧ shape q'.queues = shape q.queues ∧
      F q'.queues = (F q.queues).set (off q.queues q.tni + q.tqi) x ∧
      q'.hni = q.hni ∧ q'.hqi = q.hqi ∧ q'.nodeIndex = q.nodeIndex ∧
      off q'.queues q'.tni + q'.tqi = off q.queues q.tni + q.tqi + 1 ∧ q'.tni ≤ q.nodeIndex ∧
      q'.baseQueueSize = q.baseQueueSize := by
  obtain ⟨a, ha, hal⟩ := h.tailNode
  obtain ⟨hl, hle⟩ := getElem_of_getElem? ha
  have hi : q.tqi < a.length := by rw [hal]; exact h.tlt
  have hs := shape_set_cell q.queues q.tni q.tqi a x ha
  have hF := F_set_cell q.queues q.tni q.tqi a x ha hi
  have s2 := off_succ q.queues q.tni hl
  rw [hle] at s2
  simp only [nodeOf, hal] at s2
  unfold push
  rw [h.tq, writeRef_node x ha hi]
  simp only [Res.ok_bind]
  by_cases c : q.tqi + 1 ≥ q.tqs
  · have hfull : q.tqi + 1 = q.tqs := by have := h.tlt; omega
    have c2 : q.tni + 1 ≤ q.nodeIndex := by rcases hroom with h1 | h1 <;> omega
    obtain ⟨h1, h2, h3, h4, h5, h6, h7, h8, h9, h10, h11, h12, h13, h14, h15, h16, h17⟩ := h
    have c1' : ¬ (q.tni + 1 ≥ q.nodeSize) := by omega
    obtain ⟨n, a1, a2, a3, a4⟩ := h4 (q.tni + 1) c2
    obtain ⟨a', ha', hal'⟩ := shape_some (by rw [hs]; exact a1 :
      (shape (q.queues.set q.tni (some (a.set q.tqi x))))[q.tni + 1]? = some (some n))
    refine ⟨{ q with queues := q.queues.set q.tni (some (a.set q.tqi x)), tqi := 0, tni := q.tni + 1,
                     tailQueue := .node (q.tni + 1), tqs := n }, ?_, ?_, hs, hF, rfl, rfl, rfl, ?_, c2, rfl⟩
    · simp only [c, if_true, mallocQueue, c1', if_false, ha', Res.ok_bind, mkRef, size, a2, Res.pure_eq]
    · constructor <;> simp only [hs] <;> (try omega) <;> (try assumption)
    · show off (q.queues.set q.tni (some (a.set q.tqi x))) (q.tni + 1) + 0 = _
      rw [off_shape hs]; omega
  · have hq' := QInv_push_nocross h _ hs (by omega)
    refine ⟨_, by simp only [c, if_false, Res.pure_eq], hq', hs, hF, rfl, rfl, rfl, ?_, h.tle, rfl⟩
    show off (q.queues.set q.tni (some (a.set q.tqi x))) q.tni + (q.tqi + 1) = _
    rw [off_shape hs]; omega


/-! ### the compaction loop of Restructuring -/

theorem take_succ_filter {α : Type} (g : List α) (r : Nat) (p : α → Bool) (x : α) (h : g[r]? = some x) :
    (g.take (r + 1)).filter p = (g.take r).filter p ++ [x].filter p := by
  rw [List.take_succ, h]; simp

theorem drop_set_lt {α : Type} (l : List α) (i n : Nat) (v : α) (h : i < n) : (l.set i v).drop n = l.drop n := by
  apply List.ext_getElem?
  intro k
  simp only [List.getElem?_drop, List.getElem?_set]
  have : ¬ i = n + k := by omega
  simp [this]

theorem take_set_succ {α : Type} (l : List α) (i : Nat) (v : α) (h : i < l.length) :
    (l.set i v).take (i + 1) = l.take i ++ [v] := by
  have := G_push l 0 i v (Nat.zero_le _) h
  simpa using this

theorem getElem?_of_drop_eq {α : Type} {l1 l2 : List α} {r : Nat} (h : l1.drop r = l2.drop r) : l1[r]? = l2[r]? := by
  have := congrArg (fun l => l[0]?) h
  simpa [List.getElem?_drop] using this

/-- loop invariant of the compaction: `g0` / `L0` = flat view / node table when the loop started (cursors rewound),
`r` = global position of the next cell to read -/
structure RInv (g0 : Arr) (L0 : List (Option Arr)) (N B : Nat) (q : Q) (r : Nat) : Prop where
  inv : QInv q
  hn : q.hni = 0
  hq : q.hqi = 0
  shp : shape q.queues = shape L0
  ni : q.nodeIndex = N
  wr : off L0 q.tni + q.tqi ≤ r
  ab : (F q.queues).take (off L0 q.tni + q.tqi) = (g0.take r).filter Option.isSome
  rest : (F q.queues).drop r = g0.drop r
  bq : q.baseQueueSize = B

theorem restrRange_spec (g0 : Arr) (L0 : List (Option Arr)) (N B j len : Nat) (hj : j ≤ N)
    (hlen : (shape L0)[j]? = some (some len)) :
    ∀ n k q, RInv g0 L0 N B q (off L0 j + k) → k + n ≤ len → (j < N ∨ k + n < len) →
      ∃ q', restrRange j k n q = .ok q' ∧ RInv g0 L0 N B q' (off L0 j + k + n) := by
  intro n
  induction n with
  | zero => intro k q hr _ _; exact ⟨q, rfl, hr⟩
  | succ n ih =>
    intro k q hr hk hroom
    obtain ⟨hinv, hn, hq, shp, ni, wr, ab, rest, bq⟩ := hr
    obtain ⟨a, ha, hal⟩ := shape_some (by rw [shp]; exact hlen : (shape q.queues)[j]? = some (some len))
    have hkl : k < a.length := by omega
    have offe : ∀ i, off q.queues i = off L0 i := fun i => off_shape shp i
    have hcell := F_get_cell q.queues j k a ha hkl
    rw [offe] at hcell
    have hg0 : g0[off L0 j + k]? = some a[k] := by rw [← getElem?_of_drop_eq rest]; exact hcell
    have e1 : off L0 j + k + (n + 1) = off L0 j + (k + 1) + n := by omega
    unfold restrRange
    simp only [slot, ha, Res.ok_bind, List.getElem?_eq_getElem hkl]
    cases hc : a[k] with
    | none =>
      simp only []
      rw [e1]
      apply ih (k + 1) q _ (by omega) (by omega)
      refine ⟨hinv, hn, hq, shp, ni, by omega, ?_, ?_, bq⟩
      · rw [ab, show off L0 j + (k + 1) = off L0 j + k + 1 by omega, take_succ_filter _ _ _ _ hg0, hc]; simp
      · have := congrArg (List.drop 1) rest
        simpa [List.drop_drop, Nat.add_comm, Nat.add_assoc, Nat.add_left_comm] using this
    | some x =>
      simp only []
      -- the cell is emptied, then its content pushed at the write cursor
      have hs1 := shape_set_cell q.queues j k a none ha
      have hinv1 : QInv { q with queues := q.queues.set j (some (a.set k none)) } := QInv_setQueues hinv _ hs1
      have hF1 : F (q.queues.set j (some (a.set k none))) = (F q.queues).set (off L0 j + k) none := by
        rw [F_set_cell _ _ _ _ _ ha hkl, offe]
      -- room: the push does not allocate
      obtain ⟨at_, hat, hatl⟩ := hinv.tailNode
      obtain ⟨htl, hte⟩ := getElem_of_getElem? hat
      have st := off_succ q.queues q.tni htl
      rw [hte] at st
      simp only [nodeOf, hatl, offe] at st
      obtain ⟨hjl, hje⟩ := getElem_of_getElem? ha
      have sj := off_succ q.queues j hjl
      rw [hje] at sj
      simp only [nodeOf, hal, offe] at sj
      have tlt := hinv.tlt
      have tle := hinv.tle
      have room : q.tqi + 1 < q.tqs ∨ q.tni + 1 ≤ q.nodeIndex := by
        by_cases c : q.tqi + 1 < q.tqs
        · exact Or.inl c
        · right
          by_cases ct : q.tni ≤ j
          · by_cases ce : q.tni = j
            · have : q.tqs = len := by
                have := hat; rw [ce, ha] at this
                have : at_ = a := by simpa using this.symm
                rw [← hatl, this, hal]
              rw [ce] at wr
              rcases hroom with h1 | h1 <;> omega
            · omega
          · have : off L0 (j + 1) ≤ off L0 q.tni := off_mono _ (by omega)
            omega
      obtain ⟨q2, p1, p2, p3, p4, p5, p6, p7, p8, p9, p10⟩ := push_frame hinv1 (some x) room
      simp only [] at p3 p4 p5 p6 p7 p8 p9 p10
      simp only [p1, Res.ok_bind]
      rw [e1]
      apply ih (k + 1) q2 _ (by omega) (by omega)
      have shp2 : shape q2.queues = shape L0 := by rw [p3, hs1, shp]
      have offe1 : ∀ i, off (q.queues.set j (some (a.set k none))) i = off L0 i := fun i => by
        rw [off_shape hs1]; exact offe i
      rw [offe1] at p4 p8
      rw [off_shape shp2] at p8
      obtain ⟨_, pp2, pp3⟩ := hinv.pos
      have hlenF : off q.queues q.tni + q.tqi < (F q.queues).length := by omega
      rw [offe] at hlenF
      refine ⟨p2, by rw [p5]; exact hn, by rw [p6]; exact hq, shp2, by rw [p7]; exact ni, by omega, ?_, ?_, by rw [p10]; exact bq⟩
      · rw [p8, p4, hF1, take_set_succ _ _ _ (by simp only [List.length_set]; exact hlenF),
          List.take_set_of_le wr, ab,
          show off L0 j + (k + 1) = off L0 j + k + 1 by omega, take_succ_filter _ _ _ _ hg0, hc]
        simp
      · rw [p4, hF1, drop_set_lt _ _ _ _ (by omega), drop_set_lt _ _ _ _ (by omega)]
        have := congrArg (List.drop 1) rest
        simpa [List.drop_drop, Nat.add_comm, Nat.add_assoc, Nat.add_left_comm] using this


theorem restrNodes_spec (g0 : Arr) (L0 : List (Option Arr)) (N B : Nat)
    (hall : ∀ i, i ≤ N → ∃ len, (shape L0)[i]? = some (some len)) :
    ∀ n j q, RInv g0 L0 N B q (off L0 j) → j + n ≤ N →
      ∃ q', restrNodes j n q = .ok q' ∧ RInv g0 L0 N B q' (off L0 (j + n)) := by
  intro n
  induction n with
  | zero => intro j q hr _; exact ⟨q, rfl, hr⟩
  | succ n ih =>
    intro j q hr hjn
    obtain ⟨len, hlen⟩ := hall j (by omega)
    -- the recorded size of node j is its length
    obtain ⟨m, a1, a2, _, _⟩ := hr.inv.alloc j (by rw [hr.ni]; omega)
    have hm : m = len := by rw [hr.shp, hlen] at a1; simpa using a1.symm
    obtain ⟨a0, ha0, hal0⟩ := shape_some hlen
    obtain ⟨hl0, hle0⟩ := getElem_of_getElem? ha0
    have sj := off_succ L0 j hl0
    rw [hle0] at sj
    simp only [nodeOf, hal0] at sj
    obtain ⟨q1, e1, r1⟩ := restrRange_spec g0 L0 N B j len (by omega) hlen len 0 q (by simpa using hr) (by omega) (Or.inl (by omega))
    have e2 : off L0 j + 0 + len = off L0 (j + 1) := by omega
    rw [e2] at r1
    obtain ⟨q2, e3, r2⟩ := ih (j + 1) q1 r1 (by omega)
    refine ⟨q2, ?_, by rw [show j + (n + 1) = j + 1 + n by omega]; exact r2⟩
    simp only [restrNodes, size, a2, hm, Res.ok_bind, e1, e3]

theorem QInv_setQueueSize {q : Q} (h : QInv q) (qs : Int) (h1 : 0 < qs) (h2 : qs < 1073741824) :
    QInv { q with queueSize := qs } := by
  obtain ⟨g1, g2, g3, g4, g5, g6, g7, g8, g9, g10, g11, g12, g13, g14, g15, g16, g17⟩ := h
  constructor <;> (try assumption)

/-- the freeing loop at the end of Restructuring, seen with `nodeIndex` already lowered to `T` -/
theorem restrFree_spec : ∀ fuel T q, QInv { q with nodeIndex := T } → T - (q.tni + 1) ≤ fuel →
    ∃ q' T', restrFree fuel T q = .ok (q', T') ∧ QInv { q' with nodeIndex := T' } ∧ T' ≤ T ∧
      abs q' = abs q ∧ q'.nodeIndex = q.nodeIndex ∧ q'.hni = q.hni ∧ q'.hqi = q.hqi ∧ q'.tni = q.tni ∧
      q'.baseQueueSize = q.baseQueueSize := by
  intro fuel
  induction fuel with
  | zero =>
    intro T q h hf
    exact ⟨q, T, rfl, h, Nat.le_refl _, rfl, rfl, rfl, rfl, rfl, rfl⟩
  | succ fuel ih =>
    intro T q h hf
    unfold restrFree
    by_cases c : T > q.tni + 1
    · have hq : T < q.queues.length := by have := h.lenQ'; have := h.niLt; simp only [] at *; omega
      have hs : T < q.sizes.length := by have := h.lenS; have := h.niLt; simp only [] at *; omega
      have hd : detach q T = q := by
        apply detach_eq_self
        · have := h.hq; simp only [] at this; rw [this]; intro e; injection e with e; have := h.hle; simp only [] at this; omega
        · have := h.tq; simp only [] at this; rw [this]; intro e; injection e; omega
      obtain ⟨n, _, hq', ha'⟩ := QInv_free_last h (by simp only []; omega)
      have hq'' := QInv_setQueueSize hq' q.queueSize h.qsPos h.qsLt
      simp only [c, if_true, freeNode_eq q T hq hs, hd, Res.ok_bind]
      obtain ⟨q', T', f1, f2, f3, f4, f5, f6, f7, f8, f9⟩ := ih (T - 1)
        { q with queues := q.queues.set T none, sizes := q.sizes.set T 0 } hq'' (by simp only []; omega)
      refine ⟨q', T', f1, f2, by omega, ?_, f5, f6, f7, f8, f9⟩
      rw [f4]; exact ha'
    · simp only [c, if_false]
      exact ⟨q, T, rfl, h, Nat.le_refl _, rfl, rfl, rfl, rfl, rfl, rfl⟩


/-- no spare allocated node behind the tail node -/
def NoSpare (q : Q) : Prop := q.nodeIndex = q.tni

instance (q : Q) : Decidable (NoSpare q) := by unfold NoSpare; exact inferInstance

theorem QInv_ni_self {q : Q} {T : Nat} (h : QInv q) (e : q.nodeIndex = T) : QInv { q with nodeIndex := T } := by
  subst e; exact h

theorem abs_origin {q : Q} (h1 : q.hni = 0) (h2 : q.hqi = 0) :
    abs q = (F q.queues).take (off q.queues q.tni + q.tqi) := by
  unfold abs absL; rw [h1, h2, off_zero]; simp

theorem filter_clean_prefix (g : Arr) (H T : Nat) (hHT : H ≤ T) (hc : ∀ e ∈ g.take H, e = none) :
    (g.take T).filter Option.isSome = ((g.take T).drop H).filter Option.isSome := by
  have e : g.take T = g.take H ++ (g.take T).drop H := by
    have := List.take_append_drop H (g.take T)
    rw [List.take_take, Nat.min_eq_left hHT] at this
    exact this.symm
  conv => lhs; rw [e]
  rw [List.filter_append]
  have : (g.take H).filter Option.isSome = [] := by
    apply List.filter_eq_nil_iff.mpr
    intro a ha; rw [hc a ha]; simp
  rw [this, List.nil_append]

/-- the two compaction loops shared by `Restructuring` and the db.go copies: after rewinding the cursors, every
non-nil cell from the origin to the old tail cursor is re-pushed in order -/
theorem restr_loops {q : Q} (h : QInv q) (hc : HeadClean q) :
    ∃ q0 q1 q2, rewind q = .ok q0 ∧ restrNodes 0 q.tni q0 = .ok q1 ∧ restrRange q.tni 0 q.tqi q1 = .ok q2 ∧
      QInv q2 ∧ q2.hni = 0 ∧ q2.hqi = 0 ∧ q2.nodeIndex = q.nodeIndex ∧ q2.baseQueueSize = q.baseQueueSize ∧
      abs q2 = (abs q).filter Option.isSome := by
  obtain ⟨n0, b1, b2, _, _⟩ := h.alloc 0 (Nat.zero_le _)
  obtain ⟨a0, ha0, _⟩ := shape_some b1
  obtain ⟨p1, p2, p3⟩ := h.pos
  have hq0 : QInv { q with hni := 0, hqi := 0, headQueue := .node 0, tailQueue := .node 0, tni := 0, tqi := 0,
                           hqs := n0, tqs := n0 } :=
    QInv_rewound h.toTInv n0 b2 q.queueSize h.qsPos h.qsLt q.rellac
  have hall : ∀ i, i ≤ q.nodeIndex → ∃ len, (shape q.queues)[i]? = some (some len) := by
    intro i hi; obtain ⟨n, a1, _⟩ := h.alloc i hi; exact ⟨n, a1⟩
  have r0 : RInv (F q.queues) q.queues q.nodeIndex q.baseQueueSize
      { q with hni := 0, hqi := 0, headQueue := .node 0, tailQueue := .node 0, tni := 0, tqi := 0, hqs := n0, tqs := n0 }
      (off q.queues 0) := by
    refine ⟨hq0, rfl, rfl, rfl, rfl, ?_, ?_, ?_, rfl⟩ <;> simp [off_zero]
  obtain ⟨q1, e1, r1⟩ := restrNodes_spec (F q.queues) q.queues q.nodeIndex q.baseQueueSize hall q.tni 0 _ r0
    (by have := h.tle; omega)
  obtain ⟨lenT, hlenT, a2, _, _⟩ := h.alloc q.tni h.tle
  have hK : q.tqi < lenT := by have := h.tqs; rw [a2] at this; have := h.tlt; simp at *; omega
  rw [Nat.zero_add] at r1
  obtain ⟨q2, e2, r2⟩ := restrRange_spec (F q.queues) q.queues q.nodeIndex q.baseQueueSize q.tni lenT h.tle hlenT q.tqi 0 q1
    (by simpa using r1) (by omega) (Or.inr (by omega))
  rw [Nat.add_zero] at r2
  refine ⟨_, q1, q2, ?_, e1, e2, r2.inv, r2.hn, r2.hq, r2.ni, r2.bq, ?_⟩
  · simp only [rewind, mkRef, ha0, size, b2, Res.ok_bind, Res.pure_eq]
  · rw [abs_origin r2.hn r2.hq, off_shape r2.shp, r2.ab]
    unfold abs absL
    exact filter_clean_prefix _ _ _ p1 hc

/-- **Restructuring** (queue.go) ≙ drop the holes, in every state satisfying the invariant in which every cell
before the head cursor is nil and no spare node lies behind the tail node.  (Outside `NoSpare`:
`restructuring_with_spare_node_breaks_push`.) -/
theorem restructuring_refines {q : Q} (h : QInv q) (hc : HeadClean q) (hns : NoSpare q) :
    ∃ q', restructuring q = .ok q' ∧ QInv q' ∧ abs q' = (abs q).filter Option.isSome ∧ HeadClean q' := by
  unfold NoSpare at hns
  obtain ⟨q0, q1, q2, e0, e1, e2, hq2, hn2, hqi2, ni2, _, ab2⟩ := restr_loops h hc
  obtain ⟨q3, T', e3, hq3, hT', ab3, ni3, hn3, hq3', tn3, _⟩ := restrFree_spec q.tni q.tni q2
    (QInv_ni_self hq2 (by rw [ni2]; exact hns)) (by omega)
  obtain ⟨s, _, sz, spos, slt⟩ := hq3.alloc T' (Nat.le_refl _)
  simp only [] at sz
  have hni3 : q3.nodeIndex = q.tni := by rw [ni3, ni2]; exact hns
  have hd : ¬ q3.nodeIndex < q.tni - T' := by omega
  have hsub : q3.nodeIndex - (q.tni - T') = T' := by omega
  have hfin : QInv { q3 with nodeIndex := T', queueSize := (s : Int), rellac := 0 } := by
    obtain ⟨g1, g2, g3, g4, g5, g6, g7, g8, g9, g10, g11, g12, g13, g14, g15, g16, g17⟩ := hq3
    constructor <;> simp only [] <;> (try omega) <;> (try assumption)
  refine ⟨{ q3 with nodeIndex := T', queueSize := (s : Int), rellac := 0 }, ?_, hfin, ?_, ?_⟩
  · simp only [restructuring, e0, e1, e2, e3, Res.ok_bind, hd, if_false, hsub, size, sz, Res.pure_eq]
  · show absL q3.queues q3.hni q3.hqi q3.tni q3.tqi = _
    have : absL q3.queues q3.hni q3.hqi q3.tni q3.tqi = abs q3 := rfl
    rw [this, ab3, ab2]
  · exact HeadClean_origin (by show q3.hni = 0; rw [hn3]; exact hn2) (by show q3.hqi = 0; rw [hq3']; exact hqi2)

end Slock.Queue
