import Slock.Proofs.Engine2SimInvOps
/-! Simulation stage 2 → stage 1: `KI` through the two sweeps. -/
namespace Slock.Sim
open Slock Slock.Engine2
open Slock.Engine (has)

theorem WI.wheelBroken {w : W} (h : WI w) : WI w.wheelBroken := h

theorem fireTimeout_wi {w : W} (h : WI w) (g : Good w) (cl : CurLive w.k) (hg : w.gone = false) (rid : Nat) : WI (w.fireTimeout rid) := by
  unfold W.fireTimeout
  simp only []
  split
  · exact h.wheelBroken
  rename_i hgT
  have hs := hasT_spec w.k rid (by simpa using hgT)
  split
  · exact h.dropT rid
  · have tx := ((tight_timeout_fire g cl rid hs).ctr (fun y => { y with timeoutedCount := y.timeoutedCount + 1 }))
    have h1 : WI (w.modR rid (fun r => { r with timeouted := true })) :=
      h.modR1 rid _ (fun _ => rfl) (fun y => y) (fun y => y) (fun hd => ⟨hd, rfl⟩) (fun _ => rfl)
    have h2 : WI ((w.modR rid (fun r => { r with timeouted := true })).modK (·.settleWait)) := KI.settleWait h1
    have h5 := (((h2.ik (IK.ctr _ (fun y => { y with waitCount := y.waitCount - 1 }))).dropT rid).ik
      (IK.ctr _ (fun y => { y with timeoutedCount := y.timeoutedCount + 1 })))
    have gw5 : GW (((((w.modR rid (fun r => { r with timeouted := true })).modK (·.settleWait)).ctr (fun y => { y with waitCount := y.waitCount - 1 })).dropT rid).ctr
        (fun y => { y with timeoutedCount := y.timeoutedCount + 1 })) :=
      ((GW.of_live (w := ((w.modR rid (fun r => { r with timeouted := true })).modK (·.settleWait)).ctr (fun y => { y with waitCount := y.waitCount - 1 })) hg).dropT rid).ctr _
    exact (h5.ik (IK.reply _ _ _ _ _)).wake_t (tx.reply _ _ _ _) (gw5.reply _ _ _ _)

theorem fireExpire_wi {w : W} (h : WI w) (g : Good w) (cl : CurLive w.k) (hg : w.gone = false) (rid : Nat) : WI (w.fireExpire rid) := by
  unfold W.fireExpire
  simp only []
  split
  · exact h.wheelBroken
  rename_i hgE
  have hs := hasE_spec w.k rid (by simpa using hgE)
  split
  · exact h.dropE rid
  · split
    · exact h.rearmE rid (fun r => { r with expT := w.db.now + 30 }) (fun _ => rfl) (fun _ => ⟨rfl, rfl, rfl, rfl, rfl⟩)
    · have tx := ((tight_expire_release g cl rid hs).ctr
        (fun y => { y with lockedCount := y.lockedCount - (w.k.getR rid).depth, expriedCount := y.expriedCount + 1 }))
      have h3 : WI (((w.modR rid (fun r => { r with expried := true })).modK (fun k => { k with locked := k.locked - (w.k.getR rid).depth })).when (w.k.getR rid).isAof
          (·.pushUnLockAof rid (w.k.getR rid).cmd false false AOF_EXPRIED)) :=
        ((h.ik (IK.modR _ rid (fun r => { r with expried := true }) (fun _ => rfl) (fun _ => rfl))).ik
          (IK.modK _ (fun k => { k with locked := k.locked - (w.k.getR rid).depth }) rfl rfl rfl rfl)).ik
          (IK.when _ _ _ (IK.pushUnLockAof _ _ _ _ _ _))
      have h4 : WI ((((w.modR rid (fun r => { r with expried := true })).modK (fun k => { k with locked := k.locked - (w.k.getR rid).depth })).when (w.k.getR rid).isAof
          (·.pushUnLockAof rid (w.k.getR rid).cmd false false AOF_EXPRIED)).modK (·.removeLock rid)) := KI.removeLock h3 rid
      have hg4 : ((((w.modR rid (fun r => { r with expried := true })).modK (fun k => { k with locked := k.locked - (w.k.getR rid).depth })).when (w.k.getR rid).isAof
          (·.pushUnLockAof rid (w.k.getR rid).cmd false false AOF_EXPRIED)).modK (·.removeLock rid)).gone = false := by
        show (((w.modR rid (fun r => { r with expried := true })).modK (fun k => { k with locked := k.locked - (w.k.getR rid).depth })).when (w.k.getR rid).isAof
          (·.pushUnLockAof rid (w.k.getR rid).cmd false false AOF_EXPRIED)).gone = false
        rw [(SC.when _ _ _ (SC.pushUnLockAof _ _ _ _ _ _)).gone]
        exact hg
      have h5 := ((h4.dropE rid).ik (IK.ctr _ (fun y => { y with lockedCount := y.lockedCount - (w.k.getR rid).depth, expriedCount := y.expriedCount + 1 })))
      exact (h5.ik (IK.reply _ _ _ _ _)).wake_t (tx.reply _ _ _ _) ((((GW.of_live hg4).dropE rid).ctr _).reply _ _ _ _)

theorem visitTimeout_wi {w : W} (h : WI w) (slot : Bool) (rid : Nat) (w' : W) (hv : w.visitTimeout slot rid = some w') : WI w' := by
  unfold W.visitTimeout at hv
  simp only [] at hv
  split at hv
  · injection hv with hv; rw [← hv]; exact h.wheelBroken
  split at hv
  · injection hv with hv; rw [← hv]; exact h.dropT rid
  · rename_i hto
    split at hv
    · injection hv with hv; rw [← hv]
      have h1 : WI (w.modR rid (fun r => { r with tChecked := r.tChecked + 1 })) := h.ik (IK.modR _ rid _ (fun _ => rfl) (fun _ => rfl))
      refine h1.addTimeOut rid ?_
      intro hm
      have := h.ht rid hm
      rw [this] at hto; exact hto rfl
    · exact absurd hv (by simp)

theorem visitExpire_wi {w : W} (h : WI w) (slot : Bool) (rid : Nat) (w' : W) (hv : w.visitExpire slot rid = some w') : WI w' := by
  unfold W.visitExpire at hv
  simp only [] at hv
  split at hv
  · injection hv with hv; rw [← hv]; exact h.wheelBroken
  split at hv
  · injection hv with hv; rw [← hv]; exact h.dropE rid
  · split at hv
    · injection hv with hv; rw [← hv]
      exact h.rearmE rid (fun r => { r with eChecked := r.eChecked + 1 }) (fun _ => rfl) (fun _ => ⟨rfl, rfl, rfl, rfl, rfl⟩)
    · exact absurd hv (by simp)

theorem collectT_wi {w : W} (h : WI w) (rid : Nat) : WI (w.collectT rid) := h.ik (IK.modR _ rid _ (fun _ => rfl) (fun _ => rfl))

end Slock.Sim
