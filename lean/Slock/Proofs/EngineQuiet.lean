import Slock.Proofs.ClientQueue
import Slock.Proofs.EngineReplies
/-!
C04 quiescent claim (on the engine with the C04 fix: every step that can make the head of a wait queue admissible ends
with a wake pass). Per key:

* `waited` is set exactly when something is queued;
* the head queued request is not admissible (`doLock` refuses it) — except a request carrying the wait-when-unlocked flag
  on an unlocked key (`locked = 0`): such a request is queued BY ITS OWN FLAG although `doLock` would let it in (LOCK on an
  unlocked key with TF_WAIT_UNLOCK goes to the queue, `classifyLock` → `afterHeld true`), and it stays there until the
  next wake pass on the key. The harness monitor `C04:admissible-head-queued` makes exactly this exclusion.

`Quiet` is kept by LOCK and UNLOCK in every state, and by a tick in every state whose queued requests with equal
(connection, RequestId) are equal commands (`IdDet`; the model's timeout sweep identifies a queued request by that pair
when it re-arms it).
-/
namespace Slock.Engine

/-- the quiescent condition of one key -/
structure Quiet (k : Key) : Prop where
  flag : k.waited = true ↔ k.waiters ≠ []
  head : ∀ w rest, k.waiters = w :: rest →
    doLock k w.cmd = false ∨ (k.locked = 0 ∧ has w.cmd.tflag TF_WAIT_UNLOCK = true)

def QuietDB (db : DB) : Prop := ∀ k ∈ db.keys, Quiet k

theorem Quiet.empty (n : Nat) : Quiet (emptyKey n) :=
  ⟨by simp [emptyKey], by intro w rest h; simp [emptyKey] at h⟩

theorem QuietDB.init (n : Nat) : QuietDB (DB.init n) := by intro k hk; simp [DB.init] at hk

theorem getKey_quiet {db : DB} (h : QuietDB db) (n : Nat) : Quiet (db.getKey n) := by
  unfold DB.getKey
  cases hf : db.keys.find? (·.key == n) with
  | none => exact Quiet.empty n
  | some k => exact h k (List.mem_of_find?_eq_some hf)

theorem setKey_quiet {db : DB} (h : QuietDB db) {k : Key} (hk : Quiet k) : QuietDB (db.setKey k) := by
  unfold DB.setKey
  intro x hx
  simp only [] at hx
  split at hx
  · exact h x (List.mem_filter.mp hx).1
  · rcases List.mem_append.mp hx with h1 | h1
    · exact h x (List.mem_filter.mp h1).1
    · simp at h1; rw [h1]; exact hk

theorem QuietDB.of_keys_eq {db db' : DB} (h : QuietDB db) (e : db'.keys = db.keys) : QuietDB db' := by
  intro k hk; rw [e] at hk; exact h k hk

/-! ### `doLock` looks at `locked` and at the oldest holder's Count only -/

theorem doLock_congr' (k k' : Key) (c : Cmd) (hl : k'.locked = k.locked)
    (hh : k'.holders.head?.map (·.cmd.count) = k.holders.head?.map (·.cmd.count)) : doLock k' c = doLock k c := by
  unfold doLock
  rw [hl]
  cases h1 : k.holders.head? with
  | none =>
    cases h2 : k'.holders.head? with
    | none => rfl
    | some b => rw [h1, h2] at hh; simp at hh
  | some a =>
    cases h2 : k'.holders.head? with
    | none => rw [h1, h2] at hh; simp at hh
    | some b =>
      rw [h1, h2] at hh
      simp only [Option.map_some, Option.some.injEq] at hh
      simp only [hh]

theorem replaceHolder_head_count (hs : List Hold) (h h' : Hold) (e : h'.cmd.count = h.cmd.count) :
    (replaceHolder hs h h').head?.map (·.cmd.count) = hs.head?.map (·.cmd.count) := by
  cases hs with
  | nil => rfl
  | cons x rest =>
    unfold replaceHolder
    split
    · rename_i hx; simp [e, hx]
    · rfl

/-! ### wake pass -/

theorem wakePass_flag (fuel : Nat) (db : DB) (k : Key) (out : List Reply) (h : k.waiters ≠ [] → k.waited = true) :
    (wakePass fuel db k out).2.1.waiters ≠ [] → (wakePass fuel db k out).2.1.waited = true := by
  induction fuel generalizing db k out with
  | zero => unfold wakePass; split <;> exact h
  | succ n ih =>
    unfold wakePass
    split
    · exact h
    · cases hw : wakeIter db k with
      | none =>
        simp only []
        split
        · rename_i he
          intro hne
          exfalso; apply hne
          simpa using he
        · exact h
      | some t =>
        obtain ⟨db', k', r⟩ := t
        simp only []
        apply ih
        obtain ⟨w, rest, e1, e2, _⟩ := wakeIter_head hw
        intro _
        rw [(wakeIter_length hw).2]
        exact h (by rw [e1]; simp)

/-- **After a wake pass the key is quiet** (strictly: nothing queued, or the head is refused by `doLock`). -/
theorem wake_quiet (db : DB) (k : Key) (out : List Reply) (h : k.waiters ≠ [] → k.waited = true) :
    Quiet (wake db k out).2.1 := by
  have hf := wakePass_flag (k.waiters.length + 1) db k out h
  have hs := wake_settled db k out
  unfold wake at hs ⊢
  rcases hs with ⟨h1, h2⟩ | ⟨w, rest, h1, h2⟩ | h1
  · exact ⟨by rw [h1, h2]; simp, by intro w rest e; rw [h1] at e; simp at e⟩
  · refine ⟨⟨fun _ => by rw [h1]; simp, fun hne => hf hne⟩, ?_⟩
    intro w' rest' e
    rw [h1] at e
    injection e with e1 _
    rw [← e1]; exact Or.inl h2
  · have hnil : (wakePass (k.waiters.length + 1) db k out).2.1.waiters = [] := by
      cases hw : (wakePass (k.waiters.length + 1) db k out).2.1.waiters with
      | nil => rfl
      | cons x xs =>
        have := hf (by rw [hw]; simp)
        rw [h1] at this; simp at this
    exact ⟨by rw [h1, hnil]; simp, by intro w rest e; rw [hnil] at e; simp at e⟩

theorem wake_store_quiet {db0 db : DB} {k : Key} (out : List Reply) (h0 : QuietDB db0) (e : db.keys = db0.keys)
    (h : k.waiters ≠ [] → k.waited = true) : QuietDB ((wake db k out).1.setKey (wake db k out).2.1) :=
  setKey_quiet (h0.of_keys_eq (by rw [wake_keys, e])) (wake_quiet db k out h)

/-! ### queueing -/

/-- why a LOCK is queued: `doLock` refuses it, or somebody is already waiting (resp. it asked to wait on an unlocked key)
and it does not jump the queue by priority -/
theorem classifyLock_queue_facts (db : DB) (c : Cmd) (hb : classifyLock db c = .queue) :
    doLock (db.getKey c.key) c = false ∨
      ((has c.tflag TF_PRIORITY && checkWaitPriority (db.getKey c.key) c) = false ∧
        ((db.getKey c.key).waited = true ∨ ((db.getKey c.key).locked = 0 ∧ has c.tflag TF_WAIT_UNLOCK = true))) := by
  by_cases hd : doLock (db.getKey c.key) c = true
  · right
    unfold classifyLock at hb
    simp only [] at hb
    repeat' split at hb
    all_goals (try (simp at hb))
    all_goals (simp_all)
    all_goals (try omega)
  · left; simpa using hd

/-- queueing a request keeps the key quiet -/
theorem queue_quiet (k : Key) (c : Cmd) (w : Waiter) (hw : w.cmd = c) (hq : Quiet k)
    (hf : doLock k c = false ∨ ((has c.tflag TF_PRIORITY && checkWaitPriority k c) = false ∧
      (k.waited = true ∨ (k.locked = 0 ∧ has c.tflag TF_WAIT_UNLOCK = true)))) :
    Quiet { k with waiters := insertWaiter k.waiters w, waited := true } := by
  have hne : insertWaiter k.waiters w ≠ [] := by
    intro e
    have := insertWaiter_length k.waiters w
    rw [e] at this; simp at this
  refine ⟨⟨fun _ => hne, fun _ => rfl⟩, ?_⟩
  intro x rest e
  have hdl : ∀ y : Waiter, doLock { k with waiters := insertWaiter k.waiters w, waited := true } y.cmd = doLock k y.cmd :=
    fun _ => rfl
  rw [hdl]
  show doLock k x.cmd = false ∨ (k.locked = 0 ∧ has x.cmd.tflag TF_WAIT_UNLOCK = true)
  cases hws : k.waiters with
  | nil =>
    simp only [hws, insertWaiter] at e
    injection e with e1 _
    rw [← e1, hw]
    rcases hf with h1 | ⟨_, h1 | h1⟩
    · exact Or.inl h1
    · have := hq.flag.mp h1; rw [hws] at this; exact absurd rfl this
    · exact Or.inr h1
  | cons y ys =>
    simp only [hws] at e
    unfold insertWaiter at e
    by_cases hp : cmdPriority w.cmd > cmdPriority y.cmd
    · simp only [hp, if_true] at e
      injection e with e1 _
      rw [← e1, hw]
      -- the newcomer jumped to the head: it has the priority flag and beats the old head, so it was refused by `doLock`
      rw [hw] at hp
      have hprio : has c.tflag TF_PRIORITY = true := by
        by_cases h1 : has c.tflag TF_PRIORITY = true
        · exact h1
        · have e0 : cmdPriority c = 0 := by unfold cmdPriority; simp [h1]
          rw [e0] at hp; omega
      have hcwp : checkWaitPriority k c = true := by
        have e1 : cmdPriority c = c.rcount := by unfold cmdPriority; simp [hprio]
        rw [e1] at hp
        unfold checkWaitPriority
        simp only [hws, List.head?_cons]
        simpa using hp
      rcases hf with h1 | ⟨h1, _⟩
      · exact Or.inl h1
      · rw [hprio, hcwp] at h1; simp at h1
    · simp only [hp, if_false] at e
      injection e with e1 _
      rw [← e1]
      exact hq.head y ys hws

/-! ### LOCK / UNLOCK -/

theorem Quiet.flag' {k : Key} (h : Quiet k) : k.waiters ≠ [] → k.waited = true := h.flag.mpr

theorem opLock_quiet (db : DB) (c : Cmd) (h : QuietDB db) : QuietDB (opLock db c).1 := by
  unfold opLock
  have hk := getKey_quiet h c.key
  cases hb : classifyLock db c with
  | p0a | p0b | stateError | unlockedWaitRefused | timeout => exact h
  | «show» cur | updateEqual h' | relockNoHold h' | relockRefused h' => exact h
  | update h' =>
    simp only [applyLock]
    exact wake_store_quiet _ h (updateHold_db_keys _ _ _) hk.flag'
  | relock h' =>
    simp only [applyLock]
    exact wake_store_quiet _ h (by simp [updateHold_db_keys]) hk.flag'
  | grant =>
    simp only [applyLock]
    split
    · exact wake_store_quiet _ h (grantHold_db_keys _ _ _) hk.flag'
    · rename_i hwd
      have hwf : (db.getKey c.key).waited = false := by simpa using hwd
      have hnil : (db.getKey c.key).waiters = [] := by
        cases hws : (db.getKey c.key).waiters with
        | nil => rfl
        | cons x xs => have := hk.flag' (by rw [hws]; simp); rw [hwf] at this; simp at this
      apply setKey_quiet (h.of_keys_eq (grantHold_db_keys db (db.getKey c.key) c))
      exact ⟨by rw [grantHold_waited, grantHold_waiters, hwf, hnil]; simp,
        by intro w rest e; rw [grantHold_waiters, hnil] at e; simp at e⟩
  | grantNoHold =>
    simp only [applyLock]
    split
    · exact wake_store_quiet _ h rfl hk.flag'
    · exact setKey_quiet (h.of_keys_eq rfl) hk
  | queue =>
    simp only [applyLock]
    exact setKey_quiet (h.of_keys_eq rfl) (queue_quiet _ c _ rfl hk (classifyLock_queue_facts db c hb))
where
  grantHold_waited (db : DB) (k : Key) (c : Cmd) : (grantHold db k c).2.waited = k.waited := rfl
  grantHold_waiters (db : DB) (k : Key) (c : Cmd) : (grantHold db k c).2.waiters = k.waiters := rfl

/-- the queue after one request left it (cancel / timeout), with the flag the code computes -/
theorem remove_flag (k : Key) (w : Waiter) (h : k.waiters ≠ [] → k.waited = true) :
    removeWaiter k.waiters w ≠ [] → (if (removeWaiter k.waiters w).isEmpty then false else k.waited) = true := by
  intro hne
  have h1 : (removeWaiter k.waiters w).isEmpty = false := by
    cases hr : removeWaiter k.waiters w with
    | nil => exact absurd hr hne
    | cons x xs => rfl
  rw [h1]
  simp only [Bool.false_eq_true, if_false]
  apply h
  intro e
  rw [e] at hne
  exact hne (by simp [removeWaiter])

theorem opUnlock_quiet (db : DB) (c : Cmd) (h : QuietDB db) : QuietDB (opUnlock db c).1 := by
  unfold opUnlock
  have hk := getKey_quiet h c.key
  cases hb : classifyUnlock db c with
  | stateError | notLocked | unown | cancelNone => exact h.of_keys_eq rfl
  | cancel w =>
    simp only [applyUnlock]
    exact wake_store_quiet _ h rfl (remove_flag _ w hk.flag')
  | dec h' c' =>
    simp only [applyUnlock]
    exact wake_store_quiet _ h rfl hk.flag'
  | release h' c' =>
    simp only [applyUnlock]
    exact wake_store_quiet _ h rfl hk.flag'

/-! ### the sweeps of a tick -/

theorem fireTimeout_quiet (db : DB) (key : Nat) (w : Waiter) (h : QuietDB db) : QuietDB (fireTimeout db key w).1 := by
  unfold fireTimeout
  exact wake_store_quiet _ h rfl (remove_flag _ w (getKey_quiet h key).flag')

theorem fireExpire_quiet (db : DB) (key : Nat) (hd : Hold) (h : QuietDB db) : QuietDB (fireExpire db key hd).1 := by
  unfold fireExpire
  exact wake_store_quiet _ h rfl (getKey_quiet h key).flag'

/-- re-arming a visited hold replaces the record by a copy with the same command -/
theorem rearmHold_quiet (db : DB) (hd : Hold) (h : QuietDB db) : QuietDB (rearmHold db hd) := by
  rw [rearmHold_eq]; unfold updateHoldIn
  have h' : QuietDB { db with seq := db.seq + 1 } := h.of_keys_eq rfl
  have hk := getKey_quiet h' hd.cmd.key
  apply setKey_quiet h'
  have hdl : ∀ c : Cmd, doLock { ({ db with seq := db.seq + 1 } : DB).getKey hd.cmd.key with
      holders := replaceHolder (({ db with seq := db.seq + 1 } : DB).getKey hd.cmd.key).holders hd (rearmedH db hd) } c =
      doLock (({ db with seq := db.seq + 1 } : DB).getKey hd.cmd.key) c :=
    fun c => doLock_congr' _ _ c rfl (replaceHolder_head_count _ _ _ rfl)
  exact ⟨hk.flag, fun w rest e => by rw [hdl]; exact hk.head w rest e⟩

/-- re-arming a visited request, when every queued request of its key with its id carries its command -/
theorem rearmWaiter_quiet (db : DB) (w : Waiter)
    (hm : ∀ x ∈ allW db, x.cmd.req = w.cmd.req → x.conn = w.conn → x.cmd = w.cmd) (h : QuietDB db) :
    QuietDB (rearmWaiter db w) := by
  rw [rearmWaiter_eq]; unfold updateWaiter
  have h' : QuietDB { db with seq := db.seq + 1 } := h.of_keys_eq rfl
  have hk := getKey_quiet h' w.cmd.key
  apply setKey_quiet h'
  have hcmd : ∀ x ∈ (({ db with seq := db.seq + 1 } : DB).getKey w.cmd.key).waiters,
      (if x.cmd.req == w.cmd.req && x.conn == w.conn then rearmed db w else x).cmd = x.cmd := by
    intro x hx
    split
    · rename_i hmm
      have hmm' : x.cmd.req = w.cmd.req ∧ x.conn = w.conn := by simpa using hmm
      have hxa : x ∈ allW db := mem_allW_of_keys_eq (db := db) rfl (mem_getKey_waiters hx)
      rw [rearmed_cmd]; exact (hm x hxa hmm'.1 hmm'.2).symm
    · rfl
  refine ⟨?_, ?_⟩
  · simp only [ne_eq, List.map_eq_nil_iff]; exact hk.flag
  · intro y rest e
    cases hws : (({ db with seq := db.seq + 1 } : DB).getKey w.cmd.key).waiters with
    | nil => simp only [hws, List.map_nil] at e; simp at e
    | cons x xs =>
      simp only [hws, List.map_cons] at e
      injection e with e1 _
      have hx := hcmd x (by rw [hws]; simp)
      rw [e1] at hx
      have := hk.head x xs hws
      rw [hx]
      exact this

/-- the pass-1 state of the timeout sweep that started in `d0` -/
def QQ (d0 : DB) (d : DB) : Prop := QAgree d0 d ∧ QuietDB d

/-- `IdDet` (equal ids ⇒ equal commands among queued requests) together with `QuietDB`, through the sweeps -/
def IQ (db : DB) : Prop := QInv db ∧ QuietDB db

theorem sweepTimeout_iq (db : DB) (c : Nat) (h : IQ db) : IQ (sweepTimeout db c).1 := by
  unfold sweepTimeout timeoutPass1
  refine foldl_P IQ _ (fun acc a ha => by
    unfold fireTimeoutStep; split
    · exact ⟨fireTimeout_qinv _ _ _ ha.1, fireTimeout_quiet _ _ _ ha.2⟩
    · exact ha) _ _ ?_
  have : QQ db ((slotWaiters db c).foldl timeoutStep (db, [])).1 := by
    refine foldl_Q_mem (QQ db) _ _ (fun acc a hm ha => ?_) _ ⟨⟨h.1, h.1.1⟩, h.2⟩
    unfold timeoutStep
    split
    · exact ⟨rearmWaiter_qagree db _ _ (mem_slotWaiters' hm) h.1.1 ha.1,
        rearmWaiter_quiet _ _ (fun x hx => ha.1.2 x hx a (mem_slotWaiters' hm)) ha.2⟩
    · exact ha
  exact ⟨this.1.1, this.2⟩

theorem sweepExpire_iq (db : DB) (c : Nat) (h : IQ db) : IQ (sweepExpire db c).1 := by
  unfold sweepExpire expirePass1
  refine foldl_P IQ _ (fun acc a ha => by
    unfold fireExpireStep; split
    · exact ⟨fireExpire_qinv _ _ _ ha.1, fireExpire_quiet _ _ _ ha.2⟩
    · exact ha) _ _ ?_
  exact foldl_P IQ _ (fun acc a ha => by
    unfold expireStep; split
    · exact ⟨rearmHold_qinv _ _ ha.1, rearmHold_quiet _ _ ha.2⟩
    · exact ha) _ _ h

theorem opTick_iq (db : DB) (h : IQ db) : IQ (opTick db).1 := by
  unfold opTick
  simp only []
  apply sweepExpire_iq
  have h0 : IQ { db with now := db.now + 1, tCheck := db.now + 1 + 1 } := ⟨h.1.of_keys_eq rfl, h.2.of_keys_eq rfl⟩
  have h1 := sweepTimeout_iq _ (db.now + 1) h0
  exact ⟨h1.1.of_keys_eq rfl, h1.2.of_keys_eq rfl⟩

theorem opLock_iq (db : DB) (c : Cmd) (hf : Fresh db c) (h : IQ db) : IQ (opLock db c).1 :=
  ⟨opLock_qinv db c hf h.1, opLock_quiet db c h.2⟩

theorem opUnlock_iq (db : DB) (c : Cmd) (h : IQ db) : IQ (opUnlock db c).1 :=
  ⟨opUnlock_qinv db c h.1, opUnlock_quiet db c h.2⟩

theorem IQ.init (n : Nat) : IQ (DB.init n) := ⟨⟨IdDet.init n, DBSorted.init n⟩, QuietDB.init n⟩

end Slock.Engine
