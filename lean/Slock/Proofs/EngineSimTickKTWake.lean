import Slock.Proofs.EngineSimTickKTQueue
/-! `KT` pass, part 3: the steps that edit one record visibly (tombstone, timeout-wheel entry removed / re-armed, the grant), the wake
pass, and the four handlers of the sweeps. -/
namespace Slock.SimTick
open Slock Slock.Sim Slock.Engine2
open Slock.Engine (has)

theorem tomb_pk {k' k : Key} {y : Nat} (p : PKeep (·.timeouted) k' k) (h : (k.getR y).timeouted = true) : (k'.getR y).timeouted = true := by
  by_cases hh : k'.hasRec y
  · have e : (k'.getR y).timeouted = (k.getR y).timeouted := p.val y hh
    rw [e]; exact h
  · exact timeouted_dead _ _ hh

theorem getR_tomb (k : Key) (rid : Nat) : ((k.modRec rid (fun r => { r with timeouted := true })).getR rid).timeouted = true := by
  by_cases hh : k.hasRec rid
  · rw [getR_modRec_same k rid (fun r => { r with timeouted := true }) (fun _ => rfl) hh]
  · exact timeouted_dead _ _ (fun h => hh ((hasRec_modRec k rid rid (fun r => { r with timeouted := true }) (fun _ => rfl)).mp h))

/-- one record changes its wait-queue side and is tombstoned afterwards -/
theorem WT.tk_tomb {w w' : W} (h : WT w) (rid : Nat) (d : TK (· = rid) NoX w w') (ht : (w'.k.getR rid).timeouted = true) : WT w' := by
  refine h.tk d ?_ (fun _ _ hx => absurd hx id)
  intro _ y hx hl
  have e : y = rid := hx
  rw [e, ht] at hl; exact absurd hl (by simp)

theorem WT.tomb {w : W} (h : WT w) (rid : Nat) : WT (w.modR rid (fun r => { r with timeouted := true })) :=
  h.tk_tomb rid (TK.modR w rid _ (fun _ => rfl) (Or.inl rfl) (Or.inr fun _ => rfl)) (getR_tomb w.k rid)

theorem tk_removeLongT (w : W) (rid : Nat) : TK (· = rid) NoX w (w.removeLongT rid) := by
  refine ⟨rfl, ?_, ?_, fun _ _ _ h => h, fun _ _ _ h => h⟩
  · show PKeepX πW (· = rid) ((w.k.modRec rid (fun r => { r with tSched := none })).unrefOnly rid) w.k
    exact (PKeepX.of_pk (PKeep.unrefOnly ins_πW _ rid)).trans (PKeepX.modRec (X := (· = rid)) w.k rid (fun r => { r with tSched := none }) (fun _ => rfl) rfl)
  · exact PKeepX.of_pk (pk_removeLongT ins_πD w rid (fun _ _ => rfl))

theorem WT.removeLongT {w : W} (h : WT w) (rid : Nat) (ht : (w.k.getR rid).timeouted = true) : WT (w.removeLongT rid) :=
  h.tk_tomb rid (tk_removeLongT w rid) (tomb_pk (pk_removeLongT ins_timeouted w rid (fun _ _ => rfl)) ht)

theorem WT.dropLongT {w : W} (h : WT w) (rid : Nat) (ht : (w.k.getR rid).timeouted = true) : WT (w.dropLongT rid) := by
  unfold W.dropLongT W.when
  split
  · exact h.removeLongT rid ht
  · exact h

theorem dropLongT_tomb (w : W) (rid : Nat) (ht : (w.k.getR rid).timeouted = true) : ((w.dropLongT rid).k.getR rid).timeouted = true :=
  tomb_pk (pk_dropLongT ins_timeouted w rid (fun _ _ => rfl)) ht

/-- the sweeper's reference of a tombstoned record goes -/
theorem WT.dropT {w : W} (h : WT w) (rid : Nat) (ht : (w.k.getR rid).timeouted = true) : WT (w.dropT rid) := by
  unfold W.dropT
  refine WT.unrefCheck (h.tk_tomb rid (TK.modR w rid (fun r => { r with tSched := none }) (fun _ => rfl) (Or.inl rfl) (Or.inr fun _ => rfl)) ?_) rid
  exact tomb_pk (pk_modR w rid (fun r => { r with tSched := none }) (fun _ => rfl) (fun _ => rfl)) ht

theorem ws_armT (a : Nat × Engine.Sched) (r : Rec) (h : a.2.checked = r.tChecked) : WS (Rec.armT a r) := by
  show (some a.2).map (·.checked) = some r.tChecked
  rw [← h]; rfl

/-- `AddTimeOut(rid)` after steps that touched the wait-queue side of `rid` only: `rid` must be in the wait queue -/
theorem WT.armT_after {w w1 : W} (h : WT w) (rid : Nat) (d : TK (· = rid) NoX w w1) (hm : KT w.k → rid ∈ w1.k.wait.map (·.rid)) :
    WT (w1.addTimeOut rid) := by
  have d2 : TK (· = rid) NoX w1 (w1.addTimeOut rid) :=
    ⟨rfl, KTK.modRec w1.k rid (Rec.armT (Engine.wheelAdd w1.db.tCheck w1.db.seq (w1.k.getR rid).timeoutT (w1.k.getR rid).tChecked))
      (fun _ => rfl) (Or.inl rfl) (Or.inr fun _ => rfl)⟩
  refine h.tk (d.trans d2) ?_ (fun _ _ hx => absurd hx id)
  intro h0 y hx hl
  have e : y = rid := hx
  rw [e] at hl ⊢
  refine ⟨hm h0, ?_⟩
  have hh1 : w1.k.hasRec rid :=
    (hasRec_modRec w1.k rid rid (Rec.armT (Engine.wheelAdd w1.db.tCheck w1.db.seq (w1.k.getR rid).timeoutT (w1.k.getR rid).tChecked)) (fun _ => rfl)).mp
      (hasRec_of_live hl)
  have eg : (w1.addTimeOut rid).k.getR rid =
      Rec.armT (Engine.wheelAdd w1.db.tCheck w1.db.seq (w1.k.getR rid).timeoutT (w1.k.getR rid).tChecked) (w1.k.getR rid) :=
    getR_modRec_same w1.k rid (Rec.armT (Engine.wheelAdd w1.db.tCheck w1.db.seq (w1.k.getR rid).timeoutT (w1.k.getR rid).tChecked)) (fun _ => rfl) hh1
  rw [eg]
  exact ws_armT _ _ (wheelAdd_checked _ _ _ _)

/-! ### the grant -/

theorem πW_addLockF (db : DB) (k : Key) (r : Rec) : πW (addLockF db k r) = πW r := by
  unfold addLockF; rfl

theorem tk_grant (w : W) (rid : Nat) : TK NoX (· = rid) w (w.grant rid) := by
  have hf := addLockF_fields w.db w.k
  have t1 : TK NoX (· = rid) w (w.addLock rid) := ⟨rfl, ktk_addLock w.k rid (addLockF w.db w.k) (fun r => (hf r).1) (πW_addLockF w.db w.k)⟩
  have t2 : TK NoX (· = rid) (w.addLock rid) ((w.addLock rid).modK incLocked) := TK.modK _ _ rfl rfl
  rw [grant_eq]
  generalize (w.addLock rid).modK incLocked = s0 at t2
  unfold grantTail grantMid
  exact (t1.trans t2).trans ((((((TK.procData s0 _ _ _ rid).trans (TK.modR_q _ rid (fun r => { r with data := none }) (fun _ => rfl) (fun _ => rfl))).trans
    (TK.addExpried _ rid)).trans (TK.ref _ rid)).trans (TK.ctr _ _)).trans (TK.reply _ _ _ _ _))

theorem grant_self (w : W) (rid : Nat) : rid ∈ (w.grant rid).k.current.toList ++ (w.grant rid).k.locks := by
  have hq : (w.grant rid).k.current.toList ++ (w.grant rid).k.locks =
      (w.k.addLock rid (addLockF w.db w.k)).current.toList ++ (w.k.addLock rid (addLockF w.db w.k)).locks := by
    rw [grant_eq]
    obtain ⟨q1, q2, _⟩ := queues_eq (grantTail_sx ((w.addLock rid).modK incLocked) rid).q
    rw [q1, q2]; rfl
  rw [hq]; exact addLock_self _ _ _

theorem WT.grant {w : W} (h : WT w) (rid : Nat) : WT (w.grant rid) := by
  refine h.tk (tk_grant w rid) (fun _ _ hx => absurd hx id) ?_
  intro _ y hx _
  have e : y = rid := hx
  rw [e]; exact grant_self w rid

/-! ### the wake pass -/

theorem WT.wakePre {w : W} (h : WT w) (rid : Nat) : WT (wakePre w rid) := by
  unfold Slock.Sim.wakePre
  exact ((h.tomb rid).dropLongT rid (getR_tomb w.k rid)).q (TK.ctr _ _)

theorem WT.wakeOne {w : W} (h : WT w) (rid : Nat) : WT (w.wakeOne rid) := by
  have hp := h.wakePre rid
  rw [wakeOne_eq]
  split
  · exact hp.grant rid
  · exact ((hp.q (TK.grantNoHold _ rid)).q (TK.ctr _ _)).q (TK.reply _ _ _ _ _)

theorem WT.getWaitLock {w : W} (h : WT w) : WT (w.modK (·.getWaitLock.1)) := h.q ⟨rfl, ktk_getWaitLock w.k⟩
theorem WT.settleWait {w : W} (h : WT w) : WT (w.modK (·.settleWait)) := h.q ⟨rfl, ktk_settleWait w.k⟩

theorem WT.wakePass (fuel : Nat) (w : W) (h : WT w) : WT (W.wakePass fuel w) := by
  induction fuel generalizing w with
  | zero => exact h
  | succ n ih =>
    unfold W.wakePass
    simp only []
    have h1 := h.getWaitLock
    split
    · exact (h1.q (TK.modK _ clearWaited rfl rfl)).removeIfZero
    · split
      · exact h1
      · exact ih _ (h1.wakeOne _)

theorem WT.wake {w : W} (h : WT w) : WT w.wake := by
  unfold W.wake W.when
  split
  · exact WT.wakePass _ w h
  · exact h

/-! ### the handlers of the sweeps -/

theorem fireTimeout_wt {w : W} (h : WT w) (rid : Nat) : WT (w.fireTimeout rid) := by
  unfold W.fireTimeout
  simp only []
  split
  · exact h.q (TK.wheelBroken w)
  split
  · rename_i ht
    exact h.dropT rid ht
  · have h2 := (h.tomb rid).settleWait
    have t2 : (((w.modR rid (fun r => { r with timeouted := true })).modK (·.settleWait)).k.getR rid).timeouted = true :=
      tomb_pk (PKeep.settleWait ins_timeouted _) (getR_tomb w.k rid)
    have h4 := (h2.q (TK.ctr _ (fun y => { y with waitCount := y.waitCount - 1 }))).dropT rid t2
    exact ((h4.q (TK.ctr _ (fun y => { y with timeoutedCount := y.timeoutedCount + 1 }))).q (TK.reply _ _ _ _ _)).wake

theorem WT.removeLock {w : W} (h : WT w) (rid : Nat) : WT (w.modK (·.removeLock rid)) := by
  refine h.tk (XW := NoX) (XH := (· = rid)) ⟨rfl, ktk_removeLock w.k rid⟩ (fun _ _ hx => absurd hx id) ?_
  intro _ y hx hd
  have e : y = rid := hx
  rw [e] at hd
  have : ((w.k.removeLock rid).getR rid).depth = 0 := removeLock_depth0 w.k rid
  have hd' : 0 < ((w.k.removeLock rid).getR rid).depth := hd
  rw [this] at hd'; exact absurd hd' (by simp)

theorem fireExpire_wt {w : W} (h : WT w) (rid : Nat) : WT (w.fireExpire rid) := by
  unfold W.fireExpire
  simp only []
  split
  · exact h.q (TK.wheelBroken w)
  split
  · exact h.dropE rid
  · split
    · exact (h.q (TK.modR_q w rid (fun r => { r with expT := w.db.now + 30 }) (fun _ => rfl) (fun _ => rfl))).q (TK.addExpried _ rid)
    · have h3 := ((h.q (TK.modR_q w rid (fun r => { r with expried := true }) (fun _ => rfl) (fun _ => rfl))).q
        (TK.modK _ (fun k => { k with locked := k.locked - (w.k.getR rid).depth }) rfl rfl)).q
        (TK.when _ (w.k.getR rid).isAof (·.pushUnLockAof rid (w.k.getR rid).cmd false false AOF_EXPRIED) (TK.pushUnLockAof _ _ _ _ _ _))
      have h5 := ((h3.removeLock rid).dropE rid).q
        (TK.ctr _ (fun y => { y with lockedCount := y.lockedCount - (w.k.getR rid).depth, expriedCount := y.expriedCount + 1 }))
      exact (h5.q (TK.reply _ _ _ _ _)).wake

theorem visitTimeout_wt {w : W} (h : WT w) (slot : Bool) (rid : Nat) (w' : W) (hv : w.visitTimeout slot rid = some w') : WT w' := by
  unfold W.visitTimeout at hv
  simp only [] at hv
  split at hv
  · injection hv with hv; rw [← hv]; exact h.q (TK.wheelBroken w)
  split at hv
  · rename_i ht
    injection hv with hv; rw [← hv]; exact h.dropT rid ht
  · rename_i hto
    split at hv
    · injection hv with hv; rw [← hv]
      refine h.armT_after rid (TK.modR w rid (fun r => { r with tChecked := r.tChecked + 1 }) (fun _ => rfl) (Or.inl rfl) (Or.inr fun _ => rfl)) ?_
      intro h0
      have hl : (w.k.getR rid).timeouted = false := by simpa using hto
      exact h0.wq rid (hasRec_of_live hl) hl
    · exact absurd hv (by simp)

theorem visitExpire_wt {w : W} (h : WT w) (slot : Bool) (rid : Nat) (w' : W) (hv : w.visitExpire slot rid = some w') : WT w' := by
  unfold W.visitExpire at hv
  simp only [] at hv
  split at hv
  · injection hv with hv; rw [← hv]; exact h.q (TK.wheelBroken w)
  split at hv
  · injection hv with hv; rw [← hv]; exact h.dropE rid
  · split at hv
    · injection hv with hv; rw [← hv]
      exact (h.q (TK.modR_q w rid (fun r => { r with eChecked := r.eChecked + 1 }) (fun _ => rfl) (fun _ => rfl))).q (TK.addExpried _ rid)
    · exact absurd hv (by simp)

theorem collectT_wt {w : W} (h : WT w) (rid : Nat) : WT (w.collectT rid) := h.q (TK.collectT w rid)

end Slock.SimTick
