import Slock.Proofs.Engine2SimInvGrant
/-! Simulation stage 2 → stage 1: `KI` through `UpdateLockedLock`, `RemoveLock`, the filing of a request in the wait queue. -/
namespace Slock.Sim
open Slock Slock.Engine2
open Slock.Engine (has)

theorem map_checked_some (o : Option Engine.Sched) (n : Nat) (sc : Engine.Sched)
    (h : o.map (fun s => { s with checked := n }) = some sc) : sc.checked = n := by
  cases o with
  | none => simp at h
  | some s0 => simp only [Option.map_some, Option.some.injEq] at h; rw [← h]

theorem updF_ck (db : DB) (so : Bool) (c : Engine.Cmd) (r : Rec) :
    ∀ sc, (updF db so c r).eSched = some sc → sc.checked = (updF db so c r).eChecked := by
  intro sc hsc
  cases hU : (has c.eflag Engine.EF_UNLIMITED && c.expried ≥ 0xffff) with
  | true =>
    have hp := updF_πG_U db so c r hU
    have e7 := congrArg (fun t => t.2.2.2.2.2.2.1) hp
    have e8 := congrArg (fun t => t.2.2.2.2.2.2.2) hp
    simp only [πG] at e7 e8
    rw [e8] at hsc
    rw [e7]; exact map_checked_some _ _ _ hsc
  | false =>
    have hp := updF_πG_N db so c r hU
    have e7 := congrArg (fun t => t.2.2.2.2.2.2.1) hp
    have e8 := congrArg (fun t => t.2.2.2.2.2.2.2) hp
    simp only [πG] at e7 e8
    rw [e8] at hsc
    rw [e7]; exact map_checked_some _ _ _ hsc

theorem updF_hid (db : DB) (so : Bool) (c : Engine.Cmd) (r : Rec) : (updF db so c r).hid = r.hid ∧ (updF db so c r).cmd = c := by
  cases hU : (has c.eflag Engine.EF_UNLIMITED && c.expried ≥ 0xffff) with
  | true =>
    have hp := updF_πG_U db so c r hU
    exact ⟨congrArg (fun t => t.1) hp, congrArg (fun t => t.2.1) hp⟩
  | false =>
    have hp := updF_πG_N db so c r hU
    exact ⟨congrArg (fun t => t.1) hp, congrArg (fun t => t.2.1) hp⟩

/-- what `KI` reads of a record besides its expiry entry and connection -/
def π3 (r : Rec) : Engine.Cmd × Nat × Nat × Bool × Nat := (r.cmd, r.depth, r.hid, r.timeouted, r.eChecked)
theorem ins_π3 : Ins π3 := ⟨fun _ _ => rfl, fun _ _ => rfl, fun _ _ => rfl, fun _ _ => rfl⟩

theorem WI.updateLocked {w : W} (h : WI w) (rid : Nat) (c : Engine.Cmd) (hh : w.k.hasRec rid) : WI (w.updateLocked rid c) := by
  have hq := (qk_updateLocked w rid c).q
  unfold W.updateLocked at hq ⊢
  simp only [] at hq ⊢
  generalize hso : (!(w.k.getR rid).isAof && w.k.current == some rid && w.k.locks.isEmpty) = so at hq ⊢
  have hf := updF_fields w.db so c
  generalize hcond : ((w.k.getR rid).eLong && (w.k.getR rid).expT != (updF w.db so c (w.k.getR rid)).expT) = cond at hq ⊢
  have hU1 : (w.modR rid (updF w.db so c)).k.hasRec rid := (hasRec_modR _ rid rid _ (fun r => (hf r).1)).mpr hh
  have gU : (w.modR rid (updF w.db so c)).k.getR rid = updF w.db so c (w.k.getR rid) := getR_modRec_same _ _ _ (fun r => (hf r).1) hh
  -- the middle: the long-table move or nothing
  have hmid : ∃ wm : W, wm = (w.modR rid (updF w.db so c)).when cond (fun w => ((w.removeLongE rid).addExpried rid).ref rid) ∧
      PKeepX πI (· = rid) wm.k w.k ∧ PK π3 wm (w.modR rid (updF w.db so c)) ∧ w.db.seq ≤ wm.db.seq ∧ wm.k.hasRec rid ∧
      (∀ sc, (wm.k.getR rid).eSched = some sc → sc.checked = (wm.k.getR rid).eChecked) := by
    refine ⟨_, rfl, ?_⟩
    have pU : PKeepX πI (· = rid) (w.modR rid (updF w.db so c)).k w.k := PKeepX.modRec (X := (· = rid)) w.k rid _ (fun r => (hf r).1) rfl
    cases cond with
    | false =>
      refine ⟨pU, PK.refl _, Nat.le_refl _, hU1, ?_⟩
      show ∀ sc, ((w.modR rid (updF w.db so c)).k.getR rid).eSched = some sc → sc.checked = ((w.modR rid (updF w.db so c)).k.getR rid).eChecked
      rw [gU]; exact updF_ck _ _ _ _
    | true =>
      obtain ⟨m1, m2, d1, _⟩ := move_rec (w.modR rid (updF w.db so c)) rid hU1
      refine ⟨?_, ?_, ?_, m1, ?_⟩
      · have a1 : PKeepX πI (· = rid) ((w.modR rid (updF w.db so c)).removeLongE rid).k (w.modR rid (updF w.db so c)).k := by
          show PKeepX πI (· = rid) (((w.modR rid (updF w.db so c)).k.modRec rid (fun r => { r with eSched := none })).modRec rid
            (fun r => { r with refCount := decU8 r.refCount })) (w.modR rid (updF w.db so c)).k
          exact (PKeepX.modRec (X := (· = rid)) _ rid (fun r => { r with refCount := decU8 r.refCount }) (fun _ => rfl) rfl).trans
            (PKeepX.modRec (X := (· = rid)) _ rid (fun r => { r with eSched := none }) (fun _ => rfl) rfl)
        have a2 : PKeepX πI (· = rid) (((w.modR rid (updF w.db so c)).removeLongE rid).addExpried rid).k ((w.modR rid (updF w.db so c)).removeLongE rid).k := by
          unfold W.addExpried
          simp only []
          refine (PKeepX.of_pk (pk_when _ _ _ (pk_pushLockAofN ins_πI _ _ _))).trans ?_
          unfold W.schedExpried
          exact PKeepX.modRec (X := (· = rid)) _ rid _ (fun _ => rfl) rfl
        have a3 : PKeepX πI (· = rid) ((((w.modR rid (updF w.db so c)).removeLongE rid).addExpried rid).ref rid).k
            (((w.modR rid (updF w.db so c)).removeLongE rid).addExpried rid).k :=
          PKeepX.modRec (X := (· = rid)) _ rid (fun r => { r with refCount := r.refCount + 1 }) (fun _ => rfl) rfl
        exact (a3.trans (a2.trans a1)).trans pU
      · exact (pk_ref ins_π3 _ rid).trans ((pk_addExpried ins_π3 _ rid (fun _ _ => rfl)).trans (pk_removeLongE ins_π3 _ rid (fun _ _ => rfl)))
      · show w.db.seq ≤ ((((w.modR rid (updF w.db so c)).removeLongE rid).addExpried rid).ref rid).db.seq
        rw [d1]; exact Nat.le_succ _
      · intro sc hsc
        show sc.checked = (((((w.modR rid (updF w.db so c)).removeLongE rid).addExpried rid).ref rid).k.getR rid).eChecked
        have hsc' : (((((w.modR rid (updF w.db so c)).removeLongE rid).addExpried rid).ref rid).k.getR rid).eSched = some sc := hsc
        have e7 := congrArg (fun t => t.2.2.2.2.2.2.1) m2
        have e8 := congrArg (fun t => t.2.2.2.2.2.2.2) m2
        simp only [πG, Rec.armE] at e7 e8
        rw [e8] at hsc'
        rw [← Option.some.inj hsc', wheelAdd_checked, e7]
  obtain ⟨wm, hwm, pxm, p3m, hsm, hhm, hckm⟩ := hmid
  rw [← hwm] at hq ⊢
  have hhF : (wm.modR rid (fun r => { r with conn := c.conn })).k.hasRec rid := (hasRec_modR _ rid rid (fun r => { r with conn := c.conn }) (fun _ => rfl)).mpr hhm
  have gF : (wm.modR rid (fun r => { r with conn := c.conn })).k.getR rid = { wm.k.getR rid with conn := c.conn } :=
    getR_modRec_same _ rid (fun r => { r with conn := c.conn }) (fun _ => rfl) hhm
  have v3 := p3m.val rid hhm
  rw [gU] at v3
  have f1 : (wm.k.getR rid).cmd = c := (congrArg (fun t => t.1) v3).trans (updF_hid _ _ _ _).2
  have f2 : (wm.k.getR rid).depth = (w.k.getR rid).depth := (congrArg (fun t => t.2.1) v3).trans (hf _).2.2.2.2.2
  have f3 : (wm.k.getR rid).hid = (w.k.getR rid).hid := (congrArg (fun t => t.2.2.1) v3).trans (updF_hid _ _ _ _).1
  have f4 : (wm.k.getR rid).timeouted = (w.k.getR rid).timeouted := (congrArg (fun t => t.2.2.2.1) v3).trans (hf _).2.2.2.2.1
  refine h.step_q rid hsm ((PKeepX.modRec (X := (· = rid)) wm.k rid (fun r => { r with conn := c.conn }) (fun _ => rfl) rfl).trans pxm) hq ?_ ?_ ?_ ?_
  · intro _; rw [gF]; show c.conn = (wm.k.getR rid).cmd.conn; rw [f1]
  · intro _ sc hsc; rw [gF] at hsc ⊢; exact hckm sc hsc
  · intro _ hd; rw [gF] at hd ⊢
    have hd' : 0 < (wm.k.getR rid).depth := hd
    rw [f2] at hd'
    exact ⟨hh, hd', f3⟩
  · intro _ ht; rw [gF]; show (wm.k.getR rid).timeouted = true; rw [f4]; exact ht

/-! ### `RemoveLock` -/

theorem removeLock_after_edit {α : Type} (π : Rec → α) (hπ : Ins π) (k : Key) (rid : Nat) :
    PKeep π (k.removeLock rid) (k.modRec rid fun r => { r with depth := 0 }) := by
  unfold Key.removeLock
  simp only []
  split
  · have h2 : PKeep π ({ (k.modRec rid fun r => { r with depth := 0 }).unrefOnly rid with current := none } : Key)
        (k.modRec rid fun r => { r with depth := 0 }) :=
      PKeep.trans (b := (k.modRec rid fun r => { r with depth := 0 }).unrefOnly rid) (PKeep.of_eq rfl) (PKeep.unrefOnly hπ _ rid)
    exact PKeep.trans (b := (Slock.Engine2.locksSkip true
      ({ (k.modRec rid fun r => { r with depth := 0 }).unrefOnly rid with current := none } : Key).locks
      { (k.modRec rid fun r => { r with depth := 0 }).unrefOnly rid with current := none }).1) (PKeep.of_eq rfl)
      ((PKeep.locksSkip hπ true _ _).trans h2)
  · exact PKeep.locksSkip hπ false _ _

theorem locksSkip_sublist_t (l : List Nat) (k : Key) (hl : k.locks = l) :
    ((locksSkip true l k).2.toList ++ (locksSkip true l k).1.locks).Sublist l := by
  induction l generalizing k with
  | nil => unfold locksSkip; rw [hl]; exact List.Sublist.refl _
  | cons x rest ih =>
    unfold locksSkip
    by_cases hlv : k.liveHolder x = true
    · rw [if_pos hlv]
      simp only [if_true, Option.toList_some, List.singleton_append]
      exact List.Sublist.refl _
    · rw [if_neg hlv]
      obtain ⟨q1, _⟩ := unref_queues { k with locks := rest, locksPopped := k.locksPopped + 1 } x
      exact (ih _ q1).trans (List.sublist_cons_self x rest)

theorem locksSkip_sublist_f (l : List Nat) (k : Key) (hl : k.locks = l) : (locksSkip false l k).1.locks.Sublist l := by
  induction l generalizing k with
  | nil => unfold locksSkip; rw [hl]; exact List.Sublist.refl _
  | cons x rest ih =>
    unfold locksSkip
    by_cases hlv : k.liveHolder x = true
    · rw [if_pos hlv]
      simp only [Bool.false_eq_true, if_false]
      rw [hl]; exact List.Sublist.refl _
    · rw [if_neg hlv]
      obtain ⟨q1, _⟩ := unref_queues { k with locks := rest, locksPopped := k.locksPopped + 1 } x
      exact (ih _ q1).trans (List.sublist_cons_self x rest)

theorem removeLock_sublist (k : Key) (h : Nat) :
    ((k.removeLock h).current.toList ++ (k.removeLock h).locks).Sublist (k.current.toList ++ k.locks) := by
  unfold Key.removeLock
  simp only []
  split
  · have := locksSkip_sublist_t ({ (k.modRec h fun r => { r with depth := 0 }).unrefOnly h with current := none } : Key).locks
      ({ (k.modRec h fun r => { r with depth := 0 }).unrefOnly h with current := none } : Key) rfl
    exact this.trans (List.sublist_append_right _ _)
  · obtain ⟨_, i2⟩ := locksSkip_queues false (k.modRec h fun r => { r with depth := 0 }).locks (k.modRec h fun r => { r with depth := 0 })
    have := locksSkip_sublist_f (k.modRec h fun r => { r with depth := 0 }).locks (k.modRec h fun r => { r with depth := 0 }) rfl
    rw [i2]
    exact List.Sublist.append (List.Sublist.refl _) this

theorem KI.removeLock {seq : Nat} {k : Key} (h : KI seq k) (rid : Nat) : KI seq (k.removeLock rid) := by
  have pa := removeLock_after_edit πI ins_πI k rid
  have hsl := removeLock_sublist k rid
  have hf : ∀ r : Rec, ({ r with depth := 0 } : Rec).rid = r.rid := fun _ => rfl
  have px : PKeepX πI (· = rid) (k.removeLock rid) k :=
    (PKeepX.of_pk pa).trans (PKeepX.modRec (X := (· = rid)) k rid _ hf rfl)
  have key : ∀ hh : (k.removeLock rid).hasRec rid, k.hasRec rid ∧
      ((k.removeLock rid).getR rid).conn = (k.getR rid).conn ∧ ((k.removeLock rid).getR rid).cmd = (k.getR rid).cmd ∧
      ((k.removeLock rid).getR rid).depth = 0 ∧ ((k.removeLock rid).getR rid).eSched = (k.getR rid).eSched ∧
      ((k.removeLock rid).getR rid).eChecked = (k.getR rid).eChecked ∧ ((k.removeLock rid).getR rid).timeouted = (k.getR rid).timeouted := by
    intro hh
    have h1 := pa.sub rid hh
    have hk := (hasRec_modRec k rid rid _ hf).mp h1
    have := pa.val rid hh
    rw [getR_modRec_same _ _ _ hf hk] at this
    exact ⟨hk, congrArg (fun t => t.1) this, congrArg (fun t => t.2.1) this, congrArg (fun t => t.2.2.1) this, congrArg (fun t => t.2.2.2.1) this,
      congrArg (fun t => t.2.2.2.2.1) this, congrArg (fun t => t.2.2.2.2.2.2) this⟩
  refine KI.step1_same (k := k) h rid (Nat.le_refl _) px (fun y hy => Or.inl (hsl.subset hy)) (hsl.nodup h.ln)
    (by rw [removeLock_wait]; exact h.nd) ?_ ?_ ?_ ?_
  · intro hh; obtain ⟨hk, e1, e2, _⟩ := key hh
    rw [e1, e2]; exact h.cs rid hk
  · intro hh sc hsc; obtain ⟨hk, _, _, _, e4, e5, _⟩ := key hh
    rw [e4] at hsc
    rw [e5]; exact h.ck rid hk sc hsc
  · intro hh hd; obtain ⟨hk, _, _, e3, _⟩ := key hh
    rw [e3] at hd
    exact absurd hd (by simp)
  · intro hm
    by_cases hh : (k.removeLock rid).hasRec rid
    · obtain ⟨hk, _, _, _, _, _, e7⟩ := key hh
      rw [e7]
      exact h.ht rid (hsl.subset hm)
    · exact timeouted_dead _ _ hh

end Slock.Sim
