import Slock.Proofs.EngineSimTickCongr
import Slock.Proofs.EngineSimTickSQTick
/-! Stage 1 (M-ENGINE): `opTick` respects `Sim.Equiv` on databases with distinct key ids and distinct wheel sequence numbers (`S3`). -/
namespace Slock.SimTick
open Slock Slock.Engine Slock.Sim

theorem opTick_congr {a b : DB} (h : Equiv a b) (sa : S3 a) (sb : S3 b) :
    Equiv (opTick a).1 (opTick b).1 ∧ (opTick a).2 = (opTick b).2 := by
  have e0 : Equiv ({ a with now := a.now + 1, tCheck := a.now + 1 + 1 } : DB) { b with now := a.now + 1, tCheck := a.now + 1 + 1 } :=
    ⟨rfl, rfl, h.eCheck, h.seq, h.leader, h.ctr, fun n => h.keys n⟩
  have sa0 : S3 ({ a with now := a.now + 1, tCheck := a.now + 1 + 1 } : DB) := sa.of_keys_eq rfl (Nat.le_refl _)
  have sb0 : S3 ({ b with now := a.now + 1, tCheck := a.now + 1 + 1 } : DB) := sb.of_keys_eq rfl (Nat.le_refl _)
  obtain ⟨t1, t2⟩ := sweepTimeout_congr e0 sa0.kn sb0.kn sa0.sq (a.now + 1)
  have sa1 := sweepTimeout_s3 _ (a.now + 1) sa0
  have sb1 := sweepTimeout_s3 _ (a.now + 1) sb0
  have e2 : Equiv ({ (sweepTimeout { a with now := a.now + 1, tCheck := a.now + 1 + 1 } (a.now + 1)).1 with eCheck := a.now + 1 + 1 } : DB)
      { (sweepTimeout { b with now := a.now + 1, tCheck := a.now + 1 + 1 } (a.now + 1)).1 with eCheck := a.now + 1 + 1 } :=
    ⟨t1.now, t1.tCheck, rfl, t1.seq, t1.leader, t1.ctr, fun n => t1.keys n⟩
  have sa2 : S3 ({ (sweepTimeout { a with now := a.now + 1, tCheck := a.now + 1 + 1 } (a.now + 1)).1 with eCheck := a.now + 1 + 1 } : DB) :=
    sa1.of_keys_eq rfl (Nat.le_refl _)
  have sb2 : S3 ({ (sweepTimeout { b with now := a.now + 1, tCheck := a.now + 1 + 1 } (a.now + 1)).1 with eCheck := a.now + 1 + 1 } : DB) :=
    sb1.of_keys_eq rfl (Nat.le_refl _)
  obtain ⟨u1, u2⟩ := sweepExpire_congr e2 sa2.kn sb2.kn sa2.sq (a.now + 1)
  have hb : b.now = a.now := h.now.symm
  unfold opTick
  simp only []
  rw [hb]
  exact ⟨u1, by rw [t2, u2]⟩

end Slock.SimTick
