import Slock.Proofs.Engine2SimInvRun
/-! Simulation stage 2 → stage 1: what the branch simulations assume of the key record, from `KI`. -/
namespace Slock.Sim
open Slock Slock.Engine2
open Slock.Engine (has)

theorem hasRec_of_live {k : Key} {y : Nat} (h : k.liveHolder y = true) : k.hasRec y := by
  apply Classical.byContradiction
  intro hn
  unfold Key.liveHolder at h
  rw [getR_of_not_hasRec k y hn] at h
  simp [deadRec] at h

theorem hasRec_of_liveWaiter {k : Key} {y : Nat} (h : k.deadWaiter y = false) : k.hasRec y := by
  apply Classical.byContradiction
  intro hn
  unfold Key.deadWaiter at h
  rw [getR_of_not_hasRec k y hn] at h
  simp [deadRec] at h

theorem KI.wq {seq : Nat} {k : Key} (h : KI seq k) : WQ k := by
  refine ⟨h.nd, ?_, ?_⟩
  · intro e _ hd hm
    have := h.ht e.rid hm
    unfold Key.deadWaiter at hd
    rw [this] at hd; exact absurd hd (by simp)
  · intro e _ hd
    exact h.cs e.rid (hasRec_of_liveWaiter hd)

theorem KI.ckSync {seq : Nat} {k : Key} (h : KI seq k) : CkSync k := fun y sc hl hsc => h.ck y (hasRec_of_live hl) sc hsc

theorem nodup_map_on {α β : Type} (f : α → β) (l : List α) (hn : l.Nodup) (hinj : ∀ a ∈ l, ∀ b ∈ l, f a = f b → a = b) : (l.map f).Nodup := by
  induction l with
  | nil => simp
  | cons x xs ih =>
    simp only [List.nodup_cons] at hn
    simp only [List.map_cons, List.nodup_cons]
    refine ⟨?_, ih hn.2 (fun a ha b hb => hinj a (List.mem_cons_of_mem _ ha) b (List.mem_cons_of_mem _ hb))⟩
    intro hm
    obtain ⟨y, hy, e⟩ := List.mem_map.mp hm
    have := hinj y (List.mem_cons_of_mem _ hy) x (by simp) e
    rw [this] at hy
    exact hn.1 hy

theorem KI.hidNodup {seq : Nat} {k : Key} (h : KI seq k) : ((Key.abs k).holders.map (·.hid)).Nodup := by
  rw [abs_holders, List.map_map]
  apply nodup_map_on
  · exact (List.filter_sublist).nodup h.ln
  · intro a ha b hb e
    have la : k.liveHolder a = true := (List.mem_filter.mp ha).2
    have lb : k.liveHolder b = true := (List.mem_filter.mp hb).2
    have da : 0 < (k.getR a).depth := by unfold Key.liveHolder at la; simpa using la
    have db : 0 < (k.getR b).depth := by unfold Key.liveHolder at lb; simpa using lb
    exact h.hinj a b (hasRec_of_live la) (hasRec_of_live lb) da db e

end Slock.Sim
