import Slock.Model.Text
/-! Helper lemmas for M-TEXT: decimal rendering vs `atoi` (C14 text part). -/
namespace Slock.Text

def isDigit (b : UInt8) : Prop := 48 ≤ b.toNat ∧ b.toNat ≤ 57

theorem toUInt8_toNat' (n : Nat) (h : n < 256) : n.toUInt8.toNat = n := by
  simp [Nat.toUInt8, UInt8.ofNat, UInt8.toNat, Nat.mod_eq_of_lt h]

theorem digitVal_digit (d : Nat) (h : d < 10) : digitVal (digitByte d) = some d := by
  unfold digitVal digitByte
  rw [toUInt8_toNat' _ (by omega)]
  simp
  omega

theorem isDigit_digit (d : Nat) (h : d < 10) : isDigit (digitByte d) := by
  unfold isDigit digitByte
  rw [toUInt8_toNat' _ (by omega)]
  omega

theorem parseDigits_append (xs : Bytes) (d : Nat) (h : d < 10) (acc : Nat) :
    parseDigits (xs ++ [digitByte d]) acc = (parseDigits xs acc).map (fun a => a * 10 + d) := by
  induction xs generalizing acc with
  | nil => simp [parseDigits, digitVal_digit d h]
  | cons x xs ih =>
    simp only [List.cons_append, parseDigits]
    cases digitVal x with
    | none => simp
    | some v => simp [ih]

theorem parseDigits_decDigits (f n : Nat) (h : n < f) : parseDigits (decDigits f n) 0 = some n := by
  induction f generalizing n with
  | zero => omega
  | succ f ih =>
    unfold decDigits
    by_cases h10 : n < 10
    · simp [h10, parseDigits, digitVal_digit n h10]
    · simp only [h10, if_false]
      rw [parseDigits_append _ _ (Nat.mod_lt _ (by omega)), ih (n / 10) (by omega)]
      simp
      omega

theorem decDigits_all_digit (f n : Nat) : ∀ b ∈ decDigits f n, isDigit b := by
  induction f generalizing n with
  | zero => simp [decDigits]
  | succ f ih =>
    unfold decDigits
    by_cases h10 : n < 10
    · simp [h10]; exact isDigit_digit n h10
    · simp only [h10, if_false, List.mem_append, List.mem_singleton]
      intro b hb
      rcases hb with hb | hb
      · exact ih _ b hb
      · subst hb; exact isDigit_digit _ (Nat.mod_lt _ (by omega))

theorem decDigits_ne_nil (f n : Nat) : decDigits (f + 1) n ≠ [] := by
  unfold decDigits
  by_cases h10 : n < 10 <;> simp [h10]

theorem decDigits_length (f n k : Nat) (h : n < 10 ^ k) (hk : 0 < k) : (decDigits f n).length ≤ k := by
  induction f generalizing n k with
  | zero => simp [decDigits]
  | succ f ih =>
    unfold decDigits
    by_cases h10 : n < 10
    · simp [h10]; omega
    · simp only [h10, if_false, List.length_append, List.length_singleton]
      cases k with
      | zero => omega
      | succ k =>
        cases k with
        | zero => simp at h; omega
        | succ k =>
          have : n / 10 < 10 ^ (k + 1) := by
            rw [Nat.div_lt_iff_lt_mul (by omega)]
            rw [Nat.pow_succ] at h
            exact h
          have := ih (n / 10) (k + 1) this (by omega)
          omega

theorem natToDec_all_digit (n : Nat) : ∀ b ∈ natToDec n, isDigit b := decDigits_all_digit _ _

theorem natToDec_length (n : Nat) (h : n < 9223372036854775808) : (natToDec n).length ≤ 19 := by
  apply decDigits_length _ _ 19 _ (by omega)
  have : (9223372036854775808 : Nat) < 10 ^ 19 := by decide
  omega

theorem isDigit_ne (b : UInt8) (h : isDigit b) : b ≠ 10 ∧ b ≠ 13 ∧ b ≠ 45 ∧ b ≠ 43 := by
  unfold isDigit at h
  refine ⟨?_, ?_, ?_, ?_⟩ <;> (intro hb; subst hb; revert h; decide)

theorem atoi_natToDec (n : Nat) (h : n < 9223372036854775808) : atoi (natToDec n) = some (n : Int) := by
  have hp : parseDigits (natToDec n) 0 = some n := parseDigits_decDigits _ _ (by omega)
  have hd := natToDec_all_digit n
  have hne : natToDec n ≠ [] := decDigits_ne_nil _ _
  cases hx : natToDec n with
  | nil => exact absurd hx hne
  | cons b rest =>
    rw [hx] at hp hd
    have hb := isDigit_ne b (hd b (by simp))
    unfold atoi
    simp only [hb.2.2.1, hb.2.2.2, if_false, hp]
    simp [h]

end Slock.Text
