import Slock.Proofs.TransInv
/-! M-TRANS: the ghost field `Conn.got` IS the list of lock / unlock results the connection's client was handed —
defined from the outputs of the steps alone (`delivered`). -/
namespace Slock.Trans
open Slock.Gen

/-- the RequestIds of the lock / unlock results addressed to connection `c` in a list of client messages -/
def msgsTo (c : Nat) (ms : List (Nat × ToClient)) : List Nat :=
  ms.filterMap (fun p => if p.1 = c then lockShaped p.2 else none)

/-- the RequestIds of all lock / unlock results connection `c`'s client receives over a run, in order -/
def delivered (c : Nat) : Node → List Event → List Nat
  | _, [] => []
  | s, e :: es => msgsTo c (step s e).2.client ++ delivered c (step s e).1 es

theorem msgsTo_nil (c : Nat) : msgsTo c [] = [] := rfl

theorem msgsTo_append (c : Nat) (a b : List (Nat × ToClient)) : msgsTo c (a ++ b) = msgsTo c a ++ msgsTo c b := by
  simp [msgsTo, List.filterMap_append]

theorem msgsTo_other {c : Nat} {ms : List (Nat × ToClient)} (h : ∀ p ∈ ms, p.1 ≠ c) : msgsTo c ms = [] := by
  induction ms with
  | nil => rfl
  | cons p ps ih =>
    simp only [msgsTo, List.filterMap_cons]
    rw [if_neg (h p (by simp))]
    exact ih (fun q hq => h q (by simp [hq]))

theorem msgsTo_single (c : Nat) (m : ToClient) : msgsTo c [(c, m)] = (lockShaped m).toList := by
  simp only [msgsTo, List.filterMap_cons, if_true, List.filterMap_nil]
  cases lockShaped m <;> rfl

theorem addGot_got (x : Conn) (m : ToClient) : (addGot x m).got = x.got ++ (lockShaped m).toList := by
  unfold addGot; split <;> simp [*]

theorem applyConn_got (s : Node) (c : Nat) (x : Conn) (rid : Option Nat) (b : Branch)
    (hack : ∀ ct cmd l n pre aw a, b = .fwdLk ct cmd l n pre aw (some a) → lockShaped a = none) :
    (applyConn s c x rid b).1.got = x.got ++ msgsTo c (applyConn s c x rid b).2.client := by
  cases b with
  | ign => simp [applyConn, msgsTo]
  | busy => simp [applyConn, msgsTo]
  | loc => simp [applyConn, msgsTo]
  | refuse m => simp only [applyConn, addGot_got, msgsTo_single, dispatched_got]
  | probed r => simp only [applyConn, addGot_got, msgsTo_single, dispatched_got]
  | fwdLk ct cmd l n pre aw ack =>
    cases ack with
    | none => simp [applyConn, msgsTo]
    | some a =>
      simp [applyConn, msgsTo_single, hack ct cmd l n pre aw a rfl]
  | fwdInit rid' cid l n => simp [applyConn, msgsTo]
  | initRefused rid' cid => simp [applyConn, msgsTo, lockShaped]
  | fwdCall rid' l n pre => simp [applyConn, msgsTo]

theorem classify_ack {s : Node} {x : Conn} {short : Bool} {q : Req} {ct cmd l n pre aw a}
    (h : classify s x short q = .fwdLk ct cmd l n pre aw (some a)) : lockShaped a = none := by
  cases q with
  | will wct wcmd =>
    rcases classify_will_shape (s := s) (x := x) (short := short) (ct := wct) (cmd := wcmd) with h1 | h1 | h1 <;> rw [h1] at h <;> cases h
  | lk ct' md cmd' rep =>
    obtain ⟨_, _, _, _, _, hk⟩ := classify_lk_fwd h
    rcases hk with ⟨_, _, _, hack⟩ | ⟨_, _, hm⟩
    · cases hack
    · rcases hm with ⟨_, _, hack⟩ | ⟨_, _, hack⟩
      · cases hack; rfl
      · cases hack
  | init rid cid =>
    rcases classify_init_shape (s := s) (x := x) (short := short) (rid := rid) (cid := cid) with h1 | h1 | h1 | h1 | ⟨_, _, _, h1, _⟩ <;>
      rw [h1] at h <;> cases h
  | call rid fw =>
    rcases classify_call_shape (s := s) (x := x) (short := short) (rid := rid) (fw := fw) with h1 | h1 | h1 | h1 | ⟨_, _, _, h1, _⟩ <;>
      rw [h1] at h <;> cases h
  | other =>
    rcases classify_other_shape (s := s) (x := x) (short := short) with h1 | h1 | h1 <;> rw [h1] at h <;> cases h

theorem textDeliver_got (x : Conn) (l : Link) (md : TextMode) (r : LockRes) (c : Nat) :
    (textDeliver x l md r c).1.got = x.got ++ msgsTo c (textDeliver x l md r c).2 := by
  unfold textDeliver
  split
  · simp [msgsTo]
  · simp only [addGot_got, msgsTo_single]

theorem relay_got (s : Node) (c : Nat) (x : Conn) (l : Link) (msg : LeaderMsg) (early : Bool) :
    (relay s c x l msg early).1.got = x.got ++ msgsTo c (relay s c x l msg early).2 := by
  cases hk : x.kind with
  | binary =>
    rw [relay_binary_eq hk]
    cases msg with
    | lockRes r => simp only [addGot_got, msgsTo_single]
    | callRes rid res ct => simp [msgsTo, lockShaped]
    | initRes rid res it =>
      simp only
      repeat' split
      all_goals simp [msgsTo, lockShaped]
    | other => simp [msgsTo]
  | text =>
    rw [relay_text_eq hk]
    cases msg with
    | lockRes r =>
      simp only
      split
      · split
        · exact textDeliver_got _ _ _ _ _
        · simp [msgsTo]
      · simp [msgsTo]
    | callRes rid res ct => simp [msgsTo]
    | initRes rid res it => simp [msgsTo]
    | other => simp [msgsTo]

theorem dropLink_got (s : Node) (c : Nat) (x : Conn) (l : Link) :
    (dropLink s c x l).1.got = x.got ++ msgsTo c (dropLink s c x l).2.1 := by
  unfold dropLink
  simp only
  have key : ∀ r : Conn × List (Nat × ToClient), r.1.got = x.got ++ msgsTo c r.2 →
      (if r.1.closed = true then r.1 else { r.1 with link := none }).got = x.got ++ msgsTo c r.2 := by
    intro r hr; split <;> exact hr
  apply key
  split
  · exact relay_got _ _ _ _ _ _
  · simp [msgsTo]

theorem dropAll_length (s : Node) (xs : List Conn) (i : Nat) : (dropAll s i xs).1.length = xs.length := by
  induction xs generalizing i with
  | nil => rfl
  | cons x xs ih =>
    unfold dropAll
    simp only
    split <;> simp [ih]

theorem dropAll_got (s : Node) (xs : List Conn) (i j : Nat) (x : Conn) (hj : xs[j]? = some x) :
    ∃ x', (dropAll s i xs).1[j]? = some x' ∧ x'.got = x.got ++ msgsTo (i + j) (dropAll s i xs).2.1 := by
  induction xs generalizing i j with
  | nil => simp at hj
  | cons y ys ih =>
    have rest_other : msgsTo i (dropAll s (i + 1) ys).2.1 = [] := by
      apply msgsTo_other
      intro p hp
      obtain ⟨j', _, _, _, hc, _, _⟩ := dropAll_client (c := p.1) (m := p.2) hp
      omega
    unfold dropAll
    simp only
    cases j with
    | zero =>
      simp only [List.getElem?_cons_zero, Option.some.injEq] at hj
      subst hj
      split
      · exact ⟨y, by simp, by simpa using rest_other.symm ▸ (by simp)⟩
      · rename_i l hl
        refine ⟨(dropLink s i y l).1, by simp, ?_⟩
        rw [Nat.add_zero, msgsTo_append, rest_other, List.append_nil]
        exact dropLink_got s i y l
    | succ j =>
      simp only [List.getElem?_cons_succ] at hj
      obtain ⟨x', hx', hg⟩ := ih (i + 1) j hj
      have hidx : i + 1 + j = i + (j + 1) := by omega
      split
      · exact ⟨x', by simpa using hx', by rw [hg, hidx]⟩
      · rename_i l hl
        refine ⟨x', by simpa using hx', ?_⟩
        rw [msgsTo_append, hg, hidx]
        have : msgsTo (i + (j + 1)) (dropLink s i y l).2.1 = [] := by
          apply msgsTo_other
          intro p hp
          have := (dropLink_client (c' := p.1) (m := p.2) hp).1
          omega
        rw [this, List.nil_append]

theorem willConn_got (s : Node) (c : Nat) (x : Conn) (ct : CType) (cmd : LockCmd) :
    (willConn s c x ct cmd).1.got = x.got ++ msgsTo c (willConn s c x ct cmd).2.client := by
  unfold willConn
  repeat' split
  all_goals simp [msgsTo, lockShaped]

theorem stepRequest_client_idx {s : Node} {d : Nat} {short : Bool} {q : Req} {c' : Nat} {m : ToClient}
    (h : (c', m) ∈ (stepRequest s d short q).2.client) : c' = d ∧ d < s.conns.length := by
  rcases will_or_not q with ⟨wct, wcmd, rfl⟩ | hq
  · rw [stepRequest_will] at h
    split at h
    · simp at h
    · rename_i y hy
      exact ⟨(willConn_client h).1, idx_lt hy⟩
  · rw [stepRequest_eq hq] at h
    split at h
    · simp at h
    · rename_i y hy
      exact ⟨(applyConn_client h).1, idx_lt hy⟩

theorem stepRequest_conns (s : Node) (d : Nat) (short : Bool) (q : Req) :
    (stepRequest s d short q).1.conns = s.conns ∨ ∃ y, (stepRequest s d short q).1.conns = s.conns.set d y := by
  rcases will_or_not q with ⟨wct, wcmd, rfl⟩ | hq
  · rw [stepRequest_will]; split
    · exact Or.inl rfl
    · exact Or.inr ⟨_, rfl⟩
  · rw [stepRequest_eq hq]; split
    · exact Or.inl rfl
    · exact Or.inr ⟨_, rfl⟩

/-- one step: what the client of an existing connection `c` is handed is exactly what its `got` grows by -/
theorem got_step {s : Node} {c : Nat} {x : Conn} (hx : s.conns[c]? = some x) (e : Event) :
    ∃ x', (step s e).1.conns[c]? = some x' ∧ x'.got = x.got ++ msgsTo c (step s e).2.client := by
  have hlt := idx_lt hx
  have frame : ∀ (hf : match e with
      | .accept _ => True | .request d _ _ => d ≠ c | .leaderMsg d _ _ => d ≠ c | .linkDown d => d ≠ c
      | .role _ => True | .unattached _ => True | .leader _ => False | .close d => d ≠ c | .closeCut d _ => d ≠ c),
      msgsTo c (step s e).2.client = [] →
      ∃ x', (step s e).1.conns[c]? = some x' ∧ x'.got = x.got ++ msgsTo c (step s e).2.client := by
    intro hf hm; exact ⟨x, step_frame hx e hf, by rw [hm]; simp⟩
  cases e with
  | accept k => exact frame trivial (by simp [step, msgsTo])
  | role r => exact frame trivial (by simp [step, msgsTo])
  | unattached d => exact frame trivial (by simp [step, msgsTo])
  | request d short q =>
    by_cases hd : d = c
    · subst hd
      rcases will_or_not q with ⟨wct, wcmd, rfl⟩ | hq
      · simp only [step, stepRequest_will, hx, List.getElem?_set_self hlt]
        exact ⟨_, rfl, willConn_got _ _ _ _ _⟩
      · simp only [step, stepRequest_eq hq, hx, List.getElem?_set_self hlt]
        exact ⟨_, rfl, applyConn_got _ _ _ _ _ (fun _ _ _ _ _ _ _ h => classify_ack h)⟩
    · apply frame hd
      apply msgsTo_other
      intro p hp
      have := (stepRequest_client_idx (c' := p.1) (m := p.2) hp).1
      omega
  | leaderMsg d msg early =>
    by_cases hd : d = c
    · subst hd
      simp only [step, stepLeaderMsg, hx]
      split
      · exact ⟨x, hx, by simp [msgsTo]⟩
      · simp only [List.getElem?_set_self hlt]
        exact ⟨_, rfl, relay_got _ _ _ _ _ _⟩
    · apply frame hd
      apply msgsTo_other
      intro p hp
      have := (leaderMsg_client s d msg early p.1 p.2 hp).1
      omega
  | linkDown d =>
    by_cases hd : d = c
    · subst hd
      simp only [step, stepLinkDown, hx]
      split
      · exact ⟨x, hx, by simp [msgsTo]⟩
      · simp only [List.getElem?_set_self hlt]
        exact ⟨_, rfl, dropLink_got _ _ _ _⟩
    · apply frame hd
      apply msgsTo_other
      intro p hp
      simp only [step, stepLinkDown] at hp
      split at hp
      · simp at hp
      · split at hp
        · simp at hp
        · have := (dropLink_client (c' := p.1) (m := p.2) hp).1
          omega
  | leader a =>
    simp only [step, stepLeader]
    split
    · simp only
      obtain ⟨x', h1, h2⟩ := dropAll_got { s with addr := a } s.conns 0 c x hx
      exact ⟨x', h1, by simpa using h2⟩
    · exact ⟨x, hx, by simp [msgsTo]⟩
  | close d =>
    by_cases hd : d = c
    · subst hd
      simp only [step, stepClose, hx]
      repeat' split
      all_goals first
        | exact ⟨x, hx, by simp [msgsTo]⟩
        | (simp only [List.getElem?_set_self hlt]; exact ⟨_, rfl, by simp [msgsTo]⟩)
    · apply frame hd
      simp only [step, stepClose]
      repeat' split
      all_goals simp [msgsTo]

  | closeCut d k =>
    by_cases hd : d = c
    · subst hd
      simp only [step, stepClose, hx]
      repeat' split
      all_goals first
        | exact ⟨x, hx, by simp [msgsTo]⟩
        | (simp only [List.getElem?_set_self hlt]; exact ⟨_, rfl, by simp [msgsTo]⟩)
    · apply frame hd
      simp only [step, stepClose]
      repeat' split
      all_goals simp [msgsTo]

/-- one step, a connection number that does not exist yet: nothing is addressed to it, and it stays non-existent or
is accepted with an empty `got` -/
theorem got_step_none {s : Node} {c : Nat} (hx : s.conns[c]? = none) (e : Event) :
    msgsTo c (step s e).2.client = [] ∧
    ((step s e).1.conns[c]? = none ∨ ∃ x', (step s e).1.conns[c]? = some x' ∧ x'.got = []) := by
  have hge : s.conns.length ≤ c := by
    rcases Nat.lt_or_ge c s.conns.length with h | h
    · rw [List.getElem?_eq_getElem h] at hx; cases hx
    · exact h
  have setnone : ∀ d y, (s.conns.set d y)[c]? = none := by
    intro d y; apply List.getElem?_eq_none; simpa using hge
  cases e with
  | accept k =>
    refine ⟨by simp [step, msgsTo], ?_⟩
    simp only [step]
    by_cases hc : c = s.conns.length
    · right; subst hc; exact ⟨{ kind := k }, by simp, rfl⟩
    · left; apply List.getElem?_eq_none; simp; omega
  | role r => exact ⟨by simp [step, msgsTo], Or.inl hx⟩
  | unattached d => exact ⟨by simp [step, msgsTo], Or.inl hx⟩
  | request d short q =>
    simp only [step]
    refine ⟨?_, Or.inl ?_⟩
    · apply msgsTo_other
      intro p hp
      have := stepRequest_client_idx (c' := p.1) (m := p.2) hp
      omega
    · rcases stepRequest_conns s d short q with h | ⟨y, h⟩ <;> rw [h]
      · exact hx
      · exact setnone _ _
  | leaderMsg d msg early =>
    simp only [step, stepLeaderMsg]
    split
    · exact ⟨by simp [msgsTo], Or.inl hx⟩
    · rename_i y hy
      split
      · exact ⟨by simp [msgsTo], Or.inl hx⟩
      · refine ⟨?_, Or.inl (setnone _ _)⟩
        apply msgsTo_other
        intro p hp
        have := (relay_client (c' := p.1) (m := p.2) hp).1
        have := idx_lt hy
        omega
  | linkDown d =>
    simp only [step, stepLinkDown]
    split
    · exact ⟨by simp [msgsTo], Or.inl hx⟩
    · rename_i y hy
      split
      · exact ⟨by simp [msgsTo], Or.inl hx⟩
      · refine ⟨?_, Or.inl (setnone _ _)⟩
        apply msgsTo_other
        intro p hp
        have := (dropLink_client (c' := p.1) (m := p.2) hp).1
        have := idx_lt hy
        omega
  | leader a =>
    simp only [step, stepLeader]
    split
    · refine ⟨?_, Or.inl ?_⟩
      · apply msgsTo_other
        intro p hp
        obtain ⟨j, y, _, hj, hc, _, _⟩ := dropAll_client (c := p.1) (m := p.2) hp
        have : j < s.conns.length := by
          rcases Nat.lt_or_ge j s.conns.length with h | h
          · exact h
          · rw [List.getElem?_eq_none h] at hj; cases hj
        omega
      · apply List.getElem?_eq_none
        simp only [dropAll_length]; exact hge
    · exact ⟨by simp [msgsTo], Or.inl hx⟩
  | close d =>
    simp only [step, stepClose]
    repeat' split
    all_goals first
      | exact ⟨by simp [msgsTo], Or.inl hx⟩
      | exact ⟨by simp [msgsTo], Or.inl (setnone _ _)⟩

  | closeCut d k =>
    simp only [step, stepClose]
    repeat' split
    all_goals first
      | exact ⟨by simp [msgsTo], Or.inl hx⟩
      | exact ⟨by simp [msgsTo], Or.inl (setnone _ _)⟩

/-- **`got` = what was delivered**, over any run -/
theorem got_run (c : Nat) (evs : List Event) : ∀ (s : Node),
    (∀ x, s.conns[c]? = some x → ∃ x', (runFrom s evs).conns[c]? = some x' ∧ x'.got = x.got ++ delivered c s evs) ∧
    (s.conns[c]? = none → ∀ x', (runFrom s evs).conns[c]? = some x' → x'.got = delivered c s evs) := by
  induction evs with
  | nil =>
    intro s
    refine ⟨fun x hx => ⟨x, hx, by simp [delivered]⟩, fun hn x' hx' => ?_⟩
    simp only [runFrom, List.foldl_nil] at hx'
    rw [hn] at hx'; cases hx'
  | cons e es ih =>
    intro s
    have hrun : runFrom s (e :: es) = runFrom (step s e).1 es := rfl
    refine ⟨?_, ?_⟩
    · intro x hx
      obtain ⟨x1, h1, g1⟩ := got_step hx e
      obtain ⟨x', h2, g2⟩ := (ih (step s e).1).1 x1 h1
      exact ⟨x', by rw [hrun]; exact h2, by rw [g2, g1]; simp [delivered]⟩
    · intro hn x' hx'
      rw [hrun] at hx'
      obtain ⟨hm, hnext⟩ := got_step_none hn e
      simp only [delivered, hm, List.nil_append]
      rcases hnext with h | ⟨x1, h1, g1⟩
      · exact (ih (step s e).1).2 h x' hx'
      · obtain ⟨x2, h2, g2⟩ := (ih (step s e).1).1 x1 h1
        rw [h2] at hx'; cases hx'
        rw [g2, g1]; simp

/-- **At most one result per request**: under the assumptions `Ok` (fresh RequestIds, a leader that answers each
forwarded LOCK / UNLOCK once and on the link it came by, no answer overtaking `Write`'s bookkeeping), no RequestId
occurs twice among the lock / unlock results a client receives — over every event sequence from the initial node. -/
theorem delivered_nodup (evs : List Event) (hok : OkRun {} evs) (c : Nat) (x : Conn) (hx : (run evs).conns[c]? = some x) :
    (delivered c {} evs).Nodup := by
  have hinv : NInv (run evs) := ninv_run evs ninv_init hok
  have hg := (got_run c evs {}).2 (by simp) x hx
  rw [← hg]
  exact (hinv x (List.mem_of_getElem? hx)).gotNodup

end Slock.Trans
