/-! C20 helper lemmas: generic take/drop/set facts used by the deque refinement. Core tactics only. -/
namespace Slock.Queue
variable {α : Type}

theorem G_push (g : List α) (H T : Nat) (x : α) (hHT : H ≤ T) (hT : T < g.length) :
    ((g.set T x).take (T + 1)).drop H = (g.take T).drop H ++ [x] := by
  have hm : min T g.length = T := Nat.min_eq_left (by omega)
  apply List.ext_getElem?
  intro i
  simp only [List.getElem?_drop, List.getElem?_take, List.getElem?_set, List.getElem?_append, List.length_drop, List.length_take, hm]
  by_cases h1 : H + i < T
  · have h2 : ¬ T = H + i := by omega
    have h3 : H + i < T + 1 := by omega
    have h4 : i < T - H := by omega
    simp [h1, h2, h3, h4]
  · by_cases h2 : H + i = T
    · have h3 : i - (T - H) = 0 := by omega
      have h4 : ¬ i < T - H := by omega
      simp [h2, hT, h3, h4]
    · have h3 : ¬ (H + i < T + 1) := by omega
      have h4 : ¬ (i < T - H) := by omega
      simp only [h3, h4, if_false]
      cases hh : i - (T - H) with
      | zero => omega
      | succ n => simp

theorem G_dropset (g : List α) (H T i : Nat) (x : α) (hi : i < H) :
    ((g.set i x).take T).drop H = (g.take T).drop H := by
  apply List.ext_getElem?
  intro k
  simp only [List.getElem?_drop, List.getElem?_take, List.getElem?_set]
  have : ¬ i = H + k := by omega
  simp [this]

theorem G_takeset (g : List α) (H T i : Nat) (x : α) (hi : T ≤ i) :
    ((g.set i x).take T).drop H = (g.take T).drop H := by
  apply List.ext_getElem?
  intro k
  simp only [List.getElem?_drop, List.getElem?_take, List.getElem?_set]
  by_cases h : H + k < T
  · have : ¬ i = H + k := by omega
    simp [this]
  · simp [h]

theorem G_tail (g : List α) (H T : Nat) :
    (g.take T).drop (H + 1) = ((g.take T).drop H).tail := by
  simp [List.tail_drop]

theorem G_head (g : List α) (H T : Nat) (h : H < T) :
    ((g.take T).drop H).head? = g[H]? := by
  simp [List.head?_drop, List.getElem?_take, h]

theorem G_cons (g : List α) (H T : Nat) (x : α) (hH : 0 < H) (hHT : H ≤ T) (hT : T ≤ g.length) :
    ((g.set (H - 1) x).take T).drop (H - 1) = x :: (g.take T).drop H := by
  apply List.ext_getElem?
  intro k
  cases k with
  | zero =>
    simp only [List.getElem?_drop, List.getElem?_take, List.getElem?_set]
    have : H - 1 < T := by omega
    have : H - 1 < g.length := by omega
    simp [*]
  | succ k =>
    simp only [List.getElem?_drop, List.getElem?_take, List.getElem?_set, List.getElem?_cons_succ]
    have e : H - 1 + (k + 1) = H + k := by omega
    have h2 : ¬ H - 1 = H + k := by omega
    simp [e, h2]

theorem G_dropLast (g : List α) (H T : Nat) (hT : T ≤ g.length) (h0 : 0 < T):
    (g.take (T - 1)).drop H = ((g.take T).drop H).dropLast := by
  have hm : min T g.length = T := Nat.min_eq_left (by omega)
  apply List.ext_getElem?
  intro k
  simp only [List.getElem?_drop, List.getElem?_take, List.getElem?_dropLast, List.length_drop, List.length_take, hm]
  by_cases h : H + k < T - 1
  · have h1 : k < T - H - 1 := by omega
    have h2 : H + k < T := by omega
    simp [h, h1, h2]
  · have h1 : ¬ k < T - H - 1 := by omega
    simp [h, h1]

theorem G_last (g : List α) (H T : Nat) (h : H < T) (hT : T ≤ g.length) :
    ((g.take T).drop H).getLast? = g[T - 1]? := by
  have hm : min T g.length = T := Nat.min_eq_left (by omega)
  rw [List.getLast?_eq_getElem?]
  simp only [List.getElem?_drop, List.getElem?_take, List.length_drop, List.length_take, hm]
  have e : H + (T - H - 1) = T - 1 := by omega
  have h1 : T - 1 < T := by omega
  simp [e, h1]

theorem G_hole (g : List α) (H T p : Nat) (x : α) :
    ((g.set (H + p) x).take T).drop H = ((g.take T).drop H).set p x := by
  apply List.ext_getElem?
  intro k
  simp only [List.getElem?_drop, List.getElem?_take, List.getElem?_set, List.length_drop, List.length_take, List.length_set]
  by_cases hk : p = k
  · subst hk
    by_cases h : H + p < T
    · by_cases h2 : H + p < g.length
      · have : p < min T g.length - H := by omega
        simp [h, h2, this]
      · have : ¬ p < min T g.length - H := by omega
        simp [h, h2, this]
    · have : ¬ p < min T g.length - H := by omega
      simp [h, this]
  · have : ¬ H + p = H + k := by omega
    simp [this, hk]

theorem G_len (g : List α) (H T : Nat) (hT : T ≤ g.length) : ((g.take T).drop H).length = T - H := by
  simp; omega

end Slock.Queue
