import Slock.Proofs.ValueBasic
/-! Per-operation refinement lemmas for M-VALUE (`processFrame` on canonical frames vs `specApply`). -/
namespace Slock.Value

/-- array-flagged images carry an exact element list with non-empty elements -/
def Frm.ArrOK (f : Frm) : Prop := hasFlag f.flag fARRAY = true → ∃ xs, f.payload = encElems xs ∧ ElemsOK xs

/-- the value an image denotes -/
def Frm.val (f : Frm) : Val := if hasFlag f.flag fARRAY then .array (specElems f.payload) else .bytes f.payload

/-- Well-formed cells: no cell, the UNSET marker, or a canonical SET-image. -/
inductive CellWF : Option Cell → Prop
  | none : CellWF none
  | unset (aof : Bool) : CellWF (some (unsetCell aof))
  | data (g : Frm) (ex : Bytes) (ct : Nat) (aof : Bool) :
      g.op = 0 → g.WF → g.ArrOK → ct ≠ UNSET → CellWF (some ⟨encode g, ex, ct, aof⟩)

theorem specElems_enc (xs : List Bytes) (h : ElemsOK xs) : specElems (encElems xs) = xs := by
  unfold specElems; rw [parseElems_enc xs h _ (Nat.le_refl _)]

theorem isArray_encode (g : Frm) (ex : Bytes) (ct : Nat) (aof : Bool) :
    Cell.isArray ⟨encode g, ex, ct, aof⟩ = hasFlag g.flag fARRAY := by
  obtain ⟨a, b, c, d, he⟩ := encode_cons g
  simp [Cell.isArray, he]

theorem absCell_none : absCell none = .none := rfl
theorem absCell_unset (aof : Bool) : absCell (some (unsetCell aof)) = .none := by
  simp [absCell, unsetCell, Cell.hasData]

theorem absCell_data (g : Frm) (ex : Bytes) (ct : Nat) (aof : Bool) (hg : g.WF) (ha : g.ArrOK) (hct : ct ≠ UNSET) :
    absCell (some ⟨encode g, ex, ct, aof⟩) = g.val := by
  have hd : Cell.hasData ⟨encode g, ex, ct, aof⟩ = true := by simp [Cell.hasData, hct]
  simp only [absCell, hd, isArray_encode, cellOff_encode g hg, encode_drop_off, Frm.val]
  cases harr : hasFlag g.flag fARRAY with
  | false => simp
  | true =>
    obtain ⟨xs, hp, hok⟩ := ha harr
    rw [hp, parseElems_enc xs hok _ (by rw [encode_length, hp]; omega), specElems_enc xs hok]
    simp

theorem gate_mkCmd (cx : Ctx) (f : Frm) (h : hasFlag f.flag fFIRSTLAST = false) : gate cx (mkCmd f) = true := by
  simp [gate, mkCmd, h]

/-- A single (non-PIPELINE) canonical frame that passes the gate is handled by `procOp`. -/
theorem processFrame_op (cx : Ctx) (cur : Option Cell) (f : Frm) (hf : f.WF) (hg : gate cx (mkCmd f) = true)
    (hp : f.op ≠ PIPELINE) : processFrame cx cur (encode f) = procOp cx cur (mkCmd f) := by
  have hc : (mkCmd f).ctype = f.op := rfl
  simp [processFrame, parseFrame_encode f hf, proc, hg, hc, hp]

/-- A refused frame leaves the cell unchanged (any operation, PIPELINE included). -/
theorem processFrame_refused (cx : Ctx) (cur : Option Cell) (f : Frm) (hf : f.WF) (hg : gate cx (mkCmd f) = false) :
    processFrame cx cur (encode f) = .ok cur := by
  simp [processFrame, parseFrame_encode f hf, proc, hg, pure, Except.pure]

/-! ### SET -/
theorem set_refines (cx : Ctx) (cur : Option Cell) (f : Frm) (hcur : CellWF cur) (hf : f.WF) (hop : f.op = SET)
    (ha : f.ArrOK) (hg : gate cx (mkCmd f) = true) (cur' : Option Cell)
    (h : processFrame cx cur (encode f) = .ok cur') :
    CellWF cur' ∧ absCell cur' = specApply (absCell cur) (.set (hasFlag f.flag fARRAY) f.payload) := by
  rw [processFrame_op cx cur f hf hg (by rw [hop]; decide)] at h
  have hc : (mkCmd f).ctype = SET := hop
  simp only [procOp, hc, if_true, pure, Except.pure, Except.ok.injEq] at h
  subst h
  have hspec : specApply (absCell cur) (.set (hasFlag f.flag fARRAY) f.payload) = f.val := by
    unfold Frm.val; cases hasFlag f.flag fARRAY <;> simp [specApply]
  rw [hspec]
  have hfresh : CellWF (some ⟨encode f, [], SET, cx.fromAof⟩) ∧ absCell (some ⟨encode f, [], SET, cx.fromAof⟩) = f.val := by
    have h0 : f.op = 0 := hop
    exact ⟨CellWF.data f [] SET cx.fromAof h0 hf ha (by decide), absCell_data f [] SET cx.fromAof hf ha (by decide)⟩
  cases cur with
  | none => simpa [opSet, mkCmd] using hfresh
  | some k =>
    simp only [opSet]
    by_cases hskip : (cx.cmdType == CmdType.lock && cx.updOrZero && (k.ctype == SET && k.data == (mkCmd f).data)) = true
    · -- the skip branch: the cell already is this very SET image
      rw [if_pos hskip]
      simp only [Bool.and_eq_true, beq_iff_eq] at hskip
      obtain ⟨_, hk1, hk2⟩ := hskip
      have hk2' : k.data = encode f := by simpa [mkCmd] using hk2
      have : k = ⟨encode f, k.extra, SET, k.isAof⟩ := by cases k; simp_all
      rw [this]
      have h0 : f.op = 0 := hop
      exact ⟨CellWF.data f _ SET _ h0 hf ha (by decide), absCell_data f _ SET _ hf ha (by decide)⟩
    · rw [if_neg hskip]; simpa [mkCmd] using hfresh

/-! ### UNSET -/
theorem unset_refines (cx : Ctx) (cur : Option Cell) (f : Frm) (hcur : CellWF cur) (hf : f.WF) (hop : f.op = UNSET)
    (hg : gate cx (mkCmd f) = true) (cur' : Option Cell)
    (h : processFrame cx cur (encode f) = .ok cur') :
    CellWF cur' ∧ absCell cur' = specApply (absCell cur) .unset := by
  rw [processFrame_op cx cur f hf hg (by rw [hop]; decide)] at h
  have hc : (mkCmd f).ctype = UNSET := hop
  simp only [procOp, hc, UNSET, SET, if_true, pure, Except.pure, Except.ok.injEq, Nat.succ_ne_zero, if_false] at h
  subst h
  simp only [specApply]
  unfold opUnset
  cases cur with
  | none => exact ⟨CellWF.none, rfl⟩
  | some k =>
    simp only
    split
    · rename_i hskip
      simp only [Bool.and_eq_true, beq_iff_eq] at hskip
      have hk : k.ctype = UNSET := hskip.2
      cases hcur with
      | unset aof => exact ⟨CellWF.unset aof, absCell_unset aof⟩
      | data g ex ct aof h0 hg' ha hct => exact absurd hk hct
    · exact ⟨CellWF.unset _, absCell_unset _⟩

/-! ### APPEND -/
def Val.isArr : Val → Bool
  | .array _ => true
  | _ => false

theorem val_notArr (g : Frm) (h : g.val.isArr = false) : hasFlag g.flag fARRAY = false := by
  unfold Frm.val at h
  cases hh : hasFlag g.flag fARRAY with
  | false => rfl
  | true => simp [hh, Val.isArr] at h

theorem val_bytes (g : Frm) (h : hasFlag g.flag fARRAY = false) : g.val = .bytes g.payload := by
  simp [Frm.val, h]

theorem arrOK_of_not (g : Frm) (h : hasFlag g.flag fARRAY = false) : g.ArrOK := by
  intro h'; rw [h] at h'; cases h'

theorem encode_toUInt8_zero : (0 : Nat).toUInt8 = 0 := rfl

/-- canonical cell image (op byte 0) -/
def img (flag : UInt8) (props : Option Bytes) (payload : Bytes) : Frm := ⟨0, flag, props, payload⟩

theorem img_WF (flag : UInt8) (props : Option Bytes) (payload : Bytes)
    (h1 : hasFlag flag fPROP = props.isSome) (h2 : ∀ p, props = some p → p.length < 65536) : (img flag props payload).WF :=
  ⟨by show (0 : Nat) < 64; decide, h1, h2⟩

theorem img_val_bytes (flag : UInt8) (props : Option Bytes) (payload : Bytes) (h : hasFlag flag fARRAY = false) :
    (img flag props payload).val = .bytes payload := by
  simp [Frm.val, img, h]

theorem img_arrOK_of_not (flag : UInt8) (props : Option Bytes) (payload : Bytes) (h : hasFlag flag fARRAY = false) :
    (img flag props payload).ArrOK := by
  intro h'; simp only [img] at h'; rw [h] at h'; cases h'

theorem append_image (g f : Frm) :
    le32 ((encode g).length - 4 + ((encode f).length - (6 + f.hdrLen))) ++ [0, g.flag] ++ (encode g).drop 6 ++ (encode f).drop (6 + f.hdrLen)
      = encode (img g.flag g.props (g.payload ++ f.payload)) := by
  rw [encode_drop6, encode_drop_off, encode_length, encode_length]
  simp only [encode, Frm.hdrLen, List.length_append, img]
  have : 6 + (propHdr g.props).length + g.payload.length - 4 + (6 + (propHdr f.props).length + f.payload.length - (6 + (propHdr f.props).length))
      = 2 + (propHdr g.props).length + (g.payload.length + f.payload.length) := by omega
  rw [this]
  simp [encode_toUInt8_zero]

theorem fresh_image (f : Frm) : (encode f).take 4 ++ 0 :: (encode f).drop 5 = encode (img f.flag f.props f.payload) := by
  obtain ⟨a, b, c, d, he⟩ := encode_cons f
  obtain ⟨a', b', c', d', he'⟩ := encode_cons (img f.flag f.props f.payload)
  have h4 := encode_take4 f
  have h4' := encode_take4 (img f.flag f.props f.payload)
  rw [he] at h4 ⊢; rw [he'] at h4' ⊢
  simp only [Frm.hdrLen, img] at h4 h4' he' ⊢
  rw [← h4] at h4'
  simp at h4'
  simp [h4', encode_toUInt8_zero]

theorem append_refines (cx : Ctx) (cur : Option Cell) (f : Frm) (hcur : CellWF cur) (hf : f.WF) (hop : f.op = APPEND)
    (hfa : hasFlag f.flag fARRAY = false) (hna : (absCell cur).isArr = false)
    (hg : gate cx (mkCmd f) = true) (cur' : Option Cell)
    (h : processFrame cx cur (encode f) = .ok cur') :
    CellWF cur' ∧ absCell cur' = specApply (absCell cur) (.append f.payload) := by
  rw [processFrame_op cx cur f hf hg (by rw [hop]; decide)] at h
  have hc : (mkCmd f).ctype = APPEND := hop
  have hproc : procOp cx cur (mkCmd f) = opAppend cx cur (mkCmd f) := by
    simp [procOp, hc, APPEND, SET, UNSET, INCR]
  rw [hproc] at h
  have hlen5 : ¬ (mkCmd f).data.length < 5 := by simp [mkCmd, encode_length]; omega
  -- the fresh branch
  have hfresh : ∀ v, v.scalar = [] →
      (if (mkCmd f).data.length < 5 then (panic .appendHdr : M (Option Cell)) else do
        if cx.requireRecover then
          let _ ← cmdOff (mkCmd f)
        pure (some ⟨(mkCmd f).data.take 4 ++ [0] ++ (mkCmd f).data.drop 5, (mkCmd f).extra, APPEND, cx.fromAof⟩)) = .ok cur' →
      CellWF cur' ∧ absCell cur' = specApply v (.append f.payload) := by
    intro v hv hh
    rw [if_neg hlen5] at hh
    have hh' : cur' = some ⟨encode (img f.flag f.props f.payload), [], APPEND, cx.fromAof⟩ := by
      cases hr : cx.requireRecover <;>
        simp [hr, cmdOff_mkCmd f hf, bind, Except.bind, pure, Except.pure] at hh <;>
        rw [← hh] <;> simp [mkCmd, fresh_image]
    subst hh'
    have hf0 := img_WF f.flag f.props f.payload hf.flag_props hf.props_len
    have ha0 := img_arrOK_of_not f.flag f.props f.payload hfa
    refine ⟨CellWF.data _ _ _ _ rfl hf0 ha0 (by decide), ?_⟩
    rw [absCell_data _ _ _ _ hf0 ha0 (by decide), img_val_bytes _ _ _ hfa]
    simp [specApply, hv]
  cases hcur with
  | none => exact hfresh _ rfl (by simpa [opAppend] using h)
  | unset aof =>
    rw [absCell_unset]
    exact hfresh _ rfl (by simpa [opAppend, unsetCell, Cell.hasData] using h)
  | data g ex ct aof h0 hgw ha hct =>
    rw [absCell_data g ex ct aof hgw ha hct] at hna ⊢
    have hga := val_notArr g hna
    have hd : Cell.hasData ⟨encode g, ex, ct, aof⟩ = true := by simp [Cell.hasData, hct]
    simp only [opAppend, hd, Bool.not_true, Bool.false_eq_true, if_false, cmdOff_mkCmd f hf, bind, Except.bind] at h
    have hb : ¬ (((encode g).length < 6 || (mkCmd f).data.length < 6 + f.hdrLen) = true) := by
      simp [mkCmd, encode_length]; omega
    rw [if_neg hb] at h
    simp only [idx, encode_idx5, pure, Except.pure, Except.ok.injEq] at h
    subst h
    simp only [mkCmd, append_image]
    have hw := img_WF g.flag g.props (g.payload ++ f.payload) hgw.flag_props hgw.props_len
    have haw := img_arrOK_of_not g.flag g.props (g.payload ++ f.payload) hga
    refine ⟨CellWF.data _ _ _ _ rfl hw haw (by decide), ?_⟩
    rw [absCell_data _ _ _ _ hw haw (by decide), img_val_bytes _ _ _ hga, val_bytes g hga]
    simp [specApply, Val.scalar]

/-! ### SHIFT -/
theorem readAt_encode (f : Frm) (k : Nat) : readAt (encode f) (6 + f.hdrLen) k = readLE (f.payload.take k) := by
  rw [readAt, encode_drop_off]

/-- the count operand of SHIFT / POP -/
def Frm.count (f : Frm) : Nat := readLE (f.payload.take 4)

theorem shift_image (g : Frm) (n : Nat) (hn : n ≤ g.payload.length) :
    le32 ((encode g).length - n - 4) ++ [0, g.flag] ++ ((encode g).drop 6).take (6 + g.hdrLen - 6) ++ (encode g).drop (6 + g.hdrLen + n)
      = encode (img g.flag g.props (g.payload.drop n)) := by
  have h1 : 6 + g.hdrLen - 6 = g.hdrLen := by omega
  rw [h1, encode_hdr, ← List.drop_drop, encode_drop_off, encode_length]
  simp only [encode, Frm.hdrLen, img, List.length_drop]
  have : 6 + (propHdr g.props).length + g.payload.length - n - 4 = 2 + (propHdr g.props).length + (g.payload.length - n) := by omega
  rw [this]
  simp [encode_toUInt8_zero]

theorem shift_refines (cx : Ctx) (cur : Option Cell) (f : Frm) (hcur : CellWF cur) (hf : f.WF) (hop : f.op = SHIFT)
    (hna : (absCell cur).isArr = false)
    (hg : gate cx (mkCmd f) = true) (cur' : Option Cell)
    (h : processFrame cx cur (encode f) = .ok cur') :
    CellWF cur' ∧ absCell cur' = specApply (absCell cur) (.shift f.count) := by
  rw [processFrame_op cx cur f hf hg (by rw [hop]; decide)] at h
  have hc : (mkCmd f).ctype = SHIFT := hop
  have hproc : procOp cx cur (mkCmd f) = opShift cx cur (mkCmd f) := by
    simp [procOp, hc, APPEND, SET, UNSET, INCR, SHIFT]
  rw [hproc] at h
  have hn : readAt (mkCmd f).data (6 + f.hdrLen) 4 = f.count := readAt_encode f 4
  simp only [opShift, cmdOff_mkCmd f hf, bind, Except.bind, hn] at h
  cases hcur with
  | none =>
    simp only [pure, Except.pure, Except.ok.injEq] at h; subst h
    exact ⟨CellWF.none, rfl⟩
  | unset aof =>
    simp [unsetCell, Cell.hasData, pure, Except.pure] at h; subst h
    exact ⟨CellWF.unset aof, by
      show absCell (some (unsetCell aof)) = specApply (absCell (some (unsetCell aof))) _
      rw [absCell_unset]; simp [specApply]⟩
  | data g ex ct aof h0 hgw ha hct =>
    rw [absCell_data g ex ct aof hgw ha hct] at hna ⊢
    have hga := val_notArr g hna
    have hd : Cell.hasData ⟨encode g, ex, ct, aof⟩ = true := by simp [Cell.hasData, hct]
    rw [val_bytes g hga]
    by_cases hz : 0 < f.count
    · simp only [hd, hz, decide_true, Bool.and_self, Bool.not_true, Bool.false_eq_true, if_false, cellOff_encode g hgw] at h
      have hin : 6 + g.hdrLen ≤ (encode g).length := by rw [encode_length]; omega
      rw [if_pos hin] at h
      simp only [idx, encode_idx5, pure, Except.pure, Except.ok.injEq] at h
      subst h
      have hvl : (encode g).length - (6 + g.hdrLen) = g.payload.length := by rw [encode_length]; omega
      rw [hvl]
      -- the clamped count n' drops exactly what `drop count` drops
      have key : ∀ n', n' ≤ g.payload.length → g.payload.drop n' = g.payload.drop f.count →
          CellWF (some ⟨le32 ((encode g).length - n' - 4) ++ [0, g.flag] ++ ((encode g).drop 6).take (6 + g.hdrLen - 6)
              ++ (encode g).drop (6 + g.hdrLen + n'), [], SHIFT, cx.fromAof⟩) ∧
          absCell (some ⟨le32 ((encode g).length - n' - 4) ++ [0, g.flag] ++ ((encode g).drop 6).take (6 + g.hdrLen - 6)
              ++ (encode g).drop (6 + g.hdrLen + n'), [], SHIFT, cx.fromAof⟩) = specApply (Val.bytes g.payload) (Op.shift f.count) := by
        intro n' hle hdrop
        rw [shift_image g n' hle]
        have hw := img_WF g.flag g.props (g.payload.drop n') hgw.flag_props hgw.props_len
        have haw := img_arrOK_of_not g.flag g.props (g.payload.drop n') hga
        refine ⟨CellWF.data _ _ _ _ rfl hw haw (by decide), ?_⟩
        rw [absCell_data _ _ _ _ hw haw (by decide), img_val_bytes _ _ _ hga]
        simp [specApply, hdrop]
      by_cases hbig : f.count > g.payload.length
      · rw [if_pos hbig]
        exact key _ (Nat.le_refl _) (by rw [List.drop_length, List.drop_eq_nil_of_le (by omega)])
      · rw [if_neg hbig]
        exact key _ (by omega) rfl
    · have hz0 : f.count = 0 := by omega
      simp [hd, hz0, pure, Except.pure] at h
      subst h
      refine ⟨CellWF.data g ex ct aof h0 hgw ha hct, ?_⟩
      rw [absCell_data g ex ct aof hgw ha hct, val_bytes g hga]
      simp [specApply, hz0]

/-! ### POP -/
theorem val_isArr (g : Frm) (h : g.val.isArr = true) : hasFlag g.flag fARRAY = true := by
  unfold Frm.val at h
  cases hh : hasFlag g.flag fARRAY with
  | true => rfl
  | false => simp [hh, Val.isArr] at h

theorem elemsOK_drop (xs : List Bytes) (n : Nat) (h : ElemsOK xs) : ElemsOK (xs.drop n) :=
  fun x hx => h x (List.mem_of_mem_drop hx)

theorem pop_image (g : Frm) (ex body : Bytes) (h0 : g.op = 0) :
    le32 (6 + g.hdrLen - 4 + body.length) ++ ((encode g ++ ex).drop 4).take (6 + g.hdrLen - 4) ++ body
      = encode (img g.flag g.props body) := by
  obtain ⟨a, b, c, d, he⟩ := encode_cons g
  have h1 : 6 + g.hdrLen - 4 = g.hdrLen + 2 := by omega
  rw [he, h1, h0]
  simp only [List.cons_append, List.drop_succ_cons, List.drop_zero, List.take_succ_cons, List.append_assoc]
  rw [take_left' _ _ g.hdrLen rfl]
  simp only [encode, Frm.hdrLen, img]
  have : (propHdr g.props).length + 2 + body.length = 2 + (propHdr g.props).length + body.length := by omega
  rw [this]

theorem pop_refines (cx : Ctx) (cur : Option Cell) (f : Frm) (hcur : CellWF cur) (hf : f.WF) (hop : f.op = POP)
    (hg : gate cx (mkCmd f) = true) (cur' : Option Cell)
    (h : processFrame cx cur (encode f) = .ok cur') :
    CellWF cur' ∧ absCell cur' = specApply (absCell cur) (.pop f.count) := by
  rw [processFrame_op cx cur f hf hg (by rw [hop]; decide)] at h
  have hc : (mkCmd f).ctype = POP := hop
  have hproc : procOp cx cur (mkCmd f) = opPop cx cur (mkCmd f) := by
    simp [procOp, hc, APPEND, SET, UNSET, INCR, SHIFT, POP, PUSH, EXECUTE]
  rw [hproc] at h
  have hn : readAt (mkCmd f).data (6 + f.hdrLen) 4 = f.count := readAt_encode f 4
  simp only [opPop, cmdOff_mkCmd f hf, bind, Except.bind, hn] at h
  cases hcur with
  | none =>
    simp only [pure, Except.pure, Except.ok.injEq] at h; subst h
    exact ⟨CellWF.none, rfl⟩
  | unset aof =>
    simp [unsetCell, Cell.hasData, pure, Except.pure] at h; subst h
    exact ⟨CellWF.unset aof, by
      show absCell (some (unsetCell aof)) = specApply (absCell (some (unsetCell aof))) _
      rw [absCell_unset]; simp [specApply]⟩
  | data g ex ct aof h0 hgw ha hct =>
    rw [absCell_data g ex ct aof hgw ha hct]
    have hd : Cell.hasData ⟨encode g, ex, ct, aof⟩ = true := by simp [Cell.hasData, hct]
    have hunch : CellWF (some ⟨encode g, ex, ct, aof⟩) ∧ absCell (some ⟨encode g, ex, ct, aof⟩) = g.val :=
      ⟨CellWF.data g ex ct aof h0 hgw ha hct, absCell_data g ex ct aof hgw ha hct⟩
    cases harr : hasFlag g.flag fARRAY with
    | false =>
      simp [hd, isArray_encode, harr, pure, Except.pure] at h
      subst h
      rw [val_bytes g harr]; simp only [specApply]; rw [← val_bytes g harr]; exact hunch
    | true =>
      obtain ⟨xs, hp, hok⟩ := ha harr
      have hval : g.val = .array xs := by simp [Frm.val, harr, hp, specElems_enc xs hok]
      rw [hval]; simp only [specApply]
      by_cases hz : 0 < f.count
      · simp only [hd, hz, decide_true, Bool.and_self, isArray_encode, harr, Bool.not_true, Bool.false_eq_true, if_false,
          cellOff_encode g hgw, encode_drop_off] at h
        rw [hp, parseElems_enc xs hok _ (by rw [encode_length, hp]; omega)] at h
        have hb : ¬ (6 + g.hdrLen > (encode g).length + ex.length) := by rw [encode_length]; omega
        simp only [hb, if_false, pure, Except.pure, Except.ok.injEq] at h
        subst h
        rw [pop_image g ex _ h0]
        have hw := img_WF g.flag g.props (encElems (xs.drop f.count)) hgw.flag_props hgw.props_len
        have hok' := elemsOK_drop xs f.count hok
        have haw : (img g.flag g.props (encElems (xs.drop f.count))).ArrOK := fun _ => ⟨_, rfl, hok'⟩
        refine ⟨CellWF.data _ _ _ _ rfl hw haw (by decide), ?_⟩
        rw [absCell_data _ _ _ _ hw haw (by decide)]
        simp [Frm.val, img, harr, specElems_enc _ hok']
      · have hz0 : f.count = 0 := by omega
        simp [hd, hz0, pure, Except.pure] at h
        subst h
        rw [hz0, List.drop_zero, ← hval]; exact hunch

/-! ### PUSH -/
theorem encElems_single (b : Bytes) : encElems [b] = le32 b.length ++ b := by
  simp [encElems]

theorem push_fresh_image (f : Frm) :
    le32 (encode f).length ++ [0, (f.flag &&& 0xf8) ||| fARRAY] ++ ((encode f).drop 6).take (6 + f.hdrLen - 6)
        ++ le32 ((encode f).length - (6 + f.hdrLen)) ++ (encode f).drop (6 + f.hdrLen)
      = encode (img ((f.flag &&& 0xf8) ||| fARRAY) f.props (encElems [f.payload])) := by
  have h1 : 6 + f.hdrLen - 6 = f.hdrLen := by omega
  rw [h1, encode_hdr, encode_drop_off, encode_length, encElems_single]
  simp only [encode, Frm.hdrLen, img, List.length_append, le32_length]
  have e1 : 6 + (propHdr f.props).length + f.payload.length - (6 + (propHdr f.props).length) = f.payload.length := by omega
  have e2 : 6 + (propHdr f.props).length + f.payload.length = 2 + (propHdr f.props).length + (4 + f.payload.length) := by omega
  rw [e1, e2]
  simp [encode_toUInt8_zero]

theorem push_arr_image (g f : Frm) (xs : List Bytes) (hp : g.payload = encElems xs) :
    le32 ((encode g).length + ((encode f).length - (6 + f.hdrLen))) ++ [0, (g.flag &&& 0xf8) ||| fARRAY] ++ (encode g).drop 6
        ++ le32 ((encode f).length - (6 + f.hdrLen)) ++ (encode f).drop (6 + f.hdrLen)
      = encode (img ((g.flag &&& 0xf8) ||| fARRAY) g.props (encElems (xs ++ [f.payload]))) := by
  rw [encode_drop6, encode_drop_off, encode_length, encode_length, encElems_append, encElems_single, ← hp]
  simp only [encode, Frm.hdrLen, img, List.length_append, le32_length]
  have e1 : 6 + (propHdr f.props).length + f.payload.length - (6 + (propHdr f.props).length) = f.payload.length := by omega
  have e2 : 6 + (propHdr g.props).length + g.payload.length + f.payload.length
      = 2 + (propHdr g.props).length + (g.payload.length + (4 + f.payload.length)) := by omega
  rw [e1, e2]
  simp [encode_toUInt8_zero]

theorem elemsOK_snoc (xs : List Bytes) (b : Bytes) (h : ElemsOK xs) (hb : b.length < 2 ^ 32) : ElemsOK (xs ++ [b]) := by
  intro x hx
  rcases List.mem_append.mp hx with h1 | h1
  · exact h x h1
  · have : x = b := by simpa using h1
    rw [this]; exact hb

theorem push_refines (cx : Ctx) (cur : Option Cell) (f : Frm) (hcur : CellWF cur) (hf : f.WF) (hop : f.op = PUSH)
    (hb : f.payload.length < 2 ^ 32)
    (hg : gate cx (mkCmd f) = true) (cur' : Option Cell)
    (h : processFrame cx cur (encode f) = .ok cur') :
    CellWF cur' ∧ absCell cur' = specApply (absCell cur) (.push f.payload) := by
  rw [processFrame_op cx cur f hf hg (by rw [hop]; decide)] at h
  have hc : (mkCmd f).ctype = PUSH := hop
  have hproc : procOp cx cur (mkCmd f) = opPush cx cur (mkCmd f) := by
    simp [procOp, hc, APPEND, SET, UNSET, INCR, SHIFT, PUSH, EXECUTE]
  rw [hproc] at h
  -- the fresh branch
  have hfresh : ∀ v : Val, v.elems = [] →
      (do
        let b5 ← idx .pushBounds (mkCmd f).data 5
        let off ← cmdOff (mkCmd f)
        if off > (mkCmd f).data.length then (panic .pushBounds : M (Option Cell)) else
        pure (some ⟨le32 (mkCmd f).data.length ++ [0, (b5 &&& 0xf8) ||| fARRAY] ++ ((mkCmd f).data.drop 6).take (off - 6)
            ++ le32 ((mkCmd f).data.length - off) ++ (mkCmd f).data.drop off, [], PUSH, cx.fromAof⟩)) = .ok cur' →
      CellWF cur' ∧ absCell cur' = specApply v (.push f.payload) := by
    intro v hv hh
    have hoff : ¬ (6 + f.hdrLen > (encode f).length) := by rw [encode_length]; omega
    simp only [mkCmd, idx, encode_idx5, bind, Except.bind] at hh
    have hcm : cmdOff ⟨encode f, [], 0, f.op, f.flag⟩ = .ok (6 + f.hdrLen) := cmdOff_mkCmd f hf
    simp only [hcm, hoff, if_false, pure, Except.pure, Except.ok.injEq] at hh
    subst hh
    rw [push_fresh_image f]
    have hw := img_WF ((f.flag &&& 0xf8) ||| fARRAY) f.props (encElems [f.payload])
      (by rw [flag_push_prop]; exact hf.flag_props) hf.props_len
    have hok : ElemsOK [f.payload] := by
      intro x hx; have : x = f.payload := by simpa using hx
      rw [this]; exact hb
    have haw : (img ((f.flag &&& 0xf8) ||| fARRAY) f.props (encElems [f.payload])).ArrOK := fun _ => ⟨_, rfl, hok⟩
    refine ⟨CellWF.data _ _ _ _ rfl hw haw (by decide), ?_⟩
    rw [absCell_data _ _ _ _ hw haw (by decide)]
    simp [Frm.val, img, flag_push_arr, specElems_enc _ hok, specApply, hv]
  cases hcur with
  | none => exact hfresh _ rfl (by simpa [opPush] using h)
  | unset aof =>
    rw [absCell_unset]
    exact hfresh _ rfl (by simpa [opPush, unsetCell, Cell.hasData] using h)
  | data g ex ct aof h0 hgw ha hct =>
    rw [absCell_data g ex ct aof hgw ha hct]
    have hd : Cell.hasData ⟨encode g, ex, ct, aof⟩ = true := by simp [Cell.hasData, hct]
    cases harr : hasFlag g.flag fARRAY with
    | false =>
      rw [val_bytes g harr]
      exact hfresh _ rfl (by simpa [opPush, hd, isArray_encode, harr] using h)
    | true =>
      obtain ⟨xs, hp, hok⟩ := ha harr
      have hval : g.val = .array xs := by simp [Frm.val, harr, hp, specElems_enc xs hok]
      rw [hval]
      have hoff : ¬ (6 + f.hdrLen > (mkCmd f).data.length) := by simp only [mkCmd]; rw [encode_length]; omega
      simp only [opPush, hd, isArray_encode, harr, Bool.and_self, Bool.not_true, Bool.false_eq_true, if_false,
        cmdOff_mkCmd f hf, bind, Except.bind, hoff, idx, encode_idx5, pure, Except.pure, Except.ok.injEq] at h
      subst h
      simp only [mkCmd]
      rw [push_arr_image g f xs hp]
      have hw := img_WF ((g.flag &&& 0xf8) ||| fARRAY) g.props (encElems (xs ++ [f.payload]))
        (by rw [flag_push_prop]; exact hgw.flag_props) hgw.props_len
      have hok' := elemsOK_snoc xs f.payload hok hb
      have haw : (img ((g.flag &&& 0xf8) ||| fARRAY) g.props (encElems (xs ++ [f.payload]))).ArrOK := fun _ => ⟨_, rfl, hok'⟩
      refine ⟨CellWF.data _ _ _ _ rfl hw haw (by decide), ?_⟩
      rw [absCell_data _ _ _ _ hw haw (by decide)]
      simp [Frm.val, img, flag_push_arr, specElems_enc _ hok', specApply, Val.elems]

/-! ### INCR -/
/-- the cell carries a property header (value offset beyond 6) -/
def cellHasProps : Option Cell → Bool
  | none => false
  | some c => decide (6 < cellOff c.data)

theorem incr8_image (f : Frm) (v : Nat) (h8 : f.payload.length = 8) :
    (encode f).take 4 ++ [0, f.flag ||| fNUMBER] ++ ((encode f).drop 6).take (6 + f.hdrLen - 6) ++ le64 v
      = encode (img (f.flag ||| fNUMBER) f.props (le64 v)) := by
  have h1 : 6 + f.hdrLen - 6 = f.hdrLen := by omega
  rw [h1, encode_hdr, encode_take4, h8]
  simp [encode, Frm.hdrLen, img, encode_toUInt8_zero]

theorem incr_short_image (v : Nat) : [10, 0, 0, 0, 0, 1] ++ le64 v = encode (img 1 none (le64 v)) := by
  have : le32 10 = [10, 0, 0, 0] := by decide
  simp [encode, img, Frm.hdrLen, propHdr, encode_toUInt8_zero, this]

theorem padTake_left (a b : Bytes) : padTake a.length (a ++ b) = a := by
  simp [padTake]

/-- the repaired property-header branch of INCR writes the length prefix -/
theorem incr_props_image (g : Frm) (v : Nat) :
    le32 (6 + g.hdrLen + 4) ++ [0, g.flag ||| fNUMBER] ++ padTake (6 + g.hdrLen - 6) ((encode g).drop 6) ++ le64 v
      = encode (img (g.flag ||| fNUMBER) g.props (le64 v)) := by
  have h1 : 6 + g.hdrLen - 6 = (propHdr g.props).length := by simp [Frm.hdrLen]
  rw [h1, encode_drop6, padTake_left]
  simp only [encode, Frm.hdrLen, img, le64_length]
  have : 6 + (propHdr g.props).length + 4 = 2 + (propHdr g.props).length + 8 := by omega
  rw [this]
  simp [encode_toUInt8_zero]

theorem num_eq (a b : Nat) : Val.num (a + b) = .bytes (le64 ((b + a) % 2 ^ 64)) := by
  rw [Val.num, Nat.add_comm]

theorem incr_refines (cx : Ctx) (cur : Option Cell) (f : Frm) (hcur : CellWF cur) (hf : f.WF) (hop : f.op = INCR)
    (hfa : hasFlag f.flag fARRAY = false) (hna : (absCell cur).isArr = false)
    (hg : gate cx (mkCmd f) = true) (cur' : Option Cell)
    (h : processFrame cx cur (encode f) = .ok cur') :
    CellWF cur' ∧ absCell cur' = specApply (absCell cur) (.incr f.payload) := by
  rw [processFrame_op cx cur f hf hg (by rw [hop]; decide)] at h
  have hc : (mkCmd f).ctype = INCR := hop
  have hproc : procOp cx cur (mkCmd f) = opIncr cx cur (mkCmd f) := by
    simp [procOp, hc, SET, UNSET, INCR]
  rw [hproc] at h
  have hk : readAt (mkCmd f).data (6 + f.hdrLen) 8 = readLE (f.payload.take 8) := readAt_encode f 8
  have hlen : ((mkCmd f).data.length = 6 + f.hdrLen + 8) = (f.payload.length = 8) := by
    simp only [mkCmd, encode_length]; exact propext ⟨fun h => by omega, fun h => by omega⟩
  simp only [opIncr, cmdOff_mkCmd f hf, bind, Except.bind, hk, hlen] at h
  simp only [specApply]
  -- what the two successful shapes give
  have hnum : ∀ (base : Nat) (fl : UInt8) (props : Option Bytes) (ex : Bytes), hasFlag fl fARRAY = false →
      hasFlag fl fPROP = props.isSome → (∀ p, props = some p → p.length < 65536) →
      CellWF (some ⟨encode (img fl props (le64 ((readLE (f.payload.take 8) + base) % 2 ^ 64))), ex, INCR, cx.fromAof⟩) ∧
      absCell (some ⟨encode (img fl props (le64 ((readLE (f.payload.take 8) + base) % 2 ^ 64))), ex, INCR, cx.fromAof⟩)
        = Val.num (base + readLE (f.payload.take 8)) := by
    intro base fl props ex h1 h2 h3
    have hw := img_WF fl props (le64 ((readLE (f.payload.take 8) + base) % 2 ^ 64)) h2 h3
    have haw := img_arrOK_of_not fl props (le64 ((readLE (f.payload.take 8) + base) % 2 ^ 64)) h1
    refine ⟨CellWF.data _ _ _ _ rfl hw haw (by decide), ?_⟩
    rw [absCell_data _ _ _ _ hw haw (by decide), img_val_bytes _ _ _ h1, num_eq]
  have hfl8 : hasFlag (f.flag ||| fNUMBER) fARRAY = false := by rw [flag_or_num_arr]; exact hfa
  have hfp8 : hasFlag (f.flag ||| fNUMBER) fPROP = f.props.isSome := by rw [flag_or_num_prop]; exact hf.flag_props
  -- the 8-byte branch, for any base
  have h8 : ∀ base : Nat, f.payload.length = 8 →
      (match idx Site.incrWrite (mkCmd f).data 5 with
        | .error e => (.error e : M (Option Cell))
        | .ok b5 => pure (some ⟨(mkCmd f).data.take 4 ++ [0, b5 ||| fNUMBER] ++ ((mkCmd f).data.drop 6).take (6 + f.hdrLen - 6)
            ++ le64 ((readLE (f.payload.take 8) + base) % 2 ^ 64), (mkCmd f).extra, INCR, cx.fromAof⟩)) = .ok cur' →
      CellWF cur' ∧ absCell cur' = Val.num (base + readLE (f.payload.take 8)) := by
    intro base hl hh
    simp only [mkCmd, idx, encode_idx5, pure, Except.pure, Except.ok.injEq] at hh
    subst hh
    rw [incr8_image f _ hl]
    exact hnum base _ _ _ hfl8 hfp8 hf.props_len
  have hshort : ∀ base : Nat, CellWF (some ⟨[10, 0, 0, 0, 0, 1] ++ le64 ((readLE (f.payload.take 8) + base) % 2 ^ 64), [], INCR, cx.fromAof⟩) ∧
      absCell (some ⟨[10, 0, 0, 0, 0, 1] ++ le64 ((readLE (f.payload.take 8) + base) % 2 ^ 64), [], INCR, cx.fromAof⟩)
        = Val.num (base + readLE (f.payload.take 8)) := by
    intro base
    rw [incr_short_image]
    exact hnum base 1 none [] (by decide) (by decide) (by intro p hp; cases hp)
  cases hcur with
  | none =>
    have hb : (absCell none).toNum = 0 := rfl
    rw [hb]
    by_cases hl : f.payload.length = 8
    · rw [if_pos hl] at h; exact h8 0 hl h
    · rw [if_neg hl] at h
      simp only [Nat.le_refl, if_true, pure, Except.pure, Except.ok.injEq] at h
      subst h; exact hshort 0
  | unset aof =>
    have hb : (absCell (some (unsetCell aof))).toNum = 0 := by rw [absCell_unset]; rfl
    rw [hb]
    have hbase : (if (unsetCell aof).hasData = true then (unsetCell aof).incrValue else 0) = 0 := by
      simp [unsetCell, Cell.hasData]
    simp only [hbase] at h
    by_cases hl : f.payload.length = 8
    · rw [if_pos hl] at h; exact h8 0 hl h
    · rw [if_neg hl] at h
      have : cellOff (unsetCell aof).data ≤ 6 := by simp [unsetCell, cellOff]
      simp only [this, if_true, pure, Except.pure, Except.ok.injEq] at h
      subst h; exact hshort 0
  | data g ex ct aof h0 hgw ha hct =>
    rw [absCell_data g ex ct aof hgw ha hct] at hna ⊢
    have hga := val_notArr g hna
    have hd : Cell.hasData ⟨encode g, ex, ct, aof⟩ = true := by simp [Cell.hasData, hct]
    have hb : g.val.toNum = readLE (g.payload.take 8) := by rw [val_bytes g hga]; rfl
    rw [hb]
    have hbase : Cell.incrValue ⟨encode g, ex, ct, aof⟩ = readLE (g.payload.take 8) := by
      simp only [Cell.incrValue, hct, if_false, cellOff_encode g hgw, readAt_encode]
    simp only [hd, if_true, hbase] at h
    by_cases hl : f.payload.length = 8
    · rw [if_pos hl] at h; exact h8 _ hl h
    · rw [if_neg hl] at h
      simp only [cellOff_encode g hgw] at h
      by_cases ho : 6 + g.hdrLen ≤ 6
      · rw [if_pos ho] at h
        simp only [pure, Except.pure, Except.ok.injEq] at h
        subst h; exact hshort _
      · rw [if_neg ho] at h
        simp only [idx, encode_idx5, pure, Except.pure, Except.ok.injEq] at h
        subst h
        rw [incr_props_image g _]
        exact hnum _ _ _ _ (by rw [flag_or_num_arr]; exact hga) (by rw [flag_or_num_prop]; exact hgw.flag_props) hgw.props_len

/-! ### consequences of well-formedness, sequences -/
def lenPrefixOK (c : Cell) : Bool := readLE (c.data.take 4) == (c.data.length - 4) % 2 ^ 32

/-- a well-formed cell's first four bytes are its length minus 4 (what a client reads as the frame length) -/
theorem cellWF_lenPrefixOK (c : Cell) (h : CellWF (some c)) : lenPrefixOK c = true := by
  cases h with
  | unset aof => cases aof <;> decide
  | data g ex ct aof h0 hgw ha hct =>
    simp only [lenPrefixOK, encode_take4, encode_length, le32, readLE_leN]
    have : 6 + g.hdrLen + g.payload.length - 4 = 2 + g.hdrLen + g.payload.length := by omega
    rw [this]; simp

/-- apply frames in order (stops at the first panic) -/
def runAll (cx : Ctx) : Option Cell → List Bytes → M (Option Cell)
  | cur, [] => pure cur
  | cur, f :: fs => do
    let cur' ← processFrame cx cur f
    runAll cx cur' fs

end Slock.Value
