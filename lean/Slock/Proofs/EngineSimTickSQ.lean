import Slock.Proofs.EngineSimTickSort
import Slock.Proofs.EngineProv
import Slock.Proofs.EngineCount
/-! Stage 1 (M-ENGINE): the wheel sequence numbers. `SQ db` — every wheel entry (`Waiter.sched`, `Hold.sched`) carries a sequence number
below the database's counter, and no two queued requests (no two holds) of the DATABASE share one. The sweeps process due entries in the
order of these numbers, so under `SQ` the lists `slotWaiters` / `longWaiters` / `slotHolds` / `longHolds` depend only on what is found
under each key (`Engine.DB.getKey`), not on the order of the key table. New file for the clock-tick simulation (`sim_tick`). -/
namespace Slock.SimTick
open Slock Slock.Engine

def seqW (w : Waiter) : Nat := w.sched.seq
def seqH (h : Hold) : Nat := h.sched.seq

structure SQ (db : DB) : Prop where
  wlt : ∀ n w, WaitAt db n w → seqW w < db.seq
  hlt : ∀ n x, HoldAt db n x → seqH x < db.seq
  wnd : ∀ k ∈ db.keys, (k.waiters.map seqW).Nodup
  hnd : ∀ k ∈ db.keys, (k.holders.map seqH).Nodup
  wx : ∀ n n' w w', n ≠ n' → WaitAt db n w → WaitAt db n' w' → seqW w ≠ seqW w'
  hx : ∀ n n' x x', n ≠ n' → HoldAt db n x → HoldAt db n' x' → seqH x ≠ seqH x'

theorem SQ.init (now : Nat) : SQ (DB.init now) := by
  refine ⟨?_, ?_, ?_, ?_, ?_, ?_⟩
  · intro n w ⟨k, hk, _⟩; simp [DB.init] at hk
  · intro n w ⟨k, hk, _⟩; simp [DB.init] at hk
  · intro k hk; simp [DB.init] at hk
  · intro k hk; simp [DB.init] at hk
  · intro n n' w w' _ ⟨k, hk, _⟩; simp [DB.init] at hk
  · intro n n' w w' _ ⟨k, hk, _⟩; simp [DB.init] at hk

/-- only scalar fields other than `seq` changed -/
theorem SQ.of_keys_eq {db db' : DB} (h : SQ db) (e : db'.keys = db.keys) (hs : db.seq ≤ db'.seq) : SQ db' := by
  refine ⟨?_, ?_, ?_, ?_, ?_, ?_⟩
  · intro n w hw; exact Nat.lt_of_lt_of_le (h.wlt n w (hw.of_keys_eq e)) hs
  · intro n x hx; exact Nat.lt_of_lt_of_le (h.hlt n x (hx.of_keys_eq e)) hs
  · intro k hk; rw [e] at hk; exact h.wnd k hk
  · intro k hk; rw [e] at hk; exact h.hnd k hk
  · intro n n' w w' hne h1 h2; exact h.wx n n' w w' hne (h1.of_keys_eq e) (h2.of_keys_eq e)
  · intro n n' w w' hne h1 h2; exact h.hx n n' w w' hne (h1.of_keys_eq e) (h2.of_keys_eq e)

/-! ### the two lists over the whole database -/

theorem pairwise_keys_ne {db : DB} (hk : KN db) : db.keys.Pairwise (fun k k' => k.key ≠ k'.key) := by
  unfold KN at hk
  exact List.pairwise_map.mp hk

theorem allWaiters_nodup {db : DB} (hk : KN db) (h : SQ db) : ((allWaiters db).map seqW).Nodup := by
  unfold allWaiters
  rw [List.Nodup, List.pairwise_map, List.pairwise_flatMap]
  refine ⟨fun k hkm => List.pairwise_map.mp (h.wnd k hkm), ?_⟩
  refine (List.Pairwise.and_mem.mp (pairwise_keys_ne hk)).imp ?_
  intro k k' ⟨hm, hm', hne⟩ w hw w' hw'
  exact h.wx k.key k'.key w w' hne ⟨k, hm, rfl, hw⟩ ⟨k', hm', rfl, hw'⟩

theorem allHolds_nodup {db : DB} (hk : KN db) (h : SQ db) : ((allHolds db).map seqH).Nodup := by
  unfold allHolds
  rw [List.Nodup, List.pairwise_map, List.pairwise_flatMap]
  refine ⟨fun k hkm => List.pairwise_map.mp (h.hnd k hkm), ?_⟩
  refine (List.Pairwise.and_mem.mp (pairwise_keys_ne hk)).imp ?_
  intro k k' ⟨hm, hm', hne⟩ w hw w' hw'
  exact h.hx k.key k'.key w w' hne ⟨k, hm, rfl, hw⟩ ⟨k', hm', rfl, hw'⟩

theorem mem_allWaiters {db : DB} (hk : KN db) (w : Waiter) : w ∈ allWaiters db ↔ ∃ n, w ∈ (db.getKey n).waiters := by
  unfold allWaiters
  rw [List.mem_flatMap]
  constructor
  · rintro ⟨k, hkm, hw⟩
    exact ⟨k.key, by rw [getKey_of_mem hk hkm]; exact hw⟩
  · rintro ⟨n, hw⟩
    obtain ⟨k, hkm, _, hw'⟩ := waitAt_getKey hw
    exact ⟨k, hkm, hw'⟩

theorem mem_allHolds {db : DB} (hk : KN db) (x : Hold) : x ∈ allHolds db ↔ ∃ n, x ∈ (db.getKey n).holders := by
  unfold allHolds
  rw [List.mem_flatMap]
  constructor
  · rintro ⟨k, hkm, hw⟩
    exact ⟨k.key, by rw [getKey_of_mem hk hkm]; exact hw⟩
  · rintro ⟨n, hw⟩
    obtain ⟨k, hkm, _, hw'⟩ := holdAt_getKey hw
    exact ⟨k, hkm, hw'⟩

theorem nodup_filter_map {α : Type} (s : α → Nat) (p : α → Bool) (l : List α) (h : (l.map s).Nodup) : ((l.filter p).map s).Nodup :=
  ((List.filter_sublist).map s).nodup h

/-- **two databases that show the same state under every key have the same sorted entry lists** -/
theorem sortedW_congr {a b : DB} (ka : KN a) (kb : KN b) (sa : SQ a) (sb : SQ b) (hk : ∀ n, a.getKey n = b.getKey n) (p : Waiter → Bool) :
    sortBySeq (·.sched.seq) ((allWaiters a).filter p) = sortBySeq (·.sched.seq) ((allWaiters b).filter p) := by
  apply sortBySeq_ext
  · exact nodup_filter_map seqW p _ (allWaiters_nodup ka sa)
  · exact nodup_filter_map seqW p _ (allWaiters_nodup kb sb)
  · intro x
    rw [List.mem_filter, List.mem_filter, mem_allWaiters ka, mem_allWaiters kb]
    constructor
    · rintro ⟨⟨n, hn⟩, hp⟩; exact ⟨⟨n, by rw [← hk]; exact hn⟩, hp⟩
    · rintro ⟨⟨n, hn⟩, hp⟩; exact ⟨⟨n, by rw [hk]; exact hn⟩, hp⟩

theorem sortedH_congr {a b : DB} (ka : KN a) (kb : KN b) (sa : SQ a) (sb : SQ b) (hk : ∀ n, a.getKey n = b.getKey n) (p : Hold → Bool) :
    sortBySeq (·.sched.seq) ((allHolds a).filter p) = sortBySeq (·.sched.seq) ((allHolds b).filter p) := by
  apply sortBySeq_ext
  · exact nodup_filter_map seqH p _ (allHolds_nodup ka sa)
  · exact nodup_filter_map seqH p _ (allHolds_nodup kb sb)
  · intro x
    rw [List.mem_filter, List.mem_filter, mem_allHolds ka, mem_allHolds kb]
    constructor
    · rintro ⟨⟨n, hn⟩, hp⟩; exact ⟨⟨n, by rw [← hk]; exact hn⟩, hp⟩
    · rintro ⟨⟨n, hn⟩, hp⟩; exact ⟨⟨n, by rw [hk]; exact hn⟩, hp⟩

/-- `SQ` is a property of what is found under each key: it passes to a database with distinct key ids that shows the same state under
every key and has the same sequence counter -/
theorem SQ.transfer {a b : DB} (sa : SQ a) (_ka : KN a) (kb : KN b) (hk : ∀ n, a.getKey n = b.getKey n) (hs : a.seq = b.seq) : SQ b := by
  have wa : ∀ {n w}, WaitAt b n w → WaitAt a n w := fun h => waitAt_getKey (by rw [hk]; exact h.getKey kb)
  have ha : ∀ {n x}, HoldAt b n x → HoldAt a n x := fun h => holdAt_getKey (by rw [hk]; exact h.getKey kb)
  refine ⟨?_, ?_, ?_, ?_, ?_, ?_⟩
  · intro n w hw; rw [← hs]; exact sa.wlt n w (wa hw)
  · intro n x hx; rw [← hs]; exact sa.hlt n x (ha hx)
  · intro k hkm
    have e : b.getKey k.key = k := getKey_of_mem kb hkm
    rw [← e, ← hk]
    rcases getKey_mem_or_empty a k.key with h1 | h1
    · exact sa.wnd _ h1
    · rw [h1]; simp [emptyKey]
  · intro k hkm
    have e : b.getKey k.key = k := getKey_of_mem kb hkm
    rw [← e, ← hk]
    rcases getKey_mem_or_empty a k.key with h1 | h1
    · exact sa.hnd _ h1
    · rw [h1]; simp [emptyKey]
  · intro n n' w w' hne h1 h2; exact sa.wx n n' w w' hne (wa h1) (wa h2)
  · intro n n' w w' hne h1 h2; exact sa.hx n n' w w' hne (ha h1) (ha h2)

end Slock.SimTick
