import Slock.Proofs.AckKOps
import Slock.Proofs.AckConsOps
/-! M-ACK: `InvK` through grants, the wake pass, `DoAckLock`, LOCK, UNLOCK and the sweeps. -/
namespace Slock.Ack

theorem KR_congr {r r' : Rec} (e1 : r'.depth = r.depth) (e2 : r'.expried = r.expried) (e3 : r'.ack = r.ack) (h : KR r) : KR r' := by
  unfold KR Rec.pending at *; rw [e1, e2, e3]; exact h

theorem fp_congr {r r' : Rec} (e1 : r'.depth = r.depth) (e2 : r'.expried = r.expried) (e3 : r'.ack = r.ack) : r'.fp = r.fp := by
  unfold Rec.fp Rec.pending; rw [e1, e2, e3]

/-- an update that leaves identity, depth, expiry flag and counter alone (plus changes outside recs / tab / journal / cfg) -/
theorem InvK.irrel' {db db' : DB} (hk : InvK db) (hid : Nat) (f : Rec → Rec) (e1 : db'.recs = modRecs hid f db.recs)
    (hf : ∀ r, (f r).hid = r.hid ∧ (f r).depth = r.depth ∧ (f r).expried = r.expried ∧ (f r).ack = r.ack)
    (e2 : db'.tab = db.tab) (e3 : db'.journal = db.journal) (e4 : db'.cfg = db.cfg) : InvK db' := by
  have hg : ∀ a, (db'.getR a).fp = (db.getR a).fp ∧ (db'.getR a).ack = (db.getR a).ack ∧ (db'.getR a).depth = (db.getR a).depth := by
    intro a
    rw [getR_frame (db := db.modR hid f) e1, getR_modR db hid f (fun r => (hf r).1)]
    split
    · split
      · exact ⟨fp_congr (hf _).2.1 (hf _).2.2.1 (hf _).2.2.2, (hf _).2.2.2, (hf _).2.1⟩
      · exact ⟨rfl, rfl, rfl⟩
    · exact ⟨rfl, rfl, rfl⟩
  refine ⟨by rw [e4]; exact hk.cfg, ?_, ?_, ?_, ?_⟩
  · rw [e1]
    exact forall_modR db hid f hk.recs (fun r _ _ hr => KR_congr (hf r).2.1 (hf r).2.2.1 (hf r).2.2.2 hr)
  · intro a hfp; rw [(hg a).1] at hfp; unfold jc tc; rw [e2, e3]; exact hk.k2 a hfp
  · rw [e2, e4]; intro x hx hfp; rw [(hg _).1] at hfp; rw [(hg _).2.1]; exact hk.k1 x hx hfp
  · intro a hj; rw [jc_of_journal e3] at hj
    unfold Rec.pending; rw [(hg a).2.1, (hg a).2.2]; exact hk.kj a hj

theorem InvK.frame {db db' : DB} (hk : InvK db) (e1 : db'.recs = db.recs) (e2 : db'.tab = db.tab) (e3 : db'.journal = db.journal)
    (e4 : db'.cfg = db.cfg) : InvK db' := by
  have hg : ∀ a, db'.getR a = db.getR a := fun a => getR_frame e1 a
  refine ⟨by rw [e4]; exact hk.cfg, by rw [e1]; exact hk.recs, ?_, ?_, ?_⟩
  · intro a hfp; rw [hg] at hfp; unfold jc tc; rw [e2, e3]; exact hk.k2 a hfp
  · rw [e2, e4]; intro x hx hfp; rw [hg] at hfp ⊢; exact hk.k1 x hx hfp
  · intro a hj; rw [jc_of_journal e3] at hj; rw [hg]; exact hk.kj a hj

/-- fewer table entries / journal records -/
theorem InvK.sub {db db' : DB} (hk : InvK db) (e1 : db'.recs = db.recs) (e2 : db'.tab.Sublist db.tab) (e3 : db'.journal.Sublist db.journal)
    (e4 : db'.cfg = db.cfg) : InvK db' := by
  have hg : ∀ a, db'.getR a = db.getR a := fun a => getR_frame e1 a
  refine ⟨by rw [e4]; exact hk.cfg, by rw [e1]; exact hk.recs, ?_, ?_, ?_⟩
  · intro a hfp; rw [hg] at hfp
    have := hk.k2 a hfp
    have h1 : jc db' a ≤ jc db a := jcL_sublist e3 a
    have h2 : tc db' a ≤ tc db a := tcL_sublist e2 a
    omega
  · rw [e4]; intro x hx hfp; rw [hg] at hfp ⊢; exact hk.k1 x (e2.subset hx) hfp
  · intro a hj
    have h1 : jc db' a ≤ jc db a := jcL_sublist e3 a
    rw [hg]; exact hk.kj a (by omega)

theorem InvK.modKey {db : DB} (hk : InvK db) (k : Nat) (f : Key → Key) : InvK (db.modKey k f) := hk.frame (by simp) (by simp) (by simp) (by simp)
theorem InvK.ctrMod {db : DB} (hk : InvK db) (f : Counters → Counters) : InvK (db.ctrMod f) := hk.frame rfl rfl rfl rfl
theorem InvK.dropEnt {db : DB} (hk : InvK db) (id : Nat) : InvK (db.dropEnt id) := hk.sub rfl List.filter_sublist (List.Sublist.refl _) rfl

theorem addLock_tab' (db : DB) (hid : Nat) : (db.addLock hid).tab = db.tab := by unfold DB.addLock; simp
theorem addLock_journal (db : DB) (hid : Nat) : (db.addLock hid).journal = db.journal := by unfold DB.addLock; simp
theorem ackHold_tab (db : DB) (hid : Nat) : (db.ackHold hid).tab = db.tab := by unfold DB.ackHold; simp [valueOp_tab, addLock_tab']
theorem valueOp_journal (db : DB) (hid : Nat) (b : Bool) : (db.valueOp hid b).journal = db.journal := by
  unfold DB.valueOp; simp only []; split; rfl; split <;> simp
theorem ackHold_journal (db : DB) (hid : Nat) : (db.ackHold hid).journal = db.journal := by
  unfold DB.ackHold; simp [valueOp_journal, addLock_journal]

theorem AtK.grant {db : DB} {hid : Nat} {r : Rec} (h : AtK db hid r) :
    ∃ r', AtK (db.grant hid).1 hid r' ∧ r'.depth = 1 ∧ r'.ack = (if r.cmd.ack then 0 else r.ack) ∧ r'.expried = false := by
  unfold DB.grant
  simp only []
  have h0 := h.modR (fun r => { r with timeouted := true }) (by intro _; rfl)
  obtain ⟨r1, h1, a1, a2, a3, a4⟩ := h0.addLock
  obtain ⟨r2, h2, s, _, _⟩ := h1.valueOp false
  obtain ⟨b1, b2, b3, b4, b5, b6⟩ := s
  obtain ⟨r3, h3, c1, c2, c3⟩ := h2.addExpried
  exact ⟨r3, h3.ctrMod _, by rw [c1, b2, a2], by rw [c2, b3, a3], c3⟩

theorem addExpried_journal (db : DB) (hid : Nat) : (db.addExpried hid).journal = db.journal := rfl
theorem grant_journal (db : DB) (hid : Nat) : (db.grant hid).1.journal = db.journal := by
  unfold DB.grant; simp only [ctrMod_journal, addExpried_journal, valueOp_journal, addLock_journal, modR_journal]

/-- `hj`: no LOCK journal record points at the record being granted (a queued request or a record just made) -/
theorem InvK.grant {db : DB} (ha : InvA db) (hk : InvK db) (hid : Nat) {r : Rec} (e : findR db.recs hid = some r) (hle : r.ack ≤ NOACK)
    (hj : jc db hid = 0) : InvK (db.grant hid).1 := by
  obtain ⟨r', h', e1, e2, e3⟩ := (AtK.start ha hk e).grant
  refine h'.finishN ⟨?_, by intro _ hh; rw [e3] at hh; exact absurd hh (by decide)⟩ (fp_false_of_expried e3)
    (by intro hh; rw [jc_of_journal (grant_journal db hid), hj] at hh; omega)
  rw [e2]; split
  · decide
  · exact hle

theorem AtK.ackHold {db : DB} {hid : Nat} {r : Rec} (h : AtK db hid r) :
    ∃ r', AtK (db.ackHold hid) hid r' ∧ r'.cmd = r.cmd ∧ r'.depth = 1 ∧ r'.ack = (if r.cmd.ack then 0 else r.ack) ∧ r'.expried = r.expried := by
  unfold DB.ackHold
  obtain ⟨r1, h1, a1, a2, a3, a4⟩ := h.addLock
  obtain ⟨r2, h2, s, _, _⟩ := h1.valueOp true
  obtain ⟨b1, b2, b3, b4, b5, b6⟩ := s
  exact ⟨r2, h2.ctrMod _, b1.trans a1, b2.trans a2, b3.trans a3, b6.trans a4⟩

/-! ### wake pass -/

theorem InvK.applyWake {db : DB} (ha : InvA db) (hk : InvK db) (k : Nat) : InvK (applyWake db k (classifyWake db k)).1 := by
  have hs := classifyWake_spec (k := k) ha
  cases e : classifyWake db k with
  | stop => exact hk
  | grant w =>
    have hw := hs.1 w e
    have hp := present_of (Or.inr (Or.inl hw.1))
    unfold Slock.Ack.applyWake; simp only []
    have hle := (hk.recs _ (findR_some_mem hp).1).1
    exact InvK.grant (ha.ctrMod _) (hk.ctrMod _) w (r := db.getR w) hp hle (ha.unref (Or.inl hw.1)).1
  | ackGrant w =>
    have hw := hs.2.1 w e
    have hp := present_of (Or.inr (Or.inl hw.1))
    have hu := ha.unref (Or.inl hw.1)
    obtain ⟨r1, h1, a1, a2, a3, a4⟩ := (AtK.start ha hk hp).ackHold
    obtain ⟨r2, h2, s, t2, j2⟩ := h1.pushLock
    obtain ⟨b1, b2, b3, b4, b5, b6⟩ := s
    rw [hw.2] at a3; simp at a3
    unfold Slock.Ack.applyWake; simp only []
    refine (h2.ctrMod _).finish ⟨by rw [b3, a3]; decide, by intro _ _; unfold Rec.pending; rw [b3, a3]; decide⟩ ?_ ?_
      (fun _ => Or.inr (by unfold Rec.pending; rw [b3, a3]; decide))
    · intro _
      have e1 : tc ((db.ackHold w).pushLock w).1 w = 0 := by unfold tc; rw [t2, ackHold_tab]; exact hu.2
      have e2 : jc (db.ackHold w) w = 0 := by unfold jc; rw [ackHold_journal]; exact hu.1
      show jc ((db.ackHold w).pushLock w).1 w + tc ((db.ackHold w).pushLock w).1 w ≤ 1
      omega
    · intro x hx hxe _
      have : x ∈ db.tab := by
        have : x ∈ ((db.ackHold w).pushLock w).1.tab := hx
        rw [t2, ackHold_tab] at this; exact this
      have := (tcL_zero_iff db.tab w).mp hu.2 x this
      exact absurd hxe this
  | ackFail w =>
    have hw := hs.2.2 w e
    have hp := present_of (Or.inr (Or.inl hw.1))
    obtain ⟨r1, h1, _⟩ := (AtK.start ha hk hp).ackHold
    have h2 := (h1.ctrMod (fun x => { x with waitCount := x.waitCount - 1 })).modR (fun r => { r with timeouted := true }) (by intro _; rfl)
    obtain ⟨r3, h3, e1, e2⟩ := h2.rollback
    unfold Slock.Ack.applyWake; simp only []
    exact h3.finishD (KR_dead' e1 e2) e1

theorem InvK.wakeLoop (fuel : Nat) : ∀ {db : DB}, InvA db → InvK db → ∀ (k : Nat) (out : List Reply), InvK (wakeLoop fuel db k out).1 := by
  induction fuel with
  | zero => intro db _ hk k out; exact hk
  | succ n ih =>
    intro db ha hk k out
    unfold Slock.Ack.wakeLoop
    have h1 := InvK.applyWake ha hk k
    have h2 := ha.applyWake k
    cases e : classifyWake db k with
    | stop => simp only []; split; exact hk.modKey _ _; exact hk
    | grant w => simp only []; rw [e] at h1 h2; exact ih h2 h1 k _
    | ackGrant w => simp only []; rw [e] at h1 h2; exact ih h2 h1 k _
    | ackFail w => simp only []; rw [e] at h1 h2; exact ih h2 h1 k _

theorem InvK.wake {db : DB} (ha : InvA db) (hk : InvK db) (k : Nat) (out : List Reply) : InvK (db.wake k out).1 := by
  unfold DB.wake; split; exact InvK.wakeLoop _ ha hk k out; exact hk

/-! ### `DoAckLock` -/

/-- `he`: a pending hold is not in the expiry wheel yet (`QR`); `hj0`: the success exit is reached from the table entry, the journal no longer
holds the lock's LOCK record -/
theorem InvK.ackDone {db : DB} (ha : InvA db) (hk : InvK db) (hid : Nat) (ok : Bool)
    (he : (db.getR hid).pending = true → (db.getR hid).depth > 0 → (db.getR hid).expried = true)
    (hj0 : ok = true → jc db hid = 0) : InvK (ackDone db hid ok).1 := by
  unfold Slock.Ack.ackDone
  by_cases hp : (db.getR hid).pending = true
  · have hpr := present_of (Or.inl hp)
    have h0 := (AtK.start ha hk hpr).modR (fun r => { r with timeouted := true }) (by intro _; rfl)
    have hcl : classifyAck db hid ok = .update ∨ classifyAck db hid ok = .succeed ∨ classifyAck db hid ok = .fail := by
      unfold classifyAck; simp only [hp, Bool.not_true, Bool.false_eq_true, if_false]
      split
      · exact Or.inl rfl
      · split
        · exact Or.inr (Or.inl rfl)
        · exact Or.inr (Or.inr rfl)
    have hupd : classifyAck db hid ok = .update → (db.getR hid).expried = false ∨ (db.getR hid).depth = 0 := by
      intro hc; unfold classifyAck at hc; simp only [hp, Bool.not_true, Bool.false_eq_true, if_false] at hc
      split at hc
      · rename_i h; simpa using h
      · split at hc <;> simp at hc
    rcases hcl with e | e | e <;> rw [e] <;> unfold Slock.Ack.applyAck <;> simp only []
    · have h1 := h0.modR (fun r => { r with ack := NOACK, undo := none }) (by intro _; rfl)
      refine h1.finishN ⟨Nat.le_refl _, ?_⟩ (fp_false_of_noack rfl) ?_
      · intro hd he
        rcases hupd e with h | h
        · simp only [] at he; rw [h] at he; exact absurd he (by decide)
        · simp only [] at hd; omega
      · intro _
        rcases hupd e with h | h
        · by_cases hd : (db.getR hid).depth > 0
          · rw [he hp hd] at h; exact absurd h (by decide)
          · exact Or.inl (by simp only []; omega)
        · exact Or.inl h
    · have h1 := h0.modR (fun r => { r with ack := NOACK, undo := none, expT := r.startT + r.cmd.expried + 1 }) (by intro _; rfl)
      obtain ⟨r2, h2, c1, c2, c3⟩ := h1.addExpried
      have hok : ok = true := by
        unfold classifyAck at e; simp only [hp, Bool.not_true, Bool.false_eq_true, if_false] at e
        split at e
        · simp at e
        · split at e
          · assumption
          · simp at e
      exact h2.finishN ⟨by rw [c2]; exact Nat.le_refl _, by intro _ hh; rw [c3] at hh; exact absurd hh (by decide)⟩ (fp_false_of_expried c3)
        (by intro hh; have : jc ((db.modR hid (fun r => { r with timeouted := true })).modR hid
              (fun r => { r with ack := NOACK, undo := none, expT := r.startT + r.cmd.expried + 1 }) |>.addExpried hid) hid = jc db hid := rfl
            rw [this, hj0 hok] at hh; omega)
    · obtain ⟨r2, h2, c1, c2⟩ := h0.rollback
      have hk' := h2.finishD (KR_dead' c1 c2) c1
      exact InvK.wake ((ha.modR_irrel hid _ (irrel_timeouted true)).rollback hid) hk' _ _
  · have hp' : (db.getR hid).pending = false := by simpa using hp
    have hcl : classifyAck db hid ok = .settled := by unfold classifyAck; simp [hp']
    rw [hcl]; unfold Slock.Ack.applyAck; simp only []
    exact hk.irrel' hid _ rfl (by intro _; exact ⟨rfl, rfl, rfl, rfl⟩) rfl rfl rfl

end Slock.Ack
