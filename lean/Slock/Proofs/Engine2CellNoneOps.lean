import Slock.Proofs.Engine2CellNone
/-! Stage-2 engine: the "no value state" invariant (`DN`: no key record has a value cell, no lock record a pending frame) through
LOCK / UNLOCK without a value frame, the two timer sweeps, role flips, and whole runs (`run_dn`). -/
namespace Slock.CellNone
open Slock Slock.Engine2

/-! ### LOCK without a frame: every branch -/

theorem applyLock_wn {db : DB} (h : DN db) (c : Cmd) (b : LockBranch) : WN (applyLock db c none b) := by
  have he : WN (db.enter c.key) := WN.enter h c.key
  have ho : WN (db.openKey c.key) := WN.openKey h c.key
  cases b with
  | p0a => exact ho.reply _ _ _ _
  | p0b => exact ho.setOut _
  | stateError => exact he.removeIfZero.reply _ _ _ _
  | «show» cur => exact he.reply _ _ _ _
  | updateEqual x => exact he.reply _ _ _ _
  | updateEqualData x =>
    unfold applyLock
    simp only []
    rw [frameOf_none, procData_none]
    exact he.reply _ _ _ _
  | update x =>
    unfold applyLock
    simp only []
    rw [frameOf_none, procData_none]
    have h2 := he.updateLocked x (lockCmdOf (db.enter c.key).k c (.update x))
    exact ((h2.when _ _ (h2.journalLock x _)).reply _ _ _ _).wake
  | relockNoHold x => exact he.reply _ _ _ _
  | relock x =>
    unfold applyLock
    simp only []
    rw [frameOf_none, procData_none]
    have h2 : WN (((db.enter c.key).modR x (fun r => { r with depth := r.depth + 1 })).modK incLocked) :=
      (he.modR x _ (by intro _ hd; exact hd)).incLocked
    exact (((((h2.updateLocked x c).journalLock x _).ctr _).reply _ _ _ _).wake)
  | relockRefused x => exact he.reply _ _ _ _
  | unlockedWaitRefused => exact he.reply _ _ _ _
  | grant =>
    unfold applyLock
    simp only []
    have h2 := (he.newLock c).grant ((db.enter c.key).newLock c none).2
    exact h2.when _ _ h2.wake
  | grantNoHold =>
    unfold applyLock
    simp only []
    have h2 := (((((he.newLock c).grantNoHold ((db.enter c.key).newLock c none).2).freeCheck ((db.enter c.key).newLock c none).2).ctr
      (fun x => { x with lockCount := x.lockCount + 1 })).reply c Slock.Engine.RESULT_SUCCED 0 (db.enter c.key).lockData)
    exact h2.when _ _ h2.wake
  | queue =>
    unfold applyLock
    simp only []
    have h1 := he.newLock c
    exact ((((h1.modK _ (h1.k.addWaitLock _)).addTimeOut _).ref _).ctr _)
  | timeout =>
    unfold applyLock
    simp only []
    exact ((he.newLock c).freeCheck _).reply _ _ _ _

theorem opLock_dn {db : DB} (h : DN db) (c : Cmd) : DN (opLock db c none).1 := (applyLock_wn h c _).commit

/-! ### UNLOCK without a frame -/

theorem applyUnlock_wn {db : DB} (h : DN db) (c : Cmd) (b : UnlockBranch) : WN (applyUnlock db c none b) := by
  have ho : WN (db.openKey c.key) := WN.openKey h c.key
  cases b with
  | noManager => exact ho.bumpErr.setOut _
  | stateError => exact ho.bumpErr.reply _ _ _ _
  | notLocked => exact ho.bumpErr.reply _ _ _ _
  | unown => exact ho.bumpErr.reply _ _ _ _
  | cancelNone => exact ho.bumpErr.reply _ _ _ _
  | cancel x =>
    unfold applyUnlock
    simp only []
    have h1 : WN (((db.openKey c.key).modR x (fun r => { r with timeouted := true })).dropLongT x) :=
      (ho.modR x _ (by intro _ hd; exact hd)).dropLongT x
    have h5 := ((((h1.modK (·.settleWait) h1.k.settleWait).ctr (fun y => { y with waitCount := y.waitCount - 1 })).removeIfZero).ctr
      (fun y => { y with unLockCount := y.unLockCount + 1 }))
    exact ((h5.reply _ _ _ _).reply _ _ _ _).wake
  | dec x c' =>
    unfold applyUnlock
    simp only []
    rw [frameOf_none, procData_none]
    have h1 : WN (((db.openKey c.key).modR x (fun r => { r with depth := r.depth - 1 })).modK (fun k => { k with locked := k.locked - 1 })) := by
      have a := ho.modR x (fun r => { r with depth := r.depth - 1 }) (by intro _ hd; exact hd)
      exact a.modK _ (a.k.of_eq rfl rfl)
    exact ((((h1.journalUnlock x _ true _).ctr _).reply _ _ _ _).wake)
  | release x c' =>
    unfold applyUnlock
    simp only []
    rw [frameOf_none, procData_none]
    have h2 : WN (((db.openKey c.key).modR x (fun r => { r with expried := true })).modK
        (fun k => { k with locked := k.locked - ((db.openKey c.key).k.getR x).depth })) := by
      have a := ho.modR x (fun r => { r with expried := true }) (by intro _ hd; exact hd)
      exact a.modK _ (a.k.of_eq rfl rfl)
    have h4 := (h2.dropLongE x).journalUnlock x (Slock.Engine.has c'.flag Slock.Engine.F_FROM_AOF) false 0
    have h5 := h4.modK (·.removeLock x) (h4.k.removeLock x)
    exact ((((h5.when _ _ (h5.freeCheck x)).ctr _).reply _ _ _ _).wake)

theorem opUnlock_dn {db : DB} (h : DN db) (c : Cmd) : DN (opUnlock db c none).1 := (applyUnlock_wn h c _).commit

/-! ### the sweeps (no command, hence no frame: the wake passes read the frames of queued records — none) -/

theorem WN.fireTimeout {w : W} (h : WN w) (rid : Nat) : WN (w.fireTimeout rid) := by
  unfold W.fireTimeout
  simp only []
  split
  · exact h.wheelBroken
  split
  · exact h.dropT rid
  · have h1 : WN (w.modR rid (fun r => { r with timeouted := true })) := h.modR rid _ (by intro _ hd; exact hd)
    have h5 := ((((h1.modK (·.settleWait) h1.k.settleWait).ctr (fun y => { y with waitCount := y.waitCount - 1 })).dropT rid).ctr
      (fun y => { y with timeoutedCount := y.timeoutedCount + 1 }))
    exact (h5.reply _ _ _ _).wake

theorem WN.fireExpire {w : W} (h : WN w) (rid : Nat) : WN (w.fireExpire rid) := by
  unfold W.fireExpire
  simp only []
  split
  · exact h.wheelBroken
  split
  · exact h.dropE rid
  · split
    · exact (h.modR rid _ (by intro _ hd; exact hd)).addExpried rid
    · have h2 : WN ((w.modR rid (fun r => { r with expried := true })).modK (fun k => { k with locked := k.locked - (w.k.getR rid).depth })) := by
        have a := h.modR rid (fun r => { r with expried := true }) (by intro _ hd; exact hd)
        exact a.modK _ (a.k.of_eq rfl rfl)
      have h3 := h2.when (w.k.getR rid).isAof (·.pushUnLockAof rid (w.k.getR rid).cmd false false AOF_EXPRIED) (h2.pushUnLockAof _ _ _ _ _)
      have h4 := h3.modK (·.removeLock rid) (h3.k.removeLock rid)
      exact ((((h4.dropE rid).ctr _).reply _ _ _ _).wake)

theorem WN.visitTimeout {w : W} (h : WN w) (slot : Bool) (rid : Nat) (w' : W) (hv : w.visitTimeout slot rid = some w') : WN w' := by
  unfold W.visitTimeout at hv
  simp only [] at hv
  split at hv
  · injection hv with hv; rw [← hv]; exact h.wheelBroken
  split at hv
  · injection hv with hv; rw [← hv]; exact h.dropT rid
  · split at hv
    · injection hv with hv; rw [← hv]
      exact (h.modR rid _ (by intro _ hd; exact hd)).addTimeOut rid
    · exact absurd hv (by simp)

theorem WN.visitExpire {w : W} (h : WN w) (slot : Bool) (rid : Nat) (w' : W) (hv : w.visitExpire slot rid = some w') : WN w' := by
  unfold W.visitExpire at hv
  simp only [] at hv
  split at hv
  · injection hv with hv; rw [← hv]; exact h.wheelBroken
  split at hv
  · injection hv with hv; rw [← hv]; exact h.dropE rid
  · split at hv
    · injection hv with hv; rw [← hv]
      exact (h.modR rid _ (by intro _ hd; exact hd)).addExpried rid
    · exact absurd hv (by simp)

theorem timeoutStep_dn (slot : Bool) (acc : DB × List Ent) (e : Ent) (h : DN acc.1) : DN (timeoutStep slot acc e).1 := by
  unfold timeoutStep
  split
  · rename_i w hw
    exact ((WN.openKey h e.key).visitTimeout slot e.rid w hw).commit
  · cases slot
    · exact ((WN.openKey h e.key).collectT e.rid).commit
    · exact h

theorem expireStep_dn (slot : Bool) (acc : DB × List Ent) (e : Ent) (h : DN acc.1) : DN (expireStep slot acc e).1 := by
  unfold expireStep
  split
  · rename_i w hw
    exact ((WN.openKey h e.key).visitExpire slot e.rid w hw).commit
  · exact h

theorem fireTimeoutStep_dn (acc : DB × List Reply) (e : Ent) (h : DN acc.1) : DN (fireTimeoutStep acc e).1 := by
  unfold fireTimeoutStep Engine2.fireTimeout
  exact ((WN.openKey h e.key).fireTimeout e.rid).commit

theorem fireExpireStep_dn (acc : DB × List Reply) (e : Ent) (h : DN acc.1) : DN (fireExpireStep acc e).1 := by
  unfold fireExpireStep Engine2.fireExpire
  exact ((WN.openKey h e.key).fireExpire e.rid).commit

theorem foldl_dn {α β} (f : DB × β → α → DB × β) (hf : ∀ acc a, DN acc.1 → DN (f acc a).1) (l : List α) (acc : DB × β) (h : DN acc.1) :
    DN (l.foldl f acc).1 := by
  induction l generalizing acc with
  | nil => exact h
  | cons a as ih => simp only [List.foldl_cons]; exact ih _ (hf acc a h)

theorem sweepTimeout_dn (db : DB) (c : Nat) (h : DN db) : DN (sweepTimeout db c).1 := by
  unfold sweepTimeout
  simp only []
  have h1 := foldl_dn _ (timeoutStep_dn true) (tEntries db (fun s => s.visit == c && !s.long)) (db, []) h
  have h2 := foldl_dn _ (timeoutStep_dn false) (tEntries db (fun s => s.visit == c && s.long)) _ h1
  exact foldl_dn _ fireTimeoutStep_dn _ _ h2

theorem sweepExpire_dn (db : DB) (c : Nat) (h : DN db) : DN (sweepExpire db c).1 := by
  unfold sweepExpire
  simp only []
  have h1 := foldl_dn _ (expireStep_dn true) (eEntries db (fun s => s.visit == c && !s.long)) (db, []) h
  have h2 := foldl_dn _ (expireStep_dn false) (eEntries db (fun s => s.visit == c && s.long)) _ h1
  exact foldl_dn _ fireExpireStep_dn _ _ h2

theorem opTick_dn {db : DB} (h : DN db) : DN (opTick db).1 := by
  unfold opTick
  simp only []
  apply sweepExpire_dn
  exact (sweepTimeout_dn { db with now := db.now + 1, tCheck := db.now + 1 + 1 } (db.now + 1) (h.of_keys rfl)).of_keys rfl

/-! ### runs -/

/-- the operation carries no value frame (syntactic) -/
def NoFrame : Op → Prop
  | .lock _ d => d = none
  | .unlock _ d => d = none
  | .tick => True
  | .setLeader _ => True

instance : DecidablePred NoFrame := fun o => by
  cases o <;> (unfold NoFrame; infer_instance)

theorem step_dn {db : DB} (h : DN db) (o : Op) (ho : NoFrame o) : DN (step db o).1 := by
  cases o with
  | lock c d =>
    have e : d = none := ho
    subst e
    exact opLock_dn h c
  | unlock c d =>
    have e : d = none := ho
    subst e
    exact opUnlock_dn h c
  | tick => exact opTick_dn h
  | setLeader b => exact h.of_keys rfl

/-- **no value state along frame-free runs**: from a value-free database, operations without value frames (and any clock ticks and role
flips) lead to a value-free database -/
theorem run_dn (ops : List Op) : ∀ {db : DB}, DN db → (∀ o ∈ ops, NoFrame o) → DN (run db ops) := by
  induction ops with
  | nil => intro _ h _; exact h
  | cons o os ih =>
    intro db h hf
    unfold run
    simp only [List.foldl_cons]
    exact ih (step_dn h o (hf o (by simp))) (fun x hx => hf x (List.mem_cons_of_mem _ hx))

/-- … in particular from the initial database: no key record has a value cell, no lock record a pending frame -/
theorem run_init_cell_none (now aofTime : Nat) (ops : List Op) (hf : ∀ o ∈ ops, NoFrame o) (n : Nat) :
    ((run (DB.init now aofTime) ops).getKey n).cell = none ∧ ∀ rid, (((run (DB.init now aofTime) ops).getKey n).getR rid).data = none :=
  have h := (run_dn ops (DN.init now aofTime) hf).getKey n
  ⟨h.cell, h.getR⟩

end Slock.CellNone
