import Slock.Proofs.ValuePanic
/-! PIPELINE with one sub-frame (M-VALUE): the reset to the pre-pipeline cell is then the identity. -/
namespace Slock.Value

theorem proc_single (fuel : Nat) (cx : Ctx) (cur : Option Cell) (c : Cmd) (hp : c.ctype ≠ PIPELINE) :
    proc (fuel + 1) cx cur c = if !gate cx c then pure cur else procOp cx cur c := by
  simp [proc, hp]

theorem pipeLoop_nil (rec : Option Cell → Cmd → M (Option Cell)) (pre : Option Cell) (extra : Bytes) (fuel : Nat)
    (cur : Option Cell) : pipeLoop rec pre extra fuel [] cur = pure cur := by
  cases fuel <;> simp [pipeLoop]

theorem proc_pipeline (fuel : Nat) (cx : Ctx) (cur : Option Cell) (c : Cmd) (hg : gate cx c = true) (hc : c.ctype = PIPELINE)
    (off : Nat) (hoff : cmdOff c = .ok off) (hle : ¬ off > c.data.length) :
    proc (fuel + 1) cx cur c
      = (pipeLoop (proc fuel cx) cur c.extra (c.data.drop off).length (c.data.drop off) cur >>= fun r => pure (pipeFinish cur r)) := by
  simp only [proc, hg, hc, hoff, bind, Except.bind, Bool.not_true, Bool.false_eq_true, if_false, if_true, if_neg hle]

/-- the PIPELINE frame holding exactly the sub-frame `s` -/
def pipe1 (fl : UInt8) (s : Frm) : Frm := ⟨PIPELINE, fl, none, encode s⟩

/-- A PIPELINE with ONE (non-PIPELINE) sub-frame does what the sub-frame alone does, then `pipeFinish` (which only
    touches the persisted flag). -/
theorem pipeline_single (cx : Ctx) (cur : Option Cell) (fl : UInt8) (s : Frm) (hs : s.WF) (hsp : s.op ≠ PIPELINE)
    (hfl : hasFlag fl fFIRSTLAST = false) (hp : hasFlag fl fPROP = false)
    (hlen : 2 + s.hdrLen + s.payload.length < 2 ^ 32) :
    processFrame cx cur (encode (pipe1 fl s)) = (processFrame cx cur (encode s) >>= fun r => pure (pipeFinish cur r)) := by
  have hf : (pipe1 fl s).WF := ⟨by show PIPELINE < 64; decide, by simpa [pipe1] using hp, by intro p h; cases h⟩
  have hg := gate_mkCmd cx (pipe1 fl s) hfl
  have hoff : cmdOff (mkCmd (pipe1 fl s)) = .ok 6 := by
    have := cmdOff_mkCmd _ hf; simpa [pipe1, Frm.hdrLen, propHdr] using this
  have hdrop : (mkCmd (pipe1 fl s)).data.drop 6 = encode s := by
    have := encode_drop_off (pipe1 fl s); simpa [pipe1, Frm.hdrLen, propHdr, mkCmd] using this
  have hl6 : ¬ (6 > (mkCmd (pipe1 fl s)).data.length) := by simp [mkCmd, encode_length]; omega
  -- the single sub-frame alone
  have hsingle : processFrame cx cur (encode s) = if !gate cx (mkCmd s) then pure cur else procOp cx cur (mkCmd s) := by
    simp only [processFrame, parseFrame_encode s hs]
    exact proc_single _ cx cur (mkCmd s) hsp
  -- one round of the loop
  obtain ⟨m, hm⟩ : ∃ m, (encode s).length = m + 1 := ⟨5 + s.hdrLen + s.payload.length, by rw [encode_length]; omega⟩
  obtain ⟨L, hL⟩ : ∃ L, (encode (pipe1 fl s)).length = L + 1 := ⟨5 + (pipe1 fl s).hdrLen + (pipe1 fl s).payload.length, by rw [encode_length]; omega⟩
  have h4 : ¬ (encode s).length < 4 := by rw [encode_length]; omega
  have hdl : readLE ((encode s).take 4) = 2 + s.hdrLen + s.payload.length := by
    rw [encode_take4]; exact readLE_le32 _ hlen
  have hov : ¬ (4 + (2 + s.hdrLen + s.payload.length) > (encode s).length) := by rw [encode_length]; omega
  have htake : (encode s).take (4 + (2 + s.hdrLen + s.payload.length)) = encode s := by
    apply List.take_of_length_le; rw [encode_length]; omega
  have hrest : (encode s).drop (4 + (2 + s.hdrLen + s.payload.length)) = [] := by
    apply List.drop_eq_nil_of_le; rw [encode_length]; omega
  have hloop : pipeLoop (proc (L + 1) cx) cur [] (encode s).length (encode s) cur
      = (processFrame cx cur (encode s) >>= fun r => pure r) := by
    rw [hm, pipeLoop, if_neg h4]
    simp only [hdl, if_neg hov, htake, hrest, List.append_nil, parseFrame_encode s hs]
    have hc1 : (if (mkCmd s).ctype ≠ EXECUTE then cur else cur) = cur := by split <;> rfl
    rw [hc1, proc_single L cx cur (mkCmd s) hsp, ← hsingle]
    cases processFrame cx cur (encode s) with
    | error e => rfl
    | ok r => simp [bind, Except.bind, pipeLoop_nil]
  have hP : processFrame cx cur (encode (pipe1 fl s)) = proc ((encode (pipe1 fl s)).length + 1) cx cur (mkCmd (pipe1 fl s)) := by
    simp only [processFrame, parseFrame_encode _ hf]
  rw [hP, proc_pipeline _ cx cur _ hg rfl 6 hoff hl6, hdrop, hL]
  have hex : (mkCmd (pipe1 fl s)).extra = [] := rfl
  rw [hex, hloop]
  cases processFrame cx cur (encode s) with
  | error e => rfl
  | ok r => rfl

theorem absCell_pipeFinish (pre cur : Option Cell) : absCell (pipeFinish pre cur) = absCell cur := by
  unfold pipeFinish
  cases cur with
  | none => rfl
  | some k =>
    simp only
    split <;> (split <;> simp [absCell, Cell.hasData, Cell.isArray])

theorem pipeFinish_some (pre : Option Cell) (k : Cell) : ∃ b, pipeFinish pre (some k) = some { k with isAof := b } := by
  unfold pipeFinish
  simp only
  split <;> (split <;> first | exact ⟨true, rfl⟩ | exact ⟨k.isAof, rfl⟩)

theorem cellWF_pipeFinish (pre cur : Option Cell) (h : CellWF cur) : CellWF (pipeFinish pre cur) := by
  cases h with
  | none => exact CellWF.none
  | unset aof =>
    obtain ⟨b, hb⟩ := pipeFinish_some pre (unsetCell aof)
    rw [hb]; exact CellWF.unset b
  | data g ex ct aof h0 hgw ha hct =>
    obtain ⟨b, hb⟩ := pipeFinish_some pre ⟨encode g, ex, ct, aof⟩
    rw [hb]; exact CellWF.data g ex ct b h0 hgw ha hct

end Slock.Value
