import Slock.Proofs.AckAt
/-! M-ACK: every operation keeps the record-local invariant `QR` and the balance
`answered + open = (what was answered / open before) + (the request the operation itself brought)`. -/
namespace Slock.Ack

theorem QR_of {r : Rec} (h1 : r.timeouted = false → (r.depth > 0 → r.pending = true) ∧ (r.depth = 0 → r.queued = true))
    (h2 : r.expried = false → r.timeouted = true ∧ r.pending = false ∧ r.queued = false)
    (h3 : r.queued = true → r.pending = false ∧ r.expried = true) (h4 : r.ack ≤ NOACK) : QR r := ⟨h1, h2, h3, h4⟩

theorem pending_iff (r : Rec) : r.pending = true ↔ r.ack ≠ NOACK := by unfold Rec.pending; simp
theorem pending_false_iff (r : Rec) : r.pending = false ↔ r.ack = NOACK := by unfold Rec.pending; simp

theorem openR_eq (x : Rid) (r : Rec) : openR x r = if r.cmd.rid = x then b2i r.queued + b2i r.pending else 0 := rfl

/-- what a record owes depends only on its command, queue membership and counter -/
theorem openR_congr (x : Rid) {r r' : Rec} (e1 : r'.cmd = r.cmd) (e2 : r'.queued = r.queued) (e3 : r'.ack = r.ack) : openR x r' = openR x r := by
  unfold openR Rec.pending; rw [e1, e2, e3]

/-! ### grants -/

theorem grant_snd (db : DB) (hid : Nat) : ∃ l d, (db.grant hid).2 = mkReply (db.getR hid).cmd R_SUCCED l 1 d := ⟨_, _, rfl⟩

theorem At.grant {x : Rid} {db : DB} {hid : Nat} {r : Rec} {base : Int} (h : At x db hid r base) :
    ∃ r', At x (db.grant hid).1 hid r' base ∧ r'.cmd = r.cmd ∧ r'.depth = 1 ∧ r'.ack = (if r.cmd.ack then 0 else r.ack) ∧ r'.queued = false ∧
      r'.timeouted = true ∧ r'.expried = false := by
  unfold DB.grant
  simp only []
  have h0 := h.modR (fun r => { r with timeouted := true }) (by intro _; rfl)
  obtain ⟨r1, h1, a1, a2, a3, a4, a5, a6⟩ := h0.addLock
  obtain ⟨r2, h2, b1, b2, b3, b4, b5, b6⟩ := h1.valueOp false
  obtain ⟨r3, h3, c1, c2, c3, c4, c5, c6⟩ := h2.addExpried
  refine ⟨r3, h3.ctrMod _, ?_, ?_, ?_, ?_, ?_, c6⟩
  · rw [c1, b1, a1]
  · rw [c2, b2, a2]
  · rw [c3, b3, a3]
  · rw [c4, b4, a4]
  · rw [c5, b5, a5]

theorem At.ackHold {x : Rid} {db : DB} {hid : Nat} {r : Rec} {base : Int} (h : At x db hid r base) :
    ∃ r', At x (db.ackHold hid) hid r' base ∧ r'.cmd = r.cmd ∧ r'.depth = 1 ∧ r'.ack = (if r.cmd.ack then 0 else r.ack) ∧ r'.queued = false ∧
      r'.timeouted = r.timeouted ∧ r'.expried = r.expried := by
  unfold DB.ackHold
  obtain ⟨r1, h1, a1, a2, a3, a4, a5, a6⟩ := h.addLock
  obtain ⟨r2, h2, b1, b2, b3, b4, b5, b6⟩ := h1.valueOp true
  exact ⟨r2, h2.ctrMod _, b1.trans a1, b2.trans a2, b3.trans a3, b4.trans a4, b5.trans a5, b6.trans a6⟩

/-! ### wake pass -/

theorem classifyWake_spec {db : DB} {k : Nat} (ha : InvA db) :
    (∀ w, classifyWake db k = .grant w → (db.getR w).queued = true ∧ (db.getR w).cmd.ack = false) ∧
    (∀ w, classifyWake db k = .ackGrant w → (db.getR w).queued = true ∧ (db.getR w).cmd.ack = true) ∧
    (∀ w, classifyWake db k = .ackFail w → (db.getR w).queued = true ∧ (db.getR w).cmd.ack = true) := by
  unfold classifyWake
  cases e : (db.waiters k).head? with
  | none => simp
  | some w0 =>
    have hm := waiters_head e
    have hg := ha.getR_of_mem hm.1
    simp only []
    refine ⟨?_, ?_, ?_⟩ <;> intro w hw <;> (split at hw; simp at hw) <;> split at hw
    · split at hw <;> simp at hw
    · rename_i hna; simp at hw; subst hw; rw [hg]; exact ⟨hm.2, by simpa using hna⟩
    · rename_i hya; split at hw <;> simp at hw; subst hw; rw [hg]; exact ⟨hm.2, hya⟩
    · simp at hw
    · rename_i hya; split at hw <;> simp at hw; subst hw; rw [hg]; exact ⟨hm.2, hya⟩
    · simp at hw

theorem applyWake_cons (x : Rid) {db : DB} (ha : InvA db) (hq : InvQ db) (k : Nat) :
    InvQ (applyWake db k (classifyWake db k)).1 ∧
      answered x (applyWake db k (classifyWake db k)).2 + openN x (applyWake db k (classifyWake db k)).1 = openN x db := by
  have hs := classifyWake_spec (k := k) ha
  cases e : classifyWake db k with
  | stop => exact ⟨hq, by simp [applyWake]⟩
  | grant w =>
    have hw := hs.1 w e
    have hp := present_of (Or.inr (Or.inl hw.1))
    have hqr := hq.getR w
    have h0 := (At.start x ha hq hp).ctrMod (fun x => { x with waitCount := x.waitCount - 1 })
    obtain ⟨r', h1, a1, a2, a3, a4, a5, a6⟩ := h0.grant
    have hpn : (db.getR w).ack = NOACK := (pending_false_iff _).mp (hqr.2.2.1 hw.1).1
    rw [hw.2] at a3; simp at a3
    have hr' : QR r' := QR_of (by rw [a5]; simp) (by intro _; exact ⟨a5, (pending_false_iff _).mpr (a3.trans hpn), a4⟩)
      (by rw [a4]; simp) (by rw [a3, hpn]; exact Nat.le_refl _)
    obtain ⟨hq', hb⟩ := h1.finish hr'
    unfold applyWake
    simp only []
    refine ⟨hq', ?_⟩
    obtain ⟨l, d, eg⟩ := grant_snd (db.ctrMod (fun x => { x with waitCount := x.waitCount - 1 })) w
    rw [eg, answered_mk x _ _ _ _ _ (by decide), hb, getR_ctrMod]
    have e1 : openR x r' = 0 := by rw [openR_eq, a4, (pending_false_iff _).mpr (a3.trans hpn)]; simp [b2i]
    have e2 : openR x (db.getR w) = hit x (db.getR w).cmd.rid := by
      rw [openR_eq, hw.1, (hqr.2.2.1 hw.1).1]; unfold hit b2i; simp
    omega
  | ackGrant w =>
    have hw := hs.2.1 w e
    have hp := present_of (Or.inr (Or.inl hw.1))
    have hqr := hq.getR w
    obtain ⟨r1, h1, a1, a2, a3, a4, a5, a6⟩ := (At.start x ha hq hp).ackHold
    obtain ⟨r2, h2, s⟩ := h1.pushLock
    obtain ⟨b1, b2, b3, b4, b5, b6⟩ := s
    rw [hw.2] at a3; simp at a3
    have hexp : (db.getR w).expried = true := (hqr.2.2.1 hw.1).2
    have hr2 : QR r2 := QR_of (by intro _; rw [b2, a2, (pending_iff _).mpr (by rw [b3, a3]; decide)]; simp)
      (by rw [b6, a6, hexp]; simp) (by rw [b4, a4]; simp) (by rw [b3, a3]; decide)
    obtain ⟨hq', hb⟩ := (h2.ctrMod (fun x => { x with waitCount := x.waitCount - 1 })).finish hr2
    unfold applyWake
    simp only []
    refine ⟨hq', ?_⟩
    rw [hb]
    have e1 : openR x r2 = hit x (db.getR w).cmd.rid := by
      rw [openR_eq, b4, a4, (pending_iff _).mpr (by rw [b3, a3]; decide), b1, a1]; unfold hit b2i; simp
    have e2 : openR x (db.getR w) = hit x (db.getR w).cmd.rid := by
      rw [openR_eq, hw.1, (hqr.2.2.1 hw.1).1]; unfold hit b2i; simp
    simp; omega
  | ackFail w =>
    have hw := hs.2.2 w e
    have hp := present_of (Or.inr (Or.inl hw.1))
    have hqr := hq.getR w
    obtain ⟨r1, h1, a1, a2, a3, a4, a5, a6⟩ := (At.start x ha hq hp).ackHold
    have h2 := (h1.ctrMod (fun x => { x with waitCount := x.waitCount - 1 })).modR (fun r => { r with timeouted := true }) (by intro _; rfl)
    obtain ⟨r3, h3, c1, c2, c3, c4, c5, c6⟩ := h2.rollback
    have hexp : (db.getR w).expried = true := (hqr.2.2.1 hw.1).2
    have hr3 : QR r3 := QR_of (by rw [c5]; simp) (by rw [c6]; simp [a6, hexp]) (by rw [c4]; simp [a4]) (by rw [c3]; exact Nat.le_refl _)
    obtain ⟨hq', hb⟩ := h3.finish hr3
    unfold applyWake
    simp only []
    refine ⟨hq', ?_⟩
    rw [answered_mk x _ _ _ _ _ (by decide), hb]
    have e1 : openR x r3 = 0 := by rw [openR_eq, c4, (pending_false_iff _).mpr c3]; simp [a4, b2i]
    have e2 : openR x (db.getR w) = hit x (db.getR w).cmd.rid := by
      rw [openR_eq, hw.1, (hqr.2.2.1 hw.1).1]; unfold hit b2i; simp
    omega

theorem wakeLoop_cons (x : Rid) (fuel : Nat) : ∀ {db : DB}, InvA db → InvQ db → ∀ (k : Nat) (out : List Reply),
    InvQ (wakeLoop fuel db k out).1 ∧ answered x (wakeLoop fuel db k out).2 + openN x (wakeLoop fuel db k out).1 = answered x out + openN x db := by
  induction fuel with
  | zero => intro db _ hq k out; exact ⟨hq, rfl⟩
  | succ n ih =>
    intro db ha hq k out
    unfold wakeLoop
    have hc := applyWake_cons x ha hq k
    have hi := ha.applyWake k
    cases e : classifyWake db k with
    | stop =>
      simp only []
      split
      · exact ⟨hq.modKey _ _, by simp⟩
      · exact ⟨hq, rfl⟩
    | grant w =>
      simp only []; rw [e] at hc hi
      have := ih hi hc.1 k (out ++ (applyWake db k (.grant w)).2)
      refine ⟨this.1, ?_⟩
      rw [this.2, answered_append]; have := hc.2; omega
    | ackGrant w =>
      simp only []; rw [e] at hc hi
      have := ih hi hc.1 k (out ++ (applyWake db k (.ackGrant w)).2)
      refine ⟨this.1, ?_⟩
      rw [this.2, answered_append]; have := hc.2; omega
    | ackFail w =>
      simp only []; rw [e] at hc hi
      have := ih hi hc.1 k (out ++ (applyWake db k (.ackFail w)).2)
      refine ⟨this.1, ?_⟩
      rw [this.2, answered_append]; have := hc.2; omega

theorem wake_cons (x : Rid) {db : DB} (ha : InvA db) (hq : InvQ db) (k : Nat) (out : List Reply) :
    InvQ (db.wake k out).1 ∧ answered x (db.wake k out).2 + openN x (db.wake k out).1 = answered x out + openN x db := by
  unfold DB.wake
  split
  · exact wakeLoop_cons x _ ha hq k out
  · exact ⟨hq, rfl⟩

/-! ### `DoAckLock` -/

theorem QR_timeouted {r : Rec} (h : QR r) : QR { r with timeouted := true } :=
  QR_of (by simp) (fun he => ⟨rfl, (h.2.1 he).2.1, (h.2.1 he).2.2⟩) h.2.2.1 h.2.2.2

theorem not_queued_of_pending {r : Rec} (h : QR r) (hp : r.pending = true) : r.queued = false := by
  cases e : r.queued with
  | false => rfl
  | true => have := (h.2.2.1 e).1; rw [hp] at this; exact absurd this (by decide)

theorem expried_of_pending {r : Rec} (h : QR r) (hp : r.pending = true) : r.expried = true := by
  cases e : r.expried with
  | true => rfl
  | false => have := (h.2.1 e).2.1; rw [hp] at this; exact absurd this (by decide)

theorem ackDone_cons (x : Rid) {db : DB} (ha : InvA db) (hq : InvQ db) (hid : Nat) (ok : Bool) :
    InvQ (ackDone db hid ok).1 ∧ answered x (ackDone db hid ok).2 + openN x (ackDone db hid ok).1 = openN x db := by
  unfold ackDone
  have hqr := hq.getR hid
  by_cases hp : (db.getR hid).pending = true
  · -- a pending record: it is there, one reply, no longer pending afterwards
    have hpr := present_of (Or.inl hp)
    have hnq := not_queued_of_pending hqr hp
    have hex := expried_of_pending hqr hp
    have h0 := (At.start x ha hq hpr).modR (fun r => { r with timeouted := true }) (by intro _; rfl)
    have hopen : openR x (db.getR hid) = hit x (db.getR hid).cmd.rid := by
      rw [openR_eq, hnq, hp]; unfold hit b2i; simp
    have hcl : classifyAck db hid ok = .update ∨ classifyAck db hid ok = .succeed ∨ classifyAck db hid ok = .fail := by
      unfold classifyAck; simp only [hp, Bool.not_true, Bool.false_eq_true, if_false]
      split
      · exact Or.inl rfl
      · split
        · exact Or.inr (Or.inl rfl)
        · exact Or.inr (Or.inr rfl)
    rcases hcl with e | e | e <;> rw [e] <;> unfold applyAck <;> simp only []
    · have h1 := h0.modR (fun r => { r with ack := NOACK, undo := none }) (by intro _; rfl)
      obtain ⟨hq', hb⟩ := h1.finish (QR_of (by simp) (by intro _; exact ⟨rfl, by simp [Rec.pending], hnq⟩) (by simp [hnq]) (Nat.le_refl _))
      refine ⟨hq', ?_⟩
      rw [h0.getR, answered_mk x _ _ _ _ _ (by decide), hb]
      have : openR x ({ ({ (db.getR hid) with timeouted := true } : Rec) with ack := NOACK, undo := none } : Rec) = 0 := by
        rw [openR_eq]; simp [hnq, Rec.pending, b2i]
      simp only [] at this ⊢
      omega
    · have h1 := h0.modR (fun r => { r with ack := NOACK, undo := none, expT := r.startT + r.cmd.expried + 1 }) (by intro _; rfl)
      obtain ⟨r2, h2, c1, c2, c3, c4, c5, c6⟩ := h1.addExpried
      obtain ⟨hq', hb⟩ := h2.finish (QR_of (by rw [c5]; simp) (by intro _; exact ⟨c5, (pending_false_iff _).mpr c3, by rw [c4]; exact hnq⟩)
        (by rw [c4]; simp [hnq]) (by rw [c3]; exact Nat.le_refl _))
      refine ⟨hq', ?_⟩
      rw [h0.getR, answered_mk x _ _ _ _ _ (by decide), hb]
      have : openR x r2 = 0 := by rw [openR_eq, c4, (pending_false_iff _).mpr c3]; simp [hnq, b2i]
      simp only [] at this ⊢
      omega
    · obtain ⟨r2, h2, c1, c2, c3, c4, c5, c6⟩ := h0.rollback
      obtain ⟨hq', hb⟩ := h2.finish (QR_of (by rw [c5]; simp) (by rw [c6]; simp [hex]) (by rw [c4]; simp [hnq]) (by rw [c3]; exact Nat.le_refl _))
      have ha' : InvA ((db.modR hid (fun r => { r with timeouted := true })).rollback hid) := (ha.modR_irrel hid _ (irrel_timeouted true)).rollback hid
      refine ⟨(wake_cons x ha' hq' _ _).1, ?_⟩
      rw [(wake_cons x ha' hq' _ _).2, h0.getR, answered_mk x _ _ _ _ _ (by decide), hb]
      have : openR x r2 = 0 := by rw [openR_eq, c4, (pending_false_iff _).mpr c3]; simp [hnq, b2i]
      simp only [] at this ⊢
      omega
  · have hp' : (db.getR hid).pending = false := by simpa using hp
    have hcl : classifyAck db hid ok = .settled := by unfold classifyAck; simp [hp']
    rw [hcl]; unfold applyAck; simp only []
    refine ⟨hq.modR hid _ (fun r _ _ hr => QR_timeouted hr), ?_⟩
    simp
    exact openN_modR_same x db hid _ (fun r => openR_congr x rfl rfl rfl)

/-! ### LOCK -/

theorem newRec_findR {db : DB} (ha : InvA db) (c : Cmd) : ∃ r0 : Rec, findR (db.newRec c).1.recs (db.newRec c).2 = some r0 ∧ r0.cmd = c ∧
    r0.depth = 0 ∧ r0.queued = false ∧ r0.ack = NOACK ∧ r0.timeouted = true ∧ r0.expried = true := by
  obtain ⟨r0, e0, e1, e2, e3, e4, e5, e6, e7⟩ := newRec_recs db c
  refine ⟨r0, ?_, e5, e2, e3, e4, e6, e7⟩
  rw [e0, newRec_snd]
  unfold findR
  rw [List.find?_append]
  have : List.find? (fun x => x.hid == db.nextHid) db.recs = none := by
    rw [List.find?_eq_none]; intro r hr; have := ha.hidLt r hr; simp; omega
  rw [this]; simp [List.find?, e1]

theorem classifyLock_spec (db : DB) (c : Cmd) :
    (∀ h, classifyLock db c = .relock h → ∃ r, findHolder db c.key c.lockId = some r ∧ r.hid = h ∧ r.pending = false) ∧
    (classifyLock db c = .grant → c.ack = false) ∧ (classifyLock db c = .ackGrant → c.ack = true) := by
  unfold classifyLock
  simp only []
  refine ⟨?_, ?_, ?_⟩
  · intro h hh
    split at hh
    · simp at hh
    · split at hh
      · split at hh
        · rename_i r hr
          split at hh
          · simp at hh
          · rename_i hnp
            split at hh
            · simp at hh; exact ⟨r, hr, hh, by simpa using hnp⟩
            · simp at hh
        · split at hh <;> (try split at hh) <;> simp at hh
      · split at hh <;> (try split at hh) <;> simp at hh
  · intro hh
    split at hh
    · simp at hh
    · split at hh
      · split at hh
        · split at hh <;> (try split at hh) <;> simp at hh
        · split at hh
          · split at hh
            · simp at hh
            · rename_i hna; simpa using hna
          · split at hh <;> simp at hh
      · split at hh
        · split at hh
          · simp at hh
          · rename_i hna; simpa using hna
        · split at hh <;> simp at hh
  · intro hh
    split at hh
    · simp at hh
    · split at hh
      · split at hh
        · split at hh <;> (try split at hh) <;> simp at hh
        · split at hh
          · split at hh
            · rename_i hya; exact hya
            · simp at hh
          · split at hh <;> simp at hh
      · split at hh
        · split at hh
          · rename_i hya; exact hya
          · simp at hh
        · split at hh <;> simp at hh

theorem opLock_cons (x : Rid) {db : DB} (ha : InvA db) (hq : InvQ db) (c : Cmd) :
    InvQ (opLock db c).1 ∧ answered x (opLock db c).2 + openN x (opLock db c).1 = openN x db + hit x c.rid := by
  have hs := classifyLock_spec db c
  unfold opLock
  cases e : classifyLock db c with
  | stateError => unfold applyLock; exact ⟨hq, by simp only []; rw [answered_mk x _ _ _ _ _ (by decide)]; omega⟩
  | ackWaiting h => unfold applyLock; exact ⟨hq, by simp only []; rw [answered_mk x _ _ _ _ _ (by decide)]; omega⟩
  | relockRefused h => unfold applyLock; exact ⟨hq, by simp only []; rw [answered_mk x _ _ _ _ _ (by decide)]; omega⟩
  | timeout => unfold applyLock; exact ⟨hq, by simp only []; rw [answered_mk x _ _ _ _ _ (by decide)]; omega⟩
  | relock h =>
    obtain ⟨r, hr, e1, hnp⟩ := hs.1 h e
    have hm := findHolder_mem hr
    have hg : db.getR h = r := by rw [← e1]; exact ha.getR_of_mem hm.1
    have hqr := hq.recs r hm.1
    have hnq := ha.heldNQ r hm.1 hm.2
    have hto : r.timeouted = true := by
      cases et : r.timeouted with
      | true => rfl
      | false => have := (hqr.1 et).1 hm.2; rw [hnp] at this; exact absurd this (by decide)
    have hpr : findR db.recs h = some r := by rw [← hg]; exact present_of (Or.inr (Or.inr (Or.inr (Or.inr (by rw [hg]; exact hm.2)))))
    have h1 := ((At.start x ha hq hpr).modR (fun r => { r with depth := r.depth + 1 }) (by intro _; rfl)).modKey c.key
      (fun k => { k with locked := k.locked + 1 })
    unfold applyLock
    simp only []
    -- the value operation touches the key only; then UpdateLockedLock, maybe the long-table move, maybe the journal
    have hfin : ∀ (d : DB) (r1 : Rec), At x d h r1 (openN x db - openR x r) → r1.cmd = r.cmd → r1.ack = r.ack → r1.queued = r.queued →
        r1.timeouted = r.timeouted → r1.depth = r.depth + 1 →
        InvQ (if ((d.updateHold h c).getR h).isAof = true then ((d.updateHold h c).pushJ ((d.updateHold h c).getR h).noAckFlag true).1 else d.updateHold h c) ∧
          openN x (if ((d.updateHold h c).getR h).isAof = true then ((d.updateHold h c).pushJ ((d.updateHold h c).getR h).noAckFlag true).1 else d.updateHold h c) = openN x db - openR x r := by
      intro d r1 hd c1 c3 c4 c5 c2
      have hu : ∃ r2, At x (d.updateHold h c) h r2 (openN x db - openR x r) ∧ r2.cmd = c ∧ r2.ack = r.ack ∧ r2.queued = r.queued ∧
          r2.timeouted = r.timeouted ∧ r2.depth = r.depth + 1 := by
        unfold DB.updateHold
        simp only []
        have hd1 := hd.modR (Rec.updateF d.now c) (by intro _; rfl)
        split
        · obtain ⟨r3, h3, f1, f2, f3, f4, f5, f6⟩ := hd1.addExpried
          exact ⟨r3, h3, f1, by rw [f3]; exact c3, by rw [f4]; exact c4, by rw [f5]; exact c5, by rw [f2]; exact c2⟩
        · exact ⟨_, hd1, rfl, c3, c4, c5, c2⟩
      obtain ⟨r2, h2, g1, g3, g4, g5, g2⟩ := hu
      have hq2 : ∀ r3, SameCore r2 r3 → QR r3 := by
        intro r3 s
        obtain ⟨s1, s2, s3, s4, s5, s6⟩ := s
        have hp3 : r3.pending = false := (pending_false_iff _).mpr (by rw [s3, g3]; exact (pending_false_iff _).mp hnp)
        exact QR_of (by rw [s5, g5, hto]; simp) (by intro _; exact ⟨by rw [s5, g5]; exact hto, hp3, by rw [s4, g4]; exact hnq⟩)
          (by rw [s4, g4, hnq]; simp) (by rw [s3, g3]; exact hqr.2.2.2)
      have ho : ∀ r3, SameCore r2 r3 → openR x r3 = 0 := by
        intro r3 s
        obtain ⟨s1, s2, s3, s4, s5, s6⟩ := s
        rw [openR_eq, s4, g4, hnq, (pending_false_iff _).mpr (by rw [s3, g3]; exact (pending_false_iff _).mp hnp)]; simp [b2i]
      split
      · obtain ⟨hq', hb⟩ := (h2.pushJ ((d.updateHold h c).getR h).noAckFlag true).finish (hq2 r2 (SameCore.refl _))
        exact ⟨hq', by rw [hb, ho r2 (SameCore.refl _)]; omega⟩
      · obtain ⟨hq', hb⟩ := h2.finish (hq2 r2 (SameCore.refl _))
        exact ⟨hq', by rw [hb, ho r2 (SameCore.refl _)]; omega⟩
    have hor : openR x r = 0 := by rw [openR_eq, hnq, hnp]; simp [b2i]
    have hrl : InvQ (db.relockHold c h) ∧ openN x (db.relockHold c h) = openN x db - openR x r := by
      unfold DB.relockHold
      simp only []
      split
      · rename_i fr _
        have := hfin _ _ (h1.modKey c.key (fun k => { k with cell := some (applyFrame k.cell fr).1 })) rfl rfl rfl rfl rfl
        exact ⟨this.1.ctrMod _, by rw [openN_ctrMod, this.2]⟩
      · have := hfin _ _ h1 rfl rfl rfl rfl rfl
        exact ⟨this.1.ctrMod _, by rw [openN_ctrMod, this.2]⟩
    have hw := wake_cons x (ha.relockHold c h (classifyLock_relock ha e)) hrl.1 c.key
      [mkReply c R_SUCCED ((db.relockHold c h).getKey c.key).locked ((db.relockHold c h).getR h).depth (db.curData c.key)]
    refine ⟨hw.1, ?_⟩
    rw [hw.2, answered_mk x _ _ _ _ _ (by decide), hrl.2]; omega
  | grant =>
    have hca := hs.2.1 e
    obtain ⟨r0, f0, f1, f2, f3, f4, f5, f6⟩ := newRec_findR ha c
    have han := ha.newRec c
    have hqn := hq.newRec c
    obtain ⟨r', h1, a1, a2, a3, a4, a5, a6⟩ := (At.start x han hqn f0).grant
    rw [f1, hca] at a3; simp at a3
    have hp' : r'.pending = false := (pending_false_iff _).mpr (a3.trans f4)
    obtain ⟨hq', hb⟩ := h1.finish (QR_of (by rw [a5]; simp) (by intro _; exact ⟨a5, hp', a4⟩) (by rw [a4]; simp) (by rw [a3, f4]; exact Nat.le_refl _))
    have hag : InvA ((db.newRec c).1.grant (db.newRec c).2).1 := han.grant _ (ha.newRec_unref c)
    have e0 : openR x r0 = 0 := by rw [openR_eq, f3, (pending_false_iff _).mpr f4]; simp [b2i]
    have e1 : openR x r' = 0 := by rw [openR_eq, a4, hp']; simp [b2i]
    obtain ⟨l, d, eg⟩ := grant_snd (db.newRec c).1 (db.newRec c).2
    have hgc : ((db.newRec c).1.getR (db.newRec c).2).cmd = c := by rw [getR_eq, f0]; exact f1
    have hbal : answered x [((db.newRec c).1.grant (db.newRec c).2).2] + openN x ((db.newRec c).1.grant (db.newRec c).2).1 = openN x db + hit x c.rid := by
      rw [eg, answered_mk x _ _ _ _ _ (by decide), hb, hgc, openN_newRec]; omega
    unfold applyLock
    simp only []
    split
    · have := wake_cons x hag hq' c.key [((db.newRec c).1.grant (db.newRec c).2).2]
      exact ⟨this.1, by rw [this.2]; exact hbal⟩
    · exact ⟨hq', hbal⟩
  | ackGrant =>
    have hca := hs.2.2 e
    obtain ⟨r0, f0, f1, f2, f3, f4, f5, f6⟩ := newRec_findR ha c
    have han := ha.newRec c
    have hqn := hq.newRec c
    obtain ⟨r1, h1, a1, a2, a3, a4, a5, a6⟩ := (At.start x han hqn f0).ackHold
    obtain ⟨r2, h2, b1, b2, b3, b4, b5, b6⟩ := h1.addTimeOut
    obtain ⟨r3, h3, s⟩ := h2.pushLock
    obtain ⟨s1, s2, s3, s4, s5, s6⟩ := s
    rw [f1, hca] at a3; simp at a3
    have hack : r3.ack = 0 := by rw [s3, b3, a3]
    have hp3 : r3.pending = true := (pending_iff _).mpr (by rw [hack]; decide)
    obtain ⟨hq', hb⟩ := h3.finish (QR_of (by intro _; simp [hp3]; rw [s2, b2, a2]; omega)
      (by rw [s6, b6, a6, f6]; simp) (by rw [s4, b4, a4]; simp) (by rw [hack]; decide))
    have e0 : openR x r0 = 0 := by rw [openR_eq, f3, (pending_false_iff _).mpr f4]; simp [b2i]
    have e3 : openR x r3 = hit x c.rid := by rw [openR_eq, s4, b4, a4, hp3, s1, b1, a1, f1]; unfold hit b2i; simp
    have hbal : openN x ((((db.newRec c).1.ackHold (db.newRec c).2).addTimeOut (db.newRec c).2).pushLock (db.newRec c).2).1 = openN x db + hit x c.rid := by
      rw [hb, openN_newRec]; omega
    have hai : InvA ((((db.newRec c).1.ackHold (db.newRec c).2).addTimeOut (db.newRec c).2).pushLock (db.newRec c).2).1 := by
      apply InvA.pushLock ((han.ackHold _ (ha.newRec_unref c)).addTimeOut _)
      · rw [addTimeOut_nextHid, ackHold_nextHid, newRec_nextHid, newRec_snd]; omega
      · rw [queued_addTimeOut]; exact queued_ackHold_self _ _
    unfold applyLock
    simp only []
    split
    · exact ⟨hq', by simp; exact hbal⟩
    · have := ackDone_cons x hai hq' (db.newRec c).2 false
      exact ⟨this.1, by rw [this.2]; exact hbal⟩
  | queue =>
    obtain ⟨r0, f0, f1, f2, f3, f4, f5, f6⟩ := newRec_findR ha c
    have han := ha.newRec c
    have hqn := hq.newRec c
    have h1 := (At.start x han hqn f0).modR (fun r => { r with queued := true }) (by intro _; rfl)
    obtain ⟨r2, h2, b1, b2, b3, b4, b5, b6⟩ := h1.addTimeOut
    have hp2 : r2.pending = false := (pending_false_iff _).mpr (by rw [b3]; exact f4)
    obtain ⟨hq', hb⟩ := ((h2.modKey c.key (fun k => { k with waited := true })).ctrMod (fun x => { x with waitCount := x.waitCount + 1 })).finish
      (QR_of (by intro _; rw [b2, b4]; simp [f2]) (by rw [b6]; simp [f6]) (by intro _; exact ⟨hp2, by rw [b6]; exact f6⟩) (by rw [b3]; show r0.ack ≤ NOACK; rw [f4]; exact Nat.le_refl _))
    have e0 : openR x r0 = 0 := by rw [openR_eq, f3, (pending_false_iff _).mpr f4]; simp [b2i]
    have e2 : openR x r2 = hit x c.rid := by rw [openR_eq, b4, hp2, b1]; simp [f1]; unfold hit b2i; simp
    unfold applyLock
    simp only []
    exact ⟨hq', by rw [hb, openN_newRec]; simp; omega⟩

end Slock.Ack
