import Slock.Proofs.EngineSimTickFireE
import Slock.Proofs.EngineSimTickFireT
/-! Clock-tick simulation (`sim_tick`): what a sweep step does to the OTHER lock records of the key record it works on (`WFK`): every
surviving record keeps its command and connection; no record becomes a live queued request; a record that stays a live queued request
keeps its stage-1 view; a record that is a hold afterwards kept its stage-1 view — or it was a live queued request granted by the
step's wake pass, with an identity not below the sequence counter the step started from. -/
namespace Slock.SimTick
open Slock Slock.Sim Slock.Engine2
open Slock.Engine (has)

structure WFK (X : Nat → Prop) (seq0 : Nat) (k' k : Key) : Prop where
  sub : ∀ y, k'.hasRec y → k.hasRec y
  cc : ∀ y, k'.hasRec y → (k'.getR y).cmd = (k.getR y).cmd ∧ (k'.getR y).conn = (k.getR y).conn
  nr : ∀ y, k'.hasRec y → (k'.getR y).timeouted = false → (k.getR y).timeouted = false
  lv : ∀ y, ¬ X y → k'.hasRec y → (k'.getR y).timeouted = false → (k'.getR y).toWaiter = (k.getR y).toWaiter
  hd : ∀ y, ¬ X y → k'.hasRec y → 0 < (k'.getR y).depth →
    (k'.getR y).toHold = (k.getR y).toHold ∨ ((k.getR y).timeouted = false ∧ seq0 ≤ (k'.getR y).hid)
  /-- every hold (the records in `X` included) kept its identity, or was granted by the step -/
  hh : ∀ y, k'.hasRec y → 0 < (k'.getR y).depth →
    ((k'.getR y).hid = (k.getR y).hid ∧ 0 < (k.getR y).depth) ∨ ((k.getR y).timeouted = false ∧ seq0 ≤ (k'.getR y).hid)

namespace WFK
variable {X : Nat → Prop} {seq0 : Nat}

theorem refl (k : Key) : WFK X seq0 k k :=
  ⟨fun _ h => h, fun _ _ => ⟨rfl, rfl⟩, fun _ _ h => h, fun _ _ _ _ => rfl, fun _ _ _ _ => Or.inl rfl, fun _ _ h => Or.inl ⟨rfl, h⟩⟩

theorem trans {a b c : Key} (h1 : WFK X seq0 a b) (h2 : WFK X seq0 b c) : WFK X seq0 a c := by
  refine ⟨fun y hy => h2.sub y (h1.sub y hy), ?_, ?_, ?_, ?_, ?_⟩
  · intro y hy
    obtain ⟨a1, a2⟩ := h1.cc y hy
    obtain ⟨b1, b2⟩ := h2.cc y (h1.sub y hy)
    exact ⟨a1.trans b1, a2.trans b2⟩
  · intro y hy hl; exact h2.nr y (h1.sub y hy) (h1.nr y hy hl)
  · intro y hx hy hl
    exact (h1.lv y hx hy hl).trans (h2.lv y hx (h1.sub y hy) (h1.nr y hy hl))
  · intro y hx hy hd
    rcases h1.hd y hx hy hd with e | ⟨e1, e2⟩
    · have hdb : 0 < (b.getR y).depth := by
        have : ((a.getR y).toHold).depth = ((b.getR y).toHold).depth := by rw [e]
        have h' : (a.getR y).depth = (b.getR y).depth := this
        omega
      rcases h2.hd y hx (h1.sub y hy) hdb with e' | ⟨e1', e2'⟩
      · exact Or.inl (e.trans e')
      · right
        refine ⟨e1', ?_⟩
        have : ((a.getR y).toHold).hid = ((b.getR y).toHold).hid := by rw [e]
        have h' : (a.getR y).hid = (b.getR y).hid := this
        omega
    · exact Or.inr ⟨h2.nr y (h1.sub y hy) e1, e2⟩
  · intro y hy hd
    rcases h1.hh y hy hd with ⟨e1, e2⟩ | ⟨e1, e2⟩
    · rcases h2.hh y (h1.sub y hy) e2 with ⟨e1', e2'⟩ | ⟨e1', e2'⟩
      · exact Or.inl ⟨e1.trans e1', e2'⟩
      · exact Or.inr ⟨e1', by omega⟩
    · exact Or.inr ⟨h2.nr y (h1.sub y hy) e1, e2⟩

theorem mono {X' : Nat → Prop} {seq0' : Nat} {k' k : Key} (h : WFK X seq0 k' k) (hx : ∀ y, X y → X' y) (hs : seq0' ≤ seq0) : WFK X' seq0' k' k := by
  refine ⟨h.sub, h.cc, h.nr, fun y hy => h.lv y (fun h' => hy (hx y h')), fun y hy hh hd => ?_, fun y hh hd => ?_⟩
  · rcases h.hd y (fun h' => hy (hx y h')) hh hd with e | ⟨e1, e2⟩
    · exact Or.inl e
    · exact Or.inr ⟨e1, by omega⟩
  · rcases h.hh y hh hd with e | ⟨e1, e2⟩
    · exact Or.inl e
    · exact Or.inr ⟨e1, by omega⟩

/-- same records -/
theorem of_recs {k' k : Key} (h : k'.recs = k.recs) : WFK X seq0 k' k := by
  have hg : ∀ y, k'.getR y = k.getR y := fun y => by unfold Key.getR; rw [h]
  have hh : ∀ y, k'.hasRec y ↔ k.hasRec y := fun y => by unfold Key.hasRec; rw [h]
  exact ⟨fun y hy => (hh y).mp hy, fun y _ => by rw [hg]; exact ⟨rfl, rfl⟩, fun y _ hl => by rw [← hg]; exact hl, fun y _ _ _ => by rw [hg],
    fun y _ _ _ => Or.inl (by rw [hg]), fun y _ hd => Or.inl ⟨by rw [hg], by rw [← hg]; exact hd⟩⟩

/-- every record outside `X` keeps its stage-1 view; the records in `X` keep command and connection and do not come to life -/
theorem of_pkx {k' k : Key} (p : PKeepX πA X k' k)
    (hx : ∀ y, X y → k'.hasRec y → k.hasRec y ∧ (k'.getR y).cmd = (k.getR y).cmd ∧ (k'.getR y).conn = (k.getR y).conn ∧
      ((k'.getR y).timeouted = false → (k.getR y).timeouted = false) ∧
      (0 < (k'.getR y).depth → ((k'.getR y).hid = (k.getR y).hid ∧ 0 < (k.getR y).depth) ∨ ((k.getR y).timeouted = false ∧ seq0 ≤ (k'.getR y).hid))) :
    WFK X seq0 k' k := by
  refine ⟨?_, ?_, ?_, ?_, ?_, ?_⟩
  · intro y hy
    by_cases h : X y
    · exact (hx y h hy).1
    · exact p.sub y h hy
  · intro y hy
    by_cases h : X y
    · exact ⟨(hx y h hy).2.1, (hx y h hy).2.2.1⟩
    · have hv := p.val y h hy
      exact ⟨cmd_of_πA hv, conn_of_πA hv⟩
  · intro y hy hl
    by_cases h : X y
    · exact (hx y h hy).2.2.2.1 hl
    · rw [← timeouted_of_πA (p.val y h hy)]; exact hl
  · intro y h hy _
    exact congrArg (fun t => t.2.1) (p.val y h hy)
  · intro y h hy _
    exact Or.inl (congrArg (fun t => t.1) (p.val y h hy))
  · intro y hy hd
    by_cases h : X y
    · exact (hx y h hy).2.2.2.2 hd
    · have e := congrArg (fun t => t.1) (p.val y h hy)
      have e1 : (k'.getR y).hid = (k.getR y).hid := congrArg Engine.Hold.hid e
      have e2 : (k'.getR y).depth = (k.getR y).depth := congrArg Engine.Hold.depth e
      exact Or.inl ⟨e1, by rw [← e2]; exact hd⟩

theorem of_pk {k' k : Key} (p : PKeep πA k' k) : WFK X seq0 k' k :=
  (of_pkx (X := fun _ => False) (PKeepX.of_pk p) (fun _ h => absurd h id)).mono (fun _ h => absurd h id) (Nat.le_refl _)

end WFK

/-- command and connection of a record -/
def πC (r : Rec) : Engine.Cmd × Nat := (r.cmd, r.conn)
theorem ins_πC : Ins πC := ⟨fun _ _ => rfl, fun _ _ => rfl, fun _ _ => rfl, fun _ _ => rfl⟩

theorem pkC_grant (w : W) (rid : Nat) : PK πC (w.grant rid) w := by
  have hf := addLockF_fields w.db w.k
  unfold W.grant
  simp only []
  refine PK.trans (b := (w.addLock rid).modK incLocked) ?_ ?_
  · refine PK.trans (PK.of_k rfl) ?_
    refine PK.trans (PK.of_k rfl) ?_
    refine PK.trans (pk_ref ins_πC _ rid) ?_
    refine PK.trans (pk_addExpried ins_πC _ rid (fun _ _ => rfl)) ?_
    exact PK.trans (pk_modR _ rid (fun r => { r with data := none }) (fun _ => rfl) (fun _ => rfl)) (pk_procData ins_πC _ _ _ _ _)
  · refine PK.trans (b := w.addLock rid) (pk_modK (w.addLock rid) incLocked (PKeep.of_eq rfl)) ?_
    exact pk_modK w _ (PKeep.addLock ins_πC w.k rid _ (fun r => (hf r).1) (fun r => by
      unfold πC; rw [(hf r).2.2.2.2.2.2.1, (hf r).2.2.2.2.2.2.2.2]))

theorem pkC_wakeOne (w : W) (rid : Nat) : PK πC (w.wakeOne rid) w := by
  have p0 : PK πC (wakePre w rid) w := by
    unfold wakePre
    refine PK.trans (PK.of_k rfl) ?_
    exact PK.trans (pk_dropLongT ins_πC _ rid (fun _ _ => rfl)) (pk_modR w rid (fun r => { r with timeouted := true }) (fun _ => rfl) (fun _ => rfl))
  rw [wakeOne_eq]
  split
  · exact (pkC_grant _ rid).trans p0
  · exact PK.trans (PK.of_k rfl) (PK.trans (PK.of_k rfl) ((pk_grantNoHold ins_πC _ rid).trans p0))

/-- a live queued request is not a hold -/
theorem depth_zero_of_live {w : W} (g : Good w) (rid : Nat) (hh : w.k.hasRec rid) (hl : (w.k.getR rid).timeouted = false) : (w.k.getR rid).depth = 0 := by
  apply Classical.byContradiction
  intro hne
  have hd : 0 < (w.k.getR rid).depth := Nat.pos_of_ne_zero hne
  have h1 := (recFine_of g rid hh).hold hd
  have h2 := g.lv.side.ok _ (getR_mem hh) hl
  rw [h1] at h2; exact absurd h2 (by simp)

/-- one grant of the wake pass -/
theorem wakeOne_wfk {w : W} (g : Good w) (rid : Nat) (hh : w.k.hasRec rid) (hd : w.k.deadWaiter rid = false) :
    WFK (fun _ => False) w.db.seq (w.wakeOne rid).k w.k := by
  have hl : (w.k.getR rid).timeouted = false := hd
  have px := wakeOne_others w rid
  have pc := pkC_wakeOne w rid
  obtain ⟨_, s2, _⟩ := wakeOne_spec w rid
  -- the granted record: if it is a hold, its identity is the sequence number spent on it
  have hgr : (w.wakeOne rid).k.hasRec rid → 0 < ((w.wakeOne rid).k.getR rid).depth → w.db.seq ≤ ((w.wakeOne rid).k.getR rid).hid := by
    intro hy hdp
    rw [wakeOne_eq] at hdp ⊢
    have hpre : (wakePre w rid).k.hasRec rid := by
      unfold wakePre
      show (((w.modR rid (fun r => { r with timeouted := true })).dropLongT rid).k).hasRec rid
      have h0 : (w.modR rid (fun r => { r with timeouted := true })).k.hasRec rid :=
        (hasRec_modR w rid rid (fun r => { r with timeouted := true }) (fun _ => rfl)).mpr hh
      unfold W.dropLongT W.when
      split
      · exact (getR_removeLongT _ rid h0).1
      · exact h0
    split at hdp
    · rename_i hc
      rw [if_pos hc]
      obtain ⟨r1, _⟩ := grant_recI (wakePre w rid) rid hpre
      rw [r1, (wakePre_db w rid).1]
      exact Nat.le_refl _
    · rename_i hc
      exfalso
      have dk : DK ((((wakePre w rid).grantNoHold rid).ctr (fun c => { c with lockCount := c.lockCount + 1 })).reply
          { ((wakePre w rid).k.getR rid).cmd with conn := ((wakePre w rid).k.getR rid).conn } Engine.RESULT_SUCCED 0 (wakePre w rid).lockData) w := by
        refine DK.trans (DK.of_k rfl) (DK.trans (DK.of_k rfl) ((dk_grantNoHold _ rid).trans ?_))
        unfold wakePre
        exact DK.trans (DK.of_k rfl) ((dk_dropLongT _ rid).trans (dk_modR w rid _ (fun _ => rfl) (fun _ => rfl)))
      have hsame := dk.depth rid (by
        have := hy
        rw [wakeOne_eq, if_neg hc] at this
        exact this)
      rw [hsame, depth_zero_of_live g rid hh hl] at hdp
      exact absurd hdp (by simp)
  have h1 : WFK (· = rid) w.db.seq (w.wakeOne rid).k w.k := by
    refine WFK.of_pkx px ?_
    intro y hy hyy
    subst hy
    have hv := pc.val y hyy
    refine ⟨hh, congrArg (fun t => t.1) hv, congrArg (fun t => t.2) hv, fun hl' => ?_, fun hdp => Or.inr ⟨hl, hgr hyy hdp⟩⟩
    rw [s2 hyy] at hl'; exact absurd hl' (by simp)
  refine ⟨h1.sub, h1.cc, h1.nr, ?_, ?_, h1.hh⟩
  · intro y _ hy hl'
    by_cases e : y = rid
    · subst e; rw [s2 hy] at hl'; exact absurd hl' (by simp)
    · exact h1.lv y e hy hl'
  · intro y _ hy hdp
    by_cases e : y = rid
    · subst e; exact Or.inr ⟨hl, hgr hy hdp⟩
    · exact h1.hd y e hy hdp

theorem removeIfZero_recs (w : W) : w.removeIfZero.k.recs = w.k.recs := by
  unfold W.removeIfZero; split <;> rfl

theorem wakePass_wfk (fuel : Nat) (w : W) (g : Good w) : WFK (fun _ => False) w.db.seq (W.wakePass fuel w).k w.k := by
  induction fuel generalizing w with
  | zero => exact WFK.refl _
  | succ n ih =>
    unfold W.wakePass
    simp only []
    have g1 := good_getWaitLock g
    have p1 : WFK (fun _ => False) w.db.seq (w.modK (·.getWaitLock.1)).k w.k := WFK.of_pk (PKeep.getWaitLock ins_πA w.k)
    split
    · refine WFK.trans (b := (w.modK (·.getWaitLock.1)).k) ?_ p1
      apply WFK.of_recs
      show ((w.modK (·.getWaitLock.1)).modK clearWaited).removeIfZero.k.recs = _
      rw [removeIfZero_recs]; rfl
    · rename_i rid hr
      split
      · exact p1
      · obtain ⟨e, rest, hw, he, hd⟩ := getWaitLock_some w.k rid hr
        obtain ⟨g2, _, _⟩ := g1.wakeOne rid e rest hw he hd
        have hh : (w.modK (·.getWaitLock.1)).k.hasRec rid := by
          have := wait_hasRec g1.lv e (by show e ∈ w.k.getWaitLock.1.wait; rw [hw]; simp)
          rw [he] at this; exact this
        have p2 := wakeOne_wfk g1 rid hh hd
        have p3 := ih ((w.modK (·.getWaitLock.1)).wakeOne rid) g2
        have hs : w.db.seq ≤ ((w.modK (·.getWaitLock.1)).wakeOne rid).db.seq := (Fr.wakeOne (w.modK (·.getWaitLock.1)) rid).seq
        exact (p3.mono (fun _ h => h) hs).trans (p2.trans p1)

theorem wakePass_nil_wfk (fuel : Nat) (w : W) (hw : w.k.wait = []) : WFK (fun _ => False) w.db.seq (W.wakePass fuel w).k w.k := by
  cases fuel with
  | zero => exact WFK.refl _
  | succ n =>
    unfold W.wakePass
    simp only []
    have e : w.k.getWaitLock = (w.k, none) := by unfold Key.getWaitLock; rw [hw]; rfl
    rw [e]
    simp only []
    apply WFK.of_recs
    show ((w.modK (·.getWaitLock.1)).modK clearWaited).removeIfZero.k.recs = _
    rw [removeIfZero_recs]
    show (clearWaited w.k.getWaitLock.1).recs = w.k.recs
    rw [e]; rfl

/-- the wake pass at the end of a step -/
theorem wake_wfk {w : W} (g : w.gone = false → Good w) (hgw : GW w) : WFK (fun _ => False) w.db.seq w.wake.k w.k := by
  unfold W.wake W.when
  split
  · cases hg : w.gone with
    | false => exact wakePass_wfk _ w (g hg)
    | true => exact wakePass_nil_wfk _ w (hgw hg)
  · exact WFK.refl _

end Slock.SimTick
