import Slock.Proofs.AckInvOps
/-! M-ACK: `InvA` is kept by every operation (grant, wake pass, `DoAckLock`, LOCK, UNLOCK, sweeps, journal delivery, reports, demotion),
hence by every event and every run. -/
namespace Slock.Ack

/-! ### queue membership of a looked-up record through updates -/

theorem getR_frame {db db' : DB} (e : db'.recs = db.recs) (a : Nat) : db'.getR a = db.getR a := by rw [getR_eq, getR_eq, e]
@[simp] theorem getR_modKey (db : DB) (k : Nat) (f : Key → Key) (a : Nat) : (db.modKey k f).getR a = db.getR a := getR_frame (by simp) a
@[simp] theorem getR_ctrMod (db : DB) (f : Counters → Counters) (a : Nat) : (db.ctrMod f).getR a = db.getR a := getR_frame rfl a

theorem queued_modR_pres (db : DB) (hid : Nat) (f : Rec → Rec) (hf : ∀ r, (f r).hid = r.hid) (hq : ∀ r, (f r).queued = r.queued) (a : Nat) :
    ((db.modR hid f).getR a).queued = (db.getR a).queued := by
  rw [getR_modR db hid f hf]
  split
  · split
    · exact hq _
    · rfl
  · rfl

theorem queued_recs_pres {db db' : DB} (hid : Nat) (f : Rec → Rec) (e : db'.recs = modRecs hid f db.recs)
    (hf : ∀ r, (f r).hid = r.hid) (hq : ∀ r, (f r).queued = r.queued) (a : Nat) : (db'.getR a).queued = (db.getR a).queued := by
  rw [getR_frame (db := db.modR hid f) e]; exact queued_modR_pres db hid f hf hq a

theorem queued_addExpried (db : DB) (hid a : Nat) : ((db.addExpried hid).getR a).queued = (db.getR a).queued := by
  unfold DB.addExpried; exact queued_recs_pres hid _ rfl (by intro _; rfl) (by intro _; rfl) a
theorem queued_addTimeOut (db : DB) (hid a : Nat) : ((db.addTimeOut hid).getR a).queued = (db.getR a).queued := by
  unfold DB.addTimeOut; exact queued_recs_pres hid _ rfl (by intro _; rfl) (by intro _; rfl) a
theorem addExpried_nextHid (db : DB) (hid : Nat) : (db.addExpried hid).nextHid = db.nextHid := rfl
theorem addTimeOut_nextHid (db : DB) (hid : Nat) : (db.addTimeOut hid).nextHid = db.nextHid := rfl

theorem queued_addLock_self (db : DB) (hid : Nat) : ((db.addLock hid).getR hid).queued = false := by
  unfold DB.addLock
  rw [getR_modKey, getR_toEnd, getR_modR db hid _ (by intro _; rfl)]
  cases e : findR db.recs hid with
  | some r => simp [Rec.addLockF]
  | none => simp; rw [getR_eq, e]; rfl

theorem queued_valueOp (db : DB) (hid : Nat) (b : Bool) (a : Nat) : ((db.valueOp hid b).getR a).queued = (db.getR a).queued := by
  unfold DB.valueOp
  simp only []
  split
  · rfl
  · split
    · rw [queued_modR_pres _ hid _ (by intro _; rfl) (by intro _; rfl), getR_modKey]
    · rw [getR_modKey]

theorem queued_ackHold_self (db : DB) (hid : Nat) : ((db.ackHold hid).getR hid).queued = false := by
  unfold DB.ackHold
  rw [getR_ctrMod, queued_valueOp, queued_addLock_self]

theorem addLock_nextHid (db : DB) (hid : Nat) : (db.addLock hid).nextHid = db.nextHid := by unfold DB.addLock; simp
theorem addLock_tab (db : DB) (hid : Nat) : (db.addLock hid).tab = db.tab := by unfold DB.addLock; simp
theorem valueOp_nextHid (db : DB) (hid : Nat) (b : Bool) : (db.valueOp hid b).nextHid = db.nextHid := by
  unfold DB.valueOp; simp only []; split; rfl; split <;> simp
theorem valueOp_tab (db : DB) (hid : Nat) (b : Bool) : (db.valueOp hid b).tab = db.tab := by
  unfold DB.valueOp; simp only []; split; rfl; split <;> simp
theorem ackHold_nextHid (db : DB) (hid : Nat) : (db.ackHold hid).nextHid = db.nextHid := by
  unfold DB.ackHold; simp [valueOp_nextHid, addLock_nextHid]

/-! ### grants -/

theorem InvA.grant {db : DB} (h : InvA db) (hid : Nat) (hn : ∀ e ∈ db.tab, e.hid ≠ hid) : InvA (db.grant hid).1 := by
  unfold DB.grant
  simp only []
  apply InvA.ctrMod
  apply InvA.addExpried
  apply InvA.valueOp
  apply InvA.addLock
  · exact h.modR_irrel hid _ (irrel_timeouted true)
  · exact hn

theorem InvA.ackHold {db : DB} (h : InvA db) (hid : Nat) (hn : ∀ e ∈ db.tab, e.hid ≠ hid) : InvA (db.ackHold hid) := by
  unfold DB.ackHold
  apply InvA.ctrMod
  apply InvA.valueOp
  exact h.addLock hid hn

theorem InvA.unref_of_queued {db : DB} (h : InvA db) {w : Nat} (hq : (db.getR w).queued = true) : ∀ e ∈ db.tab, e.hid ≠ w := by
  intro e he e1
  have := (h.tabOk e he).2.1
  rw [e1, hq] at this; exact absurd this (by decide)

theorem waiters_head {db : DB} {k : Nat} {w : Rec} (h : (db.waiters k).head? = some w) : w ∈ db.recs ∧ w.queued = true := by
  have hm : w ∈ db.waiters k := List.mem_of_head? h
  unfold DB.waiters at hm
  have := List.mem_filter.mp hm
  exact ⟨this.1, by have := this.2; simp at this; exact this.2⟩

theorem classifyWake_hid {db : DB} {k : Nat} (h : InvA db) :
    (∀ w, classifyWake db k = .grant w ∨ classifyWake db k = .ackGrant w ∨ classifyWake db k = .ackFail w →
      w < db.nextHid ∧ (db.getR w).queued = true) := by
  intro w hw
  unfold classifyWake at hw
  cases e : (db.waiters k).head? with
  | none => rw [e] at hw; simp at hw
  | some w0 =>
    rw [e] at hw
    have hm := waiters_head e
    have hg := h.getR_of_mem hm.1
    have hl := h.hidLt w0 hm.1
    simp only [] at hw
    have : w = w0.hid := by
      split at hw
      · simp at hw
      · split at hw
        · split at hw <;> simp at hw <;> exact hw.symm
        · simp at hw; exact hw.symm
    subst this
    rw [hg]; exact ⟨hl, hm.2⟩

theorem InvA.applyWake {db : DB} (h : InvA db) (k : Nat) : InvA (applyWake db k (classifyWake db k)).1 := by
  have hc := classifyWake_hid (k := k) h
  cases e : classifyWake db k with
  | stop => exact h
  | grant w =>
    have := hc w (Or.inl e)
    unfold Slock.Ack.applyWake; simp only []
    exact (h.ctrMod _).grant w (h.unref_of_queued this.2)
  | ackGrant w =>
    have := hc w (Or.inr (Or.inl e))
    unfold Slock.Ack.applyWake; simp only []
    apply InvA.ctrMod
    apply InvA.pushLock (h.ackHold w (h.unref_of_queued this.2))
    · rw [ackHold_nextHid]; exact this.1
    · exact queued_ackHold_self db w
  | ackFail w =>
    have := hc w (Or.inr (Or.inr e))
    unfold Slock.Ack.applyWake; simp only []
    apply InvA.rollback
    apply InvA.modR_irrel _ _ _ (irrel_timeouted true)
    apply InvA.ctrMod
    exact h.ackHold w (h.unref_of_queued this.2)

theorem InvA.wakeLoop (fuel : Nat) : ∀ {db : DB}, InvA db → ∀ (k : Nat) (out : List Reply), InvA (wakeLoop fuel db k out).1 := by
  induction fuel with
  | zero => intro db h k out; exact h
  | succ n ih =>
    intro db h k out
    unfold Slock.Ack.wakeLoop
    have ha := h.applyWake k
    cases e : classifyWake db k with
    | stop =>
      simp only []
      split
      · exact h.modKey _ _
      · exact h
    | grant w => simp only []; rw [e] at ha; exact ih ha k _
    | ackGrant w => simp only []; rw [e] at ha; exact ih ha k _
    | ackFail w => simp only []; rw [e] at ha; exact ih ha k _

theorem InvA.wake {db : DB} (h : InvA db) (k : Nat) (out : List Reply) : InvA (db.wake k out).1 := by
  unfold DB.wake
  split
  · exact InvA.wakeLoop _ h k out
  · exact h

/-! ### `DoAckLock` -/

/-- settle record `x` (counter := 0xff): allowed even when its counter was zero -/
theorem InvX.settle {db : DB} {x : Nat} (h : InvX db x) (f : Rec → Rec)
    (hf : ∀ r, (f r).hid = r.hid ∧ (f r).depth = r.depth ∧ (f r).queued = r.queued ∧ (f r).ack = NOACK) : InvA (db.modR x f) := by
  have h1 : InvX (db.modR x f) x := by
    apply InvX.modR h x f (fun r => (hf r).1)
    · intro r _ _ hq; rw [(hf r).2.2.1] at hq; exact hq
    · intro r hr _ hd; rw [(hf r).2.1] at hd; rw [(hf r).2.2.1]; exact h.heldNQ r hr hd
    · intro hne; exact absurd rfl hne
  apply h1.toA
  rw [getR_modR db x f (fun r => (hf r).1)]
  simp only [if_true]
  cases e : findR db.recs x with
  | some r => simp [Rec.pending, (hf _).2.2.2]
  | none => simp; rw [getR_eq, e]; rfl

theorem InvX.modR_irrel' {db : DB} {x : Nat} (h : InvX db x) (hid : Nat) (f : Rec → Rec) (hf : Irrel f) : InvX (db.modR hid f) x :=
  h.modR_irrel hid f hf

theorem InvA.applyAck {db : DB} (h : InvA db) (hid : Nat) (b : AckBranch) : InvA (applyAck db hid b).1 := by
  have h0 : InvA (db.modR hid (fun r => { r with timeouted := true })) := h.modR_irrel hid _ (irrel_timeouted true)
  unfold Slock.Ack.applyAck
  simp only []
  cases b with
  | settled => exact h0
  | update => exact (h0.toX hid).settle _ (by intro _; exact ⟨rfl, rfl, rfl, rfl⟩)
  | succeed => exact ((h0.toX hid).settle _ (by intro _; exact ⟨rfl, rfl, rfl, rfl⟩)).addExpried hid
  | fail => exact (h0.rollback hid).wake _ _

theorem InvA.ackDone {db : DB} (h : InvA db) (hid : Nat) (ok : Bool) : InvA (ackDone db hid ok).1 := h.applyAck hid _

/-- `DoAckLock(lock, true)` right after the last decrement: the counter of `x` is zero, the record is pending -/
theorem InvX.ackDone_true {db : DB} {x : Nat} (h : InvX db x) (hp : (db.getR x).pending = true) : InvA (ackDone db x true).1 := by
  have h0 : InvX (db.modR x (fun r => { r with timeouted := true })) x := h.modR_irrel x _ (irrel_timeouted true)
  unfold Slock.Ack.ackDone classifyAck
  simp only [hp, Bool.not_true, Bool.false_eq_true, if_false, if_true]
  split
  · unfold Slock.Ack.applyAck; exact h0.settle _ (by intro _; exact ⟨rfl, rfl, rfl, rfl⟩)
  · unfold Slock.Ack.applyAck; exact (h0.settle _ (by intro _; exact ⟨rfl, rfl, rfl, rfl⟩)).addExpried x

/-! ### LOCK -/

theorem findHolder_mem {db : DB} {k l : Nat} {r : Rec} (h : findHolder db k l = some r) : r ∈ db.recs ∧ r.depth > 0 := by
  unfold findHolder at h
  have hm := List.mem_of_find?_eq_some h
  unfold DB.holders at hm
  have := List.mem_filter.mp hm
  exact ⟨this.1, by have := this.2; simp at this; exact this.2⟩

theorem holders_head_mem {db : DB} {k : Nat} {r : Rec} (h : (db.holders k).head? = some r) : r ∈ db.recs ∧ r.depth > 0 := by
  have hm : r ∈ db.holders k := List.mem_of_head? h
  unfold DB.holders at hm
  have := List.mem_filter.mp hm
  exact ⟨this.1, by have := this.2; simp at this; exact this.2⟩

/-- an update of a holder's record that keeps it out of the queue and leaves the counter alone -/
theorem InvA.modR_holder {db : DB} (h : InvA db) (hid : Nat) (f : Rec → Rec)
    (hf : ∀ r, (f r).hid = r.hid ∧ (f r).queued = r.queued ∧ (f r).ack = r.ack)
    (hd : ∀ r, (f r).depth > 0 → r.depth > 0) : InvA (db.modR hid f) := by
  apply InvA.modR h hid f (fun r => (hf r).1)
  · intro r _ _ hq; rw [(hf r).2.1] at hq; exact hq
  · intro r hr _ hd'; rw [(hf r).2.1]; exact h.heldNQ r hr (hd r hd')
  · intro ⟨e, he, e1⟩ hp
    have := (h.tabOk e he).2.2
    rw [e1] at this
    unfold Rec.pending at hp this
    rw [(hf _).2.2] at hp ⊢
    exact this hp

theorem InvA.updateHold {db : DB} (h : InvA db) (hid : Nat) (c : Cmd) : InvA (db.updateHold hid c) := by
  unfold DB.updateHold
  simp only []
  split
  · exact (h.modR_irrel hid _ (irrel_updateF db.now c)).addExpried hid
  · exact h.modR_irrel hid _ (irrel_updateF db.now c)

theorem queued_updateHold (db : DB) (hid : Nat) (c : Cmd) (a : Nat) : ((db.updateHold hid c).getR a).queued = (db.getR a).queued := by
  unfold DB.updateHold
  simp only []
  split
  · rw [queued_addExpried, queued_modR_pres _ hid _ (by intro _; rfl) (by intro _; rfl)]
  · rw [queued_modR_pres _ hid _ (by intro _; rfl) (by intro _; rfl)]

theorem updateHold_nextHid (db : DB) (hid : Nat) (c : Cmd) : (db.updateHold hid c).nextHid = db.nextHid := by
  unfold DB.updateHold DB.addExpried; simp only []; split <;> rfl

theorem noAck_ack (r : Rec) : r.noAckFlag.cmd.ack = false := by show has 0 TF_ACK = false; decide
theorem noAck_hid (r : Rec) : r.noAckFlag.hid = r.hid := rfl

theorem InvA.relockHold {db : DB} (h : InvA db) (c : Cmd) (x : Nat) (hx : x < db.nextHid ∧ (db.getR x).queued = false) :
    InvA (db.relockHold c x) := by
  unfold DB.relockHold
  simp only []
  apply InvA.ctrMod
  have h1 : InvA ((db.modR x (fun r => { r with depth := r.depth + 1 })).modKey c.key (fun k => { k with locked := k.locked + 1 })) := by
    apply InvA.modKey
    apply InvA.modR h x
    · intro _; rfl
    · intro r _ _ hq; exact hq
    · intro r hr e1 _
      have := h.getR_of_mem hr
      rw [e1] at this; rw [this] at hx; exact hx.2
    · intro ⟨e0, he, e1⟩ hp
      have := (h.tabOk e0 he).2.2
      rw [e1] at this; exact this hp
  split
  · rename_i f _
    have h2 := (h1.modKey c.key (fun k => { k with cell := some (applyFrame k.cell f).1 })).updateHold x c
    split
    · exact h2.pushJ _ true (fun _ hh => by rw [noAck_ack] at hh; exact absurd hh (by decide))
    · exact h2
  · have h2 := h1.updateHold x c
    split
    · exact h2.pushJ _ true (fun _ hh => by rw [noAck_ack] at hh; exact absurd hh (by decide))
    · exact h2

/-- the identity a `relock` classification names is that of a live holder -/
theorem classifyLock_relock {db : DB} (h : InvA db) {c : Cmd} {x : Nat} (e : classifyLock db c = .relock x) :
    x < db.nextHid ∧ (db.getR x).queued = false := by
  unfold classifyLock at e
  simp only [] at e
  split at e
  · simp at e
  · split at e
    · split at e
      · rename_i r hr
        have hm := findHolder_mem hr
        split at e
        · simp at e
        · split at e
          · simp at e; subst e
            rw [h.getR_of_mem hm.1]
            exact ⟨h.hidLt r hm.1, h.heldNQ r hm.1 hm.2⟩
          · simp at e
      · split at e <;> (try split at e) <;> simp at e
    · split at e <;> (try split at e) <;> simp at e

theorem InvA.opLock {db : DB} (h : InvA db) (c : Cmd) : InvA (opLock db c).1 := by
  unfold Slock.Ack.opLock
  cases e : classifyLock db c with
  | stateError => exact h
  | ackWaiting x => exact h
  | relockRefused x => exact h
  | timeout => exact h
  | relock x =>
    unfold applyLock
    simp only []
    exact (h.relockHold c x (classifyLock_relock h e)).wake _ _
  | grant =>
    unfold applyLock
    simp only []
    have h1 : InvA ((db.newRec c).1.grant (db.newRec c).2).1 := (h.newRec c).grant _ (h.newRec_unref c)
    split
    · exact h1.wake _ _
    · exact h1
  | ackGrant =>
    unfold applyLock
    simp only []
    have h1 : InvA ((db.newRec c).1.ackHold (db.newRec c).2) := (h.newRec c).ackHold _ (h.newRec_unref c)
    have h2 : InvA ((((db.newRec c).1.ackHold (db.newRec c).2).addTimeOut (db.newRec c).2).pushLock (db.newRec c).2).1 := by
      apply InvA.pushLock (h1.addTimeOut _)
      · rw [addTimeOut_nextHid, ackHold_nextHid, newRec_nextHid, newRec_snd]; omega
      · rw [queued_addTimeOut]; exact queued_ackHold_self _ _
    split
    · exact h2
    · exact h2.ackDone _ _
  | queue =>
    unfold applyLock
    simp only []
    apply InvA.ctrMod
    apply InvA.modKey
    apply InvA.addTimeOut
    -- the new record enters the queue: nothing refers to it yet
    have hn := h.newRec c
    obtain ⟨r0, e0, e1, e2, e3, _⟩ := newRec_recs db c
    have hg : ∀ a, a < db.nextHid →
        (((db.newRec c).1.modR (db.newRec c).2 (fun r => { r with queued := true })).getR a) = (db.newRec c).1.getR a := by
      intro a ha
      rw [getR_modR_ne _ _ _ (by intro _; rfl)]
      rw [newRec_snd]; omega
    refine ⟨?_, ?_, ?_, ?_, ?_⟩
    · rw [modR_recs, map_hid_modRecs _ _ (by intro _; rfl)]; exact hn.nodup
    · apply forall_modR _ _ _ hn.hidLt; intro r _ _ hr; exact hr
    · apply forall_modR (P := fun r => r.depth > 0 → r.queued = false) _ _ _ hn.heldNQ
      intro r hr e4 _ hd
      have hr' : r ∈ db.recs ++ [r0] := by rw [← e0]; exact hr
      rcases List.mem_append.mp hr' with hr' | hr'
      · have := h.hidLt r hr'; rw [newRec_snd] at e4; omega
      · simp at hr'; subst hr'; simp at hd; omega
    · intro j hj hl a ha
      have := h.jrn j hj hl a ha
      rw [hg a this.1, newRec_getR db c a (by omega)]
      exact ⟨by simp only [modR_nextHid, newRec_nextHid]; omega, this.2⟩
    · intro e0' he
      have := h.tabOk e0' he
      rw [hg e0'.hid this.1, newRec_getR db c e0'.hid (by omega)]
      exact ⟨by simp only [modR_nextHid, newRec_nextHid]; omega, this.2⟩

/-! ### UNLOCK, sweeps -/

theorem InvA.opUnlock {db : DB} (h : InvA db) (c : Cmd) : InvA (opUnlock db c).1 := by
  unfold Slock.Ack.opUnlock
  cases classifyUnlock db c with
  | stateError => unfold applyUnlock DB.bumpErr; dsimp only; exact h.ctrMod _
  | notLocked => unfold applyUnlock DB.bumpErr; dsimp only; exact h.ctrMod _
  | unown => unfold applyUnlock DB.bumpErr; dsimp only; exact h.ctrMod _
  | ackWaiting x => unfold applyUnlock DB.bumpErr; dsimp only; exact h.ctrMod _
  | dec x =>
    unfold applyUnlock; simp only []
    apply InvA.wake
    apply InvA.ctrMod
    apply InvA.journalUnlock
    apply InvA.modKey
    exact h.modR_holder x _ (by intro _; exact ⟨rfl, rfl, rfl⟩) (by intro r hd; simp at hd; omega)
  | release x =>
    unfold applyUnlock; simp only []
    apply InvA.wake
    apply InvA.ctrMod
    apply InvA.removeLock
    apply InvA.journalUnlock
    apply InvA.modKey
    exact h.modR_irrel x _ (irrel_expried true)

theorem InvA.dropWaiter {db : DB} (h : InvA db) (hid : Nat) : InvA (db.dropWaiter hid) := by
  have h0 : InvA (db.modR hid (fun r => { r with timeouted := true })) := h.modR_irrel hid _ (irrel_timeouted true)
  unfold DB.dropWaiter
  simp only []
  apply InvA.ctrMod
  have h1 : InvA ((db.modR hid (fun r => { r with timeouted := true })).modR hid (fun r => { r with queued := false })) := by
    apply InvA.modR h0 hid
    · intro _; rfl
    · intro r _ _ hq; simp at hq
    · intro r _ _ _; rfl
    · intro ⟨e, he, e1⟩ hp
      have := (h0.tabOk e he).2.2
      rw [e1] at this; exact this hp
  split
  · exact h1.modKey _ _
  · exact h1

theorem InvA.fireTimeout {db : DB} (h : InvA db) (hid : Nat) : InvA (fireTimeout db hid).1 := by
  have h0 : InvA (db.modR hid (fun r => { r with timeouted := true })) := h.modR_irrel hid _ (irrel_timeouted true)
  unfold Slock.Ack.fireTimeout
  simp only []
  split
  · exact ((h0.rollback hid).ctrMod _).wake _ _
  · exact (h.dropWaiter hid).wake _ _

theorem InvA.fireExpire {db : DB} (h : InvA db) (hid : Nat) : InvA (fireExpire db hid).1 := by
  unfold Slock.Ack.fireExpire
  simp only []
  split
  · exact (h.modR_irrel hid _ (by intro _; exact ⟨rfl, rfl, rfl, rfl⟩)).addExpried hid
  · apply InvA.wake
    apply InvA.ctrMod
    apply InvA.removeLock
    apply InvA.journalUnlock
    apply InvA.modKey
    exact h.modR_irrel hid _ (irrel_expried true)

theorem foldl_inv {α β : Type} (P : β → Prop) (f : β → α → β) (hf : ∀ b a, P b → P (f b a)) (l : List α) (b : β) (hb : P b) :
    P (l.foldl f b) := by
  induction l generalizing b with
  | nil => exact hb
  | cons x xs ih => exact ih _ (hf b x hb)

theorem InvA.timeoutStep (acc : DB × List Nat) (r0 : Rec) (h : InvA acc.1) : InvA (timeoutStep acc r0).1 := by
  unfold Slock.Ack.timeoutStep
  simp only []
  split
  · exact h.irrel' _ _ rfl (by intro _; exact ⟨rfl, rfl, rfl, rfl⟩) rfl rfl rfl
  · exact h

theorem InvA.expireStep (acc : DB × List Nat) (r0 : Rec) (h : InvA acc.1) : InvA (expireStep acc r0).1 := by
  unfold Slock.Ack.expireStep
  simp only []
  split
  · exact h.irrel' _ _ rfl (by intro _; exact ⟨rfl, rfl, rfl, rfl⟩) rfl rfl rfl
  · exact h

theorem InvA.fireTimeoutStep (acc : DB × List Reply) (hid : Nat) (h : InvA acc.1) : InvA (fireTimeoutStep acc hid).1 := by
  unfold Slock.Ack.fireTimeoutStep
  split
  · exact h
  · exact h.fireTimeout hid

theorem InvA.fireExpireStep (acc : DB × List Reply) (hid : Nat) (h : InvA acc.1) : InvA (fireExpireStep acc hid).1 := by
  unfold Slock.Ack.fireExpireStep
  split
  · exact h
  · exact h.fireExpire hid

theorem InvA.sweepTimeout {db : DB} (h : InvA db) (c : Nat) : InvA (sweepTimeout db c).1 := by
  unfold Slock.Ack.sweepTimeout
  simp only []
  apply foldl_inv (fun acc : DB × List Reply => InvA acc.1) _ (fun b a hb => InvA.fireTimeoutStep b a hb)
  exact foldl_inv (fun acc : DB × List Nat => InvA acc.1) _ (fun b a hb => InvA.timeoutStep b a hb) _ _ h

theorem InvA.sweepExpire {db : DB} (h : InvA db) (c : Nat) : InvA (sweepExpire db c).1 := by
  unfold Slock.Ack.sweepExpire
  simp only []
  apply foldl_inv (fun acc : DB × List Reply => InvA acc.1) _ (fun b a hb => InvA.fireExpireStep b a hb)
  exact foldl_inv (fun acc : DB × List Nat => InvA acc.1) _ (fun b a hb => InvA.expireStep b a hb) _ _ h

theorem InvA.opTick {db : DB} (h : InvA db) : InvA (opTick db).1 := by
  unfold Slock.Ack.opTick
  simp only []
  apply InvA.sweepExpire
  have h0 : InvA ({ db with now := db.now + 1, tCheck := db.now + 1 + 1 } : DB) := h.frame rfl rfl rfl rfl
  exact (h0.sweepTimeout (db.now + 1)).frame rfl rfl rfl rfl

/-! ### the ack table -/

theorem InvA.dropEnt {db : DB} (h : InvA db) (id : Nat) : InvA (db.dropEnt id) :=
  h.sub rfl rfl (fun e he => (List.mem_filter.mp he).1) (fun _ x => x)

theorem InvX.dropEnt {db : DB} {x : Nat} (h : InvX db x) (id : Nat) : InvX (db.dropEnt id) x :=
  h.sub rfl rfl (fun e he => (List.mem_filter.mp he).1) (fun _ x => x)

theorem InvA.leaderPushLock {db : DB} (h : InvA db) (id hid : Nat) (hlt : hid < db.nextHid) (hq : (db.getR hid).queued = false) :
    InvA (leaderPushLock db id hid).1 := by
  unfold Slock.Ack.leaderPushLock
  split
  · exact h.ackDone _ _
  · split
    · exact h.ackDone _ _
    · simp only []
      have h1 : InvA (db.modR hid (fun r => { r with ack := reqAcks db.cfg })) := by
        apply InvA.modR h hid
        · intro _; rfl
        · intro r _ _ hq; exact hq
        · intro r hr _ hd; exact h.heldNQ r hr hd
        · intro _ _; exact reqAcks_pos _
      have hg : ∀ a, ({ db.modR hid (fun r => { r with ack := reqAcks db.cfg }) with
          tab := db.tab ++ [{ id := id, req := (db.getR hid).cmd.req, hid := hid }] } : DB).getR a =
          (db.modR hid (fun r => { r with ack := reqAcks db.cfg })).getR a := fun a => getR_frame rfl a
      refine ⟨h1.nodup, h1.hidLt, h1.heldNQ, ?_, ?_⟩
      · intro j hj hl a ha; rw [hg]; exact h1.jrn j hj hl a ha
      intro e he
      rw [hg]
      rcases List.mem_append.mp he with he | he
      · exact h1.tabOk e he
      · simp at he; subst he
        refine ⟨hlt, ?_, ?_⟩
        · show ((db.modR hid _).getR hid).queued = false
          rw [queued_modR_pres _ hid _ (by intro _; rfl) (by intro _; rfl)]; exact hq
        · intro hp
          show ((db.modR hid _).getR hid).ack ≥ 1
          rw [getR_modR db hid _ (by intro _; rfl)] at hp ⊢
          simp only [if_true] at hp ⊢
          cases e : findR db.recs hid with
          | some r => simp; exact reqAcks_pos _
          | none =>
            rw [e] at hp; simp at hp
            rw [getR_eq, e] at hp
            simp [deadRec, Rec.pending, NOACK] at hp

theorem InvA.leaderPushUnLock {db : DB} (h : InvA db) (hid : Nat) : InvA (leaderPushUnLock db hid).1 := by
  unfold Slock.Ack.leaderPushUnLock
  split
  · exact (h.dropEnt _).ackDone _ _
  · exact h

/-- the journal after the oldest record of key `k` was taken out -/
def popJ (db : DB) (k : Nat) : DB := { db with journal := db.journal.eraseP (·.key == k), nextId := db.nextId + 1 }

theorem opPush_eq (db : DB) (k : Nat) (werr : Bool) : opPush db k werr =
    match db.journal.find? (·.key == k) with
    | none => (db, [])
    | some j =>
      match j.hid with
      | none => (popJ db k, [])
      | some hid =>
        let r1 := if (popJ db k).leader then (if j.isLock then leaderPushLock (popJ db k) (popJ db k).nextId hid else leaderPushUnLock (popJ db k) hid)
                  else (popJ db k, [])
        if werr && j.isLock then let r2 := ackDone r1.1 hid false; (r2.1, r1.2 ++ r2.2) else r1 := rfl

theorem InvA.popJ {db : DB} (h : InvA db) (k : Nat) : InvA (popJ db k) :=
  h.sub rfl rfl (fun _ x => x) (fun j hj => (List.eraseP_sublist).subset hj)

theorem InvA.opPush {db : DB} (h : InvA db) (k : Nat) (werr : Bool) : InvA (opPush db k werr).1 := by
  rw [opPush_eq]
  split
  · exact h
  · rename_i j hj
    have hjm : j ∈ db.journal := List.mem_of_find?_eq_some hj
    have h1 := h.popJ k
    split
    · exact h1
    · rename_i hid hh
      have h2 : InvA (if (Slock.Ack.popJ db k).leader = true then (if j.isLock = true then Slock.Ack.leaderPushLock (Slock.Ack.popJ db k) (Slock.Ack.popJ db k).nextId hid
          else Slock.Ack.leaderPushUnLock (Slock.Ack.popJ db k) hid) else (Slock.Ack.popJ db k, [])).1 := by
        split
        · split
          · rename_i hl
            have := h.jrn j hjm hl hid hh
            exact h1.leaderPushLock _ _ this.1 this.2
          · exact h1.leaderPushUnLock _
        · exact h1
      dsimp only
      split
      · exact h2.ackDone _ _
      · exact h2

theorem mem_noteOk {id : Nat} {who : Option Nat} {l : List Ent} {x : Ent} (h : x ∈ noteOk id who l) :
    ∃ e0 ∈ l, x.id = e0.id ∧ x.hid = e0.hid ∧ x.req = e0.req := by
  induction l with
  | nil => simp [noteOk] at h
  | cons y ys ih =>
    unfold noteOk at h
    split at h
    · rcases List.mem_cons.mp h with e | e
      · refine ⟨y, List.mem_cons_self, ?_⟩
        rw [e]; exact ⟨rfl, rfl, rfl⟩
      · exact ⟨x, List.mem_cons_of_mem _ e, rfl, rfl, rfl⟩
    · rcases List.mem_cons.mp h with e | e
      · exact ⟨y, List.mem_cons_self, by rw [e], by rw [e], by rw [e]⟩
      · obtain ⟨e0, h0, r⟩ := ih e
        exact ⟨e0, List.mem_cons_of_mem _ h0, r⟩

theorem InvA.opReport {db : DB} (h : InvA db) (id : Nat) (who : Option Nat) (ok : Bool) : InvA (opReport db id who ok).1 := by
  unfold Slock.Ack.opReport
  split
  · exact h
  · rename_i e he
    have hem : e ∈ db.tab := List.mem_of_find?_eq_some he
    simp only []
    split
    · exact (h.dropEnt id).ackDone _ _
    · rename_i hc
      have hp : (db.getR e.hid).pending = true := by
        cases hh : (db.getR e.hid).pending with
        | true => rfl
        | false => simp [hh] at hc
      split
      · rename_i hpos
        -- the decremented counter is still positive
        have h1 : InvA (db.modR e.hid (fun r => { r with ack := decU8 r.ack })) := by
          apply InvA.modR h e.hid
          · intro _; rfl
          · intro r _ _ hq; exact hq
          · intro r hr _ hd; exact h.heldNQ r hr hd
          · intro _ _; simp only []; omega
        refine ⟨h1.nodup, h1.hidLt, h1.heldNQ, h1.jrn, ?_⟩
        intro e' he'
        obtain ⟨e0, he0, _, e2, _⟩ := mem_noteOk he'
        have := h1.tabOk e0 he0
        rw [e2]; exact this
      · -- the last decrement: `DoAckLock(lock, true)` on the record whose counter just reached zero
        have h1 : InvX (db.modR e.hid (fun r => { r with ack := decU8 r.ack })) e.hid := by
          apply InvX.modR (h.toX e.hid) e.hid
          · intro _; rfl
          · intro r _ _ hq; exact hq
          · intro r hr _ hd; exact h.heldNQ r hr hd
          · intro hne; exact absurd rfl hne
        apply InvX.ackDone_true (h1.dropEnt id)
        show ((db.modR e.hid _).getR e.hid).pending = true
        rw [getR_modR db e.hid _ (by intro _; rfl)]
        simp only [if_true]
        have hge := (h.tabOk e hem).2.2 hp
        cases e2 : findR db.recs e.hid with
        | none => rw [getR_eq, e2] at hp; simp [deadRec, Rec.pending, NOACK] at hp
        | some r =>
          simp
          have hr : db.getR e.hid = r := by rw [getR_eq, e2]; rfl
          rw [hr] at hge
          unfold Rec.pending decU8 NOACK
          simp
          rename_i hneg
          rw [hr] at hneg ⊢
          unfold decU8 at hneg
          split at hneg <;> omega

theorem InvA.opFailAll {db : DB} (h : InvA db) (order : List Nat) : InvA (opFailAll db order).1 := by
  unfold Slock.Ack.opFailAll
  simp only []
  have h1 := foldl_inv (fun acc : DB × List Reply => InvA acc.1) failStep (fun b a hb => by unfold failStep; exact InvA.ackDone hb a false)
    (order.filterMap (fun id => (db.findId id).map (·.hid)) ++ (db.tab.filter (fun e => !order.contains e.id)).map (·.hid)) (db, []) h
  exact h1.sub rfl rfl (fun e he => by simp at he) (fun _ x => x)

theorem InvA.step {db : DB} (h : InvA db) (e : Ev) : InvA (step db e).1 := by
  cases e with
  | lock c => exact h.opLock c
  | unlock c => exact h.opUnlock c
  | tick => exact h.opTick
  | push k => exact h.opPush k false
  | pushW k => exact h.opPush k true
  | aofed id ok => unfold Slock.Ack.step opAofed; simp only []; split; exact h.opReport _ _ _; exact h
  | acked id f ok => exact h.opReport _ _ _
  | role b => exact h.frame rfl rfl rfl rfl
  | closed b => exact h.frame rfl rfl rfl rfl
  | demote o => exact h.opFailAll o
  | flush o => exact h.opFailAll o

theorem InvA.init (cfg : Cfg) (now : Nat) : InvA (DB.init cfg now) := by
  refine ⟨by simp [DB.init], ?_, ?_, ?_, ?_⟩ <;> intro x hx <;> simp [DB.init] at hx

theorem InvA.run {db : DB} (h : InvA db) (evs : List Ev) : InvA (run db evs) := by
  unfold Slock.Ack.run
  exact foldl_inv InvA _ (fun b e hb => hb.step e) evs db h

end Slock.Ack
